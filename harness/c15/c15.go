// Package c15: correspondence of protocol/header with the Lean model and the RFC oracle.
package c15

import (
	"fmt"
	"strings"

	"github.com/brewlin/net-protocol/pkg/seqnum"
	tcpip "github.com/brewlin/net-protocol/protocol"
	"github.com/brewlin/net-protocol/protocol/header"
	"vharness/hx"
)

func guard(f func() string) (s string) {
	defer func() {
		if e := recover(); e != nil {
			s = "panic"
		}
	}()
	return f()
}

func clone(b []byte) []byte {
	c := make([]byte, len(b))
	copy(c, b)
	return c
}

func showSyn(o header.TCPSynOptions) string {
	return fmt.Sprintf("%d %d %s %d %d %s", o.MSS, o.WS, hx.B(o.TS), o.TSVal, o.TSEcr, hx.B(o.SACKPermitted))
}

func showTCP(o header.TCPOptions) string {
	bl := "nil"
	if o.SACKBlocks != nil {
		var p []string
		for _, b := range o.SACKBlocks {
			p = append(p, fmt.Sprintf("%d-%d", uint32(b.Start), uint32(b.End)))
		}
		bl = "[" + strings.Join(p, ",") + "]"
	}
	return fmt.Sprintf("%s %d %d %s", hx.B(o.TS), o.TSVal, o.TSEcr, bl)
}

func ipv4Getters(b header.IPv4, pkt int) string {
	calc := guard(func() string { return fmt.Sprint(b.CalculateChecksum()) })
	return fmt.Sprintf("%d %d %d %d %d %d %d %s %s", b.HeaderLength(), b.ID(), b.Flags(), b.FragmentOffset(), b.TotalLength(),
		b.Checksum(), b.PayloadLength(), hx.B(b.IsValid(pkt)), calc)
}

// field generators: exhaustive-ish for small fields in thorough, boundary-biased otherwise
func u8(r *hx.Run) int  { return int(r.U16() & 0xff) }
func u16(r *hx.Run) int { return int(r.U16()) }

func cksumCase(r *hx.Run, buf []byte, init uint16) {
	res := guard(func() string { return fmt.Sprint(header.Checksum(buf, init)) })
	r.Count(fmt.Sprintf("cksum.len%%2=%d", len(buf)%2))
	r.Emit(fmt.Sprintf("cksum %s %d", hx.Hex(buf), init), res)
}

func Gen(r *hx.Run) {
	// ---- checksum: every length 0..N, all-ones / all-zero / random content, boundary inits
	maxLen := r.Pick(300, 2048)
	for l := 0; l <= maxLen; l++ {
		for k := 0; k < 3; k++ {
			buf := make([]byte, l)
			switch k {
			case 0:
				for i := range buf {
					buf[i] = 0xff
				}
			case 1:
			default:
				r.R.Read(buf)
			}
			cksumCase(r, buf, r.U16())
		}
	}
	for _, l := range []int{4095, 4096, 8191, 9000, 65535, 65536} {
		if !r.Thorough() && l > 9000 {
			continue
		}
		buf := make([]byte, l)
		for i := range buf {
			buf[i] = 0xff
		}
		cksumCase(r, buf, 0xffff)
		r.R.Read(buf)
		cksumCase(r, buf, r.U16())
	}
	// all 2^16 initial values on a length sweep (thorough) / sample (quick)
	step := r.Pick(97, 1)
	for init := 0; init < 65536; init += step {
		l := init % 7
		cksumCase(r, r.Bytes(l), uint16(init))
	}
	n := r.Pick(20000, 400000)
	for i := 0; i < n/4; i++ {
		a, b := r.U16(), r.U16()
		r.Count("combine")
		r.Emit(fmt.Sprintf("combine %d %d", a, b), fmt.Sprint(header.ChecksumCombine(a, b)))
	}
	if r.Thorough() {
		// ChecksumCombine: all pairs with a in a boundary set, all b
		for _, a := range []uint16{0, 1, 0x7fff, 0x8000, 0xfffe, 0xffff} {
			for b := 0; b < 65536; b++ {
				r.Emit(fmt.Sprintf("combine %d %d", a, b), fmt.Sprint(header.ChecksumCombine(a, uint16(b))))
			}
		}
	}
	for i := 0; i < n; i++ {
		switch r.R.Intn(17) {
		case 0:
			src, dst := r.Bytes(4), r.Bytes(4)
			if r.R.Intn(2) == 0 {
				src, dst = r.Bytes(16), r.Bytes(16)
			}
			p := u8(r)
			r.Count("pseudo")
			r.Emit(fmt.Sprintf("pseudo %d %s %s", p, hx.Hex(src), hx.Hex(dst)),
				fmt.Sprint(header.PseudoHeaderChecksum(tcpip.TransportProtocolNumber(p), tcpip.Address(src), tcpip.Address(dst))))
		case 1, 2:
			old := r.Bytes(20 + r.R.Intn(8))
			f := header.IPv4Fields{IHL: uint8(u8(r)), TOS: uint8(u8(r)), TotalLength: r.U16(), ID: r.U16(), Flags: uint8(u8(r)),
				FragmentOffset: r.U16(), TTL: uint8(u8(r)), Protocol: uint8(u8(r)), Checksum: r.U16(),
				SrcAddr: tcpip.Address(r.Bytes(4)), DstAddr: tcpip.Address(r.Bytes(4))}
			if r.R.Intn(3) == 0 {
				f.IHL = 20
				f.Flags &= 7
			}
			line := fmt.Sprintf("ipv4enc %s %d %d %d %d %d %d %d %d %d %s %s", hx.Hex(old), f.IHL, f.TOS, f.TotalLength, f.ID, f.Flags,
				f.FragmentOffset, f.TTL, f.Protocol, f.Checksum, hx.Hex([]byte(f.SrcAddr)), hx.Hex([]byte(f.DstAddr)))
			res := guard(func() string {
				b := header.IPv4(clone(old))
				b.Encode(&f)
				return hx.Hex(b) + " " + ipv4Getters(b, len(b))
			})
			r.Count("ipv4enc")
			r.Emit(line, res)
		case 3:
			b := r.Bytes(20 + r.R.Intn(45))
			if r.R.Intn(2) == 0 {
				b[0] = 0x40 | byte(5+r.R.Intn(11))
			}
			pkt := r.R.Intn(70000)
			if r.R.Intn(2) == 0 {
				pkt = int(header.IPv4(b).TotalLength()) + r.R.Intn(3) - 1
				if pkt < 0 {
					pkt = 0
				}
			}
			r.Count("ipv4get")
			r.Emit(fmt.Sprintf("ipv4get %s %d", hx.Hex(b), pkt), guard(func() string { return ipv4Getters(header.IPv4(b), pkt) }))
		case 4:
			b := r.Bytes(20)
			b[0] = 0x45
			b[10], b[11] = 0, 0
			tl := r.U16()
			// partial = sum of the header with length and checksum zero (what ipv4.WritePacket-style callers hold), or random
			tmp := clone(b)
			tmp[2], tmp[3] = 0, 0
			part := header.Checksum(tmp, 0)
			if r.R.Intn(4) == 0 {
				part = r.U16()
			}
			r.Count("ipv4part")
			r.Emit(fmt.Sprintf("ipv4part %s %d %d", hx.Hex(b), part, tl), guard(func() string {
				c := header.IPv4(clone(b))
				c.EncodePartial(part, tl)
				return hx.Hex(c)
			}))
		case 5, 6:
			old := r.Bytes(20 + r.R.Intn(8))
			f := header.TCPFields{SrcPort: r.U16(), DstPort: r.U16(), SeqNum: r.U32(), AckNum: r.U32(), DataOffset: uint8(u8(r)),
				Flags: uint8(u8(r)), WindowSize: r.U16(), Checksum: r.U16(), UrgentPointer: r.U16()}
			r.Count("tcpenc")
			r.Emit(fmt.Sprintf("tcpenc %s %d %d %d %d %d %d %d %d %d", hx.Hex(old), f.SrcPort, f.DstPort, f.SeqNum, f.AckNum, f.DataOffset,
				f.Flags, f.WindowSize, f.Checksum, f.UrgentPointer), guard(func() string {
				b := header.TCP(clone(old))
				b.Encode(&f)
				return fmt.Sprintf("%s %d", hx.Hex(b), b.DataOffset())
			}))
		case 7:
			b := r.Bytes(20 + r.R.Intn(3)*4)
			b[12] = byte(len(b)/4) << 4
			p, l, sq, ak, fl, w := r.U16(), r.U16(), r.U32(), r.U32(), uint8(u8(r)), r.U16()
			r.Count("tcppart")
			r.Emit(fmt.Sprintf("tcppart %s %d %d %d %d %d %d", hx.Hex(b), p, l, sq, ak, fl, w), guard(func() string {
				c := header.TCP(clone(b))
				c.EncodePartial(p, l, sq, ak, fl, w)
				return hx.Hex(c)
			}))
			p2, l2 := r.U16(), r.U16()
			r.Emit(fmt.Sprintf("tcpcalc %s %d %d", hx.Hex(b), p2, l2), guard(func() string {
				return fmt.Sprint(header.TCP(b).CalculateChecksum(p2, l2))
			}))
		case 8:
			old := r.Bytes(8 + r.R.Intn(4))
			f := header.UDPFields{SrcPort: r.U16(), DstPort: r.U16(), Length: r.U16(), Checksum: r.U16()}
			r.Count("udpenc")
			r.Emit(fmt.Sprintf("udpenc %s %d %d %d %d", hx.Hex(old), f.SrcPort, f.DstPort, f.Length, f.Checksum), guard(func() string {
				b := header.UDP(clone(old))
				b.Encode(&f)
				return hx.Hex(b)
			}))
			p2, l2 := r.U16(), r.U16()
			r.Emit(fmt.Sprintf("udpcalc %s %d %d", hx.Hex(old), p2, l2), guard(func() string {
				return fmt.Sprint(header.UDP(old).CalculateChecksum(p2, l2))
			}))
		case 9:
			old := r.Bytes(14 + r.R.Intn(3))
			s, d, ty := r.Bytes(6), r.Bytes(6), r.U16()
			r.Count("ethenc")
			r.Emit(fmt.Sprintf("ethenc %s %s %s %d", hx.Hex(old), hx.Hex(s), hx.Hex(d), ty), guard(func() string {
				b := header.Ethernet(clone(old))
				b.Encode(&header.EthernetFields{SrcAddr: tcpip.LinkAddress(s), DstAddr: tcpip.LinkAddress(d), Type: tcpip.NetworkProtocolNumber(ty)})
				return hx.Hex(b)
			}))
		case 10:
			old := r.Bytes(40 + r.R.Intn(3))
			f := header.IPv6Fields{TrafficClass: uint8(u8(r)), FlowLabel: r.U32(), PayloadLength: r.U16(), NextHeader: uint8(u8(r)),
				HopLimit: uint8(u8(r)), SrcAddr: tcpip.Address(r.Bytes(16)), DstAddr: tcpip.Address(r.Bytes(16))}
			r.Count("ipv6enc")
			r.Emit(fmt.Sprintf("ipv6enc %s %d %d %d %d %d %s %s", hx.Hex(old), f.TrafficClass, f.FlowLabel, f.PayloadLength, f.NextHeader,
				f.HopLimit, hx.Hex([]byte(f.SrcAddr)), hx.Hex([]byte(f.DstAddr))), guard(func() string {
				b := header.IPv6(clone(old))
				b.Encode(&f)
				return hx.Hex(b)
			}))
			b := r.Bytes(38 + r.R.Intn(6))
			pkt := int(r.U16()) + r.R.Intn(50) - 5
			if len(b) >= 6 && r.R.Intn(2) == 0 {
				pkt = int(b[4])<<8 + int(b[5]) + 40 + r.R.Intn(3) - 1
			}
			r.Emit(fmt.Sprintf("ipv6valid %s %d", hx.Hex(b), pkt), guard(func() string { return hx.B(header.IPv6(b).IsValid(pkt)) }))
		case 11:
			old := r.Bytes(28 + r.R.Intn(3))
			op := r.U16()
			sha, spa, tha, tpa := r.Bytes(6), r.Bytes(4), r.Bytes(6), r.Bytes(4)
			r.Count("arp")
			r.Emit(fmt.Sprintf("arp %s %d %s %s %s %s", hx.Hex(old), op, hx.Hex(sha), hx.Hex(spa), hx.Hex(tha), hx.Hex(tpa)), guard(func() string {
				a := header.ARP(clone(old))
				a.SetIpv4OverEthernet()
				a.SetOp(header.ARPOp(op))
				copy(a.HardwareAddressSender(), sha)
				copy(a.ProtocolAddressSender(), spa)
				copy(a.HardwareAddressTarget(), tha)
				copy(a.ProtocolAddressTarget(), tpa)
				return hx.Hex(a) + " " + hx.B(a.IsValid())
			}))
			b := r.Bytes(26 + r.R.Intn(5))
			if r.R.Intn(2) == 0 && len(b) >= 6 {
				copy(b, []byte{0, 1, 8, 0, 6, 4})
				if r.R.Intn(3) == 0 {
					b[r.R.Intn(6)] ^= 1 << uint(r.R.Intn(8))
				}
			}
			r.Emit(fmt.Sprintf("arpvalid %s", hx.Hex(b)), guard(func() string { return hx.B(header.ARP(b).IsValid()) }))
		case 12:
			// random / mutated option bytes: totality
			b := optBytes(r)
			ack := r.R.Intn(2) == 0
			r.Count("synopts")
			r.Emit(fmt.Sprintf("synopts %s %s", hx.Hex(b), hx.B(ack)), guard(func() string { return showSyn(header.ParseSynOptions(b, ack)) }))
		case 13:
			b := optBytes(r)
			r.Count("tcpopts")
			r.Emit(fmt.Sprintf("tcpopts %s", hx.Hex(b)), guard(func() string { return showTCP(header.ParseTCPOptions(b)) }))
		case 14:
			mss := u16(r)
			ws := r.R.Intn(17) - 1
			if r.R.Intn(8) == 0 {
				ws = r.R.Intn(256)
			}
			ts, sp := r.R.Intn(2) == 0, r.R.Intn(2) == 0
			tv, te := r.U32(), r.U32()
			r.Count("synrt")
			r.Emit(fmt.Sprintf("synrt %d %d %s %d %d %s", mss, ws, hx.B(ts), tv, te, hx.B(sp)), guard(func() string {
				buf := make([]byte, 40)
				off := header.EncodeMSSOption(uint32(mss), buf)
				if ws >= 0 {
					off += header.EncodeWSOption(ws, buf[off:])
				}
				if ts {
					off += header.EncodeTSOption(tv, te, buf[off:])
				}
				if sp {
					off += header.EncodeSACKPermittedOption(buf[off:])
				}
				off += header.AddTCPOptionPadding(buf, off)
				return hx.Hex(buf[:off]) + " " + showSyn(header.ParseSynOptions(buf[:off], true))
			}))
		case 15:
			ts := r.R.Intn(2) == 0
			tv, te := r.U32(), r.U32()
			nb := r.R.Intn(6)
			var bl []header.SACKBlock
			line := fmt.Sprintf("optrt %s %d %d", hx.B(ts), tv, te)
			for k := 0; k < nb; k++ {
				s, e := r.U32(), r.U32()
				bl = append(bl, header.SACKBlock{Start: seqnum.Value(s), End: seqnum.Value(e)})
				line += fmt.Sprintf(" %d %d", s, e)
			}
			r.Count("optrt")
			r.Emit(line, guard(func() string {
				buf := make([]byte, 60)
				off := 0
				if ts {
					off += header.EncodeTSOption(tv, te, buf)
					off += header.EncodeNOP(buf[off:])
					off += header.EncodeNOP(buf[off:])
				}
				if len(bl) > 0 {
					off += header.EncodeNOP(buf[off:])
					off += header.EncodeNOP(buf[off:])
					off += header.EncodeSACKBlocks(bl, buf[off:])
				}
				off += header.AddTCPOptionPadding(buf, off)
				return hx.Hex(buf[:off]) + " " + showTCP(header.ParseTCPOptions(buf[:off]))
			}))
		case 16:
			n := r.R.Intn(44)
			nb := r.R.Intn(6)
			var bl []header.SACKBlock
			line := fmt.Sprintf("sack %d", n)
			for k := 0; k < nb; k++ {
				s, e := r.U32(), r.U32()
				bl = append(bl, header.SACKBlock{Start: seqnum.Value(s), End: seqnum.Value(e)})
				line += fmt.Sprintf(" %d %d", s, e)
			}
			r.Count("sack")
			r.Emit(line, guard(func() string {
				buf := make([]byte, n)
				k := header.EncodeSACKBlocks(bl, buf)
				return fmt.Sprintf("%s %d", hx.Hex(buf), k)
			}))
			off := r.R.Intn(44)
			r.Emit(fmt.Sprintf("pad %d", off), guard(func() string {
				return fmt.Sprint(header.AddTCPOptionPadding(make([]byte, 64), off))
			}))
		}
	}
}

// optBytes: structure-aware option strings: valid options, truncated, bad lengths, noise.
func optBytes(r *hx.Run) []byte {
	var b []byte
	if r.R.Intn(3) == 0 {
		// the layouts real stacks emit: options in 32-bit aligned groups, NOPs in front of each
		// (NOP NOP TS, NOP NOP SACK(n), MSS, NOP WS, SACK-permitted NOP NOP ...), in any order
		r.Count("opts.aligned-groups")
		for i := 1 + r.R.Intn(4); i > 0; i-- {
			for k := r.R.Intn(3); k > 0; k-- {
				b = append(b, 1)
			}
			switch r.R.Intn(5) {
			case 0:
				b = append(b, 8, 10)
				b = append(b, r.Bytes(8)...)
			case 1:
				k := 1 + r.R.Intn(4)
				b = append(b, 5, byte(2+8*k))
				b = append(b, r.Bytes(8*k)...)
			case 2:
				b = append(b, 2, 4, byte(r.R.Intn(256)), byte(r.R.Intn(256)))
			case 3:
				b = append(b, 3, 3, byte(r.R.Intn(15)))
			default:
				b = append(b, 4, 2)
			}
		}
		for len(b)%4 != 0 {
			b = append(b, []byte{0, 1}[r.R.Intn(2)])
		}
		return b
	}
	n := r.R.Intn(6)
	for i := 0; i < n; i++ {
		switch r.R.Intn(9) {
		case 0:
			b = append(b, 1)
		case 1:
			b = append(b, 2, 4, byte(r.R.Intn(256)), byte(r.R.Intn(256)))
		case 2:
			b = append(b, 3, 3, byte(r.R.Intn(20)))
		case 3:
			b = append(b, 4, 2)
		case 4:
			b = append(b, 8, 10)
			b = append(b, r.Bytes(8)...)
		case 5:
			k := r.R.Intn(5)
			b = append(b, 5, byte(2+8*k))
			b = append(b, r.Bytes(8*k)...)
		case 6:
			l := 2 + r.R.Intn(6)
			b = append(b, byte(9+r.R.Intn(240)), byte(l))
			b = append(b, r.Bytes(l-2)...)
		case 7:
			b = append(b, 0)
		case 8:
			b = append(b, r.Bytes(r.R.Intn(4))...)
		}
	}
	switch r.R.Intn(5) {
	case 0:
		if len(b) > 0 {
			b = b[:r.R.Intn(len(b))]
		}
	case 1:
		if len(b) > 0 {
			b[r.R.Intn(len(b))] = byte(r.R.Intn(256))
		}
	}
	return b
}
