// Package c06: every frame any scenario makes the stack emit is captured at the link endpoint (network-layer
// packets on the in-memory links, Ethernet frames behind the fd-based endpoint), together with the context
// needed to judge its addressing, and handed to the RFC validator / the model's constructors.
package c06

import (
	"encoding/binary"
	"fmt"
	"os"
	"sync"
	"syscall"
	"time"

	"github.com/brewlin/net-protocol/pkg/waiter"
	tcpip "github.com/brewlin/net-protocol/protocol"
	"github.com/brewlin/net-protocol/protocol/header"
	"github.com/brewlin/net-protocol/protocol/link/fdbased"
	"github.com/brewlin/net-protocol/protocol/network/arp"
	"github.com/brewlin/net-protocol/protocol/transport/tcp"
	"github.com/brewlin/net-protocol/protocol/transport/udp"
	"github.com/brewlin/net-protocol/stack"
	"vharness/c12"
	"vharness/hx"
	"vharness/netsim"
	"vharness/netw"
	"vharness/tcpw"
)

type flowKey struct {
	l            *netsim.Link
	src, dst     string
	sport, dport uint16
}

type captured struct {
	l     *netsim.Link
	proto tcpip.NetworkProtocolNumber
	b     []byte
}

var (
	mu     sync.Mutex
	frames []captured
	flows  = map[flowKey]bool{}
)

// ports of a transport message inside a network packet (0,0 when it has none / is not parseable)
func transportOf(proto tcpip.NetworkProtocolNumber, b []byte) (src, dst []byte, tp uint8, sp, dp uint16, ok bool) {
	var p []byte
	switch proto {
	case header.IPv4ProtocolNumber:
		if len(b) < 20 {
			return
		}
		ihl := int(b[0]&15) * 4
		if ihl < 20 || ihl > len(b) {
			return
		}
		src, dst, tp, p = b[12:16], b[16:20], b[9], b[ihl:]
	case header.IPv6ProtocolNumber:
		if len(b) < 40 {
			return
		}
		src, dst, tp, p = b[8:24], b[24:40], b[6], b[40:]
	default:
		return
	}
	ok = true
	if (tp == 6 || tp == 17) && len(p) >= 4 {
		sp, dp = binary.BigEndian.Uint16(p[0:]), binary.BigEndian.Uint16(p[2:])
	}
	return
}

func install() {
	netsim.Tap = func(l *netsim.Link, r *stack.Route, f netsim.Frame) {
		mu.Lock()
		frames = append(frames, captured{l, f.Proto, append([]byte{}, f.Bytes...)})
		mu.Unlock()
	}
	netsim.InjectTap = func(l *netsim.Link, proto tcpip.NetworkProtocolNumber, b []byte) {
		src, dst, _, sp, dp, ok := transportOf(proto, b)
		if !ok {
			return
		}
		mu.Lock()
		flows[flowKey{l, string(src), string(dst), sp, dp}] = true
		flows[flowKey{l, string(src), string(dst), 0, 0}] = true
		mu.Unlock()
	}
}

// firstRouteNIC: the NIC of the first route entry that matches the destination and whose NIC owns the source
// address (a socket bound to an address of one interface is routed over that interface).
func firstRouteNIC(s *stack.Stack, proto tcpip.NetworkProtocolNumber, src, dst []byte) tcpip.NICID {
	for _, rt := range netsim.Routes(s) {
		if len(rt.Destination) != len(dst) {
			continue
		}
		m := true
		for i := range dst {
			if dst[i]&rt.Mask[i] != rt.Destination[i] {
				m = false
				break
			}
		}
		if m && s.CheckLocalAddress(rt.NIC, proto, tcpip.Address(src)) == rt.NIC {
			return rt.NIC
		}
	}
	return 0
}

func b01(x bool) int {
	if x {
		return 1
	}
	return 0
}

// flush judges and emits the frames captured so far (the world that produced them is complete: its sockets'
// ports are all noted).
func flush(r *hx.Run, label string, limit int) {
	mu.Lock()
	fs := frames
	frames = nil
	mu.Unlock()
	n := 0
	for _, c := range fs {
		if n >= limit {
			break
		}
		ctx := ""
		if c.proto == header.IPv4ProtocolNumber || c.proto == header.IPv6ProtocolNumber {
			src, dst, tp, sp, dp, ok := transportOf(c.proto, c.b)
			if ok && c.l.Stack != nil {
				mu.Lock()
				answers := flows[flowKey{c.l, string(dst), string(src), dp, sp}] || ((tp == 1 || tp == 58) && flows[flowKey{c.l, string(dst), string(src), 0, 0}])
				mu.Unlock()
				srcOK := c.l.Stack.CheckLocalAddress(c.l.NIC, c.proto, tcpip.Address(src)) == c.l.NIC || answers
				nicOK := firstRouteNIC(c.l.Stack, c.proto, src, dst) == c.l.NIC || answers
				portOK := true
				if tp == 6 || tp == 17 {
					portOK = netsim.PortNoted(c.l.Stack, sp) || answers
				}
				ctx = fmt.Sprintf(" src_ok=%d nic_ok=%d port_ok=%d", b01(srcOK), b01(nicOK), b01(portOK))
			}
		}
		r.Count(label)
		r.Emit(fmt.Sprintf("frame net %d %s w=%s%s", uint16(c.proto), hx.Hex(c.b), label, ctx), hx.Hex(c.b))
		n++
	}
	mu.Lock()
	flows = map[flowKey]bool{}
	mu.Unlock()
}

func silent(r *hx.Run, name string, seed int64) *hx.Run {
	return hx.NewRun(fmt.Sprintf("%s/sub-%s", r.Dir, name), r.Tier, seed)
}

// crafted payloads: two trailing bytes chosen so that the UDP checksum the stack computes comes out as 0x0000
// (the one's-complement sum of pseudo header, header and payload is 0xffff)
func craftedUDP(r *hx.Run) {
	s := netsim.NewStack()
	lid, l := netsim.NewLink(65536, "", 0)
	netsim.CreateNIC(s, 1, lid, l)
	a4, r4 := []byte{10, 0, 0, 1}, []byte{10, 0, 0, 9}
	a6 := []byte{0xfe, 0x80, 0, 0, 0, 0, 0, 0, 0, 0, 0, 0, 0, 0, 0, 1}
	r6 := []byte{0xfe, 0x80, 0, 0, 0, 0, 0, 0, 0, 0, 0, 0, 0, 0, 0, 9}
	s.AddAddress(1, header.IPv4ProtocolNumber, tcpip.Address(a4))
	s.AddAddress(1, header.IPv6ProtocolNumber, tcpip.Address(a6))
	netsim.SetRoutes(s, []tcpip.Route{{Destination: "\x00\x00\x00\x00", Mask: "\x00\x00\x00\x00", NIC: 1},
		{Destination: tcpip.Address(make([]byte, 16)), Mask: tcpip.AddressMask(make([]byte, 16)), NIC: 1}})
	for k := 0; k < r.Pick(12, 60); k++ {
		v6 := k%2 == 1
		np, la, ra := header.IPv4ProtocolNumber, a4, r4
		if v6 {
			np, la, ra = header.IPv6ProtocolNumber, a6, r6
		}
		ep, err := s.NewEndpoint(udp.ProtocolNumber, np, &waiter.Queue{})
		if err != nil {
			panic(err)
		}
		lport := uint16(20000 + k)
		if e := ep.Bind(tcpip.FullAddress{Port: lport}, nil); e != nil {
			panic(e)
		}
		netsim.NotePort(s, lport)
		dport := uint16(1 + r.R.Intn(65535))
		body := make([]byte, 2*r.R.Intn(40))
		r.R.Read(body)
		// sum of everything except the two free bytes
		length := 8 + len(body) + 2
		sum := netsim.Sum16(la, 0)
		sum = netsim.Sum16(ra, sum)
		sum += 17 + uint32(length)
		hdr := []byte{byte(lport >> 8), byte(lport), byte(dport >> 8), byte(dport), byte(length >> 8), byte(length), 0, 0}
		sum = netsim.Sum16(hdr, sum)
		sum = netsim.Sum16(body, sum)
		f := netsim.Fold(sum)
		// the free word w must make the folded total 0xffff: w = 0xffff - f (one's complement), avoiding the 0 = 0xffff alias
		w := 0xffff - f
		if w == 0 {
			w = 0xffff
		}
		payload := append(append([]byte{}, body...), byte(w>>8), byte(w))
		ep.Write(tcpip.SlicePayload(payload), tcpip.WriteOptions{To: &tcpip.FullAddress{Addr: tcpip.Address(ra), Port: dport}})
		ep.Close()
	}
	// destinations of the other address family: a v4 endpoint given a 16-byte address, a v6 endpoint given a
	// 4-byte one (UDP write, TCP connect); whatever leaves the stack must still be a well-formed frame
	for k := 0; k < 4; k++ {
		np, ra := header.IPv4ProtocolNumber, r6
		if k%2 == 1 {
			np, ra = header.IPv6ProtocolNumber, r4
		}
		if k < 2 {
			ep, _ := s.NewEndpoint(udp.ProtocolNumber, np, &waiter.Queue{})
			ep.Write(tcpip.SlicePayload([]byte("family")), tcpip.WriteOptions{To: &tcpip.FullAddress{Addr: tcpip.Address(ra), Port: 7}})
			a, _ := ep.GetLocalAddress()
			netsim.NotePort(s, a.Port)
			ep.Close()
		} else {
			ep, _ := s.NewEndpoint(tcp.ProtocolNumber, np, &waiter.Queue{})
			ep.Connect(tcpip.FullAddress{Addr: tcpip.Address(ra), Port: 7})
			time.Sleep(3 * time.Millisecond)
			a, _ := ep.GetLocalAddress()
			netsim.NotePort(s, a.Port)
			ep.Close()
		}
	}
	time.Sleep(5 * time.Millisecond)
	flush(r, "udp-crafted", 1000)
}

// ethWorld: the fd-based link endpoint over a socketpair: Ethernet framing, ARP resolution of the next hop,
// then UDP datagrams that must carry the resolved MAC.
func ethWorld(r *hx.Run) {
	fds, err := syscall.Socketpair(syscall.AF_UNIX, syscall.SOCK_DGRAM, 0)
	if err != nil {
		panic(err)
	}
	defer syscall.Close(fds[1])
	ourMac := []byte{2, 0, 0, 0, 0, 1}
	s := netsim.NewStack()
	lid := fdbased.New(&fdbased.Options{FD: fds[0], MTU: 1500, ResolutionRequired: true, Address: tcpip.LinkAddress(ourMac)})
	if e := s.CreateNIC(1, lid); e != nil {
		panic(e)
	}
	our := []byte{10, 0, 0, 1}
	s.AddAddress(1, header.IPv4ProtocolNumber, tcpip.Address(our))
	s.AddAddress(1, arp.ProtocolNumber, arp.ProtocolAddress)
	s.SetRouteTable([]tcpip.Route{{Destination: "\x00\x00\x00\x00", Mask: "\x00\x00\x00\x00", NIC: 1}})
	syscall.SetNonblock(fds[1], true)
	readAll := func(wait time.Duration) [][]byte {
		var out [][]byte
		deadline := time.Now().Add(wait)
		buf := make([]byte, 70000)
		for time.Now().Before(deadline) {
			n, e := syscall.Read(fds[1], buf)
			if e != nil || n <= 0 {
				time.Sleep(200 * time.Microsecond)
				continue
			}
			out = append(out, append([]byte{}, buf[:n]...))
			deadline = time.Now().Add(3 * time.Millisecond)
		}
		return out
	}
	macOf := map[string][]byte{}
	emit := func(fr []byte) {
		macOK := -1
		if len(fr) >= 14 {
			et := binary.BigEndian.Uint16(fr[12:])
			if et == 0x0806 && len(fr) >= 42 {
				op := binary.BigEndian.Uint16(fr[20:])
				if op == 1 { // request: broadcast
					macOK = b01(string(fr[0:6]) == "\xff\xff\xff\xff\xff\xff")
				} else { // reply: to the requester
					macOK = b01(string(fr[0:6]) == string(fr[32:38]))
				}
			} else if et == 0x0800 && len(fr) >= 34 {
				want, known := macOf[string(fr[30:34])]
				macOK = b01(known && string(fr[0:6]) == string(want))
			}
			if string(fr[6:12]) != string(ourMac) {
				macOK = 0
			}
		}
		r.Count("eth")
		r.Emit(fmt.Sprintf("frame eth 0 %s w=eth mac_ok=%d", hx.Hex(fr), macOK), hx.Hex(fr))
	}
	for k := 0; k < r.Pick(6, 30); k++ {
		peer := []byte{10, 0, 0, byte(10 + k)}
		pmac := []byte{2, 0, 0, 0, 1, byte(k)}
		ep, e := s.NewEndpoint(udp.ProtocolNumber, header.IPv4ProtocolNumber, &waiter.Queue{})
		if e != nil {
			panic(e)
		}
		payload := make([]byte, r.R.Intn(1400))
		r.R.Read(payload)
		// the first write triggers resolution: an ARP request must come out, broadcast
		go func() {
			for i := 0; i < 40; i++ {
				_, _, we := ep.Write(tcpip.SlicePayload(payload), tcpip.WriteOptions{To: &tcpip.FullAddress{Addr: tcpip.Address(peer), Port: 9}})
				if we == nil {
					return
				}
				time.Sleep(2 * time.Millisecond)
			}
		}()
		got := readAll(30 * time.Millisecond)
		for _, fr := range got {
			emit(fr)
		}
		// the peer answers the request (and sometimes asks for us, to see a reply)
		macOf[string(peer)] = pmac
		reply := netsim.ARP(2, pmac, peer, ourMac, our)
		syscall.Write(fds[1], append(append(append([]byte{}, ourMac...), append(pmac, 0x08, 0x06)...), reply...))
		if k%2 == 0 {
			req := netsim.ARP(1, pmac, peer, []byte{0, 0, 0, 0, 0, 0}, our)
			syscall.Write(fds[1], append(append(append([]byte{}, ourMac...), append(pmac, 0x08, 0x06)...), req...))
		}
		for _, fr := range readAll(60 * time.Millisecond) {
			emit(fr)
		}
		ep.Close()
	}
}

// Gen drives the scenarios of the other checks with the frame tap installed.
func Gen(r *hx.Run) {
	install()
	defer func() { netsim.Tap, netsim.InjectTap = nil, nil }()
	per := r.Pick(700, 6000)
	r.Emit("reset", "ok")
	craftedUDP(r)
	sub := silent(r, "udp", r.Seed)
	os.Setenv("NETW_NH", fmt.Sprint(r.Pick(25, 200)))
	netw.Gen(sub, "C11")
	sub.Close()
	flush(r, "udp", per)
	sub = silent(r, "echo", r.Seed+1)
	netw.GenEcho(sub)
	sub.Close()
	flush(r, "echo", per)
	sub = silent(r, "tcp", r.Seed+2)
	os.Setenv("TCP_NH", fmt.Sprint(r.Pick(25, 200)))
	tcpw.Gen(sub, "C04")
	sub.Close()
	flush(r, "tcp", per)
	sub = silent(r, "tcp3", r.Seed+3)
	os.Setenv("TCP_NH", fmt.Sprint(r.Pick(40, 300)))
	tcpw.Gen(sub, "C03")
	sub.Close()
	os.Unsetenv("TCP_NH")
	flush(r, "tcp-handshake", per)
	if os.Getenv("C06_SKIP_ARP") == "" {
		sub = silent(r, "arp", r.Seed+4)
		os.Setenv("C12_NH", fmt.Sprint(r.Pick(3, 12)))
		c12.Gen(sub)
		sub.Close()
		flush(r, "arp", per)
	}
	ethWorld(r)
}
