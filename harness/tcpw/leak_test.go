// +build verif

package tcpw

import (
	"runtime"
	"strings"
	"testing"

	"vharness/hx"
)

func countEcho() int {
	buf := make([]byte, 8<<20)
	n := runtime.Stack(buf, true)
	return strings.Count(string(buf[:n]), "echoReplier")
}

func TestLeak(t *testing.T) {
	r := hx.NewRun("/tmp/exp", "quick", 1)
	for i := 0; i < 8; i++ {
		w := New(r, 1500, false, 0, 0, "")
		switch i % 4 {
		case 1: // SYN only
			w.Listen(10)
			w.Seg(PPort, LPort, 2, 1000, 0, 30000, nil, nil)
		case 2: // full handshake, not accepted
			w.Listen(10)
			w.Seg(PPort, LPort, 2, 1000, 0, 30000, nil, nil)
			ss := w.Seen
			if len(ss) > 0 {
				w.Seg(PPort, LPort, 16, 1001, ss[len(ss)-1].Seq+1, 30000, nil, nil)
			}
		case 3: // accepted
			w.Listen(10)
			w.Seg(PPort, LPort, 2, 1000, 0, 30000, nil, nil)
			ss := w.Seen
			if len(ss) > 0 {
				w.Seg(PPort, LPort, 16, 1001, ss[len(ss)-1].Seq+1, 30000, nil, nil)
			}
			w.Accept()
		case 0:
			w.Connect(5000)
		}
		w.Shut()
		t.Log(i, countEcho())
	}
}
