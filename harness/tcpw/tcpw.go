// Package tcpw: one real TCP endpoint (or listener) on a real stack against a scripted raw peer.
// After every input the harness waits until every protocol goroutine is parked (sleep.VerifQuiescent)
// and collects the segments the stack emitted, so that traces are deterministic.
package tcpw

import (
	"encoding/binary"
	"fmt"
	"os"
	"runtime"
	"strings"
	"time"

	"github.com/brewlin/net-protocol/pkg/rand"
	"github.com/brewlin/net-protocol/pkg/sleep"
	"github.com/brewlin/net-protocol/pkg/waiter"
	tcpip "github.com/brewlin/net-protocol/protocol"
	"github.com/brewlin/net-protocol/protocol/header"
	"github.com/brewlin/net-protocol/protocol/transport/tcp"
	"github.com/brewlin/net-protocol/stack"
	"vharness/hx"
	"vharness/netsim"
)

var (
	Local = []byte{10, 0, 0, 1}
	Peer  = []byte{10, 0, 0, 9}
)

const (
	LPort = 8080
	PPort = 40000
)

type World struct {
	R            *hx.Run
	S            *stack.Stack
	L            *netsim.Link
	Eps          []tcpip.Endpoint
	Wqs          []*waiter.Queue
	Lis          tcpip.Endpoint
	MTU          int
	T0           time.Time
	Seen         []Seg // every segment emitted (for oracles)
	lastReadData bool
}

// Seg is a decoded emitted TCP segment.
type Seg struct {
	SPort, DPort uint16
	Seq, Ack     uint32
	Flags        uint8
	Wnd          uint16
	Opts         []byte
	Data         []byte
	CkOK         bool
	At           time.Duration
}

func FlagStr(f uint8) string {
	s := ""
	for i, c := range "FSRPAU" {
		if f&(1<<uint(i)) != 0 {
			s += string(c)
		}
	}
	if s == "" {
		s = "-"
	}
	return s
}

// describe with the timestamp value masked (it is wall-clock derived)
func (s Seg) String() string {
	return fmt.Sprintf("[%s seq=%d ack=%d wnd=%d opt=%s len=%d d=%s]", FlagStr(s.Flags), s.Seq, s.Ack, s.Wnd, hx.Hex(maskTS(s.Opts)), len(s.Data), digest(s.Data))
}

func digest(b []byte) string {
	if len(b) <= 24 {
		return hx.Hex(b)
	}
	h := uint32(2166136261)
	for _, c := range b {
		h = (h ^ uint32(c)) * 16777619
	}
	return fmt.Sprintf("%s..%08x", hx.Hex(b[:8]), h)
}

// maskTS zeroes TSVal in a timestamp option (kind 8), keeps TSEcr.
func maskTS(o []byte) []byte {
	c := append([]byte{}, o...)
	for i := 0; i < len(c); {
		switch c[i] {
		case 0:
			return c
		case 1:
			i++
		default:
			if i+1 >= len(c) || c[i+1] < 2 || i+int(c[i+1]) > len(c) {
				return c
			}
			if c[i] == 8 && c[i+1] == 10 {
				for k := 2; k < 6; k++ {
					c[i+k] = 0
				}
			}
			i += int(c[i+1])
		}
	}
	return c
}

func decode(f netsim.Frame, t0 time.Time) (Seg, bool) {
	b := f.Bytes
	if f.Proto != header.IPv4ProtocolNumber || len(b) < 40 || b[9] != 6 {
		return Seg{}, false
	}
	t := b[20:]
	doff := int(t[12]>>4) * 4
	if doff < 20 || doff > len(t) {
		return Seg{}, false
	}
	s := Seg{SPort: binary.BigEndian.Uint16(t[0:]), DPort: binary.BigEndian.Uint16(t[2:]), Seq: binary.BigEndian.Uint32(t[4:]),
		Ack: binary.BigEndian.Uint32(t[8:]), Flags: t[13], Wnd: binary.BigEndian.Uint16(t[14:]), Opts: t[20:doff], Data: t[doff:], At: f.At.Sub(t0)}
	// checksum over pseudo header + segment
	ps := netsim.Sum16(b[12:20], 0) + 6 + uint32(len(t))
	s.CkOK = netsim.Fold(netsim.Sum16(t, ps)) == 0xffff
	return s, true
}

// allIdle reports whether every goroutine except the caller is blocked (not running / runnable):
// a goroutine that was just started by `go` and has not reached its first blocking point yet is
// still counted as busy, which the sleeper registry alone cannot see.
func allIdle() bool {
	n := 0
	for {
		n = runtime.Stack(stackBuf, true)
		if n < len(stackBuf) {
			break
		}
		stackBuf = make([]byte, 2*len(stackBuf)) // truncated: the newest goroutines come last, they must be seen
	}
	first := true
	for _, g := range strings.Split(string(stackBuf[:n]), "\n\n") {
		if !strings.HasPrefix(g, "goroutine ") {
			continue
		}
		if first { // the caller itself
			first = false
			continue
		}
		lines := strings.Split(g, "\n")
		// only goroutines in a state known to be a wait for an external event count as idle; anything else --
		// running, runnable, preempted, GC assist wait, waiting on a mutex (its holder is busy) -- is work in progress
		line := lines[0]
		i := strings.Index(line, "[")
		j := strings.LastIndex(line, "]")
		if i < 0 || j < i {
			return false
		}
		st := line[i+1 : j]
		if k := strings.Index(st, ","); k >= 0 { // "chan receive, 2 minutes", "select, locked to thread"
			st = st[:k]
		}
		if idleStates[st] {
			continue
		}
		// pkg/sleep parks through a linknamed runtime.gopark with the argument list of an older Go: the wait reason
		// the runtime records is a byte of a string's address, so the label of a parked sleeper changes from build to
		// build ("unknown wait reason", "GC assist wait", ...). A goroutine parked by gopark called from
		// Sleeper.nextWaker is waiting for a waker, whatever the label says.
		if st != "running" && st != "runnable" && parkedSleeper(lines) {
			continue
		}
		if os.Getenv("QUIESCE_DEBUG") != "" && st != "running" && st != "runnable" {
			fmt.Fprintln(os.Stderr, "QUIESCE: busy state:", st)
		}
		return false
	}
	return true
}

var stackBuf = make([]byte, 1<<20)

// parkedSleeper: the innermost frame (below runtime.gopark, which the dump shows only at the system traceback
// level) is Sleeper.nextWaker.
func parkedSleeper(lines []string) bool {
	const nw = "github.com/brewlin/net-protocol/pkg/sleep.(*Sleeper).nextWaker("
	if len(lines) >= 2 && strings.HasPrefix(lines[1], nw) {
		return true
	}
	return len(lines) >= 4 && strings.HasPrefix(lines[1], "runtime.gopark(") && strings.HasPrefix(lines[3], nw)
}

var idleStates = map[string]bool{
	"chan receive": true, "chan receive (nil chan)": true, "chan send": true, "chan send (nil chan)": true,
	"select": true, "select (no cases)": true, "sleep": true, "IO wait": true, "syscall": true,
	"sync.Cond.Wait": true, "sync.WaitGroup.Wait": true, "finalizer wait": true,
	"GC worker (idle)": true, "GC sweep wait": true, "GC scavenge wait": true, "force gc (idle)": true,
	"cleanup wait": true, "debug call": true, "timer goroutine (idle)": true,
}

// Quiesce waits until every sleeper-based goroutine is parked and no goroutine is runnable.
var QuiesceTimeouts int

func Quiesce() {
	deadline := time.Now().Add(2 * time.Second)
	defer func() {
		if !time.Now().Before(deadline) {
			QuiesceTimeouts++
			if QuiesceTimeouts <= 2 {
				buf := make([]byte, 1<<20)
				n := runtime.Stack(buf, true)
				gs := strings.Split(string(buf[:n]), "\n\n")
				fmt.Fprintf(os.Stderr, "QUIESCE TIMEOUT: sleepersQuiescent=%v goroutines=%d\n", sleep.VerifQuiescent(), len(gs))
				for _, g := range gs[1:] {
					if strings.Contains(g, "[running") || strings.Contains(g, "[runnable") {
						fmt.Fprintln(os.Stderr, g)
					}
				}
			}
		}
	}()
	ok := 0
	for time.Now().Before(deadline) {
		// (the sleeper registry cannot be used alone: loops that have ended leave their sleeper registered)
		if allIdle() {
			ok++
			if ok >= 3 {
				return
			}
		} else {
			ok = 0
		}
		time.Sleep(30 * time.Microsecond)
	}
}

func (w *World) Collect() []Seg {
	Quiesce()
	// whatever made a goroutine invisible to the quiescence test for a moment (seen only on a heavily loaded
	// machine) must not split one operation's segments over two operations: collect until nothing new shows up
	for n, k := w.L.Pending(), 0; k < 6; k++ {
		time.Sleep(60 * time.Microsecond)
		Quiesce()
		m := w.L.Pending()
		if m == n {
			break
		}
		LateFrames++
		n = m
	}
	var out []Seg
	for _, f := range w.L.Take() {
		if s, ok := decode(f, w.T0); ok {
			out = append(out, s)
		}
	}
	w.Seen = append(w.Seen, out...)
	return out
}

// LateFrames counts the times a frame showed up after the quiescence test had passed.
var LateFrames int

func segs(ss []Seg) string {
	if len(ss) == 0 {
		return "-"
	}
	var p []string
	for _, s := range ss {
		p = append(p, s.String())
	}
	return strings.Join(p, " ")
}

func New(r *hx.Run, mtu int, sack bool, rcvBuf, sndBuf int, cc string) *World {
	w := &World{R: r, MTU: mtu}
	w.S = netsim.NewStack()
	lid, l := netsim.NewLink(uint32(mtu), "", 0)
	w.L = l
	netsim.CreateNIC(w.S, 1, lid, l)
	netsim.NotePort(w.S, LPort)
	w.S.AddAddress(1, header.IPv4ProtocolNumber, tcpip.Address(Local))
	netsim.SetRoutes(w.S, []tcpip.Route{{Destination: "\x00\x00\x00\x00", Mask: "\x00\x00\x00\x00", NIC: 1}})
	w.S.SetTransportProtocolOption(tcp.ProtocolNumber, tcp.SACKEnabled(sack))
	if rcvBuf > 0 {
		w.S.SetTransportProtocolOption(tcp.ProtocolNumber, tcp.ReceiveBufferSizeOption{Min: 1, Default: rcvBuf, Max: 4 << 20})
	}
	if sndBuf > 0 {
		w.S.SetTransportProtocolOption(tcp.ProtocolNumber, tcp.SendBufferSizeOption{Min: 1, Default: sndBuf, Max: 4 << 20})
	}
	if cc != "" {
		w.S.SetTransportProtocolOption(tcp.ProtocolNumber, tcp.CongestionControlOption(cc))
	}
	w.T0 = time.Now()
	b := func(x bool) int {
		if x {
			return 1
		}
		return 0
	}
	r.Emit(fmt.Sprintf("tcp.reset mtu=%d sack=%d rcvbuf=%d sndbuf=%d cc=%s", mtu, b(sack), rcvBuf, sndBuf, cc), "ok")
	return w
}

func errName(e *tcpip.Error) string { return strings.ReplaceAll(e.String(), " ", "-") }

func (w *World) newEP() (tcpip.Endpoint, *waiter.Queue) {
	wq := &waiter.Queue{}
	ep, err := w.S.NewEndpoint(tcp.ProtocolNumber, header.IPv4ProtocolNumber, wq)
	if err != nil {
		panic(err)
	}
	return ep, wq
}

func (w *World) Listen(backlog int) {
	ep, _ := w.newEP()
	if err := ep.Bind(tcpip.FullAddress{Port: LPort}, nil); err != nil {
		panic(err)
	}
	if err := ep.Listen(backlog); err != nil {
		panic(err)
	}
	w.Lis = ep
	w.R.Emit(fmt.Sprintf("tcp.listen %d %d", LPort, backlog), segs(w.Collect()))
}

// Connect starts an active open with a pinned initial sequence number.
func (w *World) Connect(iss uint32) {
	ep, wq := w.newEP()
	if err := ep.Bind(tcpip.FullAddress{Addr: tcpip.Address(Local), Port: LPort}, nil); err != nil {
		panic(err)
	}
	used := false
	rand.VerifSetSource(func(b []byte) bool {
		if len(b) == 4 && !used {
			used = true
			binary.LittleEndian.PutUint32(b, iss)
			return true
		}
		return false
	})
	err := ep.Connect(tcpip.FullAddress{Addr: tcpip.Address(Peer), Port: PPort})
	out := w.Collect()
	rand.VerifSetSource(nil)
	w.Eps = append(w.Eps, ep)
	w.Wqs = append(w.Wqs, wq)
	res := "started"
	if err != nil && err != tcpip.ErrConnectStarted {
		res = errName(err)
	}
	w.R.Emit(fmt.Sprintf("tcp.connect %d iss=%d", len(w.Eps)-1, iss), res+" "+segs(out))
}

// Seg injects a raw segment from the peer.
func (w *World) Seg(sport, dport uint16, flags uint8, seq, ack uint32, wnd uint16, opts, data []byte) {
	w.R.Pending(fmt.Sprintf("seg %d %d %s %d %d %d %s %s", sport, dport, FlagStr(flags), seq, ack, wnd, hx.Hex(opts), hx.Hex(data)))
	t := netsim.TCPSeg(Peer, Local, sport, dport, seq, ack, flags, wnd, opts, data)
	pkt := netsim.IPv4(Peer, Local, 6, 9, 0, 64, t)
	w.L.Inject(header.IPv4ProtocolNumber, "", pkt)
	out := w.Collect()
	// initial sequence numbers the stack draws at random (cookie / restart) are learned from what it sent
	learned := uint32(0)
	for _, o := range out {
		if o.Flags&2 != 0 {
			learned = o.Seq
		}
	}
	w.R.Count("seg." + FlagStr(flags))
	w.R.Emit(fmt.Sprintf("seg %d %d %s %d %d %d %s %s iss=%d", sport, dport, FlagStr(flags), seq, ack, wnd, hx.Hex(opts), hx.Hex(data), learned), segs(out))
}

// RTO expires the retransmission timer of endpoint i (verif hook: timers are stretched so that none fires
// on its own; the real timer code sees its deadline reached) and reports what the stack sent. The op line
// carries, as a learned value, the duration in nanoseconds the timer had been armed with (d; -1 = not armed).
func (w *World) RTO(i int, maxMs int) {
	w.R.Pending(fmt.Sprintf("rto %d", i))
	armed, d := tcp.VerifFireResendTimer(w.Eps[i])
	dn := int64(-1)
	if armed {
		dn = int64(d)
	}
	out := w.Collect()
	w.R.Count("rto")
	w.R.Emit(fmt.Sprintf("rto %d d=%d", i, dn), segs(out))
}

func (w *World) CookieMode(on bool) {
	if on {
		tcp.SynRcvdCountThreshold = 0
		w.R.Emit("tcp.cookiemode 1", "ok")
	} else {
		tcp.SynRcvdCountThreshold = 1000
		w.R.Emit("tcp.cookiemode 0", "ok")
	}
}

func (w *World) Accept() {
	w.R.Pending("tcp.accept")
	ep, wq, err := w.Lis.Accept()
	if err != nil {
		w.R.Emit("tcp.accept", errName(err)+" "+segs(w.Collect()))
		return
	}
	w.Eps = append(w.Eps, ep)
	w.Wqs = append(w.Wqs, wq)
	w.R.Emit("tcp.accept", fmt.Sprintf("ok:%d %s", len(w.Eps)-1, segs(w.Collect())))
}

func (w *World) Write(i int, data []byte) {
	w.R.Pending(fmt.Sprintf("tcp.write %d %s", i, hx.Hex(data)))
	n, _, err := w.Eps[i].Write(tcpip.SlicePayload(data), tcpip.WriteOptions{})
	res := fmt.Sprintf("n=%d", n)
	if err != nil {
		res += ":" + errName(err)
	}
	w.R.Emit(fmt.Sprintf("tcp.write %d %s", i, hx.Hex(data)), res+" "+segs(w.Collect()))
}

func (w *World) Read(i int) {
	w.R.Pending(fmt.Sprintf("tcp.read %d", i))
	v, _, err := w.Eps[i].Read(nil)
	w.lastReadData = err == nil
	res := ""
	if err != nil {
		res = errName(err)
	} else {
		res = "data=" + hx.Hex(v)
	}
	w.R.Emit(fmt.Sprintf("tcp.read %d", i), res+" "+segs(w.Collect()))
}

func (w *World) Shutdown(i int, how string) {
	w.R.Pending(fmt.Sprintf("tcp.shutdown %d %s", i, how))
	var fl tcpip.ShutdownFlags
	if strings.Contains(how, "r") {
		fl |= tcpip.ShutdownRead
	}
	if strings.Contains(how, "w") {
		fl |= tcpip.ShutdownWrite
	}
	err := w.Eps[i].Shutdown(fl)
	res := "ok"
	if err != nil {
		res = errName(err)
	}
	w.R.Emit(fmt.Sprintf("tcp.shutdown %d %s", i, how), res+" "+segs(w.Collect()))
}

func (w *World) Close(i int) {
	w.Eps[i].Close()
	w.R.Emit(fmt.Sprintf("tcp.close %d", i), "ok "+segs(w.Collect()))
}

// Wait sleeps (timers may fire) and reports what was emitted, with the time of each emission
// relative to the start of the wait in milliseconds.
func (w *World) Wait(ms int) {
	start := time.Now()
	time.Sleep(time.Duration(ms) * time.Millisecond)
	Quiesce()
	var p []string
	for _, f := range w.L.Take() {
		if s, ok := decode(f, start); ok {
			w.Seen = append(w.Seen, s)
			p = append(p, fmt.Sprintf("%s", s.String()))
		}
	}
	res := "-"
	if len(p) > 0 {
		res = strings.Join(p, " ")
	}
	w.R.Emit(fmt.Sprintf("wait %d", ms), res)
}

func (w *World) State(i int) string {
	return fmt.Sprint(tcp.VerifState(w.Eps[i]))
}

// Shut closes every endpoint of the world (not an op: the history is over).
func (w *World) Shut() {
	for _, ep := range w.Eps {
		ep.Close()
	}
	if w.Lis != nil {
		w.Lis.Close()
	}
	Quiesce()
	// wind the world's goroutines down: the handshake and reset-after-close timers are stretched under the build
	// tag, expire them until the handshakes have given up (seven rounds: 1 s doubling past 60 s) and the closed
	// connections have been reset; then the network endpoint (its echo goroutine)
	for k := 0; k < 10; k++ {
		if tcp.VerifFireAdoptedTimers() == 0 {
			break
		}
		Quiesce()
	}
	w.S.VerifCloseNetworkEndpoints()
	Quiesce()
	w.L.Take()
}
