package tcpw

import (
	"encoding/hex"
	"strconv"
	"strings"

	"vharness/hx"
)

func unhex(s string) []byte {
	if s == "-" || s == "" {
		return nil
	}
	b, _ := hex.DecodeString(s)
	return b
}

func flagsOf(s string) uint8 {
	var f uint8
	for _, c := range s {
		switch c {
		case 'F':
			f |= 1
		case 'S':
			f |= 2
		case 'R':
			f |= 4
		case 'P':
			f |= 8
		case 'A':
			f |= 16
		case 'U':
			f |= 32
		}
	}
	return f
}

func kv(fs []string, k string) string {
	for _, f := range fs {
		if strings.HasPrefix(f, k+"=") {
			return f[len(k)+1:]
		}
	}
	return ""
}

func atoi(s string) int { n, _ := strconv.Atoi(s); return n }

// Exec replays one recorded op line against the real stack (used by replays and debugging).
func Exec(r *hx.Run, w *World, line string) *World {
	fs := strings.Fields(line)
	if len(fs) == 0 {
		return w
	}
	switch fs[0] {
	case "tcp.reset":
		return New(r, atoi(kv(fs, "mtu")), kv(fs, "sack") == "1", atoi(kv(fs, "rcvbuf")), atoi(kv(fs, "sndbuf")), kv(fs, "cc"))
	case "tcp.listen":
		w.Listen(atoi(fs[2]))
	case "tcp.cookiemode":
		w.CookieMode(fs[1] == "1")
	case "tcp.connect":
		w.Connect(uint32(atoi(kv(fs, "iss"))))
	case "seg":
		w.Seg(uint16(atoi(fs[1])), uint16(atoi(fs[2])), flagsOf(fs[3]), uint32(atoi(fs[4])), uint32(atoi(fs[5])), uint16(atoi(fs[6])), unhex(fs[7]), unhex(fs[8]))
	case "tcp.accept":
		w.Accept()
	case "tcp.write":
		w.Write(atoi(fs[1]), unhex(fs[2]))
	case "tcp.read":
		w.Read(atoi(fs[1]))
	case "tcp.shutdown":
		w.Shutdown(atoi(fs[1]), fs[2])
	case "tcp.close":
		w.Close(atoi(fs[1]))
	case "rto":
		w.RTO(atoi(fs[1]), 2500)
	case "wait":
		w.Wait(atoi(fs[1]))
	}
	return w
}
