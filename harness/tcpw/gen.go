package tcpw

import (
	"encoding/binary"
	"fmt"
	"os"

	"vharness/hx"
)

// peer-side view of one connection, learned only from what the stack emitted
type conn struct {
	id               int    // endpoint index in the world
	pSeq             uint32 // next sequence number the peer will use for new data
	pIss             uint32
	sIss             uint32 // stack's initial sequence number
	sNxt             uint32 // highest sequence number the stack has sent (+1 for SYN/FIN)
	sAcked           uint32 // highest ack the peer has sent
	rcvNxt           uint32 // what the stack expects next from the peer (its latest ack field)
	ts               bool
	tsVal            uint32
	wscale           uint
	finSent, finRcvd bool
	sent             []byte // bytes the peer has put into the stream so far
	sws              uint   // the window scale the stack announced in its SYN / SYN-ACK (0 if none)
	advWnd           uint32 // the window of the stack's latest segment, scaled
}

func seqLT(a, b uint32) bool { return int32(a-b) < 0 }

func (w *World) observe(c *conn, from int) {
	for _, s := range w.Seen[from:] {
		end := s.Seq + uint32(len(s.Data))
		if s.Flags&3 != 0 {
			end++
		}
		if seqLT(c.sNxt, end) {
			c.sNxt = end
		}
		if s.Flags&2 != 0 {
			// the stack's own window scale: option kind 3 of its SYN / SYN-ACK
			for i := 0; i < len(s.Opts); {
				k := s.Opts[i]
				if k == 0 {
					break
				}
				if k == 1 {
					i++
					continue
				}
				if i+1 >= len(s.Opts) || s.Opts[i+1] < 2 {
					break
				}
				if k == 3 && i+2 < len(s.Opts) {
					c.sws = uint(s.Opts[i+2])
				}
				i += int(s.Opts[i+1])
			}
		}
		if s.Flags&16 != 0 {
			c.rcvNxt = s.Ack
			if s.Flags&2 == 0 {
				c.advWnd = uint32(s.Wnd) << c.sws
			} else {
				c.advWnd = uint32(s.Wnd)
			}
		}
		if s.Flags&1 != 0 {
			c.finRcvd = true
		}
	}
}

// rightEdge: the application does not read; the peer sends a segment that begins exactly on the right edge of the
// window the stack advertises (or a little behind it) while the window is still open, then fills the window
// exactly: nothing beyond the edge may be acknowledged or delivered.
func (w *World) rightEdge(r *hx.Run, c *conn, sport uint16) {
	if c.finSent || c.advWnd == 0 || c.advWnd > 70000 || c.pSeq != c.rcvNxt {
		return
	}
	r.Count("tcp.right-edge")
	edge := c.rcvNxt + c.advWnd
	skip := []int{0, 0, 0, 1, 7}[r.R.Intn(5)]
	at := edge + uint32(skip)
	// what the peer's stream holds behind the edge: the early segment carries a piece of it, and the peer sends all of
	// it (again) in order once the window has reopened
	tail := make([]byte, skip+1+r.R.Intn(20))
	r.R.Read(tail)
	stray := tail[skip:]
	from := len(w.Seen)
	w.Seg(sport, LPort, 24, at, c.sAcked, 65535, c.opts(r), stray)
	w.observe(c, from)
	// fill the window exactly, in a few segments
	left := int(edge - c.pSeq)
	for left > 0 {
		n := left
		if n > 1400 {
			n = 1 + r.R.Intn(1400)
		}
		b := make([]byte, n)
		r.R.Read(b)
		from = len(w.Seen)
		w.Seg(sport, LPort, 24, c.pSeq, c.sAcked, 65535, c.opts(r), b)
		c.sent = append(c.sent, b...)
		c.pSeq += uint32(n)
		left -= n
		w.observe(c, from)
	}
	for j := 0; j < 40; j++ {
		w.Read(c.id)
		if !w.lastReadData {
			break
		}
	}
	from = len(w.Seen)
	w.Seg(sport, LPort, 24, c.pSeq, c.sAcked, 65535, c.opts(r), tail)
	c.sent = append(c.sent, tail...)
	c.pSeq += uint32(len(tail))
	w.observe(c, from)
}

func (c *conn) opts(r *hx.Run) []byte {
	if !c.ts {
		return nil
	}
	if r.R.Intn(40) == 0 {
		return nil // a segment without the negotiated timestamp option (must be dropped)
	}
	c.tsVal += uint32(1 + r.R.Intn(3))
	o := []byte{1, 1, 8, 10, 0, 0, 0, 0, 0, 0, 0, 0}
	binary.BigEndian.PutUint32(o[4:], c.tsVal)
	return o
}

// initial sequence numbers: next to 0, 2^31 and 2^32, and one to two receive windows (4 KiB / 64 KiB buffers) below
// 2^31 and 2^32, so that the advertised right edge lies before the wrap while the next one lies behind it
var wrapPoints = []uint32{0, 1000, 0x7fffff00, 0x7ffffff0, 0x80000000, 0xffffff00, 0xfffffff0, 0xffffffff,
	0xffffffff - 5000, 0xffffffff - 7000, 0xffffffff - 70000, 0xffffffff - 100000,
	0x7fffffff - 5000, 0x7fffffff - 7000, 0x7fffffff - 70000, 0x7fffffff - 100000}

// wrapOnly: every initial sequence number next to a wrap point (focus C14)
var wrapOnly bool

func pickISN(r *hx.Run) uint32 {
	if !wrapOnly && r.R.Intn(3) == 0 {
		return r.R.Uint32()
	}
	return wrapPoints[r.R.Intn(len(wrapPoints))] + uint32(r.R.Intn(5))
}

func synOpts(r *hx.Run, c *conn) []byte {
	var o []byte
	switch r.R.Intn(6) {
	case 0: // no options at all
		return nil
	default:
		mss := []int{1460, 536, 1200, 9000, 100, 1}[r.R.Intn(6)]
		o = append(o, 2, 4, byte(mss>>8), byte(mss))
	}
	if r.R.Intn(2) == 0 {
		ws := r.R.Intn(16)
		c.wscale = uint(ws)
		if c.wscale > 14 {
			c.wscale = 14
		}
		o = append(o, 1, 3, 3, byte(ws))
	}
	if r.R.Intn(3) == 0 {
		c.ts = true
		c.tsVal = r.R.Uint32() % 100000
		t := []byte{1, 1, 8, 10, 0, 0, 0, 0, 0, 0, 0, 0}
		binary.BigEndian.PutUint32(t[4:], c.tsVal)
		o = append(o, t...)
	}
	if r.R.Intn(2) == 0 {
		o = append(o, 4, 2)
	}
	if r.R.Intn(8) == 0 {
		o = append(o, 254, 4, 1, 2) // unknown option
	}
	return o
}

// passiveOpen: the peer connects to the listener; returns nil if the handshake was not completed
func (w *World) passiveOpen(r *hx.Run, sport uint16) *conn {
	c := &conn{pIss: pickISN(r)}
	from := len(w.Seen)
	w.Seg(sport, LPort, 2, c.pIss, 0, uint16([]int{65535, 30000, 1000, 0, 5}[r.R.Intn(5)]), synOpts(r, c), nil)
	if len(w.Seen) == from || w.Seen[len(w.Seen)-1].Flags&2 == 0 {
		return nil
	}
	sa := w.Seen[len(w.Seen)-1]
	c.sIss = sa.Seq
	c.sNxt = sa.Seq + 1
	c.pSeq = c.pIss + 1
	c.rcvNxt = sa.Ack
	// did the stack agree to timestamps?
	hasTS := false
	for i := 0; i+1 < len(sa.Opts); {
		k := sa.Opts[i]
		if k == 1 {
			i++
			continue
		}
		if k == 0 || int(sa.Opts[i+1]) < 2 {
			break
		}
		if k == 8 {
			hasTS = true
		}
		i += int(sa.Opts[i+1])
	}
	c.ts = c.ts && hasTS
	// invalid handshake segments first, sometimes
	for k := r.R.Intn(3); k > 0; k-- {
		bad := c.sIss + 1 + []uint32{1, 0xffffffff, 2, 1 << 16, 1 << 31, r.R.Uint32()}[r.R.Intn(6)]
		w.Seg(sport, LPort, []uint8{16, 16, 18, 24}[r.R.Intn(4)], c.pSeq, bad, 30000, c.opts(r), nil)
	}
	if r.R.Intn(12) == 0 {
		return nil // the peer never completes
	}
	wnd := uint16([]int{65535, 30000, 4000, 1460, 100, 0}[r.R.Intn(6)])
	w.Seg(sport, LPort, 16, c.pSeq, c.sIss+1, wnd, c.opts(r), nil)
	c.sAcked = c.sIss + 1
	return c
}

// wrapStraddle: when the peer's next sequence number lies a few thousand bytes below 2^31 or 2^32, drive the
// receive path across the wrap on purpose: in-order data that crosses it, then a retransmission that starts below
// the wrap and ends beyond what has been received (old bytes + new bytes), a hole that straddles the wrap filled
// late, or a stale duplicate that straddles it.  Random transfers reach these alignments far too rarely.
func (w *World) wrapStraddle(r *hx.Run, c *conn, sport uint16) {
	d := -c.pSeq // bytes until 2^32
	if d == 0 || d > 4000 {
		d = 0x80000000 - c.pSeq // bytes until 2^31
	}
	if d == 0 || d > 4000 || c.finSent {
		return
	}
	r.Count("tcp.wrap-straddle")
	from := len(w.Seen)
	send := func(seq uint32, b []byte) { w.Seg(sport, LPort, 24, seq, c.sAcked, 65535, c.opts(r), b) }
	e1 := 1 + r.R.Intn(300)
	first := make([]byte, int(d)+e1)
	r.R.Read(first)
	base := c.pSeq
	switch r.R.Intn(4) {
	case 0, 1: // in order across the wrap, then old+new starting below the wrap
		send(base, first)
		c.sent = append(c.sent, first...)
		c.pSeq += uint32(len(first))
		back := 1 + r.R.Intn(int(minU(d, 200)))
		nb := make([]byte, 1+r.R.Intn(400))
		r.R.Read(nb)
		start := int(d) - back
		send(base+uint32(start), append(append([]byte{}, first[start:]...), nb...))
		c.sent = append(c.sent, nb...)
		c.pSeq += uint32(len(nb))
	case 2: // the part behind the wrap first, the part below it later (one byte more than the gap: overlap)
		cut := int(d) - r.R.Intn(int(minU(d, 100))+1)
		if cut < 1 {
			cut = 1
		}
		send(base+uint32(cut), first[cut:])
		end := cut + r.R.Intn(e1)
		if end > len(first) {
			end = len(first)
		}
		send(base, first[:end])
		c.sent = append(c.sent, first...)
		c.pSeq += uint32(len(first))
	default: // in order, then a stale duplicate that straddles the wrap
		send(base, first)
		c.sent = append(c.sent, first...)
		c.pSeq += uint32(len(first))
		back := 1 + r.R.Intn(int(minU(d, 200)))
		start := int(d) - back
		end := int(d) + 1 + r.R.Intn(e1)
		if end > len(first) {
			end = len(first)
		}
		send(base+uint32(start), first[start:end])
	}
	w.observe(c, from)
	for j := 0; j < 8; j++ {
		w.Read(c.id)
		if !w.lastReadData {
			break
		}
	}
}

func (w *World) transfer(r *hx.Run, c *conn, sport uint16, steps int) {
	rtoBudget := 4
	w.wrapStraddle(r, c, sport)
	for k := 0; k < steps; k++ {
		from := len(w.Seen)
		wnd := uint16([]int{65535, 65535, 30000, 5000, 1460, 536, 1, 0}[r.R.Intn(8)])
		op := r.R.Intn(22)
		if c.finSent && op >= 10 && op < 16 {
			// a peer that has sent its FIN sends no new data (its byte stream has ended); it may still repeat
			// old segments
			if op < 14 || len(c.sent) == 0 {
				op = 8
			}
		}
		switch {
		case op < 4: // application writes
			n := []int{1, 10, 100, 1460, 1461, 3000, 10000, 40000}[r.R.Intn(8)]
			if r.R.Intn(2) == 0 {
				n = 1 + r.R.Intn(n)
			}
			b := make([]byte, n)
			r.R.Read(b)
			w.Write(c.id, b)
		case op < 8: // peer acknowledges: everything / a segment boundary / mid-segment / duplicate / bogus
			var ack uint32
			switch r.R.Intn(8) {
			case 0, 1, 2:
				ack = c.sNxt
			case 3:
				ack = c.sAcked + uint32(r.R.Intn(int(c.sNxt-c.sAcked)+1))
			case 4:
				ack = c.sAcked
			case 5:
				ack = c.sNxt + uint32(1+r.R.Intn(5000))
			case 6:
				ack = c.sAcked - uint32(1+r.R.Intn(3000))
			default:
				// exactly one maximum-size segment further
				ack = c.sAcked + 1460
				if seqLT(c.sNxt, ack) {
					ack = c.sNxt
				}
			}
			w.Seg(sport, LPort, 16, c.pSeq, ack, wnd, c.opts(r), nil)
			if seqLT(c.sAcked, ack) && !seqLT(c.sNxt, ack) {
				c.sAcked = ack
			}
		case op < 10: // a burst of duplicate ACKs (same ack, same window, no data)
			n := 1 + r.R.Intn(5)
			for j := 0; j < n; j++ {
				w.Seg(sport, LPort, 16, c.pSeq, c.sAcked, 65535, c.opts(r), nil)
			}
		case op < 14: // peer data: in order
			n := []int{1, 5, 100, 1000, 1460, 4000}[r.R.Intn(6)]
			b := make([]byte, n)
			r.R.Read(b)
			fl := uint8(16)
			if r.R.Intn(2) == 0 {
				fl |= 8
			}
			w.Seg(sport, LPort, fl, c.pSeq, c.sAcked, wnd, c.opts(r), b)
			c.sent = append(c.sent, b...)
			c.pSeq += uint32(n)
		case op < 16: // peer data out of order / overlapping / duplicate of old data / beyond the window
			total := uint32(len(c.sent))
			sub := r.R.Intn(4)
			if c.finSent {
				sub = 1
			}
			switch sub {
			case 0: // a hole: later data first, then the gap
				n1, n2 := 1+r.R.Intn(1000), 1+r.R.Intn(1000)
				b := make([]byte, n1+n2)
				r.R.Read(b)
				w.Seg(sport, LPort, 24, c.pSeq+uint32(n1), c.sAcked, wnd, c.opts(r), b[n1:])
				if r.R.Intn(3) != 0 {
					w.Seg(sport, LPort, 24, c.pSeq, c.sAcked, wnd, c.opts(r), b[:n1])
				} else { // the gap is filled by a larger, overlapping retransmission
					w.Seg(sport, LPort, 24, c.pSeq, c.sAcked, wnd, c.opts(r), b)
				}
				c.sent = append(c.sent, b...)
				c.pSeq += uint32(n1 + n2)
			case 1: // stale duplicate of something already delivered
				if total > 0 {
					a := uint32(r.R.Intn(int(total)))
					l := 1 + uint32(r.R.Intn(int(total-a)))
					w.Seg(sport, LPort, 24, c.pIss+1+a, c.sAcked, wnd, c.opts(r), c.sent[a:a+l])
				}
			case 2: // overlap: old bytes plus new bytes in one segment
				if total > 0 {
					a := total - uint32(1+r.R.Intn(int(minU(total, 500))))
					nb := make([]byte, 1+r.R.Intn(800))
					r.R.Read(nb)
					d := append(append([]byte{}, c.sent[a:]...), nb...)
					w.Seg(sport, LPort, 24, c.pIss+1+a, c.sAcked, wnd, c.opts(r), d)
					c.sent = append(c.sent, nb...)
					c.pSeq += uint32(len(nb))
				}
			default: // far outside the window: must never be delivered
				b := make([]byte, 1+r.R.Intn(100))
				r.R.Read(b)
				w.Seg(sport, LPort, 24, c.pSeq+uint32(2<<20)+uint32(r.R.Intn(1<<20)), c.sAcked, wnd, c.opts(r), b)
			}
		case op < 19: // application reads
			for j := 1 + r.R.Intn(4); j > 0; j-- {
				w.Read(c.id)
			}
		case op < 20:
			if rtoBudget > 0 && seqLT(c.sAcked, c.sNxt) {
				rtoBudget--
				w.RTO(c.id, 2500)
			}
		case op < 21:
			if r.R.Intn(3) == 0 {
				w.Shutdown(c.id, "w")
			} else if !c.finSent && r.R.Intn(2) == 0 {
				w.Seg(sport, LPort, 17, c.pSeq, c.sAcked, wnd, c.opts(r), nil)
				c.finSent = true
				c.pSeq++
			}
		default:
			if r.R.Intn(6) == 0 { // RST, inside or outside the window
				sq := c.pSeq
				if r.R.Intn(2) == 0 {
					sq += uint32(3 << 20)
				}
				w.Seg(sport, LPort, 4, sq, 0, 0, nil, nil)
			} else {
				w.Seg(sport, LPort, 16, c.pSeq, c.sNxt, wnd, c.opts(r), nil)
				if seqLT(c.sAcked, c.sNxt) {
					c.sAcked = c.sNxt
				}
			}
		}
		w.observe(c, from)
	}
	// wind down: acknowledge everything, drain the receive queue
	from := len(w.Seen)
	w.Seg(sport, LPort, 16, c.pSeq, c.sNxt, 65535, c.opts(r), nil)
	w.observe(c, from)
	for j := 0; j < 60; j++ {
		n := w.R.N
		w.Read(c.id)
		_ = n
		if !w.lastReadData {
			break
		}
	}
}

func minU(a, b uint32) uint32 {
	if a < b {
		return a
	}
	return b
}

// zeroWindow: the peer closes its window while the stack has nothing in flight, the application writes,
// and the peer stays silent: only a probe can get the connection going again.
func (w *World) zeroWindow(r *hx.Run, c *conn, sport uint16) {
	w.Seg(sport, LPort, 16, c.pSeq, c.sNxt, 0, c.opts(r), nil)
	b := make([]byte, 1+r.R.Intn(2000))
	r.R.Read(b)
	w.Write(c.id, b)
	w.RTO(c.id, 1500)
	w.RTO(c.id, 1500)
	from := len(w.Seen)
	w.Seg(sport, LPort, 16, c.pSeq, c.sNxt, 30000, c.opts(r), nil) // the window update gets through after all
	w.observe(c, from)
}

// halfCloseClosedWindow: the peer has sent its FIN, the application writes more than the peer's window admits and
// shuts down; everything sent is acknowledged with a closed window, then the window reopens: the rest of the data
// and the FIN must still come out.
func (w *World) halfCloseClosedWindow(r *hx.Run, c *conn, sport uint16) {
	small := uint16(1 + r.R.Intn(40))
	from := len(w.Seen)
	w.Seg(sport, LPort, 17, c.pSeq, c.sNxt, small, c.opts(r), nil)
	c.finSent = true
	c.pSeq++
	w.observe(c, from)
	b := make([]byte, int(small)+1+r.R.Intn(3000))
	r.R.Read(b)
	from = len(w.Seen)
	w.Write(c.id, b)
	w.observe(c, from)
	if r.R.Intn(4) != 0 {
		from = len(w.Seen)
		w.Shutdown(c.id, "w")
		w.observe(c, from)
	}
	from = len(w.Seen)
	w.Seg(sport, LPort, 16, c.pSeq, c.sNxt, 0, c.opts(r), nil)
	c.sAcked = c.sNxt
	w.observe(c, from)
	if r.R.Intn(3) == 0 {
		w.RTO(c.id, 0)
	}
	from = len(w.Seen)
	w.Seg(sport, LPort, 16, c.pSeq, c.sNxt, 30000, c.opts(r), nil)
	w.observe(c, from)
	from = len(w.Seen)
	w.Seg(sport, LPort, 16, c.pSeq, c.sNxt, 65535, c.opts(r), nil)
	c.sAcked = c.sNxt
	w.observe(c, from)
}

// finBehindData: data and the FIN are in flight together, the peer acknowledges the data only (the FIN is lost,
// or its acknowledgement is): the retransmission timer must still be armed and must send the FIN again.
func (w *World) finBehindData(r *hx.Run, c *conn, sport uint16) {
	// start from a quiet connection with an open window
	from := len(w.Seen)
	w.Seg(sport, LPort, 16, c.pSeq, c.sNxt, 65535, c.opts(r), nil)
	if seqLT(c.sAcked, c.sNxt) {
		c.sAcked = c.sNxt
	}
	w.observe(c, from)
	b := make([]byte, 1+r.R.Intn(2500))
	r.R.Read(b)
	from = len(w.Seen)
	w.Write(c.id, b)
	w.observe(c, from)
	from = len(w.Seen)
	w.Shutdown(c.id, "w")
	w.observe(c, from)
	if !c.finRcvd || !seqLT(c.sAcked, c.sNxt-1) {
		return // the FIN did not go out (window, state): nothing to stage
	}
	r.Count("tcp.fin-behind-data")
	// the data is acknowledged in one or two steps, the FIN is not
	if r.R.Intn(2) == 0 {
		mid := c.sAcked + uint32(1+r.R.Intn(int(c.sNxt-1-c.sAcked)))
		from = len(w.Seen)
		w.Seg(sport, LPort, 16, c.pSeq, mid, 65535, c.opts(r), nil)
		c.sAcked = mid
		w.observe(c, from)
	}
	from = len(w.Seen)
	w.Seg(sport, LPort, 16, c.pSeq, c.sNxt-1, 65535, c.opts(r), nil)
	c.sAcked = c.sNxt - 1
	w.observe(c, from)
	if r.R.Intn(3) == 0 { // a stale duplicate from the peer in between
		from = len(w.Seen)
		w.Seg(sport, LPort, 16, c.pSeq, c.sNxt-1, 65535, c.opts(r), nil)
		w.observe(c, from)
	}
	for k := 1 + r.R.Intn(2); k > 0; k-- {
		from = len(w.Seen)
		w.RTO(c.id, 0)
		w.observe(c, from)
	}
	from = len(w.Seen)
	w.Seg(sport, LPort, 16, c.pSeq, c.sNxt, 65535, c.opts(r), nil)
	c.sAcked = c.sNxt
	w.observe(c, from)
}

// lossEpisode: a flight of segments of which the first is lost: duplicate ACKs, then the retransmission
// is acknowledged partially or fully, sometimes followed by silence (timeout).
func (w *World) lossEpisode(r *hx.Run, c *conn, sport uint16) {
	from := len(w.Seen)
	w.Seg(sport, LPort, 16, c.pSeq, c.sNxt, 65535, c.opts(r), nil)
	w.observe(c, from)
	c.sAcked = c.sNxt
	b := make([]byte, 3000+r.R.Intn(30000))
	r.R.Read(b)
	from = len(w.Seen)
	w.Write(c.id, b)
	w.observe(c, from)
	for j := 2 + r.R.Intn(5); j > 0; j-- {
		from = len(w.Seen)
		w.Seg(sport, LPort, 16, c.pSeq, c.sAcked, 65535, c.opts(r), nil)
		w.observe(c, from)
	}
	switch r.R.Intn(3) {
	case 0:
		w.RTO(c.id, 2500)
		if r.R.Intn(2) == 0 {
			w.RTO(c.id, 2500)
		}
	case 1: // partial acknowledgement
		if d := int(c.sNxt - c.sAcked); d > 1 {
			c.sAcked += uint32(1 + r.R.Intn(d-1))
			from = len(w.Seen)
			w.Seg(sport, LPort, 16, c.pSeq, c.sAcked, 65535, c.opts(r), nil)
			w.observe(c, from)
		}
	}
}

// Gen generates histories; focus (a property id) shifts the mixture towards what that property speaks about.
func Gen(r *hx.Run, focus string) {
	nh := r.Pick(150, 1500)
	if focus == "C03" {
		nh = r.Pick(300, 4000)
	}
	if focus == "C14" {
		nh = r.Pick(90, 900)
		wrapOnly = true
	}
	if v := os.Getenv("TCP_NH"); v != "" {
		fmt.Sscan(v, &nh)
	}
	steps := func() int {
		if focus == "C03" {
			return r.R.Intn(6)
		}
		return 4 + r.R.Intn(r.Pick(25, 60))
	}
	scenario := func(w *World, c *conn, sport uint16) {
		k := r.R.Intn(12)
		switch {
		case k == 0 || (focus == "C02" && k < 3):
			w.zeroWindow(r, c, sport)
		case k == 11 || (focus == "C02" && k < 6):
			w.halfCloseClosedWindow(r, c, sport)
		case k == 3 || (focus == "C05" && k < 8):
			w.lossEpisode(r, c, sport)
		case k == 5 || (focus == "C02" && k < 9):
			w.finBehindData(r, c, sport)
		case k == 7 || (focus == "C04" && k < 10):
			w.rightEdge(r, c, sport)
		}
	}
	var prev *World
	for h := 0; h < nh; h++ {
		if prev != nil {
			prev.Shut()
		}
		mtu := []int{1500, 1500, 576, 9000, 68 + 40, 1500}[r.R.Intn(6)]
		sack := r.R.Intn(2) == 0
		rcvBuf := []int{0, 0, 65536, 8192, 4096, 300000}[r.R.Intn(6)]
		sndBuf := []int{0, 0, 65536, 8192, 4096}[r.R.Intn(5)]
		w := New(r, mtu, sack, rcvBuf, sndBuf, "")
		prev = w
		sport := uint16(PPort + r.R.Intn(3))
		if r.R.Intn(4) == 0 {
			// active open with a pinned initial sequence number
			iss := pickISN(r)
			w.Connect(iss)
			c := &conn{id: 0, sIss: iss, sNxt: iss + 1, pIss: pickISN(r)}
			// stray / wrong replies first
			for k := r.R.Intn(3); k > 0; k-- {
				switch r.R.Intn(4) {
				case 0:
					w.Seg(PPort, LPort, 18, c.pIss, iss+1+uint32(1+r.R.Intn(100)), 30000, nil, nil) // SYN-ACK, wrong ack
				case 1:
					w.Seg(PPort, LPort, 16, c.pIss, iss+1, 30000, nil, nil) // bare ACK
				case 2:
					w.Seg(PPort, LPort, 4, 0, 0, 0, nil, nil) // RST without ACK: ignored
				default:
					w.Seg(PPort, LPort, 20, 0, iss+2, 0, nil, nil) // RST with wrong ack: ignored
				}
			}
			switch r.R.Intn(8) {
			case 0: // refused
				w.Seg(PPort, LPort, 20, 0, iss+1, 0, nil, nil)
				w.Read(0)
				continue
			case 1: // simultaneous open: SYN without ACK, then the ACK
				o := synOpts(r, c)
				w.Seg(PPort, LPort, 2, c.pIss, 0, 30000, o, nil)
				w.Seg(PPort, LPort, 16, c.pIss+1, iss+1, 30000, c.opts(r), nil)
			default:
				o := synOpts(r, c)
				w.Seg(PPort, LPort, 18, c.pIss, iss+1, uint16([]int{65535, 30000, 2000}[r.R.Intn(3)]), o, nil)
			}
			c.pSeq = c.pIss + 1
			c.sAcked = iss + 1
			// timestamps are on iff the peer offered them (the stack always offers)
			w.observe(c, 0)
			if focus != "C03" {
				scenario(w, c, PPort)
			}
			w.transfer(r, c, PPort, steps())
			continue
		}
		w.Listen(10)
		if r.R.Intn(6) == 0 {
			w.CookieMode(true)
		}
		// strays at the listener and at ports nobody listens on
		for k := r.R.Intn(3); k > 0; k-- {
			fl := []uint8{16, 18, 1, 17, 24, 4, 20, 2 | 1, 0}[r.R.Intn(9)]
			dp := uint16(LPort)
			if r.R.Intn(3) == 0 {
				dp = 9999
			}
			var d []byte
			if r.R.Intn(3) == 0 {
				d = []byte{1, 2, 3}
			}
			w.Seg(sport+7, dp, fl, r.R.Uint32(), r.R.Uint32(), 1000, nil, d)
		}
		c := w.passiveOpen(r, sport)
		w.CookieMode(false)
		if c == nil {
			continue
		}
		before := len(w.Eps)
		w.Accept()
		if len(w.Eps) == before {
			continue
		}
		c.id = len(w.Eps) - 1
		if focus != "C03" {
			scenario(w, c, sport)
		} else {
			// make the new connection speak, so that the sequence number it starts from can be compared
			// with the one its handshake agreed on
			from := len(w.Seen)
			w.Write(c.id, []byte{byte(h)})
			w.observe(c, from)
			// resets at the established connection: in the window, far outside it, with and without ACK
			switch r.R.Intn(5) {
			case 0:
				w.Seg(sport, LPort, 4, c.pSeq, 0, 0, nil, nil)
			case 1:
				w.Seg(sport, LPort, 20, c.pSeq+uint32(r.R.Intn(1000)), c.sNxt, 0, nil, nil)
			case 2:
				w.Seg(sport, LPort, 4, c.pSeq+uint32(3<<20), 0, 0, nil, nil)
			}
		}
		w.transfer(r, c, sport, steps())
	}
	r.Extra["quiesce_timeouts"] = QuiesceTimeouts
	r.Extra["late_frames"] = LateFrames
}
