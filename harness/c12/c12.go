// Package c12: neighbour resolution on a real stack (link endpoint that requires resolution),
// with shortened cache timing through the verif hook, against the Lean cache/ARP model.
package c12

import (
	"fmt"
	"os"
	"sort"
	"strings"
	"time"

	"github.com/brewlin/net-protocol/pkg/sleep"
	"github.com/brewlin/net-protocol/pkg/waiter"
	tcpip "github.com/brewlin/net-protocol/protocol"
	"github.com/brewlin/net-protocol/protocol/header"
	"github.com/brewlin/net-protocol/protocol/network/arp"
	"github.com/brewlin/net-protocol/protocol/transport/udp"
	"github.com/brewlin/net-protocol/stack"
	"vharness/hx"
	"vharness/netsim"
)

const (
	ageMs     = 600
	timeoutMs = 100
	attempts  = 3
)

var (
	ourMac = []byte{2, 0, 0, 0, 0, 1}
	our4   = []byte{10, 0, 0, 1}
	our4b  = []byte{10, 0, 0, 2}
)

type world struct {
	lastTick time.Time
	tainted  bool
	// time of the last clock sample given to the model
	lastTickMs int
	r          *hx.Run
	s          *stack.Stack
	l          *netsim.Link
	start      time.Time
	sl         sleep.Sleeper
	wk         []*sleep.Waker
	deadlines  []int // ms since start that must not be sampled closely
	ep         tcpip.Endpoint
}

func (w *world) nowMs() int { return int(time.Since(w.start) / time.Millisecond) }

// settle: move away from any timer deadline so that the model's clock is unambiguous
func (w *world) settle() int {
	// on a loaded machine timers and goroutines run late and the 20 ms margins below mean nothing: wait for a moment
	// in which a 1 ms sleep takes about 1 ms (bounded: give up after a quarter of a second and carry on)
	for k := 0; k < 80; k++ {
		t := time.Now()
		time.Sleep(time.Millisecond)
		if time.Since(t) < 3*time.Millisecond {
			break
		}
		w.r.Count("settle.machine-busy")
	}
	for {
		n := w.nowMs()
		near := false
		for _, d := range w.deadlines {
			if n > d-20 && n < d+20 {
				near = true
			}
		}
		if !near {
			return n
		}
		time.Sleep(10 * time.Millisecond)
	}
}

func (w *world) outs() string {
	time.Sleep(3 * time.Millisecond)
	var reqs []string
	for _, f := range w.l.Take() {
		switch f.Proto {
		case arp.ProtocolNumber:
			if len(f.Bytes) >= 28 && f.Bytes[7] == 1 {
				reqs = append(reqs, fmt.Sprintf("req:1:%s", hx.Hex(f.Bytes[24:28])))
			}
		case header.IPv6ProtocolNumber:
			if len(f.Bytes) >= 40+24 && f.Bytes[40] == 135 {
				reqs = append(reqs, fmt.Sprintf("req:1:%s", hx.Hex(f.Bytes[48:64])))
			}
		}
	}
	wakes := 0
	for {
		if _, ok := w.sl.Fetch(false); !ok {
			break
		}
		wakes++
	}
	sort.Strings(reqs)
	return strings.TrimSpace(strings.Join(reqs, " ") + fmt.Sprintf(" wake:%d", wakes))
}

func (w *world) reset() {
	w.tainted = false
	w.sl.Done()
	w.s = netsim.NewStack()
	w.s.VerifSetLinkAddrCacheTiming(ageMs*time.Millisecond, timeoutMs*time.Millisecond, attempts)
	lid, l := netsim.NewLink(1500, tcpip.LinkAddress(ourMac), stack.CapabilityResolutionRequired)
	w.l = l
	netsim.CreateNIC(w.s, 1, lid, l)
	w.s.AddAddress(1, header.IPv4ProtocolNumber, tcpip.Address(our4))
	w.s.AddAddress(1, header.IPv4ProtocolNumber, tcpip.Address(our4b))
	w.s.AddAddress(1, arp.ProtocolNumber, arp.ProtocolAddress)
	netsim.SetRoutes(w.s, []tcpip.Route{{Destination: "\x00\x00\x00\x00", Mask: "\x00\x00\x00\x00", NIC: 1}})
	w.start = time.Now()
	w.deadlines = nil
	w.ep = nil
	w.sl = sleep.Sleeper{}
	w.wk = nil
	w.r.Emit(fmt.Sprintf("reset 512 %d %d %d", ageMs, timeoutMs, attempts), "ok")
	w.r.Emit(fmt.Sprintf("local 1 %s %s", hx.Hex(our4), hx.Hex(ourMac)), "ok")
	w.r.Emit(fmt.Sprintf("local 1 %s %s", hx.Hex(our4b), hx.Hex(ourMac)), "ok")
}

func (w *world) tick() {
	if w.tainted { // the history was cut (an operation ran late): nothing more is recorded until the next reset
		return
	}
	t := w.settle()
	w.lastTick = time.Now()
	w.lastTickMs = t
	w.r.Emit(fmt.Sprintf("t %d", t), w.outs())
}

// noteBulk: entries added without a clock sample of their own carry, in the model, the time of the last sample, and in
// the implementation a time up to now: their expiry lies somewhere in between - keep the clock samples away from the
// whole interval
func (w *world) noteBulk() {
	for d := w.lastTickMs; d <= w.nowMs()+1; d += 10 {
		w.deadlines = append(w.deadlines, d+ageMs)
	}
	w.deadlines = append(w.deadlines, w.nowMs()+1+ageMs)
}

// late: the operation ran noticeably later than the clock sample the model gets for it (the process was
// descheduled in between): what it returned cannot be compared with a prediction made for the sampled time. The
// operation is left out of the record and the history ends here.
func (w *world) late() bool {
	if time.Since(w.lastTick) > 8*time.Millisecond {
		w.tainted = true
		w.r.Count("history-cut.operation-ran-late")
		return true
	}
	return false
}

func (w *world) get(addr []byte) {
	if w.tainted { // the history was cut (an operation ran late): nothing more is recorded until the next reset
		return
	}
	w.tick()
	wk := &sleep.Waker{}
	w.wk = append(w.wk, wk)
	w.sl.AddWaker(wk, len(w.wk))
	n := w.nowMs()
	la, _, err := w.s.GetLinkAddress(1, tcpip.Address(addr), tcpip.Address(our4), header.IPv4ProtocolNumber, wk)
	if w.late() {
		return
	}
	res := ""
	switch err {
	case nil:
		res = "addr:" + hx.Hex([]byte(la))
	case tcpip.ErrWouldBlock:
		res = "wouldblock"
		for k := 1; k <= attempts; k++ {
			w.deadlines = append(w.deadlines, n+k*timeoutMs)
		}
		w.deadlines = append(w.deadlines, n+ageMs)
	case tcpip.ErrNoLinkAddress:
		res = "nolink"
	default:
		res = "err:" + err.String()
	}
	w.r.Count("get." + strings.SplitN(res, ":", 2)[0])
	w.r.Emit(fmt.Sprintf("get 1 %s %s 4", hx.Hex(addr), hx.Hex(our4)), res+" "+w.outs())
}

func (w *world) add(addr, mac []byte) {
	if w.tainted { // the history was cut (an operation ran late): nothing more is recorded until the next reset
		return
	}
	w.tick()
	n := w.nowMs()
	w.s.AddLinkAddress(1, tcpip.Address(addr), tcpip.LinkAddress(mac))
	if w.late() {
		return
	}
	w.deadlines = append(w.deadlines, n+ageMs)
	w.r.Count("add")
	w.r.Emit(fmt.Sprintf("add 1 %s %s", hx.Hex(addr), hx.Hex(mac)), w.outs())
}

func (w *world) arpIn(pkt, from []byte) {
	if w.tainted { // the history was cut (an operation ran late): nothing more is recorded until the next reset
		return
	}
	w.tick()
	n := w.nowMs()
	w.l.Inject(arp.ProtocolNumber, tcpip.LinkAddress(from), pkt)
	if w.late() {
		return
	}
	w.deadlines = append(w.deadlines, n+ageMs)
	time.Sleep(2 * time.Millisecond)
	rep := "reply=-"
	var rest []netsim.Frame
	for _, f := range w.l.Take() {
		if f.Proto == arp.ProtocolNumber && len(f.Bytes) >= 28 && f.Bytes[7] == 2 && rep == "reply=-" {
			rep = fmt.Sprintf("reply=%s@%s", hx.Hex(f.Bytes), hx.Hex([]byte(f.Remote)))
		} else {
			rest = append(rest, f)
		}
	}
	_ = rest
	w.r.Count("arp." + rep[:7])
	w.r.Emit(fmt.Sprintf("arp 1 %s %s", hx.Hex(pkt), hx.Hex(from)), rep+" "+w.outs())
}

// udpWrite: a datagram to a neighbour through the full stack (route lookup, resolution, link layer)
func (w *world) udpWrite(addr []byte) {
	if w.tainted { // the history was cut (an operation ran late): nothing more is recorded until the next reset
		return
	}
	w.tick()
	n := w.nowMs()
	if w.ep == nil {
		wq := &waiter.Queue{}
		ep, err := w.s.NewEndpoint(udp.ProtocolNumber, header.IPv4ProtocolNumber, wq)
		if err != nil {
			panic(err)
		}
		ep.Bind(tcpip.FullAddress{Addr: tcpip.Address(our4), Port: 7000}, nil)
		netsim.NotePort(w.s, 7000)
		w.ep = ep
	}
	_, _, err := w.ep.Write(tcpip.SlicePayload([]byte("hello")), tcpip.WriteOptions{To: &tcpip.FullAddress{Addr: tcpip.Address(addr), Port: 9}})
	if w.late() {
		return
	}
	time.Sleep(3 * time.Millisecond)
	ip := 0
	mac := ""
	var keep []netsim.Frame
	for _, f := range w.l.Take() {
		if f.Proto == header.IPv4ProtocolNumber {
			ip++
			mac = hx.Hex([]byte(f.Remote))
		} else {
			keep = append(keep, f)
		}
	}
	w.l.PutBack(keep)
	res := ""
	switch err {
	case nil:
		res = fmt.Sprintf("sent:%s ip=%d", mac, ip)
	case tcpip.ErrWouldBlock:
		res = fmt.Sprintf("wouldblock ip=%d", ip)
		for k := 1; k <= attempts; k++ {
			w.deadlines = append(w.deadlines, n+k*timeoutMs)
		}
		w.deadlines = append(w.deadlines, n+ageMs)
	case tcpip.ErrNoLinkAddress:
		res = fmt.Sprintf("nolink ip=%d", ip)
	default:
		res = "err:" + strings.ReplaceAll(err.String(), " ", "-") + fmt.Sprintf(" ip=%d", ip)
	}
	w.r.Count("udpw." + strings.SplitN(res, ":", 2)[0])
	w.r.Emit(fmt.Sprintf("udpw 1 %s %s", hx.Hex(addr), hx.Hex(our4)), res+" "+w.outs())
}

func (w *world) sleepMs(ms int) {
	if w.tainted { // the history was cut (an operation ran late): nothing more is recorded until the next reset
		return
	}
	time.Sleep(time.Duration(ms) * time.Millisecond)
	w.tick()
}

func Gen(r *hx.Run) {
	w := &world{r: r}
	peers := [][]byte{{10, 0, 0, 9}, {10, 0, 0, 8}, {10, 0, 0, 7}}
	macs := [][]byte{{2, 0, 0, 0, 0, 9}, {2, 0, 0, 0, 0, 8}, {2, 0, 0, 0, 9, 9}}
	// directed histories (corpus): expiry, refresh by re-adding the same mapping, overwrite, answer
	// during resolution, failure then retry after the failed entry has aged out
	{
		k, k2 := peers[0], peers[1]
		m, m2 := macs[0], macs[1]
		w.reset()
		w.add(k, m)
		w.get(k)
		w.sleepMs(ageMs + 60)
		w.get(k) // expired: a new resolution starts
		w.reset()
		w.add(k, m)
		w.sleepMs(ageMs + 60)
		w.add(k, m) // same mapping again after expiry: must be usable again
		w.get(k)
		w.reset()
		w.add(k, m)
		w.add(k, m2) // overwrite with a new link address
		w.get(k)
		w.sleepMs(ageMs/2 + 20)
		w.add(k, m2) // re-adding while still valid keeps the old expiry
		w.sleepMs(ageMs/2 + 40)
		w.get(k)
		w.reset()
		w.get(k)
		w.get(k2)
		w.arpIn(netsim.ARP(2, m, k, ourMac, our4), m)
		w.get(k)
		w.sleepMs(attempts*timeoutMs + 60)
		w.get(k2) // failed
		w.get(k2)
		w.sleepMs(ageMs)
		w.get(k2) // the failed entry has aged out: a fresh resolution
		w.sleepMs(attempts*timeoutMs + 60)
	}
	nh := r.Pick(12, 120)
	if v := os.Getenv("C12_NH"); v != "" {
		fmt.Sscan(v, &nh)
	}
	for h := 0; h < nh; h++ {
		w.reset()
		n := 4 + r.R.Intn(14)
		for k := 0; k < n && !w.tainted; k++ {
			p := r.R.Intn(len(peers))
			switch r.R.Intn(10) {
			case 0, 1, 2:
				w.get(peers[p])
			case 3:
				w.add(peers[p], macs[r.R.Intn(len(macs))])
			case 4, 5:
				// ARP reply / request from a peer (own, foreign and malformed targets)
				op := uint16(1 + r.R.Intn(2))
				tpa := [][]byte{our4, our4b, {10, 0, 0, 77}, peers[(p+1)%3]}[r.R.Intn(4)]
				sha := macs[r.R.Intn(len(macs))]
				pkt := netsim.ARP(op, sha, peers[p], []byte{0, 0, 0, 0, 0, 0}, tpa)
				if r.R.Intn(10) == 0 {
					pkt[r.R.Intn(6)] ^= 1 // malformed hardware/protocol space or sizes
				}
				if r.R.Intn(12) == 0 {
					pkt[7] = byte(3 + r.R.Intn(4)) // unknown op
				}
				w.arpIn(pkt, sha)
			case 6, 7:
				w.sleepMs([]int{30, 60, 130, 250, 350, ageMs + 40}[r.R.Intn(6)])
			case 8:
				if r.R.Intn(3) == 0 {
					w.get([]byte{255, 255, 255, 255})
				} else {
					w.udpWrite(peers[p])
				}
			default:
				if r.R.Intn(2) == 0 {
					w.udpWrite(peers[p])
				} else {
					w.get(peers[p])
				}
			}
		}
		if w.tainted {
			continue
		}
		// let everything pending run to completion, then look every peer up once more
		w.sleepMs(attempts*timeoutMs + 50)
		for _, p := range peers {
			if !w.tainted {
				w.get(p)
			}
		}
	}
	// cache overflow: more than 512 neighbours, then the early ones must be gone and late ones intact
	for round := 0; round < r.Pick(1, 3); round++ {
		w.reset()
		total := 512 + 40 + r.R.Intn(60)
		for i := 0; i < total; i++ {
			a := []byte{10, 1, byte(i >> 8), byte(i)}
			m := []byte{2, 1, 0, 0, byte(i >> 8), byte(i)}
			w.s.AddLinkAddress(1, tcpip.Address(a), tcpip.LinkAddress(m))
			w.r.Emit(fmt.Sprintf("add 1 %s %s", hx.Hex(a), hx.Hex(m)), "wake:0")
		}
		w.noteBulk()
		w.tick()
		for k := 0; k < 40; k++ {
			i := r.R.Intn(total)
			if k%2 == 0 {
				i = total - 1 - r.R.Intn(100)
			}
			w.get([]byte{10, 1, byte(i >> 8), byte(i)})
		}
		w.sleepMs(attempts*timeoutMs + 50)
	}
	// stale records: a neighbour that was overwritten / re-resolved leaves its old record behind in the ring; when
	// the ring wraps onto that record the live one must survive (and a waiter on it must still be told the outcome)
	bulk := func(from, n int) {
		for i := from; i < from+n && !w.tainted; i++ {
			a := []byte{10, 2, byte(i >> 8), byte(i)}
			m := []byte{2, 2, 0, 0, byte(i >> 8), byte(i)}
			w.s.AddLinkAddress(1, tcpip.Address(a), tcpip.LinkAddress(m))
			w.r.Emit(fmt.Sprintf("add 1 %s %s", hx.Hex(a), hx.Hex(m)), "wake:0")
		}
		w.noteBulk()
	}
	for round := 0; round < r.Pick(1, 3); round++ {
		// (a) overwrite, then wrap onto the stale record
		w.reset()
		nv := 2 + r.R.Intn(4)
		first := r.R.Intn(40)
		bulk(0, first)
		for v := 0; v < nv; v++ {
			w.s.AddLinkAddress(1, tcpip.Address([]byte{10, 3, 0, byte(v)}), tcpip.LinkAddress([]byte{2, 3, 0, 0, 0, byte(v)}))
			w.r.Emit(fmt.Sprintf("add 1 %s %s", hx.Hex([]byte{10, 3, 0, byte(v)}), hx.Hex([]byte{2, 3, 0, 0, 0, byte(v)})), "wake:0")
		}
		w.noteBulk()
		mid := 300 + r.R.Intn(150)
		bulk(first, mid)
		w.tick()
		for v := 0; v < nv; v++ {
			w.add([]byte{10, 3, 0, byte(v)}, []byte{2, 3, 9, 9, 9, byte(v)}) // new link address: a fresh slot, the old record stays
		}
		bulk(first+mid, 512-mid+r.R.Intn(30)) // the ring wraps over the stale records
		w.tick()
		for v := 0; v < nv; v++ {
			w.get([]byte{10, 3, 0, byte(v)})
		}
		w.r.Count("stale.overwrite-then-wrap")
		// (b) expiry, re-resolution in flight, wrap onto the stale record, then the answer arrives
		w.reset()
		k := []byte{10, 3, 1, 1}
		w.add(k, []byte{2, 3, 1, 1, 1, 1})
		fill := 470 + r.R.Intn(35)
		bulk(0, fill)
		w.sleepMs(ageMs + 60)
		w.get(k)                           // incomplete entry in a fresh slot, a waiter registered
		bulk(fill, 512-fill+r.R.Intn(6))   // wraps onto the neighbour's expired old record
		w.add(k, []byte{2, 3, 1, 1, 1, 2}) // the answer: the waiter must be woken
		w.get(k)
		w.sleepMs(attempts*timeoutMs + 50)
		w.get(k)
		w.r.Count("stale.reresolve-then-wrap")
	}
	w.sl.Done()
}
