// Package netsim: an in-memory link endpoint that captures every emitted frame synchronously,
// a stack builder, and raw packet builders used by the stack-level harnesses.
package netsim

import (
	"encoding/binary"
	"sync"
	"time"

	"github.com/brewlin/net-protocol/pkg/buffer"
	tcpip "github.com/brewlin/net-protocol/protocol"
	"github.com/brewlin/net-protocol/protocol/header"
	"github.com/brewlin/net-protocol/protocol/network/arp"
	"github.com/brewlin/net-protocol/protocol/network/ipv4"
	"github.com/brewlin/net-protocol/protocol/network/ipv6"
	"github.com/brewlin/net-protocol/protocol/transport/tcp"
	"github.com/brewlin/net-protocol/protocol/transport/udp"
	"github.com/brewlin/net-protocol/stack"
)

// Frame is one packet handed to the link layer by the stack.
type Frame struct {
	Proto  tcpip.NetworkProtocolNumber
	Bytes  []byte // network header + payload, flattened
	Remote tcpip.LinkAddress
	Local  tcpip.LinkAddress
	At     time.Time // taken synchronously inside WritePacket
}

// Link implements stack.LinkEndpoint.
type Link struct {
	mu     sync.Mutex
	cond   *sync.Cond
	disp   stack.NetworkDispatcher
	mtu    uint32
	addr   tcpip.LinkAddress
	caps   stack.LinkEndpointCapabilities
	hdrLen uint16
	out    []Frame
	total  int
	// context for the frame tap (C06): the stack and NIC this link is attached to
	Stack *stack.Stack
	NIC   tcpip.NICID
}

// Tap, when set, sees every frame any stack emits through a Link, with the route it was sent on;
// InjectTap sees every packet delivered to a stack (C06 records them to recognise answers).
var (
	Tap       func(l *Link, r *stack.Route, f Frame)
	InjectTap func(l *Link, proto tcpip.NetworkProtocolNumber, b []byte)
	routes    = map[*stack.Stack][]tcpip.Route{}
	ports     = map[*stack.Stack]map[uint16]bool{}
	regMu     sync.Mutex
)

// CreateNIC creates the NIC and remembers which stack / NIC the link belongs to.
func CreateNIC(s *stack.Stack, id tcpip.NICID, lid tcpip.LinkEndpointID, l *Link) *tcpip.Error {
	l.Stack, l.NIC = s, id
	return s.CreateNIC(id, lid)
}

// SetRoutes installs the route table and remembers it.
func SetRoutes(s *stack.Stack, rt []tcpip.Route) {
	regMu.Lock()
	routes[s] = rt
	regMu.Unlock()
	s.SetRouteTable(rt)
}

// Routes returns the table last installed with SetRoutes.
func Routes(s *stack.Stack) []tcpip.Route {
	regMu.Lock()
	defer regMu.Unlock()
	return routes[s]
}

// NotePort records a local port some socket of the stack is bound to.
func NotePort(s *stack.Stack, p uint16) {
	regMu.Lock()
	if ports[s] == nil {
		ports[s] = map[uint16]bool{}
	}
	ports[s][p] = true
	regMu.Unlock()
}

// PortNoted reports whether NotePort was called for the port.
func PortNoted(s *stack.Stack, p uint16) bool {
	regMu.Lock()
	defer regMu.Unlock()
	return ports[s][p]
}

func NewLink(mtu uint32, addr tcpip.LinkAddress, caps stack.LinkEndpointCapabilities) (tcpip.LinkEndpointID, *Link) {
	l := &Link{mtu: mtu, addr: addr, caps: caps}
	l.cond = sync.NewCond(&l.mu)
	return stack.RegisterLinkEndpoint(l), l
}

func (l *Link) MTU() uint32                                  { return l.mtu }
func (l *Link) Capabilities() stack.LinkEndpointCapabilities { return l.caps }
func (l *Link) MaxHeaderLength() uint16                      { return l.hdrLen }
func (l *Link) LinkAddress() tcpip.LinkAddress               { return l.addr }
func (l *Link) Attach(d stack.NetworkDispatcher)             { l.disp = d }
func (l *Link) IsAttached() bool                             { return l.disp != nil }

func (l *Link) WritePacket(r *stack.Route, hdr buffer.Prependable, payload buffer.VectorisedView, proto tcpip.NetworkProtocolNumber) *tcpip.Error {
	b := append([]byte{}, hdr.View()...)
	b = append(b, payload.ToView()...)
	f := Frame{Proto: proto, Bytes: b, At: time.Now()}
	if r != nil {
		f.Remote, f.Local = r.RemoteLinkAddress, r.LocalLinkAddress
	}
	l.mu.Lock()
	l.out = append(l.out, f)
	l.total++
	l.cond.Broadcast()
	l.mu.Unlock()
	if Tap != nil {
		Tap(l, r, f)
	}
	return nil
}

// Take returns and clears the frames captured so far.
// Pending is the number of frames written and not yet taken.
func (l *Link) Pending() int {
	l.mu.Lock()
	defer l.mu.Unlock()
	return len(l.out)
}

func (l *Link) Take() []Frame {
	l.mu.Lock()
	defer l.mu.Unlock()
	o := l.out
	l.out = nil
	return o
}

// PutBack returns frames to the front of the pending list (for callers that only wanted some).
func (l *Link) PutBack(fs []Frame) {
	l.mu.Lock()
	l.out = append(append([]Frame{}, fs...), l.out...)
	l.mu.Unlock()
}

// WaitFrames waits until at least n frames are pending or the timeout expires, then takes them.
func (l *Link) WaitFrames(n int, timeout time.Duration) []Frame {
	deadline := time.Now().Add(timeout)
	l.mu.Lock()
	for len(l.out) < n && time.Now().Before(deadline) {
		l.mu.Unlock()
		time.Sleep(200 * time.Microsecond)
		l.mu.Lock()
	}
	o := l.out
	l.out = nil
	l.mu.Unlock()
	return o
}

// Inject delivers a network-layer packet as if received from remote link address `from`.
func (l *Link) Inject(proto tcpip.NetworkProtocolNumber, from tcpip.LinkAddress, views ...[]byte) {
	var vs []buffer.View
	size := 0
	for _, v := range views {
		c := make([]byte, len(v))
		copy(c, v)
		vs = append(vs, buffer.View(c))
		size += len(v)
	}
	vv := buffer.NewVectorisedView(size, vs)
	if InjectTap != nil {
		InjectTap(l, proto, vv.ToView())
	}
	l.disp.DeliverNetworkPacket(l, from, l.addr, proto, vv)
}

// NewStack builds a stack with ipv4, ipv6, arp, tcp, udp.
func NewStack() *stack.Stack {
	return stack.New([]string{ipv4.ProtocolName, ipv6.ProtocolName, arp.ProtocolName},
		[]string{tcp.ProtocolName, udp.ProtocolName}, stack.Options{})
}

// ---- raw packet builders (independent of the stack's own senders: plain byte layout)

func put16(b []byte, v uint16) { binary.BigEndian.PutUint16(b, v) }

// Sum16 is a straightforward RFC 1071 sum used by the harness for the packets it builds.
func Sum16(b []byte, init uint32) uint32 {
	s := init
	for i := 0; i+1 < len(b); i += 2 {
		s += uint32(b[i])<<8 | uint32(b[i+1])
	}
	if len(b)%2 == 1 {
		s += uint32(b[len(b)-1]) << 8
	}
	return s
}

func Fold(s uint32) uint16 {
	for s>>16 != 0 {
		s = s&0xffff + s>>16
	}
	return uint16(s)
}

// IPv4 builds an IPv4 packet (20-byte header) around payload.
func IPv4(src, dst []byte, proto uint8, id uint16, flagsFO uint16, ttl uint8, payload []byte) []byte {
	b := make([]byte, 20+len(payload))
	b[0] = 0x45
	put16(b[2:], uint16(len(b)))
	put16(b[4:], id)
	put16(b[6:], flagsFO)
	b[8] = ttl
	b[9] = proto
	copy(b[12:16], src)
	copy(b[16:20], dst)
	put16(b[10:], ^Fold(Sum16(b[:20], 0)))
	copy(b[20:], payload)
	return b
}

func IPv6(src, dst []byte, next uint8, hop uint8, payload []byte) []byte {
	b := make([]byte, 40+len(payload))
	b[0] = 0x60
	put16(b[4:], uint16(len(payload)))
	b[6] = next
	b[7] = hop
	copy(b[8:24], src)
	copy(b[24:40], dst)
	copy(b[40:], payload)
	return b
}

func pseudo(src, dst []byte, proto uint8, length int) uint32 {
	s := Sum16(src, 0)
	s = Sum16(dst, s)
	s += uint32(proto)
	s += uint32(length)
	return s
}

// UDP builds a UDP datagram with a correct checksum (0 is sent as 0xffff).
func UDP(src, dst []byte, sport, dport uint16, payload []byte) []byte {
	b := make([]byte, 8+len(payload))
	put16(b[0:], sport)
	put16(b[2:], dport)
	put16(b[4:], uint16(len(b)))
	copy(b[8:], payload)
	c := ^Fold(Sum16(b, pseudo(src, dst, 17, len(b))))
	if c == 0 {
		c = 0xffff
	}
	put16(b[6:], c)
	return b
}

// ICMPv4Echo builds an echo request/reply (typ 8/0).
func ICMPv4Echo(typ uint8, ident, seq uint16, payload []byte) []byte {
	b := make([]byte, 8+len(payload))
	b[0] = typ
	put16(b[4:], ident)
	put16(b[6:], seq)
	copy(b[8:], payload)
	put16(b[2:], ^Fold(Sum16(b, 0)))
	return b
}

func ICMPv6Echo(src, dst []byte, typ uint8, ident, seq uint16, payload []byte) []byte {
	b := make([]byte, 8+len(payload))
	b[0] = typ
	put16(b[4:], ident)
	put16(b[6:], seq)
	copy(b[8:], payload)
	put16(b[2:], ^Fold(Sum16(b, pseudo(src, dst, 58, len(b)))))
	return b
}

// ARP builds an IPv4-over-Ethernet ARP packet.
func ARP(op uint16, sha, spa, tha, tpa []byte) []byte {
	b := make([]byte, 28)
	copy(b, []byte{0, 1, 8, 0, 6, 4})
	put16(b[6:], op)
	copy(b[8:14], sha)
	copy(b[14:18], spa)
	copy(b[18:24], tha)
	copy(b[24:28], tpa)
	return b
}

// TCPSeg builds a TCP segment with options and a correct checksum.
func TCPSeg(src, dst []byte, sport, dport uint16, seq, ack uint32, flags uint8, wnd uint16, opts, payload []byte) []byte {
	for len(opts)%4 != 0 {
		opts = append(opts, 1)
	}
	hl := 20 + len(opts)
	b := make([]byte, hl+len(payload))
	put16(b[0:], sport)
	put16(b[2:], dport)
	binary.BigEndian.PutUint32(b[4:], seq)
	binary.BigEndian.PutUint32(b[8:], ack)
	b[12] = uint8(hl/4) << 4
	b[13] = flags
	put16(b[14:], wnd)
	copy(b[20:], opts)
	copy(b[hl:], payload)
	put16(b[16:], ^Fold(Sum16(b, pseudo(src, dst, 6, len(b)))))
	return b
}

var _ = header.IPv4MinimumSize
