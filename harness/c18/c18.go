// Package c18: forced-schedule correspondence of pkg/tmutex with the Lean interleaving model.
// Every goroutine stops at the schedule points compiled into tmutex under -tags verif; the
// harness releases exactly one goroutine at a time, so the real code executes the schedule
// the harness chose, one atomic operation per step.
package c18

import (
	"fmt"
	"time"

	"github.com/brewlin/net-protocol/pkg/tmutex"
	"vharness/hx"
)

var pointNames = []string{"la", "ll", "lr", "tl", "tc", "us", "ud"}

type report struct {
	tid  int
	kind string // "at" or "ret"
	val  string
}

type thread struct {
	cmd chan string
	run chan struct{}
}

type world struct {
	m       *tmutex.Mutex
	th      []*thread
	rep     chan report
	cur     int
	at      []string // "" between ops
	holding []bool
	tok     bool
	dead    bool
}

func newWorld(n int) *world {
	w := &world{m: &tmutex.Mutex{}, rep: make(chan report, 16), at: make([]string, n), holding: make([]bool, n)}
	w.m.Init()
	for i := 0; i < n; i++ {
		t := &thread{cmd: make(chan string), run: make(chan struct{})}
		w.th = append(w.th, t)
		tid := i
		go func() {
			for op := range t.cmd {
				var res string
				switch op {
				case "lock":
					w.m.Lock()
					res = "acq"
				case "trylock":
					res = fmt.Sprint(w.m.TryLock())
				case "unlock":
					w.m.Unlock()
					res = "unlocked"
				}
				w.rep <- report{tid, "ret", res}
			}
		}()
	}
	// one hook for the whole process: the goroutine that is running is w.cur
	tmutex.VerifHook = func(point int) {
		tid := w.cur
		w.rep <- report{tid, "at", pointNames[point]}
		<-w.th[tid].run
	}
	return w
}

func (w *world) wait() string {
	select {
	case r := <-w.rep:
		if r.kind == "at" {
			w.at[r.tid] = r.val
			return "at:" + r.val
		}
		w.at[r.tid] = ""
		switch r.val {
		case "acq", "true":
			w.holding[r.tid] = true
		}
		return "ret:" + r.val
	case <-time.After(300 * time.Millisecond):
		w.dead = true
		return "hang"
	}
}

func (w *world) start(r *hx.Run, i int, op string) {
	w.cur = i
	if op == "unlock" {
		w.holding[i] = false
	}
	w.th[i].cmd <- op
	res := w.wait()
	r.Count("start." + op)
	r.Emit(fmt.Sprintf("start %d %s", i, op), res)
}

func (w *world) step(r *hx.Run, i int) {
	w.cur = i
	pt := w.at[i]
	switch pt { // the harness's own token bookkeeping (what a correct mutex does with the channel)
	case "lr":
		w.tok = false
	case "ud":
		w.tok = true
	}
	w.th[i].run <- struct{}{}
	res := w.wait()
	r.Count("step." + pt)
	r.Emit(fmt.Sprintf("step %d", i), res)
}

func (w *world) enabled(i int) bool {
	if w.at[i] == "" {
		return false
	}
	if w.at[i] == "lr" {
		return w.tok
	}
	return true
}

func (w *world) close() {
	tmutex.VerifHook = nil
	if !w.dead {
		for _, t := range w.th {
			close(t.cmd)
		}
	}
}

// drain: let everybody finish; holders unlock. Ends with a quiescence query.
func (w *world) drain(r *hx.Run) {
	for guard := 0; guard < 400 && !w.dead; guard++ {
		moved := false
		for i := range w.th {
			if w.dead {
				break
			}
			if w.enabled(i) {
				w.step(r, i)
				moved = true
			} else if w.at[i] == "" && w.holding[i] {
				w.start(r, i, "unlock")
				moved = true
			}
		}
		if !moved {
			break
		}
	}
	if w.dead {
		return
	}
	busy := ""
	for i := range w.th {
		if w.at[i] != "" {
			if busy != "" {
				busy += ","
			}
			busy += fmt.Sprint(i)
		}
	}
	if busy == "" {
		r.Emit("quiescent", "all-idle")
	} else {
		r.Emit("quiescent", "busy:"+busy)
	}
}

func randomHistory(r *hx.Run, n, maxActs int) {
	w := newWorld(n)
	defer w.close()
	r.Emit(fmt.Sprintf("reset %d", n), "ok")
	for a := 0; a < maxActs && !w.dead; a++ {
		i := r.R.Intn(n)
		switch {
		case w.at[i] == "" && w.holding[i]:
			if r.R.Intn(3) > 0 {
				w.start(r, i, "unlock")
			}
		case w.at[i] == "":
			if r.R.Intn(3) == 0 {
				w.start(r, i, "trylock")
			} else {
				w.start(r, i, "lock")
			}
		case w.enabled(i):
			w.step(r, i)
		}
	}
	w.drain(r)
}

// systematic: all interleavings of fixed per-thread scripts (depth-first, re-executed from
// scratch for each schedule), up to maxSchedules.
func systematic(r *hx.Run, scripts [][]string, maxSchedules int) int {
	count := 0
	var prefix []int
	var dfs func() bool
	// run executes the schedule prefix then continues "lowest enabled thread first" recording
	// the choice points, returns the list of alternative choices at each depth.
	runOnce := func(sched []int) (choices [][]int) {
		n := len(scripts)
		w := newWorld(n)
		defer w.close()
		r.Emit(fmt.Sprintf("reset %d", n), "ok")
		pos := make([]int, n)
		for depth := 0; depth < 60 && !w.dead; depth++ {
			var opts []int
			for i := 0; i < n; i++ {
				if w.enabled(i) || (w.at[i] == "" && pos[i] < len(scripts[i])) {
					// a thread between ops with a pending "unlock" it does not hold skips it
					opts = append(opts, i)
				}
			}
			if len(opts) == 0 {
				break
			}
			pick := opts[0]
			if depth < len(sched) {
				pick = sched[depth]
			}
			choices = append(choices, opts)
			if w.at[pick] == "" {
				op := scripts[pick][pos[pick]]
				pos[pick]++
				if op == "unlock" && !w.holding[pick] {
					continue
				}
				w.start(r, pick, op)
			} else {
				w.step(r, pick)
			}
		}
		w.drain(r)
		return choices
	}
	dfs = func() bool {
		choices := runOnce(prefix)
		count++
		if count >= maxSchedules {
			return false
		}
		// backtrack: find the deepest position with an untried alternative
		full := make([]int, len(choices))
		for d := range choices {
			if d < len(prefix) {
				full[d] = prefix[d]
			} else {
				full[d] = choices[d][0]
			}
		}
		for d := len(choices) - 1; d >= 0; d-- {
			idx := 0
			for k, c := range choices[d] {
				if c == full[d] {
					idx = k
				}
			}
			if idx+1 < len(choices[d]) {
				prefix = append(append([]int{}, full[:d]...), choices[d][idx+1])
				return true
			}
		}
		return false
	}
	for dfs() {
	}
	return count
}

func Gen(r *hx.Run) {
	nh := r.Pick(200, 3000)
	for h := 0; h < nh; h++ {
		randomHistory(r, 2+r.R.Intn(3), 10+r.R.Intn(50))
	}
	n1 := systematic(r, [][]string{{"lock", "unlock"}, {"lock", "unlock"}}, r.Pick(300, 20000))
	n2 := systematic(r, [][]string{{"lock", "unlock"}, {"trylock", "unlock"}, {"lock", "unlock"}}, r.Pick(300, 20000))
	r.Extra["systematic_2x(lock,unlock)"] = n1
	r.Extra["systematic_3threads"] = n2
}
