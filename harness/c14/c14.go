// Package c14: correspondence of pkg/seqnum with the Lean model / oracle.
package c14

import (
	"fmt"

	"github.com/brewlin/net-protocol/pkg/seqnum"
	"vharness/hx"
)

func one(r *hx.Run, op string, a [4]uint32) {
	var res, line string
	switch op {
	case "LessThan":
		res = hx.B(seqnum.Value(a[0]).LessThan(seqnum.Value(a[1])))
		line = fmt.Sprintf("%s %d %d", op, a[0], a[1])
	case "LessThanEq":
		res = hx.B(seqnum.Value(a[0]).LessThanEq(seqnum.Value(a[1])))
		line = fmt.Sprintf("%s %d %d", op, a[0], a[1])
	case "InRange":
		res = hx.B(seqnum.Value(a[0]).InRange(seqnum.Value(a[1]), seqnum.Value(a[2])))
		line = fmt.Sprintf("%s %d %d %d", op, a[0], a[1], a[2])
	case "InWindow":
		res = hx.B(seqnum.Value(a[0]).InWindow(seqnum.Value(a[1]), seqnum.Size(a[2])))
		line = fmt.Sprintf("%s %d %d %d", op, a[0], a[1], a[2])
	case "Overlap":
		res = hx.B(seqnum.Overlap(seqnum.Value(a[0]), seqnum.Size(a[1]), seqnum.Value(a[2]), seqnum.Size(a[3])))
		line = fmt.Sprintf("%s %d %d %d %d", op, a[0], a[1], a[2], a[3])
	case "Add":
		res = fmt.Sprint(uint32(seqnum.Value(a[0]).Add(seqnum.Size(a[1]))))
		line = fmt.Sprintf("%s %d %d", op, a[0], a[1])
	case "Size":
		res = fmt.Sprint(uint32(seqnum.Value(a[0]).Size(seqnum.Value(a[1]))))
		line = fmt.Sprintf("%s %d %d", op, a[0], a[1])
	case "UpdateForward":
		v := seqnum.Value(a[0])
		v.UpdateForward(seqnum.Size(a[1]))
		res = fmt.Sprint(uint32(v))
		line = fmt.Sprintf("%s %d %d", op, a[0], a[1])
	}
	r.Count(op + "=" + res[:1])
	r.Emit(line, res)
}

var ops = []string{"LessThan", "LessThanEq", "InRange", "InWindow", "Overlap", "Add", "Size", "UpdateForward"}

func Gen(r *hx.Run) {
	n := r.Pick(100000, 4000000)
	// corpus: antipode, wrap, empty windows
	for _, op := range ops {
		for _, a := range [][4]uint32{{0, 0x80000000, 0, 0}, {0xffffffff, 0, 1, 1}, {10, 0, 5, 10}, {0, 0x90000000, 0x10, 1},
			{0xfffffff0, 0x20, 0x8, 0x4}, {5, 5, 5, 5}, {0, 0xffffffff, 0, 0xffffffff}} {
			one(r, op, a)
		}
	}
	for i := 0; i < n; i++ {
		op := ops[r.R.Intn(len(ops))]
		var a [4]uint32
		a[0] = r.U32()
		switch op {
		case "Overlap":
			// windows near each other: sizes small or boundary
			a[1] = sizeish(r)
			a[2] = r.Near(a[0])
			if r.R.Intn(3) == 0 {
				a[2] = a[0] + uint32(r.R.Intn(40)) - 20
			}
			a[3] = sizeish(r)
		case "InWindow":
			a[1] = r.Near(a[0])
			if r.R.Intn(2) == 0 {
				a[1] = a[0] - uint32(r.R.Intn(70000))
			}
			a[2] = sizeish(r)
		default:
			a[1] = r.Near(a[0])
			a[2] = r.Near(a[1])
			if r.R.Intn(2) == 0 {
				a[2] = a[1] + uint32(r.R.Intn(100000))
			}
		}
		one(r, op, a)
	}
}

func sizeish(r *hx.Run) uint32 {
	switch r.R.Intn(5) {
	case 0:
		return uint32(r.R.Intn(4))
	case 1:
		return uint32(r.R.Intn(70000))
	case 2:
		return r.U32()
	default:
		return uint32(r.R.Intn(1 << 20))
	}
}
