// Package c08: correspondence of protocol/network/fragmentation with the Lean model and the
// reassembly oracle.  Also used by C07 (malformed fragment sets must not panic).
package c08

import (
	"fmt"
	"time"

	"github.com/brewlin/net-protocol/pkg/buffer"
	"github.com/brewlin/net-protocol/protocol/network/fragmentation"
	"vharness/hx"
)

type piece struct {
	first, last uint16
	more        bool
	data        []byte
	id          uint32
	expired     bool
	malformed   bool
}

func mkVV(r *hx.Run, data []byte) buffer.VectorisedView {
	var views []buffer.View
	rest := data
	for len(rest) > 0 {
		n := 1 + r.R.Intn(len(rest))
		if r.R.Intn(4) == 0 {
			views = append(views, buffer.View{})
		}
		v := make([]byte, n, n+r.R.Intn(3))
		copy(v, rest[:n])
		views = append(views, buffer.View(v))
		rest = rest[n:]
	}
	return buffer.NewVectorisedView(len(data), views)
}

type world struct {
	f *fragmentation.Fragmentation
}

func (w *world) proc(r *hx.Run, p piece) {
	res := func() (s string) {
		defer func() {
			if e := recover(); e != nil {
				s = "panic"
			}
		}()
		vv, done := w.f.Process(p.id, p.first, p.last, p.more, mkVV(r, p.data))
		if done {
			if p.malformed {
				return fmt.Sprintf("ready len=%d", vv.Size())
			}
			return "ready " + hx.Hex(vv.ToView())
		}
		return "notready"
	}()
	b := func(x bool) int {
		if x {
			return 1
		}
		return 0
	}
	r.Count("proc." + res[:5])
	r.Emit(fmt.Sprintf("proc %d %d %d %d %d %s", p.id, b(p.expired), p.first, p.last, b(p.more), hx.Hex(p.data)), res)
}

// cut P at the given sorted cut points into well-formed fragments
func cutAt(P []byte, cuts []int, id uint32) []piece {
	var ps []piece
	start := 0
	cuts = append(append([]int{}, cuts...), len(P))
	for _, c := range cuts {
		if c <= start {
			continue
		}
		ps = append(ps, piece{first: uint16(start), last: uint16(c - 1), more: c < len(P), data: P[start:c], id: id})
		start = c
	}
	return ps
}

func randCuts(r *hx.Run, n int, aligned bool) []int {
	k := r.R.Intn(5)
	if r.R.Intn(4) == 0 {
		// many fragments: the hole list outgrows its initial capacity (16) and is reallocated
		k = 12 + r.R.Intn(40)
	}
	m := map[int]bool{}
	for i := 0; i < k; i++ {
		c := 1 + r.R.Intn(n)
		if aligned {
			c = c / 8 * 8
		}
		if c > 0 && c < n {
			m[c] = true
		}
	}
	var cs []int
	for c := 1; c < n; c++ {
		if m[c] {
			cs = append(cs, c)
		}
	}
	return cs
}

func wfHistory(r *hx.Run, w *world, big bool) {
	nd := 1 + r.R.Intn(3)
	var all []piece
	for d := 0; d < nd; d++ {
		n := 1 + r.R.Intn(r.Pick(60, 200))
		if r.R.Intn(4) == 0 {
			n = 100 + r.R.Intn(600)
		}
		if r.R.Intn(10) == 0 {
			n = 1 + r.R.Intn(3000)
		}
		P := make([]byte, n)
		r.R.Read(P)
		id := uint32(r.R.Intn(4)) + uint32(d)*10
		r.Emit(fmt.Sprintf("dgram %d 1 %s", id, hx.Hex(P)), "ok")
		ps := cutAt(P, randCuts(r, n, r.R.Intn(2) == 0), id)
		// overlapping extras that agree on content (re-cuts), and duplicates
		extras := r.R.Intn(3)
		if len(ps) > 10 {
			extras = r.R.Intn(12)
		}
		for k := extras; k > 0; k-- {
			a := r.R.Intn(n)
			b := a + r.R.Intn(n-a)
			ps = append(ps, piece{first: uint16(a), last: uint16(b), more: b+1 < n, data: P[a : b+1], id: id})
		}
		for k := r.R.Intn(3); k > 0 && len(ps) > 0; k-- {
			ps = append(ps, ps[r.R.Intn(len(ps))])
		}
		if r.R.Intn(6) == 0 && len(ps) > 1 { // incomplete set: nothing may be delivered
			ps = ps[:len(ps)-1]
		}
		all = append(all, ps...)
	}
	r.R.Shuffle(len(all), func(i, j int) { all[i], all[j] = all[j], all[i] })
	for _, p := range all {
		w.proc(r, p)
	}
}

// malformed: what ipv4.HandlePacket can hand over: last = offset + len - 1 in uint16, any flags
func badHistory(r *hx.Run, w *world) {
	id := uint32(100 + r.R.Intn(3))
	r.Emit(fmt.Sprintf("dgram %d 0 -", id), "ok")
	n := 1 + r.R.Intn(5)
	for k := 0; k < n; k++ {
		off := uint16(r.R.Intn(6) * 8)
		if r.R.Intn(8) == 0 {
			off = uint16(r.R.Intn(8192) * 8)
		}
		l := r.R.Intn(20)
		if r.R.Intn(3) == 0 {
			l = []int{0, 0, 4, 8, 16}[r.R.Intn(5)]
		}
		data := make([]byte, l)
		r.R.Read(data)
		w.proc(r, piece{first: off, last: off + uint16(l) - 1, more: r.R.Intn(2) == 0, data: data, id: id, malformed: true})
	}
}

func Gen(r *hx.Run) {
	w := &world{}
	newF := func(hi, lo int, to time.Duration) {
		w.f = fragmentation.NewFragmentation(hi, lo, to)
		r.Emit(fmt.Sprintf("new %d %d", hi, lo), "ok")
	}
	// corpus: the D1 replays (pinned code panicked here)
	newF(4<<20, 3<<20, time.Hour)
	r.Emit("dgram 7 0 -", "ok")
	w.proc(r, piece{first: 8, last: 15, more: true, data: make([]byte, 8), id: 7, malformed: true})
	w.proc(r, piece{first: 0, last: 65535, more: true, data: nil, id: 7, malformed: true})
	r.Emit("dgram 8 0 -", "ok")
	w.proc(r, piece{first: 16, last: 23, more: false, data: make([]byte, 8), id: 8, malformed: true})
	w.proc(r, piece{first: 8, last: 11, more: false, data: make([]byte, 4), id: 8, malformed: true})
	w.proc(r, piece{first: 0, last: 7, more: true, data: make([]byte, 8), id: 8, malformed: true})
	w.proc(r, piece{first: 0, last: 7, more: true, data: make([]byte, 8), id: 8, malformed: true})

	nh := r.Pick(3000, 60000)
	for h := 0; h < nh; h++ {
		switch k := r.R.Intn(10); {
		case k < 7:
			newF(4<<20, 3<<20, time.Hour)
			wfHistory(r, w, true)
		case k < 8:
			hi := 1 + r.R.Intn(300)
			newF(hi, r.R.Intn(hi+2), time.Hour)
			wfHistory(r, w, false)
		default:
			newF(4<<20, 3<<20, time.Hour)
			badHistory(r, w)
		}
	}
	// exhaustive small scope: every cut of a datagram of n bytes into <= 4 fragments, every arrival
	// order, with one duplicate inserted at every position
	maxN := r.Pick(5, 7)
	P := []byte{0x10, 0x21, 0x32, 0x43, 0x54, 0x65, 0x76}
	cnt := 0
	for n := 1; n <= maxN; n++ {
		for mask := 0; mask < 1<<(n-1); mask++ {
			var cuts []int
			for c := 1; c < n; c++ {
				if mask&(1<<(c-1)) != 0 {
					cuts = append(cuts, c)
				}
			}
			if len(cuts) > 3 {
				continue
			}
			ps := cutAt(P[:n], cuts, 1)
			permute(len(ps), func(perm []int) {
				for dup := -1; dup < len(ps); dup++ {
					newF(4<<20, 3<<20, time.Hour)
					r.Emit(fmt.Sprintf("dgram 1 1 %s", hx.Hex(P[:n])), "ok")
					for i, pi := range perm {
						w.proc(r, ps[pi])
						if i == dup {
							w.proc(r, ps[pi])
						}
					}
					cnt++
				}
			})
		}
	}
	r.Extra["exhaustive_orders"] = cnt
	// reassembly timeout: fragments older than the timeout are not combined with newer ones
	for k := 0; k < r.Pick(2, 6); k++ {
		w.f = fragmentation.NewFragmentation(4<<20, 3<<20, 300*time.Millisecond)
		r.Emit("new 4194304 3145728", "ok")
		Q := make([]byte, 24)
		r.R.Read(Q)
		r.Emit(fmt.Sprintf("dgram 5 1 %s", hx.Hex(Q)), "ok")
		ps := cutAt(Q, []int{8, 16}, 5)
		w.proc(r, ps[0])
		if k%2 == 0 {
			w.proc(r, ps[2])
			time.Sleep(400 * time.Millisecond)
		} else {
			// the age counts from the first fragment, not from the latest: two gaps shorter than the timeout that
			// add up to more than it
			time.Sleep(200 * time.Millisecond)
			w.proc(r, ps[2])
			time.Sleep(200 * time.Millisecond)
			r.Count("timeout-history.age-from-first-fragment")
		}
		p := ps[1]
		p.expired = true
		w.proc(r, p) // must NOT complete: the old fragments are gone
		w.proc(r, ps[0])
		w.proc(r, ps[2]) // now complete again
		r.Count("timeout-history")
	}
}

func permute(n int, f func([]int)) {
	p := make([]int, n)
	for i := range p {
		p[i] = i
	}
	var rec func(k int)
	rec = func(k int) {
		if k == n {
			f(p)
			return
		}
		for i := k; i < n; i++ {
			p[k], p[i] = p[i], p[k]
			rec(k + 1)
			p[k], p[i] = p[i], p[k]
		}
	}
	rec(0)
}
