// Package c17: correspondence of pkg/waiter (+pkg/ilist) with the pointer-level Lean model and the
// abstract wait-queue oracle.
package c17

import (
	"fmt"
	"sort"
	"strings"
	"sync"

	"github.com/brewlin/net-protocol/pkg/waiter"
	"vharness/hx"
)

type recCb struct {
	inner waiter.EntryCallback
	id    int
	log   *[]int
	mu    *sync.Mutex
}

func (c *recCb) Callback(e *waiter.Entry) {
	c.mu.Lock()
	*c.log = append(*c.log, c.id)
	c.mu.Unlock()
	c.inner.Callback(e)
}

type world struct {
	q    waiter.Queue
	ents []*waiter.Entry
	chs  []chan struct{}
	reg  []bool
	log  *[]int
	mu   *sync.Mutex
}

func newWorld(k int) *world {
	w := &world{log: new([]int), mu: new(sync.Mutex)}
	for i := 0; i < k; i++ {
		e, ch := waiter.NewChannelEntry(nil)
		e.Callback = &recCb{inner: e.Callback, id: i, log: w.log, mu: w.mu}
		ee := e
		w.ents = append(w.ents, &ee)
		w.chs = append(w.chs, ch)
		w.reg = append(w.reg, false)
	}
	return w
}

func ids(l []int) string {
	if len(l) == 0 {
		return "-"
	}
	var p []string
	for _, x := range l {
		p = append(p, fmt.Sprint(x))
	}
	return strings.Join(p, ",")
}

func (w *world) apply(r *hx.Run, line string) {
	f := strings.Fields(line)
	atoi := func(s string) int { var n int; fmt.Sscan(s, &n); return n }
	res := "ok"
	switch f[0] {
	case "reset":
		*w = *newWorld(len(w.ents))
	case "reg":
		w.q.EventRegister(w.ents[atoi(f[1])], waiter.EventMask(atoi(f[2])))
		w.reg[atoi(f[1])] = true
	case "unreg":
		w.q.EventUnregister(w.ents[atoi(f[1])])
		w.reg[atoi(f[1])] = false
	case "notify", "notifyset":
		*w.log = nil
		w.q.Notify(waiter.EventMask(atoi(f[1])))
		if f[0] == "notifyset" {
			sort.Ints(*w.log)
		}
		res = ids(*w.log)
	case "events":
		res = fmt.Sprint(uint16(w.q.Events()))
	case "empty":
		res = hx.B(w.q.IsEmpty())
	case "take":
		select {
		case <-w.chs[atoi(f[1])]:
			res = "true"
		default:
			res = "false"
		}
	}
	r.Count(f[0])
	r.Emit(line, res)
}

var masks = []int{1, 2, 3}

// alphabet of contract-respecting next operations in the current state
func (w *world) options() []string {
	var o []string
	for i := range w.ents {
		if w.reg[i] {
			o = append(o, fmt.Sprintf("unreg %d", i))
		} else {
			for _, m := range masks {
				o = append(o, fmt.Sprintf("reg %d %d", i, m))
			}
		}
		o = append(o, fmt.Sprintf("take %d", i))
	}
	for _, m := range masks {
		o = append(o, fmt.Sprintf("notify %d", m))
	}
	o = append(o, "events", "empty")
	return o
}

func Gen(r *hx.Run) {
	w := newWorld(3)
	// exhaustive: all contract-respecting op sequences up to depth D over 3 entries x 3 masks
	depth := r.Pick(4, 5)
	count := 0
	var rec func(prefix []string)
	rec = func(prefix []string) {
		// replay prefix from scratch, then branch
		w.apply(r, "reset")
		for _, op := range prefix {
			w.apply(r, op)
		}
		count++
		if len(prefix) == depth {
			return
		}
		for _, op := range w.options() {
			// only extend; the replay above happens in the recursive call
			rec(append(append([]string{}, prefix...), op))
			// restore state for computing further options of this prefix
			w.applyQuiet("reset")
			for _, p := range prefix {
				w.applyQuiet(p)
			}
		}
	}
	rec(nil)
	r.Extra["exhaustive_depth"] = depth
	r.Extra["exhaustive_sequences"] = count
	// random longer histories over 6 entries, 16-bit masks
	w = newWorld(6)
	masksSave := masks
	nh := r.Pick(1500, 30000)
	for h := 0; h < nh; h++ {
		w.apply(r, "reset")
		masks = []int{1 + r.R.Intn(7), 1 << uint(r.R.Intn(16)), 1 + r.R.Intn(65535)}
		n := 1 + r.R.Intn(r.Pick(40, 200))
		for k := 0; k < n; k++ {
			o := w.options()
			w.apply(r, o[r.R.Intn(len(o))])
		}
	}
	masks = masksSave
	if r.Thorough() {
		race(r)
	}
}

func (w *world) applyQuiet(line string) {
	f := strings.Fields(line)
	atoi := func(s string) int { var n int; fmt.Sscan(s, &n); return n }
	switch f[0] {
	case "reset":
		*w = *newWorld(len(w.ents))
	case "reg":
		w.q.EventRegister(w.ents[atoi(f[1])], waiter.EventMask(atoi(f[2])))
		w.reg[atoi(f[1])] = true
	case "unreg":
		w.q.EventUnregister(w.ents[atoi(f[1])])
		w.reg[atoi(f[1])] = false
	case "notify":
		w.q.Notify(waiter.EventMask(atoi(f[1])))
	case "take":
		select {
		case <-w.chs[atoi(f[1])]:
		default:
		}
	}
}

// race: every goroutine owns one entry and registers/unregisters it while others notify; afterwards
// the surviving registrations must be exactly what a final notify reaches.
func race(r *hx.Run) {
	for round := 0; round < 200; round++ {
		w := newWorld(6)
		final := make([]int, 6)
		var wg sync.WaitGroup
		for g := 0; g < 6; g++ {
			g := g
			wg.Add(1)
			go func() {
				defer wg.Done()
				n := 20 + g
				for k := 0; k < n; k++ {
					w.q.EventRegister(w.ents[g], waiter.EventMask(1+g%3))
					if k < n-1 || g%2 == 0 {
						w.q.EventUnregister(w.ents[g])
						final[g] = 0
					} else {
						final[g] = 1 + g%3
					}
				}
			}()
		}
		wg.Add(1)
		go func() {
			defer wg.Done()
			for k := 0; k < 100; k++ {
				w.q.Notify(3)
			}
		}()
		wg.Wait()
		r.Emit("reset", "ok")
		for g := 0; g < 6; g++ {
			if final[g] != 0 {
				r.Emit(fmt.Sprintf("reg %d %d", g, final[g]), "ok")
			}
		}
		for _, m := range []int{1, 2, 3} {
			*w.log = nil
			w.q.Notify(waiter.EventMask(m))
			sort.Ints(*w.log)
			r.Count("race.notifyset")
			r.Emit(fmt.Sprintf("notifyset %d", m), ids(*w.log))
		}
	}
}
