module vharness

go 1.21

require github.com/brewlin/net-protocol v0.0.0

replace github.com/brewlin/net-protocol => /repo
