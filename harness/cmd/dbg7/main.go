package main

import (
	"encoding/hex"
	"fmt"
	"os"

	"vharness/c07"
)

func main() {
	var views [][]byte
	for _, a := range os.Args[2:] {
		b, _ := hex.DecodeString(a)
		views = append(views, b)
	}
	for i := 0; i < 3; i++ {
		fmt.Println(c07.DebugInject(os.Args[1] == "6", views))
	}
}
