package main

import (
	"vharness/c06"
	"vharness/hx"
)

func main() { hx.Main(c06.Gen) }
