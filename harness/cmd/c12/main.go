package main

import (
	"vharness/c12"
	"vharness/hx"
)

func main() { hx.Main(c12.Gen) }
