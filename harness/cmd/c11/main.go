package main

import (
	"vharness/hx"
	"vharness/netw"
)

func main() { hx.Main(func(r *hx.Run) { netw.Gen(r, "C11") }) }
