package main

import (
	"vharness/c15"
	"vharness/hx"
)

func main() { hx.Main(c15.Gen) }
