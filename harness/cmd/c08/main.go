package main

import (
	"vharness/c08"
	"vharness/hx"
)

func main() { hx.Main(c08.Gen) }
