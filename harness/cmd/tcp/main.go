package main

import (
	"os"

	"vharness/hx"
	"vharness/tcpw"
)

func main() {
	focus := ""
	if len(os.Args) > 2 {
		focus = os.Args[2]
	}
	hx.Main(func(r *hx.Run) { tcpw.Gen(r, focus) })
}
