package main

import (
	"vharness/hx"
	"vharness/tcpw"
)

func main() { hx.Main(tcpw.Gen) }
