package main

import (
	"vharness/c18"
	"vharness/hx"
)

func main() { hx.Main(c18.Gen) }
