// tcpdbg replays recorded op lines (a file, or stdin) against the real stack and prints op / output pairs.
package main

import (
	"bufio"
	"fmt"
	"io"
	"log"
	"os"
	"strings"

	"vharness/hx"
	"vharness/tcpw"
)

func main() {
	log.SetOutput(io.Discard)
	dir, _ := os.MkdirTemp("", "tcpdbg")
	defer os.RemoveAll(dir)
	r := hx.NewRun(dir, "quick", 1)
	in := os.Stdin
	if len(os.Args) > 1 {
		f, err := os.Open(os.Args[1])
		if err != nil {
			panic(err)
		}
		in = f
	}
	var w *tcpw.World
	sc := bufio.NewScanner(in)
	sc.Buffer(make([]byte, 1<<20), 1<<26)
	for sc.Scan() {
		w = tcpw.Exec(r, w, sc.Text())
		if w != nil && os.Getenv("TCPDBG_STATE") != "" && len(w.Eps) > 0 {
			fmt.Fprintln(os.Stderr, strings.SplitN(sc.Text(), " ", 3)[0], w.State(len(w.Eps)-1))
		}
	}
	r.Close()
	g, _ := os.ReadFile(dir + "/go.out")
	os.Stdout.Write(g)
}
