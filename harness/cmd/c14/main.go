package main

import (
	"vharness/c14"
	"vharness/hx"
)

func main() { hx.Main(c14.Gen) }
