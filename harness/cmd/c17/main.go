package main

import (
	"vharness/c17"
	"vharness/hx"
)

func main() { hx.Main(c17.Gen) }
