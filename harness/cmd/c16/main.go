package main

import (
	"vharness/c16"
	"vharness/hx"
)

func main() { hx.Main(c16.Gen) }
