package main

import (
	"vharness/hx"
	"vharness/netw"
)

func main() { hx.Main(netw.GenEcho) }
