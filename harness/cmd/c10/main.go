package main

import (
	"vharness/c10"
	"vharness/hx"
)

func main() {
	hx.Main(func(r *hx.Run) {
		c10.Gen(r)
		c10.GenSockets(r)
	})
}
