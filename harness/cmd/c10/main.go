package main

import (
	"vharness/c10"
	"vharness/hx"
)

func main() { hx.Main(c10.Gen) }
