package main

import (
	"vharness/c07"
	"vharness/hx"
)

func main() { hx.Main(c07.Gen) }
