package main

import (
	"vharness/c20"
	"vharness/hx"
)

func main() { hx.Main(c20.Gen) }
