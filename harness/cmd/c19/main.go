package main

import (
	"vharness/c19"
	"vharness/hx"
)

func main() { hx.Main(c19.Gen) }
