// Package c20: the bundled HTTP client/server code and WebSocket codec, driven (a) at codec level over an in-memory
// socket — builder, parser, dispatcher, response, frame writer/reader, accept key — and (b) end to end: the bundled
// client and the bundled server talking over the stack's own TCP through a loopback NIC in one stack.
package c20

import (
	"encoding/binary"
	"encoding/hex"
	"errors"
	"fmt"
	"os"
	"runtime"
	"sort"
	"strings"
	"sync"
	"time"

	"github.com/brewlin/net-protocol/pkg/waiter"
	tcpip "github.com/brewlin/net-protocol/protocol"
	"github.com/brewlin/net-protocol/protocol/application/http"
	"github.com/brewlin/net-protocol/protocol/application/websocket"
	"github.com/brewlin/net-protocol/protocol/header"
	"github.com/brewlin/net-protocol/protocol/link/loopback"
	"github.com/brewlin/net-protocol/stack"
	"vharness/hx"
	"vharness/netsim"
)

// ---- in-memory socket -------------------------------------------------------------------------------------------

type memSocket struct {
	in      []byte   // what Read returns
	chunks  [][]byte // what Readn draws from, as the segments arrive
	buf     []byte
	written []byte
	closed  bool
	q       waiter.Queue
	addr    tcpip.FullAddress
}

func (m *memSocket) Write(b []byte) error { m.written = append(m.written, b...); return nil }
func (m *memSocket) Read() ([]byte, error) {
	if m.in == nil {
		return nil, errors.New("eof")
	}
	b := m.in
	m.in = nil
	return b, nil
}
func (m *memSocket) Readn(p []byte) (int, error) {
	for len(p) > len(m.buf) {
		if len(m.chunks) == 0 {
			return 0, errors.New("eof")
		}
		m.buf = append(m.buf, m.chunks[0]...)
		m.chunks = m.chunks[1:]
	}
	n := copy(p, m.buf)
	m.buf = m.buf[len(p):]
	return n, nil
}
func (m *memSocket) Close()                            { m.closed = true }
func (m *memSocket) GetAddr() tcpip.Address            { return "" }
func (m *memSocket) GetRemoteAddr() *tcpip.FullAddress { return &m.addr }
func (m *memSocket) GetQueue() *waiter.Queue           { return &m.q }
func (m *memSocket) GetNotify() chan struct{}          { return nil }

// ---- canonical forms --------------------------------------------------------------------------------------------

func hx0(s string) string { return hx.Hex([]byte(s)) }

func fnv(b []byte) uint64 {
	h := uint64(14695981039346656037)
	for _, c := range b {
		h = (h ^ uint64(c)) * 1099511628211
	}
	return h
}

// digest of a byte string: first bytes, length, hash
func dig(b []byte) string {
	n := len(b)
	if n > 14 {
		n = 14
	}
	return fmt.Sprintf("%s:%d:%016x", hx.Hex(b[:n]), len(b), fnv(b))
}

func hdrs(m map[string]string) string {
	ks := make([]string, 0, len(m))
	for k := range m {
		ks = append(ks, k)
	}
	sort.Strings(ks)
	parts := make([]string, 0, len(ks))
	for _, k := range ks {
		parts = append(parts, hx0(k)+":"+hx0(m[k]))
	}
	if len(parts) == 0 {
		return "-"
	}
	return strings.Join(parts, ",")
}

// data descriptor: x<hex> literal, or g<seed>,<len> generated
func gen(seed, n int) []byte {
	b := make([]byte, n)
	for i := range b {
		b[i] = byte(seed + i*131 + (i/256)*7)
	}
	return b
}

// ---- what the handler saw / did ---------------------------------------------------------------------------------

type seen struct {
	mu   sync.Mutex
	recs []string
	errc int    // the status the handler produces through Response.Error (0: none)
	body string // the body it produces ("" = none; "@" = echo of what it saw)
}

var hs seen

func sawString(r *http.Request) string {
	m, u, v, h, b := http.VerifRequestFields(r)
	return hx0(m) + "|" + hx0(u) + "|" + hx0(v) + "|" + hdrs(h) + "|" + hx0(b)
}

func handler(r *http.Request, w *http.Response) {
	hs.mu.Lock()
	defer hs.mu.Unlock()
	s := sawString(r)
	hs.recs = append(hs.recs, s)
	if hs.errc != 0 {
		w.Error(hs.errc)
	}
	switch hs.body {
	case "":
	case "@":
		w.End("saw " + s)
	default:
		w.End(hs.body)
	}
}

func takeSeen() string {
	hs.mu.Lock()
	defer hs.mu.Unlock()
	r := hs.recs
	hs.recs = nil
	if len(r) == 0 {
		return "-"
	}
	return strings.Join(r, ";")
}

func setMux(paths []string, h func(*http.Request, *http.Response)) {
	http.VerifResetMux()
	for _, p := range paths {
		http.VerifHandle(p, h)
	}
}

// ---- codec-level ops --------------------------------------------------------------------------------------------

func parsedString(raw string) string {
	m, u, v, h, b, st := http.VerifParseRequest(raw)
	return fmt.Sprintf("m=%s u=%s v=%s st=%d h=%s b=%s", hx0(m), hx0(u), hx0(v), st, hdrs(h), hx0(b))
}

// canonical form of a built message: start line, header lines sorted, body
func canonMessage(raw string) string {
	i := strings.Index(raw, "\r\n\r\n")
	if i < 0 {
		return "nohead:" + hx0(raw)
	}
	lines := strings.Split(raw[:i], "\r\n")
	rest := lines[1:]
	sort.Strings(rest)
	return hx0(lines[0] + "\r\n" + strings.Join(rest, "\r\n") + "\r\n\r\n" + raw[i+4:])
}

type reqSpec struct {
	method, uri, body string
	hdr               map[string]string
}

func (q reqSpec) op() string {
	ks := make([]string, 0, len(q.hdr))
	for k := range q.hdr {
		ks = append(ks, k)
	}
	sort.Strings(ks)
	s := fmt.Sprintf("m=%s u=%s b=%s", hx0(q.method), hx0(q.uri), hx0(q.body))
	for _, k := range ks {
		s += " k=" + hx0(k) + ":" + hx0(q.hdr[k])
	}
	return s
}

const ip, port = "10.0.0.1", 8080

// the headers the bundled client always sends
func withDefaults(h map[string]string) map[string]string {
	m := map[string]string{"Host": ip + ":8080", "User-Agent": "net-protocol/5.0", "Accept": "*/*"}
	for k, v := range h {
		m[k] = v
	}
	return m
}

func (w *world) build(q reqSpec) {
	op := "build " + q.op()
	w.r.Pending(op)
	raw := http.VerifBuildRequest(q.method, q.uri, ip, port, q.hdr, q.body)
	w.r.Emit(op, canonMessage(raw))
}

// client → server → client over an in-memory socket
func (w *world) exchange(muxPaths []string, q reqSpec, errc int, body string) {
	op := fmt.Sprintf("serve mux=%s err=%d hb=%s %s", joinHex(muxPaths), errc, hx0(body), q.op())
	w.r.Pending(op)
	setMux(muxPaths, handler)
	hs.errc, hs.body = errc, body
	raw := http.VerifBuildRequest(q.method, q.uri, ip, port, q.hdr, q.body)
	srv := &memSocket{in: []byte(raw)}
	http.VerifServe(http.NewCon(srv))
	_, code, _, _, rb, _ := http.VerifParseRequest(string(srv.written))
	w.r.Emit(op, fmt.Sprintf("saw=%s status=%s body=%s", takeSeen(), hx0(code), hx0(rb)))
}

// raw bytes at the server: what the handler saw and the canonical response
func (w *world) rawServe(muxPaths []string, raw []byte) {
	op := fmt.Sprintf("rawserve mux=%s %s", joinHex(muxPaths), hx.Hex(raw))
	w.r.Pending(op)
	setMux(muxPaths, handler)
	hs.errc, hs.body = 0, "@"
	srv := &memSocket{in: raw}
	http.VerifServe(http.NewCon(srv))
	w.r.Emit(op, fmt.Sprintf("saw=%s resp=%s", takeSeen(), canonMessage(string(srv.written))))
}

func joinHex(ps []string) string {
	if len(ps) == 0 {
		return "-"
	}
	out := make([]string, len(ps))
	for i, p := range ps {
		out[i] = hx0(p)
	}
	return strings.Join(out, ",")
}

func (w *world) parse(raw []byte) {
	op := "parse " + hx.Hex(raw)
	w.r.Pending(op)
	w.r.Emit(op, parsedString(string(raw)))
}

func (w *world) accept(key string) {
	op := "accept " + hx0(key)
	w.r.Emit(op, hx0(websocket.VerifComputeAcceptKey(key)))
}

func (w *world) mask(key [4]byte, data []byte) {
	op := "mask " + hex.EncodeToString(key[:]) + " " + hx.Hex(data)
	b := append([]byte(nil), data...)
	websocket.VerifMaskBytes(key, b)
	w.r.Emit(op, hx.Hex(b))
}

func desc(seed, n int) string { return fmt.Sprintf("g%d,%d", seed, n) }

func (w *world) wsend(seed, n int) {
	op := "wsend " + desc(seed, n)
	w.r.Pending(op)
	s := &memSocket{}
	c := websocket.VerifNewConn(http.NewCon(s))
	c.SendData(gen(seed, n))
	w.r.Emit(op, dig(s.written))
}

// frame as an RFC 6455 peer may send it (the harness's own encoder)
type frame struct {
	fin    bool
	opcode byte
	key    []byte // nil: unmasked
	lenEnc int    // 0 minimal, 1 forced 16-bit, 2 forced 64-bit
	claim  int64  // claimed length when ≥ 0 differs from len(data)
	data   []byte
}

func (f frame) bytes() []byte {
	b0 := f.opcode
	if f.fin {
		b0 |= 0x80
	}
	n := uint64(len(f.data))
	if f.claim >= 0 {
		n = uint64(f.claim)
	}
	var m byte
	if f.key != nil {
		m = 0x80
	}
	out := []byte{b0}
	switch {
	case f.lenEnc == 2 || n > 65535:
		out = append(out, m|127)
		var l [8]byte
		binary.BigEndian.PutUint64(l[:], n)
		out = append(out, l[:]...)
	case f.lenEnc == 1 || n > 125:
		out = append(out, m|126, byte(n>>8), byte(n))
	default:
		out = append(out, m|byte(n))
	}
	if f.key != nil {
		out = append(out, f.key...)
		for i, c := range f.data {
			out = append(out, c^f.key[i%4])
		}
	} else {
		out = append(out, f.data...)
	}
	return out
}

func readAll(c *websocket.Conn) string {
	var parts []string
	for {
		var d []byte
		var err error
		func() {
			defer func() {
				if x := recover(); x != nil {
					err = errors.New("panic")
				}
			}()
			d, err = c.ReadData()
		}()
		if err != nil {
			parts = append(parts, "e="+errWord(err))
			break
		}
		parts = append(parts, "d="+dig(d))
	}
	return strings.Join(parts, " ")
}

func errWord(err error) string {
	s := err.Error()
	switch {
	case strings.Contains(s, "fragmented"):
		return "notfinal"
	case strings.Contains(s, "closed message"):
		return "closed"
	case strings.Contains(s, "only support text"):
		return "nottext"
	case s == "panic":
		return "panic"
	default:
		return "eof"
	}
}

func (w *world) wrecv(stream []byte, cuts []int) {
	var chunks [][]byte
	var cs []string
	rest := stream
	for _, c := range cuts {
		if c <= 0 || c >= len(rest) {
			continue
		}
		chunks = append(chunks, rest[:c])
		cs = append(cs, fmt.Sprint(c))
		rest = rest[c:]
	}
	chunks = append(chunks, rest)
	op := fmt.Sprintf("wrecv c=%s %s", strings.Join(cs, ","), hx.Hex(stream))
	w.r.Pending(op)
	s := &memSocket{chunks: chunks}
	c := websocket.VerifNewConn(http.NewCon(s))
	w.r.Emit(op, readAll(c))
}

// ---- end to end ------------------------------------------------------------------------------------------------

type world struct {
	r   *hx.Run
	s   *stack.Stack
	srv *http.Server
	// websocket server side
	wsIn   chan string      // what the server read, digests
	wsOut  chan []byte      // what the server is told to send
	wsKey  chan string      // the key the server saw
	wsDone chan struct{}
}

var e2ePaths = []string{"/", "/echo", "/a/b", "/index.html", "/x?y=z"}

func newWorld(r *hx.Run) *world {
	w := &world{r: r}
	w.s = netsim.NewStack()
	stack.Pstack = w.s
	if err := w.s.CreateNIC(1, loopback.New()); err != nil {
		panic(err)
	}
	w.s.AddAddress(1, header.IPv4ProtocolNumber, tcpip.Address([]byte{10, 0, 0, 1}))
	netsim.SetRoutes(w.s, []tcpip.Route{{Destination: "\x00\x00\x00\x00", Mask: "\x00\x00\x00\x00", NIC: 1}})
	return w
}

func (w *world) startServer() {
	w.srv = http.NewHTTP("", "", ip, "8080")
	setMux(e2ePaths, handler)
	w.wsIn, w.wsOut, w.wsKey = make(chan string, 64), make(chan []byte, 64), make(chan string, 4)
	http.VerifHandle("/ws", w.wsHandler)
	go w.srv.ListenAndServ()
	time.Sleep(20 * time.Millisecond)
}

// the server side of a websocket session: upgrade, then serve commands from the harness
func (w *world) wsHandler(r *http.Request, resp *http.Response) {
	w.wsKey <- r.GetHeader("Sec-WebSocket-Key")
	c, err := websocket.Upgrade(r, resp)
	if err != nil {
		w.wsIn <- "upgrade-failed"
		return
	}
	for cmd := range w.wsOut {
		switch {
		case cmd == nil:
			return
		case len(cmd) == 1 && cmd[0] == 'r':
			d, err := c.ReadData()
			if err != nil {
				w.wsIn <- "e=" + errWord(err)
			} else {
				w.wsIn <- "d=" + dig(d)
			}
		default:
			c.SendData(cmd[1:])
			w.wsIn <- "sent"
		}
	}
}

func waitStr(ch chan string, d time.Duration) string {
	select {
	case s := <-ch:
		return s
	case <-time.After(d):
		return "timeout"
	}
}

func (w *world) xhttp(q reqSpec, errc int, body string) {
	op := fmt.Sprintf("xhttp mux=%s err=%d hb=%s %s", joinHex(append(append([]string{}, e2ePaths...), "/ws")), errc, hx0(body), q.op())
	w.r.Pending(op)
	hs.mu.Lock()
	hs.errc, hs.body = errc, body
	hs.mu.Unlock()
	type res struct{ code, body string }
	done := make(chan res, 1)
	go func() {
		c, err := http.NewClient("http://" + ip + ":8080" + q.uri)
		if err != nil {
			done <- res{"connect-failed", err.Error()}
			return
		}
		c.SetMethod(q.method)
		c.SetHeaders(q.hdr)
		c.SetData(q.body)
		b, _ := c.GetResult()
		_, code, _, _, _ := http.VerifRequestFields(c.GetRequest())
		c.GetConnection().Close()
		done <- res{code, b}
	}()
	var out res
	select {
	case out = <-done:
	case <-time.After(5 * time.Second):
		out = res{"timeout", ""}
		if os.Getenv("C20_DUMP") != "" {
			buf := make([]byte, 1<<20)
			os.Stderr.Write(buf[:runtime.Stack(buf, true)])
		}
	}
	time.Sleep(2 * time.Millisecond)
	w.r.Emit(op, fmt.Sprintf("saw=%s status=%s body=%s", takeSeen(), hx0(out.code), hx0(out.body)))
}

// one websocket session: upgrade with the bundled client, then messages in both directions.
// script entries: c<seed>,<n> (client sends), s<seed>,<n> (server sends), m<key8hex>:<seed>,<n> (client sends a masked frame)
type wsMsg struct {
	dir  byte
	key  []byte
	seed int
	n    int
}

func (w *world) xws(msgs []wsMsg) {
	var ds []string
	for _, m := range msgs {
		switch m.dir {
		case 'm':
			ds = append(ds, fmt.Sprintf("m%s:%d,%d", hex.EncodeToString(m.key), m.seed, m.n))
		default:
			ds = append(ds, fmt.Sprintf("%c%d,%d", m.dir, m.seed, m.n))
		}
	}
	op := "xws " + strings.Join(ds, " ")
	w.r.Pending(op)
	done := make(chan string, 1)
	up := make(chan string, 1)
	go func() {
		var out []string
		c, err := websocket.NewClient("http://" + ip + ":8080/ws")
		if err != nil {
			done <- "connect-failed"
			return
		}
		if err := c.Upgrade(); err != nil {
			done <- "upgrade-error"
			return
		}
		key := waitStr(w.wsKey, 2*time.Second)
		acc := websocket.VerifClientAccept(c)
		up <- "key=" + hx0(key) + " acc=" + hx0(acc)
		for i := 0; i < len(msgs); i++ {
			m := msgs[i]
			data := gen(m.seed, m.n)
			switch m.dir {
			case 'b':
				// a burst: the server sends this and the following 'b' messages back to back while the client does
				// not read; only then does the client read them all
				j := i
				for j < len(msgs) && msgs[j].dir == 'b' {
					w.wsOut <- append([]byte{'w'}, gen(msgs[j].seed, msgs[j].n)...)
					j++
				}
				for k := i; k < j; k++ {
					waitStr(w.wsIn, 20*time.Second)
				}
				for k := i; k < j; k++ {
					got := make(chan string, 1)
					go func() {
						d, err := c.Recv()
						if err != nil {
							got <- "e=" + errWord(err)
						} else {
							got <- "d=" + dig([]byte(d))
						}
					}()
					out = append(out, "c:"+waitStr(got, 10*time.Second))
				}
				i = j - 1
			case 'c':
				c.Push(string(data))
				w.wsOut <- []byte{'r'}
				out = append(out, "s:"+waitStr(w.wsIn, 10*time.Second))
			case 'm':
				websocket.VerifClientWrite(c, frame{fin: true, opcode: 1, key: m.key, claim: -1, data: data}.bytes())
				w.wsOut <- []byte{'r'}
				out = append(out, "s:"+waitStr(w.wsIn, 10*time.Second))
			case 's':
				w.wsOut <- append([]byte{'w'}, data...)
				got := make(chan string, 1)
				go func() {
					d, err := c.Recv()
					if err != nil {
						got <- "e=" + errWord(err)
					} else {
						got <- "d=" + dig([]byte(d))
					}
				}()
				waitStr(w.wsIn, 10*time.Second)
				out = append(out, "c:"+waitStr(got, 10*time.Second))
			}
		}
		w.wsOut <- nil
		c.Close()
		done <- strings.Join(out, " ")
	}()
	res := waitStr(done, 60*time.Second)
	// a stuck session must not poison the next one
	for len(w.wsIn) > 0 {
		<-w.wsIn
	}
	time.Sleep(2 * time.Millisecond)
	takeSeen()
	select {
	case u := <-up:
		w.r.Emit("xwsup", u)
	default:
		w.r.Emit("xwsup", "key=- acc=-")
	}
	w.r.Emit(op, res)
}
