package c20

import (
	"math/rand"
	"strings"

	"vharness/hx"
)

var methods = []string{"GET", "HEAD", "POST", "PUT"}
var keyAlphabet = "abcdefghijklmnopqrstuvwxyzABCDEFGHIJKLMNOPQRSTUVWXYZ0123456789-_.:;/ "
var valAlphabet = "abcdefghijklmnopqrstuvwxyzABCDEFGHIJKLMNOPQRSTUVWXYZ0123456789-_.:;/ ,=\"'()\r\n\t\x00\x7f\xc3\xa9"

func pickStr(r *rand.Rand, alphabet string, n int) string {
	b := make([]byte, n)
	for i := range b {
		b[i] = alphabet[r.Intn(len(alphabet))]
	}
	return string(b)
}

// a header key in the grammar: non-empty, no ": ", no CRLF
func genKey(r *rand.Rand) string {
	if r.Intn(3) == 0 {
		return []string{"Content-Type", "Content-Length", "Cookie", "X-Forwarded-For", "Upgrade", "Connection", "Host", "Accept", "a:", ":", "a:b", " lead", "trail "}[r.Intn(13)]
	}
	for {
		k := pickStr(r, keyAlphabet, 1+r.Intn(12))
		if !strings.Contains(k, ": ") {
			return k
		}
	}
}

// a header value in the grammar: non-empty, no CRLF (a lone CR or LF, ": ", anything else is allowed)
func genVal(r *rand.Rand) string {
	if r.Intn(4) == 0 {
		return []string{"text/html; charset=utf-8", "a: b", ": ", ":", " ", "\r", "\n", "x\ry\nz", "websocket", "keep-alive, Upgrade", "13"}[r.Intn(11)]
	}
	for {
		v := pickStr(r, valAlphabet, 1+r.Intn(24))
		if !strings.Contains(v, "\r\n") {
			return v
		}
	}
}

func genBody(r *rand.Rand, max int) string {
	switch r.Intn(9) {
	case 0:
		return ""
	case 1:
		return []string{"\r\n", "\r\n\r\n", ": ", "a: b\r\n", "a: b\r\n\r\n", "\r\nx", "k: v", " ", "GET / HTTP/1.1\r\nHost: x\r\n\r\n", "x\r\n: y"}[r.Intn(10)]
	case 2:
		b := make([]byte, r.Intn(max+1))
		r.Read(b)
		return string(b)
	case 3:
		// form / json like
		return []string{"a=1&b=2", "{\"k\": \"v\", \"n\": 1}", "key: value\r\nother: thing\r\n\r\npayload"}[r.Intn(3)] + pickStr(r, valAlphabet, r.Intn(20))
	default:
		return pickStr(r, valAlphabet, r.Intn(max+1))
	}
}

func genURI(r *rand.Rand, registered []string) (string, bool) {
	if r.Intn(3) != 0 && len(registered) > 0 {
		return registered[r.Intn(len(registered))], true
	}
	u := []string{"/nobody", "/echo/", "/ECHO", "/a", "/a/b/c", "//", "/echo?x=1", "*", "/\r", "/:", "/a:b"}[r.Intn(11)]
	if r.Intn(3) == 0 {
		u = "/" + strings.ReplaceAll(pickStr(r, keyAlphabet, 1+r.Intn(30)), " ", "+")
	}
	for _, p := range registered {
		if p == u {
			return u, true
		}
	}
	return u, false
}

func genReq(r *rand.Rand, registered []string, maxBody int) reqSpec {
	q := reqSpec{hdr: map[string]string{}}
	q.method = methods[r.Intn(len(methods))]
	q.uri, _ = genURI(r, registered)
	for i := r.Intn(5); i > 0; i-- {
		q.hdr[genKey(r)] = genVal(r)
	}
	q.body = genBody(r, maxBody)
	return q
}

// mutations of a well-formed message: the malformed stream
func mutate(r *rand.Rand, raw []byte) []byte {
	b := append([]byte(nil), raw...)
	for i := 1 + r.Intn(3); i > 0 && len(b) > 0; i-- {
		switch r.Intn(7) {
		case 0:
			b = b[:r.Intn(len(b))]
		case 1:
			p := r.Intn(len(b))
			b = append(b[:p], b[p+1:]...)
		case 2:
			p := r.Intn(len(b))
			b[p] = []byte{' ', ':', '\r', '\n', 0, 'x'}[r.Intn(6)]
		case 3:
			p := r.Intn(len(b))
			ins := []string{"\r\n", " ", ": ", "\r\n\r\n", ":", "\n"}[r.Intn(6)]
			b = append(b[:p], append([]byte(ins), b[p:]...)...)
		case 4:
			// drop the blank line
			s := strings.Replace(string(b), "\r\n\r\n", "\r\n", 1)
			b = []byte(s)
		case 5:
			s := strings.Replace(string(b), "HTTP/1.1", []string{"HTTP/1.0", "http/1.1", "HTTP/2", "", "HTTP/0.9"}[r.Intn(5)], 1)
			b = []byte(s)
		default:
			s := strings.Replace(string(b), ": ", []string{":", " :", ":  ", ""}[r.Intn(4)], 1)
			b = []byte(s)
		}
	}
	return b
}

var lenEdges = []int{0, 1, 2, 124, 125, 126, 127, 128, 255, 256, 65534, 65535, 65536, 65537, 70000}

func genLen(r *rand.Rand, big bool) int {
	switch r.Intn(6) {
	case 0, 1, 2:
		return lenEdges[r.Intn(len(lenEdges))]
	case 3:
		return r.Intn(300)
	case 4:
		if big {
			return 65536 + r.Intn(400000)
		}
		return r.Intn(3000)
	default:
		return r.Intn(70000)
	}
}

func rawRequest(q reqSpec) []byte {
	var sb strings.Builder
	sb.WriteString(q.method + " " + q.uri + " HTTP/1.1\r\n")
	for k, v := range withDefaults(q.hdr) {
		sb.WriteString(k + ": " + v + "\r\n")
	}
	sb.WriteString("\r\n" + q.body)
	return []byte(sb.String())
}

// Gen drives one run.
func Gen(r *hx.Run) {
	rr := r.R
	w := newWorld(r)
	r.Emit("reset", "ok")
	muxSets := [][]string{{"/"}, {"/", "/echo", "/a/b"}, {"/x?y=z", "/index.html"}, {}}

	// (1) builder, parser, dispatcher, response — codec level
	n := r.Pick(1500, 12000)
	for i := 0; i < n; i++ {
		mux := muxSets[rr.Intn(len(muxSets))]
		q := genReq(rr, mux, 200)
		switch rr.Intn(10) {
		case 0, 1:
			w.build(q)
			r.Count("op.build")
		case 2, 3, 4, 5:
			errc, body := 0, "@"
			switch rr.Intn(8) {
			case 0:
				errc = []int{404, 500, 403, 201}[rr.Intn(4)]
				r.Count("handler.sets-status")
			case 1:
				body = ""
				r.Count("handler.no-body")
			case 2:
				body = genBody(rr, 300)
			}
			w.exchange(mux, q, errc, body)
			r.Count("op.serve")
			if _, reg := contains(mux, q.uri); reg {
				r.Count("serve.registered")
			} else {
				r.Count("serve.unregistered")
			}
			r.Count("method." + q.method)
		case 6, 7:
			raw := mutate(rr, rawRequest(q))
			w.rawServe(mux, raw)
			r.Count("op.rawserve")
		default:
			raw := rawRequest(q)
			if rr.Intn(2) == 0 {
				raw = mutate(rr, raw)
			}
			w.parse(raw)
			r.Count("op.parse")
		}
	}

	// (2) websocket codec
	n = r.Pick(600, 5000)
	for i := 0; i < n; i++ {
		switch rr.Intn(10) {
		case 0:
			w.accept(pickStr(rr, "ABCDEFGHIJKLMNOPQRSTUVWXYZabcdefghijklmnopqrstuvwxyz0123456789+/=", []int{0, 1, 16, 24, 24, 24, 55, 56, 64, 100}[rr.Intn(10)]))
			r.Count("op.accept")
		case 1:
			var k [4]byte
			rr.Read(k[:])
			w.mask(k, r.Bytes(rr.Intn(40)))
			r.Count("op.mask")
		case 2, 3, 4:
			ln := genLen(rr, i%40 == 0)
			w.wsend(rr.Intn(256), ln)
			r.Count("op.wsend")
			r.Count("wsend." + lenClass(ln))
		default:
			var stream []byte
			nf := 1 + rr.Intn(4)
			for j := 0; j < nf; j++ {
				f := frame{fin: true, opcode: 1, claim: -1}
				ln := genLen(rr, i%50 == 0 && j == 0)
				if ln > 3000 && !(i%50 == 0 && j == 0) && rr.Intn(4) != 0 {
					ln %= 3000
				}
				f.data = gen(rr.Intn(256), ln)
				if rr.Intn(2) == 0 {
					f.key = make([]byte, 4)
					rr.Read(f.key)
					r.Count("wrecv.masked")
				} else {
					r.Count("wrecv.unmasked")
				}
				r.Count("wrecv." + lenClass(ln))
				switch rr.Intn(12) {
				case 0:
					f.fin = false
					r.Count("wrecv.not-final")
				case 1:
					f.opcode = []byte{0, 2, 8, 9, 10, 3}[rr.Intn(6)]
					r.Count("wrecv.other-opcode")
				case 2:
					f.lenEnc = 1 + rr.Intn(2)
					r.Count("wrecv.non-minimal-length")
				case 3:
					f.opcode |= byte(rr.Intn(8)) << 4 & 0x70
				case 4:
					if rr.Intn(3) == 0 {
						f.claim = int64(-1 - rr.Intn(1000)) // ≥ 2^63 as unsigned
						f.claim = int64(uint64(1)<<63 | uint64(rr.Intn(1000)))
						f.lenEnc = 2
						r.Count("wrecv.length-top-bit")
					}
				}
				stream = append(stream, f.bytes()...)
			}
			if rr.Intn(6) == 0 && len(stream) > 0 {
				stream = stream[:rr.Intn(len(stream))]
				r.Count("wrecv.truncated")
			}
			var cuts []int
			for j := rr.Intn(4); j > 0; j-- {
				cuts = append(cuts, 1+rr.Intn(len(stream)/2+2))
			}
			w.wrecv(stream, cuts)
			r.Count("op.wrecv")
		}
	}

	// (3) end to end over the stack's own TCP (loopback NIC)
	w.startServer()
	n = r.Pick(60, 400)
	for i := 0; i < n; i++ {
		q := genReq(rr, e2ePaths, 400)
		if !strings.HasPrefix(q.uri, "/") { // the client takes a URL
			q.uri = "/" + q.uri
		}
		if rr.Intn(5) == 0 {
			q.body = pickStr(rr, valAlphabet, 1000+rr.Intn(20000))
		}
		errc, body := 0, "@"
		switch rr.Intn(8) {
		case 0:
			body = genBody(rr, 300)
		case 1:
			body = pickStr(rr, valAlphabet, 1000+rr.Intn(20000))
		case 2:
			errc = []int{404, 500, 403, 201}[rr.Intn(4)]
		}
		w.xhttp(q, errc, body)
		r.Count("op.xhttp")
	}
	n = r.Pick(12, 80)
	for i := 0; i < n; i++ {
		var msgs []wsMsg
		for j := 1 + rr.Intn(6); j > 0; j-- {
			m := wsMsg{dir: "ccssm"[rr.Intn(5)], seed: rr.Intn(256), n: genLen(rr, r.Thorough() && j == 1 && i%4 == 0)}
			if m.n > 66000 && !(r.Thorough() && j == 1 && i%4 == 0) {
				m.n = 65530 + rr.Intn(20)
			}
			if m.dir == 'm' {
				m.key = make([]byte, 4)
				rr.Read(m.key)
			}
			msgs = append(msgs, m)
			r.Count("xws." + string(m.dir) + "." + lenClass(m.n))
		}
		w.xws(msgs)
		r.Count("op.xws")
	}
	// bursts: several large messages sent back to back before the other side reads any of them. The send buffer holds
	// 1 MiB and a write that does not fit is cut short without notice (the recorded finding), so random bursts stay
	// below that in total - whether an earlier message has been acknowledged by then depends on timing - and the
	// finding itself is replayed, on every run, with one message larger than the empty buffer.
	n = r.Pick(2, 10)
	for i := 0; i < n; i++ {
		var msgs []wsMsg
		size := []int{70000, 200000, 300000, 400000}[rr.Intn(4)]
		k := 2 + rr.Intn(6)
		for k*(size+1000) > 900000 {
			k--
		}
		if k < 1 {
			k = 1
		}
		if i == 0 {
			k, size = 1, 1200000
		}
		for j := 0; j < k; j++ {
			msgs = append(msgs, wsMsg{dir: 'b', seed: rr.Intn(256), n: size + rr.Intn(1000)})
		}
		r.Count("xws.burst")
		w.xws(msgs)
	}
}

func contains(l []string, s string) (int, bool) {
	for i, x := range l {
		if x == s {
			return i, true
		}
	}
	return -1, false
}

func lenClass(n int) string {
	switch {
	case n <= 125:
		return "len7"
	case n <= 65535:
		return "len16"
	default:
		return "len64"
	}
}
