// Package c07: barrages of malformed, truncated, inconsistent and random packets against a real stack; after every
// injection the reaction (datagram queued, echo reply, anything else, nothing) is recorded and compared with the
// model's reading of the receive path; after every barrage the stack must still answer an echo request, deliver a
// UDP datagram and complete a TCP handshake.
package c07

import (
	"encoding/binary"
	"fmt"
	"os"
	"strings"
	"syscall"
	"time"

	"github.com/brewlin/net-protocol/pkg/waiter"
	tcpip "github.com/brewlin/net-protocol/protocol"
	"github.com/brewlin/net-protocol/protocol/header"
	"github.com/brewlin/net-protocol/protocol/link/fdbased"
	"github.com/brewlin/net-protocol/protocol/network/arp"
	"github.com/brewlin/net-protocol/protocol/transport/tcp"
	"github.com/brewlin/net-protocol/protocol/transport/udp"
	"github.com/brewlin/net-protocol/stack"
	"vharness/hx"
	"vharness/netsim"
	"vharness/tcpw"
)

var (
	our4  = []byte{10, 0, 0, 1}
	peer4 = []byte{10, 0, 0, 9}
	our6  = []byte{0xfe, 0x80, 0, 0, 0, 0, 0, 0, 0, 0, 0, 0, 0, 0, 0, 1}
	peer6 = []byte{0xfe, 0x80, 0, 0, 0, 0, 0, 0, 0, 0, 0, 0, 0, 0, 0, 9}
)

type world struct {
	r      *hx.Run
	s      *stack.Stack
	l      *netsim.Link
	u4, u6 tcpip.Endpoint
	lis    tcpip.Endpoint
	seq    uint32
}

func newWorld(r *hx.Run) *world {
	w := &world{r: r, seq: 1000}
	w.s = netsim.NewStack()
	lid, l := netsim.NewLink(65536, "", 0)
	w.l = l
	netsim.CreateNIC(w.s, 1, lid, l)
	w.s.AddAddress(1, header.IPv4ProtocolNumber, tcpip.Address(our4))
	w.s.AddAddress(1, header.IPv6ProtocolNumber, tcpip.Address(our6))
	netsim.SetRoutes(w.s, []tcpip.Route{{Destination: "\x00\x00\x00\x00", Mask: "\x00\x00\x00\x00", NIC: 1},
		{Destination: tcpip.Address(make([]byte, 16)), Mask: tcpip.AddressMask(make([]byte, 16)), NIC: 1}})
	var err *tcpip.Error
	if w.u4, err = w.s.NewEndpoint(udp.ProtocolNumber, header.IPv4ProtocolNumber, &waiter.Queue{}); err != nil {
		panic(err)
	}
	w.u4.Bind(tcpip.FullAddress{Port: 7000}, nil)
	if w.u6, err = w.s.NewEndpoint(udp.ProtocolNumber, header.IPv6ProtocolNumber, &waiter.Queue{}); err != nil {
		panic(err)
	}
	w.u6.SetSockOpt(tcpip.V6OnlyOption(1))
	w.u6.Bind(tcpip.FullAddress{Port: 7000}, nil)
	if w.lis, err = w.s.NewEndpoint(tcp.ProtocolNumber, header.IPv4ProtocolNumber, &waiter.Queue{}); err != nil {
		panic(err)
	}
	w.lis.Bind(tcpip.FullAddress{Port: 8080}, nil)
	w.lis.Listen(10)
	r.Emit(fmt.Sprintf("reset ours4=%s ours6=%s", hx.Hex(our4), hx.Hex(our6)), "ok")
	return w
}

func (w *world) close() {
	w.u4.Close()
	w.u6.Close()
	w.lis.Close()
}

// reaction: what the stack did with the last injection
func (w *world) reaction(v6 bool) string {
	tcpw.Quiesce()
	time.Sleep(200 * time.Microsecond) // the IPv4 echo replier is a goroutine fed by a channel
	tcpw.Quiesce()
	// a frame produced by a goroutine that had not been scheduled yet must not be attributed to the next
	// injection: wait until nothing new shows up
	for n, k := w.l.Pending(), 0; k < 5; k++ {
		time.Sleep(150 * time.Microsecond)
		tcpw.Quiesce()
		if m := w.l.Pending(); m == n {
			break
		} else {
			n = m
		}
	}
	ep := w.u4
	if v6 {
		ep = w.u6
	}
	var parts []string
	for {
		v, _, err := ep.Read(nil)
		if err != nil {
			break
		}
		parts = append(parts, "udp="+hx.Hex(v))
	}
	other := 0
	for _, f := range w.l.Take() {
		b := f.Bytes
		if f.Proto == header.IPv4ProtocolNumber && len(b) >= 20 && b[9] == 1 {
			parts = append(parts, "echo="+hx.Hex(b[int(b[0]&15)*4:]))
		} else if f.Proto == header.IPv6ProtocolNumber && len(b) >= 40 && b[6] == 58 {
			parts = append(parts, "echo="+hx.Hex(b[40:]))
		} else {
			other++
		}
	}
	if len(parts) == 0 {
		if other > 0 {
			return "?"
		}
		return "-"
	}
	return strings.Join(parts, " ")
}

func (w *world) inject(v6 bool, views [][]byte) {
	op := "inject4"
	proto := header.IPv4ProtocolNumber
	if v6 {
		op, proto = "inject6", header.IPv6ProtocolNumber
	}
	var hs []string
	for _, v := range views {
		hs = append(hs, hx.Hex(v))
	}
	line := op + " " + strings.Join(hs, " ")
	w.r.Pending(line)
	w.l.Inject(proto, "", views...)
	w.r.Count(op)
	w.r.Emit(line, w.reaction(v6))
}

// probe: the stack still serves
func (w *world) probe() {
	w.r.Pending("probe")
	w.l.Take()
	res := make([]int, 4)
	// echo4
	msg := netsim.ICMPv4Echo(8, 7, 1, []byte("alive"))
	w.l.Inject(header.IPv4ProtocolNumber, "", netsim.IPv4(peer4, our4, 1, 1, 0, 64, msg))
	if strings.HasPrefix(w.reaction(false), "echo=") {
		res[0] = 1
	}
	m6 := netsim.ICMPv6Echo(peer6, our6, 128, 7, 1, []byte("alive"))
	w.l.Inject(header.IPv6ProtocolNumber, "", netsim.IPv6(peer6, our6, 58, 64, m6))
	if strings.HasPrefix(w.reaction(true), "echo=") {
		res[1] = 1
	}
	w.l.Inject(header.IPv4ProtocolNumber, "", netsim.IPv4(peer4, our4, 17, 2, 0, 64, netsim.UDP(peer4, our4, 555, 7000, []byte("ping"))))
	if w.reaction(false) == "udp="+hx.Hex([]byte("ping")) {
		res[2] = 1
	}
	// TCP handshake on a fresh port
	w.seq += 100000
	sport := uint16(20000 + w.seq/100000%20000)
	w.l.Inject(header.IPv4ProtocolNumber, "", netsim.IPv4(peer4, our4, 6, 3, 0, 64, netsim.TCPSeg(peer4, our4, sport, 8080, w.seq, 0, 2, 30000, nil, nil)))
	tcpw.Quiesce()
	var iss uint32
	ok := false
	for _, f := range w.l.Take() {
		b := f.Bytes
		if len(b) >= 40 && b[9] == 6 && b[33]&0x12 == 0x12 {
			iss = binary.BigEndian.Uint32(b[24:])
			ok = true
		}
	}
	if ok {
		w.l.Inject(header.IPv4ProtocolNumber, "", netsim.IPv4(peer4, our4, 6, 4, 0, 64, netsim.TCPSeg(peer4, our4, sport, 8080, w.seq+1, iss+1, 16, 30000, nil, nil)))
		tcpw.Quiesce()
		for i := 0; i < 50; i++ {
			ep, _, err := w.lis.Accept()
			if err == nil {
				res[3] = 1
				ep.Close()
				break
			}
			time.Sleep(200 * time.Microsecond)
		}
		// tear it down from the peer's side too
		w.l.Inject(header.IPv4ProtocolNumber, "", netsim.IPv4(peer4, our4, 6, 5, 0, 64, netsim.TCPSeg(peer4, our4, sport, 8080, w.seq+1, iss+1, 4, 0, nil, nil)))
		tcpw.Quiesce()
	}
	w.l.Take()
	w.r.Emit("probe", fmt.Sprintf("echo4=%d echo6=%d udp=%d tcp=%d", res[0], res[1], res[2], res[3]))
}

// ---- mutation -------------------------------------------------------------------------------

func split(r *hx.Run, b []byte) [][]byte {
	if len(b) < 2 || r.R.Intn(3) != 0 {
		return [][]byte{b}
	}
	n := 1 + r.R.Intn(2)
	var out [][]byte
	rest := b
	for i := 0; i < n && len(rest) > 1; i++ {
		// cut points biased towards header boundaries
		c := []int{1, 4, 8, 19, 20, 21, 24, 28, 39, 40, 41, 48, 60}[r.R.Intn(13)]
		if c >= len(rest) || r.R.Intn(3) == 0 {
			c = 1 + r.R.Intn(len(rest)-1)
		}
		out = append(out, rest[:c])
		rest = rest[c:]
	}
	return append(out, rest)
}

func mutate(r *hx.Run, b []byte, v6 bool) []byte {
	b = append([]byte{}, b...)
	for k := 1 + r.R.Intn(3); k > 0; k-- {
		if len(b) == 0 {
			break
		}
		switch r.R.Intn(9) {
		case 0: // truncate
			b = b[:r.R.Intn(len(b)+1)]
		case 1: // header length nibble
			if !v6 {
				b[0] = b[0]&0xf0 | byte(r.R.Intn(16))
			} else if len(b) > 6 {
				b[6] = []byte{6, 17, 58, 0, 43, 44, 59, 255}[r.R.Intn(8)]
			}
		case 2: // total / payload length
			off := 2
			if v6 {
				off = 4
			}
			if len(b) > off+1 {
				v := []int{0, 1, 19, 20, 21, 27, 28, 29, len(b) - 1, len(b), len(b) + 1, 65535, r.R.Intn(65536)}[r.R.Intn(13)]
				if v < 0 {
					v = 0
				}
				binary.BigEndian.PutUint16(b[off:], uint16(v))
			}
		case 3: // fragment fields (v4)
			if !v6 && len(b) > 7 && r.R.Intn(3) == 0 {
				binary.BigEndian.PutUint16(b[6:], uint16(r.R.Intn(65536)))
			}
		case 4: // protocol
			if !v6 && len(b) > 9 {
				b[9] = []byte{1, 6, 17, 0, 2, 41, 255}[r.R.Intn(7)]
			}
		case 5: // a transport length / offset field
			hl := 20
			if v6 {
				hl = 40
			}
			if len(b) > hl+13 && r.R.Intn(2) == 0 {
				b[hl+12] = byte(r.R.Intn(256)) // TCP data offset
			} else if len(b) > hl+5 {
				binary.BigEndian.PutUint16(b[hl+4:], uint16([]int{0, 7, 8, 9, len(b) - hl, len(b) - hl + 1, 65535, r.R.Intn(65536)}[r.R.Intn(8)]))
			}
		case 6: // random byte anywhere
			b[r.R.Intn(len(b))] = byte(r.R.Intn(256))
		case 7: // ICMP type / code
			hl := 20
			if v6 {
				hl = 40
			}
			if len(b) > hl+1 {
				b[hl] = []byte{0, 3, 8, 128, 129, 135, 136, 1, 2, 11, 255}[r.R.Intn(11)]
				b[hl+1] = byte(r.R.Intn(5))
			}
		default: // extend with noise
			n := make([]byte, r.R.Intn(40))
			r.R.Read(n)
			b = append(b, n...)
		}
	}
	return b
}

func truncatedOptions(r *hx.Run) []byte {
	var o []byte
	for n := 1 + r.R.Intn(4); n > 0; n-- {
		switch r.R.Intn(7) {
		case 0:
			o = append(o, 2, 4, byte(r.R.Intn(256)), byte(r.R.Intn(256)))
		case 1:
			o = append(o, 3, 3, byte(r.R.Intn(16)))
		case 2:
			o = append(o, 8, 10)
			t := make([]byte, 8)
			r.R.Read(t)
			o = append(o, t...)
		case 3:
			o = append(o, 4, 2)
		case 4:
			k := 1 + r.R.Intn(3)
			o = append(o, 5, byte(2+8*k))
			t := make([]byte, 8*k)
			r.R.Read(t)
			o = append(o, t...)
		case 5:
			o = append(o, 1)
		default:
			o = append(o, byte(9+r.R.Intn(200)), byte(r.R.Intn(6)))
		}
	}
	if r.R.Intn(3) != 0 {
		o = o[:len(o)-r.R.Intn(len(o)+1)/2]
		if c := r.R.Intn(4); c < len(o) {
			o = o[:len(o)-c]
		}
	}
	if len(o) > 40 {
		o = o[:40]
	}
	for len(o)%4 != 0 {
		o = append([]byte{1}, o...)
	}
	return o
}

func base(r *hx.Run, w *world, v6 bool) []byte {
	pl := make([]byte, []int{0, 1, 2, 7, 8, 9, 100, 1400}[r.R.Intn(8)])
	r.R.Read(pl)
	dport := uint16(7000)
	if r.R.Intn(5) == 0 {
		dport = uint16(r.R.Intn(65536))
	}
	k := r.R.Intn(10)
	if !v6 {
		switch {
		case k < 4:
			return netsim.IPv4(peer4, our4, 17, uint16(r.R.Intn(65536)), 0, 64, netsim.UDP(peer4, our4, 555, dport, pl))
		case k < 7:
			return netsim.IPv4(peer4, our4, 1, 9, 0, 64, netsim.ICMPv4Echo(8, uint16(r.R.Intn(65536)), uint16(r.R.Intn(65536)), pl))
		case k < 9:
			opts := make([]byte, 4*r.R.Intn(11))
			r.R.Read(opts)
			fl := []uint8{2, 16, 18, 24, 17, 4, 0, 1, 41}[r.R.Intn(9)]
			if r.R.Intn(2) == 0 {
				// well-formed options of the kinds the SYN and segment parsers know, cut off at a random point; NOPs in
				// front pad to a multiple of four so that the cut option ends exactly where the option area ends
				opts = truncatedOptions(r)
				if r.R.Intn(2) == 0 {
					fl = 2
				}
			}
			return netsim.IPv4(peer4, our4, 6, 9, 0, 64, netsim.TCPSeg(peer4, our4, uint16(30000+r.R.Intn(1000)), 8080, r.R.Uint32(), r.R.Uint32(), fl, 1000, opts, pl))
		default:
			n := make([]byte, r.R.Intn(80))
			r.R.Read(n)
			return n
		}
	}
	switch {
	case k < 4:
		return netsim.IPv6(peer6, our6, 17, 64, netsim.UDP(peer6, our6, 555, dport, pl))
	case k < 8:
		return netsim.IPv6(peer6, our6, 58, 64, netsim.ICMPv6Echo(peer6, our6, 128, uint16(r.R.Intn(65536)), uint16(r.R.Intn(65536)), pl))
	default:
		n := make([]byte, r.R.Intn(100))
		r.R.Read(n)
		return n
	}
}

// ---- the fd-based link: frames from the device ------------------------------------------------

func ethWorld(r *hx.Run) {
	fds, err := syscall.Socketpair(syscall.AF_UNIX, syscall.SOCK_DGRAM, 0)
	if err != nil {
		panic(err)
	}
	defer syscall.Close(fds[1])
	ourMac, pmac := []byte{2, 0, 0, 0, 0, 1}, []byte{2, 0, 0, 0, 1, 1}
	s := netsim.NewStack()
	lid := fdbased.New(&fdbased.Options{FD: fds[0], MTU: 1500, ResolutionRequired: true, Address: tcpip.LinkAddress(ourMac)})
	if e := s.CreateNIC(1, lid); e != nil {
		panic(e)
	}
	s.AddAddress(1, header.IPv4ProtocolNumber, tcpip.Address(our4))
	s.AddAddress(1, arp.ProtocolNumber, arp.ProtocolAddress)
	s.SetRouteTable([]tcpip.Route{{Destination: "\x00\x00\x00\x00", Mask: "\x00\x00\x00\x00", NIC: 1}})
	syscall.SetNonblock(fds[1], true)
	r.Emit("reset ours4="+hx.Hex(our4)+" ours6=-", "ok")
	readAll := func(wait time.Duration) [][]byte {
		var out [][]byte
		deadline := time.Now().Add(wait)
		buf := make([]byte, 70000)
		for time.Now().Before(deadline) {
			n, e := syscall.Read(fds[1], buf)
			if e != nil || n <= 0 {
				time.Sleep(200 * time.Microsecond)
				continue
			}
			out = append(out, append([]byte{}, buf[:n]...))
		}
		return out
	}
	frame := func(et uint16, p []byte) []byte {
		return append(append(append([]byte{}, ourMac...), append(append([]byte{}, pmac...), byte(et>>8), byte(et))...), p...)
	}
	probe := func() {
		r.Pending("ethprobe")
		readAll(2 * time.Millisecond)
		a, e := 0, 0
		syscall.Write(fds[1], frame(0x0806, netsim.ARP(1, pmac, peer4, []byte{0, 0, 0, 0, 0, 0}, our4)))
		for _, f := range readAll(40 * time.Millisecond) {
			if len(f) >= 42 && f[12] == 8 && f[13] == 6 && f[21] == 2 {
				a = 1
			}
		}
		syscall.Write(fds[1], frame(0x0800, netsim.IPv4(peer4, our4, 1, 1, 0, 64, netsim.ICMPv4Echo(8, 1, 1, []byte("alive")))))
		for _, f := range readAll(40 * time.Millisecond) {
			if len(f) >= 34 && f[12] == 8 && f[13] == 0 && f[23] == 1 {
				e = 1
			}
		}
		r.Emit("ethprobe", fmt.Sprintf("arp=%d echo=%d", a, e))
	}
	probe()
	for k := 0; k < r.Pick(30, 200); k++ {
		var f []byte
		switch r.R.Intn(6) {
		case 0: // runt frames: 0..14 bytes
			f = make([]byte, r.R.Intn(15))
			r.R.Read(f)
		case 1: // header only plus a little
			f = frame(uint16([]int{0x0800, 0x0806, 0x86dd, 0, 0xffff}[r.R.Intn(5)]), make([]byte, r.R.Intn(6)))
		case 2:
			f = frame(0x0806, mutate(r, netsim.ARP(uint16(r.R.Intn(4)), pmac, peer4, ourMac, our4), false))
		case 3:
			f = frame(0x0800, mutate(r, netsim.IPv4(peer4, our4, 1, 1, 0, 64, netsim.ICMPv4Echo(8, 1, 1, []byte("x"))), false))
		default:
			f = make([]byte, r.R.Intn(120))
			r.R.Read(f)
		}
		if len(f) == 0 {
			continue // a zero-length datagram reads as end of file on the socketpair, not as a frame
		}
		line := "eth " + hx.Hex(f)
		r.Pending(line)
		syscall.Write(fds[1], f)
		time.Sleep(300 * time.Microsecond)
		r.Count("eth")
		r.Emit(line, "-")
		if k%10 == 9 {
			probe()
		}
	}
	probe()
}

// Gen: barrages and probes.
func Gen(r *hx.Run) {
	nh := r.Pick(40, 500)
	for h := 0; h < nh; h++ {
		w := newWorld(r)
		for k := 0; k < 20+r.R.Intn(40); k++ {
			v6 := r.R.Intn(3) == 0
			b := base(r, w, v6)
			if r.R.Intn(6) != 0 {
				b = mutate(r, b, v6)
			}
			w.inject(v6, split(r, b))
		}
		w.probe()
		w.close()
	}
	ethWorld(r)
}

// DebugInject: one injection into a fresh world, for replaying a single op by hand.
func DebugInject(v6 bool, views [][]byte) string {
	r := hx.NewRun(os.TempDir()+"/c07dbg", "quick", 1)
	w := newWorld(r)
	defer w.close()
	proto := header.IPv4ProtocolNumber
	if v6 {
		proto = header.IPv6ProtocolNumber
	}
	w.l.Inject(proto, "", views...)
	return w.reaction(v6)
}
