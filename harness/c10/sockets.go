package c10

import (
	"fmt"
	"sort"
	"strings"

	"github.com/brewlin/net-protocol/pkg/waiter"
	tcpip "github.com/brewlin/net-protocol/protocol"
	"github.com/brewlin/net-protocol/protocol/header"
	"github.com/brewlin/net-protocol/protocol/transport/tcp"
	"github.com/brewlin/net-protocol/protocol/transport/udp"
	"github.com/brewlin/net-protocol/stack"
	"vharness/hx"
	"vharness/netsim"
)

// Socket-level reservations: Bind / Connect / Listen / Close of UDP and TCP sockets on a real stack, and availability
// probes of the stack's port manager. The oracle keeps no model of the sockets' internals: it judges what the
// property says at this level -- two live bindings that conflict never both succeed, a port whose holders have all
// been closed is available again, closing one socket does not free what another still holds.

var (
	sA4 = []byte{10, 0, 0, 1}
	sA6 = []byte{0xfe, 0x80, 0, 0, 0, 0, 0, 0, 0, 0, 0, 0, 0, 0, 0, 1}
	sR4 = []byte{10, 0, 0, 9}
	sR6 = []byte{0xfe, 0x80, 0, 0, 0, 0, 0, 0, 0, 0, 0, 0, 0, 0, 0, 9}
)

func mapped4(a []byte) []byte {
	return append([]byte{0, 0, 0, 0, 0, 0, 0, 0, 0, 0, 0xff, 0xff}, a...)
}

// address classes of a bind: any, a4 (IPv4 address), a6 (IPv6 address), m0 (v4-mapped wildcard), m4 (v4-mapped address)
func bindAddr(class string) []byte {
	switch class {
	case "a4":
		return sA4
	case "a6":
		return sA6
	case "m0":
		return mapped4([]byte{0, 0, 0, 0})
	case "m4":
		return mapped4(sA4)
	}
	return nil
}

type sock struct {
	ep   tcpip.Endpoint
	kind string
	live bool
}

type sworld struct {
	r    *hx.Run
	s    *stack.Stack
	sk   []*sock
	seen map[uint16]bool // every local port a socket has had
}

func newSWorld(r *hx.Run) *sworld {
	w := &sworld{r: r, s: netsim.NewStack(), seen: map[uint16]bool{}}
	lid, l := netsim.NewLink(1500, "", 0)
	netsim.CreateNIC(w.s, 1, lid, l)
	w.s.AddAddress(1, header.IPv4ProtocolNumber, tcpip.Address(sA4))
	w.s.AddAddress(1, header.IPv6ProtocolNumber, tcpip.Address(sA6))
	netsim.SetRoutes(w.s, []tcpip.Route{
		{Destination: "\x00\x00\x00\x00", Mask: "\x00\x00\x00\x00", NIC: 1},
		{Destination: tcpip.Address(make([]byte, 16)), Mask: tcpip.AddressMask(make([]byte, 16)), NIC: 1},
	})
	r.Emit("s.reset", "ok")
	return w
}

func serr(e *tcpip.Error) string {
	if e == nil {
		return "ok"
	}
	return strings.ReplaceAll(e.String(), " ", "-")
}

func (w *sworld) newSock(kind string) {
	var proto tcpip.TransportProtocolNumber = udp.ProtocolNumber
	if strings.HasPrefix(kind, "tcp") {
		proto = tcp.ProtocolNumber
	}
	var net tcpip.NetworkProtocolNumber = header.IPv4ProtocolNumber
	if strings.Contains(kind, "6") {
		net = header.IPv6ProtocolNumber
	}
	ep, err := w.s.NewEndpoint(proto, net, &waiter.Queue{})
	if err != nil {
		panic(err)
	}
	if strings.HasSuffix(kind, "only") {
		ep.SetSockOpt(tcpip.V6OnlyOption(1))
	}
	w.sk = append(w.sk, &sock{ep: ep, kind: kind, live: true})
	w.r.Emit(fmt.Sprintf("s.new %d %s", len(w.sk)-1, kind), "ok")
}

func (w *sworld) localPort(i int) uint16 {
	a, err := w.sk[i].ep.GetLocalAddress()
	if err != nil {
		return 0
	}
	if a.Port != 0 {
		w.seen[a.Port] = true
	}
	return a.Port
}

func (w *sworld) bind(i int, class string, port uint16) {
	line := fmt.Sprintf("s.bind %d %s %d", i, class, port)
	w.r.Pending(line)
	err := w.sk[i].ep.Bind(tcpip.FullAddress{Addr: tcpip.Address(bindAddr(class)), Port: port}, nil)
	w.r.Count("s.bind")
	w.r.Emit(line, fmt.Sprintf("%s port=%d", serr(err), w.localPort(i)))
}

func (w *sworld) connect(i int, class string, port uint16) {
	var a []byte
	switch class {
	case "r4":
		a = sR4
	case "r6":
		a = sR6
	default:
		a = mapped4(sR4)
	}
	line := fmt.Sprintf("s.connect %d %s %d", i, class, port)
	w.r.Pending(line)
	err := w.sk[i].ep.Connect(tcpip.FullAddress{Addr: tcpip.Address(a), Port: port})
	res := serr(err)
	if err == tcpip.ErrConnectStarted {
		res = "ok"
	}
	w.r.Count("s.connect")
	w.r.Emit(line, fmt.Sprintf("%s port=%d", res, w.localPort(i)))
}

func (w *sworld) listen(i int) {
	line := fmt.Sprintf("s.listen %d", i)
	w.r.Pending(line)
	err := w.sk[i].ep.Listen(4)
	w.r.Emit(line, serr(err))
}

func (w *sworld) close(i int) {
	if !w.sk[i].live {
		return
	}
	w.sk[i].live = false
	w.r.Pending(fmt.Sprintf("s.close %d", i))
	w.sk[i].ep.Close()
	w.r.Count("s.close")
	w.r.Emit(fmt.Sprintf("s.close %d", i), "ok")
}

// avail asks the stack's port manager directly.
func (w *sworld) avail(net string, trans string, class string, port uint16) {
	var nets []tcpip.NetworkProtocolNumber
	switch net {
	case "4":
		nets = []tcpip.NetworkProtocolNumber{header.IPv4ProtocolNumber}
	case "6":
		nets = []tcpip.NetworkProtocolNumber{header.IPv6ProtocolNumber}
	}
	var tp tcpip.TransportProtocolNumber = udp.ProtocolNumber
	if trans == "tcp" {
		tp = tcp.ProtocolNumber
	}
	a := bindAddr(class)
	if class == "m0" {
		a = nil
	} else if class == "m4" {
		a = sA4
	}
	ok := w.s.IsPortAvailable(nets, tp, tcpip.Address(a), port)
	w.r.Count("s.avail")
	w.r.Emit(fmt.Sprintf("s.avail %s %s %s %d", net, trans, class, port), fmt.Sprint(ok))
}

// GenSockets generates socket-level reservation histories.
func GenSockets(r *hx.Run) {
	nh := r.Pick(150, 3000)
	kinds := []string{"udp4", "udp6", "udp6only", "tcp4", "tcp6", "tcp6only"}
	classes4 := []string{"any", "a4"}
	classes6 := []string{"any", "a6", "m0", "m4", "any"}
	portsL := []uint16{5000, 5001}
	for h := 0; h < nh; h++ {
		w := newSWorld(r)
		n := 2 + r.R.Intn(5)
		for k := 0; k < n; k++ {
			w.newSock(kinds[r.R.Intn(len(kinds))])
		}
		steps := 4 + r.R.Intn(r.Pick(14, 30))
		for k := 0; k < steps; k++ {
			i := r.R.Intn(len(w.sk))
			sk := w.sk[i]
			if !sk.live {
				if r.R.Intn(2) == 0 {
					w.newSock(kinds[r.R.Intn(len(kinds))])
				}
				continue
			}
			switch op := r.R.Intn(10); {
			case op < 4:
				cl := classes4
				if strings.Contains(sk.kind, "6") {
					cl = classes6
					if strings.HasSuffix(sk.kind, "only") {
						cl = []string{"any", "a6"}
					}
				}
				p := portsL[r.R.Intn(2)]
				if r.R.Intn(8) == 0 {
					p = 0
				}
				w.bind(i, cl[r.R.Intn(len(cl))], p)
			case op < 6:
				rc := "r4"
				if strings.Contains(sk.kind, "6") {
					rc = []string{"r6", "rm"}[r.R.Intn(2)]
					if strings.HasSuffix(sk.kind, "only") {
						rc = "r6"
					}
				}
				w.connect(i, rc, []uint16{9000, 9001}[r.R.Intn(2)])
			case op < 7:
				if strings.HasPrefix(sk.kind, "tcp") {
					w.listen(i)
				}
			case op < 9:
				w.close(i)
				// right after a close: is what it held free again, is what others hold still held?
				for _, p := range portsL {
					w.avail([]string{"4", "6"}[r.R.Intn(2)], []string{"udp", "tcp"}[r.R.Intn(2)], "any", p)
				}
			default:
				w.avail([]string{"4", "6"}[r.R.Intn(2)], []string{"udp", "tcp"}[r.R.Intn(2)], []string{"any", "a4", "a6"}[r.R.Intn(3)], portsL[r.R.Intn(2)])
			}
		}
		// every holder goes away: every port must be available again, for every network and transport
		for i := range w.sk {
			w.close(i)
		}
		all := append([]uint16{}, portsL...)
		for p := range w.seen {
			if p != portsL[0] && p != portsL[1] {
				all = append(all, p)
			}
		}
		sort.Slice(all[2:], func(a, b int) bool { return all[2+a] < all[2+b] })
		for _, p := range all {
			for _, net := range []string{"4", "6"} {
				for _, tr := range []string{"udp", "tcp"} {
					w.avail(net, tr, "any", p)
				}
			}
		}
		w.s.VerifCloseNetworkEndpoints()
	}
}
