// Package c10: correspondence of protocol/ports with the Lean model and the reservation oracle.
package c10

import (
	"fmt"
	"strings"
	"sync"

	tcpip "github.com/brewlin/net-protocol/protocol"
	"github.com/brewlin/net-protocol/protocol/ports"
	"vharness/hx"
)

var addrs = [][]byte{nil, {10, 0, 0, 1}, {10, 0, 0, 2}, {0xfe, 0x80, 0, 0, 0, 0, 0, 0, 0, 0, 0, 0, 0, 0, 0, 1}}
var netSets = [][]tcpip.NetworkProtocolNumber{{0x0800}, {0x86dd}, {0x0800, 0x86dd}, {0x86dd, 0x0800}, {0x0800, 0x0800}}
var transports = []tcpip.TransportProtocolNumber{6, 17}

func netsStr(n []tcpip.NetworkProtocolNumber) string {
	var p []string
	for _, x := range n {
		p = append(p, fmt.Sprint(uint32(x)))
	}
	return strings.Join(p, ",")
}

type accept struct {
	spec string
	f    func(uint16) bool
}

func mkAccept(r *hx.Run) accept {
	switch r.R.Intn(12) {
	case 0:
		return accept{"none", func(uint16) bool { return false }}
	case 1:
		return accept{"all", func(uint16) bool { return true }}
	case 2:
		p := uint16(16000 + r.R.Intn(49536))
		return accept{fmt.Sprintf("ge:%d", p), func(x uint16) bool { return x >= p }}
	case 3:
		p := uint16(16000 + r.R.Intn(49536))
		return accept{fmt.Sprintf("le:%d", p), func(x uint16) bool { return x <= p }}
	case 4:
		k := uint16(2 + r.R.Intn(5000))
		m := uint16(r.R.Intn(int(k)))
		return accept{fmt.Sprintf("mod:%d:%d", k, m), func(x uint16) bool { return x%k == m }}
	default:
		var p uint16
		switch r.R.Intn(4) {
		case 0:
			p = []uint16{16000, 16001, 65535, 65534, 16042, 32767, 32768}[r.R.Intn(7)]
		default:
			p = uint16(16000 + r.R.Intn(49536))
		}
		return accept{fmt.Sprintf("only:%d", p), func(x uint16) bool { return x == p }}
	}
}

func pickCase(r *hx.Run, pm *ports.PortManager, a accept) {
	first := -1
	n := 0
	port, err := pm.PickEphemeralPort(func(p uint16) (bool, *tcpip.Error) {
		if first < 0 {
			first = int(p)
		}
		n++
		return a.f(p), nil
	})
	res := fmt.Sprintf("%d %d", port, n)
	if err != nil {
		res = fmt.Sprintf("none %d", n)
	}
	r.Count("pick." + strings.SplitN(a.spec, ":", 2)[0])
	// the starting offset is the stack's random choice: learned from the first port it tested
	r.Emit(fmt.Sprintf("pick %d %s", first-16000, a.spec), res)
}

func Gen(r *hx.Run) {
	pm := ports.NewPortManager()
	// ---- ephemeral search: the offset is random inside the code; many calls cover many offsets
	np := r.Pick(1500, 30000)
	for i := 0; i < np; i++ {
		pickCase(r, pm, mkAccept(r))
	}
	// ---- reservation histories
	nh := r.Pick(400, 6000)
	for h := 0; h < nh; h++ {
		pm = ports.NewPortManager()
		r.Emit("reset", "ok")
		portsU := []uint16{80, 81, 16000, 16001, 65535, uint16(16000 + r.R.Intn(49536))}
		nops := 1 + r.R.Intn(r.Pick(30, 80))
		for k := 0; k < nops; k++ {
			ns := netSets[r.R.Intn(len(netSets))]
			t := transports[r.R.Intn(2)]
			a := addrs[r.R.Intn(len(addrs))]
			p := portsU[r.R.Intn(len(portsU))]
			switch r.R.Intn(10) {
			case 0, 1, 2:
				r.Count("avail")
				r.Emit(fmt.Sprintf("avail %s %d %s %d", netsStr(ns), t, hx.Hex(a), p),
					hx.B(pm.IsPortAvailable(ns, t, tcpip.Address(a), p)))
			case 3, 4, 5, 6:
				got, err := pm.ReservePort(ns, t, tcpip.Address(a), p)
				res := fmt.Sprint(got)
				if err != nil {
					res = "err"
				}
				r.Count("reserve." + map[bool]string{true: "ok", false: "err"}[err == nil])
				r.Emit(fmt.Sprintf("reserve %s %d %s %d", netsStr(ns), t, hx.Hex(a), p), res)
			case 7, 8:
				pm.ReleasePort(ns, t, tcpip.Address(a), p)
				r.Count("release")
				r.Emit(fmt.Sprintf("release %s %d %s %d", netsStr(ns), t, hx.Hex(a), p), "ok")
			case 9:
				got, err := pm.ReservePort(ns, t, tcpip.Address(a), 0)
				res := fmt.Sprint(got)
				if err != nil {
					res = "err"
				}
				r.Count("reserve0")
				r.Emit(fmt.Sprintf("reserve0 %s %d %s %s", netsStr(ns), t, hx.Hex(a), res), res)
				if err == nil && r.R.Intn(2) == 0 {
					portsU = append(portsU, got)
				}
			}
		}
	}
	// ---- ephemeral exhaustion: fill the whole range for one descriptor, then one more must fail,
	// release one, and it must be found again (all positions sampled)
	rounds := r.Pick(0, 1) // O(n^2) in the list-based model: thorough tier only
	for h := 0; h < rounds; h++ {
		pm = ports.NewPortManager()
		r.Emit("reset", "ok")
		ns := netSets[0]
		for p := 16000; p <= 65535; p++ {
			got, err := pm.ReservePort(ns, 6, "", uint16(p))
			res := fmt.Sprint(got)
			if err != nil {
				res = "err"
			}
			r.Emit(fmt.Sprintf("reserve %s 6 - %d", netsStr(ns), p), res)
		}
		for k := 0; k < r.Pick(20, 200); k++ {
			hole := uint16(16000 + r.R.Intn(49536))
			pm.ReleasePort(ns, 6, "", hole)
			r.Emit(fmt.Sprintf("release %s 6 - %d", netsStr(ns), hole), "ok")
			got, err := pm.ReservePort(ns, 6, "", 0)
			res := fmt.Sprint(got)
			if err != nil {
				res = "err"
			}
			r.Count("reserve0.single-hole")
			r.Emit(fmt.Sprintf("reserve0 %s 6 - %s", netsStr(ns), res), res)
			if err != nil { // keep the history consistent for the model: the hole stays free
				got2, _ := pm.ReservePort(ns, 6, "", hole)
				r.Emit(fmt.Sprintf("reserve %s 6 - %d", netsStr(ns), hole), fmt.Sprint(got2))
			}
		}
	}
	if r.Thorough() {
		race(r)
	}
}

// race: many goroutines reserve/release the same few ports; at the end the set of successful,
// unreleased reservations must be conflict-free (checked through avail queries fed to the oracle).
func race(r *hx.Run) {
	for round := 0; round < 50; round++ {
		pm := ports.NewPortManager()
		r.Emit("reset", "ok")
		type rec struct {
			a []byte
			p uint16
		}
		var mu sync.Mutex
		var won []rec
		var wg sync.WaitGroup
		for g := 0; g < 16; g++ {
			a := addrs[g%len(addrs)]
			p := uint16(80 + g%2)
			wg.Add(1)
			go func() {
				defer wg.Done()
				for k := 0; k < 50; k++ {
					if _, err := pm.ReservePort(netSets[0], 6, tcpip.Address(a), p); err == nil {
						mu.Lock()
						won = append(won, rec{a, p})
						mu.Unlock()
						if k%2 == 0 {
							mu.Lock()
							for i, w := range won {
								if string(w.a) == string(a) && w.p == p {
									won = append(won[:i], won[i+1:]...)
									break
								}
							}
							mu.Unlock()
							pm.ReleasePort(netSets[0], 6, tcpip.Address(a), p)
						}
					}
				}
			}()
		}
		wg.Wait()
		// replay the winners as a sequential history: each must be accepted by model and oracle
		// (i.e. the surviving set is conflict-free), and the implementation must agree it is all taken
		for _, w := range won {
			r.Count("race.survivor")
			r.Emit(fmt.Sprintf("reserve 2048 6 %s %d", hx.Hex(w.a), w.p), fmt.Sprint(w.p))
		}
		for _, a := range addrs {
			for _, p := range []uint16{80, 81} {
				r.Emit(fmt.Sprintf("avail 2048 6 %s %d", hx.Hex(a), p), hx.B(pm.IsPortAvailable(netSets[0], 6, tcpip.Address(a), p)))
			}
		}
	}
}
