// +build verif

package c10

import (
	"testing"

	tcpip "github.com/brewlin/net-protocol/protocol"
	"vharness/hx"
)

func TestBindConnectCloseLeak(t *testing.T) {
	r := hx.NewRun("/tmp/exp", "quick", 1)
	for _, c := range []struct{ kind, cls, rc string }{{"udp4", "any", "r4"}, {"udp4", "a4", "r4"}, {"udp6", "any", "r6"}, {"udp6", "any", "rm"}, {"udp6", "m0", "rm"}, {"udp6", "a6", "r6"}, {"udp6only", "any", "r6"}} {
		w := newSWorld(r)
		w.newSock(c.kind)
		w.bind(0, c.cls, 5001)
		w.connect(0, c.rc, 9000)
		w.close(0)
		a4 := w.s.IsPortAvailable([]tcpip.NetworkProtocolNumber{0x0800}, 17, "", 5001)
		a6 := w.s.IsPortAvailable([]tcpip.NetworkProtocolNumber{0x86dd}, 17, "", 5001)
		t.Logf("%v: after close v4 available=%v v6 available=%v", c, a4, a6)
	}
}
