// Package netw: a real stack with two NICs and UDP sockets, driven by a line protocol shared by
// the C09 (demultiplexing) and C11 (UDP datagram semantics) checks.
package netw

import (
	"encoding/binary"
	"fmt"
	"os"
	"strings"
	"time"

	"github.com/brewlin/net-protocol/pkg/buffer"
	"github.com/brewlin/net-protocol/pkg/waiter"
	tcpip "github.com/brewlin/net-protocol/protocol"
	"github.com/brewlin/net-protocol/protocol/header"
	"github.com/brewlin/net-protocol/protocol/transport/udp"
	"github.com/brewlin/net-protocol/stack"
	"vharness/hx"
	"vharness/netsim"
	"vharness/tcpw"
)

var (
	a1   = []byte{10, 0, 0, 1}
	a2   = []byte{10, 0, 0, 2}
	a3   = []byte{10, 0, 1, 1}
	v6a  = []byte{0xfe, 0x80, 0, 0, 0, 0, 0, 0, 0, 0, 0, 0, 0, 0, 0, 1}
	rem1 = []byte{10, 0, 0, 9}
	rem2 = []byte{10, 0, 0, 8}
	rem3 = []byte{10, 0, 1, 9}
	v6r  = []byte{0xfe, 0x80, 0, 0, 0, 0, 0, 0, 0, 0, 0, 0, 0, 0, 0, 9}
	sub  = []byte{10, 0, 2, 0}
	m24  = []byte{255, 255, 255, 0}
)

type World struct {
	S           *stack.Stack
	L           map[int]*netsim.Link
	eps         []tcpip.Endpoint
	wqs         []*waiter.Queue
	r           *hx.Run
	Focus       string
	lastWasData bool
	Frames      []netsim.Frame
	is6         []bool
}

func errName(e *tcpip.Error) string { return strings.ReplaceAll(e.String(), " ", "-") }

func mapped(a []byte) []byte {
	return append([]byte{0, 0, 0, 0, 0, 0, 0, 0, 0, 0, 0xff, 0xff}, a...)
}

func (w *World) emit(op, res string) {
	w.r.Count(strings.SplitN(op, " ", 2)[0] + "." + strings.SplitN(strings.SplitN(res, "=", 2)[0], ":", 2)[0])
	w.r.Emit(op, res)
}

// Reset builds the fixed topology.
func (w *World) Reset(promisc2 bool) {
	if w.S != nil && w.Focus == "C13" {
		// ends the echo goroutines of the stack this history is done with (the echo histories wait for quiescence of
		// all goroutines; the other generators' frames are judged later, against the addresses their stack still has)
		w.S.VerifCloseNetworkEndpoints()
	}
	w.S = netsim.NewStack()
	w.L = map[int]*netsim.Link{}
	w.eps, w.wqs, w.is6 = nil, nil, nil
	w.emit("reset", "ok")
	for _, id := range []int{1, 2} {
		lid, l := netsim.NewLink(65536+100, tcpip.LinkAddress([]byte{2, 0, 0, 0, 0, byte(id)}), 0)
		w.L[id] = l
		netsim.CreateNIC(w.S, tcpip.NICID(id), lid, l)
		p := "0"
		if id == 2 && promisc2 {
			w.S.SetPromiscuousMode(2, true)
			p = "1"
		}
		w.emit(fmt.Sprintf("nic %d %s", id, p), "ok")
	}
	add := func(nic int, pr string, a []byte) {
		np := header.IPv4ProtocolNumber
		if pr == "6" {
			np = header.IPv6ProtocolNumber
		}
		w.S.AddAddress(tcpip.NICID(nic), np, tcpip.Address(a))
		w.emit(fmt.Sprintf("addr %d %s %s", nic, pr, hx.Hex(a)), "ok")
	}
	add(1, "4", a1)
	add(1, "4", a2)
	add(1, "6", v6a)
	add(2, "4", a3)
	sn, _ := tcpip.NewSubnet(tcpip.Address(sub), tcpip.AddressMask(m24))
	w.S.AddSubnet(2, header.IPv4ProtocolNumber, sn)
	w.emit(fmt.Sprintf("subnet 2 4 %s %s", hx.Hex(sub), hx.Hex(m24)), "ok")
	z4, z16 := make([]byte, 4), make([]byte, 16)
	netsim.SetRoutes(w.S, []tcpip.Route{
		{Destination: tcpip.Address([]byte{10, 0, 1, 0}), Mask: tcpip.AddressMask(m24), NIC: 2},
		{Destination: tcpip.Address(z4), Mask: tcpip.AddressMask(z4), NIC: 1},
		{Destination: tcpip.Address(z16), Mask: tcpip.AddressMask(z16), NIC: 1},
	})
	w.emit(fmt.Sprintf("route %s %s 2", hx.Hex([]byte{10, 0, 1, 0}), hx.Hex(m24)), "ok")
	w.emit(fmt.Sprintf("route %s %s 1", hx.Hex(z4), hx.Hex(z4)), "ok")
	w.emit(fmt.Sprintf("route %s %s 1", hx.Hex(z16), hx.Hex(z16)), "ok")
}

func (w *World) NewUDP(pr string) int {
	np := header.IPv4ProtocolNumber
	if pr == "6" {
		np = header.IPv6ProtocolNumber
	}
	wq := &waiter.Queue{}
	ep, err := w.S.NewEndpoint(udp.ProtocolNumber, np, wq)
	if err != nil {
		panic(err)
	}
	w.eps = append(w.eps, ep)
	w.wqs = append(w.wqs, wq)
	w.is6 = append(w.is6, pr == "6")
	i := len(w.eps) - 1
	w.emit(fmt.Sprintf("udp.new %d %s", i, pr), "ok")
	return i
}

func (w *World) local(i int) (string, uint16) {
	a, _ := w.eps[i].GetLocalAddress()
	netsim.NotePort(w.S, a.Port)
	return hx.Hex([]byte(a.Addr)), a.Port
}

func (w *World) Bind(i int, addr []byte, port uint16) {
	err := w.eps[i].Bind(tcpip.FullAddress{Addr: tcpip.Address(addr), Port: port}, nil)
	res, learned := "", uint16(0)
	if err != nil {
		res = errName(err)
	} else {
		la, lp := w.local(i)
		learned = lp
		res = fmt.Sprintf("ok:%s:%d", la, lp)
	}
	w.emit(fmt.Sprintf("udp.bind %d %s %d %d", i, hx.Hex(addr), port, learned), res)
}

func (w *World) Connect(i int, addr []byte, port uint16) {
	err := w.eps[i].Connect(tcpip.FullAddress{Addr: tcpip.Address(addr), Port: port})
	res, learned := "", uint16(0)
	if err != nil {
		res = errName(err)
	} else {
		la, lp := w.local(i)
		learned = lp
		res = fmt.Sprintf("ok:%s:%d", la, lp)
	}
	w.emit(fmt.Sprintf("udp.connect %d %s %d %d", i, hx.Hex(addr), port, learned), res)
}

func (w *World) Read(i int) {
	var from tcpip.FullAddress
	v, _, err := w.eps[i].Read(&from)
	res := ""
	if err != nil {
		res = errName(err)
	} else {
		res = fmt.Sprintf("data=%s from=%s:%d nic=%d", hx.Hex(v), hx.Hex([]byte(from.Addr)), from.Port, from.NIC)
	}
	w.lastWasData = err == nil
	w.emit(fmt.Sprintf("udp.read %d", i), res)
}

func (w *World) frames() []netsim.Frame {
	var fs []netsim.Frame
	for _, id := range []int{1, 2} {
		fs = append(fs, w.L[id].Take()...)
	}
	return fs
}

// describe one emitted UDP packet in canonical fields
func describe(f netsim.Frame) string {
	b := f.Bytes
	if f.Proto == header.IPv4ProtocolNumber && len(b) >= 28 {
		u := b[20:]
		return fmt.Sprintf("4 %s %s %d %d ulen=%d %s", hx.Hex(b[12:16]), hx.Hex(b[16:20]), binary.BigEndian.Uint16(u[0:]),
			binary.BigEndian.Uint16(u[2:]), binary.BigEndian.Uint16(u[4:]), hx.Hex(u[8:]))
	}
	if f.Proto == header.IPv6ProtocolNumber && len(b) >= 48 {
		u := b[40:]
		return fmt.Sprintf("6 %s %s %d %d ulen=%d %s", hx.Hex(b[8:24]), hx.Hex(b[24:40]), binary.BigEndian.Uint16(u[0:]),
			binary.BigEndian.Uint16(u[2:]), binary.BigEndian.Uint16(u[4:]), hx.Hex(u[8:]))
	}
	return "unparsable"
}

func (w *World) Write(i int, to []byte, port uint16, payload []byte) {
	w.frames()
	before, _ := w.eps[i].GetLocalAddress()
	opts := tcpip.WriteOptions{}
	if to != nil || port != 0 {
		opts.To = &tcpip.FullAddress{Addr: tcpip.Address(to), Port: port}
	}
	n, _, err := w.eps[i].Write(tcpip.SlicePayload(payload), opts)
	res := ""
	after, _ := w.eps[i].GetLocalAddress()
	netsim.NotePort(w.S, after.Port)
	learned := uint16(0)
	if before.Port == 0 {
		learned = after.Port
	}
	fs := w.frames()
	if err != nil {
		res = errName(err)
		if len(fs) != 0 {
			res += " +frames"
		}
	} else {
		res = fmt.Sprintf("n=%d", n)
		for _, f := range fs {
			res += " pkt=" + describe(f)
		}
	}
	w.emit(fmt.Sprintf("udp.write %d %s %d %s %d", i, hx.Hex(to), port, hx.Hex(payload), learned), res)
}

func (w *World) Shutdown(i int, how string) {
	var fl tcpip.ShutdownFlags
	if strings.Contains(how, "r") {
		fl |= tcpip.ShutdownRead
	}
	if strings.Contains(how, "w") {
		fl |= tcpip.ShutdownWrite
	}
	err := w.eps[i].Shutdown(fl)
	res := "ok"
	if err != nil {
		res = errName(err)
	}
	w.emit(fmt.Sprintf("udp.shutdown %d %s", i, how), res)
}

func (w *World) Close(i int) {
	w.eps[i].Close()
	w.emit(fmt.Sprintf("udp.close %d", i), "ok")
}

func (w *World) RcvBuf(i int, n int) {
	w.eps[i].SetSockOpt(tcpip.ReceiveBufferSizeOption(n))
	w.emit(fmt.Sprintf("udp.rcvbuf %d %d", i, n), "ok")
}

func (w *World) V6Only(i int, v int) {
	err := w.eps[i].SetSockOpt(tcpip.V6OnlyOption(v))
	res := "ok"
	if err != nil {
		res = errName(err)
	}
	w.emit(fmt.Sprintf("udp.v6only %d %d", i, v), res)
}

func (w *World) Ready() {
	s := "r="
	for i := range w.eps {
		if w.eps[i].Readiness(waiter.EventIn)&waiter.EventIn != 0 {
			s += "1"
		} else {
			s += "0"
		}
	}
	w.emit("udp.ready", s)
}

// Inject an unfragmented UDP datagram; ulenDelta adjusts the UDP length field (malformed if > 0).
func (w *World) Inject(nic int, pr string, src, dst []byte, sp, dp uint16, ulenDelta int, payload []byte, split int) {
	var pkt []byte
	var np tcpip.NetworkProtocolNumber
	u := netsim.UDP(src, dst, sp, dp, payload)
	ul := len(u) + ulenDelta
	if ulenDelta != 0 {
		binary.BigEndian.PutUint16(u[4:], uint16(ul))
	}
	if pr == "4" {
		pkt = netsim.IPv4(src, dst, 17, 1, 0, 64, u)
		np = header.IPv4ProtocolNumber
	} else {
		pkt = netsim.IPv6(src, dst, 17, 64, u)
		np = header.IPv6ProtocolNumber
	}
	hl := len(pkt) - len(u)
	switch {
	case split >= 100 && pr == "4" && len(u) > 16 && ulenDelta == 0:
		// as IPv4 fragments (8-byte aligned cuts), delivered in a random order: after reassembly the
		// datagram reaches UDP as one view per fragment (more than 8 views when there are many)
		nf := split - 100
		var cuts []int
		step := (len(u)/nf + 7) / 8 * 8
		if step < 8 {
			step = 8
		}
		for c := step; c < len(u); c += step {
			cuts = append(cuts, c)
		}
		cuts = append(cuts, len(u))
		start := 0
		var frags [][]byte
		for _, c := range cuts {
			fo := uint16(start / 8)
			if c < len(u) {
				fo |= 0x2000
			}
			frags = append(frags, netsim.IPv4(src, dst, 17, 4242, fo, 64, u[start:c]))
			start = c
		}
		w.r.R.Shuffle(len(frags), func(i, j int) { frags[i], frags[j] = frags[j], frags[i] })
		for _, f := range frags {
			w.L[nic].Inject(np, "", f)
		}
	case split >= 10:
		// scattered into many views (headers in the first one, even-sized pieces)
		nv := split - 8
		views := [][]byte{pkt[:hl+8]}
		rest := pkt[hl+8:]
		piece := (len(rest)/nv + 1) / 2 * 2
		if piece < 2 {
			piece = 2
		}
		for len(rest) > piece {
			views = append(views, rest[:piece])
			rest = rest[piece:]
		}
		views = append(views, rest)
		w.L[nic].Inject(np, "", views...)
	default:
		cut := hl + 8 + split
		if split <= 0 || cut >= len(pkt) {
			w.L[nic].Inject(np, "", pkt)
		} else {
			w.L[nic].Inject(np, "", pkt[:cut], pkt[cut:])
		}
	}
	fr := 0
	if split >= 100 && pr == "4" && len(u) > 16 && ulenDelta == 0 {
		fr = 1
	}
	w.emit(fmt.Sprintf("inject %d %s %s %s %d %d %d %s %d", nic, pr, hx.Hex(src), hx.Hex(dst), sp, dp, ul, hx.Hex(payload), fr), "-")
}

var _ = buffer.View{}

// ---------------------------------------------------------------------------

var localPorts = []uint16{7000, 7001}

func Gen(r *hx.Run, focus string) {
	w := &World{r: r, Focus: focus}
	nh := r.Pick(400, 8000)
	if v := os.Getenv("NETW_NH"); v != "" {
		fmt.Sscan(v, &nh)
	}
	for h := 0; h < nh; h++ {
		w.Reset(r.R.Intn(4) == 0)
		nsock := 1 + r.R.Intn(5)
		for k := 0; k < nsock; k++ {
			if r.R.Intn(3) == 0 {
				w.NewUDP("6")
			} else {
				w.NewUDP("4")
			}
		}
		// phase 1: give most sockets a role (bound wildcard / bound specific / connected / both)
		for i := range w.eps {
			v6s := w.is6[i]
			switch r.R.Intn(6) {
			case 0:
				// stays unbound
			case 1:
				w.Bind(i, nil, localPorts[r.R.Intn(2)])
			case 2:
				if v6s {
					// (a dual-stack socket bound to the v4-mapped wildcard is an IPv4-only binding)
					w.Bind(i, [][]byte{v6a, mapped(a1), nil, mapped([]byte{0, 0, 0, 0})}[r.R.Intn(4)], localPorts[r.R.Intn(2)])
				} else {
					w.Bind(i, [][]byte{a1, a2, a3}[r.R.Intn(3)], localPorts[r.R.Intn(2)])
				}
			case 3:
				if v6s {
					w.Connect(i, [][]byte{v6r, mapped(rem1)}[r.R.Intn(2)], []uint16{9000, 9001}[r.R.Intn(2)])
				} else {
					w.Connect(i, [][]byte{rem1, rem2, rem3}[r.R.Intn(3)], []uint16{9000, 9001}[r.R.Intn(2)])
				}
			default:
				if v6s {
					w.Bind(i, nil, localPorts[r.R.Intn(2)])
				} else {
					w.Bind(i, [][]byte{nil, a1, a2}[r.R.Intn(3)], localPorts[r.R.Intn(2)])
				}
				if r.R.Intn(2) == 0 {
					if v6s {
						w.Connect(i, [][]byte{v6r, mapped(rem1)}[r.R.Intn(2)], []uint16{9000, 9001}[r.R.Intn(2)])
					} else {
						w.Connect(i, [][]byte{rem1, rem2, rem3}[r.R.Intn(3)], []uint16{9000, 9001}[r.R.Intn(2)])
					}
				}
			}
		}
		nops := 5 + r.R.Intn(r.Pick(40, 120))
		for k := 0; k < nops; k++ {
			i := r.R.Intn(len(w.eps))
			op := r.R.Intn(20)
			if op < 5 && r.R.Intn(3) != 0 {
				op = 5 + r.R.Intn(10) // fewer re-binds / re-connects (mostly error paths), more traffic
			}
			switch {
			case op < 3:
				addrs := [][]byte{nil, a1, a2, a3, v6a, mapped(a1), mapped([]byte{0, 0, 0, 0}), {10, 9, 9, 9}}
				port := localPorts[r.R.Intn(2)]
				if r.R.Intn(6) == 0 {
					port = 0
				}
				w.Bind(i, addrs[r.R.Intn(len(addrs))], port)
			case op < 5:
				rems := [][]byte{rem1, rem2, rem3, v6r, mapped(rem1)}
				w.Connect(i, rems[r.R.Intn(len(rems))], []uint16{9000, 9001, 0}[r.R.Intn(3)])
			case op < 11:
				// inbound datagram from the small universe of 4-tuples
				var n int
				switch r.R.Intn(8) {
				case 0:
					n = 0
				case 1:
					n = 1 + r.R.Intn(3)
				default:
					n = r.R.Intn(r.Pick(64, 1500))
				}
				payload := make([]byte, n)
				r.R.Read(payload)
				delta := 0
				if r.R.Intn(15) == 0 {
					delta = 1 + r.R.Intn(5)
				} else if r.R.Intn(25) == 0 && n > 2 {
					delta = -1 - r.R.Intn(2)
				}
				dport := localPorts[r.R.Intn(2)]
				if r.R.Intn(4) != 0 { // aim at a port some socket actually has (ephemeral ones included)
					j := r.R.Intn(len(w.eps))
					if a, _ := w.eps[j].GetLocalAddress(); a.Port != 0 {
						dport = a.Port
					}
				}
				if r.R.Intn(4) == 0 {
					dsts := [][]byte{v6a, {0xfe, 0x80, 0, 0, 0, 0, 0, 0, 0, 0, 0, 0, 0, 0, 0, 7}}
					w.Inject(1, "6", v6r, dsts[r.R.Intn(2)], []uint16{9000, 9001}[r.R.Intn(2)], dport, delta, payload, splitMode(r))
				} else {
					srcs := [][]byte{rem1, rem2, rem3}
					dsts := [][]byte{a1, a2, a3, {10, 0, 2, 7}, {10, 0, 0, 77}}
					nic := 1 + r.R.Intn(2)
					w.Inject(nic, "4", srcs[r.R.Intn(3)], dsts[r.R.Intn(len(dsts))], []uint16{9000, 9001}[r.R.Intn(2)], dport, delta, payload, splitMode(r))
				}
				if r.R.Intn(3) == 0 {
					w.Ready()
				}
			case op < 15:
				w.Read(i)
			case op < 17:
				n := r.R.Intn(r.Pick(100, 2000))
				if focus == "C11" && r.R.Intn(6) == 0 {
					n = []int{65506, 65507, 65508, 65527, 65528, 65535, 65536, 0, 1}[r.R.Intn(9)]
				}
				payload := make([]byte, n)
				r.R.Read(payload)
				if r.R.Intn(2) == 0 {
					w.Write(i, nil, 0, payload)
				} else {
					rems := [][]byte{rem1, rem3, v6r, mapped(rem2), {192, 168, 1, 1}}
					w.Write(i, rems[r.R.Intn(len(rems))], []uint16{9000, 9001}[r.R.Intn(2)], payload)
				}
			case op < 18:
				w.Shutdown(i, []string{"r", "w", "rw"}[r.R.Intn(3)])
			case op < 19:
				if r.R.Intn(3) == 0 {
					w.Close(i)
				} else {
					// receive-buffer pressure: a burst of large datagrams to one 4-tuple without reading
					// (the buffer limit is 32 KiB and not configurable in this stack)
					dp := localPorts[r.R.Intn(2)]
					for b := 0; b < 6+r.R.Intn(8); b++ {
						payload := make([]byte, 3000+r.R.Intn(3000))
						r.R.Read(payload)
						w.Inject(1, "4", rem1, a1, 9000, dp, 0, payload, 0)
					}
				}
			default:
				if r.R.Intn(2) == 0 {
					w.V6Only(i, r.R.Intn(2))
				} else {
					w.Ready()
				}
			}
		}
		// drain every socket so that everything queued is observed
		for i := range w.eps {
			for k := 0; k < 300; k++ {
				before := w.r.N
				w.Read(i)
				_ = before
				if !w.lastWasData {
					break
				}
			}
		}
	}
}

// ---------------------------------------------------------------------------
// ICMP echo (C13)

func describeReply(f netsim.Frame) string {
	b := f.Bytes
	if f.Proto == header.IPv4ProtocolNumber && len(b) >= 20 {
		return fmt.Sprintf("r4 %s %s ttl=%d %s", hx.Hex(b[12:16]), hx.Hex(b[16:20]), b[8], hx.Hex(b[20:]))
	}
	if f.Proto == header.IPv6ProtocolNumber && len(b) >= 40 {
		return fmt.Sprintf("r6 %s %s ttl=%d %s", hx.Hex(b[8:24]), hx.Hex(b[24:40]), b[7], hx.Hex(b[40:]))
	}
	return "unparsable"
}

func (w *World) collect(nic int, expectOne bool) string {
	var fs []netsim.Frame
	if expectOne {
		fs = w.L[nic].WaitFrames(1, 300*time.Millisecond)
	} else {
		// the echo replier answers on a goroutine of its own: wait until every goroutine of the stack is parked again,
		// otherwise a late reply is taken for the reaction to the next packet
		tcpw.Quiesce()
		fs = w.L[nic].Take()
	}
	for _, id := range []int{1, 2} {
		if id != nic {
			fs = append(fs, w.L[id].Take()...)
		}
	}
	w.Frames = append(w.Frames, fs...)
	if len(fs) == 0 {
		return "-"
	}
	var p []string
	for _, f := range fs {
		p = append(p, describeReply(f))
	}
	return strings.Join(p, " | ")
}

// Echo4 injects an ICMPv4 message (possibly as two IP fragments, possibly split into views).
func (w *World) Echo4(nic int, src, dst, msg []byte, firstLen int, fragAt int, likely bool) {
	if fragAt > 0 && fragAt < len(msg) && fragAt%8 == 0 {
		p1 := netsim.IPv4(src, dst, 1, 77, 0x2000, 64, msg[:fragAt])
		p2 := netsim.IPv4(src, dst, 1, 77, uint16(fragAt/8), 64, msg[fragAt:])
		if w.r.R.Intn(2) == 0 {
			w.L[nic].Inject(header.IPv4ProtocolNumber, "", p2)
			w.L[nic].Inject(header.IPv4ProtocolNumber, "", p1)
		} else {
			w.L[nic].Inject(header.IPv4ProtocolNumber, "", p1)
			w.L[nic].Inject(header.IPv4ProtocolNumber, "", p2)
		}
		firstLen = len(msg) // reassembled: the reply path sees the first fragment's view first
		// the first view after reassembly is the first fragment's payload
		firstLen = fragAt
	} else {
		pkt := netsim.IPv4(src, dst, 1, 78, 0, 64, msg)
		cut := 20 + firstLen
		if firstLen >= len(msg) || firstLen <= 0 {
			w.L[nic].Inject(header.IPv4ProtocolNumber, "", pkt)
			firstLen = len(msg)
		} else {
			w.L[nic].Inject(header.IPv4ProtocolNumber, "", pkt[:cut], pkt[cut:])
		}
	}
	res := w.collect(nic, likely)
	w.emit(fmt.Sprintf("echo4 %d %s %s %s %d", nic, hx.Hex(src), hx.Hex(dst), hx.Hex(msg), firstLen), res)
}

func (w *World) Echo6(nic int, src, dst, msg []byte, firstLen int, likely bool) {
	pkt := netsim.IPv6(src, dst, 58, 64, msg)
	cut := 40 + firstLen
	if firstLen >= len(msg) || firstLen <= 0 {
		w.L[nic].Inject(header.IPv6ProtocolNumber, "", pkt)
		firstLen = len(msg)
	} else if rest := pkt[cut:]; len(rest) > 2 && w.r.R.Intn(2) == 0 {
		// three views: the payload behind the first view is split once more, at any point
		c2 := 1 + w.r.R.Intn(len(rest)-1)
		w.L[nic].Inject(header.IPv6ProtocolNumber, "", pkt[:cut], rest[:c2], rest[c2:])
		w.r.Count("echo6.three-views")
	} else {
		w.L[nic].Inject(header.IPv6ProtocolNumber, "", pkt[:cut], pkt[cut:])
		w.r.Count("echo6.two-views")
	}
	res := w.collect(nic, likely)
	w.emit(fmt.Sprintf("echo6 %d %s %s %s %d", nic, hx.Hex(src), hx.Hex(dst), hx.Hex(msg), firstLen), res)
}

func GenEcho(r *hx.Run) {
	w := &World{r: r, Focus: "C13"}
	nh := r.Pick(60, 600)
	if v := os.Getenv("NETW_NH"); v != "" {
		fmt.Sscan(v, &nh)
	}
	for h := 0; h < nh; h++ {
		w.Reset(false)
		n := 5 + r.R.Intn(30)
		for k := 0; k < n; k++ {
			var plen int
			switch r.R.Intn(8) {
			case 0:
				plen = 0
			case 1:
				plen = 1
			case 2:
				plen = 1400 + r.R.Intn(200)
			case 3:
				plen = []int{7, 8, 9, 55, 56, 57, 1471, 1472}[r.R.Intn(8)]
			default:
				plen = r.R.Intn(200)
			}
			payload := make([]byte, plen)
			r.R.Read(payload)
			ident, seq := r.U16(), r.U16()
			v6 := r.R.Intn(3) == 0
			// boundary-valued request checksums (0x0000, 0x00ff, 0x0100, 0xffff …): found by choosing the
			// first payload word; exercised because incremental-update shortcuts break exactly there
			forceCk := -1
			if plen >= 2 && r.R.Intn(3) == 0 {
				forceCk = []int{0x0000, 0x0001, 0x00ff, 0x0100, 0x0101, 0xfeff, 0xff00, 0xfffe, 0xffff}[r.R.Intn(9)]
			}
			typ := uint8(8)
			if v6 {
				typ = 128
			}
			weird := false
			if r.R.Intn(12) == 0 { // not a request: reply type, or something else
				typ = []uint8{0, 129, 3, 13, 255}[r.R.Intn(5)]
				weird = true
			}
			if v6 {
				dsts := [][]byte{v6a, v6a, v6a, {0xfe, 0x80, 0, 0, 0, 0, 0, 0, 0, 0, 0, 0, 0, 0, 0, 7}}
				dst := dsts[r.R.Intn(len(dsts))]
				msg := netsim.ICMPv6Echo(v6r, dst, typ, ident, seq, payload)
				if forceCk >= 0 {
					for wv := 0; wv < 65536; wv++ {
						payload[0], payload[1] = byte(wv>>8), byte(wv)
						msg = netsim.ICMPv6Echo(v6r, dst, typ, ident, seq, payload)
						if int(msg[2])<<8|int(msg[3]) == forceCk {
							break
						}
					}
				}
				if r.R.Intn(15) == 0 && len(msg) > 2 {
					msg = msg[:r.R.Intn(8)] // truncated header
					weird = true
				}
				fl := 0
				if len(msg) > 8 && r.R.Intn(3) == 0 {
					fl = 8 + r.R.Intn(len(msg)-8+1) // any split point behind the echo header, odd ones included
				} else if len(msg) > 8 && r.R.Intn(5) == 0 {
					// the view boundary inside the 8-byte echo header: the stack may ignore such a request, but a reply,
					// if there is one, mirrors the request like any other
					fl = 1 + r.R.Intn(7)
					r.Count("echo6.split-inside-header")
				}
				own := string(dst) == string(v6a)
				w.Echo6(1, v6r, dst, msg, fl, own && !weird && (fl == 0 || fl >= 8))
			} else {
				dsts := [][]byte{a1, a2, a1, a3, {10, 0, 0, 77}, {10, 0, 1, 77}}
				dst := dsts[r.R.Intn(len(dsts))]
				nic := 1
				if r.R.Intn(5) == 0 {
					nic = 2
				}
				msg := netsim.ICMPv4Echo(typ, ident, seq, payload)
				if forceCk >= 0 {
					for wv := 0; wv < 65536; wv++ {
						payload[0], payload[1] = byte(wv>>8), byte(wv)
						msg = netsim.ICMPv4Echo(typ, ident, seq, payload)
						if int(msg[2])<<8|int(msg[3]) == forceCk {
							break
						}
					}
				}
				if r.R.Intn(15) == 0 {
					msg = msg[:r.R.Intn(8)]
					weird = true
				}
				fl, frag := 0, 0
				if len(msg) > 16 && r.R.Intn(4) == 0 {
					frag = 8 * (1 + r.R.Intn((len(msg)-1)/8))
				} else if len(msg) > 6 && r.R.Intn(3) == 0 {
					fl = 6 + 2*r.R.Intn((len(msg)-6)/2+1)
				}
				own := (nic == 1 && (string(dst) == string(a1) || string(dst) == string(a2))) || (nic == 2 && string(dst) == string(a3))
				w.Echo4(nic, []byte{10, 0, 0, 9}, dst, msg, fl, frag, own && !weird && len(msg) >= 8)
			}
		}
		time.Sleep(3 * time.Millisecond)
		var left []netsim.Frame
		for _, id := range []int{1, 2} {
			left = append(left, w.L[id].Take()...)
		}
		if len(left) == 0 {
			w.emit("leftover", "-")
		} else {
			w.emit("leftover", fmt.Sprintf("%d frames", len(left)))
		}
	}
	// burst: more requests than the reply queue holds; at most one reply each, every reply valid
	for b := 0; b < r.Pick(5, 50); b++ {
		w.Reset(false)
		nreq := 30
		for k := 0; k < nreq; k++ {
			msg := netsim.ICMPv4Echo(8, uint16(b), uint16(k), []byte{byte(k)})
			w.L[1].Inject(header.IPv4ProtocolNumber, "", netsim.IPv4(rem1, a1, 1, 5, 0, 64, msg))
		}
		fs := w.L[1].WaitFrames(nreq, 100*time.Millisecond)
		seen := map[uint16]int{}
		bad := 0
		for _, f := range fs {
			if len(f.Bytes) >= 28 && f.Bytes[20] == 0 {
				seen[binary.BigEndian.Uint16(f.Bytes[26:])]++
			} else {
				bad++
			}
		}
		dup := 0
		for _, c := range seen {
			if c > 1 {
				dup++
			}
		}
		r.Count("burst")
		r.Extra[fmt.Sprintf("burst%d_replies", b)] = len(fs)
		// recorded as an op whose expected output is "dup=0 bad=0 le=true"
		w.emit("leftover", map[bool]string{true: "-", false: fmt.Sprintf("burst dup=%d bad=%d n=%d", dup, bad, len(fs))}[dup == 0 && bad == 0 && len(fs) <= nreq])
	}
}

// splitMode: 0-3 = at most two views; 10+k = k+2 views; 100+n = n IPv4 fragments
func splitMode(r *hx.Run) int {
	switch r.R.Intn(8) {
	case 0:
		return 10 + r.R.Intn(14)
	case 1:
		return 100 + 2 + r.R.Intn(14)
	default:
		return r.R.Intn(4)
	}
}
