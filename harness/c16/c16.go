// Package c16: correspondence of pkg/buffer with the Lean heap model and the byte-string oracle.
package c16

import (
	"fmt"
	"strings"

	"github.com/brewlin/net-protocol/pkg/buffer"
	"vharness/hx"
)

type world struct {
	objs []*buffer.VectorisedView
	view buffer.View
	prep buffer.Prependable
}

func guard(f func() string) (s string) {
	defer func() {
		if e := recover(); e != nil {
			s = "panic"
		}
	}()
	return f()
}

func (w *world) dump() string {
	var p []string
	for _, o := range w.objs {
		p = append(p, guard(func() string {
			first := "nil"
			if f := o.First(); f != nil {
				first = fmt.Sprint(len(f))
			}
			spare := 0
			if vs := o.Views(); len(vs) > 0 {
				spare = cap(vs[len(vs)-1]) - len(vs[len(vs)-1])
			}
			return fmt.Sprintf("%d:%s:%s:%d", o.Size(), hx.Hex(o.ToView()), first, spare)
		}))
	}
	return strings.Join(p, " ")
}

type chunk struct{ data, extra []byte }

func mkView(c chunk) buffer.View {
	b := make([]byte, len(c.data)+len(c.extra))
	copy(b, c.data)
	copy(b[len(c.data):], c.extra)
	return buffer.View(b[:len(c.data)])
}

func chunkStr(c chunk) string { return hx.Hex(c.data) + ":" + hx.Hex(c.extra) }

func (w *world) apply(r *hx.Run, line string) {
	f := strings.Fields(line)
	var res string
	atoi := func(s string) int { var n int; fmt.Sscan(s, &n); return n }
	switch f[0] {
	case "reset":
		*w = world{}
		res = "ok"
	case "new":
		var views []buffer.View
		for _, c := range f[2:] {
			p := strings.Split(c, ":")
			views = append(views, mkView(chunk{unhex(p[0]), unhex(p[1])}))
		}
		vv := buffer.NewVectorisedView(atoi(f[1]), views)
		w.objs = append(w.objs, &vv)
		res = w.dump()
	case "trim":
		res = guard(func() string { w.objs[atoi(f[1])].TrimFront(atoi(f[2])); return w.dump() })
	case "cap":
		res = guard(func() string { w.objs[atoi(f[1])].CapLength(atoi(f[2])); return w.dump() })
	case "rmfirst":
		res = guard(func() string { w.objs[atoi(f[1])].RemoveFirst(); return w.dump() })
	case "clone":
		res = guard(func() string {
			o := w.objs[atoi(f[1])]
			var buf []buffer.View
			switch r.R.Intn(3) { // fresh buffers only: nil, too small, large enough
			case 1:
				buf = make([]buffer.View, 1)
			case 2:
				buf = make([]buffer.View, 8)
			}
			c := o.Clone(buf)
			w.objs = append(w.objs, &c)
			return w.dump()
		})
	case "copy":
		c := *w.objs[atoi(f[1])]
		w.objs = append(w.objs, &c)
		res = w.dump()
	case "vnew":
		p := strings.Split(f[1], ":")
		w.view = mkView(chunk{unhex(p[0]), unhex(p[1])})
		res = fmt.Sprintf("%s %d", hx.Hex(w.view), cap(w.view)-len(w.view))
	case "vtrim", "vcap", "vreslice":
		n := atoi(f[1])
		res = guard(func() string {
			v := w.view
			switch f[0] {
			case "vtrim":
				v.TrimFront(n)
			case "vcap":
				v.CapLength(n)
			default:
				v = v[:n]
			}
			w.view = v
			return fmt.Sprintf("%s %d", hx.Hex(v), cap(v)-len(v))
		})
	case "pnew":
		w.prep = buffer.NewPrependable(atoi(f[1]))
		res = w.showPrep()
	case "pfromview":
		src := unhex(f[1])
		pb := make([]byte, len(src)) // exact capacity: reslicing beyond len must panic as in the model
		copy(pb, src)
		w.prep = buffer.NewPrependableFromView(buffer.View(pb))
		res = w.showPrep()
	case "prepend":
		n := atoi(f[1])
		fill := unhex(f[2])
		st := guard(func() string {
			b := w.prep.Prepend(n)
			if b == nil {
				return "nil"
			}
			for i := range b {
				if i < len(fill) {
					b[i] = fill[i]
				} else {
					b[i] = 0
				}
			}
			return "ok"
		})
		res = st + " " + w.showPrep()
	}
	r.Count(f[0])
	r.Emit(line, res)
}

func (w *world) showPrep() string {
	return guard(func() string { return fmt.Sprintf("%s %d", hx.Hex(w.prep.View()), w.prep.UsedLength()) })
}

func unhex(s string) []byte {
	if s == "-" {
		return nil
	}
	b := make([]byte, len(s)/2)
	fmt.Sscanf(s, "%x", &b)
	return b
}

func newLine(chunks []chunk, size int) string {
	s := fmt.Sprintf("new %d", size)
	for _, c := range chunks {
		s += " " + chunkStr(c)
	}
	return s
}

func randChunks(r *hx.Run, maxChunks, maxLen int) ([]chunk, int) {
	n := r.R.Intn(maxChunks + 1)
	var cs []chunk
	total := 0
	for i := 0; i < n; i++ {
		l := r.R.Intn(maxLen + 1)
		if r.R.Intn(5) == 0 {
			l = 0
		}
		c := chunk{data: r.Bytes(l)}
		if r.R.Intn(3) == 0 {
			c.extra = r.Bytes(r.R.Intn(4))
		}
		cs = append(cs, c)
		total += l
	}
	return cs, total
}

func Gen(r *hx.Run) {
	w := &world{}
	// ---- exhaustive small scope: every op sequence up to depth D over an alphabet, on small chunkings,
	// with a clone and a struct copy alive
	alphabet := []string{"trim 0 -1", "trim 0 0", "trim 0 1", "trim 0 2", "trim 0 3", "trim 0 7", "cap 0 -1", "cap 0 0", "cap 0 1", "cap 0 2",
		"cap 0 4", "cap 0 9", "rmfirst 0", "clone 0", "trim 1 1", "cap 1 1"}
	depth := r.Pick(3, 4)
	chunkings := [][]chunk{
		{{data: []byte{1, 2, 3}}},
		{{data: []byte{1}}, {data: []byte{2, 3}}},
		{{data: []byte{}}, {data: []byte{1, 2}}, {data: []byte{3}}},
		{{data: []byte{1, 2}, extra: []byte{9}}, {data: []byte{}}, {data: []byte{3, 4}}},
		{},
	}
	var rec func(prefix []string, d int, cs []chunk, tot int)
	rec = func(prefix []string, d int, cs []chunk, tot int) {
		if d == 0 {
			w.apply(r, "reset")
			w.apply(r, newLine(cs, tot))
			w.apply(r, "clone 0")
			for _, op := range prefix {
				w.apply(r, op)
			}
			return
		}
		for _, op := range alphabet {
			rec(append(prefix, op), d-1, cs, tot)
		}
	}
	for _, cs := range chunkings {
		tot := 0
		for _, c := range cs {
			tot += len(c.data)
		}
		// only maximal-depth sequences: shorter ones are their prefixes (dump after every op)
		rec(nil, depth, cs, tot)
	}
	r.Extra["exhaustive_depth"] = depth
	r.Extra["exhaustive_alphabet"] = len(alphabet)
	// ---- random longer histories with clones, struct copies and inconsistent sizes
	nh := r.Pick(1500, 20000)
	maxOps := r.Pick(40, 400)
	for h := 0; h < nh; h++ {
		w.apply(r, "reset")
		cs, tot := randChunks(r, 5, 6)
		size := tot
		if r.R.Intn(30) == 0 {
			size = tot + r.R.Intn(4)
		}
		w.apply(r, newLine(cs, size))
		nops := 1 + r.R.Intn(maxOps)
		if r.R.Intn(4) != 0 {
			nops = 1 + r.R.Intn(12)
		}
		for k := 0; k < nops; k++ {
			i := r.R.Intn(len(w.objs))
			cur := w.objs[i].Size()
			cnt := func() int {
				switch r.R.Intn(6) {
				case 0:
					return -1 - r.R.Intn(3)
				case 1:
					return 0
				case 2:
					return cur
				case 3:
					return cur + 1 + r.R.Intn(3)
				default:
					if cur > 0 {
						return r.R.Intn(cur + 1)
					}
					return r.R.Intn(3)
				}
			}
			switch r.R.Intn(12) {
			case 0, 1, 2, 3:
				w.apply(r, fmt.Sprintf("trim %d %d", i, cnt()))
			case 4, 5, 6:
				w.apply(r, fmt.Sprintf("cap %d %d", i, cnt()))
			case 7, 8:
				w.apply(r, fmt.Sprintf("rmfirst %d", i))
			case 9, 10:
				if len(w.objs) < 6 {
					w.apply(r, fmt.Sprintf("clone %d", i))
				}
			case 11:
				if len(w.objs) < 6 && r.R.Intn(3) == 0 {
					w.apply(r, fmt.Sprintf("copy %d", i))
				}
			}
		}
	}
	// ---- single views: trim / cap / reslice incl. beyond len and cap
	nv := r.Pick(3000, 40000)
	for k := 0; k < nv; k++ {
		if k%6 == 0 {
			c := chunk{data: r.Bytes(r.R.Intn(8)), extra: r.Bytes(r.R.Intn(4))}
			w.apply(r, "vnew "+chunkStr(c))
		}
		n := r.R.Intn(14) - 2
		w.apply(r, []string{"vtrim", "vcap", "vreslice"}[r.R.Intn(3)]+fmt.Sprintf(" %d", n))
	}
	// ---- prependable
	np := r.Pick(3000, 40000)
	for k := 0; k < np; k++ {
		if k%5 == 0 {
			if r.R.Intn(2) == 0 {
				w.apply(r, fmt.Sprintf("pnew %d", r.R.Intn(20)))
			} else {
				w.apply(r, "pfromview "+hx.Hex(r.Bytes(r.R.Intn(10))))
			}
		}
		n := r.R.Intn(10)
		if r.R.Intn(15) == 0 {
			n = -1 - r.R.Intn(3)
		}
		w.apply(r, fmt.Sprintf("prepend %d %s", n, hx.Hex(r.Bytes(r.R.Intn(8)))))
	}
}
