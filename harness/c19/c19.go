// Package c19: forced-schedule correspondence of pkg/sleep with the Lean interleaving model. Every goroutine stops
// at the schedule points compiled into sleep_unsafe.go under -tags verif; the harness releases exactly one goroutine
// at a time, so the real code executes the interleaving the harness chose, one atomic operation per step (the two
// operations inside commitSleep run together: nothing may block on the system stack).
package c19

import (
	"fmt"
	"runtime"
	"strconv"
	"strings"
	"sync"
	"time"

	"github.com/brewlin/net-protocol/pkg/sleep"
	"vharness/hx"
)

var pointNames = []string{"addLoad", "addCAS", "nextLoad", "nextPrepare", "nextRecheck", "nextAbort", "nextPark", "nextSwap",
	"fetchSwap", "doneLoad", "doneCAS", "enqLoad", "enqCAS", "wakeLoad", "wakeCAS", "assertLoad", "assertSwap", "clearLoad", "clearCAS"}

func gid() int64 {
	var buf [64]byte
	n := runtime.Stack(buf[:], false)
	f := strings.Fields(string(buf[:n]))
	id, _ := strconv.ParseInt(f[1], 10, 64)
	return id
}

type report struct {
	tid  int // -1 = fetcher
	kind string
	val  string
}

type thread struct {
	cmd    chan string
	run    chan struct{}
	status string
}

type world struct {
	s    *sleep.Sleeper
	ws   []*sleep.Waker
	f    *thread
	th   []*thread
	rep  chan report
	gids sync.Map
}

var cur *world

func newWorld(n, nw int) *world {
	w := &world{s: &sleep.Sleeper{}, rep: make(chan report, 64)}
	for i := 0; i < nw; i++ {
		wk := &sleep.Waker{}
		w.ws = append(w.ws, wk)
		w.s.AddWaker(wk, i)
	}
	cur = w
	sleep.VerifHook = func(point int) {
		wd := cur
		v, ok := wd.gids.Load(gid())
		if !ok {
			return // a goroutine of an earlier world, or the harness itself
		}
		tid := v.(int)
		wd.rep <- report{tid, "at", pointNames[point]}
		if tid < 0 {
			<-wd.f.run
		} else {
			<-wd.th[tid].run
		}
	}
	w.f = &thread{cmd: make(chan string), run: make(chan struct{}), status: "idle"}
	go func() {
		w.gids.Store(gid(), -1)
		for op := range w.f.cmd {
			if op == "done" {
				w.s.Done()
				w.rep <- report{-1, "ret", "done"}
				continue
			}
			if strings.HasPrefix(op, "add ") {
				k, _ := strconv.Atoi(op[4:])
				w.s.AddWaker(w.ws[k], k)
				w.rep <- report{-1, "ret", "added"}
				continue
			}
			id, ok := w.s.Fetch(op == "1")
			if ok {
				w.rep <- report{-1, "ret", fmt.Sprint(id)}
			} else {
				w.rep <- report{-1, "ret", "none"}
			}
		}
	}()
	for i := 0; i < n; i++ {
		t := &thread{cmd: make(chan string), run: make(chan struct{}), status: "idle"}
		w.th = append(w.th, t)
		tid := i
		go func() {
			w.gids.Store(gid(), tid)
			for op := range t.cmd {
				fs := strings.Fields(op)
				k, _ := strconv.Atoi(fs[1])
				if fs[0] == "assert" {
					w.ws[k].Assert()
					w.rep <- report{tid, "ret", "done"}
				} else {
					w.rep <- report{tid, "ret", fmt.Sprint(w.ws[k].Clear())}
				}
			}
		}()
	}
	time.Sleep(200 * time.Microsecond) // let the goroutines register their ids
	return w
}

func (w *world) thr(tid int) *thread {
	if tid < 0 {
		return w.f
	}
	return w.th[tid]
}

// await waits for the next report of goroutine tid (others' reports update their status on the way); for the
// fetcher released at the park point it also recognises that the goroutine has committed to sleep.
func (w *world) await(tid int, mayPark bool) {
	deadline := time.Now().Add(3 * time.Second)
	for {
		select {
		case r := <-w.rep:
			st := r.kind + ":" + r.val
			w.thr(r.tid).status = st
			if r.tid == tid {
				return
			}
		default:
			if mayPark && sleep.VerifWaitingG(w.s) > 1 {
				// committed: wait until the goroutine is really off the processor
				for i := 0; i < 100; i++ {
					runtime.Gosched()
				}
				w.f.status = "parked"
				return
			}
			if time.Now().After(deadline) {
				w.thr(tid).status = "timeout"
				return
			}
			runtime.Gosched()
		}
	}
}

// afterWake: an asserter's CAS may have made the sleeping fetcher runnable: wait for it to reach its next point
func (w *world) afterWake(wasParked bool) {
	if wasParked && sleep.VerifWaitingG(w.s) <= 1 && w.f.status == "parked" {
		w.await(-1, false)
	}
}

// scriptStraggler replays, on every run, the schedule of the recorded finding (Props.C19.done_straggler_witness): an
// asserting goroutine has pushed its waker and stands before its load of waitingG; Done runs to its end; the
// goroutine then reads the sleeper's word.
func scriptStraggler(r *hx.Run, w *world) {
	call := func(t int, what string, k int) {
		line := fmt.Sprintf("call %d %s %d", t, what, k)
		r.Pending(line)
		w.th[t].cmd <- fmt.Sprintf("%s %d", what, k)
		w.await(t, false)
		r.Emit(line, fmt.Sprintf("t=%s f=%s", w.th[t].status, w.f.status))
	}
	astep := func(t int) {
		line := fmt.Sprintf("astep %d", t)
		r.Pending(line)
		wasParked := w.f.status == "parked"
		w.th[t].run <- struct{}{}
		w.await(t, false)
		w.afterWake(wasParked)
		r.Emit(line, fmt.Sprintf("t=%s f=%s", w.th[t].status, w.f.status))
	}
	call(0, "assert", 0)
	for i := 0; i < 8 && w.th[0].status != "at:wakeLoad"; i++ {
		astep(0)
	}
	r.Pending("done")
	w.f.cmd <- "done"
	w.await(-1, false)
	r.Emit("done", "f="+w.f.status)
	for i := 0; i < 40 && strings.HasPrefix(w.f.status, "at:"); i++ {
		r.Pending("fstep")
		atPark := w.f.status == "at:nextPark"
		w.f.run <- struct{}{}
		w.await(-1, atPark)
		r.Emit("fstep", "f="+w.f.status)
	}
	for i := 0; i < 4 && strings.HasPrefix(w.th[0].status, "at:"); i++ {
		astep(0)
	}
	r.Count("done.straggler-script")
}

// Gen generates forced schedules.
func Gen(r *hx.Run) {
	nh := r.Pick(300, 5000)
	for h := 0; h < nh; h++ {
		n := 1 + r.R.Intn(r.Pick(3, 4))
		nw := 1 + r.R.Intn(3)
		w := newWorld(n, nw)
		r.Emit(fmt.Sprintf("new %d %d", n, nw), "ok")
		steps := 10 + r.R.Intn(r.Pick(60, 120))
		// a third of the histories end with Done(): called at a random moment when no Fetch is in progress; afterwards
		// only the asserting goroutines move (stragglers of calls in progress, new calls on the detached wakers)
		doneAt := -1
		if h%3 == 0 {
			doneAt = r.R.Intn(steps)
		}
		if h == 0 {
			scriptStraggler(r, w)
			continue
		}
		doneCalled, afterDone := false, 0
		// half of the histories with a Done attach some of the wakers again afterwards and go on
		reattach := r.R.Intn(2) == 0
		var toAdd []int
		for k := 0; k < steps; k++ {
			// candidates: start a fetch, step the fetcher, start a call on an idle thread, step a thread at a point
			type cand struct {
				kind string
				t    int
			}
			var cs []cand
			fst := w.f.status
			if fst == "ret:done" || (fst == "ret:added" && len(toAdd) > 0) {
				if fst == "ret:done" && afterDone == 0 && reattach {
					for k := 0; k < nw; k++ {
						if r.R.Intn(3) != 0 {
							toAdd = append(toAdd, k)
						}
					}
					doneAt, doneCalled = -1, false // the sleeper is in use again: no second Done in this history
				}
				afterDone++
				if len(toAdd) > 0 && (r.R.Intn(3) == 0 || fst == "ret:added") {
					cs = append(cs, cand{"add", toAdd[0]}, cand{"add", toAdd[0]})
				} else if len(toAdd) == 0 && afterDone > 12 {
					break
				}
			} else if !strings.HasPrefix(fst, "at:") && fst != "parked" {
				if doneAt >= 0 && k >= doneAt && !doneCalled {
					cs = append(cs, cand{"done", 0}, cand{"done", 0}, cand{"done", 0})
				} else if !doneCalled {
					cs = append(cs, cand{"fetch", 0})
				}
			} else if fst != "parked" {
				cs = append(cs, cand{"fstep", 0}, cand{"fstep", 0})
			}
			for t, th := range w.th {
				if strings.HasPrefix(th.status, "at:") {
					cs = append(cs, cand{"astep", t}, cand{"astep", t})
				} else {
					cs = append(cs, cand{"call", t})
				}
			}
			if len(cs) == 0 {
				break
			}
			c := cs[r.R.Intn(len(cs))]
			wasParked := w.f.status == "parked"
			switch c.kind {
			case "add":
				toAdd = toAdd[1:]
				line := fmt.Sprintf("add %d", c.t)
				r.Pending(line)
				w.f.cmd <- line
				w.await(-1, false)
				r.Count("add")
				r.Emit(line, "f="+w.f.status)
			case "done":
				doneCalled = true
				r.Pending("done")
				w.f.cmd <- "done"
				w.await(-1, false)
				r.Count("done")
				r.Emit("done", "f="+w.f.status)
			case "fetch":
				b := "1"
				if r.R.Intn(3) == 0 {
					b = "0"
				}
				line := "fetch " + b
				r.Pending(line)
				w.f.cmd <- b
				w.await(-1, false)
				r.Count("fetch")
				r.Emit(line, "f="+w.f.status)
			case "fstep":
				r.Pending("fstep")
				atPark := w.f.status == "at:nextPark"
				w.f.run <- struct{}{}
				w.await(-1, atPark)
				r.Count("fstep")
				r.Emit("fstep", "f="+w.f.status)
			case "call":
				what := "assert"
				if r.R.Intn(4) == 0 {
					what = "clear"
				}
				k := r.R.Intn(nw)
				line := fmt.Sprintf("call %d %s %d", c.t, what, k)
				r.Pending(line)
				w.th[c.t].cmd <- fmt.Sprintf("%s %d", what, k)
				w.await(c.t, false)
				r.Count("call." + what)
				r.Emit(line, fmt.Sprintf("t=%s f=%s", w.th[c.t].status, w.f.status))
			case "astep":
				line := fmt.Sprintf("astep %d", c.t)
				r.Pending(line)
				w.th[c.t].run <- struct{}{}
				w.await(c.t, false)
				w.afterWake(wasParked)
				r.Count("astep")
				r.Emit(line, fmt.Sprintf("t=%s f=%s", w.th[c.t].status, w.f.status))
			}
		}
	}
}
