// Package hx: shared harness helpers — deterministic PRNG, boundary-biased
// generators, output files, statistics.
package hx

import (
	"bufio"
	"encoding/hex"
	"encoding/json"
	"flag"
	"fmt"
	"io"
	"log"
	"math/rand"
	"os"
	"path/filepath"
	"sort"
	"strings"
)

// Run is one correspondence run: ops go to ops.txt, the implementation's
// canonical outputs to go.out, one line each.
type Run struct {
	Dir    string
	Tier   string
	Seed   int64
	R      *rand.Rand
	ops    *bufio.Writer
	out    *bufio.Writer
	fo, fg *os.File
	N      int
	Stats  map[string]int
	Seen   map[string]struct{}
	Sample []string
	Extra  map[string]interface{}
	hist   uint64
	Hists  map[uint64]struct{}
}

func NewRun(dir, tier string, seed int64) *Run {
	must(os.MkdirAll(dir, 0o755))
	fo, err := os.Create(filepath.Join(dir, "ops.txt"))
	must(err)
	fg, err := os.Create(filepath.Join(dir, "go.out"))
	must(err)
	return &Run{Dir: dir, Tier: tier, Seed: seed, R: rand.New(rand.NewSource(seed)),
		ops: bufio.NewWriterSize(fo, 1<<20), out: bufio.NewWriterSize(fg, 1<<20), fo: fo, fg: fg,
		Stats: map[string]int{}, Seen: map[string]struct{}{}, Extra: map[string]interface{}{}, Hists: map[uint64]struct{}{}, hist: 14695981039346656037}
}

func must(err error) {
	if err != nil {
		panic(err)
	}
}

// Pending announces the op about to be executed: everything recorded so far is flushed and the op is written
// to pending.txt, so that if the implementation panics (the process dies) the failing input is on disk.
func (r *Run) Pending(op string) {
	r.ops.Flush()
	r.out.Flush()
	os.WriteFile(filepath.Join(r.Dir, "pending.txt"), []byte(op+"\n"), 0o644)
}

// Emit records one op line and the implementation's output line.
func (r *Run) Emit(op, res string) {
	r.ops.WriteString(op)
	r.ops.WriteByte('\n')
	r.out.WriteString(res)
	r.out.WriteByte('\n')
	r.N++
	// distinct histories: FNV hash of the op lines between reset/new markers
	if strings.HasPrefix(op, "reset") || strings.HasPrefix(op, "new ") {
		if r.hist != 14695981039346656037 {
			r.Hists[r.hist] = struct{}{}
		}
		r.hist = 14695981039346656037
	} else {
		for i := 0; i < len(op); i++ {
			r.hist = (r.hist ^ uint64(op[i])) * 1099511628211
		}
		r.hist = (r.hist ^ 10) * 1099511628211
	}
	if len(r.Seen) < 2000000 {
		r.Seen[op] = struct{}{}
	}
	if len(r.Sample) < 8 && (r.N%7 == 1) {
		s := op + " => " + res
		if len(s) > 300 {
			s = s[:300] + "…"
		}
		r.Sample = append(r.Sample, s)
	}
}

func (r *Run) Count(k string) { r.Stats[k]++ }

func (r *Run) Close() {
	r.ops.Flush()
	r.out.Flush()
	r.fo.Close()
	r.fg.Close()
	keys := make([]string, 0, len(r.Stats))
	for k := range r.Stats {
		keys = append(keys, k)
	}
	sort.Strings(keys)
	if r.hist != 14695981039346656037 {
		r.Hists[r.hist] = struct{}{}
	}
	distinct := len(r.Seen)
	if len(r.Hists) > distinct {
		distinct = len(r.Hists)
	}
	st := map[string]interface{}{
		"evaluations": r.N, "distinct": distinct, "distinct_histories": len(r.Hists), "distribution": r.Stats, "samples": r.Sample,
		"seed": r.Seed, "tier": r.Tier, "extra": r.Extra,
	}
	b, _ := json.MarshalIndent(st, "", " ")
	must(os.WriteFile(filepath.Join(r.Dir, "stats.json"), b, 0o644))
}

func (r *Run) Thorough() bool { return r.Tier == "thorough" }

// Pick returns q in quick tier, t in thorough.
func (r *Run) Pick(q, t int) int {
	if r.Thorough() {
		return t
	}
	return q
}

var bounds32 = []uint32{0, 1, 2, 0x7ffe, 0x7fff, 0x8000, 0xfffe, 0xffff, 0x10000, 0x10001,
	0x7ffffffe, 0x7fffffff, 0x80000000, 0x80000001, 0xfffffffe, 0xffffffff}

// U32 is a boundary-biased 32-bit value.
func (r *Run) U32() uint32 {
	switch r.R.Intn(10) {
	case 0, 1, 2:
		return bounds32[r.R.Intn(len(bounds32))]
	case 3:
		return uint32(r.R.Intn(64))
	case 4:
		return bounds32[r.R.Intn(len(bounds32))] + uint32(r.R.Intn(9)) - 4
	default:
		return r.R.Uint32()
	}
}

// Near returns a value near base (± small, ± 2^k, ± 2^31 …).
func (r *Run) Near(base uint32) uint32 {
	switch r.R.Intn(8) {
	case 0:
		return base
	case 1:
		return base + uint32(r.R.Intn(9)) - 4
	case 2:
		return base + (uint32(1) << uint(r.R.Intn(32)))
	case 3:
		return base - (uint32(1) << uint(r.R.Intn(32)))
	case 4:
		return base + 0x80000000 + uint32(r.R.Intn(5)) - 2
	case 5:
		return base + 0x7fffffff + uint32(r.R.Intn(3)) - 1
	default:
		return r.U32()
	}
}

func (r *Run) U16() uint16 {
	switch r.R.Intn(6) {
	case 0:
		return []uint16{0, 1, 0xff, 0x100, 0x7fff, 0x8000, 0xfffe, 0xffff}[r.R.Intn(8)]
	default:
		return uint16(r.R.Intn(65536))
	}
}

func (r *Run) Bytes(n int) []byte {
	b := make([]byte, n)
	switch r.R.Intn(6) {
	case 0:
		for i := range b {
			b[i] = 0xff
		}
	case 1:
		// zeros
	default:
		r.R.Read(b)
	}
	return b
}

func Hex(b []byte) string {
	if len(b) == 0 {
		return "-"
	}
	return hex.EncodeToString(b)
}

func B(b bool) string {
	if b {
		return "true"
	}
	return "false"
}

func F(format string, a ...interface{}) string { return fmt.Sprintf(format, a...) }

// Main is the common entry point: <bin> gen <property> -seed N -tier T -out DIR
func Main(gen func(*Run)) {
	log.SetOutput(io.Discard)
	if len(os.Args) < 3 || os.Args[1] != "gen" {
		fmt.Fprintln(os.Stderr, "usage: gen <property> [-seed N] [-tier T] [-out DIR]")
		os.Exit(2)
	}
	fs := flag.NewFlagSet("gen", flag.ExitOnError)
	seed := fs.Int64("seed", 1, "")
	tier := fs.String("tier", "quick", "")
	out := fs.String("out", ".", "")
	fs.Parse(os.Args[3:])
	r := NewRun(*out, *tier, *seed)
	defer r.Close()
	gen(r)
}
