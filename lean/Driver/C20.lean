import NetProto.Model.Ws
import Driver.Util
/-! C20 driver.  Ops (bytes in hex, `-` = empty):
`build m= u= b= k=<key>:<val>…` the bytes the bundled client writes (canonical: header lines sorted);
`serve|xhttp mux=<paths> err=<status the handler sets> hb=<body the handler produces, 40 ("@") = echo of what it saw> m= u= b= k=…`
one exchange client → server → client (in memory / over the stack's TCP): what the handler saw, the status and body the
client reads; `rawserve mux= <bytes>` arbitrary bytes at the server; `parse <bytes>`; `accept <key>`; `mask <key> <data>`;
`wsend g<seed>,<len>` the frame `SendData` writes (digest); `wrecv c=<cuts> <stream>` what `ReadData` returns, frame
after frame; `xwsup` / `xws <msgs>` a WebSocket session over the stack's TCP.
model mode prints the model's prediction, oracle mode judges the implementation's output against the property. -/
namespace Driver.C20
open Model.Http

def hexN (s : String) : Option (List Nat) := (parseHex s).map (·.map UInt8.toNat)
def toHexN (l : List Nat) : String := toHex (l.map UInt8.ofNat)

def lexLt : List Nat → List Nat → Bool
  | [], [] => false
  | [], _ :: _ => true
  | _ :: _, [] => false
  | a :: as, b :: bs => a < b || (a == b && lexLt as bs)

def insertBy {α} (lt : α → α → Bool) (x : α) : List α → List α
  | [] => [x]
  | y :: ys => if lt x y then x :: y :: ys else y :: insertBy lt x ys
def sortBy {α} (lt : α → α → Bool) (l : List α) : List α := l.foldl (fun acc x => insertBy lt x acc) []

/-- the map a header list amounts to (later entries win), sorted by key -/
def asMap (hs : List (Bytes × Bytes)) : List (Bytes × Bytes) :=
  let ded := hs.foldl (fun acc kv => acc.filter (·.1 ≠ kv.1) ++ [kv]) []
  sortBy (fun a b => lexLt a.1 b.1) ded

def hdrsStr (hs : List (Bytes × Bytes)) : String :=
  let m := asMap hs
  if m.isEmpty then "-" else ",".intercalate (m.map fun kv => toHexN kv.1 ++ ":" ++ toHexN kv.2)

def sawString (r : Parsed) : String :=
  toHexN r.method ++ "|" ++ toHexN r.uri ++ "|" ++ toHexN r.version ++ "|" ++ hdrsStr r.headers ++ "|" ++ toHexN r.body

def fnv (b : List Nat) : UInt64 := b.foldl (fun h c => (h ^^^ UInt64.ofNat c) * 1099511628211) 14695981039346656037

def hex16 (v : UInt64) : String :=
  String.ofList ((List.range 16).reverse.map fun i => hexChar ((v.toNat / 16 ^ i) % 16))

def dig (b : List Nat) : String := toHexN (b.take 14) ++ ":" ++ toString b.length ++ ":" ++ hex16 (fnv b)

def gen (seed n : Nat) : List Nat := (List.range n).map fun i => (seed + i * 131 + (i / 256) * 7) % 256

/-- split at every CRLF -/
def splitCrlf (b : Bytes) : List Bytes :=
  let rec go (fuel : Nat) (p : Bytes) (acc : List Bytes) : List Bytes :=
    match fuel with
    | 0 => acc ++ [p]
    | f + 1 =>
      match index crlf p with
      | none => acc ++ [p]
      | some i => go f (p.drop (i + 2)) (acc ++ [p.take i])
  go (b.length + 1) b []

def joinCrlf : List Bytes → Bytes
  | [] => []
  | [x] => x
  | x :: xs => x ++ crlf ++ joinCrlf xs

/-- the harness's canonical form of a message: start line, header lines sorted, body -/
def canonMessage (raw : Bytes) : String :=
  match index (crlf ++ crlf) raw with
  | none => "nohead:" ++ toHexN raw
  | some i =>
    let lines := splitCrlf (raw.take i)
    match lines with
    | [] => "nohead:" ++ toHexN raw
    | l0 :: rest => toHexN (l0 ++ crlf ++ joinCrlf (sortBy lexLt rest) ++ crlf ++ crlf ++ raw.drop (i + 4))

def kv (toks : List String) (k : String) : Option String :=
  (toks.find? (·.startsWith (k ++ "="))).map fun s => (s.drop (k.length + 1)).toString

def parseHeaders (toks : List String) : Option (List (Bytes × Bytes)) :=
  (toks.filter (·.startsWith "k=")).mapM fun s =>
    match ((s.drop 2).toString).splitOn ":" with
    | [a, b] => do pure ((← hexN a), (← hexN b))
    | _ => none

def parseMux (s : String) : Option (List Bytes) := if s == "-" then some [] else (s.splitOn ",").mapM hexN

def defaults : List (Bytes × Bytes) :=
  [(str "Host", str "10.0.0.1:8080"), (str "User-Agent", str "net-protocol/5.0"), (str "Accept", str "*/*")]

def digits (n : Nat) : Bytes := (toString n).toList.map Char.toNat

def statusText (n : Nat) : Bytes :=
  if n = 200 then str "OK" else if n = 400 then str "Bad Request" else if n = 501 then str "Not Implemented"
  else if n = 404 then str "Not Found" else if n = 500 then str "Internal Server Error" else if n = 403 then str "Forbidden"
  else if n = 201 then str "Created" else []

/-- the response the server writes for the outcome `sv` of serving a request whose version field was `ver` -/
def responseBytes (ver : Bytes) (sv : Served) : Bytes :=
  let base := [(str "Server", str "github.com/brewlin/net-protocol/1.00"), (str "Connection", str "close")]
  let hs := if sv.status ≠ 200 then base ++ [(str "Content-Type", str "text/html"), (str "Content-Length", [239, 191, 189])] else base
  buildResponse ver (digits sv.status) (statusText sv.status) hs sv.body

structure Req where
  mux : List Bytes
  err : Nat
  hb : Bytes
  m : Bytes
  u : Bytes
  b : Bytes
  hs : List (Bytes × Bytes)

def parseReq (toks : List String) : Option Req := do
  let mux ← (kv toks "mux").bind parseMux
  let err ← (kv toks "err").bind String.toNat?
  let hb ← (kv toks "hb").bind hexN
  let m ← (kv toks "m").bind hexN
  let u ← (kv toks "u").bind hexN
  let b ← (kv toks "b").bind hexN
  let hs ← parseHeaders toks
  pure { mux, err, hb, m, u, b, hs }

def handlerBody (hb : Bytes) (r : Parsed) : Bytes :=
  if hb = [64] then str "saw " ++ (sawString r).toList.map Char.toNat else hb

/-- the harness's handler: sets status `err` through `Response.Error` when it is not 0, hands `hb` to `End` -/
def handlerOf (err : Nat) (hb : Bytes) (r : Parsed) : Nat × Bytes := (err, handlerBody hb r)

/-- model: client builds, server serves, client parses the answer -/
def exchange (q : Req) : String :=
  let raw := buildRequest q.m q.u (asMap (defaults ++ q.hs)) q.b
  let sv := serve q.mux (handlerOf q.err q.hb) raw
  let ver := (parse 200 raw).version
  let back := parse 200 (responseBytes ver sv)
  "saw=" ++ (match sv.invoked with | some r => sawString r | none => "-") ++ " status=" ++ toHexN back.uri ++ " body=" ++ toHexN back.body

/-- a key in the grammar / a value in the grammar -/
def okKey (k : Bytes) : Bool := k ≠ [] && (index colonSp k).isNone && (index crlf k).isNone
def okVal (v : Bytes) : Bool := v ≠ [] && (index crlf v).isNone
def okTok (t : Bytes) : Bool := t ≠ [] && !t.contains 32

def fieldOf (out : String) (k : String) : String := (kv (out.splitOn " ") k).getD ""

/-- the property, on one exchange -/
def judgeExchange (q : Req) (goOut : String) : String :=
  let hs := asMap (defaults ++ q.hs)
  let supported := [str "GET", str "HEAD", str "POST", str "PUT"].contains q.m
  if !(supported && okTok q.u && hs.all (fun h => okKey h.1 && okVal h.2)) then "ok" else
  let saw := fieldOf goOut "saw"
  let status := fieldOf goOut "status"
  let body := fieldOf goOut "body"
  let sent : Parsed := { method := q.m, uri := q.u, version := str "HTTP/1.1", headers := hs, body := q.b }
  if status == toHexN (str "timeout") || status == toHexN (str "connect-failed") then "bad c20.exchange-did-not-complete"
  else if q.mux.contains q.u then
    if saw == "-" then "bad c20.handler-not-invoked"
    else if saw != sawString sent then "bad c20.handler-saw-different-request"
    else if q.err ≠ 0 && status != toHexN (digits q.err) then "bad c20.handler-status-not-delivered"
    else if q.err = 0 && status != toHexN (str "200") then "bad c20.client-status-differs"
    else if q.hb ≠ [] && body != toHexN (handlerBody q.hb sent) then
      (if q.err ≠ 0 && q.err ≠ 200 then "bad c20.handler-body-replaced-by-error-page" else "bad c20.client-body-differs")
    else "ok"
  else if saw != "-" then "bad c20.unregistered-path-invoked-handler" else "ok"

def parsedString (r : Parsed) : String :=
  s!"m={toHexN r.method} u={toHexN r.uri} v={toHexN r.version} st={r.status} h={hdrsStr r.headers} b={toHexN r.body}"

def descData (s : String) : Option (List Nat) :=
  if s.startsWith "g" then
    match ((s.drop 1).toString).splitOn "," with
    | [a, b] => do pure (gen (← a.toNat?) (← b.toNat?))
    | _ => none
  else none

def readLoop (fuel : Nat) (s : List Nat) (acc : List String) : List String :=
  match fuel with
  | 0 => acc
  | f + 1 =>
    match Model.Ws.readData s with
    | .data m rest => readLoop f rest (acc ++ ["d=" ++ dig m])
    | .needMore => acc ++ ["e=eof"]
    | .notFinal _ => acc ++ ["e=notfinal"]
    | .closed _ => acc ++ ["e=closed"]
    | .notText _ => acc ++ ["e=nottext"]
    | .panic => acc ++ ["e=panic"]

/-- the payloads an RFC 6455 reader must deliver from the front of a stream: the leading run of whole, final,
unextended text frames -/
def specMessages (fuel : Nat) (s : List Nat) (acc : List (List Nat)) : List (List Nat) :=
  match fuel with
  | 0 => acc
  | f + 1 =>
    match s with
    | _ :: b1 :: rest =>
      -- stay away from lengths no reader can allocate
      if b1 % 128 = 127 ∧ Spec.Ws.unbe (rest.take 8) > 1048576 then acc else
      match Spec.Ws.decodeFrame s with
      | some (fr, rest) => if fr.fin && fr.rsv == 0 && fr.opcode == 1 then specMessages f rest (acc ++ [fr.payload]) else acc
      | none => acc
    | _ => acc

def judgeDeliveries (expected : List String) (got : List String) : Bool :=
  (expected.zip got).all (fun p => p.1 == p.2) && expected.length ≤ got.length

/-- size of the message a session token stands for -/
def xwsSize (tok : String) : Nat :=
  match ((tok.drop 1).toString).splitOn "," with
  | [_, n] => n.toNat?.getD 0
  | _ => 0

/-- the implementation's results of a session against the expected ones, when messages of a back-to-back burst may
have been dropped by a full send buffer (known finding): `some k` = the results are the expected ones with `k`
burst messages missing, each of them too large for what the 1 MiB send buffer could still hold, and `k` reads
that timed out at the end; `none` = anything else -/
def matchDropped : List (String × Bool) → List String → Nat → Option Nat
  | [], got, k => if got.length == k && got.all (· == "c:timeout") then some k else none
  | (e, droppable) :: rest, got, k =>
    match got with
    | g :: gs => if g == e then matchDropped rest gs k
                 else if droppable then matchDropped rest got (k + 1) else none
    | [] => none

/-- `c<seed>,<n>` / `s<seed>,<n>` / `b<seed>,<n>` / `m<key>:<seed>,<n>` -/
def xwsExpect (tok : String) : Option String :=
  let side := if tok.startsWith "s" || tok.startsWith "b" then "c:" else "s:"
  let d := match ((tok.drop 1).toString).splitOn ":" with
    | [_, d] => d
    | [d] => d
    | _ => ""
  (descData ("g" ++ d)).map fun data => side ++ "d=" ++ dig data

def step (oracleMode : Bool) (_st : Unit) (line : String) : Unit × String :=
  let (line, goOut) := if oracleMode then
      match line.splitOn " => " with
      | [a, b] => (a, b)
      | _ => (line, "")
    else (line, "")
  let toks := line.splitOn " "
  let out : String :=
    match toks with
    | ["reset"] => "ok"
    | "build" :: rest =>
      if oracleMode then "ok" else
      match (kv rest "m").bind hexN, (kv rest "u").bind hexN, (kv rest "b").bind hexN, parseHeaders rest with
      | some m, some u, some b, some hs => canonMessage (buildRequest m u (asMap (defaults ++ hs)) b)
      | _, _, _, _ => "bad-op"
    | "serve" :: rest | "xhttp" :: rest =>
      match parseReq rest with
      | some q => if oracleMode then judgeExchange q goOut else exchange q
      | none => "bad-op"
    | ["rawserve", mux, raw] =>
      if oracleMode then "ok" else
      match (kv [mux] "mux").bind parseMux, hexN raw with
      | some mx, some bytes =>
        let sv := serve mx (handlerOf 0 [64]) bytes
        let ver := (parse 200 bytes).version
        "saw=" ++ (match sv.invoked with | some r => sawString r | none => "-") ++ " resp=" ++ canonMessage (responseBytes ver sv)
      | _, _ => "bad-op"
    | ["parse", raw] =>
      if oracleMode then "ok" else
      match hexN raw with
      | some bytes => parsedString (parse 200 bytes)
      | none => "bad-op"
    | ["accept", k] =>
      match hexN k with
      | some key =>
        if oracleMode then (if goOut == toHexN (Spec.Ws.acceptKey key) then "ok" else "bad c20.accept-key")
        else toHexN (Model.Ws.computeAcceptKey key)
      | none => "bad-op"
    | ["mask", k, d] =>
      if oracleMode then "ok" else
      match hexN k, hexN d with
      | some key, some data => toHexN (Model.Ws.maskBytes key data)
      | _, _ => "bad-op"
    | ["wsend", d] =>
      match descData d with
      | some data =>
        if oracleMode then (if goOut == dig (Spec.Ws.encodeFrame 1 none data) then "ok" else "bad c20.frame-not-rfc6455")
        else dig (Model.Ws.sendData data)
      | none => "bad-op"
    | ["wrecv", _, s] =>
      match hexN s with
      | some stream =>
        if oracleMode then
          let expected := (specMessages 64 stream []).map fun m => "d=" ++ dig m
          if judgeDeliveries expected (goOut.splitOn " ") then "ok" else "bad c20.message-bytes-differ"
        else " ".intercalate (readLoop 64 stream [])
      | none => "bad-op"
    | ["xwsup"] =>
      if !oracleMode then "?" else
      match hexN (fieldOf goOut "key"), hexN (fieldOf goOut "acc") with
      | some key, some acc => if key ≠ [] && acc == Spec.Ws.acceptKey key then "ok" else "bad c20.accept-key"
      | _, _ => "bad c20.accept-key"
    | "xws" :: msgs =>
      match msgs.mapM xwsExpect with
      | some exp =>
        -- a burst message is "droppable" when it does not fit the 1 MiB send buffer together with what the burst
        -- has written before it (whether earlier messages have been acknowledged by then is a matter of timing)
        let sizes := msgs.map fun t => if t.startsWith "b" then xwsSize t else 0
        let before := (sizes.foldl (fun (acc : List Nat × Nat) n => (acc.1 ++ [acc.2], acc.2 + n)) ([], 0)).1
        let droppable := (msgs.zip (before.zip sizes)).map fun (t, b, n) => t.startsWith "b" && b + n + 10 > 1048576
        if oracleMode then
          if goOut == " ".intercalate exp then "ok"
          else match matchDropped (exp.zip droppable) (goOut.splitOn " ") 0 with
            | some k => if k > 0 then "bad c20.message-dropped-when-send-buffer-full" else "bad c20.ws-message-lost-or-altered"
            | none => "bad c20.ws-message-lost-or-altered"
        else if droppable.any id then "?"      -- whether the send buffer is full at that moment is not predicted
        else " ".intercalate exp
      | none => "bad-op"
    | _ => "bad-op"
  ((), out)

end Driver.C20
