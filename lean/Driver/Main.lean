import Driver.C14
import Driver.C15
import Driver.C16
import Driver.C10
import Driver.C08
import Driver.C18
import Driver.C17
import Driver.Net
import Driver.C12
import Driver.Tcp
import Driver.C06
import Driver.C07
import Driver.C19
import Driver.C20

/-! Line-protocol driver: `driver <property> model|oracle < ops > out`.
    Stateless properties map each line independently; stateful ones thread a state. -/

partial def loopStateless (h : IO.FS.Stream) (out : IO.FS.Stream) (f : String → String) : IO Unit := do
  let line ← h.getLine
  if line.isEmpty then return ()
  let l := if line.endsWith "\n" then line.dropEnd 1 |>.toString else line
  out.putStrLn (f l)
  loopStateless h out f

partial def loopState {σ} (h : IO.FS.Stream) (out : IO.FS.Stream) (f : σ → String → σ × String) (s : σ) : IO Unit := do
  let line ← h.getLine
  if line.isEmpty then return ()
  let l := if line.endsWith "\n" then line.dropEnd 1 |>.toString else line
  let (s', o) := f s l
  out.putStrLn o
  loopState h out f s'

def main (args : List String) : IO UInt32 := do
  let stdin ← IO.getStdin
  let stdout ← IO.getStdout
  match args with
  | ["C14", mode] => loopStateless stdin stdout (Driver.C14.step (mode == "oracle")); return 0
  | ["C15", mode] => loopStateless stdin stdout (Driver.C15.step (mode == "oracle")); return 0
  | ["C16", mode] => loopState stdin stdout (Driver.C16.step (mode == "oracle")) default; return 0
  | ["C10", mode] => loopState stdin stdout (Driver.C10.step (mode == "oracle")) default; return 0
  | ["C08", mode] => loopState stdin stdout (Driver.C08.step (mode == "oracle")) default; return 0
  | ["C18", mode] => loopState stdin stdout (Driver.C18.step (mode == "oracle")) default; return 0
  | ["C17", mode] => loopState stdin stdout (Driver.C17.step (mode == "oracle")) default; return 0
  | ["C09", mode] => loopState stdin stdout (Driver.Net.step (mode == "oracle")) default; return 0
  | ["C13", mode] => loopState stdin stdout (Driver.Net.step (mode == "oracle")) default; return 0
  | ["C11", mode] => loopState stdin stdout (Driver.Net.step (mode == "oracle")) default; return 0
  | ["C12", mode] => loopState stdin stdout (Driver.C12.step (mode == "oracle")) default; return 0
  | ["C19", mode] => loopState stdin stdout (Driver.C19.step (mode == "oracle")) default; return 0
  | ["C07", mode] => loopState stdin stdout (Driver.C07.step (mode == "oracle")) default; return 0
  | ["C06", mode] => loopState stdin stdout (Driver.C06.step (mode == "oracle")) default; return 0
  | ["C20", mode] => loopState stdin stdout (Driver.C20.step (mode == "oracle")) (); return 0
  | ["TCP", mode] => loopState stdin stdout (Driver.Tcp.step (mode == "oracle")) default; return 0
  | _ => IO.eprintln "usage: driver <property> model|oracle"; return 2
