import NetProto.Model.TMutex
import Driver.Util
namespace Driver.C18
open Model.TMutex

def pcName : PC → String
  | .idle => "idle" | .held => "held" | .la => "la" | .ll => "ll" | .ls => "ls" | .lr => "lr"
  | .tl => "tl" | .tc => "tc" | .us => "us" | .ud => "ud"

def evName : Ev → String
  | .none => "" | .acquired => "ret:acq" | .tryFalse => "ret:false" | .tryTrue => "ret:true" | .unlocked => "ret:unlocked"

structure OSt where
  holder : Option Nat := none
  /-- last reported point per thread ("" = between operations) -/
  at_ : List String := []
deriving Inhabited

structure St where
  m : Model.TMutex.St := {}
  o : OSt := {}
deriving Inhabited

/-- one harness-visible step: the real code has no schedule point between Lock's load and swap,
    so a step at `ll` that continues to `ls` executes the swap as well -/
def visibleStep (s : Model.TMutex.St) (i : Nat) : Model.TMutex.St × String :=
  match s.pcs[i]? with
  | none => (s, "bad-thread")
  | some pc =>
    if !enabled s.tok pc then (s, "hang") else
    let (s1, ev1) := s.step i
    let (s2, ev2) := if pc == .ll && s1.pcs[i]? == some .ls then s1.step i else (s1, ev1)
    match ev2 with
    | .none => (s2, "at:" ++ pcName ((s2.pcs[i]?).getD .idle))
    | e => (s2, evName e)

def modelStep (st : St) (toks : List String) : St × String :=
  match toks with
  | ["reset", n] =>
    match n.toNat? with
    | some n => ({ m := { pcs := List.replicate n .idle } }, "ok")
    | none => (st, "bad-op")
  | ["start", i, c] =>
    match i.toNat? with
    | some i =>
      let call := if c == "lock" then Call.lock else if c == "trylock" then Call.tryLock else Call.unlock
      let m := st.m.start i call
      ({ st with m := m }, "at:" ++ pcName ((m.pcs[i]?).getD .idle))
    | none => (st, "bad-op")
  | ["step", i] =>
    match i.toNat? with
    | some i => let (m, out) := visibleStep st.m i; ({ st with m := m }, out)
    | none => (st, "bad-op")
  | ["quiescent"] =>
    let busy := (st.m.pcs.zipIdx.filter fun (p, _) => p != .idle && p != .held).map fun (_, i) => toString i
    (st, if busy.isEmpty then "all-idle" else "busy:" ++ ",".intercalate busy)
  | _ => (st, "bad-op")

/-- oracle over the implementation's observable events only -/
def oracleStep (st : St) (toks : List String) (res : String) : St × String :=
  let o := st.o
  let setAt (i : Nat) (v : String) : List String := (o.at_ ++ List.replicate (i + 1 - o.at_.length) "").set i v
  match toks with
  | ["reset", _] => ({ st with o := {} }, "ok")
  | ["start", i, c] =>
    match i.toNat? with
    | some i =>
      if res == "hang" then (st, "bad operation-start-hangs") else
      let pt := (res.drop 3).toString
      let bad := (c == "unlock" && o.holder != some i)
      ({ st with o := { o with at_ := setAt i pt } }, if bad then "bad-op" else "ok")
    | none => (st, "bad-op")
  | ["step", i] =>
    match i.toNat? with
    | some i =>
      let cur := o.at_.getD i ""
      if res == "hang" then
        (st, if cur == "tl" || cur == "tc" then "bad trylock-blocked" else "bad lost-wakeup-or-hang")
      else
      -- the step that executes Unlock's swap releases the mutex
      let holder1 := if cur == "us" then none else o.holder
      if res == "ret:acq" || res == "ret:true" then
        if holder1.isSome then ({ st with o := { o with holder := some i, at_ := setAt i "" } }, "bad mutual-exclusion")
        else ({ st with o := { holder := some i, at_ := setAt i "" } }, "ok")
      else if res == "ret:false" then
        -- TryLock must succeed when the mutex is free and nobody else is in the middle of an operation
        let others := (o.at_.zipIdx.filter fun (p, j) => j != i && p != "").length
        let bad := holder1.isNone && others == 0
        ({ st with o := { o with holder := holder1, at_ := setAt i "" } }, if bad then "bad trylock-fails-though-free" else "ok")
      else if res == "ret:unlocked" then
        ({ st with o := { holder := holder1, at_ := setAt i "" } }, "ok")
      else
        ({ st with o := { holder := holder1, at_ := setAt i (res.drop 3).toString } }, "ok")
    | none => (st, "bad-op")
  | ["quiescent"] =>
    (st, if res == "all-idle" then "ok" else "bad stuck-with-mutex-free-or-held")
  | _ => (st, "bad-op")

def step (oracleMode : Bool) (st : St) (line : String) : St × String :=
  if oracleMode then
    match line.splitOn " => " with
    | [lhs, res] => oracleStep st (lhs.splitOn " ") res
    | _ => (st, "bad-op")
  else modelStep st (line.splitOn " ")

end Driver.C18
