import NetProto.Model.Frag
import NetProto.Spec.C08
import Driver.Util
namespace Driver.C08
open Model.Frag

def hexN (s : String) : Option (List Nat) := (parseHex s).map (·.map UInt8.toNat)
def toHexN (l : List Nat) : String := toHex (l.map UInt8.ofNat)

structure OId where
  payload : List Nat
  wf : Bool
  seen : List Spec.C08.Seen := []
  strict : Bool := true     -- completeness is only demanded while no eviction/expiry can interfere
deriving Inhabited

structure St where
  frg : Frg := Frg.new 4194304 3145728
  -- oracle: id ↦ datagram under reassembly
  ids : List (Nat × OId) := []
  bigLimits : Bool := true
deriving Inhabited

def showRes : PRes → String
  | .notReady => "notready"
  | .ready d => "ready " ++ toHexN d
  | .failed _ => "notready"     -- repaired code: reassembly failure drops the reassembler, nothing is delivered

def setId (l : List (Nat × OId)) (id : Nat) (o : OId) : List (Nat × OId) :=
  (id, o) :: l.filter (·.1 != id)

def modelStep (st : St) (toks : List String) : St × String :=
  match toks with
  | ["new", hi, lo] =>
    match parseInt hi, parseInt lo with
    | some h, some l => ({ st with frg := Frg.new h l }, "ok")
    | _, _ => (st, "bad-op")
  | ["dgram", id, wf, _] =>
    match id.toNat? with
    | some id => ({ st with ids := setId st.ids id { payload := [], wf := wf == "1" } }, "ok")
    | none => (st, "bad-op")
  | ["proc", id, exp, f, l, more, h] =>
    match id.toNat?, f.toNat?, l.toNat?, hexN h with
    | some id, some f, some l, some d =>
      let (frg, res) := st.frg.process id (exp == "1") f l (more == "1") d
      -- contradictory fragment sets: which of two same-offset fragments with different content wins
      -- depends on container/heap tie-breaking, which is not modelled: compare lengths only
      let wf := ((st.ids.find? (·.1 == id)).map (·.2.wf)).getD true
      let out := match res with
        | .ready dd => if wf then showRes res else s!"ready len={dd.length}"
        | _ => showRes res
      ({ st with frg := frg }, out)
    | _, _, _, _ => (st, "bad-op")
  | _ => (st, "bad-op")

def oracleStep (st : St) (toks : List String) (res : String) : St × String :=
  match toks with
  | ["new", hi, _] =>
    match parseInt hi with
    | some h => ({ st with ids := [], bigLimits := h ≥ 1000000 }, "ok")
    | none => (st, "bad-op")
  | ["dgram", id, wf, h] =>
    match id.toNat?, hexN h with
    | some id, some p => ({ st with ids := setId st.ids id { payload := p, wf := wf == "1", strict := st.bigLimits } }, "ok")
    | _, _ => (st, "bad-op")
  | ["proc", id, exp, f, l, more, h] =>
    match id.toNat?, f.toNat?, l.toNat?, hexN h with
    | some id, some f, some l, some d =>
      if res == "panic" then (st, "bad reassembly-panic") else
      if res.startsWith "ready len=" then (st, "ok") else
      match (st.ids.find? (·.1 == id)).map (·.2) with
      | none => (st, if res.startsWith "ready" then "bad delivered-unknown-datagram" else "ok")
      | some o =>
        if !o.wf then
          -- contradictory / malformed fragment sets: nothing is promised except no crash (C07)
          (st, "ok")
        else
        let more := more == "1"
        if !Spec.C08.wellFormed o.payload f l more d then (st, "bad-op") else
        -- an expired set is not combined with newer fragments
        let seen0 := if exp == "1" then [] else o.seen
        let seen := ⟨f, l, more⟩ :: seen0
        let comp := Spec.C08.complete o.payload.length seen
        if res.startsWith "ready" then
          let got := hexN (res.drop 6).toString
          let st' := { st with ids := setId st.ids id { o with seen := [] } }
          if got != some o.payload then (st', "bad delivered-bytes-differ-from-original")
          else if !comp then (st', "bad delivered-before-complete")
          else (st', "ok")
        else
          if comp && o.strict then ({ st with ids := setId st.ids id { o with seen := [] } }, "bad complete-set-not-delivered")
          else ({ st with ids := setId st.ids id { o with seen := seen } }, "ok")
    | _, _, _, _ => (st, "bad-op")
  | _ => (st, "bad-op")

def step (oracleMode : Bool) (st : St) (line : String) : St × String :=
  if oracleMode then
    match line.splitOn " => " with
    | [lhs, res] => oracleStep st (lhs.splitOn " ") res
    | _ => (st, "bad-op")
  else modelStep st (line.splitOn " ")

end Driver.C08
