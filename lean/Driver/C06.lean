import NetProto.Spec.Frame
import NetProto.Model.Wire
import Driver.Util
/-! C06 driver.  Op line: `frame <net|eth> <ethertype> <hex> k=v ...` (one captured frame with the context the
harness recorded: src_ok, nic_ok, port_ok, mac_ok).
model mode: decode the frame with the RFC decoders, rebuild it with the model's constructors from the decoded
fields, print the rebuilt bytes (the harness compares them with what the stack emitted).
oracle mode: the RFC validator plus the addressing context and the IP identifier rule. -/
namespace Driver.C06
open Spec.Rfc Spec.Frame Model.Wire

def hexN (s : String) : Option (List Nat) := (parseHex s).map (·.map UInt8.toNat)
def toHexN (l : List Nat) : String := toHex (l.map UInt8.ofNat)

def kvs (toks : List String) (k : String) : Option String :=
  (toks.find? (·.startsWith (k ++ "="))).map fun s => (s.drop (k.length + 1)).toString

/-- rebuild a transport message from its decoded fields -/
def rebuildTransport (proto : Nat) (src dst p : List Nat) : List Nat :=
  if proto == 17 then
    match decodeUDP p with
    | some u => udpDatagram src dst u.srcPort u.dstPort (p.drop 8)
    | none => p
  else if proto == 6 then
    match decodeTCP p with
    | some t =>
      let hl := t.dataOffset * 4
      tcpSegment src dst t.srcPort t.dstPort t.seq t.ack t.flags t.window ((p.take hl).drop 20) (p.drop hl)
    | none => p
  else if proto == 1 && src.length == 4 then
    -- ICMPv4 messages the stack originates are echo replies: checksum as `sendPing4` computes it
    if p.length < 6 then p else
    let data := p.drop 4
    let ck := 65535 - Model.Header.checksum ([p.getD 0 0, p.getD 1 0, 0, 0] ++ data.take 2) (Model.Header.checksum (data.drop 2) 0)
    [p.getD 0 0, p.getD 1 0] ++ Model.Header.be16 ck ++ data
  else p      -- ICMPv6 (echo, neighbour discovery): validated, not rebuilt

def rebuildNet (etherType : Nat) (b : List Nat) : List Nat :=
  if etherType == 2048 then
    match decodeIPv4 b with
    | some h => if h.ihl != 5 then b else ipv4Packet h.id h.ttl h.protocol h.src h.dst (rebuildTransport h.protocol h.src h.dst (b.drop 20))
    | none => b
  else if etherType == 34525 then
    match decodeIPv6 b with
    | some h => ipv6Packet h.hopLimit h.nextHeader h.src h.dst (rebuildTransport h.nextHeader h.src h.dst (b.drop 40))
    | none => b
  else if etherType == 2054 then
    match decodeARP b with
    | some a => arpPacket a.op a.sha a.spa a.tha a.tpa ++ b.drop 28
    | none => b
  else b

def rebuild (link : String) (etherType : Nat) (b : List Nat) : List Nat :=
  if link == "eth" then
    match decodeEth b with
    | some e => ethFrame e.src e.dst e.etherType (rebuildNet e.etherType (b.drop 14))
    | none => b
  else rebuildNet etherType b

/-- oracle state: the identifier of the last large IPv4 packet per flow (src, dst, protocol) -/
structure St where
  lastId : List ((List Nat × List Nat × Nat) × Nat) := []
deriving Inhabited

def ctxErrors (toks : List String) : List String :=
  (if kvs toks "src_ok" == some "0" then ["addr.source-not-of-the-interface"] else []) ++
  (if kvs toks "nic_ok" == some "0" then ["addr.left-on-the-wrong-interface"] else []) ++
  (if kvs toks "port_ok" == some "0" then ["addr.ports-of-no-socket"] else []) ++
  (if kvs toks "mac_ok" == some "0" then ["addr.destination-mac-not-the-resolved-one"] else [])

def step (oracleMode : Bool) (st : St) (line : String) : St × String :=
  let line := if oracleMode then (line.splitOn " => ").headD "" else line
  let toks := line.splitOn " "
  match toks with
  | "frame" :: link :: et :: hx :: rest =>
    match et.toNat?, hexN hx with
    | some et, some b =>
      if !oracleMode then (st, toHexN (rebuild link et b))
      else
        let errs := (if link == "eth" then checkEth b else checkNet et b) ++ ctxErrors rest
        -- consecutive large packets of one flow carry different identifiers
        let ip := if link == "eth" then b.drop 14 else b
        let et' := if link == "eth" then (match decodeEth b with | some e => e.etherType | none => 0) else et
        let (st, idErr) : St × List String :=
          if et' == 2048 then
            match decodeIPv4 ip with
            | some h =>
              if h.totalLength > 68 then
                let key := (h.src, h.dst, h.protocol)
                let prev := (st.lastId.find? (·.1 == key)).map (·.2)
                ({ lastId := (key, h.id) :: st.lastId.filter (·.1 != key) },
                 if prev == some h.id then ["ipv4.identifier-repeated"] else [])
              else (st, [])
            | none => (st, [])
          else (st, [])
        let errs := errs ++ idErr
        (st, if errs.isEmpty then "ok" else "bad c06." ++ errs.headD "")
    | _, _ => (st, "bad-op")
  | "reset" :: _ => ({}, if oracleMode then "ok" else "ok")
  | _ => (st, if oracleMode then "ok" else "-")

end Driver.C06
