import NetProto.Model.Neigh
import Driver.Util
namespace Driver.C12
open Model.Neigh

def hexN (s : String) : Option (List Nat) := (parseHex s).map (·.map UInt8.toNat)
def toHexN (l : List Nat) : String := toHex (l.map UInt8.ofNat)

structure OKey where
  nic : Nat
  addr : List Nat
  mac : List Nat
  at_ : Nat
  /-- earliest moment the cache entry behind this mapping can have been created: an answer to a lookup still in
  progress fills the entry that lookup created, and the entry's age counts from its creation -/
  at0 : Nat := 0
  /-- how many cache insertions had happened when this one was made (ring overflow evicts after 512 more) -/
  seq : Nat := 0
deriving Inhabited

/-- learning a mapping: the same link address while the entry is still valid keeps the old expiry -/
def learnKey (known : List OKey) (nic : Nat) (a mac : List Nat) (now age seq : Nat) (early : Nat := now) : List OKey :=
  match known.find? (fun k => k.nic == nic && k.addr == a) with
  | some k =>
    if k.mac == mac && now ≤ k.at_ + age then known
    else ⟨nic, a, mac, now, early, seq⟩ :: known.filter (fun k => !(k.nic == nic && k.addr == a))
  | none => ⟨nic, a, mac, now, early, seq⟩ :: known

/-- when the lookup in progress for a key (if any) began -/
def pendingSince (pending : List (Nat × List Nat × Nat × Nat)) (nic : Nat) (a : List Nat) (now : Nat) : Nat :=
  match pending.find? (fun (n, x, _, _) => n == nic && x == a) with
  | some (_, _, t0, _) => min t0 now
  | none => now

structure OSt where
  now : Nat := 0
  age : Nat := 0
  timeout : Nat := 0
  attempts : Nat := 0
  /-- latest mapping per key with the time it was learned -/
  known : List OKey := []
  /-- unresolved lookups: (nic, addr, time started, requests seen) -/
  pending : List (Nat × List Nat × Nat × Nat) := []
  ours : List (List Nat) := []
  mac : List (Nat × List Nat) := []
  inserts : Nat := 0
  /-- resolutions that failed: (nic, addr, time the lookup that created the entry began) -/
  failedAt : List (Nat × List Nat × Nat) := []
deriving Inhabited

structure St where
  c : Cache := {}
  locals : List (List Nat) := []
  macs : List (Nat × List Nat) := []
  o : OSt := {}
deriving Inhabited

def showOuts (os : List Out) : String :=
  let reqs := os.filterMap fun o => match o with | .request k _ _ => some s!"req:{k.nic}:{toHexN k.addr}" | _ => none
  let reqs := (reqs.toArray.qsort (· < ·)).toList
  let wakes := (os.filterMap fun o => match o with | .wake _ n => some n | _ => none).foldl (· + ·) 0
  " ".intercalate (reqs ++ [s!"wake:{wakes}"])

def modelStep (st : St) (toks : List String) : St × String :=
  let fail : St × String := (st, "model-panic")
  match toks with
  | ["reset", size, age, timeout, attempts] =>
    match size.toNat?, age.toNat?, timeout.toNat?, attempts.toNat? with
    | some s, some a, some t, some n => ({ c := Cache.init s a t n }, "ok")
    | _, _, _, _ => (st, "bad-op")
  | ["local", nic, a, mac] =>
    match nic.toNat?, hexN a, hexN mac with
    | some nic, some a, some mac => ({ st with locals := a :: st.locals, macs := (nic, mac) :: st.macs.filter (·.1 != nic) }, "ok")
    | _, _, _ => (st, "bad-op")
  | ["t", ms] =>
    match ms.toNat? with
    | some t =>
      match st.c.advance t 64 with
      | some (c, o) => ({ st with c := c }, showOuts o)
      | none => fail
    | none => (st, "bad-op")
  | ["get", nic, a, la, pr] =>
    match nic.toNat?, hexN a, hexN la with
    | some nic, some a, some la =>
      let static := if pr == "4" && a == [255, 255, 255, 255] then some [255, 255, 255, 255, 255, 255] else none
      match st.c.get ⟨nic, a⟩ static true la (if pr == "6" then 34525 else 2048) with
      | some (c, r, o) =>
        let rs := match r with | .addr m => "addr:" ++ toHexN m | .wouldBlock => "wouldblock" | .noLinkAddr => "nolink"
        ({ st with c := c }, rs ++ " " ++ showOuts o)
      | none => fail
    | _, _, _ => (st, "bad-op")
  | ["udpw", nic, a, la] =>
    match nic.toNat?, hexN a, hexN la with
    | some nic, some a, some la =>
      match st.c.get ⟨nic, a⟩ none true la 2048 false with
      | some (c, r, o) =>
        let rs := match r with | .addr m => "sent:" ++ toHexN m ++ " ip=1" | .wouldBlock => "wouldblock ip=0" | .noLinkAddr => "nolink ip=0"
        ({ st with c := c }, rs ++ " " ++ showOuts o)
      | none => fail
    | _, _, _ => (st, "bad-op")
  | ["add", nic, a, mac] =>
    match nic.toNat?, hexN a, hexN mac with
    | some nic, some a, some mac =>
      match st.c.add ⟨nic, a⟩ mac with
      | some (c, o) => ({ st with c := c }, showOuts o)
      | none => fail
    | _, _, _ => (st, "bad-op")
  | ["arp", nic, pkt, from_] =>
    match nic.toNat?, hexN pkt, hexN from_ with
    | some nic, some pkt, some fm =>
      let ourMac := ((st.macs.find? (·.1 == nic)).map (·.2)).getD []
      let r := arpHandle pkt (fun a => st.locals.contains a) ourMac fm
      let rep := match r.reply with | some (b, to) => s!"reply={toHexN b}@{toHexN to}" | none => "reply=-"
      match r.learn with
      | some (pa, ma) =>
        match st.c.add ⟨nic, pa⟩ ma with
        | some (c, o) => ({ st with c := c }, rep ++ " " ++ showOuts o)
        | none => fail
      | none => (st, rep ++ " wake:0")
    | _, _, _ => (st, "bad-op")
  | _ => (st, "bad-op")

/-! ### oracle -/

def getField (pre : String) (toks : List String) : Option String :=
  (toks.find? (·.startsWith pre)).map fun s => (s.drop pre.length).toString

def oracleStep (st : St) (toks : List String) (res : String) : St × String :=
  let o := st.o
  let rtoks := res.splitOn " "
  let ret (o' : OSt) (s : String) : St × String := ({ st with o := o' }, s)
  -- requests seen in this output
  let reqs : List (Nat × List Nat) := rtoks.filterMap fun t =>
    match t.splitOn ":" with
    | ["req", n, a] => do let n ← n.toNat?; let a ← hexN a; pure (n, a)
    | _ => none
  let bump (p : List (Nat × List Nat × Nat × Nat)) : List (Nat × List Nat × Nat × Nat) :=
    p.map fun (n, a, t0, cnt) =>
      -- a lookup whose budget window is over has ended; later requests belong to a new resolution
      if o.now > t0 + o.attempts * o.timeout + 40 then (n, a, t0, cnt)
      else (n, a, t0, cnt + (reqs.filter fun r => r.1 == n && r.2 == a).length)
  let pend := bump o.pending
  let over := pend.any fun (_, _, _, cnt) => cnt > o.attempts
  let o := { o with pending := pend }
  if toks.head? == some "reset" then
    match toks with
    | ["reset", _, age, timeout, attempts] =>
      match age.toNat?, timeout.toNat?, attempts.toNat? with
      | some a, some t, some n => ({ st with o := { age := a, timeout := t, attempts := n } }, "ok")
      | _, _, _ => (st, "bad-op")
    | _ => (st, "bad-op")
  else
  if over then ret o "bad c12.more-requests-than-the-retry-budget" else
  match toks with
  | ["reset", _, age, timeout, attempts] =>
    match age.toNat?, timeout.toNat?, attempts.toNat? with
    | some a, some t, some n => ({ st with o := { age := a, timeout := t, attempts := n } }, "ok")
    | _, _, _ => (st, "bad-op")
  | ["local", nic, a, mac] =>
    match nic.toNat?, hexN a, hexN mac with
    | some nic, some a, some mac => ret { o with ours := a :: o.ours, mac := (nic, mac) :: o.mac } "ok"
    | _, _, _ => (st, "bad-op")
  | ["t", ms] =>
    match ms.toNat? with
    | some t => ret { o with now := t } "ok"
    | none => (st, "bad-op")
  | ["add", nic, a, mac] =>
    match nic.toNat?, hexN a, hexN mac with
    | some nic, some a, some mac =>
      ret { o with known := learnKey o.known nic a mac o.now o.age (o.inserts + 1) (pendingSince o.pending nic a o.now), inserts := o.inserts + 1,
                   pending := o.pending.filter fun (n, x, _, _) => !(n == nic && x == a) } "ok"
    | _, _, _ => (st, "bad-op")
  | ["udpw", nic, a, _] =>
    match nic.toNat?, hexN a with
    | some nic, some a =>
      let k := o.known.find? fun k => k.nic == nic && k.addr == a
      let ip := (getField "ip=" rtoks).getD "?"
      match rtoks.head? with
      | some r =>
        if r.startsWith "sent:" then
          let m := hexN (r.drop 5).toString
          match k with
          | none => ret o "bad c12.traffic-sent-to-an-unresolved-next-hop"
          | some k =>
            if some k.mac != m then ret o "bad c12.traffic-sent-to-a-link-address-other-than-the-one-resolved"
            else if o.now > k.at_ + o.age + 40 then ret o "bad c12.entry-reported-after-expiry"
            else ret o (if ip == "1" then "ok" else "bad c12.write-succeeded-without-a-packet")
        else
          -- not resolved yet: nothing but resolution requests may be on the wire
          let started := o.pending.any fun (n, x, t0, _) => n == nic && x == a && o.now ≤ t0 + o.attempts * o.timeout + 40
          let o' := if r == "wouldblock" && !started then
              { o with pending := (nic, a, o.now, (reqs.filter fun q => q.1 == nic && q.2 == a).length) ::
                                    o.pending.filter fun (n, x, _, _) => !(n == nic && x == a) }
            else o
          ret o' (if ip == "0" then "ok" else "bad c12.traffic-on-the-wire-before-resolution-completed")
      | none => (st, "bad-op")
    | _, _ => (st, "bad-op")
  | ["get", nic, a, _, pr] =>
    match nic.toNat?, hexN a with
    | some nic, some a =>
      let k := o.known.find? fun k => k.nic == nic && k.addr == a
      match rtoks.head? with
      | some r =>
        if r.startsWith "addr:" then
          let m := hexN (r.drop 5).toString
          if pr == "4" && a == [255, 255, 255, 255] then ret o "ok" else
          match k with
          | none => ret o "bad c12.entry-reported-for-an-address-never-learned"
          | some k =>
            if some k.mac != m then ret o "bad c12.entry-reported-for-a-different-address-or-stale-link-address"
            else if o.now > k.at_ + o.age + 40 then ret o "bad c12.entry-reported-after-expiry"
            else ret o "ok"
        else if (match k with | some k => o.now + 40 ≤ k.at0 + o.age && o.inserts < k.seq + 500 | none => false) then
          -- a mapping learned and still valid must be used
          ret o "bad c12.learned-mapping-not-used"
        else if r == "wouldblock" then
          -- the same resolution is still running only while its retry budget has not run out
          let started := o.pending.any fun (n, x, t0, _) => n == nic && x == a && o.now ≤ t0 + o.attempts * o.timeout + 40
          ret (if started then o else
            { o with pending := (nic, a, o.now, (reqs.filter fun q => q.1 == nic && q.2 == a).length) ::
                                  o.pending.filter fun (n, x, _, _) => !(n == nic && x == a),
                     failedAt := o.failedAt.filter fun (n, x, _) => !(n == nic && x == a) }) "ok"
        else if r == "nolink" then
          -- only after the whole retry budget was spent without an answer
          let p := o.pending.find? fun (n, x, _, _) => n == nic && x == a
          match p with
          | some (_, _, t0, cnt) =>
            let o' := { o with pending := o.pending.filter fun (n, x, _, _) => !(n == nic && x == a),
                               failedAt := (nic, a, t0) :: o.failedAt.filter fun (n, x, _) => !(n == nic && x == a) }
            if cnt < o.attempts || o.now + 40 < t0 + o.attempts * o.timeout then ret o' "bad c12.resolution-failed-before-the-retry-budget-was-spent"
            else if o.now > t0 + o.age + 40 then ret o' "bad c12.entry-reported-after-expiry"
            else ret o' "ok"
          | none =>
            -- the failure is a cached entry too: it is reported only until it expires, then a lookup asks again
            match o.failedAt.find? fun (n, x, _) => n == nic && x == a with
            | some (_, _, t0) => if o.now > t0 + o.age + 40 then ret o "bad c12.entry-reported-after-expiry" else ret o "ok"
            | none => ret o "ok"
        else ret o "bad c12.lookup-result"
      | none => (st, "bad-op")
    | _, _ => (st, "bad-op")
  | ["arp", nic, pkt, from_] =>
    match nic.toNat?, hexN pkt, hexN from_ with
    | some nic, some pkt, some fm =>
      let valid := pkt.length ≥ 28 && pkt.take 6 == [0, 1, 8, 0, 6, 4]
      let op := pkt.getD 6 0 * 256 + pkt.getD 7 0
      let sha := (pkt.drop 8).take 6
      let spa := (pkt.drop 14).take 4
      let tpa := (pkt.drop 24).take 4
      let ours := o.ours.contains tpa
      let rep := (getField "reply=" rtoks).getD "-"
      let ourMac := ((o.mac.find? (·.1 == nic)).map (·.2)).getD []
      let expectReply := valid && op == 1 && ours
      -- learning: replies, and requests addressed to us
      let learns := valid && (op == 2 || (op == 1 && ours))
      let o' := if learns then { o with known := learnKey o.known nic spa sha o.now o.age (o.inserts + 1) (pendingSince o.pending nic spa o.now), inserts := o.inserts + 1,
                                        pending := o.pending.filter fun (n, x, _, _) => !(n == nic && x == spa),
                                        failedAt := o.failedAt.filter fun (n, x, _) => !(n == nic && x == spa) } else o
      if rep == "-" then ret o' (if expectReply then "bad c12.arp-request-for-own-address-not-answered" else "ok")
      else if !expectReply then ret o' "bad c12.arp-answered-for-foreign-target-or-malformed-request"
      else
        match rep.splitOn "@" with
        | [b, to] =>
          match hexN b, hexN to with
          | some b, some to =>
            let good := b.take 8 == [0, 1, 8, 0, 6, 4, 0, 2] && (b.drop 8).take 6 == ourMac && (b.drop 14).take 4 == tpa &&
              (b.drop 18).take 6 == sha && (b.drop 24).take 4 == spa && to == fm
            ret o' (if good then "ok" else "bad c12.arp-reply-fields-or-addressing")
          | _, _ => ret o' "bad c12.arp-reply-unparsable"
        | _ => ret o' "bad c12.arp-reply-unparsable"
    | _, _, _ => (st, "bad-op")
  | _ => (st, "bad-op")

def step (oracleMode : Bool) (st : St) (line : String) : St × String :=
  if oracleMode then
    match line.splitOn " => " with
    | [lhs, res] => oracleStep st (lhs.splitOn " ") res
    | _ => (st, "bad-op")
  else modelStep st (line.splitOn " ")

end Driver.C12
