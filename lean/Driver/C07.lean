import NetProto.Model.Inbound
import Driver.Util
/-! C07 driver.  `reset ours4=<hex> ours6=<hex>`; `inject4 <view hex>...` / `inject6 <view hex>...`: one packet as the
link endpoint hands it up, in one or more views; `probe` / `ethprobe`: liveness probes; `eth <hex>`: a raw frame
written to the device behind the fd-based endpoint.
model mode prints the predicted reaction: `-` (dropped), `udp=<payload>` (datagram queued on the socket bound to
port 7000), `echo=<reply ICMP message>`, `?` (accepted, reaction not modelled: TCP, fragments, control messages),
`PANIC` if an index expression would be out of range. -/
namespace Driver.C07
open Model.Inbound Model.Buffer

def hexN (s : String) : Option (List Nat) := (parseHex s).map (·.map UInt8.toNat)
def toHexN (l : List Nat) : String := toHex (l.map UInt8.ofNat)

structure St where
  ours4 : List (List Nat) := []
  ours6 : List (List Nat) := []
deriving Inhabited

def mkVV (views : List (List Nat)) : VV :=
  { views := views.map (fun d => { data := d }), size := ((views.map List.length).foldl (· + ·) 0 : Nat) }

def showReaction : Option Reaction → String
  | none => "PANIC"
  | some .panic => "PANIC"
  | some (.drop _) => "-"
  | some (.udp _ _ dport payload) => if dport == 7000 then "udp=" ++ toHexN payload else "-"
  | some (.echo4 msg fl) => match Model.Net.echo4Reply msg fl with | some r => "echo=" ++ toHexN r | none => "-"
  | some (.echo6 src dst msg fl) => match Model.Net.echo6Reply src dst msg fl with | some r => "echo=" ++ toHexN r | none => "-"
  | some (.tcp ..) => "?"
  | some .frag => "?"
  | some (.other _) => "?"

def kvs (toks : List String) (k : String) : Option String :=
  (toks.find? (·.startsWith (k ++ "="))).map fun s => (s.drop (k.length + 1)).toString

def step (oracleMode : Bool) (st : St) (line : String) : St × String :=
  let (line, goOut) := if oracleMode then
      match line.splitOn " => " with
      | [a, b] => (a, b)
      | _ => (line, "")
    else (line, "")
  let toks := line.splitOn " "
  match toks with
  | "reset" :: rest =>
    let a4 := ((kvs rest "ours4").bind hexN).map (fun x => [x]) |>.getD []
    let a6 := ((kvs rest "ours6").bind hexN).map (fun x => [x]) |>.getD []
    ({ ours4 := a4, ours6 := a6 }, "ok")
  | "inject4" :: views =>
    if oracleMode then (st, "ok") else
    match views.mapM hexN with
    | some vs => (st, showReaction (ipv4Inbound st.ours4 (mkVV vs)))
    | none => (st, "bad-op")
  | "inject6" :: views =>
    if oracleMode then (st, "ok") else
    match views.mapM hexN with
    | some vs => (st, showReaction (ipv6Inbound st.ours6 (mkVV vs)))
    | none => (st, "bad-op")
  | ["probe"] =>
    if oracleMode then (st, if goOut == "echo4=1 echo6=1 udp=1 tcp=1" then "ok" else "bad c07.stopped-serving-after-barrage")
    else (st, "echo4=1 echo6=1 udp=1 tcp=1")
  | ["eth", hx] =>
    if oracleMode then (st, "ok") else
    match hexN hx with
    | some f => (st, match ethIntake f with | some (true, _) => "-" | some (false, _) => "STOPPED" | none => "PANIC")
    | none => (st, "bad-op")
  | ["ethprobe"] =>
    if oracleMode then (st, if goOut == "arp=1 echo=1" then "ok" else "bad c07.link-stopped-serving-after-barrage")
    else (st, "arp=1 echo=1")
  | _ => (st, if oracleMode then "ok" else "bad-op")

end Driver.C07
