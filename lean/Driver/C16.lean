import NetProto.Model.Buffer
import Driver.Util
namespace Driver.C16
open Model.Buffer

def hexN (s : String) : Option (List Nat) := (parseHex s).map (·.map UInt8.toNat)
def toHexN (l : List Nat) : String := toHex (l.map UInt8.ofNat)

structure St where
  heap : Heap := {}
  view : View := { data := [] }
  prep : Prep := { buf := [], usedIdx := 0 }
  -- oracle state: spec bytes per object, and whether the object is alias-free
  spec : List (List Nat × Bool) := []
  /-- oracle state of the Prependable: total size of the buffer, the bytes in use (the spec of `View()`), and whether
  it is still within its contract (no negative size was asked for) -/
  pcap : Nat := 0
  pused : List Nat := []
  pclean : Bool := false
deriving Inhabited

def dumpObj (h : Heap) (o : Obj) : String :=
  let vv := h.vvOf o
  let first := match vv.first with | some v => toString v.data.length | none => "nil"
  let spare := match vv.views.getLast? with | some v => v.extra.length | none => 0
  s!"{o.size}:{toHexN vv.toView}:{first}:{spare}"

def dump (h : Heap) : String := " ".intercalate (h.objs.map (dumpObj h))

def parseChunk (s : String) : Option View :=
  match s.splitOn ":" with
  | [d, e] => do let d ← hexN d; let e ← hexN e; pure { data := d, extra := e }
  | _ => none

def showPrep (p : Prep) : String :=
  match p.view with
  | some v => s!"{toHexN v} {p.usedLength}"
  | none => "panic"

def modelStep (st : St) (toks : List String) : St × String :=
  match toks with
  | ["reset"] => ({}, "ok")
  | "new" :: size :: chunks =>
    match chunks.mapM parseChunk, parseInt size with
    | some vs, some sz =>
      let h := st.heap.new vs sz
      ({ st with heap := h }, dump h)
    | _, _ => (st, "bad-op")
  | ["trim", i, n] =>
    match i.toNat?, parseInt n with
    | some i, some n => let h := st.heap.trimFront i n; ({ st with heap := h }, dump h)
    | _, _ => (st, "bad-op")
  | ["cap", i, n] =>
    match i.toNat?, parseInt n with
    | some i, some n => let h := st.heap.capLength i n; ({ st with heap := h }, dump h)
    | _, _ => (st, "bad-op")
  | ["rmfirst", i] =>
    match i.toNat? with
    | some i => let h := st.heap.removeFirst i; ({ st with heap := h }, dump h)
    | _ => (st, "bad-op")
  | ["clone", i] =>
    match i.toNat? with
    | some i => let h := st.heap.clone i; ({ st with heap := h }, dump h)
    | _ => (st, "bad-op")
  | ["copy", i] =>
    match i.toNat? with
    | some i => let h := st.heap.copy i; ({ st with heap := h }, dump h)
    | _ => (st, "bad-op")
  | ["vnew", c] =>
    match parseChunk c with
    | some v => ({ st with view := v }, s!"{toHexN v.data} {v.extra.length}")
    | none => (st, "bad-op")
  | ["pfromview", h] =>
    match hexN h with
    | some b => let p : Prep := { buf := b, usedIdx := 0 }; ({ st with prep := p }, showPrep p)
    | none => (st, "bad-op")
  | [op, n] =>
    match parseInt n with
    | none => (st, "bad-op")
    | some n =>
      let r := if op == "vtrim" then st.view.trimFront n else if op == "vcap" then st.view.capLength n
               else if op == "vreslice" then st.view.reslice n else none
      if op != "vtrim" && op != "vcap" && op != "vreslice" then
        if op == "pnew" then
          let p : Prep := { buf := List.replicate n.toNat 0, usedIdx := n }
          ({ st with prep := p }, showPrep p)
        else (st, "bad-op")
      else match r with
        | some v => ({ st with view := v }, s!"{toHexN v.data} {v.extra.length}")
        | none => (st, "panic")
  | ["prepend", n, fill] =>
    match parseInt n, hexN fill with
    | some n, some f =>
      let (p, r) := st.prep.prepend n f
      let rs := match r with | none => "panic" | some false => "nil" | some true => "ok"
      ({ st with prep := p }, s!"{rs} {showPrep p}")
    | _, _ => (st, "bad-op")
  | _ => (st, "bad-op")

/-! ### oracle: the implementation's dump against the byte-string spec -/

def parseDump (s : String) : List (Int × List Nat × Nat) :=
  (s.splitOn " ").filterMap fun o =>
    match o.splitOn ":" with
    | [sz, h, _, sp] => do
      let sz ← parseInt sz; let b ← hexN h; let sp ← sp.toNat?
      pure (sz, b, sp)
    | _ => none

def setNth {α} (l : List α) (i : Nat) (x : α) : List α := l.set i x

def oracleStep (st : St) (toks : List String) (res : String) : St × String :=
  let objs := parseDump res
  let check (spec : List (List Nat × Bool)) : String :=
    if res == "panic" then "bad vv-panic" else
    if objs.length != spec.length then "bad object-count" else
    let bad := (List.zip spec objs).any fun ((b, clean), (sz, got, _)) => clean && (got != b || sz != (b.length : Int))
    if bad then "bad bytes-differ-from-byte-string" else "ok"
  match toks with
  | ["reset"] => ({}, "ok")
  | "new" :: size :: chunks =>
    match chunks.mapM parseChunk, parseInt size with
    | some vs, some sz =>
      let b := vs.flatMap (·.data)
      -- an object created with an inconsistent size field is outside the spec: mark unclean
      let spec := st.spec ++ [(b, sz == (b.length : Int))]
      ({ st with spec := spec }, check spec)
    | _, _ => (st, "bad-op")
  | ["pnew", n] =>
    match parseInt n with
    | some n => ({ st with pcap := n.toNat, pused := [], pclean := n ≥ 0 },
                 if n ≥ 0 && res != "- 0" && res != " 0" then "bad c16.fresh-prependable-not-empty" else "ok")
    | none => (st, "bad-op")
  | ["pfromview", h] =>
    match hexN h with
    | some b => ({ st with pcap := b.length, pused := b, pclean := true },
                 if res == s!"{toHexN b} {b.length}" then "ok" else "bad c16.prependable-from-view-differs")
    | none => (st, "bad-op")
  | ["prepend", n, fill] =>
    match parseInt n, hexN fill with
    | some n, some f =>
      if !st.pclean then (st, "ok") else
      if n < 0 then ({ st with pclean := false }, "ok") else
      let k := n.toNat
      let room := st.pcap - st.pused.length
      -- the space is reserved exactly when it fits; a refusal changes nothing; nothing ever panics
      let written := (f.take k) ++ List.replicate (k - f.length) 0
      let (want, used') : String × List Nat :=
        if k ≤ room then (s!"ok {toHexN (written ++ st.pused)} {k + st.pused.length}", written ++ st.pused)
        else (s!"nil {toHexN st.pused} {st.pused.length}", st.pused)
      ({ st with pused := used' },
       if res == want then "ok"
       else if (res.splitOn "panic").length > 1 then "bad c16.prepend-panics-or-corrupts-after-a-refusal"
       else if k ≤ room then "bad c16.prepend-reserved-space-or-view-wrong"
       else "bad c16.refused-prepend-changed-the-buffer")
    | _, _ => (st, "bad-op")
  | [op, i, n] =>
    if op != "trim" && op != "cap" then (st, "ok") else
    match i.toNat?, parseInt n with
    | some i, some n =>
      match st.spec[i]? with
      | none => (st, "ok")
      | some (b, c) =>
        let b' := if op == "trim" then Spec.trimFront b n else Spec.capLength b n
        let spec := setNth st.spec i (b', c)
        -- an effective cap leaves no spare capacity behind the last chunk: a capped view cannot be
        -- re-extended to expose bytes beyond the cap
        let spareBad := op == "cap" && c && n ≤ (b.length : Int) &&
          (objs[i]?.map fun o => o.2.2 != 0).getD false
        ({ st with spec := spec }, if spareBad then "bad cap-reextendable" else check spec)
    | _, _ => (st, "bad-op")
  | ["rmfirst", i] =>
    match i.toNat? with
    | some i =>
      match st.spec[i]? with
      | none => (st, "ok")
      | some (b, c) =>
        -- length of the first chunk as the implementation reported it *before* this op
        let fl := (st.heap.objs[i]?.map fun o => (st.heap.viewsOf o).head?.map (·.data.length)).join.getD 0
        let spec := setNth st.spec i (Spec.removeFirst b fl, c)
        ({ st with spec := spec }, check spec)
    | none => (st, "bad-op")
  | ["clone", i] =>
    match i.toNat? with
    | some i =>
      match st.spec[i]? with
      | none => (st, "ok")
      | some (b, _) =>
        -- the clone is alias-free even if the original is not; its bytes are the original's as observed now
        let obs := (objs[i]?.map (·.2.1)).getD b
        let szOk := (objs[i]?.map fun o => o.1 == (o.2.1.length : Int)).getD false
        let spec := st.spec ++ [(obs, szOk)]
        ({ st with spec := spec }, check spec)
    | none => (st, "bad-op")
  | ["copy", i] =>
    match i.toNat? with
    | some i =>
      match st.spec[i]? with
      | none => (st, "ok")
      | some (b, _) =>
        let spec := (setNth st.spec i (b, false)) ++ [(b, false)]
        ({ st with spec := spec }, check spec)
    | none => (st, "bad-op")
  | _ => (st, "ok")

/-- the oracle tracks chunk structure through the model heap (needed for `rmfirst`) -/
def step (oracleMode : Bool) (st : St) (line : String) : St × String :=
  if oracleMode then
    match line.splitOn " => " with
    | [lhs, res] =>
      let toks := lhs.splitOn " "
      let (st1, v) := oracleStep st toks res
      -- advance the chunk-structure shadow
      let (st2, _) := modelStep { st1 with spec := st1.spec } toks
      ({ st2 with spec := st1.spec }, v)
    | _ => (st, "bad-op")
  else modelStep st (line.splitOn " ")

end Driver.C16
