import NetProto.Model.Sleep
import Driver.Util
/-! C19 driver: forced schedules.  `new <n> <nw>`: a sleeper with wakers `0 … nw-1` attached, `n` asserting
goroutines; `fetch <0|1>`: the fetcher calls Fetch(block) and runs to its first schedule point; `done`: the fetcher's
goroutine calls Done(); `fstep`: that goroutine executes the atomic operation it waits at and runs to the next point
(the two operations inside `commitSleep` cannot be separated by the harness and are taken together; so are the steps
of Done's second loop that have no schedule point: taking a waker off the local list and crossing it off);
`call <t> assert|clear <k>`; `astep <t>`.  Output: status of the acting goroutine and of the fetcher. -/
namespace Driver.C19
open Model.Sleep

structure DrvSt where
  ds : Model.Sleep.DSt := {}
  fres : String := "idle"          -- what the fetcher last returned
  ares : List String := []         -- what each asserter last returned
  live : Bool := false

instance : Inhabited DrvSt := ⟨{}⟩

/-- the base machine inside the `Done` layer -/
abbrev DrvSt.s (d : DrvSt) : St := d.ds.base

def DrvSt.setBase (d : DrvSt) (b : St) : DrvSt := { d with ds := { d.ds with base := b } }

def fStatus (d : DrvSt) : String :=
  match d.ds.d with
  | .d1 _ _ => "at:doneLoad"
  | .d2 _ _ => "at:doneCAS"
  | .w1 _ => "at:addLoad"
  | .w2 _ _ => "at:addCAS"
  | .we1 _ => "at:enqLoad"
  | .we2 _ _ => "at:enqCAS"
  | .we3 _ => "at:wakeLoad"
  | .we4 _ _ => "at:wakeCAS"
  | _ =>
  match d.s.f with
  | .idle => d.fres
  | .n2 => "at:nextLoad" | .n3 => "at:nextPrepare" | .n4 => "at:nextRecheck" | .n5 => "at:nextAbort"
  | .park => "at:nextPark" | .cs2 => "at:commit" | .parked => "parked" | .n7 => "at:nextSwap" | .f1 _ => "at:fetchSwap"

def aStatus (d : DrvSt) (t : Nat) : String :=
  match d.s.ts[t]? with
  | none => "bad-thread"
  | some .idle => d.ares.getD t "idle"
  | some (.a1 _) => "at:assertLoad" | some (.a2 _) => "at:assertSwap"
  | some (.e1 _) => "at:enqLoad" | some (.e2 _ _) => "at:enqCAS" | some (.e3 _) => "at:wakeLoad" | some (.e4 _ _) => "at:wakeCAS"
  | some (.c1 _) => "at:clearLoad" | some (.c2 _) => "at:clearCAS"

def recordEv (d : DrvSt) (t : Nat) (ev : Ev) : DrvSt :=
  match ev with
  | .doneReturned => { d with fres := "ret:done" }
  | .addReturned => { d with fres := "ret:added" }
  | .fetched k => { d with fres := s!"ret:{k}" }
  | .fetchNone => { d with fres := "ret:none" }
  | .assertDone => { d with ares := d.ares.set t "ret:done" }
  | .clearDone b => { d with ares := d.ares.set t (if b then "ret:true" else "ret:false") }
  | .none => d

/-- one model action of the fetcher's goroutine: a base step outside Done, a step of Done inside -/
def fAct (d : DrvSt) : DrvSt :=
  let r := if d.ds.d == .off then d.ds.act (.base .fstep) else d.ds.act .dstep
  recordEv { d with ds := r.1 } 0 r.2

/-- the steps without a schedule point: inside `commitSleep`, and in Done's second loop the hand-over of a pulled
waker (the model's `f1` state while pulling) -/
def silent (d : DrvSt) : Bool :=
  d.s.f == .cs2 || (d.ds.d == .pull && (match d.s.f with | .f1 _ => true | _ => false))

def settle (fuel : Nat) (d : DrvSt) : DrvSt :=
  match fuel with
  | 0 => d
  | f + 1 => if silent d then settle f (fAct d) else d

/-- the fetcher's step; inside `commitSleep` keep going until it returns (sleep committed, or aborted) -/
def fstepAll (d : DrvSt) : DrvSt :=
  let wasPark := d.s.f == .park
  let d1 := fAct d
  let d1 := settle 64 d1
  if !wasPark then d1 else
  let rec go (fuel : Nat) (d : DrvSt) : DrvSt :=
    match fuel with
    | 0 => d
    | f + 1 =>
      if d.s.f == .cs2 || d.s.f == .park then go f (fAct d)
      else d
  go 8 d1

/-! ### oracle: judges the real outcomes against the statement of the property (no model involved) -/

structure OSt where
  n : Nat := 0
  started : List Nat := []                 -- wakers with an Assert call begun since they were last fetched / cleared
  completed : List Nat := []               -- wakers with a completed, unconsumed, uncleared assertion
  ops : List (Nat × String × Nat × Bool) := []   -- per asserter: thread, kind, waker, disturbed (fetch/clear of it since the call)
  busy : List Nat := []                    -- asserters currently inside a call
  fstat : String := "idle"
  tstat : List (Nat × String) := []        -- last status seen of each asserter
  doneRet : Bool := false                  -- Done has returned
  doneBusy : List Nat := []                -- asserters that were inside a call when Done returned
  nw : Nat := 0
  detached : List Nat := []                -- wakers Done has detached and AddWaker has not attached again
  adding : Option Nat := none              -- AddWaker in progress on this waker

def kvOf (out : String) (k : String) : Option String :=
  ((out.splitOn " ").find? (·.startsWith (k ++ "="))).map fun x => (x.drop (k.length + 1)).toString

def ostep (o : OSt) (op out : String) : OSt × String :=
  let toks := op.splitOn " "
  -- 1. bookkeeping of calls
  let o : OSt := match toks with
    | ["new", n, nw] => { n := n.toNat?.getD 0, nw := nw.toNat?.getD 0 }
    | ["add", k] => { o with adding := k.toNat? }
    | ["call", t, what, k] =>
      match t.toNat?, k.toNat? with
      | some t, some k =>
        let o := { o with ops := (t, what, k, false) :: o.ops.filter (·.1 != t), busy := t :: o.busy.filter (· != t) }
        if what == "assert" then { o with started := k :: o.started }
        else { o with completed := o.completed.filter (· != k),
                      ops := o.ops.map fun x => if x.2.2.1 == k && x.1 != t then (x.1, x.2.1, x.2.2.1, true) else x }
      | _, _ => o
    | _ => o
  -- 2. the acting asserter returned?
  let actor : Option Nat := match toks with
    | ["call", t, _, _] => t.toNat?
    | ["astep", t] => t.toNat?
    | _ => none
  let tstat := kvOf out "t"
  let o : OSt := match actor, tstat with
    | some t, some st =>
      if st.startsWith "ret:" then
        let o := { o with busy := o.busy.filter (· != t) }
        match o.ops.find? (·.1 == t) with
        | some (_, "assert", k, disturbed) => if st == "ret:done" && !disturbed then { o with completed := k :: o.completed.filter (· != k) } else o
        | some (_, "clear", k, _) =>
          if st == "ret:true" then
            let inProgress := o.ops.any fun x => x.2.1 == "assert" && x.2.2.1 == k && o.busy.contains x.1
            -- an Assert(k) that overlaps this Clear may be the one that was just cancelled: its return proves nothing
            { o with started := (if inProgress then [k] else []) ++ o.started.filter (· != k), completed := o.completed.filter (· != k),
                     ops := o.ops.map fun x => if x.2.2.1 == k && x.1 != t then (x.1, x.2.1, x.2.2.1, true) else x }
          else o
        | _ => o
      else o
    | _, _ => o
  -- 3. the fetcher
  let fnew := (kvOf out "f").getD o.fstat
  let returned := toks == ["fstep"] && fnew.startsWith "ret:" && fnew != "ret:done" && fnew != "ret:added"
  -- an assertion of a detached waker is nobody's to fetch
  let o := { o with completed := o.completed.filter (fun k => !o.detached.contains k) }
  let (o, verdict) : OSt × String :=
    if returned then
      if fnew == "ret:none" then
        -- a completed Assert(k) whose push is owned by another goroutine's Assert(k) still in flight is the known
        -- corner of the lock-free design; any other miss is a violation
        let owned := o.completed.all fun k => o.ops.any fun x => x.2.1 == "assert" && x.2.2.1 == k && o.busy.contains x.1
        (o, if o.completed.isEmpty then "ok"
            else if owned then "bad c19.nonblocking-fetch-misses-assertion-whose-push-is-in-flight"
            else "bad c19.nonblocking-fetch-missed-a-completed-assertion")
      else
        match (fnew.drop 4).toString.toNat? with
        | some k =>
          let bad := !o.started.contains k
          -- an Assert(k) call still in progress may yet place its assertion: it stays "started"
          let inProgress := o.ops.any fun x => x.2.1 == "assert" && x.2.2.1 == k && o.busy.contains x.1
          ({ o with started := (if inProgress then [k] else []) ++ o.started.filter (· != k), completed := o.completed.filter (· != k),
                    ops := o.ops.map fun x => if x.2.2.1 == k then (x.1, x.2.1, x.2.2.1, true) else x },
           if bad then "bad c19.fetched-a-waker-nobody-asserted" else "ok")
        | none => (o, "bad c19.unreadable-fetch-result")
    else (o, "ok")
  let prevF := o.fstat
  let o := { o with fstat := fnew }
  -- 3b. Done
  let prevT : Option String := match actor with | some t => (o.tstat.find? (·.1 == t)).map (·.2) | none => none
  let pushing (st : String) : Bool := st == "at:enqLoad" || st == "at:enqCAS"
  let wakingSt (st : String) : Bool := st == "at:wakeLoad" || st == "at:wakeCAS"
  let o : OSt := match actor, tstat with
    | some t, some st => { o with tstat := (t, st) :: o.tstat.filter (·.1 != t) }
    | _, _ => o
  let doneNow := fnew == "ret:done" && prevF != "ret:done" && (toks == ["fstep"] || toks == ["done"])
  let addedNow := fnew == "ret:added" && prevF != "ret:added" && (toks == ["fstep"] || toks.head? == some "add")
  let actorWaker : Option Nat := match actor with | some t => (o.ops.find? (·.1 == t)).map (·.2.2.1) | none => none
  let onDetached := match actorWaker with | some k => o.detached.contains k | none => false
  let verdict :=
    if verdict != "ok" then verdict
    else if doneNow && o.tstat.any (fun x => pushing x.2) then "bad c19.done-returned-while-a-push-is-in-flight"
    else if onDetached && (match tstat with | some st => pushing st | none => false) then "bad c19.waker-queued-after-done"
    else if onDetached && toks.head? == some "astep" && (match prevT with | some st => wakingSt st | none => false) then
      -- a pusher that was still in its wake loop when Done returned reads (or clears) the sleeper's word afterwards
      "bad c19.waker-touches-sleeper-after-done"
    else verdict
  let o := if doneNow then { o with doneRet := true, doneBusy := o.busy, detached := List.range o.nw } else o
  let o := if addedNow then { o with detached := o.detached.filter (fun k => some k != o.adding), adding := none } else o
  -- 4. lost wake-up: the fetcher sleeps, nobody is in the middle of a call, a completed assertion is pending
  let verdict := if verdict == "ok" && fnew == "parked" && o.busy.isEmpty && !o.completed.isEmpty then "bad c19.lost-wakeup" else verdict
  let verdict := if verdict == "ok" && (fnew == "timeout" || tstat == some "timeout") then "bad c19.goroutine-stuck" else verdict
  (o, verdict)

structure Both where
  d : DrvSt := {}
  o : OSt := {}

instance : Inhabited Both := ⟨{}⟩

def mstep (d : DrvSt) (line : String) : DrvSt × String :=
  match line.splitOn " " with
  | ["new", n, nw] =>
    match n.toNat?, nw.toNat? with
    | some n, some nw => ({ ds := Model.Sleep.DSt.init n nw, ares := List.replicate n "idle", live := true }, "ok")
    | _, _ => (d, "bad-op")
  | ["fetch", b] =>
    let d' := { d with ds := (d.ds.act (.base (.fetch (b == "1")))).1 }
    (d', "f=" ++ fStatus d')
  | ["done"] =>
    let r := d.ds.act .done
    let d' := settle 64 (recordEv { d with ds := r.1 } 0 r.2)
    (d', "f=" ++ fStatus d')
  | ["add", k] =>
    match k.toNat? with
    | some k =>
      let r := d.ds.act (.add k)
      let d' := recordEv { d with ds := r.1 } 0 r.2
      (d', "f=" ++ fStatus d')
    | none => (d, "bad-op")
  | ["fstep"] =>
    let d' := fstepAll d
    (d', "f=" ++ fStatus d')
  | ["call", t, what, k] =>
    match t.toNat?, k.toNat? with
    | some t, some k =>
      let c : Call := if what == "assert" then .assert k else .clear k
      let d' := { d with ds := (d.ds.act (.base (.call t c))).1 }
      (d', s!"t={aStatus d' t} f={fStatus d'}")
    | _, _ => (d, "bad-op")
  | ["astep", t] =>
    match t.toNat? with
    | some t =>
      let r := d.ds.act (.base (.astep t))
      let d' := recordEv { d with ds := r.1 } t r.2
      (d', s!"t={aStatus d' t} f={fStatus d'}")
    | none => (d, "bad-op")
  | _ => (d, "bad-op")

def step (oracleMode : Bool) (b : Both) (line : String) : Both × String :=
  if oracleMode then
    match line.splitOn " => " with
    | [op, out] => let r := ostep b.o op out; ({ b with o := r.1 }, r.2)
    | _ => (b, "ok")
  else
    let r := mstep b.d line
    ({ b with d := r.1 }, r.2)

end Driver.C19
