namespace Driver

def b2s (b : Bool) : String := if b then "true" else "false"

def hexDigit (c : Char) : Option Nat :=
  if '0' ≤ c && c ≤ '9' then some (c.toNat - '0'.toNat)
  else if 'a' ≤ c && c ≤ 'f' then some (c.toNat - 'a'.toNat + 10)
  else if 'A' ≤ c && c ≤ 'F' then some (c.toNat - 'A'.toNat + 10)
  else none

/-- "-" is the empty byte string -/
def parseHex (s : String) : Option (List UInt8) :=
  if s == "-" then some [] else
  let rec go : List Char → List UInt8 → Option (List UInt8)
    | [], acc => some acc.reverse
    | [_], _ => none
    | a :: b :: t, acc =>
      match hexDigit a, hexDigit b with
      | some x, some y => go t (UInt8.ofNat (x * 16 + y) :: acc)
      | _, _ => none
  go s.toList []

def hexChar (n : Nat) : Char :=
  if n < 10 then Char.ofNat (n + '0'.toNat) else Char.ofNat (n - 10 + 'a'.toNat)

def toHex (l : List UInt8) : String :=
  if l.isEmpty then "-" else
  String.ofList (l.flatMap fun b => [hexChar (b.toNat / 16), hexChar (b.toNat % 16)])

def parseNats (l : List String) : Option (List Nat) := l.mapM String.toNat?

def parseInt (s : String) : Option Int :=
  if s.startsWith "-" then (s.drop 1).toNat?.map (fun n => - (n : Int)) else s.toNat?.map (fun n => (n : Int))

end Driver
