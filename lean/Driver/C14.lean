import NetProto.Model.Seqnum
import NetProto.Spec.C14
import Driver.Util
namespace Driver.C14
open Model.Seqnum

def bv (n : Nat) : BitVec 32 := BitVec.ofNat 32 n

def model (op : String) (a : List Nat) : String :=
  match op, a with
  | "LessThan", [v, w] => b2s (LessThan (bv v) (bv w))
  | "LessThanEq", [v, w] => b2s (LessThanEq (bv v) (bv w))
  | "InRange", [v, a, b] => b2s (InRange (bv v) (bv a) (bv b))
  | "InWindow", [v, f, s] => b2s (InWindow (bv v) (bv f) (bv s))
  | "Overlap", [a, b, x, y] => b2s (Overlap (bv a) (bv b) (bv x) (bv y))
  | "Add", [v, s] => toString (Add (bv v) (bv s)).toNat
  | "Size", [v, w] => toString (SizeOf (bv v) (bv w)).toNat
  | "UpdateForward", [v, s] => toString (UpdateForward (bv v) (bv s)).toNat
  | _, _ => "bad-op"

/-- line → (model output) ; in oracle mode the line is `op args => result` -/
def step (oracleMode : Bool) (line : String) : String :=
  if oracleMode then
    match line.splitOn " => " with
    | [lhs, res] =>
      match lhs.splitOn " " with
      | op :: args => match parseNats args with
        | some a => Spec.C14.oracle op a res
        | none => "bad-op"
      | _ => "bad-op"
    | _ => "bad-op"
  else
    match line.splitOn " " with
    | op :: args => match parseNats args with
      | some a => model op a
      | none => "bad-op"
    | _ => "bad-op"

end Driver.C14
