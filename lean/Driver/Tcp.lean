import NetProto.Model.TcpStack
import Driver.Util
namespace Driver.Tcp
open Model.Tcp

def hexN (s : String) : Option (List Nat) := (parseHex s).map (·.map UInt8.toNat)
def toHexN (l : List Nat) : String := toHex (l.map UInt8.ofNat)

def flagStr (f : Nat) : String :=
  let s := String.ofList ((["F", "S", "R", "P", "A", "U"].zipIdx.filter fun (_, i) => f &&& (1 <<< i) != 0).map fun (c, _) => c.get 0)
  if s.isEmpty then "-" else s

def parseFlags (s : String) : Nat :=
  s.toList.foldl (fun acc c =>
    acc ||| (match c with | 'F' => 1 | 'S' => 2 | 'R' => 4 | 'P' => 8 | 'A' => 16 | 'U' => 32 | _ => 0)) 0

def fnv (b : List Nat) : Nat := b.foldl (fun h c => ((h ^^^ c) * 16777619) % 4294967296) 2166136261

def hex8 (n : Nat) : String :=
  let d := Nat.toDigits 16 n
  String.ofList (List.replicate (8 - d.length) '0' ++ d)

def digest (b : List Nat) : String :=
  if b.length ≤ 24 then toHexN b else toHexN (b.take 8) ++ ".." ++ hex8 (fnv b)

def showSeg (s : OutSeg) : String :=
  s!"[{flagStr s.flags} seq={s.seq} ack={s.ack} wnd={s.wnd} opt={toHexN s.opts} len={s.data.length} d={digest s.data}]"

def showSegs (l : List OutSeg) : String := if l.isEmpty then "-" else " ".intercalate (l.map showSeg)

def kv (toks : List String) (k : String) : Option Nat :=
  (toks.find? (·.startsWith (k ++ "="))).bind fun s => (s.drop (k.length + 1)).toString.toNat?

def modelStep (st : St) (toks : List String) : St × String :=
  match toks with
  | "tcp.reset" :: rest =>
    let c : Cfg := { mtu := (kv rest "mtu").getD 1500, sack := (kv rest "sack").getD 0 == 1,
                     rcvBuf := (match kv rest "rcvbuf" with | some 0 => 1048576 | some n => n | none => 1048576),
                     sndBuf := (match kv rest "sndbuf" with | some 0 => 1048576 | some n => n | none => 1048576) }
    ({ cfg := c }, "ok")
  | ["tcp.listen", _, _] => ({ st with listening := true }, "-")
  | ["tcp.cookiemode", v] => ({ st with cookieMode := v == "1" }, "ok")
  | ["tcp.connect", i, issS] =>
    match i.toNat?, (issS.drop 4).toString.toNat? with
    | some i, some iss =>
      let (st', out) := connectStep st i iss
      (st', "started " ++ showSegs out)
    | _, _ => (st, "bad-op")
  | "seg" :: sp :: dp :: fl :: sq :: ak :: wn :: op :: da :: rest =>
    match sp.toNat?, dp.toNat?, sq.toNat?, ak.toNat?, wn.toNat?, hexN op, hexN da with
    | some sp, some dp, some sq, some ak, some wn, some op, some da =>
      let seg : InSeg := ⟨parseFlags fl, sq, ak, wn, op, da⟩
      let learnedIss := (kv rest "iss").getD 0
      let (st', out) := segStep st sp dp seg learnedIss
      (st', showSegs out)
    | _, _, _, _, _, _, _ => (st, "bad-op")
  | ["tcp.accept"] =>
    match acceptStep st with
    | none => (st, "operation-would-block -")
    | some (st', i, out) => (st', s!"ok:{i} {showSegs out}")
  | ["tcp.write", i, h] =>
    match i.toNat?, hexN h with
    | some i, some d =>
      match writeStep st i d with
      | some (st', r, out) =>
        let rs := match r with
          | .ok n => if n < d.length then s!"n={n}:operation-would-block" else s!"n={n}"
          | .error m => s!"n=0:{m}"
        (st', rs ++ " " ++ showSegs out)
      | none => (st, "bad-op")
    | _, _ => (st, "bad-op")
  | ["tcp.read", i] =>
    match i.toNat? with
    | some i =>
      match readStep st i with
      | some (st', r, out) =>
        let rs := match r with | .ok d => "data=" ++ toHexN d | .error m => m
        (st', rs ++ " " ++ showSegs out)
      | none => (st, "bad-op")
    | none => (st, "bad-op")
  | ["tcp.shutdown", i, how] =>
    match i.toNat? with
    | some i =>
      if how == "w" then
        match shutdownStep st i with
        | some (st', true, out) => (st', "ok " ++ showSegs out)
        | some (st', false, _) => (st', "endpoint-not-connected -")
        | none => (st, "bad-op")
      else
        match st.eps[i]? with
        | some (_, e) => if e.state != .connected then (st, "endpoint-not-connected -") else (st, "ok -")
        | none => (st, "bad-op")
    | none => (st, "bad-op")
  | "rto" :: i :: _ =>
    match i.toNat? with
    | some i =>
      match timerStep st i with
      | some (st', out) => (st', showSegs out)
      | none => (st, "bad-op")
    | none => (st, "bad-op")
  | _ => (st, "bad-op")

/-- which part of the stack handled the op: `h` listener / handshake / no socket, `a` accept, `e` an
established endpoint. The check compares a per-property projection of the outputs chosen by this tag. -/
def tagOf (st : St) (toks : List String) : String :=
  match toks with
  | "seg" :: sp :: dp :: _ =>
    if dp != "8080" then "h" else
    match sp.toNat? with
    | some sp => if (st.eps.find? (fun (p, _) => p == sp && sp != 0)).isSome || (st.acceptQ.find? (·.1 == sp)).isSome then "e" else "h"
    | none => "h"
  | "tcp.accept" :: _ => "a"
  | "tcp.write" :: _ => "e"
  | "tcp.read" :: _ => "e"
  | "tcp.shutdown" :: _ => "e"
  | "rto" :: _ => "e"
  | _ => "h"

def step (oracleMode : Bool) (st : St) (line : String) : St × String :=
  if oracleMode then (st, "ok")
  else
    let toks := line.splitOn " "
    let (st', out) := modelStep st toks
    (st', tagOf st toks ++ "|" ++ out)

end Driver.Tcp
