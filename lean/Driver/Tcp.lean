import NetProto.Model.Tcp
import Driver.Util
namespace Driver.Tcp
open Model.Tcp

def hexN (s : String) : Option (List Nat) := (parseHex s).map (·.map UInt8.toNat)
def toHexN (l : List Nat) : String := toHex (l.map UInt8.ofNat)

def flagStr (f : Nat) : String :=
  let s := String.ofList ((["F", "S", "R", "P", "A", "U"].zipIdx.filter fun (_, i) => f &&& (1 <<< i) != 0).map fun (c, _) => c.get 0)
  if s.isEmpty then "-" else s

def parseFlags (s : String) : Nat :=
  s.toList.foldl (fun acc c =>
    acc ||| (match c with | 'F' => 1 | 'S' => 2 | 'R' => 4 | 'P' => 8 | 'A' => 16 | 'U' => 32 | _ => 0)) 0

def fnv (b : List Nat) : Nat := b.foldl (fun h c => ((h ^^^ c) * 16777619) % 4294967296) 2166136261

def hex8 (n : Nat) : String :=
  let d := Nat.toDigits 16 n
  String.ofList (List.replicate (8 - d.length) '0' ++ d)

def digest (b : List Nat) : String :=
  if b.length ≤ 24 then toHexN b else toHexN (b.take 8) ++ ".." ++ hex8 (fnv b)

def showSeg (s : OutSeg) : String :=
  s!"[{flagStr s.flags} seq={s.seq} ack={s.ack} wnd={s.wnd} opt={toHexN s.opts} len={s.data.length} d={digest s.data}]"

def showSegs (l : List OutSeg) : String := if l.isEmpty then "-" else " ".intercalate (l.map showSeg)

structure Cfg where
  mtu : Nat := 1500
  sack : Bool := false
  rcvBuf : Nat := 1048576
  sndBuf : Nat := 1048576
deriving Inhabited

structure St where
  cfg : Cfg := {}
  listening : Bool := false
  cookieMode : Bool := false
  /-- handshakes in progress, keyed by the peer's port -/
  hs : List (Nat × Hs) := []
  /-- cookies issued statelessly: (peer port, irs, cookie, mss index) -/
  cookies : List (Nat × Nat × Nat × Nat) := []
  /-- completed passive opens not yet picked up: (peer port, endpoint, segments queued for it, queue bytes used) -/
  acceptQ : List (Nat × Ep × List InSeg × Nat) := []
  eps : List (Nat × Ep) := []       -- (peer port, endpoint); index = endpoint id
  /-- an active open in progress: endpoint id reserved, handshake -/
  active : Option (Nat × Hs) := none
deriving Inhabited

def mssTable : List Nat := [536, 1300, 1440, 1460]
def encodeMSS (mss : Nat) : Nat := if mss ≥ 1460 then 3 else if mss ≥ 1440 then 2 else if mss ≥ 1300 then 1 else 0

def kv (toks : List String) (k : String) : Option Nat :=
  (toks.find? (·.startsWith (k ++ "="))).bind fun s => (s.drop (k.length + 1)).toString.toNat?

def setEp (st : St) (i : Nat) (p : Nat) (e : Ep) : St := { st with eps := st.eps.set i (p, e) }

def modelStep (st : St) (toks : List String) : St × String :=
  match toks with
  | "tcp.reset" :: rest =>
    let c : Cfg := { mtu := (kv rest "mtu").getD 1500, sack := (kv rest "sack").getD 0 == 1,
                     rcvBuf := (match kv rest "rcvbuf" with | some 0 => 1048576 | some n => n | none => 1048576),
                     sndBuf := (match kv rest "sndbuf" with | some 0 => 1048576 | some n => n | none => 1048576) }
    ({ cfg := c }, "ok")
  | ["tcp.listen", _, _] => ({ st with listening := true }, "-")
  | ["tcp.cookiemode", v] => ({ st with cookieMode := v == "1" }, "ok")
  | ["tcp.connect", i, issS] =>
    match i.toNat?, (issS.drop 4).toString.toNat? with
    | some i, some iss =>
      let h : Hs := { state := .synSent, active := true, flags := fSyn, iss := iss, rcvWnd := st.cfg.rcvBuf,
                      rcvWndScale := findWndScale st.cfg.rcvBuf, sackEnabled := st.cfg.sack, mtu := st.cfg.mtu }
      let pad := List.replicate (i + 1 - st.eps.length) (0, (default : Ep))
      ({ st with active := some (i, h), eps := st.eps ++ pad }, "started " ++ showSegs [h.synSegment])
    | _, _ => (st, "bad-op")
  | "seg" :: sp :: dp :: fl :: sq :: ak :: wn :: op :: da :: rest =>
    match sp.toNat?, dp.toNat?, sq.toNat?, ak.toNat?, wn.toNat?, hexN op, hexN da with
    | some sp, some _, some sq, some ak, some wn, some op, some da =>
      let seg : InSeg := ⟨parseFlags fl, sq, ak, wn, op, da⟩
      let learnedIss := (kv rest "iss").getD 0
      if dp != "8080" then
        match replyWithReset seg with
        | some r => (st, showSegs [r])
        | none => (st, "-")
      else
      -- 1. a connected endpoint for this peer port
      match st.eps.zipIdx.find? (fun ((p, e), _) => p == sp && sp != 0) with
      | some ((_, e), i) =>
        if e.done then
          -- the endpoint stays registered until Close(): once its loop has ended, segments queue up unread
          (st, "-")
        else
          let (e', out) := handleSegment e seg
          (setEp st i sp e', showSegs out)
      | none =>
        -- 2. an active open in progress
        match st.active with
        | some (i, h) =>
          let (h', out) := h.handle seg learnedIss
          if h'.state == .completed then
            let e := h'.toEp st.cfg.rcvBuf st.cfg.sndBuf
            ({ (setEp st i sp e) with active := none }, showSegs out)
          else if h'.state == .failed then
            -- the endpoint stays registered in the error state
            let e : Ep := { (default : Ep) with state := .error, hardError := h'.err, done := true }
            ({ (setEp st i sp e) with active := none }, showSegs out)
          else ({ st with active := some (i, h') }, showSegs out)
        | none =>
          -- 3. a passive handshake in progress for this peer port
          match st.hs.find? (·.1 == sp) with
          | some (_, h) =>
            let (h', out) := h.handle seg learnedIss
            let others := st.hs.filter (·.1 != sp)
            if h'.state == .completed then
              let e := newEp h'.iss (subS h'.ackNum 1) h'.synWnd h'.mss h'.sndWndScale h'.rcvWnd h'.effectiveRcvWndScale
                h'.mtu st.cfg.rcvBuf st.cfg.sndBuf h'.sendTSOk h'.recentTS h'.sackPermitted
              ({ st with hs := others, acceptQ := st.acceptQ ++ [(sp, e, [], 0)] }, showSegs out)
            else if h'.state == .failed then ({ st with hs := others }, showSegs out)
            else ({ st with hs := others ++ [(sp, h')] }, showSegs out)
          | none =>
            -- 4. the listener
            if st.listening && (st.acceptQ.find? (·.1 == sp)).isNone then
              if seg.flags == fSyn then
                let so := Model.Header.parseSynOptions seg.opts false
                if !st.cookieMode then
                  let h : Hs := { state := .synRcvd, active := false, flags := fSyn ||| fAck, iss := learnedIss, ackNum := addS seg.seq 1,
                                  rcvWnd := st.cfg.rcvBuf, sndWnd := seg.wnd, synWnd := seg.wnd, mss := so.mss, sndWndScale := so.ws,
                                  rcvWndScale := findWndScale st.cfg.rcvBuf, sendTSOk := so.ts, recentTS := so.tsVal,
                                  sackPermitted := st.cfg.sack && so.sackPermitted, sackEnabled := st.cfg.sack, mtu := st.cfg.mtu }
                  -- the sender of the new endpoint was created from the SYN: its window is the SYN's
                  ({ st with hs := st.hs ++ [(sp, h)] }, showSegs [h.synSegment])
                else
                  let o : OutSeg := ⟨fSyn ||| fAck, learnedIss, addS seg.seq 1, min st.cfg.rcvBuf 65535,
                    makeSynOptions (st.cfg.mtu - 40) (-1) so.ts 0 so.tsVal false, []⟩
                  ({ st with cookies := (sp, seg.seq, learnedIss, encodeMSS so.mss) :: st.cookies }, showSegs [o])
              else if seg.flags == fAck then
                -- the cookie carries the MSS index additively in its low bits and only "index < 4" is checked:
                -- an acknowledgement k beyond (or before) the cookie with 0 <= index + k < 4 is accepted as a
                -- cookie for another MSS
                match st.cookies.find? (fun (p, irs, ck, mi) => p == sp && addS irs 1 == seg.seq &&
                    (mi + sizeS (addS ck 1) seg.ack) % 4294967296 < 4) with
                | some (_, irs, ck, mi) =>
                  let popts := Model.Header.parseTCPOptions seg.opts
                  let k := sizeS (addS ck 1) seg.ack
                  let e := newEp (subS seg.ack 1) irs seg.wnd (mssTable.getD ((mi + k) % 4294967296) 536) (-1) st.cfg.rcvBuf 0 st.cfg.mtu st.cfg.rcvBuf st.cfg.sndBuf
                    popts.ts popts.tsVal false
                  ({ st with acceptQ := st.acceptQ ++ [(sp, e, [], 0)], cookies := st.cookies.filter (·.1 != sp) }, "-")
                | none =>
                  match replyWithReset seg with
                  | some r => (st, showSegs [r])
                  | none => (st, "-")
              else if has seg.flags fAck && !has seg.flags fRst then
                match replyWithReset seg with
                | some r => (st, showSegs [r])
                | none => (st, "-")
              else (st, "-")
            else if (st.acceptQ.find? (·.1 == sp)).isSome then
              -- delivered but not yet picked up by Accept(): its loop is not running, segments wait in its
              -- queue (bounded by twice the receive buffer, each segment counted with its header)
              ({ st with acceptQ := st.acceptQ.map fun (p, e, q, used) =>
                  if p == sp && used < 2 * e.rcvBufSize then (p, e, q ++ [seg], used + seg.data.length + 20)
                  else (p, e, q, used) }, "-")
            else
              match replyWithReset seg with
              | some r => (st, showSegs [r])
              | none => (st, "-")
    | _, _, _, _, _, _, _ => (st, "bad-op")
  | ["tcp.accept"] =>
    match st.acceptQ with
    | [] => (st, "operation-would-block -")
    | (p, e, q, _) :: rest =>
      -- the loop starts now and drains what was queued meanwhile
      let (e', out) := handleSegments e q
      ({ st with acceptQ := rest, eps := st.eps ++ [(p, e')] }, s!"ok:{st.eps.length} {showSegs out}")
  | ["tcp.write", i, h] =>
    match i.toNat?, hexN h with
    | some i, some d =>
      match st.eps[i]? with
      | some (p, e) =>
        let (e', r, out) := appWrite e d
        let rs := match r with
          | .ok n => if n < d.length then s!"n={n}:operation-would-block" else s!"n={n}"
          | .error m => s!"n=0:{m}"
        (setEp st i p e', rs ++ " " ++ showSegs out)
      | none => (st, "bad-op")
    | _, _ => (st, "bad-op")
  | ["tcp.read", i] =>
    match i.toNat? with
    | some i =>
      match st.eps[i]? with
      | some (p, e) =>
        let (e', r, out) := appRead e
        let rs := match r with | .ok d => "data=" ++ toHexN d | .error m => m
        (setEp st i p e', rs ++ " " ++ showSegs out)
      | none => (st, "bad-op")
    | none => (st, "bad-op")
  | ["tcp.shutdown", i, how] =>
    match i.toNat? with
    | some i =>
      match st.eps[i]? with
      | some (p, e) =>
        if e.state != .connected then (st, "endpoint-not-connected -") else
        if how == "w" then
          let (e', out) := appShutdownWrite e
          (setEp st i p e', "ok " ++ showSegs out)
        else (st, "ok -")
      | none => (st, "bad-op")
    | none => (st, "bad-op")
  | ["rto", i] =>
    match i.toNat? with
    | some i =>
      match st.eps[i]? with
      | some (p, e) => let (e', out) := timerEvent e; (setEp st i p e', showSegs out)
      | none => (st, "bad-op")
    | none => (st, "bad-op")
  | _ => (st, "bad-op")

def step (oracleMode : Bool) (st : St) (line : String) : St × String :=
  if oracleMode then (st, "ok")
  else modelStep st (line.splitOn " ")

end Driver.Tcp
