import NetProto.Model.Header
import NetProto.Spec.Rfc
import Driver.Util
namespace Driver.C15
open Model.Header

def hexN (s : String) : Option (List Nat) := (parseHex s).map (·.map UInt8.toNat)
def toHexN (l : List Nat) : String := toHex (l.map UInt8.ofNat)

def showSyn (o : SynOpts) : String :=
  s!"{o.mss} {o.ws} {b2s o.ts} {o.tsVal} {o.tsEcr} {b2s o.sackPermitted}"
def showBlocks : Option (List (Nat × Nat)) → String
  | none => "nil"
  | some l => "[" ++ ",".intercalate (l.map fun (s, e) => s!"{s}-{e}") ++ "]"
def showTcp (o : TCPOpts) : String := s!"{b2s o.ts} {o.tsVal} {o.tsEcr} {showBlocks o.sack}"

def ipv4Getters (b : List Nat) (pkt : Nat) : String :=
  s!"{ipv4HeaderLength b} {ipv4ID b} {ipv4Flags b} {ipv4FragmentOffset b} {ipv4TotalLength b} {ipv4Checksum b} {ipv4PayloadLength b} {b2s (ipv4IsValid b pkt)} {match ipv4CalculateChecksum b with | some c => toString c | none => "panic"}"

def pairsOf : List Nat → List (Nat × Nat)
  | a :: b :: t => (a, b) :: pairsOf t
  | _ => []

/-- build SYN options the way `makeSynOptions` chains the header encoders -/
def buildSyn (mss : Nat) (ws : Int) (ts : Bool) (tv te : Nat) (sp : Bool) : List Nat :=
  let buf := List.replicate 40 0
  let (b, n) := encodeMSS mss buf
  let off := n
  let (b, off) := if ws ≥ 0 then
      let (t, n) := encodeWS ws.toNat (b.drop off); (b.take off ++ t, off + n) else (b, off)
  let (b, off) := if ts then
      let (t, n) := encodeTS tv te (b.drop off); (b.take off ++ t, off + n) else (b, off)
  let (b, off) := if sp then
      let (t, n) := encodeSACKPermitted (b.drop off); (b.take off ++ t, off + n) else (b, off)
  let (b, p) := addPadding b off
  b.take (off + p)

def buildOpts (ts : Bool) (tv te : Nat) (blocks : List (Nat × Nat)) : List Nat :=
  let buf := List.replicate 60 0
  let (b, off) := if ts then
      let (t, n) := encodeTS tv te buf
      let (t2, n2) := (setAt t n [1], 1)
      let (t3, n3) := (setAt t2 (n + n2) [1], 1)
      (t3, n + n2 + n3) else (buf, 0)
  let (b, off) := if blocks.length > 0 then
      let b1 := setAt b off [1, 1]
      let (t, n) := encodeSACKBlocks blocks (b1.drop (off + 2))
      (b1.take (off + 2) ++ t, off + 2 + n) else (b, off)
  let (b, p) := addPadding b off
  b.take (off + p)

def model (toks : List String) : Option String := do
  match toks with
  | ["cksum", h, i] => let b ← hexN h; let i ← i.toNat?; pure (toString (checksum b i))
  | ["combine", a, b] => let a ← a.toNat?; let b ← b.toNat?; pure (toString (combine a b))
  | ["pseudo", p, s, d] => let p ← p.toNat?; let s ← hexN s; let d ← hexN d; pure (toString (pseudoHeaderChecksum p s d))
  | ["ipv4enc", old, ihl, tos, tl, id, fl, fo, ttl, pr, ck, src, dst] =>
    let old ← hexN old; let src ← hexN src; let dst ← hexN dst
    let n ← parseNats [ihl, tos, tl, id, fl, fo, ttl, pr, ck]
    match n with
    | [ihl, tos, tl, id, fl, fo, ttl, pr, ck] =>
      let b := ipv4Encode old ⟨ihl, tos, tl, id, fl, fo, ttl, pr, ck, src, dst⟩
      pure s!"{toHexN b} {ipv4Getters b b.length}"
    | _ => none
  | ["ipv4get", h, pkt] => let b ← hexN h; let p ← pkt.toNat?; pure (ipv4Getters b p)
  | ["ipv4part", h, p, tl] => let b ← hexN h; let p ← p.toNat?; let tl ← tl.toNat?; pure (toHexN (ipv4EncodePartial b p tl))
  | ["tcpenc", old, sp, dp, sq, ak, d, fl, w, ck, u] =>
    let old ← hexN old
    let n ← parseNats [sp, dp, sq, ak, d, fl, w, ck, u]
    match n with
    | [sp, dp, sq, ak, d, fl, w, ck, u] =>
      let b := tcpEncode old ⟨sp, dp, sq, ak, d, fl, w, ck, u⟩
      pure s!"{toHexN b} {tcpDataOffset b}"
    | _ => none
  | ["tcppart", h, p, l, sq, ak, fl, w] =>
    let b ← hexN h
    let n ← parseNats [p, l, sq, ak, fl, w]
    match n with
    | [p, l, sq, ak, fl, w] => pure (toHexN (tcpEncodePartial b p l sq ak fl w))
    | _ => none
  | ["tcpcalc", h, p, l] => let b ← hexN h; let p ← p.toNat?; let l ← l.toNat?; pure (toString (tcpCalculateChecksum b p l))
  | ["udpenc", old, sp, dp, l, ck] =>
    let old ← hexN old
    let n ← parseNats [sp, dp, l, ck]
    match n with
    | [sp, dp, l, ck] => pure (toHexN (udpEncode old ⟨sp, dp, l, ck⟩))
    | _ => none
  | ["udpcalc", h, p, l] => let b ← hexN h; let p ← p.toNat?; let l ← l.toNat?; pure (toString (udpCalculateChecksum b p l))
  | ["ethenc", old, s, d, ty] => let old ← hexN old; let s ← hexN s; let d ← hexN d; let ty ← ty.toNat?; pure (toHexN (ethEncode old s d ty))
  | ["ipv6enc", old, tc, fl, pl, nh, hl, s, d] =>
    let old ← hexN old; let s ← hexN s; let d ← hexN d
    let n ← parseNats [tc, fl, pl, nh, hl]
    match n with
    | [tc, fl, pl, nh, hl] => pure (toHexN (ipv6Encode old ⟨tc, fl, pl, nh, hl, s, d⟩))
    | _ => none
  | ["ipv6valid", h, pkt] => let b ← hexN h; let p ← parseInt pkt; pure (b2s (ipv6IsValid b p))
  | ["arp", old, op, sha, spa, tha, tpa] =>
    let old ← hexN old; let op ← op.toNat?; let sha ← hexN sha; let spa ← hexN spa; let tha ← hexN tha; let tpa ← hexN tpa
    let b := arpBuild old op sha spa tha tpa
    pure s!"{toHexN b} {b2s (arpIsValid b)}"
  | ["arpvalid", h] => let b ← hexN h; pure (b2s (arpIsValid b))
  | ["synopts", h, a] => let b ← hexN h; pure (showSyn (parseSynOptions b (a == "true")))
  | ["tcpopts", h] => let b ← hexN h; pure (showTcp (parseTCPOptions b))
  | ["synrt", mss, ws, ts, tv, te, sp] =>
    let mss ← mss.toNat?; let ws ← parseInt ws; let tv ← tv.toNat?; let te ← te.toNat?
    let b := buildSyn mss ws (ts == "true") tv te (sp == "true")
    pure s!"{toHexN b} {showSyn (parseSynOptions b true)}"
  | "optrt" :: ts :: tv :: te :: rest =>
    let tv ← tv.toNat?; let te ← te.toNat?; let r ← parseNats rest
    let b := buildOpts (ts == "true") tv te (pairsOf r)
    pure s!"{toHexN b} {showTcp (parseTCPOptions b)}"
  | "sack" :: buflen :: rest =>
    let n ← buflen.toNat?; let r ← parseNats rest
    let (b, k) := encodeSACKBlocks (pairsOf r) (List.replicate n 0)
    pure s!"{toHexN b} {k}"
  | ["pad", off] => let o ← off.toNat?; pure (toString (padCount o))
  | _ => none

/-! ### oracle: independent RFC decoding of what the implementation produced -/
open Spec.Rfc in
def oracle (toks : List String) (res : List String) : Option String := do
  let chk (c : Bool) (cls : String) : String := if c then "ok" else "bad " ++ cls
  match toks, res with
  | ["cksum", h, i], [r] =>
    let b ← hexN h; let i ← i.toNat?; let r ← r.toNat?
    -- RFC 1071 sum; 0 and 0xffff are the two representations of zero: the code must return the
    -- canonical fold (which is 0 only when every word and init are 0)
    pure (chk (r == ocSum b i) "checksum-rfc1071")
  | ["combine", a, b], [r] => let a ← a.toNat?; let b ← b.toNat?; let r ← r.toNat?; pure (chk (r == ocAdd a b) "combine")
  | ["pseudo", p, s, d], [r] =>
    let p ← p.toNat?; let s ← hexN s; let d ← hexN d; let r ← r.toNat?
    -- pseudo header without length: src ++ dst ++ [0, proto]; addresses have even length
    pure (chk (r == ocSum (s ++ d ++ [0, p % 256]) 0) "pseudo-header")
  | ["ipv4enc", _, ihl, tos, tl, id, fl, fo, ttl, pr, ck, src, dst], newh :: getters =>
    let src ← hexN src; let dst ← hexN dst; let b ← hexN newh
    let n ← parseNats [ihl, tos, tl, id, fl, fo, ttl, pr, ck]
    let g ← parseNats (getters.take 7)
    match n, decodeIPv4 b, g with
    | [ihl, tos, tl, id, fl, fo, ttl, pr, ck], some d, [ghl, gid, gfl, gfo, gtl, gck, _] =>
      let wire := d.version == 4 && d.ihl == ihl / 4 % 16 && d.tos == tos && d.totalLength == tl && d.id == id &&
        d.flags == fl % 8 && d.fragOffset == fo / 8 && d.ttl == ttl && d.protocol == pr && d.checksum == ck &&
        d.src == src.take 4 && d.dst == dst.take 4
      let acc := ghl == d.ihl * 4 && gid == id && gfl == fl % 8 && gfo == fo / 8 * 8 && gtl == tl && gck == ck
      pure (if !wire then "bad ipv4-encode-layout" else if !acc then "bad ipv4-accessor" else "ok")
    | _, _, _ => none
  | ["ipv4part", h, p, tl], [newh] =>
    -- after EncodePartial the header verifies iff partial was the sum of the rest of the header
    let old ← hexN h; let p ← p.toNat?; let tl ← tl.toNat?; let b ← hexN newh
    let d ← decodeIPv4 b
    let rest := ocSum (setAt (setAt (old.take 20) 2 [0, 0]) 10 [0, 0]) 0
    pure (if d.totalLength != tl then "bad ipv4-partial-length"
          else if p == rest && old.length ≥ 20 && (old.getD 0 0) % 16 == 5 then chk (verifies (b.take 20) 0) "ipv4-partial-checksum" else "ok")
  | ["tcppart", h, p, l, sq, ak, fl, w], [newh] =>
    -- EncodePartial stores the complement of the one's-complement sum of: the partial sum it was given, the length,
    -- the flags as a 16-bit word, sequence and acknowledgement number and the window - so that these, together
    -- with the stored checksum, always sum to 0xffff (whatever was partial, the segment then verifies iff partial
    -- was the sum of everything else); and it writes exactly those fields
    let old ← hexN h; let b ← hexN newh
    let n ← parseNats [p, l, sq, ak, fl, w]
    match n with
    | [p, l, sq, ak, fl, w] =>
      if old.length < 20 then pure "ok" else
      let w16 (x : Nat) : List Nat := [x / 256 % 256, x % 256]
      let w32 (x : Nat) : List Nat := [x / 16777216 % 256, x / 65536 % 256, x / 256 % 256, x % 256]
      let fields := (b.drop 4).take 4 == w32 sq && (b.drop 8).take 4 == w32 ak && b.getD 13 0 == fl % 256 &&
        (b.drop 14).take 2 == w16 w && b.take 4 == old.take 4 && b.getD 12 0 == old.getD 12 0 && b.drop 18 == old.drop 18
      let total := ocSum (w16 l ++ [0, fl % 256] ++ w32 sq ++ w32 ak ++ w16 w ++ (b.drop 16).take 2) (p % 65536)
      pure (if !fields then "bad tcp-partial-fields" else chk (total == 65535) "tcp-partial-checksum")
    | _ => none
  | ["tcpenc", _, sp, dp, sq, ak, d, fl, w, ck, u], [newh, gdo] =>
    let b ← hexN newh; let gdo ← gdo.toNat?
    let n ← parseNats [sp, dp, sq, ak, d, fl, w, ck, u]
    match n, decodeTCP b with
    | [sp, dp, sq, ak, d, fl, w, ck, u], some t =>
      let wire := t.srcPort == sp && t.dstPort == dp && t.seq == sq && t.ack == ak && t.dataOffset == d / 4 % 16 &&
        t.reserved == 0 && t.flags == fl && t.window == w && t.checksum == ck && t.urgent == u
      pure (if !wire then "bad tcp-encode-layout" else chk (gdo == t.dataOffset * 4) "tcp-accessor")
    | _, _ => none
  | ["udpenc", _, sp, dp, l, ck], [newh] =>
    let b ← hexN newh
    let n ← parseNats [sp, dp, l, ck]
    match n, decodeUDP b with
    | [sp, dp, l, ck], some u => pure (chk (u.srcPort == sp && u.dstPort == dp && u.length == l && u.checksum == ck) "udp-encode-layout")
    | _, _ => none
  | ["ethenc", _, s, d, ty], [newh] =>
    let b ← hexN newh; let s ← hexN s; let d ← hexN d; let ty ← ty.toNat?
    let e ← decodeEth b
    pure (chk (e.src == s.take 6 && e.dst == d.take 6 && e.etherType == ty) "eth-encode-layout")
  | ["ipv6enc", _, tc, fl, pl, nh, hl, s, d], [newh] =>
    let b ← hexN newh; let s ← hexN s; let d ← hexN d
    let n ← parseNats [tc, fl, pl, nh, hl]
    match n, decodeIPv6 b with
    | [tc, fl, pl, nh, hl], some v =>
      pure (chk (v.version == 6 && v.trafficClass == tc && v.flowLabel == fl % 1048576 && v.payloadLength == pl &&
        v.nextHeader == nh && v.hopLimit == hl && v.src == s.take 16 && v.dst == d.take 16) "ipv6-encode-layout")
    | _, _ => none
  | ["arp", _, op, sha, spa, tha, tpa], [newh, valid] =>
    let b ← hexN newh; let op ← op.toNat?; let sha ← hexN sha; let spa ← hexN spa; let tha ← hexN tha; let tpa ← hexN tpa
    let a ← decodeARP b
    pure (chk (a.htype == 1 && a.ptype == 0x0800 && a.hlen == 6 && a.plen == 4 && a.op == op && a.sha == sha.take 6 &&
      a.spa == spa.take 4 && a.tha == tha.take 6 && a.tpa == tpa.take 4 && valid == "true") "arp-layout")
  | ["synrt", mss, ws, ts, tv, te, sp], h :: parsed =>
    let b ← hexN h
    let mssn ← mss.toNat?; let wsi ← parseInt ws
    -- recovered record = encoded record (mss 0 is not encodable: parser keeps 536; ws clamps at 14)
    let expMss := if mssn % 65536 == 0 then "536" else toString (mssn % 65536)
    let expWs := if wsi > 14 then "14" else ws
    let tsb := ts == "true"
    let exp := [expMss, expWs, ts, (if tsb then tv else "0"), (if tsb then te else "0"), sp]
    let wf := b.length % 4 == 0 && (decodeOptions b).isSome
    -- MSS 0 is outside the encoders' domain (the stack never emits it; the parser rejects the list)
    pure (if !wf then "bad syn-options-malformed" else if mssn % 65536 == 0 then "ok"
          else chk (parsed == exp) "syn-options-roundtrip")
  | "optrt" :: ts :: tv :: te :: rest, h :: parsed =>
    let b ← hexN h; let r ← parseNats rest
    let tsb := ts == "true"
    let blocks := (pairsOf r).take 4
    let exp := [ts, (if tsb then tv else "0"), (if tsb then te else "0"),
                showBlocks (if blocks.isEmpty then none else some blocks)]
    let wf := b.length % 4 == 0 && (decodeOptions b).isSome
    pure (if !wf then "bad tcp-options-malformed" else chk (parsed == exp) "tcp-options-roundtrip")
  | "sack" :: buflen :: rest, [h, k] =>
    let n ← buflen.toNat?; let r ← parseNats rest; let b ← hexN h; let k ← k.toNat?
    let l := min (min (pairsOf r).length 4) ((n - 2) / 8)
    if l == 0 then pure (chk (k == 0) "sack-encode") else
    match decodeOptions (b.take k) with
    | some [Opt.sack bl] => pure (chk (bl == (pairsOf r).take l && k == l * 8 + 2) "sack-encode")
    | _ => pure "bad sack-encode"
  | ["tcpopts", h], parsed =>
    -- a list that is well formed under the strict RFC grammar, with at most one timestamp and one SACK option:
    -- the parser must recover exactly those
    let b ← hexN h
    match decodeOptions b with
    | none => pure "ok"
    | some opts =>
      let tss := opts.filterMap (fun o => match o with | .ts v e => some (v, e) | _ => none)
      let sacks := opts.filterMap (fun o => match o with | .sack bl => some bl | _ => none)
      if tss.length > 1 || sacks.length > 1 then pure "ok" else
      let (tsb, tv, te) := match tss with | [(v, e)] => ("true", toString v, toString e) | _ => ("false", "0", "0")
      let blocks : Option (List (Nat × Nat)) := match sacks with | [bl] => some (bl.take 4) | _ => none
      let exp := [tsb, tv, te, showBlocks blocks]
      pure (chk (parsed == exp) "tcp-options-wellformed-list-not-recovered")
  | ["pad", off], [r] => let o ← off.toNat?; let r ← r.toNat?; pure (chk ((o + r) % 4 == 0 && r < 4) "padding")
  | _, r => pure (if r == ["panic"] then "bad parser-panic" else "ok")

def step (oracleMode : Bool) (line : String) : String :=
  if oracleMode then
    match line.splitOn " => " with
    | [lhs, res] => (oracle (lhs.splitOn " ") (res.splitOn " ")).getD "bad-op"
    | _ => "bad-op"
  else (model (line.splitOn " ")).getD "bad-op"

end Driver.C15
