import NetProto.Model.Ports
import NetProto.Spec.C10
import Driver.Util
namespace Driver.C10
open Model.Ports

def hexN (s : String) : Option (List Nat) := (parseHex s).map (·.map UInt8.toNat)
def netsOf (s : String) : Option (List Nat) := (s.splitOn ",").mapM String.toNat?

/-- acceptance predicates for the ephemeral search: `only:P`, `none`, `all`, `ge:P`, `mod:K:R` -/
def acceptOf (s : String) : Option (Nat → Bool) :=
  match s.splitOn ":" with
  | ["only", p] => p.toNat?.map fun p => fun x => x == p
  | ["none"] => some fun _ => false
  | ["all"] => some fun _ => true
  | ["ge", p] => p.toNat?.map fun p => fun x => x ≥ p
  | ["le", p] => p.toNat?.map fun p => fun x => x ≤ p
  | ["mod", k, r] => do let k ← k.toNat?; let r ← r.toNat?; pure fun x => x % k == r
  | _ => none

/-- socket-level pass: what the oracle remembers of one socket -/
structure OSock where
  idx : Nat
  kind : String
  live : Bool := true
  /-- an explicit Bind that succeeded: networks (4 / 6), address class ("" = wildcard, "a4", "a6"), port -/
  bound : Option (List Nat × String × Nat) := none
  connected : Bool := false
deriving Inhabited

structure St where
  pm : PM := []
  live : List Spec.C10.Res := []
  socks : List OSock := []
deriving Inhabited

def isTcp (kind : String) : Bool := kind.startsWith "tcp"

/-- the networks and the address class a successful Bind reserves, by socket kind and address class of the call -/
def bindSpec (kind cls : String) : Option (List Nat × String) :=
  let six := kind.endsWith "6" || kind.endsWith "6only"
  let only := kind.endsWith "only"
  if !six then (if cls == "any" then some ([4], "") else if cls == "a4" then some ([4], "a4") else none)
  else if only then (if cls == "any" then some ([6], "") else if cls == "a6" then some ([6], "a6") else none)
  else match cls with
    | "any" => some ([6, 4], "")
    | "a6" => some ([6], "a6")
    | "m0" => some ([4], "")       -- the v4-mapped wildcard is an IPv4-only binding
    | "m4" => some ([4], "a4")
    | _ => none

/-- does this socket hold a reservation that conflicts with (net, transport, address class, port)?  A TCP socket gives
its reservation up when it connects. -/
def holds (s : OSock) (net : Nat) (tcp : Bool) (cls : String) (port : Nat) : Bool :=
  s.live && isTcp s.kind == tcp && !(tcp && s.connected) &&
  match s.bound with
  | some (nets, a, p) => p == port && nets.contains net && (a == "" || cls == "" || a == cls)
  | none => false

def portOf (res : String) : Nat :=
  match (res.splitOn "port=") with
  | [_, p] => p.toNat?.getD 0
  | _ => 0

def modelStep (st : St) (toks : List String) : St × String :=
  match toks with
  | ["reset"] => ({}, "ok")
  | ["avail", nets, t, a, p] =>
    match netsOf nets, t.toNat?, hexN a, p.toNat? with
    | some ns, some t, some a, some p => (st, b2s (isAvailable st.pm ns t a p))
    | _, _, _, _ => (st, "bad-op")
  | ["reserve", nets, t, a, p] =>
    match netsOf nets, t.toNat?, hexN a, p.toNat? with
    | some ns, some t, some a, some p =>
      let (T, ok) := reserveSpecific st.pm ns t a p
      ({ st with pm := T }, if ok then toString p else "err")
    | _, _, _, _ => (st, "bad-op")
  | ["reserve0", nets, t, a, got] =>
    -- ephemeral reservation: the port the implementation chose is an input (its random offset is
    -- not observable); the model must be able to reserve exactly that port, or agree that none is free
    match netsOf nets, t.toNat?, hexN a with
    | some ns, some t, some a =>
      if got == "err" then
        -- model: no port in the range is reservable
        let anyFree := (List.range count).any fun i => isAvailable st.pm ns t a (16000 + i)
        (st, if anyFree then "model-finds-a-free-port" else "err")
      else match got.toNat? with
        | some p =>
          let (T, ok) := reserveSpecific st.pm ns t a p
          if ok && 16000 ≤ p && p ≤ 65535 then ({ st with pm := T }, toString p) else (st, "model-rejects")
        | none => (st, "bad-op")
    | _, _, _ => (st, "bad-op")
  | ["release", nets, t, a, p] =>
    match netsOf nets, t.toNat?, hexN a, p.toNat? with
    | some ns, some t, some a, some p => ({ st with pm := release st.pm ns t a p }, "ok")
    | _, _, _, _ => (st, "bad-op")
  | ["pick", off, acc] =>
    match off.toNat?, acceptOf acc with
    | some off, some f =>
      match pick (BitVec.ofNat 16 off) (fun p => f p.toNat) with
      | some (p, n) => (st, s!"{p.toNat} {n}")
      | none => (st, s!"none {count}")
    | _, _ => (st, "bad-op")
  | "s.reset" :: _ => (st, "?")
  | "s.new" :: _ => (st, "?")
  | "s.bind" :: _ => (st, "?")
  | "s.connect" :: _ => (st, "?")
  | "s.listen" :: _ => (st, "?")
  | "s.close" :: _ => (st, "?")
  | "s.avail" :: _ => (st, "?")
  | _ => (st, "bad-op")

open Spec.C10 in
def oracleStep (st : St) (toks : List String) (res : String) : St × String :=
  match toks with
  | ["reset"] => ({}, "ok")
  | ["avail", nets, t, a, p] =>
    match netsOf nets, t.toNat?, hexN a, p.toNat? with
    | some ns, some t, some a, some p => (st, if res == b2s (free st.live ns t a p) then "ok" else "bad availability-query")
    | _, _, _, _ => (st, "bad-op")
  | ["reserve", nets, t, a, p] =>
    match netsOf nets, t.toNat?, hexN a, p.toNat? with
    | some ns, some t, some a, some p =>
      let fr := free st.live ns t a p
      if res == "err" then (st, if fr then "bad reserve-refused-though-free" else "ok")
      else if res == toString p then
        if fr then ({ st with live := add st.live ns t a p }, "ok") else (st, "bad conflicting-reservations-both-live")
      else (st, "bad reserve-wrong-port")
    | _, _, _, _ => (st, "bad-op")
  | ["reserve0", nets, t, a, _] =>
    match netsOf nets, t.toNat?, hexN a with
    | some ns, some t, some a =>
      if res == "err" then
        let anyFree := (List.range (lastPort - firstEphemeral + 1)).any fun i => free st.live ns t a (firstEphemeral + i)
        (st, if anyFree then "bad ephemeral-fails-though-port-free" else "ok")
      else match res.toNat? with
        | some p =>
          if p < firstEphemeral || p > lastPort then (st, "bad ephemeral-out-of-range")
          else if !free st.live ns t a p then (st, "bad ephemeral-port-was-not-free")
          else ({ st with live := add st.live ns t a p }, "ok")
        | none => (st, "bad ephemeral-result")
    | _, _, _ => (st, "bad-op")
  | ["release", nets, t, a, p] =>
    match netsOf nets, t.toNat?, hexN a, p.toNat? with
    | some ns, some t, some a, some p => ({ st with live := remove st.live ns t a p }, "ok")
    | _, _, _, _ => (st, "bad-op")
  | ["pick", _, acc] =>
    match acceptOf acc with
    | some f =>
      match res.splitOn " " with
      | [r, _] =>
        if r == "none" then
          let anyOk := (List.range (lastPort - firstEphemeral + 1)).any fun i => f (firstEphemeral + i)
          (st, if anyOk then "bad ephemeral-fails-though-port-free" else "ok")
        else match r.toNat? with
          | some p => (st, if p < firstEphemeral || p > lastPort then "bad ephemeral-out-of-range"
                           else if !f p then "bad ephemeral-port-was-not-free" else "ok")
          | none => (st, "bad ephemeral-result")
      | _ => (st, "bad ephemeral-result")
    | none => (st, "bad-op")
  -- socket-level pass: what the property says about Bind / Connect / Close of sockets
  | ["s.reset"] => ({ st with socks := [] }, "ok")
  | ["s.new", i, kind] => ({ st with socks := st.socks ++ [{ idx := i.toNat?.getD 0, kind := kind }] }, "ok")
  | ["s.bind", i, cls, _] =>
    let i := i.toNat?.getD 0
    if !res.startsWith "ok " then (st, "ok") else
    match st.socks.find? (·.idx == i), (st.socks.find? (·.idx == i)).bind (fun s => bindSpec s.kind cls) with
    | some s, some (nets, a) =>
      let p := portOf res
      -- two live bindings that conflict never both succeed
      let clash := st.socks.any fun o => o.idx != i && nets.any fun n => holds o n (isTcp s.kind) a p
      let s' := { s with bound := some (nets, a, p) }
      ({ st with socks := st.socks.map fun o => if o.idx == i then s' else o },
       if clash then "bad c10.conflicting-socket-bindings-both-succeeded" else "ok")
    | _, _ => (st, "ok")
  | ["s.connect", i, _, _] =>
    let i := i.toNat?.getD 0
    if !res.startsWith "ok " then (st, "ok") else
    ({ st with socks := st.socks.map fun o => if o.idx == i then { o with connected := true } else o }, "ok")
  | ["s.listen", _] => (st, "ok")
  | ["s.close", i] =>
    let i := i.toNat?.getD 0
    ({ st with socks := st.socks.map fun o => if o.idx == i then { o with live := false } else o }, "ok")
  | ["s.avail", net, tr, cls, p] =>
    match net.toNat?, p.toNat? with
    | some net, some p =>
      let a := if cls == "any" then "" else cls
      let held := st.socks.any fun o => holds o net (tr == "tcp") a p
      -- a port some live binding holds is not available (closing one socket frees nothing another one holds); a port
      -- of the explicit universe that nobody holds is available again (a released reservation becomes available);
      -- ephemeral ports are asked about only when every socket has been closed
      let noneLive := st.socks.all fun o => !o.live
      if held then (st, if res == "false" then "ok" else "bad c10.port-held-by-a-live-socket-reported-available")
      else if p == 5000 || p == 5001 || noneLive then
        (st, if res == "true" then "ok" else "bad c10.port-still-reserved-after-every-holder-closed")
      else (st, "ok")
    | _, _ => (st, "bad-op")
  | _ => (st, "bad-op")

def step (oracleMode : Bool) (st : St) (line : String) : St × String :=
  if oracleMode then
    match line.splitOn " => " with
    | [lhs, res] => oracleStep st (lhs.splitOn " ") res
    | _ => (st, "bad-op")
  else modelStep st (line.splitOn " ")

end Driver.C10
