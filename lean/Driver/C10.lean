import NetProto.Model.Ports
import NetProto.Spec.C10
import Driver.Util
namespace Driver.C10
open Model.Ports

def hexN (s : String) : Option (List Nat) := (parseHex s).map (·.map UInt8.toNat)
def netsOf (s : String) : Option (List Nat) := (s.splitOn ",").mapM String.toNat?

/-- acceptance predicates for the ephemeral search: `only:P`, `none`, `all`, `ge:P`, `mod:K:R` -/
def acceptOf (s : String) : Option (Nat → Bool) :=
  match s.splitOn ":" with
  | ["only", p] => p.toNat?.map fun p => fun x => x == p
  | ["none"] => some fun _ => false
  | ["all"] => some fun _ => true
  | ["ge", p] => p.toNat?.map fun p => fun x => x ≥ p
  | ["le", p] => p.toNat?.map fun p => fun x => x ≤ p
  | ["mod", k, r] => do let k ← k.toNat?; let r ← r.toNat?; pure fun x => x % k == r
  | _ => none

structure St where
  pm : PM := []
  live : List Spec.C10.Res := []
deriving Inhabited

def modelStep (st : St) (toks : List String) : St × String :=
  match toks with
  | ["reset"] => ({}, "ok")
  | ["avail", nets, t, a, p] =>
    match netsOf nets, t.toNat?, hexN a, p.toNat? with
    | some ns, some t, some a, some p => (st, b2s (isAvailable st.pm ns t a p))
    | _, _, _, _ => (st, "bad-op")
  | ["reserve", nets, t, a, p] =>
    match netsOf nets, t.toNat?, hexN a, p.toNat? with
    | some ns, some t, some a, some p =>
      let (T, ok) := reserveSpecific st.pm ns t a p
      ({ st with pm := T }, if ok then toString p else "err")
    | _, _, _, _ => (st, "bad-op")
  | ["reserve0", nets, t, a, got] =>
    -- ephemeral reservation: the port the implementation chose is an input (its random offset is
    -- not observable); the model must be able to reserve exactly that port, or agree that none is free
    match netsOf nets, t.toNat?, hexN a with
    | some ns, some t, some a =>
      if got == "err" then
        -- model: no port in the range is reservable
        let anyFree := (List.range count).any fun i => isAvailable st.pm ns t a (16000 + i)
        (st, if anyFree then "model-finds-a-free-port" else "err")
      else match got.toNat? with
        | some p =>
          let (T, ok) := reserveSpecific st.pm ns t a p
          if ok && 16000 ≤ p && p ≤ 65535 then ({ st with pm := T }, toString p) else (st, "model-rejects")
        | none => (st, "bad-op")
    | _, _, _ => (st, "bad-op")
  | ["release", nets, t, a, p] =>
    match netsOf nets, t.toNat?, hexN a, p.toNat? with
    | some ns, some t, some a, some p => ({ st with pm := release st.pm ns t a p }, "ok")
    | _, _, _, _ => (st, "bad-op")
  | ["pick", off, acc] =>
    match off.toNat?, acceptOf acc with
    | some off, some f =>
      match pick (BitVec.ofNat 16 off) (fun p => f p.toNat) with
      | some (p, n) => (st, s!"{p.toNat} {n}")
      | none => (st, s!"none {count}")
    | _, _ => (st, "bad-op")
  | _ => (st, "bad-op")

open Spec.C10 in
def oracleStep (st : St) (toks : List String) (res : String) : St × String :=
  match toks with
  | ["reset"] => ({}, "ok")
  | ["avail", nets, t, a, p] =>
    match netsOf nets, t.toNat?, hexN a, p.toNat? with
    | some ns, some t, some a, some p => (st, if res == b2s (free st.live ns t a p) then "ok" else "bad availability-query")
    | _, _, _, _ => (st, "bad-op")
  | ["reserve", nets, t, a, p] =>
    match netsOf nets, t.toNat?, hexN a, p.toNat? with
    | some ns, some t, some a, some p =>
      let fr := free st.live ns t a p
      if res == "err" then (st, if fr then "bad reserve-refused-though-free" else "ok")
      else if res == toString p then
        if fr then ({ st with live := add st.live ns t a p }, "ok") else (st, "bad conflicting-reservations-both-live")
      else (st, "bad reserve-wrong-port")
    | _, _, _, _ => (st, "bad-op")
  | ["reserve0", nets, t, a, _] =>
    match netsOf nets, t.toNat?, hexN a with
    | some ns, some t, some a =>
      if res == "err" then
        let anyFree := (List.range (lastPort - firstEphemeral + 1)).any fun i => free st.live ns t a (firstEphemeral + i)
        (st, if anyFree then "bad ephemeral-fails-though-port-free" else "ok")
      else match res.toNat? with
        | some p =>
          if p < firstEphemeral || p > lastPort then (st, "bad ephemeral-out-of-range")
          else if !free st.live ns t a p then (st, "bad ephemeral-port-was-not-free")
          else ({ st with live := add st.live ns t a p }, "ok")
        | none => (st, "bad ephemeral-result")
    | _, _, _ => (st, "bad-op")
  | ["release", nets, t, a, p] =>
    match netsOf nets, t.toNat?, hexN a, p.toNat? with
    | some ns, some t, some a, some p => ({ st with live := remove st.live ns t a p }, "ok")
    | _, _, _, _ => (st, "bad-op")
  | ["pick", _, acc] =>
    match acceptOf acc with
    | some f =>
      match res.splitOn " " with
      | [r, _] =>
        if r == "none" then
          let anyOk := (List.range (lastPort - firstEphemeral + 1)).any fun i => f (firstEphemeral + i)
          (st, if anyOk then "bad ephemeral-fails-though-port-free" else "ok")
        else match r.toNat? with
          | some p => (st, if p < firstEphemeral || p > lastPort then "bad ephemeral-out-of-range"
                           else if !f p then "bad ephemeral-port-was-not-free" else "ok")
          | none => (st, "bad ephemeral-result")
      | _ => (st, "bad ephemeral-result")
    | none => (st, "bad-op")
  | _ => (st, "bad-op")

def step (oracleMode : Bool) (st : St) (line : String) : St × String :=
  if oracleMode then
    match line.splitOn " => " with
    | [lhs, res] => oracleStep st (lhs.splitOn " ") res
    | _ => (st, "bad-op")
  else modelStep st (line.splitOn " ")

end Driver.C10
