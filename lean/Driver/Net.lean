import NetProto.Model.Net
import NetProto.Spec.Rfc
import Driver.Util
namespace Driver.Net
open Model.Net

def hexN (s : String) : Option (List Nat) := (parseHex s).map (·.map UInt8.toNat)
def toHexN (l : List Nat) : String := toHex (l.map UInt8.ofNat)
def protoOf (s : String) : Nat := if s == "6" then v6 else v4
def protoName (p : Nat) : String := if p == v6 then "6" else "4"

/-! oracle state: what the property text lets an observer expect -/
structure OSock where
  live : Bool := false
  laddr : Addr := []
  lport : Nat := 0
  raddr : Addr := []
  rport : Nat := 0
  connected : Bool := false
  netProto : Nat := 0
  dual : Bool := false
  closedRd : Bool := false
  /-- index (arrival order) of the last datagram this socket returned -/
  lastIdx : Nat := 0
  /-- receive buffer limit (the smallest one ever set: conservative) -/
  rcvMax : Nat := 32768
deriving Inhabited

structure ODgram where
  idx : Nat
  payload : List Nat
  src : Addr
  sport : Nat
  /-- socket expected to receive it by the most-specific-match rule (none: nobody) -/
  expect : Option Nat
  consumed : Bool := false
  /-- the expected socket's receive buffer had room when it arrived, whatever happened to earlier arrivals: it
  cannot have been dropped for lack of buffer space -/
  must : Bool := false
  /-- the socket that would have received it, had its read side not been shut down before -/
  shut : Option Nat := none
deriving Inhabited

structure OSt where
  socks : List OSock := []
  dgrams : List ODgram := []
  localAddrs : List (Nat × Addr) := []   -- (nic, addr)
  promisc : List Nat := []
  subnets : List (Nat × Addr × Addr) := []
  n : Nat := 0
deriving Inhabited

structure St where
  w : World := {}
  o : OSt := {}
deriving Inhabited

def errOr (e : Option Err) (ok : String) : String := match e with | some x => x.name | none => ok

/-- the network endpoint copies addresses into fields of its own family's size (`copy` truncates / leaves zeros) -/
def fitAddr (np : Nat) (a : Addr) : Addr :=
  let n := if np == v6 then 16 else 4
  (a ++ List.replicate n 0).take n

def showPkt (p : OutPkt) : String :=
  s!"{protoName p.netProto} {toHexN (fitAddr p.netProto p.src)} {toHexN (fitAddr p.netProto p.dst)} {p.sport} {p.dport} ulen={8 + p.payload.length} {toHexN p.payload}"

def modelStep (st : St) (toks : List String) : St × String :=
  let w := st.w
  let ret (w' : World) (s : String) : St × String := ({ st with w := w' }, s)
  match toks with
  | ["reset"] => ({}, "ok")
  | ["nic", id, pr] =>
    match id.toNat? with
    | some id => ret { w with nics := w.nics ++ [{ id := id, promiscuous := pr == "1" }] } "ok"
    | none => (st, "bad-op")
  | ["addr", nic, pr, a] =>
    match nic.toNat?, hexN a with
    | some nic, some a =>
      ret { w with nics := w.nics.map fun n => if n.id == nic then { n with addrs := n.addrs ++ [(protoOf pr, a)] } else n } "ok"
    | _, _ => (st, "bad-op")
  | ["subnet", nic, pr, a, m] =>
    match nic.toNat?, hexN a, hexN m with
    | some nic, some a, some m =>
      ret { w with nics := w.nics.map fun n => if n.id == nic then { n with subnets := n.subnets ++ [(protoOf pr, a, m)] } else n } "ok"
    | _, _, _ => (st, "bad-op")
  | ["route", d, m, nic] =>
    match hexN d, hexN m, nic.toNat? with
    | some d, some m, some nic => ret { w with routes := w.routes ++ [⟨d, m, [], nic⟩] } "ok"
    | _, _, _ => (st, "bad-op")
  | ["udp.new", i, pr] =>
    match i.toNat? with
    | some i =>
      let pad := List.replicate (i + 1 - w.udp.length) ({ netProto := 0 } : UdpEp)
      ret { w with udp := (w.udp ++ pad).set i { netProto := protoOf pr } } "ok"
    | none => (st, "bad-op")
  | ["udp.v6only", i, v] =>
    match i.toNat? with
    | some i =>
      match w.udp[i]? with
      | some e =>
        if e.netProto != v6 || e.state != .initial then (st, Err.invalidState.name)
        else ret (w.setUdp i { e with v6only := v == "1" }) "ok"
      | none => (st, "bad-op")
    | none => (st, "bad-op")
  | ["udp.rcvbuf", i, n] =>
    match i.toNat?, n.toNat? with
    | some i, some n =>
      match w.udp[i]? with
      | some e => ret (w.setUdp i { e with rcvBufMax := n }) "ok"
      | none => (st, "bad-op")
    | _, _ => (st, "bad-op")
  | ["udp.bind", i, a, p, lp] =>
    match i.toNat?, hexN a, p.toNat?, lp.toNat? with
    | some i, some a, some p, some lp =>
      let (w', e) := udpBind w i a p lp
      let e' := w'.udp[i]?
      ret w' (errOr e s!"ok:{toHexN ((e'.map (·.id.laddr)).getD [])}:{(e'.map (·.id.lport)).getD 0}")
    | _, _, _, _ => (st, "bad-op")
  | ["udp.connect", i, a, p, lp] =>
    match i.toNat?, hexN a, p.toNat?, lp.toNat? with
    | some i, some a, some p, some lp =>
      let (w', e) := udpConnect w i a p lp
      let e' := w'.udp[i]?
      ret w' (errOr e s!"ok:{toHexN ((e'.map (·.id.laddr)).getD [])}:{(e'.map (·.id.lport)).getD 0}")
    | _, _, _, _ => (st, "bad-op")
  | ["udp.read", i] =>
    match i.toNat? with
    | some i =>
      match udpRead w i with
      | (w', .ok d) => ret w' s!"data={toHexN d.data} from={toHexN d.srcAddr}:{d.srcPort} nic={d.nic}"
      | (w', .error e) => ret w' e.name
    | none => (st, "bad-op")
  | ["udp.write", i, a, p, pl, lp] =>
    match i.toNat?, hexN a, p.toNat?, hexN pl, lp.toNat? with
    | some i, some a, some p, some pl, some lp =>
      let to := if a.isEmpty && p == 0 then none else some (a, p)
      match udpWrite w i to pl lp with
      | (w', .ok (n, pkt)) => ret w' s!"n={n} pkt={showPkt pkt}"
      | (w', .error e) => ret w' e.name
    | _, _, _, _, _ => (st, "bad-op")
  | ["udp.shutdown", i, how] =>
    match i.toNat? with
    | some i =>
      let (w', e) := udpShutdown w i (how == "r" || how == "rw") (how == "w" || how == "rw")
      ret w' (errOr e "ok")
    | none => (st, "bad-op")
  | ["udp.close", i] =>
    match i.toNat? with
    | some i => ret (udpClose w i) "ok"
    | none => (st, "bad-op")
  | ["udp.ready"] =>
    (st, "r=" ++ String.join (w.udp.map fun e => if !e.rcvList.isEmpty || e.rcvClosed then "1" else "0"))
  | ["inject", nic, pr, src, dst, sp, dp, ul, pl, fr] =>
    match nic.toNat?, hexN src, hexN dst, sp.toNat?, dp.toNat?, ul.toNat?, hexN pl with
    | some nic, some src, some dst, some sp, some dp, some ul, some pl =>
      -- reassembly state lives in the network endpoint of the destination address; for a destination
      -- accepted only through promiscuous mode / an owned subnet that endpoint is temporary and dies
      -- between fragments, so a fragmented datagram to such an address is never completed
      let assigned := match w.nic nic with | some n => n.addrs.any (fun p => p.2 == dst) | none => false
      if fr == "1" && !assigned then ret w "-" else
      let (w', _) := deliverUdp w nic (protoOf pr) src dst sp dp ul pl
      ret w' "-"
    | _, _, _, _, _, _, _ => (st, "bad-op")
  | ["echo4", nic, src, dst, msg, fl] =>
    match nic.toNat?, hexN src, hexN dst, hexN msg, fl.toNat? with
    | some nic, some src, some dst, some msg, some fl =>
      if !w.echoAccepted nic dst then (st, "-") else
      match echo4Reply msg fl with
      | some r => (st, s!"r4 {toHexN dst} {toHexN src} ttl=255 {toHexN r}")
      | none => (st, "-")
    | _, _, _, _, _ => (st, "bad-op")
  | ["echo6", nic, src, dst, msg, fl] =>
    match nic.toNat?, hexN src, hexN dst, hexN msg, fl.toNat? with
    | some nic, some src, some dst, some msg, some fl =>
      if !w.echoAccepted nic dst then (st, "-") else
      match echo6Reply src dst msg fl with
      | some r => (st, s!"r6 {toHexN dst} {toHexN src} ttl=255 {toHexN r}")
      | none => (st, "-")
    | _, _, _, _, _ => (st, "bad-op")
  | ["leftover"] => (st, "-")
  | _ => (st, "bad-op")

/-! ### oracle (C09: who gets it; C11: what a socket returns / emits) -/

def setSock (o : OSt) (i : Nat) (s : OSock) : OSt :=
  let pad := List.replicate (i + 1 - o.socks.length) ({} : OSock)
  { o with socks := (o.socks ++ pad).set i s }

/-- parse `ok:<laddr>:<lport>` -/
def parseOk (res : String) : Option (Addr × Nat) :=
  match res.splitOn ":" with
  | ["ok", a, p] => do let a ← hexN a; let p ← p.toNat?; pure (a, p)
  | _ => none

def maskMatchO (a dest mask : Addr) : Bool :=
  a.length == dest.length && (List.zipWith (· &&& ·) a mask == dest)

/-- the property's rule: the single socket whose binding matches most specifically -/
def expectedSock (o : OSt) (nic netProto : Nat) (src dst : Addr) (sp dp : Nat) : Option Nat :=
  let accepted := o.localAddrs.any (fun p => p.1 == nic && p.2 == dst) || o.promisc.contains nic ||
    o.subnets.any fun s => s.1 == nic && maskMatchO dst s.2.1 s.2.2
  if !accepted then none else
  let cands := (o.socks.zipIdx.filter fun (s, _) =>
    s.live && s.lport == dp && (s.netProto == netProto || (s.dual && netProto == v4)) &&
    (s.laddr.isEmpty || s.laddr == dst) && (!s.connected || (s.raddr == src && s.rport == sp)))
  let rank (s : OSock) : Nat := (if s.connected then 2 else 0) + (if s.laddr.isEmpty then 0 else 1)
  match cands with
  | [] => none
  | c :: t => some (t.foldl (fun best x => if rank x.1 > rank best.1 then x else best) c).2

def oracleStep (st : St) (toks : List String) (res : String) : St × String :=
  let o := st.o
  let ret (o' : OSt) (s : String) : St × String := ({ st with o := o' }, s)
  match toks with
  | ["reset"] => ({ st with o := {} }, "ok")
  | ["nic", id, pr] =>
    match id.toNat? with
    | some id => ret (if pr == "1" then { o with promisc := id :: o.promisc } else o) "ok"
    | none => (st, "bad-op")
  | ["addr", nic, _, a] =>
    match nic.toNat?, hexN a with
    | some nic, some a => ret { o with localAddrs := (nic, a) :: o.localAddrs } "ok"
    | _, _ => (st, "bad-op")
  | ["subnet", nic, _, a, m] =>
    match nic.toNat?, hexN a, hexN m with
    | some nic, some a, some m => ret { o with subnets := (nic, a, m) :: o.subnets } "ok"
    | _, _, _ => (st, "bad-op")
  | ["udp.new", i, pr] =>
    match i.toNat? with
    | some i => ret (setSock o i { netProto := protoOf pr, dual := pr == "6" }) "ok"
    | none => (st, "bad-op")
  | ["udp.v6only", i, v] =>
    match i.toNat? with
    | some i =>
      let s := o.socks.getD i {}
      ret (if res == "ok" then setSock o i { s with dual := !(v == "1") } else o) "ok"
    | none => (st, "bad-op")
  | ["udp.bind", i, a, _, _] =>
    match i.toNat?, hexN a with
    | some i, some a =>
      let s := o.socks.getD i {}
      match parseOk res with
      | some (la, lp) =>
        -- a socket bound to a specific address (or a v4-mapped one) is single-stack from then on
        let mapped := a.length == 16 && a.take 12 == [0, 0, 0, 0, 0, 0, 0, 0, 0, 0, 255, 255]
        let np := if mapped then v4 else s.netProto
        let dual := s.dual && la.isEmpty && !mapped
        -- C10 through the socket layer: two live sockets never hold conflicting bindings
        let clash := o.socks.any fun t => t.live && !t.connected && t.lport == lp &&
          (t.netProto == np || t.dual || dual) && (t.laddr.isEmpty || la.isEmpty || t.laddr == la)
        ret (setSock o i { s with live := true, laddr := la, lport := lp, netProto := np, dual := dual })
          (if clash then "bad c09.conflicting-bindings-both-succeeded" else "ok")
      | none => ret o "ok"
    | _, _ => (st, "bad-op")
  | ["udp.connect", i, a, p, _] =>
    match i.toNat?, hexN a, p.toNat? with
    | some i, some a, some p =>
      let s := o.socks.getD i {}
      match parseOk res with
      | some (la, lp) =>
        let mapped := a.length == 16 && a.take 12 == [0, 0, 0, 0, 0, 0, 0, 0, 0, 0, 255, 255]
        let ra := if mapped then a.drop 12 else a
        -- the family of the peer decides what the socket is registered for from now on (also when it was bound to
        -- the v4-mapped wildcard before and is now connected to a native IPv6 peer)
        let np := if mapped then v4 else if a.length == 16 then v6 else s.netProto
        -- a connected v6 socket stays registered for both families, but only its own family's addresses can match
        ret (setSock o i { s with live := true, laddr := la, lport := lp, raddr := ra, rport := p, connected := true,
                                  netProto := np, dual := false }) "ok"
      | none => ret o "ok"
    | _, _, _ => (st, "bad-op")
  | ["udp.rcvbuf", i, n] =>
    match i.toNat?, n.toNat? with
    | some i, some n =>
      let s := o.socks.getD i {}
      ret (setSock o i { s with rcvMax := min s.rcvMax n }) "ok"
    | _, _ => (st, "bad-op")
  | ["udp.shutdown", i, how] =>
    match i.toNat? with
    | some i =>
      let s := o.socks.getD i {}
      ret (if res == "ok" && (how == "r" || how == "rw") then setSock o i { s with closedRd := true } else o) "ok"
    | none => (st, "bad-op")
  | ["udp.close", i] =>
    match i.toNat? with
    | some i => ret (setSock o i { (o.socks.getD i {}) with live := false, closedRd := true }) "ok"
    | none => (st, "bad-op")
  | ["inject", nic, pr, src, dst, sp, dp, ul, pl, fr] =>
    match nic.toNat?, hexN src, hexN dst, sp.toNat?, dp.toNat?, ul.toNat?, hexN pl with
    | some nic, some src, some dst, some sp, some dp, some ul, some pl =>
      -- a datagram whose UDP length field exceeds the packet is malformed: nobody may get it
      let exp := if ul > pl.length + 8 then none else expectedSock o nic (protoOf pr) src dst sp dp
      -- fragmented datagrams to addresses that are not assigned (promiscuous / subnet only) are not reassembled
      let exp := if fr == "1" && !(o.localAddrs.any fun p => p.1 == nic && p.2 == dst) then none else exp
      -- arrivals after the read side was closed are dropped
      let shutFor := match exp with
        | some i => if (o.socks.getD i {}).closedRd then some i else none
        | none => none
      let exp := match exp with
        | some i => if (o.socks.getD i {}).closedRd then none else some i
        | none => none
      -- upper bound of what may sit in the expected socket's receive queue (default limit 32 KiB; a datagram is
      -- accepted whenever the queue is below the limit)
      let hi := match exp with
        | some i => ((o.dgrams.filter fun g => g.expect == some i && !g.consumed).map (·.payload.length)).foldl (· + ·) 0
        | none => 0
      let lim := match exp with | some i => (o.socks.getD i {}).rcvMax | none => 0
      ret { o with n := o.n + 1, dgrams := o.dgrams ++ [⟨o.n + 1, pl, src, sp, exp, false, exp.isSome && hi < lim, shutFor⟩] } "ok"
    | _, _, _, _, _, _, _ => (st, "bad-op")
  | ["udp.read", i] =>
    match i.toNat? with
    | some i =>
      if res.startsWith "operation-would-block" then
        -- the queue is empty: every datagram that had to be accepted for this socket must have been returned
        (st, if o.dgrams.any (fun g => g.expect == some i && !g.consumed && g.must) then
               "bad c09.datagram-for-registered-socket-not-delivered" else "ok")
      else
      if !res.startsWith "data=" then (st, "ok") else
      match res.splitOn " " with
      | [d, f, _] =>
        let data := hexN (d.drop 5).toString
        let from_ := (f.drop 5).toString.splitOn ":"
        match data, from_ with
        | some data, [fa, fp] =>
          match hexN fa, fp.toNat? with
          | some fa, some fp =>
            let s := o.socks.getD i {}
            -- candidates: not yet returned, same bytes and sender
            -- identical datagrams are interchangeable: prefer one that was meant for this socket
            let same := o.dgrams.filter fun g => !g.consumed && g.payload == data && g.src == fa && g.sport == fp
            -- (a dropped earlier copy must not be mistaken for the one returned now)
            let exact := match same.find? (fun (g : ODgram) => g.expect == some i && g.idx > s.lastIdx) with
              | some g => some g
              | none => match same.find? (fun (g : ODgram) => g.expect == some i) with
                | some g => some g
                | none => same.head?
            match exact with
            | none =>
              -- classify: truncated / merged / duplicated / invented
              let dup := o.dgrams.any fun g => g.consumed && g.payload == data && g.src == fa && g.sport == fp
              let part := o.dgrams.any fun g => g.payload != data && (data.isPrefixOf g.payload || g.payload.isPrefixOf data)
              ret o (if dup then "bad c11.datagram-returned-twice" else if part then "bad c11.datagram-truncated-or-merged"
                     else "bad c11.datagram-not-sent-or-wrong-sender")
            | some g =>
              let o' := { o with dgrams := o.dgrams.map fun x => if x.idx == g.idx then { x with consumed := true } else x }
              let o' := setSock o' i { s with lastIdx := g.idx }
              if g.shut == some i then ret o' "bad c11.datagram-returned-after-read-shutdown"
              else if g.expect != some i then ret o' "bad c09.delivered-to-wrong-socket"
              else if g.idx < s.lastIdx then ret o' "bad c11.out-of-arrival-order"
              else ret o' "ok"
          | _, _ => (st, "bad-op")
        | _, _ => (st, "bad-op")
      | _ => (st, "bad-op")
    | none => (st, "bad-op")
  | ["udp.write", i, toA, toP, pl, lp] =>
    match hexN pl with
    | some pl =>
      -- a write on an unbound socket binds it to the wildcard address and an ephemeral port first
      let st := match i.toNat?, lp.toNat? with
        | some i, some lp =>
          if lp != 0 then
            let s := o.socks.getD i {}
            { st with o := setSock o i { s with live := true, laddr := [], lport := lp } }
          else st
        | _, _ => st
      if !res.startsWith "n=" then (st, "ok") else
      -- "n=<len> pkt=<proto> <src> <dst> <sport> <dport> ulen=<u> <payload>"
      match res.splitOn " " with
      | [n, _, _, dst, _, dport, ul, p] =>
        let ok := n == s!"n={pl.length}" && ul == s!"ulen={8 + pl.length}" && hexN p == some pl
        -- a destination given with the write is the destination of the packet (a v4-mapped address as its IPv4 part)
        let want : Option (List Nat) := match hexN toA with
          | some a => if a.length == 16 && a.take 12 == [0, 0, 0, 0, 0, 0, 0, 0, 0, 0, 255, 255] then some (a.drop 12)
                      else if a.isEmpty then none else some a
          | none => none
        let dstOk := match want, toP.toNat? with
          | some a, some pt => hexN dst == some a && (pt == 0 || dport.toNat? == some pt)
          | _, _ => true
        (st, if !ok then "bad c11.write-emitted-other-bytes-or-length"
             else if !dstOk then "bad c11.write-emitted-to-another-destination" else "ok")
      | _ => (st, "bad c11.write-emitted-not-exactly-one-packet")
    | none => (st, "bad-op")
  | [e, nic, src, dst, msg, flTok] =>
    if e != "echo4" && e != "echo6" then (st, "ok") else
    match nic.toNat?, hexN src, hexN dst, hexN msg with
    | some nic, some src, some dst, some msg =>
      let v6 := e == "echo6"
      let own := o.localAddrs.any fun p => p.1 == nic && p.2 == dst
      let isReq := msg.length ≥ 8 && msg.getD 0 0 == (if v6 then 128 else 8)
      -- a request cut short of its sequence number (6 or 7 bytes) may be answered or ignored
      let maybeReq := !v6 && msg.length ≥ 6 && msg.getD 0 0 == 8
      let frames := if res == "-" then [] else res.splitOn " | "
      if frames.length > 1 then (st, "bad c13.more-than-one-reply") else
      match frames with
      | [] =>
        -- a request whose 8-byte echo header is split over two views (first view shorter than the header) may be ignored
        let headerSplit := v6 && (match flTok.toNat? with | some k => 0 < k && k < 8 | none => false)
        (st, if own && isReq && !headerSplit then "bad c13.request-not-answered" else "ok")
      | f :: _ =>
        if !(own && (isReq || maybeReq)) then (st, "bad c13.reply-to-request-for-someone-else-or-non-request") else
        match f.splitOn " " with
        | [_, rs, rd, _, rm] =>
          match hexN rs, hexN rd, hexN rm with
          | some rs, some rd, some rm =>
            let mirrors := rm.getD 0 0 == (if v6 then 129 else 0) && rm.drop 4 == msg.drop 4
            let ckOk := if v6 then
                Spec.Rfc.ocSum (rs ++ rd ++ Model.Header.be32 rm.length ++ [0, 0, 0, 58] ++ rm) 0 == 65535
              else Spec.Rfc.ocSum rm 0 == 65535
            (st, if rs != dst || rd != src then "bad c13.reply-addressing"
                 else if !mirrors then "bad c13.reply-does-not-mirror-request"
                 else if !ckOk then "bad c13.reply-checksum-invalid" else "ok")
          | _, _, _ => (st, "bad c13.reply-unparsable")
        | _ => (st, "bad c13.reply-unparsable")
    | _, _, _, _ => (st, "bad-op")
  | ["leftover"] => (st, if res == "-" then "ok" else "bad c13.unsolicited-frame")
  | _ => (st, "ok")

def step (oracleMode : Bool) (st : St) (line : String) : St × String :=
  if oracleMode then
    match line.splitOn " => " with
    | [lhs, res] => oracleStep st (lhs.splitOn " ") res
    | _ => (st, "bad-op")
  else modelStep st (line.splitOn " ")

end Driver.Net
