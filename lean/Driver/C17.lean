import NetProto.Model.Waiter
import Driver.Util
namespace Driver.C17
open Model.Waiter

structure OSt where
  /-- registered entries in registration order, with masks -/
  reg : List (Nat × Nat) := []
  tokens : List Nat := []
deriving Inhabited

structure St where
  q : Q := {}
  o : OSt := {}

instance : Inhabited St := ⟨{}⟩

def fuel : Nat := 64

def showL (l : List Nat) : String := if l.isEmpty then "-" else ",".intercalate (l.map toString)

def modelStep (st : St) (toks : List String) : St × String :=
  match toks with
  | ["reset"] => ({}, "ok")
  | ["reg", e, m] =>
    match e.toNat?, m.toNat? with
    | some e, some m => ({ st with q := register st.q e m }, "ok")
    | _, _ => (st, "bad-op")
  | ["unreg", e] =>
    match e.toNat? with
    | some e => ({ st with q := unregister st.q e }, "ok")
    | none => (st, "bad-op")
  | ["notify", m] =>
    match m.toNat? with
    | some m => let (q, hit) := notify st.q fuel m; ({ st with q := q }, showL hit)
    | none => (st, "bad-op")
  | ["notifyset", m] =>
    match m.toNat? with
    | some m => let (q, hit) := notify st.q fuel m; ({ st with q := q }, showL (hit.toArray.qsort (· < ·)).toList)
    | none => (st, "bad-op")
  | ["events"] => (st, toString (events st.q fuel))
  | ["empty"] => (st, b2s (isEmpty st.q))
  | ["take", e] =>
    match e.toNat? with
    | some e => let (q, t) := take st.q e; ({ st with q := q }, b2s t)
    | none => (st, "bad-op")
  | _ => (st, "bad-op")

/-- oracle: the abstract wait queue — registered entries with masks; a notification calls back
    exactly the registered entries with an intersecting mask, each once; a token stays until taken -/
def oracleStep (st : St) (toks : List String) (res : String) : St × String :=
  let o := st.o
  match toks with
  | ["reset"] => ({ st with o := {} }, "ok")
  | ["reg", e, m] =>
    match e.toNat?, m.toNat? with
    | some e, some m => ({ st with o := { o with reg := o.reg ++ [(e, m)] } }, "ok")
    | _, _ => (st, "bad-op")
  | [nt, m] =>
    if nt != "notify" && nt != "notifyset" then
      (if nt == "unreg" then
        match m.toNat? with
        | some e => ({ st with o := { o with reg := o.reg.filter (·.1 != e) } }, "ok")
        | none => (st, "bad-op")
       else if nt == "take" then
        match m.toNat? with
        | some e =>
          let has := o.tokens.contains e
          ({ st with o := { o with tokens := o.tokens.filter (· != e) } },
            if res == b2s has then "ok" else if has then "bad notification-token-lost" else "bad token-invented")
        | none => (st, "bad-op")
       else (st, "bad-op")) else
    match m.toNat? with
    | some m =>
      let exp := (o.reg.filter fun p => m &&& p.2 != 0).map (·.1)
      let got := if res == "-" then some [] else (res.splitOn ",").mapM String.toNat?
      match got with
      | none => (st, "bad notify-output")
      | some got =>
        let st' := { st with o := { o with tokens := (o.tokens ++ got).eraseDups } }
        if got.any (fun e => !(exp.contains e)) then (st', "bad callback-for-unregistered-or-uninterested-entry")
        else if exp.any (fun e => !(got.contains e)) then (st', "bad registered-entry-not-notified")
        else if got.eraseDups.length != got.length then (st', "bad callback-duplicated")
        else (st', "ok")
    | none => (st, "bad-op")
  | ["events"] =>
    let exp := o.reg.foldl (fun acc p => acc ||| p.2) 0
    (st, if res == toString exp then "ok" else "bad events-mask")
  | ["empty"] => (st, if res == b2s o.reg.isEmpty then "ok" else "bad is-empty")
  | _ => (st, "bad-op")

def step (oracleMode : Bool) (st : St) (line : String) : St × String :=
  if oracleMode then
    match line.splitOn " => " with
    | [lhs, res] => oracleStep st (lhs.splitOn " ") res
    | _ => (st, "bad-op")
  else modelStep st (line.splitOn " ")

end Driver.C17
