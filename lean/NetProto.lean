import NetProto.Props.C14
