/-! Property oracle for C08 (independent of the reassembler model): for a datagram `P` sent as
    fragments `(first, last, more, bytes)`, what may be delivered and when. -/
namespace Spec.C08

structure Seen where
  first : Nat
  last : Nat
  more : Bool
deriving Repr, DecidableEq

/-- every byte index of `[0, n)` lies in some received fragment, and a last fragment was received -/
def complete (n : Nat) (seen : List Seen) : Bool :=
  seen.any (fun s => !s.more) && (List.range n).all fun x => seen.any fun s => s.first ≤ x && x ≤ s.last

/-- the fragment is a slice of `P` with the right flags -/
def wellFormed (P : List Nat) (first last : Nat) (more : Bool) (data : List Nat) : Bool :=
  first ≤ last && last < P.length && data == (P.drop first).take (last + 1 - first) && (more == (last + 1 < P.length))

end Spec.C08
