/-! Property oracle for C10, written from the property text: the set of live reservations, the
    conflict relation, and the ephemeral range. Independent of `Model.Ports`. -/
namespace Spec.C10

structure Res where
  net : Nat
  trans : Nat
  addr : List Nat   -- [] = wildcard
  port : Nat
deriving Repr, DecidableEq

/-- "same protocol and port where either is for the wildcard address or both are for the same address" -/
def conflicts (x y : Res) : Bool :=
  x.net == y.net && x.trans == y.trans && x.port == y.port &&
    (x.addr.isEmpty || y.addr.isEmpty || x.addr == y.addr)

def free (live : List Res) (nets : List Nat) (t : Nat) (a : List Nat) (p : Nat) : Bool :=
  nets.all fun n => live.all fun r => !conflicts r ⟨n, t, a, p⟩

def add (live : List Res) (nets : List Nat) (t : Nat) (a : List Nat) (p : Nat) : List Res :=
  live ++ (nets.map fun n => ⟨n, t, a, p⟩)

def remove (live : List Res) (nets : List Nat) (t : Nat) (a : List Nat) (p : Nat) : List Res :=
  live.filter fun r => !(nets.contains r.net && r.trans == t && r.addr == a && r.port == p)

def firstEphemeral : Nat := 16000
def lastPort : Nat := 65535

end Spec.C10
