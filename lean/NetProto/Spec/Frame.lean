import NetProto.Spec.Rfc
/-! RFC-derived validator for whole frames, built only on the independent decoders of `Spec/Rfc.lean`
(core only).  It returns the list of rules a frame violates; the empty list means the frame is well
formed.  Used as the oracle of C06 and as the predicate the C06 theorems are stated with. -/
namespace Spec.Frame
open Spec.Rfc

def protoICMP : Nat := 1
def protoTCP : Nat := 6
def protoUDP : Nat := 17
def protoICMPv6 : Nat := 58

/-- sum of a pseudo header (RFC 768 / 9293 for IPv4, RFC 8200 §8.1 for IPv6), as the initial value of
the upper-layer checksum -/
def pseudoSum (src dst : List Nat) (proto len : Nat) : Nat :=
  if src.length == 16 then
    ocSum (src ++ dst ++ [len / 16777216 % 256, len / 65536 % 256, len / 256 % 256, len % 256] ++ [0, 0, 0, proto]) 0
  else ocSum (src ++ dst ++ [0, proto] ++ [len / 256 % 256, len % 256]) 0

/-- RFC 9293: the segment's header length covers the fixed header and lies inside the segment, the
options parse under the strict grammar, the checksum over pseudo header and segment verifies -/
def checkTCP (src dst seg : List Nat) : List String :=
  match decodeTCP seg with
  | none => ["tcp.short"]
  | some t =>
    (if t.dataOffset < 5 then ["tcp.data-offset-below-5"] else []) ++
    (if t.dataOffset * 4 > seg.length then ["tcp.data-offset-beyond-segment"] else []) ++
    (if t.dataOffset ≥ 5 && t.dataOffset * 4 ≤ seg.length then
       (match decodeOptions ((seg.take (t.dataOffset * 4)).drop 20) with
        | none => ["tcp.options-malformed"]
        | some _ => [])
     else []) ++
    (if t.reserved != 0 then ["tcp.reserved-bits-set"] else []) ++
    (if verifies seg (pseudoSum src dst protoTCP seg.length) then [] else ["tcp.checksum"])

/-- RFC 768: length field = datagram length; checksum verifies, or is absent (0) over IPv4 only -/
def checkUDP (src dst dg : List Nat) : List String :=
  match decodeUDP dg with
  | none => ["udp.short"]
  | some u =>
    (if u.length != dg.length then ["udp.length-field"] else []) ++
    (if u.checksum == 0 then (if src.length == 16 then ["udp.zero-checksum-over-ipv6"] else [])
     else if verifies dg (pseudoSum src dst protoUDP dg.length) then [] else ["udp.checksum"])

/-- RFC 792: checksum over the ICMP message -/
def checkICMP4 (msg : List Nat) : List String :=
  if msg.length < 4 then ["icmp.short"] else
  if verifies msg 0 then [] else ["icmp.checksum"]

/-- RFC 4443: checksum over pseudo header and message -/
def checkICMP6 (src dst msg : List Nat) : List String :=
  if msg.length < 4 then ["icmp6.short"] else
  if verifies msg (pseudoSum src dst protoICMPv6 msg.length) then [] else ["icmp6.checksum"]

def checkTransport (proto : Nat) (src dst payload : List Nat) : List String :=
  if proto == protoTCP then checkTCP src dst payload
  else if proto == protoUDP then checkUDP src dst payload
  else if proto == protoICMP && src.length == 4 then checkICMP4 payload
  else if proto == protoICMPv6 && src.length == 16 then checkICMP6 src dst payload
  else ["transport.unknown-protocol"]

/-- RFC 791: version, header length, total length = actual length, header checksum; an unfragmented
packet's payload is checked as a transport message -/
def checkIPv4 (b : List Nat) : List String :=
  match decodeIPv4 b with
  | none => ["ipv4.short"]
  | some h =>
    (if h.version != 4 then ["ipv4.version"] else []) ++
    (if h.ihl < 5 then ["ipv4.ihl-below-5"] else []) ++
    (if h.totalLength != b.length then ["ipv4.total-length"] else []) ++
    (if h.ihl ≥ 5 && h.ihl * 4 ≤ b.length then
       (if verifies (b.take (h.ihl * 4)) 0 then [] else ["ipv4.header-checksum"]) ++
       (if h.fragOffset == 0 && h.flags % 2 == 0 then checkTransport h.protocol h.src h.dst (b.drop (h.ihl * 4)) else [])
     else ["ipv4.header-beyond-packet"])

/-- RFC 8200: version, payload length = actual; payload checked as a transport message (no extension
headers are originated by this stack) -/
def checkIPv6 (b : List Nat) : List String :=
  match decodeIPv6 b with
  | none => ["ipv6.short"]
  | some h =>
    (if h.version != 6 then ["ipv6.version"] else []) ++
    (if h.payloadLength + 40 != b.length then ["ipv6.payload-length"] else []) ++
    checkTransport h.nextHeader h.src h.dst (b.drop 40)

/-- RFC 826 for IPv4 over Ethernet -/
def checkARP (b : List Nat) : List String :=
  match decodeARP b with
  | none => ["arp.short"]
  | some a =>
    (if a.htype != 1 then ["arp.htype"] else []) ++ (if a.ptype != 2048 then ["arp.ptype"] else []) ++
    (if a.hlen != 6 || a.plen != 4 then ["arp.lengths"] else []) ++ (if a.op != 1 && a.op != 2 then ["arp.op"] else [])

/-- a network-layer packet of the given EtherType -/
def checkNet (etherType : Nat) (b : List Nat) : List String :=
  if etherType == 2048 then checkIPv4 b
  else if etherType == 34525 then checkIPv6 b
  else if etherType == 2054 then checkARP b
  else ["net.unknown-ethertype"]

/-- an Ethernet II frame -/
def checkEth (b : List Nat) : List String :=
  match decodeEth b with
  | none => ["eth.short"]
  | some e => checkNet e.etherType (b.drop 14)

end Spec.Frame
