/-! Independent reading of RFC 6455 (§5.2 base framing, §5.3 masking, §1.3/§4.2.2 accept key) and of the functions
it rests on: SHA-1 (RFC 3174) and base64 (RFC 4648 §4).  Core only; shares nothing with `Model/Ws.lean`. -/
namespace Spec.Ws

abbrev Bytes := List Nat

/-! ### frames -/

def be (n : Nat) (v : Nat) : Bytes := (List.range n).reverse.map (fun i => v / 256 ^ i % 256)

def unbe : Bytes → Nat
  | [] => 0
  | b :: bs => b * 256 ^ bs.length + unbe bs

def xorKey (key : Bytes) (data : Bytes) : Bytes :=
  (data.zipIdx).map (fun p => p.1 ^^^ key.getD (p.2 % 4) 0)

/-- §5.2: a single final frame with the given opcode; the payload length in its minimal encoding; masked with `key`
when one is given -/
def encodeFrame (opcode : Nat) (key : Option Bytes) (payload : Bytes) : Bytes :=
  let n := payload.length
  let m := if key.isSome then 128 else 0
  let lenBytes := if n ≤ 125 then [m + n] else if n ≤ 65535 then [m + 126] ++ be 2 n else [m + 127] ++ be 8 n
  match key with
  | some k => [128 + opcode] ++ lenBytes ++ k ++ xorKey k payload
  | none => [128 + opcode] ++ lenBytes ++ payload

structure Frame where
  fin : Bool
  rsv : Nat
  opcode : Nat
  masked : Bool
  minimalLength : Bool
  payload : Bytes
deriving Repr, DecidableEq

/-- §5.2 decoder: one frame from the front of a stream; `none` if the stream does not hold a whole frame -/
def decodeFrame (s : Bytes) : Option (Frame × Bytes) :=
  match s with
  | b0 :: b1 :: s1 =>
    let l7 := b1 % 128
    let masked := b1 ≥ 128
    let ext := if l7 = 126 then 2 else if l7 = 127 then 8 else 0
    if s1.length < ext then none else
    let n := if ext = 0 then l7 else unbe (s1.take ext)
    let minimal := if ext = 0 then true else if ext = 2 then n > 125 else n > 65535
    let s2 := s1.drop ext
    let kl := if masked then 4 else 0
    if s2.length < kl + n then none else
    let key := s2.take kl
    let body := (s2.drop kl).take n
    some ({ fin := b0 ≥ 128, rsv := b0 / 16 % 8, opcode := b0 % 16, masked := masked, minimalLength := minimal,
            payload := if masked then xorKey key body else body }, s2.drop (kl + n))
  | _ => none

/-- what a conforming single-frame text message looks like -/
def wellFormedText (f : Frame) : Bool := f.fin && f.rsv == 0 && f.opcode == 1 && f.minimalLength

/-! ### SHA-1 -/

def rotl (x : UInt32) (n : UInt32) : UInt32 := (x <<< n) ||| (x >>> (32 - n))

def pad (msg : Bytes) : Bytes :=
  let l := msg.length
  let k := (119 - l % 64) % 64     -- zero bytes so that the total is a multiple of 64
  msg ++ [128] ++ List.replicate k 0 ++ be 8 (l * 8)

def word (b : Bytes) : UInt32 := UInt32.ofNat (unbe b)

def chunks (n : Nat) : Nat → Bytes → List Bytes
  | 0, _ => []
  | fuel + 1, l => if l = [] then [] else l.take n :: chunks n fuel (l.drop n)

def schedule (block : Bytes) : Array UInt32 := Id.run do
  let mut w : Array UInt32 := ((chunks 4 16 block).map word).toArray
  for i in [16:80] do
    w := w.push (rotl (w[i-3]! ^^^ w[i-8]! ^^^ w[i-14]! ^^^ w[i-16]!) 1)
  return w

def processBlock (h : UInt32 × UInt32 × UInt32 × UInt32 × UInt32) (block : Bytes) :
    UInt32 × UInt32 × UInt32 × UInt32 × UInt32 := Id.run do
  let w := schedule block
  let (h0, h1, h2, h3, h4) := h
  let mut a := h0
  let mut b := h1
  let mut c := h2
  let mut d := h3
  let mut e := h4
  for i in [0:80] do
    let (f, k) :=
      if i < 20 then ((b &&& c) ||| ((~~~ b) &&& d), (0x5A827999 : UInt32))
      else if i < 40 then (b ^^^ c ^^^ d, (0x6ED9EBA1 : UInt32))
      else if i < 60 then ((b &&& c) ||| (b &&& d) ||| (c &&& d), (0x8F1BBCDC : UInt32))
      else (b ^^^ c ^^^ d, (0xCA62C1D6 : UInt32))
    let t := rotl a 5 + f + e + k + w[i]!
    e := d
    d := c
    c := rotl b 30
    b := a
    a := t
  return (h0 + a, h1 + b, h2 + c, h3 + d, h4 + e)

def sha1 (msg : Bytes) : Bytes :=
  let p := pad msg
  let (a, b, c, d, e) := (chunks 64 (p.length / 64 + 1) p).foldl processBlock
    (0x67452301, 0xEFCDAB89, 0x98BADCFE, 0x10325476, 0xC3D2E1F0)
  [a, b, c, d, e].flatMap (fun x => be 4 x.toNat)

/-! ### base64 -/

def b64char (v : Nat) : Nat :=
  if v < 26 then 65 + v else if v < 52 then 97 + (v - 26) else if v < 62 then 48 + (v - 52) else if v = 62 then 43 else 47

def base64 : Nat → Bytes → Bytes
  | 0, _ => []
  | fuel + 1, l =>
    match l with
    | [] => []
    | [a] => [b64char (a / 4), b64char (a % 4 * 16), 61, 61]
    | [a, b] => [b64char (a / 4), b64char (a % 4 * 16 + b / 16), b64char (b % 16 * 4), 61]
    | a :: b :: c :: rest =>
      [b64char (a / 4), b64char (a % 4 * 16 + b / 16), b64char (b % 16 * 4 + c / 64), b64char (c % 64)] ++ base64 fuel rest

def guid : Bytes := "258EAFA5-E914-47DA-95CA-C5AB0DC85B11".toList.map Char.toNat

/-- §4.2.2: base64(SHA-1(key ++ GUID)) -/
def acceptKey (key : Bytes) : Bytes :=
  let d := sha1 (key ++ guid)
  base64 (d.length + 1) d

end Spec.Ws
