/-! Independent RFC-derived decoders and the RFC 1071 checksum (core only).
Written from the RFC layouts, not from the Go code: every field is extracted from the
big-endian number formed by the header bytes using the bit positions of the RFC
diagrams.  Used as the oracle for C15 and as the frame validator for C06. -/
namespace Spec.Rfc

/-- big-endian value of a byte string -/
def beVal : List Nat → Nat
  | [] => 0
  | l => l.foldl (fun acc b => acc * 256 + b) 0

/-- bits [hi..lo] (RFC diagram numbering from the left, 0-based, over `width` bits) -/
def bits (v width first len : Nat) : Nat := (v / 2 ^ (width - first - len)) % 2 ^ len

/-! ### RFC 1071 -/

/-- end-around-carry addition of two 16-bit one's-complement numbers -/
def ocAdd (a b : Nat) : Nat := let s := a + b; if s ≥ 65536 then s - 65535 else s

/-- 16-bit big-endian words, an odd trailing byte is padded with zero on the right -/
def words : List Nat → List Nat
  | [] => []
  | [a] => [a * 256]
  | a :: b :: t => (a * 256 + b) :: words t

/-- RFC 1071: one's-complement sum of the words, starting from `init` -/
def ocSum (buf : List Nat) (init : Nat) : Nat := (words buf).foldl ocAdd init

/-- a buffer that carries the complement of its sum verifies: total is 0xffff -/
def verifies (buf : List Nat) (init : Nat) : Bool := ocSum buf init == 65535

/-! ### RFC 791 -/
structure IPv4 where
  version : Nat
  ihl : Nat          -- in 32-bit words
  tos : Nat
  totalLength : Nat
  id : Nat
  flags : Nat        -- 3 bits
  fragOffset : Nat   -- in 8-byte units
  ttl : Nat
  protocol : Nat
  checksum : Nat
  src : List Nat
  dst : List Nat
deriving Repr, DecidableEq

/-- the k-th 32-bit row of the RFC diagram -/
def row (b : List Nat) (k : Nat) : Nat := beVal ((b.drop (4 * k)).take 4)

def decodeIPv4 (b : List Nat) : Option IPv4 :=
  if b.length < 20 then none else
  some { version := bits (row b 0) 32 0 4, ihl := bits (row b 0) 32 4 4, tos := bits (row b 0) 32 8 8,
         totalLength := bits (row b 0) 32 16 16, id := bits (row b 1) 32 0 16, flags := bits (row b 1) 32 16 3,
         fragOffset := bits (row b 1) 32 19 13, ttl := bits (row b 2) 32 0 8, protocol := bits (row b 2) 32 8 8,
         checksum := bits (row b 2) 32 16 16, src := (b.drop 12).take 4, dst := (b.drop 16).take 4 }

/-! ### RFC 9293 fixed header -/
structure TCP where
  srcPort : Nat
  dstPort : Nat
  seq : Nat
  ack : Nat
  dataOffset : Nat   -- in 32-bit words
  reserved : Nat
  flags : Nat        -- 8 bits CWR..FIN
  window : Nat
  checksum : Nat
  urgent : Nat
deriving Repr, DecidableEq

def decodeTCP (b : List Nat) : Option TCP :=
  if b.length < 20 then none else
  some { srcPort := bits (row b 0) 32 0 16, dstPort := bits (row b 0) 32 16 16, seq := row b 1,
         ack := row b 2, dataOffset := bits (row b 3) 32 0 4, reserved := bits (row b 3) 32 4 4,
         flags := bits (row b 3) 32 8 8, window := bits (row b 3) 32 16 16, checksum := bits (row b 4) 32 0 16,
         urgent := bits (row b 4) 32 16 16 }

/-! ### RFC 768 -/
structure UDP where
  srcPort : Nat
  dstPort : Nat
  length : Nat
  checksum : Nat
deriving Repr, DecidableEq

def decodeUDP (b : List Nat) : Option UDP :=
  if b.length < 8 then none else
  some { srcPort := bits (row b 0) 32 0 16, dstPort := bits (row b 0) 32 16 16,
         length := bits (row b 1) 32 0 16, checksum := bits (row b 1) 32 16 16 }

/-! ### RFC 8200 -/
structure IPv6 where
  version : Nat
  trafficClass : Nat
  flowLabel : Nat
  payloadLength : Nat
  nextHeader : Nat
  hopLimit : Nat
  src : List Nat
  dst : List Nat
deriving Repr, DecidableEq

def decodeIPv6 (b : List Nat) : Option IPv6 :=
  if b.length < 40 then none else
  some { version := bits (row b 0) 32 0 4, trafficClass := bits (row b 0) 32 4 8, flowLabel := bits (row b 0) 32 12 20,
         payloadLength := bits (row b 1) 32 0 16, nextHeader := bits (row b 1) 32 16 8, hopLimit := bits (row b 1) 32 24 8,
         src := (b.drop 8).take 16, dst := (b.drop 24).take 16 }

/-! ### Ethernet II -/
structure Eth where
  dst : List Nat
  src : List Nat
  etherType : Nat
deriving Repr, DecidableEq

def decodeEth (b : List Nat) : Option Eth :=
  if b.length < 14 then none else
  some { dst := b.take 6, src := (b.drop 6).take 6, etherType := beVal ((b.drop 12).take 2) }

/-! ### RFC 826 (IPv4 over Ethernet) -/
structure ARP where
  htype : Nat
  ptype : Nat
  hlen : Nat
  plen : Nat
  op : Nat
  sha : List Nat
  spa : List Nat
  tha : List Nat
  tpa : List Nat
deriving Repr, DecidableEq

def decodeARP (b : List Nat) : Option ARP :=
  if b.length < 28 then none else
  some { htype := beVal (b.take 2), ptype := beVal ((b.drop 2).take 2), hlen := b.getD 4 0, plen := b.getD 5 0,
         op := beVal ((b.drop 6).take 2), sha := (b.drop 8).take 6, spa := (b.drop 14).take 4,
         tha := (b.drop 18).take 6, tpa := (b.drop 24).take 4 }

/-! ### TCP option grammar (RFC 9293 §3.1, RFC 7323, RFC 2018) -/
inductive Opt
  | nop | mss (v : Nat) | ws (v : Nat) | sackPerm | ts (v e : Nat) | sack (blocks : List (Nat × Nat))
  | unknown (kind : Nat) (data : List Nat)
deriving Repr, DecidableEq

def pairs32 : List Nat → List (Nat × Nat)
  | a0 :: a1 :: a2 :: a3 :: b0 :: b1 :: b2 :: b3 :: t => (beVal [a0, a1, a2, a3], beVal [b0, b1, b2, b3]) :: pairs32 t
  | _ => []

/-- strict grammar: returns `none` for a malformed option list -/
def decodeOpts : Nat → List Nat → Option (List Opt)
  | 0, _ => none
  | _, [] => some []
  | _, 0 :: _ => some []                       -- EOL
  | f + 1, 1 :: t => (decodeOpts f t).map (Opt.nop :: ·)
  | _, [_] => none
  | f + 1, k :: l :: t =>
    if l < 2 || t.length < l - 2 then none else
    let d := t.take (l - 2)
    let rest := t.drop (l - 2)
    let o : Option Opt :=
      if k = 2 then (if l = 4 then some (.mss (beVal d)) else none)
      else if k = 3 then (if l = 3 then some (.ws (beVal d)) else none)
      else if k = 4 then (if l = 2 then some .sackPerm else none)
      else if k = 8 then (if l = 10 then some (.ts (beVal (d.take 4)) (beVal (d.drop 4))) else none)
      else if k = 5 then (if (l - 2) % 8 = 0 then some (.sack (pairs32 d)) else none)
      else some (.unknown k d)
    match o, decodeOpts f rest with
    | some o, some r => some (o :: r)
    | _, _ => none

def decodeOptions (b : List Nat) : Option (List Opt) := decodeOpts (b.length + 1) b

end Spec.Rfc
