/-! Property oracle for C14: serial-number arithmetic stated on naturals, independent of
    the model.  `classify` returns `none` when an observed result agrees with the
    property, or a failure class. -/
namespace Spec.C14

def M : Nat := 4294967296
def H : Nat := 2147483648

/-- forward distance v → w -/
def fwd (v w : Nat) : Nat := (w + M - v % M) % M

def lessThanSpec (v w : Nat) : Bool := 1 ≤ fwd v w && fwd v w ≤ H - 1
def lessThanEqSpec (v w : Nat) : Bool := fwd v w ≤ H - 1
def inRangeSpec (v a b : Nat) : Bool := fwd a v < fwd a b
def inWindowSpec (v f s : Nat) : Bool := fwd f v < s
/-- two windows share a sequence number (start of one inside the other, both non-empty) -/
def shareSpec (a b x y : Nat) : Bool := (fwd a x < b && 0 < y) || (fwd x a < y && 0 < b)

def b2s (b : Bool) : String := if b then "true" else "false"

/-- `op args` and the implementation's printed result → verdict -/
def oracle (op : String) (a : List Nat) (res : String) : String :=
  match op, a with
  | "LessThan", [v, w] =>
    if res == b2s (lessThanSpec v w) then "ok"
    else if fwd v w == H then "bad lessThan-antipode" else "bad lessThan"
  | "LessThanEq", [v, w] =>
    if res == b2s (lessThanEqSpec v w) then "ok"
    else if fwd v w == H then "bad lessThanEq-antipode" else "bad lessThanEq"
  | "InRange", [v, a, b] => if res == b2s (inRangeSpec v a b) then "ok" else "bad inRange"
  | "InWindow", [v, f, s] => if res == b2s (inWindowSpec v f s) then "ok" else "bad inWindow"
  | "Overlap", [a, b, x, y] =>
    if res == b2s (shareSpec a b x y) then "ok"
    else if b == 0 || y == 0 then "bad overlap-empty-window"
    else if (fwd a x + y ≤ H && b ≤ H) || (fwd x a + b ≤ H && y ≤ H) then "bad overlap"
    else "bad overlap-span-over-half"
  | "Add", [v, s] => if res == toString ((v + s) % M) then "ok" else "bad add"
  | "Size", [v, w] => if res == toString (fwd v w) then "ok" else "bad size"
  | "UpdateForward", [v, s] => if res == toString ((v + s) % M) then "ok" else "bad updateForward"
  | _, _ => "bad-op"

end Spec.C14
