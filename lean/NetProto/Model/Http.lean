/-! Model of the bundled HTTP layer (`protocol/application/http`), core only.  Go strings are byte strings: here
`List Nat`.  `matchUntil` = `pkg.go: match_until`, `parse` = `request.go: (*Request).parse` (the same parser is used by
the server on requests and by the bundled client on responses), `buildRequest` = `request_client.go: send`,
`buildResponse` = `response.go: send_response` / `build_and_send_response`, `serve` = `connection.go: handler` with
`server_patttern.go: dispatch`.  Header maps are association lists (later entries for a key win, as map assignment
does); Go's map iteration order is the order of the list handed to the builders, i.e. arbitrary. -/
namespace Model.Http

abbrev Bytes := List Nat

/-- ASCII literals only -/
def str (s : String) : Bytes := s.toList.map Char.toNat

def sp : Bytes := [32]
def crlf : Bytes := [13, 10]
def colonSp : Bytes := [58, 32]

/-- `strings.HasPrefix` -/
def hasPrefix : Bytes → Bytes → Bool
  | _, [] => true
  | [], _ :: _ => false
  | a :: as, d :: ds => a == d && hasPrefix as ds

/-- `strings.Index(buf, delim)` for a non-empty `delim` -/
def index (delim : Bytes) : Bytes → Option Nat
  | [] => none
  | a :: as => if hasPrefix (a :: as) delim then some 0 else (index delim as).map (· + 1)

/-- `match_until`: the text before the first `delim` and the text after it; two empty strings when absent -/
def matchUntil (buf delim : Bytes) : Bytes × Bytes :=
  match index delim buf with
  | none => ([], [])
  | some i => (buf.take i, buf.drop (i + delim.length))

inductive Method | get | head | notSupported | unknown
deriving Repr, DecidableEq

def getMethod (m : Bytes) : Method :=
  if m = str "GET" then .get else if m = str "HEAD" then .head
  else if m = str "POST" ∨ m = str "PUT" then .notSupported else .unknown

/-- `set_status_code`: only an unset (zero) status is replaced -/
def setStatus (cur code : Nat) : Nat := if cur = 0 then code else cur

def toLower (c : Nat) : Nat := if 65 ≤ c ∧ c ≤ 90 then c + 32 else c
/-- `strings.EqualFold` on ASCII -/
def equalFold (a b : Bytes) : Bool := a.map toLower == b.map toLower

/-- the header loop of `parse`: returns the headers in the order added and what is left (the body) -/
def headerLoop : Nat → Bytes → List (Bytes × Bytes) → List (Bytes × Bytes) × Bytes
  | 0, p, acc => (acc, p)
  | fuel + 1, p, acc =>
    if p = [] then (acc, p)
    else if hasPrefix p crlf then (acc, p.drop 2)      -- the empty line: the body starts after it
    else
      let k := matchUntil p colonSp
      let p1 := if k.1 ≠ [] then k.2 else p
      let v := matchUntil p1 crlf
      let p2 := if v.1 ≠ [] then v.2 else p1
      if k.1 = [] ∨ v.1 = [] then (acc, p2)
      else headerLoop fuel p2 (acc ++ [(k.1, v.1)])

structure Parsed where
  method : Bytes := []
  uri : Bytes := []
  version : Bytes := []
  headers : List (Bytes × Bytes) := []
  body : Bytes := []
  status : Nat := 200
deriving Repr, DecidableEq

/-- `(*Request).parse` on a connection whose status is `status0` (200 for every connection `NewCon` makes) -/
def parse (status0 : Nat) (buf : Bytes) : Parsed :=
  let m := matchUntil buf sp
  if m.1 = [] then { status := 400 }
  else
    let st1 := match getMethod m.1 with
      | .notSupported => setStatus status0 501
      | .unknown => 400
      | _ => status0
    let u := matchUntil m.2 sp
    let st2 := if u.1 = [] then 400 else st1
    let v := matchUntil u.2 crlf
    if v.1 = [] then { method := m.1, uri := u.1, status := 400 }
    else
      let st3 := if equalFold v.1 (str "HTTP/1.0") || equalFold v.1 (str "HTTP/1.1") then st2 else setStatus st2 400
      let h := headerLoop (v.2.length + 1) v.2 []
      { method := m.1, uri := u.1, version := v.1, headers := h.1, body := h.2, status := st3 }

/-- map lookup after the additions in list order -/
def lookup (hs : List (Bytes × Bytes)) (k : Bytes) : Option Bytes :=
  (hs.reverse.find? (·.1 = k)).map (·.2)

def headerLines : List (Bytes × Bytes) → Bytes
  | [] => []
  | (k, v) :: rest => k ++ colonSp ++ v ++ crlf ++ headerLines rest

/-- `(*Request).send`: the bytes the bundled client writes; `hs` in the (arbitrary) order the map is ranged over -/
def buildRequest (method uri : Bytes) (hs : List (Bytes × Bytes)) (body : Bytes) : Bytes :=
  (if method = [] then str "GET" else method) ++ sp ++ uri ++ sp ++ str "HTTP/1.1" ++ crlf ++ headerLines hs ++ crlf ++ body

def defaultSuccessMsg : Bytes := str "<HTML><HEAD><TITLE>SUCCESS</TITLE></HEAD><BODY><H1>github.com/brewlin/net-protocol/http</H1></BODY></HTML>"
def defaultErrMsg : Bytes := str "<HTML><HEAD><TITLE>ERROR</TITLE></HEAD><BODY><H1>SOMETING WRONG</H1></BODY></HTML>"

/-- `build_and_send_response`: status line from the request's version, the status digits and reason, headers, body -/
def buildResponse (version code reason : Bytes) (hs : List (Bytes × Bytes)) (body : Bytes) : Bytes :=
  version ++ sp ++ code ++ sp ++ reason ++ crlf ++ headerLines hs ++ crlf ++ body

/-- what serving one request does: which handler ran on what, and the response's status and body.
`mux` the registered patterns; `handler` what the handler registered for the path does with the request it sees: the
status it sets through `Response.Error` (0 = it does not) and the body it hands to `Response.End` (empty = it called
`End` with nothing, or not at all). -/
structure Served where
  invoked : Option Parsed      -- the request the handler saw, if one ran
  status : Nat
  body : Bytes
deriving Repr, DecidableEq

def serve (mux : List Bytes) (handler : Parsed → Nat × Bytes) (buf : Bytes) : Served :=
  let req := parse 200 buf
  if mux.contains req.uri then
    let h := handler req
    let status := if h.1 ≠ 0 then h.1 else req.status
    let b := if h.2 = [] then defaultSuccessMsg else h.2
    -- `send_response`: any status but 200 sends the standard error page
    { invoked := some req, status := status, body := if status ≠ 200 then defaultErrMsg else b }
  else
    -- `set_status_code(400)` on a status that is already set: nothing changes
    { invoked := none, status := setStatus req.status 400,
      body := if setStatus req.status 400 ≠ 200 then defaultErrMsg else defaultSuccessMsg }

end Model.Http
