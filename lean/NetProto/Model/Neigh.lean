import NetProto.Model.Header
/-! Model of neighbour resolution (core only): `stack/linkaddrcache.go` with an abstract clock,
the resolution goroutine as a timer event, and the ARP / NDP packet handlers. -/
namespace Model.Neigh

abbrev Addr := List Nat
abbrev Mac := List Nat

inductive EState | incomplete | ready | failed | expired
deriving Repr, DecidableEq, Inhabited

/-- cache key: (NIC, protocol address) -/
structure Key where
  nic : Nat
  addr : Addr
deriving Repr, DecidableEq, Inhabited

structure Entry where
  key : Key := ⟨0, []⟩
  link : Mac := []
  exp : Nat := 0
  st : EState := .incomplete
  /-- wakers registered while incomplete (only their number matters) -/
  waiters : Nat := 0
  /-- incarnation of the `done` channel: 0 = nil (zero-valued slot) -/
  gen : Nat := 0
deriving Repr, DecidableEq, Inhabited

/-- the resolution goroutine of one incarnation: waiting for its timer or for `done` -/
structure Res where
  key : Key
  gen : Nat
  attempt : Nat
  deadline : Nat
  localAddr : Addr
  proto : Nat
deriving Repr, DecidableEq, Inhabited

structure Cache where
  size : Nat := 512
  age : Nat := 60000
  timeout : Nat := 1000
  attempts : Nat := 3
  slots : List Entry := []          -- `size` entries
  /-- the map key ↦ slot index -/
  map : List (Key × Nat) := []
  next : Nat := 0
  now : Nat := 0
  gens : Nat := 0
  pending : List Res := []
deriving Repr, Inhabited

def Cache.init (size age timeout attempts : Nat) : Cache :=
  { size := size, age := age, timeout := timeout, attempts := attempts, slots := List.replicate size {} }

/-- observable effects -/
inductive Out
  | request (key : Key) (localAddr : Addr) (proto : Nat)    -- link address request broadcast
  | wake (key : Key) (n : Nat)                              -- waiters notified (done closed)
deriving Repr, DecidableEq

def Cache.lookup (c : Cache) (k : Key) : Option Nat := (c.map.find? (·.1 == k)).map (·.2)

/-- `entry.state()`: expires lazily -/
def stateOf (now : Nat) (e : Entry) : EState := if e.st != .expired && now > e.exp then .expired else e.st

/-- `changeState`: leaving `incomplete` wakes the waiters and closes `done`; `none` = the Go code panics -/
def changeState (e : Entry) (ns : EState) : Option (Entry × List Out) :=
  if e.st == ns then some (e, []) else
  match e.st with
  | .incomplete =>
    some ({ e with st := ns, waiters := 0 }, if e.gen != 0 then [.wake e.key e.waiters] else [])
  | .ready | .failed => if ns == .expired then some ({ e with st := ns }, []) else none
  | .expired => none

def Cache.setSlot (c : Cache) (i : Nat) (e : Entry) : Cache := { c with slots := c.slots.set i e }

/-- apply the lazy expiry of `state()` to slot `i` -/
def Cache.touch (c : Cache) (i : Nat) : Option (Cache × List Out) :=
  match c.slots[i]? with
  | none => some (c, [])
  | some e =>
    if e.st != .expired && c.now > e.exp then
      (changeState e .expired).map fun (e', o) => (c.setSlot i e', o)
    else some (c, [])

/-- goroutines whose incarnation left `incomplete` see `done` closed and stop -/
def Cache.cancel (c : Cache) : Cache :=
  { c with pending := c.pending.filter fun r =>
      c.slots.any fun e => e.gen == r.gen && e.st == .incomplete }

/-- `makeAndAddEntry` -/
def Cache.makeAndAdd (c : Cache) (k : Key) (v : Mac) : Option (Cache × Nat × List Out) :=
  let i := c.next
  match c.slots[i]? with
  | none => none
  | some old =>
    let map1 := if c.lookup old.key == some i then c.map.filter (·.1 != old.key) else c.map
    match changeState old .expired with
    | none => none
    | some (_, outs) =>
      let g := c.gens + 1
      let e : Entry := { key := k, link := v, exp := c.now + c.age, st := .incomplete, waiters := 0, gen := g }
      let c' := { c with slots := c.slots.set i e, map := (k, i) :: map1.filter (·.1 != k), next := (i + 1) % c.size, gens := g }
      some (c', i, outs)

/-- `add(k, v)` -/
def Cache.add (c : Cache) (k : Key) (v : Mac) : Option (Cache × List Out) :=
  let fresh (c : Cache) (o0 : List Out) : Option (Cache × List Out) :=
    match c.makeAndAdd k v with
    | none => none
    | some (c1, i, o1) =>
      match c1.slots[i]? with
      | none => none
      | some e => (changeState e .ready).map fun (e', o2) => ((c1.setSlot i e').cancel, o0 ++ o1 ++ o2)
  match c.lookup k with
  | none => fresh c []
  | some i =>
    match c.touch i with
    | none => none
    | some (c0, o0) =>
      match c0.slots[i]? with
      | none => none
      | some e =>
        if e.st != .expired && e.link == v then some (c0.cancel, o0)
        else if e.st == .incomplete then
          (changeState { e with link := v } .ready).map fun (e', o2) => ((c0.setSlot i e').cancel, o0 ++ o2)
        else fresh c0 o0

inductive GetRes
  | addr (m : Mac) | wouldBlock | noLinkAddr
deriving Repr, DecidableEq

/-- `get(k, …)`; `static` is the resolver's `ResolveStaticAddress` answer, `hasResolver` whether the
    network protocol has a resolver at all -/
def Cache.get (c : Cache) (k : Key) (static : Option Mac) (hasResolver : Bool) (localAddr : Addr) (proto : Nat)
    (observedWaker : Bool := true) : Option (Cache × GetRes × List Out) :=
  -- a waker nobody sleeps on (UDP's write path) is registered like any other but its wake-up is unobservable
  let w1 : Nat := if observedWaker then 1 else 0
  match static with
  | some m => some (c, .addr m, [])
  | none =>
    let startNew (c : Cache) (o0 : List Out) : Option (Cache × GetRes × List Out) :=
      if !hasResolver then some (c, .noLinkAddr, o0) else
      match c.makeAndAdd k [] with
      | none => none
      | some (c1, i, o1) =>
        match c1.slots[i]? with
        | none => none
        | some e =>
          let c2 := (c1.setSlot i { e with waiters := e.waiters + w1 }).cancel
          let r : Res := ⟨k, e.gen, 0, c2.now + c2.timeout, localAddr, proto⟩
          some ({ c2 with pending := c2.pending ++ [r] }, .wouldBlock, o0 ++ o1 ++ [.request k localAddr proto])
    match c.lookup k with
    | none => startNew c []
    | some i =>
      match c.touch i with
      | none => none
      | some (c0, o0) =>
        match c0.slots[i]? with
        | none => none
        | some e =>
          match e.st with
          | .expired => startNew c0.cancel o0
          | .ready => some (c0.cancel, .addr e.link, o0)
          | .failed => some (c0.cancel, .noLinkAddr, o0)
          | .incomplete => some (c0.setSlot i { e with waiters := e.waiters + w1 }, .wouldBlock, o0)

/-- the timer of a resolution goroutine fires: `checkLinkRequest(k, attempt)` and, if it goes on, the next request -/
def Cache.fire (c : Cache) (r : Res) : Option (Cache × List Out) :=
  let c := { c with pending := c.pending.filter (· != r) }
  match c.lookup r.key with
  | none => some (c, [])
  | some i =>
    match c.touch i with
    | none => none
    | some (c0, o0) =>
      match c0.slots[i]? with
      | none => none
      | some e =>
        match e.st with
        | .incomplete =>
          if r.attempt + 1 ≥ c0.attempts then
            (changeState e .failed).map fun (e', o) => ((c0.setSlot i e').cancel, o0 ++ o)
          else
            some ({ c0 with pending := c0.pending ++ [{ r with attempt := r.attempt + 1, deadline := r.deadline + c0.timeout }] },
                  o0 ++ [.request r.key r.localAddr r.proto])
        | _ => some (c0.cancel, o0)

/-- time advances to `t`: every timer whose deadline has passed fires, earliest first -/
def Cache.advance (c : Cache) (t : Nat) : Nat → Option (Cache × List Out)
  | 0 => some ({ c with now := max c.now t }, [])
  | fuel + 1 =>
    match (c.pending.filter (·.deadline ≤ t)).foldl
        (fun best r => match best with | none => some r | some b => if r.deadline < b.deadline then some r else some b) none with
    | none => some ({ c with now := max c.now t }, [])
    | some r =>
      match ({ c with now := max c.now r.deadline }).fire r with
      | none => none
      | some (c1, o1) => (c1.advance t fuel).map fun (c2, o2) => (c2, o1 ++ o2)

/-! ### ARP packet handler -/

structure ArpOut where
  /-- reply frame (ARP body) and the link address it is sent to -/
  reply : Option (List Nat × Mac)
  /-- mapping learned: (protocol address, link address) -/
  learn : Option (Addr × Mac)
deriving Repr, DecidableEq

/-- `arp.HandlePacket`: `localAddrs` are the addresses of any NIC that `CheckLocalAddress` accepts,
    `ourMac` the link address of the receiving NIC, `fromMac` the link-layer source of the frame -/
def arpHandle (pkt : List Nat) (isLocal : Addr → Bool) (ourMac fromMac : Mac) : ArpOut :=
  if !Model.Header.arpIsValid pkt then ⟨none, none⟩ else
  let op := Model.Header.rd16 pkt 6
  let sha := (pkt.drop 8).take 6
  let spa := (pkt.drop 14).take 4
  let tpa := (pkt.drop 24).take 4
  if op == 1 then
    if !isLocal tpa then ⟨none, none⟩
    else
      let reply := Model.Header.arpBuild (List.replicate 28 0) 2 ourMac tpa sha spa
      ⟨some (reply, fromMac), some (spa, sha)⟩
  else if op == 2 then ⟨none, some (spa, sha)⟩
  else ⟨none, none⟩

end Model.Neigh
