/-! Model of `protocol/network/fragmentation` (core only).
Payloads are byte lists (chunking is irrelevant by C16); `first/last` are `uint16` values given as
`Nat`.  The reassembler's heap is a list kept sorted by offset (stable insertion); theorems
quantify over every order that is sorted by offset, so heap tie-breaking does not matter. -/
namespace Model.Frag

structure Hole where
  first : Nat
  last : Nat
  deleted : Bool
deriving Repr, DecidableEq, Inhabited

/-- the loop body's guard: the fragment touches this live hole -/
def hit (h : Hole) (f l : Nat) : Bool := !(h.deleted || f > h.last || l < h.first)

def pieces (h : Hole) (f l : Nat) (more : Bool) : List Hole :=
  (if f > h.first then [⟨h.first, f - 1, false⟩] else []) ++
  (if l < h.last && more then [⟨l + 1, h.last, false⟩] else [])

/-- `updateHoles`: `for i := range r.holes` visits the holes present at loop entry; new pieces are appended -/
def updateHoles (hs : List Hole) (f l : Nat) (more : Bool) : List Hole :=
  hs.map (fun h => if hit h f l then { h with deleted := true } else h) ++
  hs.flatMap (fun h => if hit h f l then pieces h f l more else [])

def hitCount (hs : List Hole) (f l : Nat) : Nat := (hs.filter (hit · f l)).length

structure Frag where
  offset : Nat
  data : List Nat
deriving Repr, DecidableEq, Inhabited

/-- stable insertion by offset (container/heap order for equal offsets is unspecified) -/
def insertFrag (x : Frag) : List Frag → List Frag
  | [] => [x]
  | y :: t => if x.offset < y.offset then x :: y :: t else y :: insertFrag x t

inductive RErr | emptyHeap | firstNotZero | hole
deriving Repr, DecidableEq

def reassembleLoop : List Frag → List Nat → Except RErr (List Nat)
  | [], acc => .ok acc
  | c :: t, acc =>
    if c.offset < acc.length then reassembleLoop t (acc ++ c.data.drop (acc.length - c.offset))
    else if c.offset > acc.length then .error .hole
    else reassembleLoop t (acc ++ c.data)

/-- `fragHeap.reassemble` on the fragments in pop order -/
def reassemble : List Frag → Except RErr (List Nat)
  | [] => .error .emptyHeap
  | c :: t => if c.offset ≠ 0 then .error .firstNotZero else reassembleLoop t c.data

structure Reasm where
  holes : List Hole := [⟨0, 65535, false⟩]
  deleted : Nat := 0
  heap : List Frag := []
  done : Bool := false
  size : Nat := 0
deriving Repr, Inhabited

inductive PRes
  | notReady | ready (data : List Nat) | failed (e : RErr)
deriving Repr, DecidableEq

/-- `reassembler.process`; returns the new state, the outcome and the bytes consumed.
    `failed` is the branch on which the pinned code panicked (D1) and the repaired code reports
    an error to `Process`, which drops the reassembler. -/
def Reasm.process (r : Reasm) (f l : Nat) (more : Bool) (data : List Nat) : Reasm × PRes × Nat :=
  if r.done then (r, .notReady, 0) else
  let used := hitCount r.holes f l > 0
  let r1 : Reasm := { r with holes := updateHoles r.holes f l more, deleted := r.deleted + hitCount r.holes f l }
  let r2 : Reasm := if used then { r1 with heap := insertFrag ⟨f, data⟩ r1.heap, size := r1.size + data.length } else r1
  let consumed := if used then data.length else 0
  if r2.deleted < r2.holes.length then (r2, .notReady, consumed)
  else match reassemble r2.heap with
    | .ok d => ({ r2 with heap := [] }, .ready d, consumed)
    | .error e => ({ r2 with heap := [] }, .failed e, consumed)

/-! ### `Fragmentation` -/

structure Frg where
  high : Int
  low : Int
  /-- `rList` front first; the map is the same set of ids -/
  rs : List (Nat × Reasm) := []
  size : Int := 0
deriving Repr, Inhabited

def Frg.new (high low : Int) : Frg :=
  let low := if low ≥ high then high else low
  let low := if low < 0 then 0 else low
  { high := high, low := low }

def Frg.lookup (f : Frg) (id : Nat) : Option Reasm := (f.rs.find? (·.1 == id)).map (·.2)

/-- `release` of a reassembler that is not yet marked done -/
def Frg.release (f : Frg) (id : Nat) : Frg :=
  match f.lookup id with
  | none => f
  | some r =>
    let s := f.size - r.size
    { f with rs := f.rs.filter (·.1 != id), size := if s < 0 then 0 else s }

/-- evict from the back of the list while over the low limit -/
def evict : Nat → Frg → Frg
  | 0, f => f
  | fuel + 1, f =>
    if f.size > f.low then
      match f.rs.getLast? with
      | none => f
      | some (id, _) => evict fuel (f.release id)
    else f

/-- `Process`; `expired` says whether the existing reassembler for `id` is older than the timeout
    (the clock is abstract).  Returns the new state and the delivered datagram, if any. -/
def Frg.process (f : Frg) (id : Nat) (expired : Bool) (first last : Nat) (more : Bool) (data : List Nat) :
    Frg × PRes :=
  let f := if expired then f.release id else f
  let (f, r) := match f.lookup id with
    | some r => (f, r)
    | none => ({ f with rs := (id, ({} : Reasm)) :: f.rs }, ({} : Reasm))
  let (r', res, consumed) := r.process first last more data
  let f := { f with rs := f.rs.map fun p => if p.1 == id then (id, r') else p, size := f.size + consumed }
  let f := match res with
    | .notReady => f
    | _ => f.release id       -- done, or (repaired code) failed: the reassembler is dropped
  let f := if f.size > f.high then evict (f.rs.length + 1) f else f
  (f, res)

end Model.Frag
