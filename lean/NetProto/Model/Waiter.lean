/-! Pointer-level model of `pkg/ilist` + `pkg/waiter` (core only).
Entries are identified by numbers; the heap maps an entry to its `prev`/`next` links and mask. -/
namespace Model.Waiter

structure Node where
  prev : Option Nat := none
  next : Option Nat := none
  mask : Nat := 0
  /-- channel-backed entries: the one-slot channel holds a token -/
  token : Bool := false
deriving Repr, DecidableEq, Inhabited

structure Q where
  nodes : Nat → Node := fun _ => {}
  head : Option Nat := none
  tail : Option Nat := none

def upd (f : Nat → Node) (i : Nat) (n : Node) : Nat → Node := fun j => if j = i then n else f j

/-- `EventRegister`: `e.mask = mask; list.PushBack(e)` -/
def register (q : Q) (e mask : Nat) : Q :=
  let n1 := upd q.nodes e { q.nodes e with mask := mask, next := none, prev := q.tail }
  match q.tail with
  | some t => { nodes := upd n1 t { n1 t with next := some e }, head := q.head, tail := some e }
  | none => { nodes := n1, head := some e, tail := some e }

/-- `EventUnregister`: `list.Remove(e)` (the entry's own links are left as they are) -/
def unregister (q : Q) (e : Nat) : Q :=
  let p := (q.nodes e).prev
  let n := (q.nodes e).next
  let (nodes1, head1) := match p with
    | some pp => (upd q.nodes pp { q.nodes pp with next := n }, q.head)
    | none => (q.nodes, n)
  let (nodes2, tail2) := match n with
    | some nn => (upd nodes1 nn { nodes1 nn with prev := p }, q.tail)
    | none => (nodes1, p)
  { nodes := nodes2, head := head1, tail := tail2 }

/-- `for it := Front(); it != nil; it = it.Next()` -/
def walk (nodes : Nat → Node) : Nat → Option Nat → List Nat
  | 0, _ => []
  | _, none => []
  | fuel + 1, some x => x :: walk nodes fuel (nodes x).next

def toList (q : Q) (fuel : Nat) : List Nat := walk q.nodes fuel q.head

/-- `Notify(mask)`: the entries called back, in order; channel entries get a token (non-blocking send) -/
def notify (q : Q) (fuel : Nat) (mask : Nat) : Q × List Nat :=
  let hit := (toList q fuel).filter fun e => mask &&& (q.nodes e).mask != 0
  ({ q with nodes := fun j => if hit.contains j then { q.nodes j with token := true } else q.nodes j }, hit)

def events (q : Q) (fuel : Nat) : Nat := (toList q fuel).foldl (fun acc e => acc ||| (q.nodes e).mask) 0

def isEmpty (q : Q) : Bool := q.head.isNone

/-- the waiter takes the token from its channel -/
def take (q : Q) (e : Nat) : Q × Bool :=
  ({ q with nodes := upd q.nodes e { q.nodes e with token := false } }, (q.nodes e).token)

end Model.Waiter
