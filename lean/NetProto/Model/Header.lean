/-! Hand-written executable model of `protocol/header` (core only).
Bytes are `Nat`s below 256; a header buffer is a `List Nat`.  Go's in-place writes
become `setAt`; reads outside the buffer would be Go panics and are modelled by
`Option` in the parsers (the fixed-header accessors are only applied to buffers that
are long enough, which the harness guarantees and `IsValid` checks). -/
namespace Model.Header

def be16 (v : Nat) : List Nat := [v / 256 % 256, v % 256]
def be32 (v : Nat) : List Nat := [v / 16777216 % 256, v / 65536 % 256, v / 256 % 256, v % 256]

def rd8 (b : List Nat) (off : Nat) : Nat := b.getD off 0
def rd16 (b : List Nat) (off : Nat) : Nat := rd8 b off * 256 + rd8 b (off + 1)
def rd32 (b : List Nat) (off : Nat) : Nat :=
  rd8 b off * 16777216 + rd8 b (off + 1) * 65536 + rd8 b (off + 2) * 256 + rd8 b (off + 3)

/-- overwrite `vs` into `b` at `off` (like `copy(b[off:], vs)`: stops at the end of `b`) -/
def setAt (b : List Nat) (off : Nat) (vs : List Nat) : List Nat :=
  b.take off ++ (vs.take (b.length - off)) ++ b.drop (off + vs.length)

/-! ## Internet checksum as the code computes it -/


/-- the `for i := 0; i < l; i += 2` loop with a uint32 accumulator -/
def sumPairs : List Nat → Nat → Nat
  | a :: b :: t, v => sumPairs t ((v + (a * 256 + b)) % 4294967296)
  | _, v => v

def combine (a b : Nat) : Nat := let v := a + b; (v + v / 65536) % 65536

def checksum (buf : List Nat) (init : Nat) : Nat :=
  let l := buf.length
  let v0 := if l % 2 = 1 then (init + buf.getD (l - 1) 0 * 256) % 4294967296 else init
  let body := if l % 2 = 1 then buf.take (l - 1) else buf
  let v := sumPairs body v0
  combine (v % 65536) (v / 65536 % 65536)

def pseudoHeaderChecksum (proto : Nat) (src dst : List Nat) : Nat :=
  checksum [0, proto % 256] (checksum dst (checksum src 0))

/-! ## Fixed headers -/

structure IPv4Fields where
  ihl : Nat
  tos : Nat
  totalLength : Nat
  id : Nat
  flags : Nat
  fragmentOffset : Nat
  ttl : Nat
  protocol : Nat
  checksum : Nat
  src : List Nat
  dst : List Nat
deriving Repr, DecidableEq

def ipv4Encode (b : List Nat) (f : IPv4Fields) : List Nat :=
  let b := setAt b 0 [(64 + (f.ihl / 4) % 16) % 256]
  let b := setAt b 1 [f.tos]
  let b := setAt b 2 (be16 f.totalLength)
  let b := setAt b 4 (be16 f.id)
  let b := setAt b 6 (be16 (((f.flags * 8192) % 65536) ||| (f.fragmentOffset / 8)))
  let b := setAt b 8 [f.ttl]
  let b := setAt b 9 [f.protocol]
  let b := setAt b 10 (be16 f.checksum)
  let b := setAt b 12 (f.src.take 4)
  setAt b 16 (f.dst.take 4)

def ipv4HeaderLength (b : List Nat) : Nat := (rd8 b 0 % 16) * 4 % 256
def ipv4ID (b : List Nat) : Nat := rd16 b 4
def ipv4Flags (b : List Nat) : Nat := rd16 b 6 / 8192
def ipv4FragmentOffset (b : List Nat) : Nat := rd16 b 6 * 8 % 65536
def ipv4TotalLength (b : List Nat) : Nat := rd16 b 2
def ipv4Checksum (b : List Nat) : Nat := rd16 b 10
def ipv4PayloadLength (b : List Nat) : Nat := (ipv4TotalLength b + 65536 - ipv4HeaderLength b) % 65536
def ipv4IsValid (b : List Nat) (pktSize : Nat) : Bool :=
  if b.length < 20 then false
  else !(ipv4HeaderLength b > ipv4TotalLength b || ipv4TotalLength b > pktSize)
/-- `b[:hl]` panics in Go when `hl` exceeds the buffer -/
def ipv4CalculateChecksum (b : List Nat) : Option Nat :=
  if ipv4HeaderLength b > b.length then none else some (checksum (b.take (ipv4HeaderLength b)) 0)
def ipv4EncodePartial (b : List Nat) (part totalLength : Nat) : List Nat :=
  let b := setAt b 2 (be16 totalLength)
  let c := checksum ((b.drop 2).take 2) part
  setAt b 10 (be16 (65535 - c))

structure TCPFields where
  srcPort : Nat
  dstPort : Nat
  seq : Nat
  ack : Nat
  dataOffset : Nat
  flags : Nat
  window : Nat
  checksum : Nat
  urgent : Nat
deriving Repr, DecidableEq

def tcpEncode (b : List Nat) (t : TCPFields) : List Nat :=
  let b := setAt b 4 (be32 t.seq)
  let b := setAt b 8 (be32 t.ack)
  let b := setAt b 13 [t.flags]
  let b := setAt b 14 (be16 t.window)
  let b := setAt b 0 (be16 t.srcPort)
  let b := setAt b 2 (be16 t.dstPort)
  let b := setAt b 12 [(t.dataOffset / 4) * 16 % 256]
  let b := setAt b 16 (be16 t.checksum)
  setAt b 18 (be16 t.urgent)

def tcpDataOffset (b : List Nat) : Nat := (rd8 b 12 / 16) * 4

def tcpCalculateChecksum (b : List Nat) (part totalLen : Nat) : Nat :=
  checksum (b.take (tcpDataOffset b)) (checksum (be16 totalLen) part)

def tcpEncodePartial (b : List Nat) (part length seq ack flags wnd : Nat) : List Nat :=
  let c := checksum (be16 length ++ be16 flags) part
  let b := setAt b 4 (be32 seq)
  let b := setAt b 8 (be32 ack)
  let b := setAt b 13 [flags]
  let b := setAt b 14 (be16 wnd)
  let c := checksum ((b.drop 4).take 8) c
  let c := checksum ((b.drop 14).take 2) c
  setAt b 16 (be16 (65535 - c))

structure UDPFields where
  srcPort : Nat
  dstPort : Nat
  length : Nat
  checksum : Nat
deriving Repr, DecidableEq

def udpEncode (b : List Nat) (u : UDPFields) : List Nat :=
  let b := setAt b 0 (be16 u.srcPort)
  let b := setAt b 2 (be16 u.dstPort)
  let b := setAt b 4 (be16 u.length)
  setAt b 6 (be16 u.checksum)

def udpCalculateChecksum (b : List Nat) (part totalLen : Nat) : Nat :=
  checksum (b.take 8) (checksum (be16 totalLen) part)

def ethEncode (b : List Nat) (src dst : List Nat) (ty : Nat) : List Nat :=
  let b := setAt b 12 (be16 ty)
  let b := setAt b 6 (src.take 6)
  setAt b 0 (dst.take 6)

structure IPv6Fields where
  trafficClass : Nat
  flowLabel : Nat
  payloadLength : Nat
  nextHeader : Nat
  hopLimit : Nat
  src : List Nat
  dst : List Nat
deriving Repr, DecidableEq

def ipv6Encode (b : List Nat) (f : IPv6Fields) : List Nat :=
  let vtf := (6 * 268435456) ||| (f.trafficClass * 1048576) ||| (f.flowLabel % 1048576)
  let b := setAt b 0 (be32 vtf)
  let b := setAt b 4 (be16 f.payloadLength)
  let b := setAt b 6 [f.nextHeader]
  let b := setAt b 7 [f.hopLimit]
  let b := setAt b 8 (f.src.take 16)
  setAt b 24 (f.dst.take 16)

def ipv6IsValid (b : List Nat) (pktSize : Int) : Bool :=
  if b.length < 40 then false else !((rd16 b 4 : Int) > pktSize - 40)

/-- ARP: SetIpv4OverEthernet, SetOp, then the four address copies -/
def arpBuild (b : List Nat) (op : Nat) (sha spa tha tpa : List Nat) : List Nat :=
  let b := setAt b 0 [0, 1, 8, 0, 6, 4]
  let b := setAt b 6 (be16 op)
  let b := setAt b 8 (sha.take 6)
  let b := setAt b 14 (spa.take 4)
  let b := setAt b 18 (tha.take 6)
  setAt b 24 (tpa.take 4)

def arpIsValid (a : List Nat) : Bool :=
  if a.length < 28 then false
  else rd16 a 0 == 1 && rd16 a 2 == 0x0800 && rd8 a 4 == 6 && rd8 a 5 == 4

/-! ## TCP options -/

structure SynOpts where
  mss : Nat := 536
  ws : Int := -1
  ts : Bool := false
  tsVal : Nat := 0
  tsEcr : Nat := 0
  sackPermitted : Bool := false
deriving Repr, DecidableEq

/-- `ParseSynOptions`; `fuel` bounds the loop (every iteration advances `i` by ≥ 1).
    Reads use `getD` but are all guarded by the same bounds checks as the Go code. -/
def parseSynAux (opts : List Nat) (limit : Nat) (isAck : Bool) : Nat → Nat → SynOpts → SynOpts
  | 0, _, so => so
  | fuel + 1, i, so =>
    if i < limit then
      let k := rd8 opts i
      if k = 0 then so
      else if k = 1 then parseSynAux opts limit isAck fuel (i + 1) so
      else if k = 2 then
        if i + 4 > limit || rd8 opts (i + 1) != 4 then so
        else
          let mss := rd16 opts (i + 2)
          if mss = 0 then so else parseSynAux opts limit isAck fuel (i + 4) { so with mss := mss }
      else if k = 3 then
        if i + 3 > limit || rd8 opts (i + 1) != 3 then so
        else
          let ws := rd8 opts (i + 2)
          let ws := if ws > 14 then 14 else ws
          parseSynAux opts limit isAck fuel (i + 3) { so with ws := ws }
      else if k = 8 then
        if i + 10 > limit || rd8 opts (i + 1) != 10 then so
        else
          let so := { so with tsVal := rd32 opts (i + 2) }
          let so := if isAck then { so with tsEcr := rd32 opts (i + 6) } else so
          parseSynAux opts limit isAck fuel (i + 10) { so with ts := true }
      else if k = 4 then
        if i + 2 > limit || rd8 opts (i + 1) != 2 then so
        else parseSynAux opts limit isAck fuel (i + 2) { so with sackPermitted := true }
      else
        if i + 2 > limit then so
        else
          let l := rd8 opts (i + 1)
          if l < 2 || i + l > limit then so
          else parseSynAux opts limit isAck fuel (i + l) so
    else so

def parseSynOptions (opts : List Nat) (isAck : Bool) : SynOpts :=
  parseSynAux opts opts.length isAck (opts.length + 1) 0 {}

structure TCPOpts where
  ts : Bool := false
  tsVal : Nat := 0
  tsEcr : Nat := 0
  /-- `none` = nil slice (no SACK option seen) -/
  sack : Option (List (Nat × Nat)) := none
deriving Repr, DecidableEq

def readBlocks (b : List Nat) (base : Nat) : Nat → List (Nat × Nat)
  | 0 => []
  | n + 1 => (rd32 b base, rd32 b (base + 4)) :: readBlocks b (base + 8) n

def parseTCPAux (b : List Nat) (limit : Nat) : Nat → Nat → TCPOpts → TCPOpts
  | 0, _, o => o
  | fuel + 1, i, o =>
    if i < limit then
      let k := rd8 b i
      if k = 0 then o
      else if k = 1 then parseTCPAux b limit fuel (i + 1) o
      else if k = 8 then
        if i + 10 > limit || rd8 b (i + 1) != 10 then o
        else parseTCPAux b limit fuel (i + 10) { o with ts := true, tsVal := rd32 b (i + 2), tsEcr := rd32 b (i + 6) }
      else if k = 5 then
        if i + 2 > limit then o
        else
          let l := rd8 b (i + 1)
          -- Go: (l-2)%8 != 0 with truncated signed remainder: l = 0,1 give -2,-1
          if i + l > limit || l < 2 || (l - 2) % 8 != 0 then o
          else
            let o := { o with sack := some (readBlocks b (i + 2) ((l - 2) / 8)) }
            -- l = 2: zero blocks, i += 2
            parseTCPAux b limit fuel (i + l) o
      else
        if i + 2 > limit then o
        else
          let l := rd8 b (i + 1)
          if l < 2 || i + l > limit then o
          else parseTCPAux b limit fuel (i + l) o
    else o

def parseTCPOptions (b : List Nat) : TCPOpts := parseTCPAux b b.length (b.length + 1) 0 {}

def encodeMSS (mss : Nat) (b : List Nat) : List Nat × Nat :=
  if b.length < 4 then (b, 0) else (setAt b 0 [2, 4, mss / 256 % 256, mss % 256], 4)
def encodeWS (ws : Nat) (b : List Nat) : List Nat × Nat :=
  if b.length < 3 then (b, 0) else (setAt b 0 [3, 3, ws % 256], 3)
def encodeTS (v e : Nat) (b : List Nat) : List Nat × Nat :=
  if b.length < 10 then (b, 0) else (setAt b 0 ([8, 10] ++ be32 v ++ be32 e), 10)
def encodeSACKPermitted (b : List Nat) : List Nat × Nat :=
  if b.length < 2 then (b, 0) else (setAt b 0 [4, 2], 2)

def blocksBytes : List (Nat × Nat) → List Nat
  | [] => []
  | (s, e) :: t => be32 s ++ be32 e ++ blocksBytes t

def encodeSACKBlocks (blocks : List (Nat × Nat)) (b : List Nat) : List Nat × Nat :=
  if blocks.length = 0 then (b, 0) else
  let l := min blocks.length 4
  -- Go: (len(b)-2)/8 truncates toward zero, so len(b) < 2 gives 0
  let ll := (b.length - 2) / 8
  let l := if ll < l then ll else l
  if l = 0 then (b, 0) else
  (setAt b 0 ([5, (l * 8 + 2) % 256] ++ blocksBytes (blocks.take l)), (l * 8 + 2) % 256)

/-- `AddTCPOptionPadding`: `-offset & 3` NOPs written from `offset` -/
def padCount (offset : Nat) : Nat := (4 - offset % 4) % 4
def addPadding (b : List Nat) (offset : Nat) : List Nat × Nat :=
  (setAt b offset (List.replicate (padCount offset) 1), padCount offset)

end Model.Header
