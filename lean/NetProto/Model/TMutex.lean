/-! Interleaving model of `pkg/tmutex` (core only): one atomic / channel operation per step,
any number of threads.  `v` is the mutex word, `tok` the one-slot channel. -/
namespace Model.TMutex

/-- where a thread is: between operations (`idle` not holding, `held` holding) or *about to*
    execute the named atomic operation -/
inductive PC
  | idle | held
  | la    -- Lock: AddInt32(&v,-1)
  | ll    -- Lock: LoadInt32(&v)
  | ls    -- Lock: SwapInt32(&v,-1)
  | lr    -- Lock: <-ch   (blocking)
  | tl    -- TryLock: LoadInt32
  | tc    -- TryLock: CompareAndSwapInt32(&v,1,0)
  | us    -- Unlock: SwapInt32(&v,1)
  | ud    -- Unlock: non-blocking send on ch
deriving Repr, DecidableEq, Inhabited

/-- what the calling goroutine observes from one step -/
inductive Ev
  | none | acquired | tryFalse | tryTrue | unlocked
deriving Repr, DecidableEq

/-- the blocking receive is the only operation that can be disabled -/
def enabled (tok : Bool) : PC → Bool
  | .lr => tok
  | .idle => false
  | .held => false
  | _ => true

/-- one atomic step of a thread at `pc` -/
def stepPC (v : Int) (tok : Bool) : PC → Int × Bool × PC × Ev
  | .la => if v - 1 = 0 then (v - 1, tok, .held, .acquired) else (v - 1, tok, .ll, .none)
  | .ll => if v ≥ 0 then (v, tok, .ls, .none) else (v, tok, .lr, .none)
  | .ls => if v = 1 then (-1, tok, .held, .acquired) else (-1, tok, .lr, .none)
  | .lr => (v, false, .ll, .none)
  | .tl => if v ≤ 0 then (v, tok, .idle, .tryFalse) else (v, tok, .tc, .none)
  | .tc => if v = 1 then (0, tok, .held, .tryTrue) else (v, tok, .idle, .tryFalse)
  | .us => if v = 0 then (1, tok, .idle, .unlocked) else (1, tok, .ud, .none)
  | .ud => (v, true, .idle, .unlocked)
  | .idle => (v, tok, .idle, .none)
  | .held => (v, tok, .held, .none)

structure St where
  v : Int := 1
  tok : Bool := false
  pcs : List PC := []
deriving Repr, Inhabited

/-- thread `i` takes one atomic step (no-op if it is not at an enabled point) -/
def St.step (s : St) (i : Nat) : St × Ev :=
  match s.pcs[i]? with
  | none => (s, .none)
  | some pc =>
    if enabled s.tok pc then
      let (v', tok', pc', ev) := stepPC s.v s.tok pc
      ({ v := v', tok := tok', pcs := s.pcs.set i pc' }, ev)
    else (s, .none)

inductive Call | lock | tryLock | unlock
deriving Repr, DecidableEq

/-- thread `i` starts an operation: `Lock`/`TryLock` when not holding, `Unlock` when holding -/
def St.start (s : St) (i : Nat) (c : Call) : St :=
  match s.pcs[i]?, c with
  | some .idle, .lock => { s with pcs := s.pcs.set i .la }
  | some .idle, .tryLock => { s with pcs := s.pcs.set i .tl }
  | some .held, .unlock => { s with pcs := s.pcs.set i .us }
  | _, _ => s

inductive Act
  | start (i : Nat) (c : Call)
  | step (i : Nat)
deriving Repr

def St.act (s : St) : Act → St
  | .start i c => s.start i c
  | .step i => (s.step i).1

end Model.TMutex
