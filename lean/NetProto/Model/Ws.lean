import NetProto.Model.Http
import NetProto.Spec.Ws
/-! Model of the bundled WebSocket codec (`protocol/application/websocket`), core only.
`sendData` = `conn.go: SendData` (the bytes written to the connection), `readData` = `conn.go: ReadData` over the
byte stream `Readn` draws from (`Readn(p)` returns exactly `len(p)` bytes, waiting for more when the stream is
short: `needMore`), `maskBytes` = `utils.go: maskBytes`. -/
namespace Model.Ws
open Model.Http (str lookup Parsed equalFold)

abbrev Bytes := List Nat

/-- big-endian encoding in `n` bytes -/
def beBytes : Nat → Nat → Bytes
  | 0, _ => []
  | n + 1, v => beBytes n (v / 256) ++ [v % 256]

def beVal (b : Bytes) : Nat := b.foldl (fun acc x => acc * 256 + x) 0

def finalBit : Nat := 128
def maskBit : Nat := 128
def textMessage : Nat := 1
def closeMessage : Nat := 8

/-- `SendData`: final text frame, never masked, length in 7, 16 or 64 bits -/
def sendData (data : Bytes) : Bytes :=
  let length := data.length
  if length ≥ 65536 then [textMessage + finalBit, 127] ++ beBytes 8 length ++ data
  else if length > 125 then [textMessage + finalBit, 126] ++ beBytes 2 length ++ data
  else [textMessage + finalBit, length] ++ data

/-- `maskBytes`: byte `i` is xored with `key[i % 4]` -/
def maskFrom (key : Bytes) : Nat → Bytes → Bytes
  | _, [] => []
  | pos, b :: bs => (b ^^^ key.getD (pos % 4) 0) :: maskFrom key (pos + 1) bs

def maskBytes (key : Bytes) (b : Bytes) : Bytes := maskFrom key 0 b

inductive ReadRes
  | data (msg : Bytes) (rest : Bytes)      -- a message, and the bytes left in the stream
  | needMore                               -- `Readn` waits: the stream ends inside the frame
  | notFinal (rest : Bytes)                -- "not suppeort fragmented message"
  | closed (rest : Bytes)                  -- close frame: the connection is closed
  | notText (rest : Bytes)                 -- "only support text message"
  | panic                                  -- `make([]byte, dataLen)` with a negative length
deriving Repr, DecidableEq

/-- `Readn`: exactly `n` bytes or wait -/
def readn (n : Nat) (s : Bytes) : Option (Bytes × Bytes) :=
  if n ≤ s.length then some (s.take n, s.drop n) else none

def readPayload (mask : Bool) (dataLen : Nat) (s : Bytes) : ReadRes :=
  if mask then
    match readn 4 s with
    | none => .needMore
    | some (key, s1) =>
      match readn dataLen s1 with
      | none => .needMore
      | some (p, rest) => .data (maskBytes key p) rest
  else
    match readn dataLen s with
    | none => .needMore
    | some (p, rest) => .data p rest

def readData (s : Bytes) : ReadRes :=
  match readn 2 s with
  | none => .needMore
  | some (b, s1) =>
    let b0 := b.getD 0 0
    let b1 := b.getD 1 0
    if b0 / 128 % 2 = 0 then .notFinal s1
    else if b0 % 16 = closeMessage then .closed s1
    else if b0 % 16 ≠ textMessage then .notText s1
    else
      let mask := b1 / 128 % 2 = 1
      let payloadLen := b1 % 128
      if payloadLen = 126 then
        match readn 2 s1 with
        | none => .needMore
        | some (l, s2) => readPayload mask (beVal l) s2
      else if payloadLen = 127 then
        match readn 8 s1 with
        | none => .needMore
        | some (l, s2) =>
          -- int64(Uint64): a set top bit is a negative length
          if beVal l ≥ 2 ^ 63 then .panic else readPayload mask (beVal l) s2
      else readPayload mask payloadLen s1

/-- reading messages until the stream is used up (or the reader stops) -/
def readAll : Nat → Bytes → List Bytes
  | 0, _ => []
  | fuel + 1, s =>
    match readData s with
    | .data m rest => m :: readAll fuel rest
    | _ => []

/-! ### the upgrade (`upgrade.go: Upgrade`, `utils.go`) -/

/-- `strings.Split(h, ",")` -/
def splitComma : Bytes → Bytes → List Bytes
  | cur, [] => [cur]
  | cur, c :: cs => if c = 44 then cur :: splitComma [] cs else splitComma (cur ++ [c]) cs

def isSpace (c : Nat) : Bool := c = 32 ∨ (9 ≤ c ∧ c ≤ 13)
/-- `strings.TrimSpace` on ASCII -/
def trimSpace (b : Bytes) : Bytes := ((b.dropWhile isSpace).reverse.dropWhile isSpace).reverse

def tokenListContainsValue (h value : Bytes) : Bool :=
  (splitComma [] h).any (fun s => equalFold value (trimSpace s))

def hdr (r : Parsed) (k : String) : Bytes := (lookup r.headers (str k)).getD []

/-- `computeAcceptKey` is Go's `crypto/sha1` and `encoding/base64` applied as RFC 6455 says; the model takes the
specification's function (tied to the library by the correspondence check) -/
def computeAcceptKey (k : Bytes) : Bytes := Spec.Ws.acceptKey k

def upgradeHead : Bytes := str "HTTP/1.1 101 Switching Protocols\r\nUpgrade: websocket\r\nConnection: Upgrade\r\nSec-WebSocket-Accept: "

/-- `Upgrade`: the bytes written on success, `none` when one of the checks refuses -/
def upgrade (r : Parsed) : Option Bytes :=
  if r.method ≠ str "GET" then none
  else if hdr r "Sec-WebSocket-Version" ≠ str "13" then none
  else if !tokenListContainsValue (hdr r "Connection") (str "upgrade") then none
  else if hdr r "Upgrade" ≠ str "websocket" then none
  else if hdr r "Sec-WebSocket-Key" = [] then none
  else some (upgradeHead ++ computeAcceptKey (hdr r "Sec-WebSocket-Key") ++ Model.Http.crlf ++ Model.Http.crlf)

end Model.Ws
