/-! Interleaving model of `pkg/sleep` (core only): one sleeper with its fetching goroutine, any number of
goroutines asserting / clearing wakers; one atomic operation per step, at the schedule points compiled into
`sleep_unsafe.go` under the `verif` tag.  `ws k` is the pointer `w.s` of waker `k` (nil / this sleeper /
`&assertedSleeper`), `shared` the CAS-pushed stack of asserted wakers (top first), `local` the fetcher's private
list, `wg` the word `waitingG`. -/
namespace Model.Sleep

inductive WS | nil | slp | asserted
deriving Repr, DecidableEq, Inhabited

inductive WG | zero | preparing | parked
deriving Repr, DecidableEq, Inhabited

/-- an asserting / clearing goroutine: idle, or about to execute the named atomic operation -/
inductive APC
  | idle
  | a1 (k : Nat)                      -- Assert: LoadPointer(&w.s)
  | a2 (k : Nat)                      -- Assert: SwapPointer(&w.s, &assertedSleeper)
  | e1 (k : Nat)                      -- enqueue: LoadPointer(&s.sharedList)
  | e2 (k : Nat) (snap : Option Nat)  -- enqueue: CompareAndSwapPointer(&s.sharedList, v, w)
  | e3 (k : Nat)                      -- enqueue: LoadUintptr(&s.waitingG)
  | e4 (k : Nat) (g : WG)             -- enqueue: CompareAndSwapUintptr(&s.waitingG, g, 0) [+ goready]
  | c1 (k : Nat)                      -- Clear: LoadPointer(&w.s)
  | c2 (k : Nat)                      -- Clear: CompareAndSwapPointer(&w.s, &assertedSleeper, nil)
deriving Repr, DecidableEq, Inhabited

/-- the fetching goroutine -/
inductive FPC
  | idle
  | n2          -- nextWaker: LoadPointer(&s.sharedList) (loop condition)
  | n3          -- StoreUintptr(&s.waitingG, preparingG)
  | n4          -- LoadPointer(&s.sharedList) again
  | n5          -- StoreUintptr(&s.waitingG, 0): a waker came in, do not sleep
  | park        -- gopark → commitSleep: LoadUintptr(waitingG)
  | cs2         -- commitSleep: CompareAndSwapUintptr(waitingG, preparingG, g)
  | parked      -- asleep until goready
  | n7          -- SwapPointer(&s.sharedList, nil), move to the local list
  | f1 (k : Nat) -- Fetch: SwapPointer(&w.s, s) on the waker popped from the local list
deriving Repr, DecidableEq, Inhabited

inductive Ev
  | none
  | fetched (k : Nat)     -- Fetch returned (k, true)
  | fetchNone             -- non-blocking Fetch returned (-1, false)
  | assertDone
  | clearDone (ok : Bool)
deriving Repr, DecidableEq

structure St where
  ws : Nat → WS := fun _ => .slp
  shared : List Nat := []
  local_ : List Nat := []
  wg : WG := .zero
  f : FPC := .idle
  block : Bool := true
  ts : List APC := []

/-- after the local list has been (re)filled or a stale waker skipped: pop the next waker, or go back to the
shared list -/
def St.popLocal (s : St) : St :=
  match s.local_ with
  | k :: rest => { s with local_ := rest, f := .f1 k }
  | [] => { s with f := .n2 }

def setWs (ws : Nat → WS) (k : Nat) (v : WS) : Nat → WS := fun j => if j = k then v else ws j

/-- one atomic step of the fetcher (no-op when idle or parked) -/
def St.fstep (s : St) : St × Ev :=
  match s.f with
  | .idle => (s, .none)
  | .parked => (s, .none)
  | .n2 =>
    if s.shared ≠ [] then ({ s with f := .n7 }, .none)
    else if !s.block then ({ s with f := .idle }, .fetchNone)
    else ({ s with f := .n3 }, .none)
  | .n3 => ({ s with wg := .preparing, f := .n4 }, .none)
  | .n4 => if s.shared ≠ [] then ({ s with f := .n5 }, .none) else ({ s with f := .park }, .none)
  | .n5 => ({ s with wg := .zero, f := .n7 }, .none)
  | .park => if s.wg = .zero then ({ s with f := .n2 }, .none) else ({ s with f := .cs2 }, .none)
  | .cs2 => if s.wg = .preparing then ({ s with wg := .parked, f := .parked }, .none) else ({ s with f := .park }, .none)
  | .n7 => ({ s with shared := [], local_ := s.shared.reverse ++ s.local_ }.popLocal, .none)
  | .f1 k =>
    let old := s.ws k
    let s' := { s with ws := setWs s.ws k .slp }
    if old = .asserted then ({ s' with f := .idle }, .fetched k) else (s'.popLocal, .none)

/-- `Fetch(block)` is called -/
def St.startFetch (s : St) (block : Bool) : St :=
  if s.f = .idle then { s with block := block }.popLocal else s

/-- one atomic step of asserter/clearer thread `t` -/
def St.astep (s : St) (t : Nat) : St × Ev :=
  match s.ts[t]? with
  | none => (s, .none)
  | some pc =>
    let set (p : APC) (s : St) : St := { s with ts := s.ts.set t p }
    match pc with
    | .idle => (s, .none)
    | .a1 k => if s.ws k = .asserted then (set .idle s, .assertDone) else (set (.a2 k) s, .none)
    | .a2 k =>
      let old := s.ws k
      let s' := { s with ws := setWs s.ws k .asserted }
      if old = .slp then (set (.e1 k) s', .none) else (set .idle s', .assertDone)
    | .e1 k => (set (.e2 k s.shared.head?) s, .none)
    | .e2 k snap =>
      if s.shared.head? = snap then (set (.e3 k) { s with shared := k :: s.shared }, .none) else (set (.e1 k) s, .none)
    | .e3 k => if s.wg = .zero then (set .idle s, .assertDone) else (set (.e4 k s.wg) s, .none)
    | .e4 k g =>
      if s.wg = g then
        -- the CAS succeeds: waitingG := 0; a real g is made runnable again (it resumes at the loop condition)
        let s' := { s with wg := .zero, f := if g = .parked then .n2 else s.f }
        (set (.e3 k) s', .none)
      else (set (.e3 k) s, .none)
    | .c1 k => if s.ws k ≠ .asserted then (set .idle s, .clearDone false) else (set (.c2 k) s, .none)
    | .c2 k =>
      if s.ws k = .asserted then (set .idle { s with ws := setWs s.ws k .nil }, .clearDone true)
      else (set .idle s, .clearDone false)

inductive Call | assert (k : Nat) | clear (k : Nat)
deriving Repr

def St.startCall (s : St) (t : Nat) (c : Call) : St :=
  match s.ts[t]?, c with
  | some .idle, .assert k => { s with ts := s.ts.set t (.a1 k) }
  | some .idle, .clear k => { s with ts := s.ts.set t (.c1 k) }
  | _, _ => s

inductive Act
  | fetch (block : Bool)   -- the fetcher calls Fetch(block)
  | fstep                  -- the fetcher executes its next atomic operation
  | call (t : Nat) (c : Call)
  | astep (t : Nat)
deriving Repr

def St.act (s : St) : Act → St × Ev
  | .fetch b => (s.startFetch b, .none)
  | .fstep => s.fstep
  | .call t c => (s.startCall t c, .none)
  | .astep t => s.astep t

/-- `n` asserter threads, every waker attached and not asserted -/
def St.init (n : Nat) : St := { ts := List.replicate n .idle }

def run (n : Nat) (acts : List Act) : St := acts.foldl (fun s a => (s.act a).1) (St.init n)

end Model.Sleep
