/-! Interleaving model of `pkg/sleep` (core only): one sleeper with its fetching goroutine, any number of
goroutines asserting / clearing wakers; one atomic operation per step, at the schedule points compiled into
`sleep_unsafe.go` under the `verif` tag.  `ws k` is the pointer `w.s` of waker `k` (nil / this sleeper /
`&assertedSleeper`), `shared` the CAS-pushed stack of asserted wakers (top first), `local` the fetcher's private
list, `wg` the word `waitingG`. -/
namespace Model.Sleep

inductive WS | nil | slp | asserted
deriving Repr, DecidableEq, Inhabited

inductive WG | zero | preparing | parked
deriving Repr, DecidableEq, Inhabited

/-- an asserting / clearing goroutine: idle, or about to execute the named atomic operation -/
inductive APC
  | idle
  | a1 (k : Nat)                      -- Assert: LoadPointer(&w.s)
  | a2 (k : Nat)                      -- Assert: SwapPointer(&w.s, &assertedSleeper)
  | e1 (k : Nat)                      -- enqueue: LoadPointer(&s.sharedList)
  | e2 (k : Nat) (snap : Option Nat)  -- enqueue: CompareAndSwapPointer(&s.sharedList, v, w)
  | e3 (k : Nat)                      -- enqueue: LoadUintptr(&s.waitingG)
  | e4 (k : Nat) (g : WG)             -- enqueue: CompareAndSwapUintptr(&s.waitingG, g, 0) [+ goready]
  | c1 (k : Nat)                      -- Clear: LoadPointer(&w.s)
  | c2 (k : Nat)                      -- Clear: CompareAndSwapPointer(&w.s, &assertedSleeper, nil)
deriving Repr, DecidableEq, Inhabited

/-- the fetching goroutine -/
inductive FPC
  | idle
  | n2          -- nextWaker: LoadPointer(&s.sharedList) (loop condition)
  | n3          -- StoreUintptr(&s.waitingG, preparingG)
  | n4          -- LoadPointer(&s.sharedList) again
  | n5          -- StoreUintptr(&s.waitingG, 0): a waker came in, do not sleep
  | park        -- gopark → commitSleep: LoadUintptr(waitingG)
  | cs2         -- commitSleep: CompareAndSwapUintptr(waitingG, preparingG, g)
  | parked      -- asleep until goready
  | n7          -- SwapPointer(&s.sharedList, nil), move to the local list
  | f1 (k : Nat) -- Fetch: SwapPointer(&w.s, s) on the waker popped from the local list
deriving Repr, DecidableEq, Inhabited

inductive Ev
  | none
  | fetched (k : Nat)     -- Fetch returned (k, true)
  | fetchNone             -- non-blocking Fetch returned (-1, false)
  | assertDone
  | clearDone (ok : Bool)
  | doneReturned          -- Done returned
  | addReturned           -- AddWaker returned
deriving Repr, DecidableEq

structure St where
  ws : Nat → WS := fun _ => .slp
  shared : List Nat := []
  local_ : List Nat := []
  wg : WG := .zero
  f : FPC := .idle
  block : Bool := true
  ts : List APC := []

/-- after the local list has been (re)filled or a stale waker skipped: pop the next waker, or go back to the
shared list -/
def St.popLocal (s : St) : St :=
  match s.local_ with
  | k :: rest => { s with local_ := rest, f := .f1 k }
  | [] => { s with f := .n2 }

def setWs (ws : Nat → WS) (k : Nat) (v : WS) : Nat → WS := fun j => if j = k then v else ws j

/-- one atomic step of the fetcher (no-op when idle or parked) -/
def St.fstep (s : St) : St × Ev :=
  match s.f with
  | .idle => (s, .none)
  | .parked => (s, .none)
  | .n2 =>
    if s.shared ≠ [] then ({ s with f := .n7 }, .none)
    else if !s.block then ({ s with f := .idle }, .fetchNone)
    else ({ s with f := .n3 }, .none)
  | .n3 => ({ s with wg := .preparing, f := .n4 }, .none)
  | .n4 => if s.shared ≠ [] then ({ s with f := .n5 }, .none) else ({ s with f := .park }, .none)
  | .n5 => ({ s with wg := .zero, f := .n7 }, .none)
  | .park => if s.wg = .zero then ({ s with f := .n2 }, .none) else ({ s with f := .cs2 }, .none)
  | .cs2 => if s.wg = .preparing then ({ s with wg := .parked, f := .parked }, .none) else ({ s with f := .park }, .none)
  | .n7 => ({ s with shared := [], local_ := s.shared.reverse ++ s.local_ }.popLocal, .none)
  | .f1 k =>
    let old := s.ws k
    let s' := { s with ws := setWs s.ws k .slp }
    if old = .asserted then ({ s' with f := .idle }, .fetched k) else (s'.popLocal, .none)

/-- `Fetch(block)` is called -/
def St.startFetch (s : St) (block : Bool) : St :=
  if s.f = .idle then { s with block := block }.popLocal else s

/-- one atomic step of asserter/clearer thread `t` -/
def St.astep (s : St) (t : Nat) : St × Ev :=
  match s.ts[t]? with
  | none => (s, .none)
  | some pc =>
    let set (p : APC) (s : St) : St := { s with ts := s.ts.set t p }
    match pc with
    | .idle => (s, .none)
    | .a1 k => if s.ws k = .asserted then (set .idle s, .assertDone) else (set (.a2 k) s, .none)
    | .a2 k =>
      let old := s.ws k
      let s' := { s with ws := setWs s.ws k .asserted }
      if old = .slp then (set (.e1 k) s', .none) else (set .idle s', .assertDone)
    | .e1 k => (set (.e2 k s.shared.head?) s, .none)
    | .e2 k snap =>
      if s.shared.head? = snap then (set (.e3 k) { s with shared := k :: s.shared }, .none) else (set (.e1 k) s, .none)
    | .e3 k => if s.wg = .zero then (set .idle s, .assertDone) else (set (.e4 k s.wg) s, .none)
    | .e4 k g =>
      if s.wg = g then
        -- the CAS succeeds: waitingG := 0; a real g is made runnable again (it resumes at the loop condition)
        let s' := { s with wg := .zero, f := if g = .parked then .n2 else s.f }
        (set (.e3 k) s', .none)
      else (set (.e3 k) s, .none)
    | .c1 k => if s.ws k ≠ .asserted then (set .idle s, .clearDone false) else (set (.c2 k) s, .none)
    | .c2 k =>
      if s.ws k = .asserted then (set .idle { s with ws := setWs s.ws k .nil }, .clearDone true)
      else (set .idle s, .clearDone false)

inductive Call | assert (k : Nat) | clear (k : Nat)
deriving Repr

def St.startCall (s : St) (t : Nat) (c : Call) : St :=
  match s.ts[t]?, c with
  | some .idle, .assert k => { s with ts := s.ts.set t (.a1 k) }
  | some .idle, .clear k => { s with ts := s.ts.set t (.c1 k) }
  | _, _ => s

inductive Act
  | fetch (block : Bool)   -- the fetcher calls Fetch(block)
  | fstep                  -- the fetcher executes its next atomic operation
  | call (t : Nat) (c : Call)
  | astep (t : Nat)
deriving Repr

def St.act (s : St) : Act → St × Ev
  | .fetch b => (s.startFetch b, .none)
  | .fstep => s.fstep
  | .call t c => (s.startCall t c, .none)
  | .astep t => s.astep t

/-- `n` asserter threads, every waker attached and not asserted -/
def St.init (n : Nat) : St := { ts := List.replicate n .idle }

def run (n : Nat) (acts : List Act) : St := acts.foldl (fun s a => (s.act a).1) (St.init n)

/-! ### `Done`

`Done` runs on the fetcher's goroutine (no `Fetch` in progress).  First loop: every attached waker whose pointer still
names the sleeper is detached by a compare-and-swap to nil; the others (asserted, being asserted, or asserted and
cleared but still in a list) are put on the pending list.  Second loop: `nextWaker(true)` -- the same code `Fetch`
runs, here the base machine's states `n2 … n7` -- pulls wakers off the lists until every pending one has been
seen.  `gone` is a ghost: the wakers this call has detached so far. -/

inductive DPC
  | off                               -- not inside Done
  | d1 (k : Nat) (rest : List Nat)    -- LoadPointer(&w.s) of waker k; rest: the attached wakers still to visit
  | d2 (k : Nat) (rest : List Nat)    -- CompareAndSwapPointer(&w.s, s, nil)
  | pull                              -- second loop: nextWaker(true) is running in the base machine
  | w1 (k : Nat)                      -- AddWaker: LoadPointer(&w.s)
  | w2 (k : Nat) (p : WS)             -- AddWaker: CompareAndSwapPointer(&w.s, p, s)
  | we1 (k : Nat)                     -- AddWaker found the waker asserted: enqueueAssertedWaker, LoadPointer(&s.sharedList)
  | we2 (k : Nat) (snap : Option Nat) -- ... CompareAndSwapPointer(&s.sharedList, v, w)
  | we3 (k : Nat)                     -- ... LoadUintptr(&s.waitingG)
  | we4 (k : Nat) (g : WG)            -- ... CompareAndSwapUintptr(&s.waitingG, g, 0)
deriving Repr, DecidableEq, Inhabited

structure DSt where
  base : St := {}
  d : DPC := .off
  /-- `allWakers`: the attached wakers, in list order -/
  att : List Nat := []
  pend : List Nat := []
  gone : List Nat := []

/-- Done has seen every pending waker: it returns -/
def DSt.finish (s : DSt) : DSt × Ev :=
  ({ s with d := .off, att := [], base := { s.base with f := .idle } }, .doneReturned)

/-- the next call of `nextWaker(true)` in the second loop, or the return if nothing is pending -/
def DSt.nextPull (s : DSt) : DSt × Ev :=
  if s.pend = [] then s.finish
  else ({ s with d := .pull, base := ({ s.base with f := .idle } : St).startFetch true }, .none)

/-- the first loop moves on to the next attached waker -/
def DSt.advance (s : DSt) (rest : List Nat) : DSt × Ev :=
  match rest with
  | k :: r => ({ s with d := .d1 k r }, .none)
  | [] => s.nextPull

/-- `Done()` is called (the fetcher is idle) -/
def DSt.startDone (s : DSt) : DSt × Ev :=
  if s.d = .off ∧ s.base.f = .idle then s.advance s.att else (s, .none)

/-- one step of the goroutine that runs Done -/
def DSt.dstep (s : DSt) : DSt × Ev :=
  match s.d with
  | .off => (s, .none)
  | .d1 k rest =>
    if s.base.ws k ≠ .slp then { s with pend := k :: s.pend }.advance rest else ({ s with d := .d2 k rest }, .none)
  | .d2 k rest =>
    if s.base.ws k = .slp then
      { s with base := { s.base with ws := setWs s.base.ws k .nil }, gone := s.gone ++ [k] }.advance rest
    else ({ s with d := .d1 k rest }, .none)
  | .pull =>
    match s.base.f with
    | .f1 k => { s with pend := s.pend.erase k, gone := s.gone ++ [k] }.nextPull   -- nextWaker returned waker k
    | _ => ({ s with base := s.base.fstep.1 }, .none)
  -- AddWaker (on the fetcher's goroutine): attach a detached waker again
  | .w1 k => if s.base.ws k = .asserted then ({ s with d := .we1 k }, .none) else ({ s with d := .w2 k (s.base.ws k) }, .none)
  | .w2 k p =>
    if s.base.ws k = p then
      ({ s with base := { s.base with ws := setWs s.base.ws k .slp }, gone := s.gone.erase k, d := .off }, .addReturned)
    else ({ s with d := .w1 k }, .none)
  | .we1 k => ({ s with d := .we2 k s.base.shared.head? }, .none)
  | .we2 k snap =>
    if s.base.shared.head? = snap then
      ({ s with base := { s.base with shared := k :: s.base.shared }, gone := s.gone.erase k, d := .we3 k }, .none)
    else ({ s with d := .we1 k }, .none)
  | .we3 k => if s.base.wg = .zero then ({ s with d := .off }, .addReturned) else ({ s with d := .we4 k s.base.wg }, .none)
  | .we4 k g =>
    if s.base.wg = g then ({ s with base := { s.base with wg := .zero }, d := .we3 k }, .none)
    else ({ s with d := .we3 k }, .none)

/-- `AddWaker(w)` is called for a waker a previous `Done` has detached (the fetcher is idle, nothing else of this
layer is running) -/
def DSt.startAdd (s : DSt) (k : Nat) : DSt × Ev :=
  if s.d = .off ∧ s.base.f = .idle ∧ k ∈ s.gone then ({ s with att := k :: s.att, d := .w1 k }, .none) else (s, .none)

inductive DAct
  | base (a : Act)     -- anything the base machine does (a Fetch and its steps only outside Done / AddWaker)
  | done               -- the fetcher's goroutine calls Done()
  | add (k : Nat)      -- ... or AddWaker on a detached waker
  | dstep              -- ... and executes its next step
deriving Repr

def DSt.act (s : DSt) : DAct → DSt × Ev
  | .base (.fetch b) => if s.d = .off then ({ s with base := s.base.startFetch b }, .none) else (s, .none)
  | .base .fstep => if s.d = .off then (let r := s.base.fstep; ({ s with base := r.1 }, r.2)) else (s, .none)
  | .base (.call t c) => ({ s with base := s.base.startCall t c }, .none)
  | .base (.astep t) => let r := s.base.astep t; ({ s with base := r.1 }, r.2)
  | .done => s.startDone
  | .add k => s.startAdd k
  | .dstep => s.dstep

/-- `n` asserter threads, wakers `0 … nw-1` attached (the last one added is the first of `allWakers`) -/
def DSt.init (n nw : Nat) : DSt := { base := St.init n, att := (List.range nw).reverse }

def drun (n nw : Nat) (acts : List DAct) : DSt := acts.foldl (fun s a => (s.act a).1) (DSt.init n nw)

end Model.Sleep
