/-! Model of `pkg/buffer` (core only).

A `View` is a Go byte slice: visible bytes `data` plus the bytes between `len` and `cap`
(`extra`).  A `VectorisedView` is a slice of view headers plus a `size` field.  The pure
functions below transliterate the Go methods on values; `Heap` adds the aliasing that
Go's slice-of-slices introduces (a struct copy shares the header array, `Clone` does not). -/
namespace Model.Buffer

structure View where
  data : List Nat
  extra : List Nat := []
deriving Repr, DecidableEq, Inhabited

def View.len (v : View) : Int := v.data.length

/-- `*v = (*v)[count:]` — panics (none) unless `0 ≤ count ≤ len` -/
def View.trimFront (v : View) (count : Int) : Option View :=
  if count < 0 ∨ count > v.len then none else some { v with data := v.data.drop count.toNat }

/-- `*v = (*v)[:length:length]` — panics unless `0 ≤ length ≤ cap` -/
def View.capLength (v : View) (length : Int) : Option View :=
  if length < 0 ∨ length > v.len + v.extra.length then none
  else some { data := (v.data ++ v.extra).take length.toNat, extra := [] }

/-- `v = v[:n]` — a plain reslice, allowed up to `cap` -/
def View.reslice (v : View) (n : Int) : Option View :=
  if n < 0 ∨ n > v.len + v.extra.length then none
  else some { data := (v.data ++ v.extra).take n.toNat, extra := (v.data ++ v.extra).drop n.toNat }

structure VV where
  views : List View
  size : Int
deriving Repr, DecidableEq, Inhabited

def VV.bytes (vv : VV) : List Nat := vv.views.flatMap (·.data)
def sumLen (vs : List View) : Int := (vs.map (·.len)).foldl (· + ·) 0

/-- `TrimFront` loop, split into its three effects: remaining views, views removed from the
    front, and the new `size` field -/
def trimViews : List View → Int → List View
  | [], _ => []
  | v :: t, c =>
    if c ≤ 0 then v :: t
    else if c < v.len then { v with data := v.data.drop c.toNat } :: t
    else trimViews t (c - v.len)

def trimRemoved : List View → Int → Nat
  | [], _ => 0
  | v :: t, c => if c ≤ 0 then 0 else if c < v.len then 0 else trimRemoved t (c - v.len) + 1

def trimSize : List View → Int → Int → Int
  | [], _, s => s
  | v :: t, c, s => if c ≤ 0 then s else if c < v.len then s - c else trimSize t (c - v.len) (s - v.len)

def trimAux (vs : List View) (c s : Int) : Nat × List View × Int :=
  (trimRemoved vs c, trimViews vs c, trimSize vs c s)

def VV.trimFront (vv : VV) (count : Int) : VV :=
  { views := trimViews vv.views count, size := trimSize vv.views count vv.size }

/-- `CapLength` loop over `range vv.views` -/
def capAux : List View → Int → List View
  | [], _ => []
  | v :: t, l =>
    if v.len ≥ l then
      (if l = 0 then [] else [{ data := (v.data ++ v.extra).take l.toNat, extra := [] }])
    else v :: capAux t (l - v.len)

def VV.capLength (vv : VV) (length : Int) : VV :=
  let length := if length < 0 then 0 else length
  if vv.size < length then vv
  else { views := capAux vv.views length, size := length }

def VV.removeFirst (vv : VV) : VV :=
  match vv.views with
  | [] => vv
  | v :: t => { views := t, size := vv.size - v.len }

def VV.first (vv : VV) : Option View := vv.views.head?
def VV.toView (vv : VV) : List Nat := vv.bytes

/-! ### the byte-string specification -/
namespace Spec
def trimFront (b : List Nat) (count : Int) : List Nat := b.drop count.toNat
def capLength (b : List Nat) (length : Int) : List Nat := b.take length.toNat
/-- removing the first chunk drops that chunk's bytes -/
def removeFirst (b : List Nat) (firstChunkLen : Nat) : List Nat := b.drop firstChunkLen
end Spec

/-! ### heap with aliasing -/

/-- an object is a window `[off, off+cnt)` into header array `arr`, plus its size field -/
structure Obj where
  arr : Nat
  off : Nat
  cnt : Nat
  size : Int
deriving Repr, DecidableEq, Inhabited

structure Heap where
  arrays : List (List View) := []
  objs : List Obj := []
deriving Repr, Inhabited

def Heap.viewsOf (h : Heap) (o : Obj) : List View := ((h.arrays.getD o.arr []).drop o.off).take o.cnt
def Heap.vvOf (h : Heap) (o : Obj) : VV := { views := h.viewsOf o, size := o.size }

def setSlice (l : List View) (pos : Nat) (vs : List View) : List View :=
  l.take pos ++ vs ++ l.drop (pos + vs.length)

def Heap.writeBack (h : Heap) (i : Nat) (o : Obj) (removed : Nat) (vs : List View) (size : Int) : Heap :=
  let arr := h.arrays.getD o.arr []
  let arr' := setSlice arr (o.off + removed) vs
  { arrays := h.arrays.set o.arr arr', objs := h.objs.set i { o with off := o.off + removed, cnt := vs.length, size := size } }

def Heap.new (h : Heap) (views : List View) (size : Int) : Heap :=
  { arrays := h.arrays ++ [views], objs := h.objs ++ [{ arr := h.arrays.length, off := 0, cnt := views.length, size := size }] }

def Heap.trimFront (h : Heap) (i : Nat) (count : Int) : Heap :=
  match h.objs[i]? with
  | none => h
  | some o =>
    h.writeBack i o (trimRemoved (h.viewsOf o) count) (trimViews (h.viewsOf o) count) (trimSize (h.viewsOf o) count o.size)

def Heap.capLength (h : Heap) (i : Nat) (length : Int) : Heap :=
  match h.objs[i]? with
  | none => h
  | some o =>
    let vv := (h.vvOf o).capLength length
    h.writeBack i o 0 vv.views vv.size

def Heap.removeFirst (h : Heap) (i : Nat) : Heap :=
  match h.objs[i]? with
  | none => h
  | some o =>
    match h.viewsOf o with
    | [] => h
    | v :: t => { h with objs := h.objs.set i { o with off := o.off + 1, cnt := t.length, size := o.size - v.len } }

/-- `Clone(buffer)` with a buffer that does not alias any live header array: fresh array -/
def Heap.clone (h : Heap) (i : Nat) : Heap :=
  match h.objs[i]? with
  | none => h
  | some o => h.new (h.viewsOf o) o.size

/-- plain struct copy `w := v`: shares the header array -/
def Heap.copy (h : Heap) (i : Nat) : Heap :=
  match h.objs[i]? with
  | none => h
  | some o => { h with objs := h.objs ++ [o] }

/-! ### Prependable -/
structure Prep where
  buf : List Nat
  usedIdx : Int
deriving Repr, DecidableEq, Inhabited

def Prep.view (p : Prep) : Option (List Nat) :=
  if p.usedIdx < 0 ∨ p.usedIdx > p.buf.length then none else some (p.buf.drop p.usedIdx.toNat)
def Prep.usedLength (p : Prep) : Int := p.buf.length - p.usedIdx

/-- `Prepend(size)` then the caller fills the returned slice with `fill` (padded/truncated to `size`).
    Returns the new state and `none` for a panic, `some false` for nil, `some true` for a slice. -/
def Prep.prepend (p : Prep) (size : Int) (fill : List Nat) : Prep × Option Bool :=
  if size > p.usedIdx then (p, some false)
  else
    let p' := { p with usedIdx := p.usedIdx - size }
    -- `p.View()[:size:size]` panics after usedIdx was changed when the state is corrupt or size < 0
    if size < 0 ∨ p'.usedIdx < 0 ∨ p'.usedIdx + size > p.buf.length then (p', none)
    else
      let n := size.toNat
      let w := (fill ++ List.replicate n 0).take n
      let i := p'.usedIdx.toNat
      ({ p' with buf := p.buf.take i ++ w ++ p.buf.drop (i + n) }, some true)

end Model.Buffer
