import NetProto.Model.Ports
import NetProto.Model.Header
/-! Model of the stack's receive path for UDP: NIC address table, route table, transport
demultiplexer, UDP endpoints (bind / connect / read / write / shutdown / close) and the
receive queue (core only).  Addresses are byte lists; `[]` is the wildcard / unset address. -/
namespace Model.Net

abbrev Addr := List Nat
def v4 : Nat := 2048
def v6 : Nat := 34525
def udpProto : Nat := 17

inductive Err
  | invalidState | portInUse | noPort | badLocal | noRoute | wouldBlock | closedRecv | closedSend
  | destRequired | tooLong | notConnected | netUnreachable | invalidOption
deriving Repr, DecidableEq

def Err.name : Err → String
  | .invalidState => "endpoint-is-in-invalid-state"
  | .portInUse => "port-is-in-use"
  | .noPort => "no-ports-are-available"
  | .badLocal => "bad-local-address"
  | .noRoute => "no-route"
  | .wouldBlock => "operation-would-block"
  | .closedRecv => "endpoint-is-closed-for-receive"
  | .closedSend => "endpoint-is-closed-for-send"
  | .destRequired => "destination-address-is-required"
  | .tooLong => "message-too-long"
  | .notConnected => "endpoint-not-connected"
  | .netUnreachable => "network-is-unreachable"
  | .invalidOption => "invalid-option-value-specified"

structure Nic where
  id : Nat
  /-- (network protocol, address) in the order they were added: the first of a protocol is primary -/
  addrs : List (Nat × Addr) := []
  promiscuous : Bool := false
  subnets : List (Nat × Addr × Addr) := []   -- (proto, address, mask)
deriving Repr, Inhabited

structure RouteE where
  dest : Addr
  mask : Addr
  gateway : Addr
  nic : Nat
deriving Repr, Inhabited

/-- TransportEndpointID -/
structure Tid where
  lport : Nat := 0
  laddr : Addr := []
  rport : Nat := 0
  raddr : Addr := []
deriving Repr, DecidableEq, Inhabited

inductive UState | initial | bound | connected | closed
deriving Repr, DecidableEq, Inhabited

structure Dgram where
  data : List Nat
  srcAddr : Addr
  srcPort : Nat
  nic : Nat
deriving Repr, DecidableEq, Inhabited

structure UdpEp where
  netProto : Nat
  v6only : Bool := false
  state : UState := .initial
  id : Tid := {}
  effProtos : List Nat := []
  /-- what the local port was reserved for (by Bind, or by the Connect / Write that bound the endpoint) -/
  resProtos : List Nat := []
  resAddr : Addr := []
  dstPort : Nat := 0
  routeLocal : Addr := []
  routeRemote : Addr := []
  routeProto : Nat := 0
  rcvList : List Dgram := []
  rcvBufSize : Nat := 0
  rcvBufMax : Nat := 32768
  rcvReady : Bool := false
  rcvClosed : Bool := false
  shutRd : Bool := false
  shutWr : Bool := false
deriving Repr, Inhabited

/-- a registration in the (stack-wide) transport demultiplexer -/
structure Reg where
  netProto : Nat
  trans : Nat
  id : Tid
  /-- index of the endpoint; UDP endpoints are `ep`, other transports use their own numbering space
      shifted by the harness -/
  ep : Nat
deriving Repr, DecidableEq, Inhabited

structure World where
  nics : List Nic := []
  routes : List RouteE := []
  ports : Model.Ports.PM := []
  demux : List Reg := []
  udp : List UdpEp := []
deriving Inhabited

/-! ### addresses, routes -/

def maskMatch (a dest mask : Addr) : Bool :=
  a.length == dest.length && (List.zipWith (· &&& ·) a mask == dest)

def Nic.hasAddr (n : Nic) (proto : Nat) (a : Addr) : Bool := n.addrs.any fun p => p.1 == proto && p.2 == a
/-- `getRef`: the destination is assigned, or the NIC is promiscuous / owns a subnet containing it.
    The endpoint table is keyed by address only. -/
def Nic.accepts (n : Nic) (a : Addr) : Bool :=
  n.addrs.any (fun p => p.2 == a) || n.promiscuous || n.subnets.any fun s => maskMatch a s.2.1 s.2.2

def Nic.primary (n : Nic) (proto : Nat) : Option Addr :=
  (n.addrs.find? fun p => p.1 == proto && p.2 != [255, 255, 255, 255] && p.2 != [0, 0, 0, 0]).map (·.2)

def World.nic (w : World) (id : Nat) : Option Nic := w.nics.find? (·.id == id)

/-- `CheckLocalAddress(0, proto, addr)`: some NIC has the address (endpoint table is keyed by address) -/
def World.checkLocal (w : World) (a : Addr) : Bool := w.nics.any fun n => n.addrs.any fun p => p.2 == a

/-- `FindRoute(0, local, remote, proto)` → (local address, remote address, nic, family of the network
    endpoint that owns the local address — the one that will write the packet) -/
def World.findRoute (w : World) (localA remote : Addr) (proto : Nat) : Option (Addr × Addr × Nat × Nat) :=
  w.routes.findSome? fun r =>
    if remote.length != 0 && !maskMatch remote r.dest r.mask then none else
    match w.nic r.nic with
    | none => none
    | some n =>
      let ref : Option (Addr × Nat) :=
        if localA.length != 0 then (n.addrs.find? (fun p => p.2 == localA)).map fun p => (p.2, p.1)
        else (n.primary proto).map fun a => (a, proto)
      match ref with
      | none => none
      | some (la, fam) => some (la, if remote.length == 0 then la else remote, n.id, fam)

/-! ### demultiplexer -/

def World.lookupReg (w : World) (netProto trans : Nat) (id : Tid) : Option Nat :=
  (w.demux.find? fun r => r.netProto == netProto && r.trans == trans && r.id == id).map (·.ep)

/-- `findEndpointLocked`: four probes, most specific first -/
def World.findEndpoint (w : World) (netProto trans : Nat) (id : Tid) : Option Nat :=
  match w.lookupReg netProto trans id with
  | some e => some e
  | none =>
    match w.lookupReg netProto trans { id with laddr := [] } with
    | some e => some e
    | none =>
      match w.lookupReg netProto trans { id with raddr := [], rport := 0 } with
      | some e => some e
      | none => w.lookupReg netProto trans { id with laddr := [], raddr := [], rport := 0 }

/-- drop repeated network protocols (registering the same id twice for one protocol is the same entry) -/
def dedup : List Nat → List Nat
  | [] => []
  | a :: t => if t.contains a then dedup t else a :: dedup t

/-- `registerEndpoint` over several network protocols with rollback -/
def World.register (w : World) (netProtos : List Nat) (trans : Nat) (id : Tid) (ep : Nat) : Option World :=
  if netProtos.any fun n => (w.lookupReg n trans id).isSome then none
  else some { w with demux := w.demux ++ (dedup netProtos).map fun n => ⟨n, trans, id, ep⟩ }

def World.unregister (w : World) (netProtos : List Nat) (trans : Nat) (id : Tid) : World :=
  { w with demux := w.demux.filter fun r => !(netProtos.contains r.netProto && r.trans == trans && r.id == id) }

/-! ### UDP endpoint API -/

def isV4Mapped (a : Addr) : Bool := a.length == 16 && a.take 12 == [0, 0, 0, 0, 0, 0, 0, 0, 0, 0, 255, 255]

/-- `checkV4Mapped` → (netProto, rewritten address) -/
def checkV4Mapped (e : UdpEp) (a : Addr) (allowMismatch : Bool) : Except Err (Nat × Addr) :=
  let (np, a, mapped) :=
    if isV4Mapped a then
      let a4 := a.drop 12
      (v4, (if a4 == [0, 0, 0, 0] then [] else a4), true)
    else (e.netProto, a, false)
  if mapped && e.v6only then .error .noRoute
  else if mapped && !allowMismatch && e.id.laddr.length == 16 then .error .netUnreachable
  else if e.id.laddr.length != 0 && e.id.laddr.length != a.length then .error .invalidState
  -- a destination must be an address of the network protocol the packet will be sent with
  else if !allowMismatch && a.length != 0 && ((a.length == 4) != (np == v4)) then .error .noRoute
  else .ok (np, a)

def World.setUdp (w : World) (i : Nat) (e : UdpEp) : World := { w with udp := w.udp.set i e }

/-- `registerWithStack`; `learnedPort` is the ephemeral port the stack picked (its random offset is
    not observable), used only when a port has to be chosen -/
def registerWithStack (w : World) (i : Nat) (e : UdpEp) (netProtos : List Nat) (id : Tid) (learnedPort : Nat) :
    World × Except Err Tid :=
  let reserve : Except Err (World × Tid) :=
    if e.id.lport == 0 then
      let port := if id.lport != 0 then id.lport else learnedPort
      if id.lport == 0 && (port < 16000 || port > 65535) then .error .noPort else
      let (pm, ok) := Model.Ports.reserveSpecific w.ports netProtos udpProto id.laddr port
      if ok then .ok ({ w with ports := pm }, { id with lport := port })
      else .error (if id.lport != 0 then .portInUse else .noPort)
    else .ok (w, id)
  match reserve with
  | .error err => (w, .error err)
  | .ok (w1, id1) =>
    match w1.register netProtos udpProto id1 i with
    | some w2 => (w2, .ok id1)
    | none =>
      -- the port is released again if this call reserved it
      ((if e.id.lport == 0 then { w1 with ports := Model.Ports.release w1.ports netProtos udpProto id1.laddr id1.lport } else w1),
       .error .portInUse)

def udpBind (w : World) (i : Nat) (addr : Addr) (port learnedPort : Nat) : World × Option Err :=
  match w.udp[i]? with
  | none => (w, some .invalidState)
  | some e =>
    if e.state != .initial then (w, some .invalidState) else
    match checkV4Mapped e addr true with
    | .error err => (w, some err)
    | .ok (np, a) =>
      let netProtos := if np == v6 && !e.v6only && a == [] then [v6, v4] else [np]
      if a.length != 0 && !w.checkLocal a then (w, some .badLocal) else
      match registerWithStack w i e netProtos { lport := port, laddr := a } learnedPort with
      | (w1, .error err) => (w1, some err)
      | (w1, .ok id) =>
        (w1.setUdp i { e with id := id, effProtos := netProtos, resProtos := netProtos, resAddr := id.laddr, state := .bound,
                              rcvReady := true }, none)

def udpConnect (w : World) (i : Nat) (addr : Addr) (port learnedPort : Nat) : World × Option Err :=
  match w.udp[i]? with
  | none => (w, some .invalidState)
  | some e =>
    if port == 0 then (w, some .invalidState) else
    if e.state == .closed then (w, some .invalidState) else
    let localPort := if e.state == .initial then 0 else e.id.lport
    match checkV4Mapped e addr false with
    | .error err => (w, some err)
    | .ok (np, a) =>
      match w.findRoute e.id.laddr a np with
      | none => (w, some .noRoute)
      | some (la, ra, _, fam) =>
        let id : Tid := { laddr := la, lport := localPort, rport := port, raddr := ra }
        let netProtos := if np == v6 && !e.v6only then [v4, v6] else [np]
        match registerWithStack w i e netProtos id learnedPort with
        | (w1, .error err) => (w1, some err)
        | (w1, .ok id1) =>
          let w2 := if e.id.lport != 0 then w1.unregister e.effProtos udpProto e.id else w1
          (w2.setUdp i { e with id := id1, routeLocal := la, routeRemote := ra, routeProto := fam, dstPort := port,
                                effProtos := netProtos, state := .connected, rcvReady := true,
                                resProtos := (if e.id.lport == 0 then netProtos else e.resProtos),
                                resAddr := (if e.id.lport == 0 then id1.laddr else e.resAddr) }, none)

def udpRead (w : World) (i : Nat) : World × Except Err Dgram :=
  match w.udp[i]? with
  | none => (w, .error .invalidState)
  | some e =>
    match e.rcvList with
    | [] => (w, .error (if e.rcvClosed then .closedRecv else .wouldBlock))
    | p :: t => (w.setUdp i { e with rcvList := t, rcvBufSize := e.rcvBufSize - p.data.length }, .ok p)

def udpShutdown (w : World) (i : Nat) (rd wr : Bool) : World × Option Err :=
  match w.udp[i]? with
  | none => (w, some .invalidState)
  | some e =>
    if e.state != .bound && e.state != .connected then (w, some .notConnected) else
    (w.setUdp i { e with shutRd := e.shutRd || rd, shutWr := e.shutWr || wr, rcvClosed := e.rcvClosed || rd }, none)

def udpClose (w : World) (i : Nat) : World :=
  match w.udp[i]? with
  | none => w
  | some e =>
    let w1 := if e.state == .bound || e.state == .connected then
        let w' := w.unregister e.effProtos udpProto e.id
        { w' with ports := Model.Ports.release w'.ports e.resProtos udpProto e.resAddr e.id.lport }
      else w
    w1.setUdp i { e with shutRd := true, shutWr := true, rcvClosed := true, rcvBufSize := 0, rcvList := [], state := .closed }

/-- an emitted UDP packet, canonical fields -/
structure OutPkt where
  netProto : Nat
  src : Addr
  dst : Addr
  sport : Nat
  dport : Nat
  payload : List Nat
deriving Repr, DecidableEq

/-- `sendUDP` + network `WritePacket`: one packet with exactly `payload`, unless its length does not
    fit the 16-bit length fields of the network header (then the network layer refuses it) -/
def emitUdp (fam : Nat) (la ra : Addr) (lport dport : Nat) (payload : List Nat) : Except Err (Nat × OutPkt) :=
  let maxPayload : Nat := if fam == v4 then 65535 - 20 - 8 else 65535 - 8
  if payload.length > maxPayload then .error .tooLong
  else .ok (payload.length, ⟨fam, la, ra, lport, dport, payload⟩)

/-- `prepareForWrite` (auto-bind of an unbound socket) -/
def prepareForWrite (w : World) (i : Nat) (e0 : UdpEp) (hasTo : Bool) (learnedPort : Nat) : World × Option Err :=
  match e0.state with
  | .initial =>
    match udpBind w i [] 0 learnedPort with
    | (w', some err) => (w', some err)
    | (w', none) => (w', if !hasTo then some .destRequired else none)
  | .connected => (w, none)
  | .bound => (w, if !hasTo then some .destRequired else none)
  | .closed => (w, some .invalidState)

/-- where the packet goes: (family, local, remote, dport) -/
def writeRoute (w : World) (e : UdpEp) (to : Option (Addr × Nat)) : Except Err (Nat × Addr × Addr × Nat) :=
  match to with
  | none => .ok (e.routeProto, e.routeLocal, e.routeRemote, e.dstPort)
  | some (a, p) =>
    match checkV4Mapped e a false with
    | .error err => .error err
    | .ok (np, a') =>
      match w.findRoute e.id.laddr a' np with
      | none => .error .noRoute
      | some (la, ra, _, fam) => .ok (fam, la, ra, p)

/-- `Write(payload, to)`; `to = none` uses the connected destination. Returns bytes written and the packet. -/
def udpWrite (w : World) (i : Nat) (to : Option (Addr × Nat)) (payload : List Nat) (learnedPort : Nat) :
    World × Except Err (Nat × OutPkt) :=
  match w.udp[i]? with
  | none => (w, .error .invalidState)
  | some e0 =>
    if payload.length > 65535 then (w, .error .tooLong) else
    if e0.shutWr then (w, .error .closedSend) else
    match prepareForWrite w i e0 to.isSome learnedPort with
    | (w1, some err) => (w1, .error err)
    | (w1, none) =>
      match w1.udp[i]? with
      | none => (w1, .error .invalidState)
      | some e =>
        match writeRoute w1 e to with
        | .error err => (w1, .error err)
        | .ok (fam, la, ra, dport) => (w1, emitUdp fam la ra e.id.lport dport payload)

/-! ### inbound UDP -/

/-- `udp.HandlePacket` on the endpoint chosen by the demultiplexer -/
def udpHandle (e : UdpEp) (nic : Nat) (src : Addr) (sport : Nat) (udpLenField : Nat) (payload : List Nat) : UdpEp :=
  if udpLenField > payload.length + 8 then e
  else if !e.rcvReady || e.rcvClosed || e.rcvBufSize ≥ e.rcvBufMax then e
  else { e with rcvList := e.rcvList ++ [⟨payload, src, sport, nic⟩], rcvBufSize := e.rcvBufSize + payload.length }

/-- an unfragmented UDP packet arrives on NIC `nic`; returns the endpoint that received it (if any) -/
def deliverUdp (w : World) (nic netProto : Nat) (src dst : Addr) (sport dport udpLenField : Nat) (payload : List Nat) :
    World × Option Nat :=
  match w.nic nic with
  | none => (w, none)
  | some n =>
    if !n.accepts dst then (w, none) else
    match w.findEndpoint netProto udpProto { lport := dport, laddr := dst, rport := sport, raddr := src } with
    | none => (w, none)
    | some i =>
      match w.udp[i]? with
      | none => (w, none)
      | some e => (w.setUdp i (udpHandle e nic src sport udpLenField payload), some i)

/-! ### ICMP echo -/

def echoQueueCap : Nat := 10

/-- ICMPv4 `handleICMP` echo branch + `sendPing4`: `msg` is the ICMP message, of which the first
    `firstLen` bytes are in the first view. Returns the reply ICMP message. -/
def echo4Reply (msg : List Nat) (firstLen : Nat) : Option (List Nat) :=
  let v := msg.take firstLen
  if v.length < 4 then none
  else if v.getD 0 0 != 8 then none
  else if v.length < 6 then none
  else
    let data := msg.drop 4            -- identifier, sequence number, payload
    let hdr6 := [0, 0, 0, 0] ++ data.take 2
    let ck := 65535 - Model.Header.checksum hdr6 (Model.Header.checksum (data.drop 2) 0)
    some ([0, 0] ++ Model.Header.be16 ck ++ data)

/-- ICMPv6 echo request → reply (`src`/`dst` as in the request) -/
def echo6Reply (src dst : Addr) (msg : List Nat) (firstLen : Nat) : Option (List Nat) :=
  let v := msg.take firstLen
  if v.length < 4 then none
  else if v.getD 0 0 != 128 then none
  else if v.length < 8 then none
  else
    let rest := msg.drop 8
    let pkt0 := [129, v.getD 1 0, 0, 0] ++ (msg.drop 4).take 4
    let len := pkt0.length + rest.length
    -- pseudo header: src = pinged address, dst = requester, length, next header 58; then payload views, then header
    let x := Model.Header.checksum dst 0
    let x := Model.Header.checksum src x
    let x := Model.Header.checksum (Model.Header.be32 len) x
    let x := Model.Header.checksum [0, 0, 0, 58] x
    let x := Model.Header.checksum rest x
    let ck := 65535 - Model.Header.checksum pkt0 x
    some ([129, v.getD 1 0] ++ Model.Header.be16 ck ++ (msg.drop 4).take 4 ++ rest)

/-- who answers: the NIC must accept the destination (then the reply goes from `dst` back to `src`) -/
def World.echoAccepted (w : World) (nic : Nat) (dst : Addr) : Bool :=
  match w.nic nic with
  | some n => n.accepts dst
  | none => false

end Model.Net
