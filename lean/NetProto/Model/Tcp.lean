import NetProto.Model.Seqnum
import NetProto.Model.Header
/-! Executable model of one TCP endpoint of the stack in the established state, of the handshake
state machines and of the listener (core only).  Timing-free: the retransmission timer is an input
event; measured round-trip times only influence *when* the timer fires, not what is sent.
Sequence numbers are naturals below 2^32 with the arithmetic of `pkg/seqnum`. -/
namespace Model.Tcp

def M : Nat := 4294967296
def bv (n : Nat) : BitVec 32 := BitVec.ofNat 32 n
def lt (a b : Nat) : Bool := Model.Seqnum.LessThan (bv a) (bv b)
def le (a b : Nat) : Bool := Model.Seqnum.LessThanEq (bv a) (bv b)
def addS (a s : Nat) : Nat := (a + s) % M
def subS (a s : Nat) : Nat := (a + M - s % M) % M
/-- `a.Size(b)` = b - a -/
def sizeS (a b : Nat) : Nat := (b + M - a % M) % M
def inRange (v a b : Nat) : Bool := Model.Seqnum.InRange (bv v) (bv a) (bv b)
def inWindow (v f s : Nat) : Bool := Model.Seqnum.InWindow (bv v) (bv f) (bv s)
def overlap (a b x y : Nat) : Bool := Model.Seqnum.Overlap (bv a) (bv b) (bv x) (bv y)

def fFin : Nat := 1
def fSyn : Nat := 2
def fRst : Nat := 4
def fPsh : Nat := 8
def fAck : Nat := 16
def has (flags f : Nat) : Bool := flags &&& f != 0

/-- an incoming segment after `segment.parse` -/
structure InSeg where
  flags : Nat
  seq : Nat
  ack : Nat
  wnd : Nat          -- raw 16-bit window field
  opts : List Nat
  data : List Nat
deriving Repr, Inhabited

def InSeg.logicalLen (s : InSeg) : Nat :=
  s.data.length + (if has s.flags fSyn then 1 else 0) + (if has s.flags fFin then 1 else 0)

/-- an emitted segment (fields of `sendTCP`) -/
structure OutSeg where
  flags : Nat
  seq : Nat
  ack : Nat
  wnd : Nat
  opts : List Nat
  data : List Nat
deriving Repr, DecidableEq, Inhabited

/-- a segment on the write list; `flags = 0` = never sent yet -/
structure WSeg where
  seq : Nat := 0
  flags : Nat := 0
  data : List Nat := []
  /-- ghost (never read by the model): offset of the entry's first byte in the stream of accepted bytes -/
  gOff : Nat := 0
deriving Repr, DecidableEq, Inhabited

def WSeg.logicalLen (s : WSeg) : Nat :=
  s.data.length + (if has s.flags fSyn then 1 else 0) + (if has s.flags fFin then 1 else 0)

structure FastRec where
  active : Bool := false
  first : Nat := 0
  last : Nat := 0
  maxCwnd : Nat := 0
deriving Repr, Inhabited

structure Snd where
  sndUna : Nat
  sndNxt : Nat
  sndNxtList : Nat
  sndWnd : Nat
  sndWndScale : Nat := 0
  maxPayload : Nat
  cwnd : Nat := 10
  ssthresh : Nat := 0      -- 0 = "infinite" (math.MaxInt64)
  ssInf : Bool := true
  caAck : Nat := 0
  outstanding : Int := 0
  dupAck : Nat := 0
  fr : FastRec := {}
  writeList : List WSeg := []
  /-- index into `writeList` of `writeNext`; `writeList.length` = nil -/
  writeNext : Nat := 0
  closed : Bool := false
  timerEnabled : Bool := false
  maxSentAck : Nat
  /-- ghost counters (never read by the model): write-list segments removed by acknowledgements so far, and
  duplicate acknowledgements counted by `checkDuplicateAck` so far — the credits of the C05 window bound -/
  gAcked : Nat := 0
  gDup : Nat := 0
  /-- ghosts of the C01 sender invariant: the sequence number of stream offset 0, every byte `Write` accepted so
  far, and the (unbounded) stream offsets that `sndUna` and `sndNxt` stand for -/
  gIss1 : Nat := 0
  gW : List Nat := []
  gUna : Nat := 0
  gNxt : Nat := 0
  /-- ghost of the C04 sender bound: the rightmost window edge the peer has offered so far, as a stream offset
  (the largest `gUna + sndWnd` over the connection's history) -/
  gEdge : Nat := 0
deriving Repr

/-- the placeholder sender (used where a lookup has no endpoint): a fresh sender's congestion state -/
instance : Inhabited Snd := ⟨{ sndUna := 0, sndNxt := 0, sndNxtList := 0, sndWnd := 0, maxPayload := 0, maxSentAck := 0 }⟩

structure PSeg where
  seq : Nat
  flags : Nat
  data : List Nat
deriving Repr, Inhabited

structure Rcv where
  rcvNxt : Nat
  rcvAcc : Nat
  rcvWndScale : Nat := 0
  closed : Bool := false
  pending : List PSeg := []
  pendingBufUsed : Nat := 0
  pendingBufSize : Nat
deriving Repr, Inhabited

inductive EpState | connected | closed | error
deriving Repr, DecidableEq, Inhabited

structure Ep where
  state : EpState := .connected
  snd : Snd
  rcv : Rcv
  /-- receive list: one entry per view handed to `Read` -/
  rcvList : List (List Nat) := []
  rcvBufUsed : Nat := 0
  rcvBufSize : Nat
  rcvClosed : Bool := false
  sndBufUsed : Nat := 0
  sndBufSize : Nat
  sndClosed : Bool := false
  sendTSOk : Bool := false
  recentTS : Nat := 0
  sackPermitted : Bool := false
  sack : List (Nat × Nat) := []
  hardError : String := ""
  /-- main loop has ended (state closed / error) -/
  done : Bool := false
deriving Repr, Inhabited

/-! ### options and emission -/

def makeOptions (e : Ep) (withSack : Bool) : List Nat :=
  let ts := if e.sendTSOk then [1, 1, 8, 10, 0, 0, 0, 0] ++ Model.Header.be32 e.recentTS else []
  -- `EncodeSACKBlocks` writes as many blocks as fit in what is left of the 40 option bytes
  let bl := e.sack.take (if e.sendTSOk then 3 else 4)
  let sk := if e.sackPermitted && withSack && bl.length > 0 then
      [1, 1, 5, bl.length * 8 + 2] ++ Model.Header.blocksBytes bl else []
  ts ++ sk

def receiveBufferAvailable (e : Ep) : Nat := if e.rcvBufUsed ≥ e.rcvBufSize then 0 else e.rcvBufSize - e.rcvBufUsed

/-- `getSendParams`: may move `rcvAcc` to the right; returns (ep, rcvNxt, scaled window) -/
def getSendParams (e : Ep) : Ep × Nat × Nat :=
  let n := receiveBufferAvailable e
  let acc := addS e.rcv.rcvNxt (n % M)
  let r := if lt e.rcv.rcvAcc acc then { e.rcv with rcvAcc := acc } else e.rcv
  ({ e with rcv := r }, r.rcvNxt, (sizeS r.rcvNxt r.rcvAcc) >>> r.rcvWndScale)

/-- `sendRaw` in the connected state -/
def sendRaw (e : Ep) (data : List Nat) (flags seq ack wnd : Nat) : OutSeg :=
  let withSack := e.state == .connected && e.rcv.pendingBufSize > 0 && has flags fAck
  ⟨flags, seq, ack, min wnd 65535, makeOptions e withSack, data⟩

/-- `sender.sendSegment` -/
def sendSegment (e : Ep) (data : List Nat) (flags seq : Nat) : Ep × OutSeg :=
  let (e1, rcvNxt, rcvWnd) := getSendParams e
  let e2 := { e1 with snd := { e1.snd with maxSentAck := rcvNxt } }
  (e2, sendRaw e2 data flags seq rcvNxt rcvWnd)

def sendAck (e : Ep) : Ep × OutSeg := sendSegment e [] fAck e.snd.sndNxt

/-! ### Reno -/

/-- `updateSlowStart`: the window grows by the packets acknowledged, up to `ssthresh` (where the
congestion-avoidance count restarts); returns what is left for congestion avoidance -/
def renoSlowStart (s : Snd) (packetsAcked : Nat) : Snd × Nat :=
  if !s.ssInf && s.cwnd + packetsAcked ≥ s.ssthresh then
    ({ s with cwnd := s.ssthresh, caAck := 0 }, packetsAcked - (s.ssthresh - s.cwnd))
  else ({ s with cwnd := s.cwnd + packetsAcked }, 0)

/-- `updateCongestionAvoidance` -/
def renoCA (s : Snd) (packetsAcked : Nat) : Snd :=
  let ca := s.caAck + packetsAcked
  if s.cwnd > 0 && ca ≥ s.cwnd then { s with cwnd := s.cwnd + ca / s.cwnd, caAck := ca % (s.cwnd + ca / s.cwnd) }
  else { s with caAck := ca }

/-- `renoState.Update` -/
def renoUpdate (s : Snd) (packetsAcked : Nat) : Snd :=
  if s.ssInf || s.cwnd < s.ssthresh then
    let r := renoSlowStart s packetsAcked
    if r.2 == 0 then r.1 else renoCA r.1 r.2
  else renoCA s packetsAcked

def reduceSsthresh (s : Snd) : Snd :=
  let h := (if s.outstanding < 0 then 0 else s.outstanding.toNat) / 2
  { s with ssthresh := if h < 2 then 2 else h, ssInf := false }

/-! ### sender -/

def sndEnd (s : Snd) : Nat := addS s.sndUna (s.sndWnd % M)

/-- first transmission: the segment gets its sequence number (`flags = 0` marks "never sent") -/
def WSeg.assign (seg : WSeg) (sndNxt : Nat) : WSeg :=
  if seg.flags == 0 then { seg with seq := sndNxt, flags := fAck ||| fPsh } else seg

def Snd.bumpNxt (s : Snd) (segEnd : Nat) : Snd :=
  if lt s.sndNxt segEnd then { s with sndNxt := segEnd, gNxt := s.gNxt + sizeS s.sndNxt segEnd } else s

/-- transmit a prepared write-list entry and advance `sndNxt` past it if it is new -/
def emitAt (e : Ep) (seg : WSeg) (segEnd : Nat) : Ep × OutSeg :=
  let r := sendSegment e seg.data seg.flags seg.seq
  ({ r.1 with snd := r.1.snd.bumpNxt segEnd }, r.2)

def Ep.setWriteNext (e : Ep) (i : Nat) : Ep := { e with snd := { e.snd with writeNext := i } }

/-- split entry `i` when it is longer than what may be sent now: the rest becomes a new entry behind it -/
def splitAt (wl : List WSeg) (i : Nat) (seg : WSeg) (available : Nat) : List WSeg × WSeg :=
  if seg.data.length > available then
    let nSeg : WSeg := { seq := addS seg.seq available, flags := seg.flags, data := seg.data.drop available,
                         gOff := seg.gOff + available }
    let seg' := { seg with data := seg.data.take available }
    ((wl.set i seg').take (i + 1) ++ [nSeg] ++ wl.drop (i + 1), seg')
  else (wl.set i seg, seg)

inductive SendRes
  | stop (e : Ep)
  | sent (e : Ep) (o : OutSeg)

/-- one iteration of the `sendData` loop at write-list position `i` -/
def sendStep (e : Ep) (i : Nat) : SendRes :=
  match e.snd.writeList[i]? with
  | none => .stop (e.setWriteNext i)
  | some seg0 =>
    if !(e.snd.outstanding < (e.snd.cwnd : Int)) then .stop (e.setWriteNext i) else
    let seg := seg0.assign e.snd.sndNxt
    if seg.data.length == 0 then
      -- FIN
      let seg := { seg with flags := fAck ||| fFin }
      let r := emitAt { e with snd := { e.snd with writeList := e.snd.writeList.set i seg } } seg (addS seg.seq 1)
      .sent r.1 r.2
    else
      let endW := sndEnd e.snd
      if !lt seg.seq endW then .stop { e with snd := { e.snd with writeList := e.snd.writeList.set i seg, writeNext := i } } else
      let available := min (sizeS seg.seq endW) e.snd.maxPayload
      let sp := splitAt e.snd.writeList i seg available
      let r := emitAt { e with snd := { e.snd with writeList := sp.1, outstanding := e.snd.outstanding + 1 } } sp.2
                 (addS sp.2.seq sp.2.data.length)
      .sent r.1 r.2

/-- `sendData` loop; `fuel` bounds the iterations (each one advances `writeNext`) -/
def sendDataLoop : Nat → Ep → Nat → List OutSeg → Ep × List OutSeg
  | 0, e, i, out => (e.setWriteNext i, out)
  | fuel + 1, e, i, out =>
    match sendStep e i with
    | .stop e' => (e', out)
    | .sent e' o => sendDataLoop fuel e' (i + 1) (out ++ [o])

/-- enough iterations for the whole write list: every iteration either finishes an entry or sends at least
one byte of one -/
def sendFuel (s : Snd) : Nat := s.writeList.length + (s.writeList.map (·.data.length)).sum

def sendData (e : Ep) : Ep × List OutSeg :=
  let r := sendDataLoop (sendFuel e.snd + 1) e e.snd.writeNext []
  ({ r.1 with snd := if !r.1.snd.timerEnabled && r.1.snd.sndUna != r.1.snd.sndNxt then { r.1.snd with timerEnabled := true } else r.1.snd }, r.2)

def resendSegment (e : Ep) : Ep × List OutSeg :=
  match e.snd.writeList.head? with
  | none => (e, [])
  | some seg => ((sendSegment e seg.data seg.flags seg.seq).1, [(sendSegment e seg.data seg.flags seg.seq).2])

def enterFastRecovery (s : Snd) : Snd :=
  let cw := s.ssthresh + 3
  { s with fr := { active := true, first := s.sndUna, last := subS s.sndNxt 1,
                   maxCwnd := cw + (if s.outstanding < 0 then 0 else s.outstanding.toNat) }, cwnd := cw }

def leaveFastRecovery (s : Snd) : Snd :=
  { s with fr := { active := false, first := 0, last := subS s.sndNxt 1, maxCwnd := 0 }, dupAck := 0, cwnd := s.ssthresh }

/-- `checkDuplicateAck` → (sender, retransmit?) -/
def checkDuplicateAck (s : Snd) (ack logicalLen window : Nat) : Snd × Bool :=
  if s.fr.active then
    if !inRange ack s.sndUna (addS s.sndNxt 1) then (s, false)
    else if lt s.fr.last ack then (leaveFastRecovery s, false)
    else if logicalLen != 0 || s.sndWnd != window then (s, false)
    else if ack == s.fr.first then
      ((if s.cwnd < s.fr.maxCwnd then { s with cwnd := s.cwnd + 1, gDup := s.gDup + 1 } else { s with gDup := s.gDup + 1 }), false)
    else ({ s with fr := { s.fr with first := ack }, dupAck := 0 }, true)
  else
    if ack != s.sndUna || logicalLen != 0 || s.sndWnd != window || ack == s.sndNxt then ({ s with dupAck := 0 }, false)
    else
      let s := { s with dupAck := s.dupAck + 1, gDup := s.gDup + 1 }
      if s.dupAck < 3 then (s, false)
      else if !lt s.fr.last ack then ({ s with dupAck := 0 }, false)
      else ({ (enterFastRecovery (reduceSsthresh s)) with dupAck := 0 }, true)

/-- the cumulative-ACK loop of `handleRcvdSegment`: removes / trims acknowledged segments.
    `fixSeq` = the write list's head keeps its sequence number in step with the trim (repaired code). -/
def ackLoop : Nat → Snd → Nat → Snd
  | 0, s, _ => s
  | fuel + 1, s, ackLeft =>
    if ackLeft == 0 then s else
    match s.writeList with
    | [] => s
    | seg :: rest =>
      let datalen := seg.logicalLen
      if datalen > ackLeft then
        { s with writeList := { seg with data := seg.data.drop ackLeft, seq := addS seg.seq ackLeft, gOff := seg.gOff + ackLeft } :: rest }
      else
        let wn := if s.writeNext == 0 then 0 else s.writeNext - 1
        ackLoop fuel { s with writeList := rest, writeNext := wn, outstanding := s.outstanding - 1, gAcked := s.gAcked + 1 } (ackLeft - datalen)

def updateRecentTimestamp (e : Ep) (tsVal maxSentAck segSeq : Nat) : Ep :=
  if e.sendTSOk && lt e.recentTS tsVal && le segSeq maxSentAck then { e with recentTS := tsVal } else e

/-- the acknowledgement covers new data: stop the timer, slide the window, update the congestion state -/
def ackAdvance (s : Snd) (ack : Nat) : Snd :=
  let s0 := { s with dupAck := 0, timerEnabled := false }
  let acked := sizeS s0.sndUna ack
  let s1 := ackLoop (s0.writeList.length + 1)
    { s0 with sndUna := ack, gUna := s0.gUna + acked, gEdge := max s0.gEdge (s0.gUna + acked + s0.sndWnd % M) } acked
  let s2 := if !s1.fr.active then
      let d := s0.outstanding - s1.outstanding
      renoUpdate s1 (if d < 0 then 0 else d.toNat)
    else s1
  if s2.outstanding < 0 then { s2 with outstanding := 0 } else s2

/-- `sender.handleRcvdSegment` up to (not including) the final `sendData`: timestamp echo, duplicate-ACK
bookkeeping, window update, cumulative-ACK processing and the fast retransmission if one is due -/
def sndPrepare (e : Ep) (seg : InSeg) (window : Nat) (ts : Model.Header.TCPOpts) : Ep × List OutSeg :=
  let e0 := updateRecentTimestamp e ts.tsVal e.snd.maxSentAck seg.seq
  let c := checkDuplicateAck e0.snd seg.ack seg.logicalLen window
  let s := { c.1 with sndWnd := window, gEdge := max c.1.gEdge (c.1.gUna + window % M) }
  let e1 : Ep :=
    if inRange (subS seg.ack 1) s.sndUna s.sndNxt then
      { e0 with snd := ackAdvance s seg.ack, sndBufUsed := e0.sndBufUsed - sizeS s.sndUna seg.ack }
    else { e0 with snd := s }
  if c.2 then resendSegment e1 else (e1, [])

/-- `sender.handleRcvdSegment` (window already scaled) -/
def sndHandleSegment (e : Ep) (seg : InSeg) (window : Nat) (ts : Model.Header.TCPOpts) : Ep × List OutSeg :=
  ((sendData (sndPrepare e seg window ts).1).1, (sndPrepare e seg window ts).2 ++ (sendData (sndPrepare e seg window ts).1).2)

/-- sender state after a retransmission timeout: recovery is abandoned, the window collapses to one
segment, everything is to be sent again from the head of the write list -/
def rtoState (s : Snd) : Snd :=
  let s := { s with timerEnabled := false }
  let s := if s.fr.active then leaveFastRecovery s else s
  let s := { s with fr := { s.fr with last := subS s.sndNxt 1 } }
  let s := { (reduceSsthresh s) with cwnd := 1 }
  { s with outstanding := 0, writeNext := 0 }

/-- the retransmission timer fired -/
def retransmitTimerExpired (e : Ep) : Ep × List OutSeg :=
  if !e.snd.timerEnabled then (e, []) else sendData { e with snd := rtoState e.snd }

/-! ### receiver -/

def acceptable (r : Rcv) (segSeq segLen : Nat) : Bool :=
  let rcvWnd := sizeS r.rcvNxt r.rcvAcc
  if rcvWnd == 0 then segLen == 0 && segSeq == r.rcvNxt
  else inWindow segSeq r.rcvNxt rcvWnd || overlap r.rcvNxt rcvWnd segSeq segLen

def trimSack (bl : List (Nat × Nat)) (rcvNxt : Nat) : List (Nat × Nat) :=
  bl.filterMap fun (s, e) => if le e rcvNxt then none else some ((if lt s rcvNxt then rcvNxt else s), e)

def updateSack (bl : List (Nat × Nat)) (segStart segEnd rcvNxt : Nat) : List (Nat × Nat) :=
  if bl.isEmpty then [(segStart, segEnd)] else
  let (nb, kept) := bl.foldl (fun (acc : (Nat × Nat) × List (Nat × Nat)) (b : Nat × Nat) =>
      let (nb, kept) := acc
      let (st, en) := b
      if le en st || le st rcvNxt then (nb, kept)
      else if le nb.1 en && le st nb.2 then
        ((if lt st nb.1 then st else nb.1, if lt nb.2 en then en else nb.2), kept)
      else (nb, kept ++ [b])) ((segStart, segEnd), [])
  if lt rcvNxt nb.1 then nb :: (if kept.length == 6 then kept.take 5 else kept) else kept

/-- the part of a segment that is new: `none` if it does not start at or before `rcvNxt` and reach beyond it
(`consumeSegment`'s in-window test and front trim) -/
def trimToNew (r : Rcv) (segSeq : Nat) (data : List Nat) : Option (Nat × List Nat) :=
  if data.length > 0 then
    if !inWindow r.rcvNxt segSeq data.length then none
    else if lt segSeq r.rcvNxt then some (r.rcvNxt, data.drop (sizeS segSeq r.rcvNxt)) else some (segSeq, data)
  else if segSeq != r.rcvNxt then none else some (segSeq, [])

/-- `readyToRead`: one receive-list entry per segment (single view) -/
def deliver (e : Ep) (data : List Nat) : Ep :=
  if data.length > 0 then { e with rcvList := e.rcvList ++ [data], rcvBufUsed := e.rcvBufUsed + data.length } else e

def advanceRcv (e : Ep) (nxt : Nat) : Ep := { e with rcv := { e.rcv with rcvNxt := nxt }, sack := trimSack e.sack nxt }

/-- a consumed FIN: one more sequence number, ACK at once, the receive side closes; pending segments are dropped -/
def consumeFin (e : Ep) : Ep × OutSeg :=
  let r := sendAck { e with rcv := { e.rcv with rcvNxt := addS e.rcv.rcvNxt 1 } }
  ({ r.1 with rcv := { r.1.rcv with closed := true, pending := [] }, rcvClosed := true }, r.2)

/-- `consumeSegment` → (ep, consumed?, ack emitted by a FIN) -/
def consumeSegment (e : Ep) (flags segSeq : Nat) (data : List Nat) : Ep × Bool × List OutSeg :=
  match trimToNew e.rcv segSeq data with
  | none => (e, false, [])
  | some (sq, d) =>
    let e1 := advanceRcv (deliver e d) (addS sq d.length)
    if has flags fFin then
      let r := consumeFin e1
      (r.1, true, [r.2])
    else (e1, true, [])

def insertPending (x : PSeg) : List PSeg → List PSeg
  | [] => [x]
  | y :: t => if lt x.seq y.seq then x :: y :: t else y :: insertPending x t

def PSeg.logicalLen (s : PSeg) : Nat := s.data.length + (if has s.flags fFin then 1 else 0) + (if has s.flags fSyn then 1 else 0)

/-- the parked segment lies wholly before `rcvNxt` (nothing new in it) -/
def PSeg.beforeNxt (s : PSeg) (rcvNxt : Nat) : Bool :=
  lt (addS s.seq (if s.data.length == 0 then M - 1 else s.data.length - 1)) rcvNxt

def Ep.popPending (e : Ep) (s : PSeg) (rest : List PSeg) : Ep :=
  { e with rcv := { e.rcv with pending := rest, pendingBufUsed := e.rcv.pendingBufUsed - s.logicalLen } }

/-- after an in-order segment: consume what was parked and now fits -/
def drainPending : Nat → Ep → List OutSeg → Ep × List OutSeg
  | 0, e, out => (e, out)
  | fuel + 1, e, out =>
    if e.rcv.closed then (e, out) else
    match e.rcv.pending with
    | [] => (e, out)
    | s :: rest =>
      if s.beforeNxt e.rcv.rcvNxt then drainPending fuel (e.popPending s rest) out
      else
        let r := consumeSegment e s.flags s.seq s.data
        if !r.2.1 then (e, out)
        else drainPending fuel (if r.1.rcv.closed then r.1 else r.1.popPending s rest) (out ++ r.2.2)

/-- park a segment in the sequence-ordered pending list, if the budget allows -/
def parkRcv (r : Rcv) (seg : InSeg) : Rcv :=
  let ll := seg.data.length + (if has seg.flags fFin then 1 else 0) + (if has seg.flags fSyn then 1 else 0)
  if r.pendingBufUsed < r.pendingBufSize then
    { r with pendingBufUsed := r.pendingBufUsed + ll, pending := insertPending ⟨seg.seq, seg.flags, seg.data⟩ r.pending }
  else r

/-- an acceptable segment that cannot be consumed yet is parked and acknowledged (with SACK blocks if enabled) -/
def parkSegment (e : Ep) (seg : InSeg) : Ep × List OutSeg :=
  let a := sendAck { e with rcv := parkRcv e.rcv seg, sack := updateSack e.sack seg.seq (addS seg.seq seg.data.length) e.rcv.rcvNxt }
  (a.1, [a.2])

/-- `receiver.handleRcvdSegment` -/
def rcvHandleSegment (e : Ep) (seg : InSeg) : Ep × List OutSeg :=
  if e.rcv.closed then (e, []) else
  if !acceptable e.rcv seg.seq seg.data.length then
    let a := sendAck e
    (a.1, [a.2])
  else
    let r := consumeSegment e seg.flags seg.seq seg.data
    if !r.2.1 then
      if seg.data.length > 0 || has seg.flags fFin then parkSegment e seg else (e, [])
    else drainPending (r.1.rcv.pending.length + 1) r.1 r.2.2

/-! ### the connected endpoint's event handlers -/

/-- the body of the `handleSegments` loop for one dequeued segment; the flag says the loop returned
`ErrConnectionReset` -/
def handleCore (e : Ep) (seg : InSeg) : Ep × List OutSeg × Bool :=
  if has seg.flags fRst then (e, [], acceptable e.rcv seg.seq 0)
  else if has seg.flags fAck then
    if e.sendTSOk && !(Model.Header.parseTCPOptions seg.opts).ts then (e, [], false)
    else
      let r := rcvHandleSegment e seg
      let s := sndHandleSegment r.1 seg (seg.wnd <<< e.snd.sndWndScale) (Model.Header.parseTCPOptions seg.opts)
      (s.1, r.2 ++ s.2, false)
  else (e, [], false)

/-- the dequeue loop: stops at the first acceptable reset (what is left in the queue is never read) -/
def handleBatch (e : Ep) : List InSeg → Ep × List OutSeg × Bool
  | [] => (e, [], false)
  | s :: rest =>
    let c := handleCore e s
    if c.2.2 then c
    else
      let r := handleBatch c.1 rest
      (r.1, c.2.1 ++ r.2.1, r.2.2)

/-- the main loop's exit test: both directions closed and everything acknowledged -/
def closeIfDone (e : Ep) : Ep :=
  if e.rcv.closed && e.snd.closed && e.snd.sndUna == e.snd.sndNxtList then { e with state := .closed, done := true } else e

/-- what follows the dequeue loop: the cumulative ACK, and the main loop's exit test -/
def finishBatch (e : Ep) (out : List OutSeg) (reset : Bool) : Ep × List OutSeg :=
  if reset then
    -- ErrConnectionReset: the endpoint enters the error state and the loop ends; a reset is not answered
    ({ e with state := .error, hardError := "connection-reset-by-peer", done := true }, out)
  else if e.rcv.rcvNxt != e.snd.maxSentAck then
    let r := sendAck e
    (closeIfDone r.1, out ++ [r.2])
  else (closeIfDone e, out)

def maxSegmentsPerWake : Nat := 100

/-- the wake-ups needed to drain a queue of segments: at most `maxSegmentsPerWake` per wake-up, each followed
by the cumulative ACK and the exit test (`fuel`: one wake-up per unit) -/
def handleSegmentsLoop : Nat → Ep → List InSeg → Ep × List OutSeg
  | 0, e, _ => (e, [])
  | fuel + 1, e, segs =>
    if e.done then (e, []) else
    let b := handleBatch e (segs.take maxSegmentsPerWake)
    let f := finishBatch b.1 b.2.1 b.2.2
    if segs.length ≤ maxSegmentsPerWake then f
    else
      let r := handleSegmentsLoop fuel f.1 (segs.drop maxSegmentsPerWake)
      (r.1, f.2 ++ r.2)

/-- `handleSegments` on a queue of segments -/
def handleSegments (e : Ep) (segs : List InSeg) : Ep × List OutSeg := handleSegmentsLoop (segs.length + 1) e segs

/-- one segment through `handleSegments` (the harness delivers one at a time to a running loop) -/
def handleSegment (e : Ep) (seg : InSeg) : Ep × List OutSeg := handleSegments e [seg]

/-- `handleWrite`: the accepted bytes go to the end of the write list as one entry -/
def queueWrite (e : Ep) (v : List Nat) : Ep :=
  { e with sndBufUsed := e.sndBufUsed + v.length,
           snd := { e.snd with writeList := e.snd.writeList ++ [{ data := v, gOff := e.snd.gW.length }],
                               gW := e.snd.gW ++ v,
                               sndNxtList := addS e.snd.sndNxtList v.length,
                               writeNext := if e.snd.writeNext ≥ e.snd.writeList.length then e.snd.writeList.length else e.snd.writeNext } }

/-- `Write`: returns bytes accepted -/
def appWrite (e : Ep) (data : List Nat) : Ep × Except String Nat × List OutSeg :=
  if e.state != .connected then (e, .error (if e.state == .error then e.hardError else "endpoint-is-closed-for-send"), []) else
  if data.length == 0 then (e, .ok 0, []) else
  if e.sndClosed then (e, .error "endpoint-is-closed-for-send", []) else
  if e.sndBufUsed ≥ e.sndBufSize then (e, .error "operation-would-block", []) else
  let v := data.take (e.sndBufSize - e.sndBufUsed)
  let r := sendData (queueWrite e v)
  (r.1, .ok v.length, r.2)

def zeroReceiveWindow (e : Ep) (used : Nat) : Bool :=
  if used ≥ e.rcvBufSize then true else ((e.rcvBufSize - used) >>> e.rcv.rcvWndScale) == 0

/-- the first receive-list entry is handed to the application -/
def popRead (e : Ep) (v : List Nat) (rest : List (List Nat)) : Ep :=
  { e with rcvList := rest, rcvBufUsed := e.rcvBufUsed - v.length }

/-- `Read` -/
def appRead (e : Ep) : Ep × Except String (List Nat) × List OutSeg :=
  if e.state != .connected && e.state != .closed && e.rcvBufUsed == 0 then
    (e, .error (if e.state == .error then e.hardError else "endpoint-is-in-invalid-state"), [])
  else if e.rcvBufUsed == 0 then
    (e, .error (if e.rcvClosed || e.state != .connected then "endpoint-is-closed-for-receive" else "operation-would-block"), [])
  else
    match e.rcvList with
    | [] => (e, .error "operation-would-block", [])
    | v :: rest =>
      let e1 := popRead e v rest
      -- notifyNonZeroReceiveWindow → rcv.nonZeroWindow()
      if zeroReceiveWindow e e.rcvBufUsed && !zeroReceiveWindow e1 e1.rcvBufUsed && !e1.done then
        if (sizeS e1.rcv.rcvNxt e1.rcv.rcvAcc) >>> e1.rcv.rcvWndScale != 0 then (e1, .ok v, [])
        else let a := sendAck e1; (a.1, .ok v, [a.2])
      else (e1, .ok v, [])

/-- `Shutdown(write)`: the FIN is queued behind all data as an entry without payload -/
def queueFin (e : Ep) : Ep :=
  { e with sndClosed := true,
           snd := { e.snd with writeList := e.snd.writeList ++ [{ data := [], gOff := e.snd.gW.length }],
                               sndNxtList := addS e.snd.sndNxtList 1,
                               writeNext := if e.snd.writeNext ≥ e.snd.writeList.length then e.snd.writeList.length else e.snd.writeNext } }

/-- `Shutdown(write)`: queue the FIN, `handleClose` -/
def appShutdownWrite (e : Ep) : Ep × List OutSeg :=
  if e.state != .connected || e.sndClosed then (e, []) else
  let r := sendData (queueFin e)
  (closeIfDone { r.1 with snd := { r.1.snd with closed := true } }, r.2)

def timerEvent (e : Ep) : Ep × List OutSeg :=
  if e.done then (e, []) else retransmitTimerExpired e

/-! ### construction after a handshake -/

def newEp (iss irs sndWnd mss : Nat) (sndWndScale : Int) (rcvWnd rcvWndScale mtu rcvBuf sndBuf : Nat)
    (ts : Bool) (recentTS : Nat) (sackPerm : Bool) : Ep :=
  let optLen := if ts && sackPerm then 40 else if ts then 12 else if sackPerm then 36 else 0
  let m := mtu - 20 - 20 - optLen
  let mp := if m ≥ mss then mss else (if m == 0 then 1 else m)
  { snd := { sndUna := addS iss 1, sndNxt := addS iss 1, sndNxtList := addS iss 1, sndWnd := sndWnd,
             sndWndScale := if sndWndScale > 0 then sndWndScale.toNat else 0, maxPayload := mp,
             maxSentAck := addS irs 1, fr := { last := iss }, gIss1 := addS iss 1, gEdge := sndWnd % M },
    rcv := { rcvNxt := addS irs 1, rcvAcc := addS irs (rcvWnd + 1), rcvWndScale := rcvWndScale, pendingBufSize := rcvWnd },
    rcvBufSize := rcvBuf, sndBufSize := sndBuf, sendTSOk := ts, recentTS := recentTS, sackPermitted := sackPerm }

/-! ### handshake -/

def findWndScale (wnd : Nat) : Nat :=
  if wnd < 65536 then 0 else
  let rec go (fuel s max : Nat) : Nat :=
    match fuel with
    | 0 => s
    | f + 1 => if wnd > max && s < 14 then go f (s + 1) (max * 2) else s
  go 15 0 65535

/-- `makeSynOptions` -/
def makeSynOptions (mss : Nat) (ws : Int) (ts : Bool) (tsVal tsEcr : Nat) (sackPerm : Bool) : List Nat :=
  let o := [2, 4, mss / 256 % 256, mss % 256]
  let o := o ++ (if ts && sackPerm then [4, 2, 8, 10] ++ Model.Header.be32 tsVal ++ Model.Header.be32 tsEcr
                 else if ts then [1, 1, 8, 10] ++ Model.Header.be32 tsVal ++ Model.Header.be32 tsEcr
                 else if sackPerm then [1, 1, 4, 2] else [])
  o ++ (if ws ≥ 0 then [1, 3, 3, ws.toNat % 256] else [])

inductive HState | synSent | synRcvd | completed | failed
deriving Repr, DecidableEq, Inhabited

structure Hs where
  state : HState
  active : Bool
  flags : Nat
  ackNum : Nat := 0
  iss : Nat
  rcvWnd : Nat
  sndWnd : Nat := 0
  mss : Nat := 0
  sndWndScale : Int := 0
  rcvWndScale : Nat
  sendTSOk : Bool := false
  recentTS : Nat := 0
  sackPermitted : Bool := false
  sackEnabled : Bool := false
  mtu : Nat
  err : String := ""
  /-- passive open: the new endpoint's sender was created from the SYN, before the handshake ran; its send
      window is the SYN's window field (the final ACK's window is not applied) -/
  synWnd : Nat := 0
deriving Repr, Inhabited

def Hs.effectiveRcvWndScale (h : Hs) : Nat := if h.sndWndScale < 0 then 0 else h.rcvWndScale

/-- the SYN / SYN-ACK `execute` sends first and on every retransmission -/
def Hs.synSegment (h : Hs) : OutSeg :=
  let ts := if h.state == .synRcvd || !h.active then h.sendTSOk else true
  let sp := if h.state == .synRcvd || !h.active then h.sackPermitted && h.sackEnabled else h.sackEnabled
  ⟨h.flags, h.iss, h.ackNum, min h.rcvWnd 65535, makeSynOptions (h.mtu - 40) h.rcvWndScale ts 0 h.recentTS sp, []⟩

def hsRst (seq ack : Nat) (e : Hs) : OutSeg :=
  ⟨fRst ||| fAck, seq, ack, 0, (if e.sendTSOk then [1, 1, 8, 10, 0, 0, 0, 0] ++ Model.Header.be32 e.recentTS else []), []⟩

/-- `handshake.handleSegment`; `newIss` is the sequence number drawn if the handshake restarts -/
def Hs.handle (h : Hs) (s : InSeg) (newIss : Nat) : Hs × List OutSeg :=
  let h := { h with sndWnd := if !has s.flags fSyn && h.sndWndScale > 0 then s.wnd <<< h.sndWndScale.toNat else s.wnd }
  let popts := Model.Header.parseTCPOptions s.opts
  let checkAck : Option OutSeg :=
    if has s.flags fAck && s.ack != addS h.iss 1 then some (hsRst s.ack (addS s.seq s.logicalLen) h) else none
  match h.state with
  | .synSent =>
    if has s.flags fRst then
      if has s.flags fAck && s.ack == addS h.iss 1 then ({ h with state := .failed, err := "connection-was-refused" }, []) else (h, [])
    else match checkAck with
    | some r => (h, [r])
    | none =>
      if !has s.flags fSyn then (h, []) else
      let so := Model.Header.parseSynOptions s.opts (has s.flags fAck)
      let h := if so.ts then { h with sendTSOk := true, recentTS := so.tsVal } else h
      let h := if h.sackEnabled && so.sackPermitted then { h with sackPermitted := true } else h
      let h := { h with ackNum := addS s.seq 1, flags := h.flags ||| fAck, mss := so.mss, sndWndScale := so.ws }
      if has s.flags fAck then
        let o : OutSeg := ⟨fAck, addS h.iss 1, h.ackNum, min (h.rcvWnd >>> h.effectiveRcvWndScale) 65535,
          (if h.sendTSOk then [1, 1, 8, 10, 0, 0, 0, 0] ++ Model.Header.be32 h.recentTS else []), []⟩
        ({ h with state := .completed }, [o])
      else
        let h := { h with state := .synRcvd }
        let o : OutSeg := ⟨h.flags, h.iss, h.ackNum, min h.rcvWnd 65535,
          makeSynOptions (h.mtu - 40) h.rcvWndScale so.ts 0 h.recentTS so.sackPermitted, []⟩
        (h, [o])
  | .synRcvd =>
    if has s.flags fRst then
      if inWindow s.seq h.ackNum h.rcvWnd then ({ h with state := .failed, err := "connection-was-refused" }, []) else (h, [])
    else match checkAck with
    | some r => (h, [r])
    | none =>
      if has s.flags fSyn && s.seq != subS h.ackNum 1 then
        let seq := if has s.flags fAck then s.ack else 0
        let r := hsRst seq (addS s.seq s.logicalLen) h
        if !h.active then ({ h with state := .failed, err := "endpoint-is-in-invalid-state" }, [r])
        else
          let h := { h with state := .synSent, flags := fSyn, ackNum := 0, mss := 0, iss := newIss }
          let o : OutSeg := ⟨h.flags, h.iss, h.ackNum, min h.rcvWnd 65535,
            makeSynOptions (h.mtu - 40) h.rcvWndScale h.sendTSOk 0 h.recentTS h.sackPermitted, []⟩
          (h, [r, o])
      else if has s.flags fAck then
        if h.sendTSOk && !popts.ts then (h, [])
        else
          let h := if h.sendTSOk && lt h.recentTS popts.tsVal && le s.seq h.ackNum then { h with recentTS := popts.tsVal } else h
          ({ h with state := .completed }, [])
      else (h, [])
  | _ => (h, [])

/-- the endpoint a completed handshake produces -/
def Hs.toEp (h : Hs) (rcvBuf sndBuf : Nat) : Ep :=
  let e := newEp h.iss (subS h.ackNum 1) h.sndWnd h.mss h.sndWndScale h.rcvWnd h.effectiveRcvWndScale h.mtu rcvBuf sndBuf
    h.sendTSOk h.recentTS h.sackPermitted
  e

/-- `replyWithReset` / `HandleUnknownDestinationPacket` -/
def replyWithReset (s : InSeg) : Option OutSeg :=
  if has s.flags fRst then none
  else some ⟨fRst ||| fAck, (if has s.flags fAck then s.ack else 0), addS s.seq s.logicalLen, 0, [], []⟩

end Model.Tcp
