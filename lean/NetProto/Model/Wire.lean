import NetProto.Model.Header
/-! Byte-level model of the sending paths (core only): what `ipv4.WritePacket`, `ipv6.WritePacket`, `udp.sendUDP`,
`tcp.sendTCP`, the ARP builders and the fd-based link's Ethernet framing put on the wire for given fields.
Headers are built in zeroed `buffer.Prependable`s, as in the Go code. -/
namespace Model.Wire
open Model.Header

def zeros (n : Nat) : List Nat := List.replicate n 0

/-- `ipv4.WritePacket`: 20-byte header, total length, the identifier handed in, checksum = complement of the
header's sum -/
def ipv4Header (id ttl proto : Nat) (src dst : List Nat) (payloadLen : Nat) : List Nat :=
  let h := ipv4Encode (zeros 20) { ihl := 20, tos := 0, totalLength := 20 + payloadLen, id := id, flags := 0, fragmentOffset := 0,
                                   ttl := ttl, protocol := proto, checksum := 0, src := src, dst := dst }
  setAt h 10 (be16 (65535 - checksum h 0))

def ipv4Packet (id ttl proto : Nat) (src dst payload : List Nat) : List Nat :=
  ipv4Header id ttl proto src dst payload.length ++ payload

/-- `ipv6.WritePacket` -/
def ipv6Packet (hop next : Nat) (src dst payload : List Nat) : List Nat :=
  ipv6Encode (zeros 40) { trafficClass := 0, flowLabel := 0, payloadLength := payload.length, nextHeader := next, hopLimit := hop,
                          src := src, dst := dst } ++ payload

/-- `udp.sendUDP`: the payload is one view -/
def udpDatagram (src dst : List Nat) (sport dport : Nat) (payload : List Nat) : List Nat :=
  let length := 8 + payload.length
  let h := udpEncode (zeros 8) { srcPort := sport, dstPort := dport, length := length, checksum := 0 }
  let x := checksum payload (pseudoHeaderChecksum 17 src dst)
  let c := 65535 - udpCalculateChecksum h x length
  -- RFC 768: a computed zero goes out as all ones
  setAt h 6 (be16 (if c == 0 then 65535 else c)) ++ payload

/-- `tcp.sendTCP`: fixed header, the option bytes as given (already padded by their makers), one payload view -/
def tcpSegment (src dst : List Nat) (sport dport seq ack flags wnd : Nat) (opts payload : List Nat) : List Nat :=
  let hl := 20 + opts.length
  let h := tcpEncode (zeros hl) { srcPort := sport, dstPort := dport, seq := seq, ack := ack, dataOffset := hl, flags := flags,
                                  window := min wnd 65535, checksum := 0, urgent := 0 }
  let h := setAt h 20 opts
  let x := checksum payload (pseudoHeaderChecksum 6 src dst)
  setAt h 16 (be16 (65535 - tcpCalculateChecksum h x (hl + payload.length))) ++ payload

/-- ARP request / reply bodies (`arp.LinkAddressRequest`, `arp.HandlePacket`) -/
def arpPacket (op : Nat) (sha spa tha tpa : List Nat) : List Nat := arpBuild (zeros 28) op sha spa tha tpa

/-- the fd-based endpoint's Ethernet header -/
def ethFrame (src dst : List Nat) (etherType : Nat) (payload : List Nat) : List Nat :=
  ethEncode (zeros 14) src dst etherType ++ payload

end Model.Wire
