/-! Model of `protocol/ports` (core only).

Go keeps `map[portDescriptor]map[Address]struct{}`; that is a finite set of
(network, transport, port, address) tuples, modelled as a list.  The wildcard address is `[]`. -/
namespace Model.Ports

structure Tup where
  net : Nat
  trans : Nat
  port : Nat
  addr : List Nat
deriving Repr, DecidableEq, Inhabited

abbrev PM := List Tup

/-- same descriptor and the bind addresses collide (either wildcard, or equal) -/
def conflict (x y : Tup) : Bool :=
  x.net == y.net && x.trans == y.trans && x.port == y.port && (x.addr == [] || y.addr == [] || x.addr == y.addr)

/-- `bindAddresses.isAvailable` for one descriptor -/
def availOne (T : PM) (n t p : Nat) (a : List Nat) : Bool :=
  T.all fun x => !conflict x ⟨n, t, p, a⟩

def isAvailable (T : PM) (nets : List Nat) (t : Nat) (a : List Nat) (p : Nat) : Bool :=
  nets.all fun n => availOne T n t p a

def addTups (T : PM) : List Nat → Nat → Nat → List Nat → PM
  | [], _, _, _ => T
  | n :: ns, t, p, a =>
    let x : Tup := ⟨n, t, p, a⟩
    addTups (if T.contains x then T else T ++ [x]) ns t p a

def reserveSpecific (T : PM) (nets : List Nat) (t : Nat) (a : List Nat) (p : Nat) : PM × Bool :=
  if isAvailable T nets t a p then (addTups T nets t p a, true) else (T, false)

def release (T : PM) (nets : List Nat) (t : Nat) (a : List Nat) (p : Nat) : PM :=
  T.filter fun x => !(nets.contains x.net && x.trans == t && x.port == p && x.addr == a)

/-! ### ephemeral port search (offset explicit) -/

def count : Nat := 49536

/-- `port = FirstEphemeral + (offset+i)%count` with the types the code declares -/
def pickPort (offset i : BitVec 16) : BitVec 16 :=
  16000#16 + BitVec.setWidth 16 ((BitVec.setWidth 32 offset + BitVec.setWidth 32 i) % 49536#32)

/-- the search loop; returns the port and the number of ports tested -/
def pickFrom (offset : BitVec 16) (test : BitVec 16 → Bool) : Nat → Nat → Option (BitVec 16 × Nat)
  | 0, _ => none
  | fuel + 1, i =>
    let port := pickPort offset (BitVec.ofNat 16 i)
    if test port then some (port, i + 1) else pickFrom offset test fuel (i + 1)

def pick (offset : BitVec 16) (test : BitVec 16 → Bool) : Option (BitVec 16 × Nat) :=
  pickFrom offset test count 0

/-- `ReservePort` with port 0: ephemeral search whose test is `reserveSpecific` -/
def reserveEphemeralFrom (T : PM) (nets : List Nat) (t : Nat) (a : List Nat) (offset : BitVec 16) :
    Nat → Nat → PM × Option Nat
  | 0, _ => (T, none)
  | fuel + 1, i =>
    let port := (pickPort offset (BitVec.ofNat 16 i)).toNat
    let (T', ok) := reserveSpecific T nets t a port
    if ok then (T', some port) else reserveEphemeralFrom T nets t a offset fuel (i + 1)

def reservePort (T : PM) (nets : List Nat) (t : Nat) (a : List Nat) (p : Nat) (offset : BitVec 16) : PM × Option Nat :=
  if p != 0 then
    let (T', ok) := reserveSpecific T nets t a p
    (T', if ok then some p else none)
  else reserveEphemeralFrom T nets t a offset count 0

end Model.Ports
