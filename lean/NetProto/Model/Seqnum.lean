/-! Hand-written model of `pkg/seqnum` (core only, used by the driver).
    `Props/C14.lean` proves it equal to the regenerated translation. -/
namespace Model.Seqnum

abbrev Value := BitVec 32
abbrev Size := BitVec 32

def LessThan (v w : Value) : Bool := (v - w).slt 0#32
def LessThanEq (v w : Value) : Bool := if v == w then true else LessThan v w
def InRange (v a b : Value) : Bool := (v - a).ult (b - a)
def Add (v : Value) (s : Size) : Value := v + s
def InWindow (v first : Value) (size : Size) : Bool := InRange v first (Add first size)
def Overlap (a : Value) (b : Size) (x : Value) (y : Size) : Bool :=
  LessThan a (Add x y) && LessThan x (Add a b)
def SizeOf (v w : Value) : Size := w - v
def UpdateForward (v : Value) (s : Size) : Value := v + s

end Model.Seqnum
