import NetProto.Model.Tcp
/-! The stack around the endpoints: demultiplexing of incoming segments to connections, handshakes in
progress, the listener (normal and SYN-cookie mode), the accept queue and the application calls.
One peer address; connections are keyed by the peer's port. -/
namespace Model.Tcp

structure Cfg where
  mtu : Nat := 1500
  sack : Bool := false
  rcvBuf : Nat := 1048576
  sndBuf : Nat := 1048576
deriving Inhabited

structure St where
  cfg : Cfg := {}
  listening : Bool := false
  cookieMode : Bool := false
  /-- handshakes in progress, keyed by the peer's port -/
  hs : List (Nat × Hs) := []
  /-- cookies issued statelessly: (peer port, irs, cookie, mss index) -/
  cookies : List (Nat × Nat × Nat × Nat) := []
  /-- completed passive opens not yet picked up: (peer port, endpoint, segments queued for it, queue bytes used) -/
  acceptQ : List (Nat × Ep × List InSeg × Nat) := []
  eps : List (Nat × Ep) := []       -- (peer port, endpoint); index = endpoint id
  /-- an active open in progress: endpoint id reserved, handshake -/
  active : Option (Nat × Hs) := none
deriving Inhabited

def mssTable : List Nat := [536, 1300, 1440, 1460]
def encodeMSS (mss : Nat) : Nat := if mss ≥ 1460 then 3 else if mss ≥ 1440 then 2 else if mss ≥ 1300 then 1 else 0

def setEp (st : St) (i : Nat) (p : Nat) (e : Ep) : St := { st with eps := st.eps.set i (p, e) }

def listenPort : Nat := 8080

def rstOut (seg : InSeg) : List OutSeg := match replyWithReset seg with | some r => [r] | none => []

/-- the cookie test of `handleListenSegment`: the MSS index rides additively in the low bits of the cookie and
only "index < 4" is checked, so an acknowledgement `k` beyond (or before) the cookie with `0 ≤ index + k < 4`
passes as a cookie for another MSS -/
def cookieMatches (sp : Nat) (seg : InSeg) (c : Nat × Nat × Nat × Nat) : Bool :=
  let (p, irs, ck, mi) := c
  p == sp && addS irs 1 == seg.seq && (mi + sizeS (addS ck 1) seg.ack) % 4294967296 < 4

/-- the endpoint created from a valid cookie: no window scaling, no SACK, the MSS the cookie encodes, and the
sequence number the peer acknowledged -/
def cookieEp (cfg : Cfg) (c : Nat × Nat × Nat × Nat) (seg : InSeg) : Ep :=
  let popts := Model.Header.parseTCPOptions seg.opts
  let k := sizeS (addS c.2.2.1 1) seg.ack
  newEp (subS seg.ack 1) c.2.1 seg.wnd (mssTable.getD ((c.2.2.2 + k) % 4294967296) 536) (-1) cfg.rcvBuf 0 cfg.mtu cfg.rcvBuf cfg.sndBuf
    popts.ts popts.tsVal false

/-- the listening endpoint's `handleListenSegment` for a segment from peer port `sp` -/
def listenStep (st : St) (sp : Nat) (seg : InSeg) (learnedIss : Nat) : St × List OutSeg :=
  if seg.flags == fSyn then
    let so := Model.Header.parseSynOptions seg.opts false
    if !st.cookieMode then
      let h : Hs := { state := .synRcvd, active := false, flags := fSyn ||| fAck, iss := learnedIss, ackNum := addS seg.seq 1,
                      rcvWnd := st.cfg.rcvBuf, sndWnd := seg.wnd, synWnd := seg.wnd, mss := so.mss, sndWndScale := so.ws,
                      rcvWndScale := findWndScale st.cfg.rcvBuf, sendTSOk := so.ts, recentTS := so.tsVal,
                      sackPermitted := st.cfg.sack && so.sackPermitted, sackEnabled := st.cfg.sack, mtu := st.cfg.mtu }
      -- the sender of the new endpoint was created from the SYN: its window is the SYN's
      ({ st with hs := st.hs ++ [(sp, h)] }, [h.synSegment])
    else
      let o : OutSeg := ⟨fSyn ||| fAck, learnedIss, addS seg.seq 1, min st.cfg.rcvBuf 65535,
        makeSynOptions (st.cfg.mtu - 40) (-1) so.ts 0 so.tsVal false, []⟩
      ({ st with cookies := (sp, seg.seq, learnedIss, encodeMSS so.mss) :: st.cookies }, [o])
  else if seg.flags == fAck then
    match st.cookies.find? (cookieMatches sp seg) with
    | some c => ({ st with acceptQ := st.acceptQ ++ [(sp, cookieEp st.cfg c seg, [], 0)], cookies := st.cookies.filter (·.1 != sp) }, [])
    | none => (st, rstOut seg)
  else if has seg.flags fAck && !has seg.flags fRst then (st, rstOut seg)
  else (st, [])

/-- an endpoint whose active open failed stays registered, in the error state -/
def failedEp (err : String) : Ep := { (default : Ep) with state := .error, hardError := err, done := true }

/-- a segment for the active open in progress (endpoint id `i`) -/
def activeSeg (st : St) (i : Nat) (h : Hs) (sp : Nat) (seg : InSeg) (learnedIss : Nat) : St × List OutSeg :=
  let r := h.handle seg learnedIss
  if r.1.state == .completed then
    ({ (setEp st i sp (r.1.toEp st.cfg.rcvBuf st.cfg.sndBuf)) with active := none }, r.2)
  else if r.1.state == .failed then ({ (setEp st i sp (failedEp r.1.err)) with active := none }, r.2)
  else ({ st with active := some (i, r.1) }, r.2)

/-- the endpoint a completed passive handshake delivers to the accept queue -/
def Hs.passiveEp (h : Hs) (rcvBuf sndBuf : Nat) : Ep :=
  newEp h.iss (subS h.ackNum 1) h.synWnd h.mss h.sndWndScale h.rcvWnd h.effectiveRcvWndScale
    h.mtu rcvBuf sndBuf h.sendTSOk h.recentTS h.sackPermitted

/-- a segment for the passive handshake `h` in progress with peer port `sp` -/
def passiveSeg (st : St) (h : Hs) (sp : Nat) (seg : InSeg) (learnedIss : Nat) : St × List OutSeg :=
  let r := h.handle seg learnedIss
  let others := st.hs.filter (·.1 != sp)
  if r.1.state == .completed then
    ({ st with hs := others, acceptQ := st.acceptQ ++ [(sp, r.1.passiveEp st.cfg.rcvBuf st.cfg.sndBuf, [], 0)] }, r.2)
  else if r.1.state == .failed then ({ st with hs := others }, r.2)
  else ({ st with hs := others ++ [(sp, r.1)] }, r.2)

/-- delivered but not yet picked up by `Accept()`: its loop is not running, segments wait in its queue
(bounded by twice the receive buffer, each segment counted with its header) -/
def queueSeg (st : St) (sp : Nat) (seg : InSeg) : St :=
  { st with acceptQ := st.acceptQ.map fun x =>
      if x.1 == sp && x.2.2.2 < 2 * x.2.1.rcvBufSize then (x.1, x.2.1, x.2.2.1 ++ [seg], x.2.2.2 + seg.data.length + 20)
      else x }

/-- a TCP segment from peer port `sp` to local port `dp` arrives at the stack -/
def segStep (st : St) (sp dp : Nat) (seg : InSeg) (learnedIss : Nat) : St × List OutSeg :=
  if dp != listenPort then (st, rstOut seg) else
  -- 1. a connected endpoint for this peer port
  match st.eps.zipIdx.find? (fun x => x.1.1 == sp && sp != 0) with
  | some x =>
    if x.1.2.done then
      -- the endpoint stays registered until Close(): once its loop has ended, segments queue up unread
      (st, [])
    else
      let r := handleSegment x.1.2 seg
      (setEp st x.2 sp r.1, r.2)
  | none =>
    -- 2. an active open in progress
    match st.active with
    | some ih => activeSeg st ih.1 ih.2 sp seg learnedIss
    | none =>
      -- 3. a passive handshake in progress for this peer port
      match st.hs.find? (·.1 == sp) with
      | some ph => passiveSeg st ph.2 sp seg learnedIss
      | none =>
        -- 4. the listener
        if st.listening && (st.acceptQ.find? (·.1 == sp)).isNone then listenStep st sp seg learnedIss
        else if (st.acceptQ.find? (·.1 == sp)).isSome then (queueSeg st sp seg, [])
        else (st, rstOut seg)

/-- `Accept()`: none = would block; the new endpoint's loop starts and drains what was queued meanwhile -/
def acceptStep (st : St) : Option (St × Nat × List OutSeg) :=
  match st.acceptQ with
  | [] => none
  | x :: rest =>
    let r := handleSegments x.2.1 x.2.2.1
    some ({ st with acceptQ := rest, eps := st.eps ++ [(x.1, r.1)] }, st.eps.length, r.2)

/-- `Connect()` with the initial sequence number drawn -/
def connectStep (st : St) (i iss : Nat) : St × List OutSeg :=
  let h : Hs := { state := .synSent, active := true, flags := fSyn, iss := iss, rcvWnd := st.cfg.rcvBuf,
                  rcvWndScale := findWndScale st.cfg.rcvBuf, sackEnabled := st.cfg.sack, mtu := st.cfg.mtu }
  let pad := List.replicate (i + 1 - st.eps.length) (0, (default : Ep))
  ({ st with active := some (i, h), eps := st.eps ++ pad }, [h.synSegment])

/-- `Write` on endpoint `i` -/
def writeStep (st : St) (i : Nat) (d : List Nat) : Option (St × Except String Nat × List OutSeg) :=
  match st.eps[i]? with
  | some (p, e) => let r := appWrite e d; some (setEp st i p r.1, r.2.1, r.2.2)
  | none => none

/-- `Read` on endpoint `i` -/
def readStep (st : St) (i : Nat) : Option (St × Except String (List Nat) × List OutSeg) :=
  match st.eps[i]? with
  | some (p, e) => let r := appRead e; some (setEp st i p r.1, r.2.1, r.2.2)
  | none => none

/-- `Shutdown(write)` on endpoint `i`; `false` = not connected -/
def shutdownStep (st : St) (i : Nat) : Option (St × Bool × List OutSeg) :=
  match st.eps[i]? with
  | some (p, e) =>
    if e.state != .connected then some (st, false, [])
    else let r := appShutdownWrite e; some (setEp st i p r.1, true, r.2)
  | none => none

/-- the retransmission timer of endpoint `i` fires -/
def timerStep (st : St) (i : Nat) : Option (St × List OutSeg) :=
  match st.eps[i]? with
  | some (p, e) => let r := timerEvent e; some (setEp st i p r.1, r.2)
  | none => none

/-- everything that can happen to the stack -/
inductive Op
  | listen
  | cookieMode (on : Bool)
  | connect (i iss : Nat)
  | seg (sp dp : Nat) (s : InSeg) (learnedIss : Nat)
  | accept
  | write (i : Nat) (d : List Nat)
  | read (i : Nat)
  | shutdownWrite (i : Nat)
  | timer (i : Nat)

/-- one event: new state and the segments put on the wire -/
def stackStep (st : St) : Op → St × List OutSeg
  | .listen => ({ st with listening := true }, [])
  | .cookieMode on => ({ st with cookieMode := on }, [])
  | .connect i iss => connectStep st i iss
  | .seg sp dp s l => segStep st sp dp s l
  | .accept => match acceptStep st with | some r => (r.1, r.2.2) | none => (st, [])
  | .write i d => match writeStep st i d with | some r => (r.1, r.2.2) | none => (st, [])
  | .read i => match readStep st i with | some r => (r.1, r.2.2) | none => (st, [])
  | .shutdownWrite i => match shutdownStep st i with | some r => (r.1, r.2.2) | none => (st, [])
  | .timer i => match timerStep st i with | some r => (r.1, r.2) | none => (st, [])

/-- a whole history from a fresh stack with configuration `c`: final state and everything emitted -/
def run (c : Cfg) (ops : List Op) : St × List OutSeg :=
  ops.foldl (fun acc op => let r := stackStep acc.1 op; (r.1, acc.2 ++ r.2)) ({ cfg := c }, [])

end Model.Tcp
