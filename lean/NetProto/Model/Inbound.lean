import NetProto.Model.Buffer
import NetProto.Model.Header
import NetProto.Model.Net
/-! The receive path from the link endpoint to the transport handlers, with every byte access written as a
bounds-checked read (`none` = the Go index expression would panic): `nic.DeliverNetworkPacket`,
`ipv4/ipv6.HandlePacket`, the ICMP handlers' size checks, `nic.DeliverTransportPacket`, `udp.HandlePacket`,
`tcp segment.parse`, and the fd-based endpoint's frame intake.  Packets are vectorised views (`Model.Buffer.VV`,
whose `TrimFront` / `CapLength` are verified against the Go code by C16). Core only. -/
namespace Model.Inbound
open Model.Buffer

/-- `b[i]`: panics when out of range -/
def rd? (b : List Nat) (i : Nat) : Option Nat := b[i]?

def rd16? (b : List Nat) (i : Nat) : Option Nat := do
  let a ← rd? b i
  let c ← rd? b (i + 1)
  pure (a * 256 + c)

/-- `b[i:j]`: panics unless `i ≤ j ≤ len` -/
def slice? (b : List Nat) (i j : Nat) : Option (List Nat) :=
  if i ≤ j ∧ j ≤ b.length then some ((b.take j).drop i) else none

def firstOf (vv : VV) : List Nat := match vv.first with | some v => v.data | none => []

/-- what an injected network packet leads to -/
inductive Reaction
  | panic                                   -- an index expression out of range
  | drop (why : String)
  | udp (dst : List Nat) (sport dport : Nat) (payload : List Nat)   -- handed to `udp.HandlePacket`'s receive queue
  | echo4 (msg : List Nat) (firstLen : Nat) -- ICMPv4 echo request accepted: full ICMP message, length of its first view
  | echo6 (src dst msg : List Nat) (firstLen : Nat)
  | tcp (dst : List Nat) (hdrLen : Nat) (opts payload : List Nat)  -- a parsed segment handed to the TCP demultiplexer
  | frag                                    -- handed to the reassembler (C08)
  | other (what : String)                   -- accepted, but the reaction is not modelled here
deriving Repr, DecidableEq

/-- lift: `none` (a panic) becomes `.panic` -/
def orPanic (o : Option Reaction) : Reaction := o.getD .panic

/-- `segment.parse` on the first view of the transport payload (its length was checked ≥ 20) -/
def tcpParse (dst : List Nat) (vv : VV) : Option Reaction := do
  let h := firstOf vv
  let b12 ← rd? h 12
  let offset := (b12 / 16) * 4
  if offset < 20 ∨ offset > h.length then pure (.drop "tcp.data-offset")
  else
    let opts ← slice? h 20 offset
    let vv' := vv.trimFront offset
    pure (.tcp dst offset opts vv'.bytes)

/-- `nic.DeliverTransportPacket` and the transport handlers' own length checks -/
def deliverTransport (proto : Nat) (src dst : List Nat) (vv : VV) : Option Reaction := do
  let first := firstOf vv
  if proto == 17 then
    if first.length < 8 then pure (.drop "udp.short")
    else
      let sport ← rd16? first 0
      let dport ← rd16? first 2
      -- udp.HandlePacket: the length field may not exceed what arrived; the header is trimmed, the rest delivered
      let ulen ← rd16? first 4
      if (ulen : Int) > vv.size then pure (.drop "udp.length")
      else pure (.udp dst sport dport (vv.trimFront 8).bytes)
  else if proto == 6 then
    if first.length < 20 then pure (.drop "tcp.short")
    else
      let _ ← rd16? first 0
      let _ ← rd16? first 2
      tcpParse dst vv
  else
    let _ := src
    pure (.drop "transport.unknown")

/-- `ipv4.handleICMP`: the per-type size checks -/
def icmp4Handle (vv : VV) : Option Reaction := do
  let v := firstOf vv
  if v.length < 4 then pure (.drop "icmp.short")
  else
    let ty ← rd? v 0
    if ty == 8 then
      if v.length < 6 then pure (.drop "icmp.echo-short") else pure (.echo4 vv.bytes v.length)
    else if ty == 0 then
      if v.length < 6 then pure (.drop "icmp.reply-short") else pure (.other "icmp.echo-reply")
    else if ty == 3 then
      if v.length < 8 then pure (.drop "icmp.unreachable-short")
      else
        let _ ← rd? v 1
        let _ ← rd16? v 6
        pure (.other "icmp.unreachable")
    else pure (.drop "icmp.type")

/-- `ipv4.HandlePacket` behind `nic.DeliverNetworkPacket` (`ours`: the addresses the NIC accepts) -/
def ipv4Inbound (ours : List (List Nat)) (vv : VV) : Option Reaction := do
  let first := firstOf vv
  if first.length < 20 then pure (.drop "ipv4.short")
  else
    let src ← slice? first 12 16
    let dst ← slice? first 16 20
    if !ours.contains dst then pure (.drop "not-for-us")
    else
      -- IsValid
      let b0 ← rd? first 0
      let hlen := (b0 % 16) * 4
      let tlen ← rd16? first 2
      if hlen > tlen ∨ (tlen : Int) > vv.size then pure (.drop "ipv4.invalid")
      else
        let fl ← rd16? first 6
        let more := (fl / 8192) % 2 == 1
        let fragOff := (fl * 8) % 65536
        if more || fragOff != 0 then pure .frag
        else
          let p ← rd? first 9
          if p == 1 then icmp4Handle ((vv.trimFront hlen).capLength ((tlen : Int) - hlen))
          else deliverTransport p src dst ((vv.trimFront hlen).capLength ((tlen : Int) - hlen))

/-- `ipv6.handleICMP`: the per-type size checks -/
def icmp6Handle (src dst : List Nat) (vv : VV) : Option Reaction := do
  let v := firstOf vv
  if v.length < 4 then pure (.drop "icmp6.short")
  else
    let ty ← rd? v 0
    if ty == 128 then
      if v.length < 8 then pure (.drop "icmp6.echo-short") else pure (.echo6 src dst vv.bytes v.length)
    else if ty == 135 then
      if v.length < 24 then pure (.drop "icmp6.ns-short")
      else
        let _ ← slice? v 8 24
        pure (.other "icmp6.neighbor-solicit")
    else if ty == 136 then
      if v.length < 24 then pure (.drop "icmp6.na-short")
      else
        let _ ← slice? v 8 24
        pure (.other "icmp6.neighbor-advert")
    else if ty == 2 then
      if v.length < 8 then pure (.drop "icmp6.too-big-short") else pure (.other "icmp6.too-big")
    else if ty == 1 then
      if v.length < 8 then pure (.drop "icmp6.unreachable-short") else pure (.other "icmp6.unreachable")
    else pure (.drop "icmp6.type")

/-- `ipv6.HandlePacket` behind `nic.DeliverNetworkPacket` -/
def ipv6Inbound (ours : List (List Nat)) (vv : VV) : Option Reaction := do
  let first := firstOf vv
  if first.length < 40 then pure (.drop "ipv6.short")
  else
    let src ← slice? first 8 24
    let dst ← slice? first 24 40
    if !ours.contains dst then pure (.drop "not-for-us")
    else
      let dlen ← rd16? first 4
      if (dlen : Int) > vv.size - 40 then pure (.drop "ipv6.invalid")
      else
        let p ← rd? first 6
        if p == 58 then icmp6Handle src dst ((vv.trimFront 40).capLength dlen)
        else deliverTransport p src dst ((vv.trimFront 40).capLength dlen)

/-- the fd-based endpoint's intake of one frame of `n` bytes read from the device (`hdrSize` 14): frames that do
not carry more than a link header are dropped; the dispatch loop must go on (`true`) -/
def ethIntake (frame : List Nat) : Option (Bool × Option (Nat × List Nat)) := do
  if frame.length ≤ 14 then pure (true, none)
  else
    let ty ← rd16? frame 12
    let _ ← slice? frame 6 12
    let _ ← slice? frame 0 6
    pure (true, some (ty, frame.drop 14))

end Model.Inbound
