import NetProto.Props.C05
import NetProto.Props.TcpReach
/-! C05, cumulative window bound: "with the default (Reno) controller the number of segments in flight never
exceeds 10 plus one per segment acknowledged or duplicate ACK received so far", proved as an invariant of every
endpoint handler and lifted to every reachable stack state.  The credits are two ghost counters of the model
(`gAcked`, `gDup`, never read by it); `acked_counts_removed_segments` and `dup_counts_duplicate_acks` say what they
count.  Invariant `WInv`: in flight ≤ B, window + whole windows of counted ACKs ≤ B, `ssthresh` ≤ B/2 once it is
finite, counted ACKs < B, where B = 10 + credits. -/
namespace Props.C05
open Model.Tcp Props.TcpLemmas

/-- the congestion bookkeeping of a sender: what the window bound speaks about -/
def cg (s : Snd) : Nat × Nat × Nat × Bool × FastRec × Nat × Nat × Int :=
  (s.cwnd, s.caAck, s.ssthresh, s.ssInf, s.fr, s.gAcked, s.gDup, s.outstanding)

/-- 10 plus one per segment acknowledged plus one per duplicate ACK so far -/
def bound (s : Snd) : Nat := 10 + s.gAcked + s.gDup

structure WInv (s : Snd) : Prop where
  out : s.outstanding ≤ (bound s : Int)
  pot : s.cwnd + s.caAck / s.cwnd ≤ bound s
  pos : 0 < s.cwnd
  ss : s.ssInf = false → 2 ≤ s.ssthresh ∧ 2 * s.ssthresh ≤ bound s
  fr : s.fr.active = true → s.ssInf = false
  ca : s.caAck + 1 ≤ bound s

theorem winv_congr {s s' : Snd} (h : cg s' = cg s) (w : WInv s) : WInv s' := by
  simp only [cg, Prod.mk.injEq] at h
  obtain ⟨h1, h2, h3, h4, h5, h6, h7, h8⟩ := h
  have hb : bound s' = bound s := by simp [bound, h6, h7]
  exact ⟨by rw [h8, hb]; exact w.out, by rw [h1, h2, hb]; exact w.pot, by rw [h1]; exact w.pos,
    by rw [h4, h3, hb]; exact w.ss, by rw [h5, h4]; exact w.fr, by rw [h2, hb]; exact w.ca⟩

/-- sending leaves the congestion bookkeeping alone except `outstanding`, which grows only through the gate -/
def SendRel (s s' : Snd) : Prop :=
  s'.cwnd = s.cwnd ∧ s'.caAck = s.caAck ∧ s'.ssthresh = s.ssthresh ∧ s'.ssInf = s.ssInf ∧ s'.fr = s.fr ∧
  s'.gAcked = s.gAcked ∧ s'.gDup = s.gDup ∧ (s'.outstanding ≤ s.outstanding ∨ s'.outstanding ≤ (s.cwnd : Int))

theorem SendRel.refl (s : Snd) : SendRel s s := ⟨rfl, rfl, rfl, rfl, rfl, rfl, rfl, Or.inl (Int.le_refl _)⟩

theorem SendRel.trans {a b c : Snd} (h1 : SendRel a b) (h2 : SendRel b c) : SendRel a c := by
  obtain ⟨a1, a2, a3, a4, a5, a6, a7, a8⟩ := h1
  obtain ⟨b1, b2, b3, b4, b5, b6, b7, b8⟩ := h2
  refine ⟨b1.trans a1, b2.trans a2, b3.trans a3, b4.trans a4, b5.trans a5, b6.trans a6, b7.trans a7, ?_⟩
  rw [a1] at b8
  rcases b8 with b8 | b8
  · rcases a8 with a8 | a8
    · exact Or.inl (Int.le_trans b8 a8)
    · exact Or.inr (Int.le_trans b8 a8)
  · exact Or.inr b8

theorem winv_sendRel {s s' : Snd} (h : SendRel s s') (w : WInv s) : WInv s' := by
  obtain ⟨h1, h2, h3, h4, h5, h6, h7, h8⟩ := h
  have hb : bound s' = bound s := by simp [bound, h6, h7]
  refine ⟨?_, by rw [h1, h2, hb]; exact w.pot, by rw [h1]; exact w.pos,
    by rw [h4, h3, hb]; exact w.ss, by rw [h5, h4]; exact w.fr, by rw [h2, hb]; exact w.ca⟩
  rw [hb]
  rcases h8 with h8 | h8
  · exact Int.le_trans h8 w.out
  · have := w.pot
    have : (s.cwnd : Int) ≤ (bound s : Int) := by
      have : s.cwnd ≤ bound s := Nat.le_trans (Nat.le_add_right _ _) w.pot
      exact Int.ofNat_le.mpr this
    exact Int.le_trans h8 this

theorem cg_sendSegment (e : Ep) (d : List Nat) (f q : Nat) : cg (sendSegment e d f q).1.snd = cg e.snd := by
  rw [(sendSegment_frame e d f q).1]; rfl

theorem emitAt_cg (e : Ep) (seg : WSeg) (x : Nat) : cg (emitAt e seg x).1.snd = cg e.snd := by
  simp only [emitAt, Snd.bumpNxt]
  split <;> simp only [cg, (sendSegment_frame e seg.data seg.flags seg.seq).1]

theorem sendRel_of_cg {s s' : Snd} (h : cg s' = cg s) : SendRel s s' := by
  simp only [cg, Prod.mk.injEq] at h
  obtain ⟨h1, h2, h3, h4, h5, h6, h7, h8⟩ := h
  exact ⟨h1, h2, h3, h4, h5, h6, h7, Or.inl (by rw [h8]; exact Int.le_refl _)⟩

theorem emitAt_rel (e0 : Ep) (s : Snd) (seg : WSeg) (x : Nat) (h : SendRel s e0.snd) : SendRel s (emitAt e0 seg x).1.snd :=
  h.trans (sendRel_of_cg (emitAt_cg e0 seg x))

theorem sendStep_rel (e : Ep) (i : Nat) :
    (∀ e', sendStep e i = .stop e' → SendRel e.snd e'.snd) ∧ (∀ e' o, sendStep e i = .sent e' o → SendRel e.snd e'.snd) := by
  unfold sendStep
  constructor
  · intro e' he
    split at he
    · cases he; exact SendRel.refl _
    · split at he
      · cases he; exact SendRel.refl _
      · simp only at he
        split at he
        · cases he
        · split at he
          · cases he; exact SendRel.refl _
          · cases he
  · intro e' o he
    split at he
    · cases he
    · split at he
      · cases he
      · rename_i hgate
        simp only at he
        split at he
        · cases he
          exact emitAt_rel _ _ _ _ (SendRel.refl _)
        · split at he
          · cases he
          · cases he
            apply emitAt_rel
            refine ⟨rfl, rfl, rfl, rfl, rfl, rfl, rfl, Or.inr ?_⟩
            simp only [Bool.not_eq_true', Bool.not_eq_false, decide_eq_true_eq, Bool.not_not] at hgate
            show e.snd.outstanding + 1 ≤ (e.snd.cwnd : Int)
            omega

theorem sendDataLoop_rel (fuel : Nat) (e : Ep) (i : Nat) (out : List OutSeg) : SendRel e.snd (sendDataLoop fuel e i out).1.snd := by
  induction fuel generalizing e i out with
  | zero => exact SendRel.refl _
  | succ n ih =>
    unfold sendDataLoop
    have hs := sendStep_rel e i
    split
    · rename_i e' heq; exact hs.1 _ heq
    · rename_i e' o heq; exact (hs.2 _ _ heq).trans (ih _ _ _)

theorem sendData_rel (e : Ep) : SendRel e.snd (sendData e).1.snd := by
  have h := sendDataLoop_rel (sendFuel e.snd + 1) e e.snd.writeNext []
  unfold sendData
  simp only
  split
  · exact h.trans (sendRel_of_cg rfl)
  · exact h

theorem resendSegment_cg (e : Ep) : cg (resendSegment e).1.snd = cg e.snd := by
  unfold resendSegment
  split
  · rfl
  · rename_i seg _
    exact cg_sendSegment e seg.data seg.flags seg.seq
theorem leaveFR_inv (s : Snd) (w : WInv s) (ha : s.fr.active = true) : WInv (leaveFastRecovery s) := by
  have hs := w.ss (w.fr ha)
  have hca := w.ca
  have hb : bound (leaveFastRecovery s) = bound s := rfl
  refine ⟨w.out, ?_, ?_, w.ss, ?_, w.ca⟩
  · show s.ssthresh + s.caAck / s.ssthresh ≤ bound s
    have := div_le_div_of_le_den s.caAck 2 s.ssthresh (by decide) hs.1
    generalize s.caAck / s.ssthresh = q at *
    generalize bound s = B at *
    omega
  · show 0 < s.ssthresh
    omega
  · intro h; simp [leaveFastRecovery] at h

theorem bound_ge (s : Snd) : 10 ≤ bound s := by unfold bound; omega

/-- the third duplicate ACK: `ssthresh` = half of what is outstanding (at least 2), window = `ssthresh` + 3 -/
theorem enterFR_inv (s : Snd) (w : WInv s) (h11 : 11 ≤ bound s) : WInv (enterFastRecovery (reduceSsthresh s)) := by
  have hout := w.out
  have hca := w.ca
  have hb : bound (enterFastRecovery (reduceSsthresh s)) = bound s := rfl
  -- the new threshold
  have hth : 2 ≤ (reduceSsthresh s).ssthresh ∧ 2 * (reduceSsthresh s).ssthresh ≤ bound s := by
    simp only [reduceSsthresh]
    generalize bound s = B at *
    split
    · split <;> omega
    · rename_i hneg
      split
      · omega
      · have : (s.outstanding.toNat : Int) = s.outstanding := Int.toNat_of_nonneg (by omega)
        generalize s.outstanding.toNat = o at *
        omega
  refine ⟨w.out, ?_, ?_, fun _ => hth, fun _ => rfl, w.ca⟩
  · show (reduceSsthresh s).ssthresh + 3 + s.caAck / ((reduceSsthresh s).ssthresh + 3) ≤ bound s
    have := div_le_div_of_le_den s.caAck 5 ((reduceSsthresh s).ssthresh + 3) (by decide) (by omega)
    generalize s.caAck / ((reduceSsthresh s).ssthresh + 3) = q at *
    generalize (reduceSsthresh s).ssthresh = t at *
    generalize bound s = B at *
    omega
  · show 0 < (reduceSsthresh s).ssthresh + 3
    omega

theorem winv_dup (s : Snd) (w : WInv s) : WInv { s with gDup := s.gDup + 1 } := by
  have hb : bound { s with gDup := s.gDup + 1 } = bound s + 1 := by simp [bound]; omega
  refine ⟨?_, ?_, w.pos, ?_, w.fr, ?_⟩
  · rw [hb]; have := w.out; show s.outstanding ≤ _; omega
  · rw [hb]; have := w.pot; show s.cwnd + s.caAck / s.cwnd ≤ _; omega
  · intro h; have := w.ss h; rw [hb]; exact ⟨this.1, by show 2 * s.ssthresh ≤ _; omega⟩
  · rw [hb]; have := w.ca; show s.caAck + 1 ≤ _; omega

/-- a duplicate ACK during recovery inflates the window by one -/
theorem inflate_inv (s : Snd) (w : WInv s) : WInv { s with cwnd := s.cwnd + 1, gDup := s.gDup + 1 } := by
  have hb : bound { s with cwnd := s.cwnd + 1, gDup := s.gDup + 1 } = bound s + 1 := by simp [bound]; omega
  refine ⟨?_, ?_, Nat.succ_pos _, ?_, w.fr, ?_⟩
  · rw [hb]; have := w.out; show s.outstanding ≤ _; omega
  · rw [hb]
    show s.cwnd + 1 + s.caAck / (s.cwnd + 1) ≤ bound s + 1
    have := div_le_div_of_le_den s.caAck s.cwnd (s.cwnd + 1) w.pos (by omega)
    have := w.pot
    generalize s.caAck / (s.cwnd + 1) = q1 at *
    generalize s.caAck / s.cwnd = q0 at *
    omega
  · intro h; have := w.ss h; rw [hb]; exact ⟨this.1, by show 2 * s.ssthresh ≤ _; omega⟩
  · rw [hb]; have := w.ca; show s.caAck + 1 ≤ _; omega

theorem winv_dupAck0 (s : Snd) (w : WInv s) (k : Nat) : WInv { s with dupAck := k } := ⟨w.out, w.pot, w.pos, w.ss, w.fr, w.ca⟩

/-- **duplicate-ACK bookkeeping keeps the window within the credits** -/
theorem checkDuplicateAck_inv (s : Snd) (ack len wnd : Nat) (w : WInv s) : WInv (checkDuplicateAck s ack len wnd).1 := by
  unfold checkDuplicateAck
  split
  · rename_i ha
    split
    · exact w
    · split
      · exact leaveFR_inv s w ha
      · split
        · exact w
        · split
          · simp only
            split
            · exact inflate_inv s w
            · exact winv_dup s w
          · exact ⟨w.out, w.pot, w.pos, w.ss, fun h => w.fr (by simpa using h), w.ca⟩
  · split
    · exact winv_dupAck0 s w 0
    · simp only
      have w1 : WInv { s with dupAck := s.dupAck + 1, gDup := s.gDup + 1 } := winv_dupAck0 _ (winv_dup s w) _
      split
      · exact w1
      · split
        · exact winv_dupAck0 _ w1 0
        · have h11 : 11 ≤ bound { s with dupAck := s.dupAck + 1, gDup := s.gDup + 1 } := by
            have := bound_ge s; simp [bound] at *; omega
          exact winv_dupAck0 _ (enterFR_inv _ w1 h11) 0
theorem ackLoop_rel (fuel : Nat) (s : Snd) (ackLeft : Nat) :
    (ackLoop fuel s ackLeft).cwnd = s.cwnd ∧ (ackLoop fuel s ackLeft).caAck = s.caAck ∧
    (ackLoop fuel s ackLeft).ssthresh = s.ssthresh ∧ (ackLoop fuel s ackLeft).ssInf = s.ssInf ∧
    (ackLoop fuel s ackLeft).fr = s.fr ∧ (ackLoop fuel s ackLeft).gDup = s.gDup ∧
    ∃ k : Nat, (ackLoop fuel s ackLeft).gAcked = s.gAcked + k ∧ (ackLoop fuel s ackLeft).outstanding = s.outstanding - k := by
  induction fuel generalizing s ackLeft with
  | zero => exact ⟨rfl, rfl, rfl, rfl, rfl, rfl, 0, rfl, by simp [ackLoop]⟩
  | succ n ih =>
    unfold ackLoop
    split
    · exact ⟨rfl, rfl, rfl, rfl, rfl, rfl, 0, rfl, by simp⟩
    · split
      · exact ⟨rfl, rfl, rfl, rfl, rfl, rfl, 0, rfl, by simp⟩
      · simp only
        split
        · exact ⟨rfl, rfl, rfl, rfl, rfl, rfl, 0, rfl, by simp⟩
        · obtain ⟨h1, h2, h3, h4, h5, h6, k, h7, h8⟩ := ih
            { s with writeList := _, writeNext := _, outstanding := s.outstanding - 1, gAcked := s.gAcked + 1 } _
          refine ⟨h1, h2, h3, h4, h5, h6, k + 1, ?_, ?_⟩
          · rw [h7]; simp only; omega
          · rw [h8]; simp only; omega

theorem renoCA_frame (s : Snd) (n : Nat) :
    (renoCA s n).outstanding = s.outstanding ∧ (renoCA s n).ssthresh = s.ssthresh ∧ (renoCA s n).ssInf = s.ssInf ∧
    (renoCA s n).fr = s.fr ∧ (renoCA s n).gAcked = s.gAcked ∧ (renoCA s n).gDup = s.gDup := by
  unfold renoCA; simp only; split <;> exact ⟨rfl, rfl, rfl, rfl, rfl, rfl⟩

theorem renoCA_ca (s : Snd) (n : Nat) (hc : 0 < s.cwnd) : (renoCA s n).caAck < (renoCA s n).cwnd := by
  have f := renoCA_fields s n
  rw [f.1, f.2]
  split
  · exact Nat.mod_lt _ (Nat.add_pos_left hc _)
  · rename_i h; omega

theorem renoUpdate_frame (s : Snd) (n : Nat) :
    (renoUpdate s n).outstanding = s.outstanding ∧ (renoUpdate s n).ssthresh = s.ssthresh ∧ (renoUpdate s n).ssInf = s.ssInf ∧
    (renoUpdate s n).fr = s.fr ∧ (renoUpdate s n).gAcked = s.gAcked ∧ (renoUpdate s n).gDup = s.gDup := by
  unfold renoUpdate
  split
  · rw [renoSlowStart_fields]
    split
    · simp only
      split
      · exact ⟨rfl, rfl, rfl, rfl, rfl, rfl⟩
      · exact renoCA_frame _ _
    · simp
  · exact renoCA_frame _ _

theorem renoUpdate_ca (s : Snd) (n : Nat) (hc : 0 < s.cwnd) :
    (renoUpdate s n).caAck < (renoUpdate s n).cwnd ∨ (renoUpdate s n).caAck = s.caAck := by
  unfold renoUpdate
  split
  · rename_i hss
    rw [renoSlowStart_fields]
    split
    · rename_i hcap
      have hlt : s.cwnd < s.ssthresh := by simpa [hcap.1] using hss
      simp only
      split
      · left; show 0 < s.ssthresh; omega
      · left; exact renoCA_ca _ _ (by show 0 < s.ssthresh; omega)
    · simp
  · left; exact renoCA_ca s n hc

theorem winv_mono_acked (s s1 : Snd) (k : Nat) (w : WInv s)
    (h1 : s1.cwnd = s.cwnd) (h2 : s1.caAck = s.caAck) (h3 : s1.ssthresh = s.ssthresh) (h4 : s1.ssInf = s.ssInf)
    (h5 : s1.fr = s.fr) (h6 : s1.gDup = s.gDup) (h7 : s1.gAcked = s.gAcked + k) (h8 : s1.outstanding = s.outstanding - k) :
    WInv s1 := by
  have hb : bound s1 = bound s + k := by simp [bound, h6, h7]; omega
  refine ⟨?_, ?_, by rw [h1]; exact w.pos, ?_, by rw [h5, h4]; exact w.fr, ?_⟩
  · rw [hb, h8]; have := w.out; omega
  · rw [hb, h1, h2]; have := w.pot; omega
  · rw [h4, h3, hb]; intro h; have := w.ss h; exact ⟨this.1, by omega⟩
  · rw [hb, h2]; have := w.ca; omega

/-- the congestion update after `k` write-list segments were acknowledged -/
theorem advance_core (s s1 : Snd) (k : Nat) (w : WInv s)
    (h1 : s1.cwnd = s.cwnd) (h2 : s1.caAck = s.caAck) (h3 : s1.ssthresh = s.ssthresh) (h4 : s1.ssInf = s.ssInf)
    (h5 : s1.fr = s.fr) (h6 : s1.gDup = s.gDup) (h7 : s1.gAcked = s.gAcked + k) (h8 : s1.outstanding = s.outstanding - k) :
    WInv (if !s1.fr.active then renoUpdate s1 (if s.outstanding - s1.outstanding < 0 then 0 else (s.outstanding - s1.outstanding).toNat) else s1) := by
  have w1 : WInv s1 := winv_mono_acked s s1 k w h1 h2 h3 h4 h5 h6 h7 h8
  have hd : (if s.outstanding - s1.outstanding < 0 then 0 else (s.outstanding - s1.outstanding).toNat) = k := by
    rw [h8]
    split
    · omega
    · omega
  split
  · rw [hd]
    have f := renoUpdate_frame s1 k
    have p := renoUpdate_pot s1 k w1.pos
    have c := renoUpdate_ca s1 k w1.pos
    have hb : bound (renoUpdate s1 k) = bound s1 := by simp [bound, f.2.2.2.2.1, f.2.2.2.2.2]
    have hb1 : bound s1 = bound s + k := by simp [bound, h6, h7]; omega
    have hpot1 : pot s1 ≤ bound s := by unfold pot; rw [h1, h2]; exact w.pot
    refine ⟨?_, ?_, p.2, ?_, ?_, ?_⟩
    · rw [hb, f.1]; exact w1.out
    · have := p.1; unfold pot at this hpot1; rw [hb, hb1]; omega
    · rw [f.2.2.1, f.2.1, hb]; exact w1.ss
    · rw [f.2.2.2.1, f.2.2.1]; exact w1.fr
    · rw [hb]
      rcases c with c | c
      · have := p.1; unfold pot at this hpot1
        generalize (renoUpdate s1 k).caAck / (renoUpdate s1 k).cwnd = q at *
        rw [hb1]; omega
      · rw [c]; exact w1.ca
  · exact w1

theorem winv_clamp (s : Snd) (w : WInv s) : WInv (if s.outstanding < 0 then { s with outstanding := 0 } else s) := by
  split
  · exact ⟨by show (0 : Int) ≤ _; omega, w.pot, w.pos, w.ss, w.fr, w.ca⟩
  · exact w

/-- **an acknowledgement of new data keeps the window within the credits**: every write-list segment it
removes is one credit, and `renoState.Update` raises the potential by at most that number -/
theorem ackAdvance_inv (s : Snd) (ack : Nat) (w : WInv s) : WInv (ackAdvance s ack) := by
  have w0 : WInv { s with dupAck := 0, timerEnabled := false, sndUna := ack, gUna := s.gUna + sizeS s.sndUna ack, gEdge := max s.gEdge (s.gUna + sizeS s.sndUna ack + s.sndWnd % M) } :=
    ⟨w.out, w.pot, w.pos, w.ss, w.fr, w.ca⟩
  obtain ⟨h1, h2, h3, h4, h5, h6, k, h7, h8⟩ :=
    ackLoop_rel (s.writeList.length + 1) { s with dupAck := 0, timerEnabled := false, sndUna := ack, gUna := s.gUna + sizeS s.sndUna ack, gEdge := max s.gEdge (s.gUna + sizeS s.sndUna ack + s.sndWnd % M) } (sizeS s.sndUna ack)
  exact winv_clamp _ (advance_core { s with dupAck := 0, timerEnabled := false, sndUna := ack, gUna := s.gUna + sizeS s.sndUna ack, gEdge := max s.gEdge (s.gUna + sizeS s.sndUna ack + s.sndWnd % M) } _ k w0 h1 h2 h3 h4 h5 h6 h7 h8)

theorem sndPrepare_inv (e : Ep) (seg : InSeg) (wnd : Nat) (ts : Model.Header.TCPOpts) (w : WInv e.snd) :
    WInv (sndPrepare e seg wnd ts).1.snd := by
  unfold sndPrepare
  simp only
  have e0s : (updateRecentTimestamp e ts.tsVal e.snd.maxSentAck seg.seq).snd = e.snd := by
    unfold updateRecentTimestamp; split <;> rfl
  rw [e0s]
  have wc := checkDuplicateAck_inv e.snd seg.ack seg.logicalLen wnd w
  have ws : WInv { (checkDuplicateAck e.snd seg.ack seg.logicalLen wnd).1 with sndWnd := wnd, gEdge := max (checkDuplicateAck e.snd seg.ack seg.logicalLen wnd).1.gEdge ((checkDuplicateAck e.snd seg.ack seg.logicalLen wnd).1.gUna + wnd % M) } :=
    ⟨wc.out, wc.pot, wc.pos, wc.ss, wc.fr, wc.ca⟩
  have key : ∀ e1 : Ep, WInv e1.snd → WInv (if (checkDuplicateAck e.snd seg.ack seg.logicalLen wnd).2 = true then resendSegment e1 else (e1, [])).1.snd := by
    intro e1 h1
    split
    · exact winv_congr (resendSegment_cg e1) h1
    · exact h1
  apply key
  split
  · exact ackAdvance_inv _ _ ws
  · exact ws

/-- **C05 (window bound, one incoming segment)**: handling an acknowledgement and then sending whatever the window
allows keeps the congestion bookkeeping within 10 + credits -/
theorem sndHandleSegment_inv (e : Ep) (seg : InSeg) (wnd : Nat) (ts : Model.Header.TCPOpts) (w : WInv e.snd) :
    WInv (sndHandleSegment e seg wnd ts).1.snd := by
  unfold sndHandleSegment
  exact winv_sendRel (sendData_rel _) (sndPrepare_inv e seg wnd ts w)

/-- a retransmission timeout: recovery abandoned, `ssthresh` halved, window one segment, nothing counted outstanding -/
theorem rtoState_inv (s : Snd) (w : WInv s) : WInv (rtoState s) := by
  unfold rtoState
  simp only
  have w1 : WInv { s with timerEnabled := false } := ⟨w.out, w.pot, w.pos, w.ss, w.fr, w.ca⟩
  have w2 : WInv (if ({ s with timerEnabled := false } : Snd).fr.active = true then leaveFastRecovery { s with timerEnabled := false } else { s with timerEnabled := false }) := by
    split
    · rename_i h; exact leaveFR_inv _ w1 h
    · exact w1
  generalize (if ({ s with timerEnabled := false } : Snd).fr.active = true then leaveFastRecovery { s with timerEnabled := false } else { s with timerEnabled := false }) = t at *
  have hb := bound_ge t
  have hca := w2.ca
  have hout := w2.out
  have hbb : bound ({ reduceSsthresh { t with fr := { t.fr with last := subS t.sndNxt 1 } } with cwnd := 1, outstanding := 0, writeNext := 0 } : Snd) = bound t := rfl
  refine ⟨by show (0 : Int) ≤ _; omega, ?_, Nat.one_pos, ?_, fun _ => rfl, w2.ca⟩
  · show 1 + t.caAck / 1 ≤ bound t
    rw [Nat.div_one]; omega
  · intro _
    show 2 ≤ (reduceSsthresh _).ssthresh ∧ 2 * (reduceSsthresh _).ssthresh ≤ bound t
    simp only [reduceSsthresh]
    generalize bound t = B at *
    split
    · split <;> omega
    · split
      · omega
      · have : (t.outstanding.toNat : Int) = t.outstanding := Int.toNat_of_nonneg (by omega)
        generalize t.outstanding.toNat = o at *
        omega

theorem retransmitTimerExpired_inv (e : Ep) (w : WInv e.snd) : WInv (retransmitTimerExpired e).1.snd := by
  unfold retransmitTimerExpired
  split
  · exact w
  · exact winv_sendRel (sendData_rel _) (rtoState_inv e.snd w)

/-! ### the receive path and the application calls leave the congestion bookkeeping alone -/

theorem sendAck_cg (e : Ep) : cg (sendAck e).1.snd = cg e.snd := cg_sendSegment e [] fAck e.snd.sndNxt

theorem consumeFin_cg (e : Ep) : cg (consumeFin e).1.snd = cg e.snd := by
  unfold consumeFin
  exact sendAck_cg { e with rcv := { e.rcv with rcvNxt := addS e.rcv.rcvNxt 1 } }

theorem deliver_snd (e : Ep) (d : List Nat) : (deliver e d).snd = e.snd := by unfold deliver; split <;> rfl

theorem consumeSegment_cg (e : Ep) (fl sq : Nat) (d : List Nat) : cg (consumeSegment e fl sq d).1.snd = cg e.snd := by
  unfold consumeSegment
  split
  · rfl
  · simp only
    split
    · rw [consumeFin_cg]; simp only [advanceRcv, deliver_snd]
    · simp only [advanceRcv, deliver_snd]

theorem drainPending_cg (fuel : Nat) (e : Ep) (out : List OutSeg) : cg (drainPending fuel e out).1.snd = cg e.snd := by
  induction fuel generalizing e out with
  | zero => rfl
  | succ n ih =>
    unfold drainPending
    split
    · rfl
    · split
      · rfl
      · rename_i s rest _
        split
        · rw [ih]; rfl
        · simp only
          split
          · rfl
          · rw [ih]
            split
            · exact consumeSegment_cg _ _ _ _
            · exact consumeSegment_cg _ _ _ _

theorem rcvHandleSegment_cg (e : Ep) (seg : InSeg) : cg (rcvHandleSegment e seg).1.snd = cg e.snd := by
  unfold rcvHandleSegment
  split
  · rfl
  · split
    · exact sendAck_cg e
    · simp only
      split
      · split
        · unfold parkSegment; exact sendAck_cg _
        · rfl
      · rw [drainPending_cg]; exact consumeSegment_cg _ _ _ _

theorem handleCore_inv (e : Ep) (seg : InSeg) (w : WInv e.snd) : WInv (handleCore e seg).1.snd := by
  unfold handleCore
  split
  · exact w
  · split
    · split
      · exact w
      · exact sndHandleSegment_inv _ _ _ _ (winv_congr (rcvHandleSegment_cg e seg) w)
    · exact w

theorem handleBatch_inv (e : Ep) (l : List InSeg) (w : WInv e.snd) : WInv (handleBatch e l).1.snd := by
  induction l generalizing e with
  | nil => exact w
  | cons s rest ih =>
    unfold handleBatch
    simp only
    split
    · exact handleCore_inv e s w
    · exact ih _ (handleCore_inv e s w)

theorem closeIfDone_snd2 (e : Ep) : (closeIfDone e).snd = e.snd := by unfold closeIfDone; split <;> rfl

theorem finishBatch_inv (e : Ep) (out : List OutSeg) (r : Bool) (w : WInv e.snd) : WInv (finishBatch e out r).1.snd := by
  unfold finishBatch
  split
  · exact w
  · split
    · simp only [closeIfDone_snd2]; exact winv_congr (sendAck_cg e) w
    · simp only [closeIfDone_snd2]; exact w

theorem handleSegmentsLoop_inv (fuel : Nat) (e : Ep) (l : List InSeg) (w : WInv e.snd) : WInv (handleSegmentsLoop fuel e l).1.snd := by
  induction fuel generalizing e l with
  | zero => exact w
  | succ n ih =>
    unfold handleSegmentsLoop
    split
    · exact w
    · simp only
      have wf := finishBatch_inv _ (handleBatch e (l.take maxSegmentsPerWake)).2.1 (handleBatch e (l.take maxSegmentsPerWake)).2.2
        (handleBatch_inv e (l.take maxSegmentsPerWake) w)
      split
      · exact wf
      · exact ih _ _ wf

theorem winv_fresh (s : Snd) (h1 : s.cwnd = 10) (h2 : s.caAck = 0) (h3 : s.ssInf = true) (h4 : s.fr.active = false)
    (h5 : s.outstanding = 0) (h6 : s.gAcked = 0) (h7 : s.gDup = 0) : WInv s := by
  have hb : bound s = 10 := by simp [bound, h6, h7]
  refine ⟨by rw [h5, hb]; decide, by rw [h1, h2, hb]; decide, by rw [h1]; decide, ?_, ?_, by rw [h2, hb]; decide⟩
  · intro h; rw [h3] at h; cases h
  · intro h; rw [h4] at h; cases h

open Props.TcpReach in
/-- the window bound is an invariant of every endpoint handler -/
theorem window_inv : EpInv (fun e => WInv e.snd) where
  fresh := by intros; exact winv_fresh _ rfl rfl rfl rfl rfl rfl rfl
  dflt := winv_fresh _ rfl rfl rfl rfl rfl rfl rfl
  failed := fun _ => winv_fresh _ rfl rfl rfl rfl rfl rfl rfl
  segs := fun e l w => handleSegmentsLoop_inv _ e l w
  write := by
    intro e d w
    unfold appWrite
    split; exact w
    split; exact w
    split; exact w
    split; exact w
    exact winv_sendRel (sendData_rel _) (winv_congr (s := e.snd) rfl w)
  read := by
    intro e w
    unfold appRead
    split; exact w
    split; exact w
    split; exact w
    simp only
    split
    · split
      · exact w
      · exact winv_congr (sendAck_cg _) w
    · exact w
  shut := by
    intro e w
    unfold appShutdownWrite
    split; exact w
    simp only [closeIfDone_snd2]
    have := winv_sendRel (sendData_rel (queueFin e)) (winv_congr (s := e.snd) rfl w)
    exact ⟨this.out, this.pot, this.pos, this.ss, this.fr, this.ca⟩
  timer := by
    intro e w
    unfold timerEvent
    split; exact w
    exact retransmitTimerExpired_inv e w

/-! ### what the credits count -/

/-- `gAcked` grows by exactly the number of write-list segments an acknowledgement removes -/
theorem acked_counts_removed_segments (fuel : Nat) (s : Snd) (ackLeft : Nat) :
    (ackLoop fuel s ackLeft).writeList.length + ((ackLoop fuel s ackLeft).gAcked - s.gAcked) = s.writeList.length ∧
    s.gAcked ≤ (ackLoop fuel s ackLeft).gAcked := by
  induction fuel generalizing s ackLeft with
  | zero => simp [ackLoop]
  | succ n ih =>
    unfold ackLoop
    split
    · simp
    · split
      · simp
      · rename_i seg rest hwl
        simp only
        split
        · simp [hwl]
        · have := ih { s with writeList := rest, writeNext := (if s.writeNext == 0 then 0 else s.writeNext - 1),
                              outstanding := s.outstanding - 1, gAcked := s.gAcked + 1 } (ackLeft - seg.logicalLen)
          simp only at this
          rw [hwl]; simp only [List.length_cons]
          omega

/-- `gDup` grows by at most one per segment, and only for a duplicate acknowledgement: no payload, no window
change, acknowledging exactly what is already acknowledged (`sndUna`, or the recovery point during fast recovery) -/
theorem dup_counts_duplicate_acks (s : Snd) (ack len wnd : Nat) :
    (checkDuplicateAck s ack len wnd).1.gDup ≤ s.gDup + 1 ∧ s.gDup ≤ (checkDuplicateAck s ack len wnd).1.gDup ∧
    ((checkDuplicateAck s ack len wnd).1.gDup = s.gDup + 1 →
      len = 0 ∧ s.sndWnd = wnd ∧ (if s.fr.active then ack = s.fr.first else ack = s.sndUna)) := by
  unfold checkDuplicateAck
  split
  · rename_i ha
    split
    · simp
    · split
      · simp [leaveFastRecovery]
      · split
        · simp
        · rename_i hlw
          split
          · rename_i hf
            simp only [Bool.or_eq_true, bne_iff_ne, ne_eq, not_or, Decidable.not_not] at hlw
            simp only [beq_iff_eq] at hf
            simp only
            split <;> exact ⟨by simp, by simp, fun _ => ⟨hlw.1, hlw.2, by simp [ha, hf]⟩⟩
          · simp
  · rename_i hna
    split
    · simp
    · rename_i hc
      simp only [Bool.or_eq_true, bne_iff_ne, ne_eq, not_or, Decidable.not_not, beq_iff_eq] at hc
      simp only
      have key : len = 0 ∧ s.sndWnd = wnd ∧ ack = s.sndUna := ⟨hc.1.1.2, hc.1.2, hc.1.1.1⟩
      split
      · exact ⟨by simp, by simp, fun _ => key⟩
      · split
        · exact ⟨by simp, by simp, fun _ => key⟩
        · exact ⟨by simp [enterFastRecovery, reduceSsthresh], by simp [enterFastRecovery, reduceSsthresh], fun _ => key⟩

open Props.TcpReach in
/-- **C05 (cumulative window bound)**: in every state the stack can reach, on every connection (Reno), the number
of segments counted in flight and the congestion window are at most 10 plus one per write-list segment acknowledged
so far plus one per duplicate ACK received so far -/
theorem in_flight_within_credits (c : Cfg) (ops : List Op) :
    StAll (fun e => e.snd.outstanding ≤ ((10 + e.snd.gAcked + e.snd.gDup : Nat) : Int) ∧
                    e.snd.cwnd ≤ 10 + e.snd.gAcked + e.snd.gDup) (run c ops).1 := by
  have h := run_all window_inv c ops
  exact ⟨fun x hx => ⟨(h.1 x hx).out, Nat.le_trans (Nat.le_add_right _ _) (h.1 x hx).pot⟩,
         fun x hx => ⟨(h.2 x hx).out, Nat.le_trans (Nat.le_add_right _ _) (h.2 x hx).pot⟩⟩
end Props.C05
