import NetProto.Props.C19
/-! # C19, last clause: `Done`

*After Done returns, no waker can touch the sleeper again and each waker can be attached to a new sleeper.*

Model: the `Done` layer of `Model/Sleep.lean` (`DSt`, `dstep`): the two loops of `Sleeper.Done`, the second one
running the same `nextWaker` code as `Fetch` (the base machine), interleaved step by step with any number of
asserting / clearing goroutines.  Proof device: a detached waker (ghost list `gone`) is viewed as permanently in flight
on a goroutine that never moves (`ghost`), so that the location invariant of `Props/C19.lean` -- every waker whose
pointer is not the sleeper is in exactly one place -- carries over unchanged and all of its step lemmas are reused. -/
namespace Props.C19
open Model.Sleep

/-- a state with extra goroutines appended that never move -/
def withExtra (s : St) (x : List APC) : St := { s with ts := s.ts ++ x }

theorem popLocal_extra (s : St) (x : List APC) : (withExtra s x).popLocal = withExtra s.popLocal x := by
  unfold St.popLocal withExtra
  cases s.local_ <;> rfl

theorem startFetch_extra (s : St) (x : List APC) (b : Bool) : (withExtra s x).startFetch b = withExtra (s.startFetch b) x := by
  unfold St.startFetch
  by_cases h : s.f = .idle
  · rw [if_pos h, if_pos (show (withExtra s x).f = .idle from h)]
    exact popLocal_extra { s with block := b } x
  · rw [if_neg h, if_neg (show ¬ (withExtra s x).f = .idle from h)]

theorem fstep_extra (s : St) (x : List APC) : (withExtra s x).fstep = (withExtra s.fstep.1 x, s.fstep.2) := by
  unfold St.fstep
  have hf : (withExtra s x).f = s.f := rfl
  rw [hf]
  cases s.f with
  | idle => rfl
  | parked => rfl
  | n2 =>
    simp only
    have h1 : (withExtra s x).shared = s.shared := rfl
    have h2 : (withExtra s x).block = s.block := rfl
    rw [h1, h2]
    split
    · rfl
    · split <;> rfl
  | n3 => rfl
  | n4 =>
    simp only
    have h1 : (withExtra s x).shared = s.shared := rfl
    rw [h1]
    split <;> rfl
  | n5 => rfl
  | park =>
    simp only
    have h1 : (withExtra s x).wg = s.wg := rfl
    rw [h1]
    split <;> rfl
  | cs2 =>
    simp only
    have h1 : (withExtra s x).wg = s.wg := rfl
    rw [h1]
    split <;> rfl
  | n7 =>
    simp only
    exact congrArg (fun z => (z, Ev.none)) (popLocal_extra { s with shared := [], local_ := s.shared.reverse ++ s.local_ } x)
  | f1 k =>
    simp only
    have h1 : (withExtra s x).ws = s.ws := rfl
    rw [h1]
    split
    · rfl
    · exact congrArg (fun z => (z, Ev.none)) (popLocal_extra { s with ws := setWs s.ws k .slp } x)

theorem getElem?_extra (l x : List APC) (t : Nat) (h : t < l.length) : (l ++ x)[t]? = l[t]? := by
  rw [List.getElem?_append_left h]

theorem set_extra (l x : List APC) (t : Nat) (p : APC) (h : t < l.length) : (l ++ x).set t p = l.set t p ++ x := by
  rw [List.set_append_left _ _ h]

/-- a goroutine of the original list steps the same way with the extra ones appended -/
theorem astep_extra (s : St) (x : List APC) (t : Nat) (h : t < s.ts.length) :
    (withExtra s x).astep t = (withExtra (s.astep t).1 x, (s.astep t).2) := by
  unfold St.astep
  have hts : (withExtra s x).ts[t]? = s.ts[t]? := getElem?_extra s.ts x t h
  rw [hts]
  have hset : ∀ p, (s.ts ++ x).set t p = s.ts.set t p ++ x := fun p => set_extra s.ts x t p h
  cases hpc : s.ts[t]? with
  | none => rfl
  | some pc =>
    simp only
    cases pc with
    | idle => rfl
    | a1 k =>
      simp only
      have h1 : (withExtra s x).ws = s.ws := rfl
      rw [h1]
      split <;> (simp only [withExtra, hset])
    | a2 k =>
      simp only
      have h1 : (withExtra s x).ws = s.ws := rfl
      rw [h1]
      split <;> (simp only [withExtra, hset])
    | e1 k =>
      simp only [withExtra, hset]
    | e2 k snap =>
      simp only
      have h1 : (withExtra s x).shared = s.shared := rfl
      rw [h1]
      split <;> (simp only [withExtra, hset])
    | e3 k =>
      simp only
      have h1 : (withExtra s x).wg = s.wg := rfl
      rw [h1]
      split <;> (simp only [withExtra, hset])
    | e4 k g =>
      simp only
      have h1 : (withExtra s x).wg = s.wg := rfl
      rw [h1]
      split <;> (simp only [withExtra, hset])
    | c1 k =>
      simp only
      have h1 : (withExtra s x).ws = s.ws := rfl
      rw [h1]
      split <;> (simp only [withExtra, hset])
    | c2 k =>
      simp only
      have h1 : (withExtra s x).ws = s.ws := rfl
      rw [h1]
      split <;> (simp only [withExtra, hset])

theorem startCall_extra (s : St) (x : List APC) (t : Nat) (c : Call) (h : t < s.ts.length) :
    (withExtra s x).startCall t c = withExtra (s.startCall t c) x := by
  unfold St.startCall
  have hts : (withExtra s x).ts[t]? = s.ts[t]? := getElem?_extra s.ts x t h
  rw [hts]
  have hset : ∀ p, (s.ts ++ x).set t p = s.ts.set t p ++ x := fun p => set_extra s.ts x t p h
  cases hpc : s.ts[t]? with
  | none => cases c <;> rfl
  | some pc => cases pc <;> cases c <;> simp only [withExtra, hset]

theorem sumOver_append (g : APC → Nat) (l : List APC) (p : APC) : sumOver g (l ++ [p]) = sumOver g l + g p := by
  induction l with
  | nil => simp [sumOver]
  | cons a t ih => rw [List.cons_append, sumOver_cons, sumOver_cons, ih]; omega

/-! ## detached wakers as goroutines that never move -/

/-- the base machine with one never-moving goroutine per detached waker, holding it "in flight" -/
def ghost (s : DSt) : St := withExtra s.base (s.gone.map APC.e1)

theorem loc_extra_one (b : St) (x : List APC) (k j : Nat) :
    loc (withExtra b (x ++ [APC.e1 k])) j = loc (withExtra b x) j + (if k = j then 1 else 0) := by
  unfold loc withExtra
  simp only
  rw [← List.append_assoc, sumOver_append]
  simp only [inflight]
  omega

/-- the fetcher hands the waker it holds over to a ghost: every count stays -/
theorem hand_to_ghost (b : St) (x : List APC) (k : Nat) (h : SInv (withExtra b x)) (hf : b.f = .f1 k) :
    SInv (withExtra { b with f := .idle } (x ++ [APC.e1 k])) := by
  obtain ⟨hj, hn, hm, hk⟩ := h
  refine ⟨?_, Or.inl (Or.inl rfl), ?_, ?_⟩
  · intro j
    have h1 := loc_extra_one { b with f := .idle } x k j
    have h2 : loc (withExtra { b with f := .idle } x) j + (if k = j then 1 else 0) = loc (withExtra b x) j := by
      unfold loc withExtra
      simp only [hf]
      by_cases hkj : k = j
      · subst hkj; simp
      · have : ¬ (FPC.f1 k = FPC.f1 j) := by intro hh; injection hh with hh; exact hkj hh
        simp [hkj, this]
    show ((withExtra b x).ws j = .slp → _) ∧ ((withExtra b x).ws j ≠ .slp → _)
    rw [h1, h2]
    exact hj j
  · have hf' : (withExtra b x).f = .f1 k := hf
    have h1 : (withExtra b x).wg ≠ .parked := by intro hh; have := hm.1.mp hh; rw [hf'] at this; cases this
    have h2 : (withExtra b x).wg ≠ .preparing := by intro hh; have := hm.2 hh; rw [hf'] at this; simp at this
    refine ⟨?_, fun hh => absurd hh h2⟩
    show (b.wg = .parked ↔ FPC.idle = .parked)
    constructor
    · intro hh; exact absurd hh h1
    · intro hh; cases hh
  · intro hh
    rcases hh with hh | hh | hh <;> cases hh

/-- detaching an idle waker (its pointer still names the sleeper): pointer to nil, one more ghost -/
theorem detach_idle (b : St) (x : List APC) (k : Nat) (h : SInv (withExtra b x)) (hw : b.ws k = .slp) :
    SInv (withExtra { b with ws := setWs b.ws k .nil } (x ++ [APC.e1 k])) := by
  obtain ⟨hj, hn, hm, hk⟩ := h
  refine ⟨?_, hn, hm, ?_⟩
  · intro j
    have h1 := loc_extra_one { b with ws := setWs b.ws k .nil } x k j
    have h2 : loc (withExtra { b with ws := setWs b.ws k .nil } x) j = loc (withExtra b x) j := rfl
    show (setWs b.ws k .nil j = .slp → _) ∧ (setWs b.ws k .nil j ≠ .slp → _)
    rw [h1, h2]
    by_cases hkj : k = j
    · subst hkj
      have h0 := (hj k).1 hw
      rw [setWs_same]
      refine ⟨(fun hc => by cases hc), fun _ => ?_⟩
      simp; omega
    · rw [setWs_other _ _ _ _ (fun hh => hkj hh.symm)]
      simp only [hkj, if_false, Nat.add_zero]
      exact hj j
  · intro a b' c
    obtain ⟨p, hp, hw'⟩ := hk a b' c
    refine ⟨p, ?_, hw'⟩
    show p ∈ b.ts ++ (x ++ [APC.e1 k])
    have : p ∈ b.ts ++ x := hp
    rw [← List.append_assoc]
    exact List.mem_append_left _ this

theorem set_f_self (b : St) (v : FPC) (h : b.f = v) : ({ b with f := v } : St) = b := by
  cases b; cases h; rfl

theorem ghost_append (s : DSt) (k : Nat) (b : St) :
    withExtra b ((s.gone ++ [k]).map APC.e1) = withExtra b (s.gone.map APC.e1 ++ [APC.e1 k]) := by
  rw [List.map_append]; rfl

/-- the attached wakers Done's first loop has still to visit -/
def todo : DPC → List Nat
  | .d1 k r => k :: r
  | .d2 k r => k :: r
  | _ => []

/-- the goroutine is inside `Done` -/
def inDone : DPC → Bool
  | .d1 _ _ => true
  | .d2 _ _ => true
  | .pull => true
  | _ => false

/-- the waker `AddWaker` is working on while it has not yet attached or pushed it -/
def adding : DPC → Option Nat
  | .w1 k => some k
  | .w2 k _ => some k
  | .we1 k => some k
  | .we2 k _ => some k
  | _ => none

/-- the waker `AddWaker` has pushed and is running the wake loop for -/
def added : DPC → Option Nat
  | .we3 k => some k
  | .we4 k _ => some k
  | _ => none

/-- invariant of the `Done` layer: the base invariant on the ghost view; every attached waker is detached, pending
or still to be visited; the base fetcher is idle during the first loop -/
structure DInv (s : DSt) : Prop where
  inv : SInv (ghost s)
  cover : inDone s.d = true → ∀ k ∈ s.att, k ∈ s.gone ∨ k ∈ s.pend ∨ k ∈ todo s.d
  phase1 : s.d ≠ .pull → s.base.f = .idle ∨ s.d = .off
  offPend : inDone s.d = false → s.pend = []
  addK : ∀ k, adding s.d = some k → k ∈ s.gone
  addedK : ∀ k, added s.d = some k → k ∉ s.gone

theorem dinv_init (n nw : Nat) : DInv (DSt.init n nw) :=
  ⟨by show SInv (withExtra (St.init n) []); unfold withExtra; simp only [List.append_nil]; exact inv_init n,
   (fun h => by cases h), fun _ => Or.inr rfl, (fun _ => rfl), (fun _ hh => by cases hh), (fun _ hh => by cases hh)⟩

/-- Done has nothing left to wait for: it returns -/
theorem finish_inv (s : DSt) (h : SInv (ghost s)) (hf : s.base.f = .idle) (hpe : s.pend = []) : DInv s.finish.1 := by
  unfold DSt.finish
  refine ⟨?_, (fun hh => by cases hh), fun _ => Or.inr rfl, ?_, (fun _ hh => by cases hh), (fun _ hh => by cases hh)⟩
  · show SInv (withExtra { s.base with f := .idle } (s.gone.map APC.e1))
    rw [set_f_self s.base .idle hf]; exact h
  · intro _; exact hpe

/-- the second loop calls `nextWaker(true)` once more, or Done returns -/
theorem nextPull_inv (s : DSt) (h : SInv (ghost s)) (hf : s.base.f = .idle) (hp : ∀ k ∈ s.att, k ∈ s.gone ∨ k ∈ s.pend) :
    DInv s.nextPull.1 := by
  unfold DSt.nextPull
  split
  · rename_i he
    exact finish_inv s h hf he
  · refine ⟨?_, fun _ k hk => ?_, fun hh => absurd rfl hh, (fun hh => by cases hh), (fun _ hh => by cases hh), (fun _ hh => by cases hh)⟩
    · show SInv (withExtra (({ s.base with f := .idle } : St).startFetch true) (s.gone.map APC.e1))
      rw [← startFetch_extra, set_f_self s.base .idle hf]
      exact startFetch_inv _ true h
    · rcases hp k hk with h1 | h1
      · exact Or.inl h1
      · exact Or.inr (Or.inl h1)

/-- the first loop moves on -/
theorem advance_inv (s : DSt) (rest : List Nat) (h : SInv (ghost s)) (hf : s.base.f = .idle)
    (hc : ∀ k ∈ s.att, k ∈ s.gone ∨ k ∈ s.pend ∨ k ∈ rest) : DInv (s.advance rest).1 := by
  unfold DSt.advance
  cases rest with
  | nil =>
    exact nextPull_inv s h hf (fun k hk => by
      rcases hc k hk with h1 | h1 | h1
      · exact Or.inl h1
      · exact Or.inr h1
      · simp at h1)
  | cons k r =>
    exact ⟨h, fun _ j hj => hc j hj, fun _ => Or.inl hf, (fun hh => by cases hh), (fun _ hh => by cases hh), (fun _ hh => by cases hh)⟩

theorem startDone_inv (s : DSt) (h : DInv s) : DInv s.startDone.1 := by
  unfold DSt.startDone
  split
  · rename_i hc
    exact advance_inv s s.att h.inv hc.2 (fun k hk => Or.inr (Or.inr hk))
  · exact h

theorem mem_erase_ne {l : List Nat} {a b : Nat} (h : a ∈ l) (hne : a ≠ b) : a ∈ l.erase b :=
  (List.mem_erase_of_ne hne).mpr h

theorem pull_f1_inv (s : DSt) (k : Nat) (h : DInv s) (hd : s.d = .pull) (hfb : s.base.f = .f1 k) :
    DInv ({ s with pend := s.pend.erase k, gone := s.gone ++ [k] } : DSt).nextPull.1 := by
  have hc := h.cover (by rw [hd]; rfl)
  rw [hd] at hc
  have hg : SInv (withExtra { s.base with f := .idle } ((s.gone ++ [k]).map APC.e1)) := by
    rw [ghost_append]; exact hand_to_ghost s.base _ k h.inv hfb
  -- the state Done continues from: the pulled waker is a ghost, the fetcher's hands are empty
  have key : DInv ({ s with base := { s.base with f := .idle }, pend := s.pend.erase k, gone := s.gone ++ [k] } : DSt).nextPull.1 := by
    refine nextPull_inv _ hg rfl ?_
    intro j hj
    rcases hc j hj with h1 | h1 | h1
    · exact Or.inl (List.mem_append_left _ h1)
    · by_cases hjk : j = k
      · subst hjk; exact Or.inl (by simp)
      · exact Or.inr (mem_erase_ne h1 hjk)
    · simp [todo] at h1
  -- `nextPull` resets the fetcher's pc itself
  have e : ({ s with pend := s.pend.erase k, gone := s.gone ++ [k] } : DSt).nextPull =
      ({ s with base := { s.base with f := .idle }, pend := s.pend.erase k, gone := s.gone ++ [k] } : DSt).nextPull := by
    unfold DSt.nextPull DSt.finish
    simp only
  rw [e]; exact key

theorem pull_step_inv (s : DSt) (h : DInv s) (hd : s.d = .pull) : DInv ({ s with base := s.base.fstep.1 } : DSt) := by
  have hc := h.cover (by rw [hd]; rfl)
  refine ⟨?_, fun _ j hj => hc j hj, fun hh => absurd hd hh, (fun hh => by have h' : inDone s.d = false := hh; rw [hd] at h'; cases h'),
    (fun k hh => by rw [show ({ s with base := s.base.fstep.1 } : DSt).d = s.d from rfl, hd] at hh; cases hh),
    (fun k hh => by rw [show ({ s with base := s.base.fstep.1 } : DSt).d = s.d from rfl, hd] at hh; cases hh)⟩
  show SInv (withExtra s.base.fstep.1 (s.gone.map APC.e1))
  have := act_inv (ghost s) .fstep h.inv
  have e : ((ghost s).act .fstep).1 = withExtra s.base.fstep.1 (s.gone.map APC.e1) := by
    show ((withExtra s.base (s.gone.map APC.e1)).fstep).1 = _
    rw [fstep_extra]
  rw [e] at this; exact this

/-! ### AddWaker on a detached waker -/

theorem sumOver_ghostsA (k : Nat) (l : List Nat) : sumOver (inflight k) (l.map APC.e1) = l.count k := by
  induction l with
  | nil => rfl
  | cons a t ih =>
    rw [List.map_cons, sumOver_cons, ih, List.count_cons]
    simp only [inflight]
    by_cases h : a = k
    · subst h; simp; omega
    · simp [h]

theorem sumOver_appA (g : APC → Nat) (l m : List APC) : sumOver g (l ++ m) = sumOver g l + sumOver g m := by
  induction l with
  | nil => simp [sumOver]
  | cons a t ih => rw [List.cons_append, sumOver_cons, sumOver_cons, ih]; omega

/-- `loc` in the ghost view, spelled out -/
theorem loc_ghost (b : St) (g : List Nat) (j : Nat) :
    loc (withExtra b (g.map APC.e1)) j =
      b.shared.count j + b.local_.count j + (sumOver (inflight j) b.ts + g.count j) + (if b.f = .f1 j then 1 else 0) := by
  unfold loc withExtra
  simp only
  rw [sumOver_appA, sumOver_ghostsA]

theorem count_erase_other (l : List Nat) (k j : Nat) (h : j ≠ k) : (l.erase k).count j = l.count j := by
  rw [List.count_erase]
  have : ¬ (k = j) := fun hh => h hh.symm
  simp [this]

theorem count_erase_same (l : List Nat) (k : Nat) : (l.erase k).count k = l.count k - 1 := by
  rw [List.count_erase]; simp

/-- the waker `AddWaker` works on is detached: exactly one ghost holds it, nothing else does -/
theorem adding_facts (s : DSt) (h : DInv s) (k : Nat) (hk : k ∈ s.gone) :
    s.base.ws k ≠ .slp ∧ s.gone.count k = 1 ∧ s.base.shared.count k = 0 := by
  have hj := h.inv.1 k
  have hl := loc_ghost s.base s.gone k
  have hc : 1 ≤ s.gone.count k := List.count_pos_iff.mpr hk
  have hne : s.base.ws k ≠ .slp := by
    intro hw
    have := hj.1 hw
    have e : loc (ghost s) k = loc (withExtra s.base (s.gone.map APC.e1)) k := rfl
    rw [e, hl] at this; omega
  have h1 := hj.2 hne
  have e : loc (ghost s) k = loc (withExtra s.base (s.gone.map APC.e1)) k := rfl
  rw [e, hl] at h1
  exact ⟨hne, by omega, by omega⟩

/-- AddWaker's compare-and-swap succeeded: the waker is attached again -/
theorem w2_inv (s : DSt) (h : DInv s) (k : Nat) (hk : k ∈ s.gone) (hf : s.base.f = .idle) (hnd : inDone s.d = false) :
    DInv ({ s with base := { s.base with ws := setWs s.base.ws k .slp }, gone := s.gone.erase k, d := .off } : DSt) := by
  obtain ⟨hne, hc1, _⟩ := adding_facts s h k hk
  obtain ⟨hj, hn, hm, hkk⟩ := h.inv
  refine ⟨⟨?_, hn, hm, ?_⟩, (fun hh => by cases hh), fun _ => Or.inr rfl, (fun _ => h.offPend hnd), (fun _ hh => by cases hh), (fun _ hh => by cases hh)⟩
  · intro j
    have e1 : loc (ghost ({ s with base := { s.base with ws := setWs s.base.ws k .slp }, gone := s.gone.erase k, d := .off } : DSt)) j =
        loc (withExtra { s.base with ws := setWs s.base.ws k .slp } ((s.gone.erase k).map APC.e1)) j := rfl
    have l1 := loc_ghost { s.base with ws := setWs s.base.ws k .slp } (s.gone.erase k) j
    have l0 := loc_ghost s.base s.gone j
    have e0 : loc (ghost s) j = loc (withExtra s.base (s.gone.map APC.e1)) j := rfl
    show (setWs s.base.ws k .slp j = .slp → _) ∧ (setWs s.base.ws k .slp j ≠ .slp → _)
    rw [e1, l1]
    dsimp only
    have hjj := hj j
    rw [e0, l0] at hjj
    by_cases hjk : j = k
    · subst hjk
      rw [setWs_same, count_erase_same]
      have := hjj.2 hne
      refine ⟨fun _ => ?_, fun hc => absurd rfl hc⟩
      show s.base.shared.count j + s.base.local_.count j + (sumOver (inflight j) s.base.ts + (s.gone.count j - 1)) + _ = 0
      omega
    · rw [setWs_other _ _ _ _ hjk, count_erase_other _ _ _ hjk]
      exact hjj
  · intro hh
    have : s.base.f = .park ∨ s.base.f = .cs2 ∨ s.base.f = .parked := hh
    rw [hf] at this
    rcases this with h1 | h1 | h1 <;> cases h1

/-- AddWaker found the waker asserted and its push succeeded: the waker is on the shared list -/
theorem we2_inv (s : DSt) (h : DInv s) (k : Nat) (hk : k ∈ s.gone) (hf : s.base.f = .idle) (hnd : inDone s.d = false) :
    DInv ({ s with base := { s.base with shared := k :: s.base.shared }, gone := s.gone.erase k, d := .we3 k } : DSt) := by
  obtain ⟨hne, hc1, _⟩ := adding_facts s h k hk
  obtain ⟨hj, hn, hm, hkk⟩ := h.inv
  refine ⟨⟨?_, hn, hm, ?_⟩, (fun hh => by cases hh), fun _ => Or.inl hf, (fun _ => h.offPend hnd), (fun _ hh => by cases hh), ?_⟩
  · intro j
    have e1 : loc (ghost ({ s with base := { s.base with shared := k :: s.base.shared }, gone := s.gone.erase k, d := .we3 k } : DSt)) j =
        loc (withExtra { s.base with shared := k :: s.base.shared } ((s.gone.erase k).map APC.e1)) j := rfl
    have l1 := loc_ghost { s.base with shared := k :: s.base.shared } (s.gone.erase k) j
    have l0 := loc_ghost s.base s.gone j
    have e0 : loc (ghost s) j = loc (withExtra s.base (s.gone.map APC.e1)) j := rfl
    show (s.base.ws j = .slp → _) ∧ (s.base.ws j ≠ .slp → _)
    rw [e1, l1]
    dsimp only
    have hjj := hj j
    rw [e0, l0] at hjj
    simp only [List.count_cons]
    by_cases hjk : j = k
    · subst hjk
      rw [count_erase_same]
      simp only [beq_self_eq_true, if_true]
      refine ⟨fun hc => absurd hc hne, fun _ => ?_⟩
      have := hjj.2 hne
      show s.base.shared.count j + 1 + s.base.local_.count j + (sumOver (inflight j) s.base.ts + (s.gone.count j - 1)) + _ = 1
      omega
    · rw [count_erase_other _ _ _ hjk]
      have : (k == j) = false := by simp; exact fun hh => hjk hh.symm
      simp only [this, Bool.false_eq_true, if_false, Nat.add_zero]
      exact hjj
  · intro hh
    have : s.base.f = .park ∨ s.base.f = .cs2 ∨ s.base.f = .parked := hh
    rw [hf] at this
    rcases this with h1 | h1 | h1 <;> cases h1
  · intro j hh
    have hjk : k = j := by simpa [added] using hh
    subst hjk
    intro hm
    have := List.count_pos_iff.mpr hm
    rw [count_erase_same] at this
    omega

/-- a step of AddWaker that changes nothing but its own program counter -/
theorem wpc_inv (s : DSt) (h : DInv s) (d' : DPC) (hd' : inDone d' = false) (hnd : inDone s.d = false)
    (hf : s.base.f = .idle) (ha : ∀ k, adding d' = some k → k ∈ s.gone) (hb : ∀ k, added d' = some k → k ∉ s.gone) :
    DInv ({ s with d := d' } : DSt) :=
  ⟨h.inv, (fun hh => by rw [show ({ s with d := d' } : DSt).d = d' from rfl, hd'] at hh; cases hh), fun _ => Or.inl hf,
   (fun _ => h.offPend hnd), ha, hb⟩

/-- clearing `waitingG` from AddWaker's wake loop (the fetcher is this very goroutine: nobody sleeps) -/
theorem we4_inv (s : DSt) (h : DInv s) (k : Nat) (hf : s.base.f = .idle) (hnd : inDone s.d = false) (hk : k ∉ s.gone) :
    DInv ({ s with base := { s.base with wg := .zero }, d := .we3 k } : DSt) := by
  obtain ⟨hj, hn, hm, hkk⟩ := h.inv
  refine ⟨⟨hj, hn, ?_, ?_⟩, (fun hh => by cases hh), fun _ => Or.inl hf, (fun _ => h.offPend hnd), (fun _ hh => by cases hh),
    (fun j hh => by have : k = j := by simpa [added] using hh
                    rw [← this]; exact hk)⟩
  · refine ⟨?_, fun hh => by cases hh⟩
    show (WG.zero = .parked ↔ s.base.f = .parked)
    rw [hf]
    constructor <;> intro hh <;> cases hh
  · intro hh
    have : s.base.f = .park ∨ s.base.f = .cs2 ∨ s.base.f = .parked := hh
    rw [hf] at this
    rcases this with h1 | h1 | h1 <;> cases h1

theorem startAdd_inv (s : DSt) (k : Nat) (h : DInv s) : DInv (s.startAdd k).1 := by
  unfold DSt.startAdd
  split
  · rename_i hc
    have hnd : inDone s.d = false := by rw [hc.1]; rfl
    refine ⟨h.inv, (fun hh => by cases hh), fun _ => Or.inl hc.2.1, (fun _ => h.offPend hnd), ?_, (fun _ hh => by cases hh)⟩
    intro j hj
    have : j = k := by
      have : adding (.w1 k) = some j := hj
      simp [adding] at this; exact this.symm
    rw [this]; exact hc.2.2
  · exact h

/-- **every step of Done keeps the invariant** -/
theorem dstep_inv (s : DSt) (h : DInv s) : DInv s.dstep.1 := by
  unfold DSt.dstep
  split
  · exact h
  · rename_i k rest hd
    have hf : s.base.f = .idle := by
      rcases h.phase1 (by rw [hd]; intro hh; cases hh) with h1 | h1
      · exact h1
      · rw [hd] at h1; cases h1
    have hc := h.cover (by rw [hd]; rfl)
    rw [hd] at hc
    split
    · refine advance_inv { s with pend := k :: s.pend } rest h.inv hf ?_
      intro j hj
      rcases hc j hj with h1 | h1 | h1
      · exact Or.inl h1
      · exact Or.inr (Or.inl (List.mem_cons_of_mem _ h1))
      · simp only [todo, List.mem_cons] at h1
        rcases h1 with h1 | h1
        · subst h1; exact Or.inr (Or.inl (by simp))
        · exact Or.inr (Or.inr h1)
    · exact ⟨h.inv, fun _ j hj => hc j hj, fun _ => Or.inl hf, (fun hh => by cases hh), (fun _ hh => by cases hh), (fun _ hh => by cases hh)⟩
  · rename_i k rest hd
    have hf : s.base.f = .idle := by
      rcases h.phase1 (by rw [hd]; intro hh; cases hh) with h1 | h1
      · exact h1
      · rw [hd] at h1; cases h1
    have hc := h.cover (by rw [hd]; rfl)
    rw [hd] at hc
    split
    · rename_i hw
      refine advance_inv { s with base := { s.base with ws := setWs s.base.ws k .nil }, gone := s.gone ++ [k] } rest ?_ hf ?_
      · show SInv (withExtra { s.base with ws := setWs s.base.ws k .nil } ((s.gone ++ [k]).map APC.e1))
        rw [ghost_append]
        exact detach_idle s.base _ k h.inv hw
      · intro j hj
        rcases hc j hj with h1 | h1 | h1
        · exact Or.inl (List.mem_append_left _ h1)
        · exact Or.inr (Or.inl h1)
        · simp only [todo, List.mem_cons] at h1
          rcases h1 with h1 | h1
          · subst h1; exact Or.inl (by simp)
          · exact Or.inr (Or.inr h1)
    · exact ⟨h.inv, fun _ j hj => hc j hj, fun _ => Or.inl hf, (fun hh => by cases hh), (fun _ hh => by cases hh), (fun _ hh => by cases hh)⟩
  · rename_i hd
    split
    · rename_i k hfb
      exact pull_f1_inv s k h hd hfb
    · exact pull_step_inv s h hd
  -- AddWaker
  · rename_i k hd
    have hnd : inDone s.d = false := by rw [hd]; rfl
    have hf : s.base.f = .idle := by
      rcases h.phase1 (by rw [hd]; intro hh; cases hh) with h1 | h1
      · exact h1
      · rw [hd] at h1; cases h1
    have hk : k ∈ s.gone := h.addK k (by rw [hd]; rfl)
    split
    · exact wpc_inv s h (.we1 k) rfl hnd hf (fun j hj => by simp [adding] at hj; rw [← hj]; exact hk) (fun _ hh => by cases hh)
    · exact wpc_inv s h (.w2 k (s.base.ws k)) rfl hnd hf (fun j hj => by simp [adding] at hj; rw [← hj]; exact hk) (fun _ hh => by cases hh)
  · rename_i k p hd
    have hnd : inDone s.d = false := by rw [hd]; rfl
    have hf : s.base.f = .idle := by
      rcases h.phase1 (by rw [hd]; intro hh; cases hh) with h1 | h1
      · exact h1
      · rw [hd] at h1; cases h1
    have hk : k ∈ s.gone := h.addK k (by rw [hd]; rfl)
    split
    · exact w2_inv s h k hk hf hnd
    · exact wpc_inv s h (.w1 k) rfl hnd hf (fun j hj => by simp [adding] at hj; rw [← hj]; exact hk) (fun _ hh => by cases hh)
  · rename_i k hd
    have hnd : inDone s.d = false := by rw [hd]; rfl
    have hf : s.base.f = .idle := by
      rcases h.phase1 (by rw [hd]; intro hh; cases hh) with h1 | h1
      · exact h1
      · rw [hd] at h1; cases h1
    have hk : k ∈ s.gone := h.addK k (by rw [hd]; rfl)
    exact wpc_inv s h (.we2 k s.base.shared.head?) rfl hnd hf (fun j hj => by simp [adding] at hj; rw [← hj]; exact hk) (fun _ hh => by cases hh)
  · rename_i k snap hd
    have hnd : inDone s.d = false := by rw [hd]; rfl
    have hf : s.base.f = .idle := by
      rcases h.phase1 (by rw [hd]; intro hh; cases hh) with h1 | h1
      · exact h1
      · rw [hd] at h1; cases h1
    have hk : k ∈ s.gone := h.addK k (by rw [hd]; rfl)
    split
    · exact we2_inv s h k hk hf hnd
    · exact wpc_inv s h (.we1 k) rfl hnd hf (fun j hj => by simp [adding] at hj; rw [← hj]; exact hk) (fun _ hh => by cases hh)
  · rename_i k hd
    have hnd : inDone s.d = false := by rw [hd]; rfl
    have hf : s.base.f = .idle := by
      rcases h.phase1 (by rw [hd]; intro hh; cases hh) with h1 | h1
      · exact h1
      · rw [hd] at h1; cases h1
    have hkn : k ∉ s.gone := h.addedK k (by rw [hd]; rfl)
    split
    · exact wpc_inv s h .off rfl hnd hf (fun j hj => by simp [adding] at hj) (fun _ hh => by cases hh)
    · exact wpc_inv s h (.we4 k s.base.wg) rfl hnd hf (fun j hj => by simp [adding] at hj)
        (fun j hh => by have : k = j := by simpa [added] using hh
                        rw [← this]; exact hkn)
  · rename_i k g hd
    have hnd : inDone s.d = false := by rw [hd]; rfl
    have hf : s.base.f = .idle := by
      rcases h.phase1 (by rw [hd]; intro hh; cases hh) with h1 | h1
      · exact h1
      · rw [hd] at h1; cases h1
    have hkn : k ∉ s.gone := h.addedK k (by rw [hd]; rfl)
    split
    · exact we4_inv s h k hf hnd hkn
    · exact wpc_inv s h (.we3 k) rfl hnd hf (fun j hj => by simp [adding] at hj)
        (fun j hh => by have : k = j := by simpa [added] using hh
                        rw [← this]; exact hkn)

/-- a base action on a goroutine index beyond the list does nothing -/
theorem astep_none (b : St) (t : Nat) (h : ¬ t < b.ts.length) : b.astep t = (b, .none) := by
  unfold St.astep
  rw [List.getElem?_eq_none (by omega)]

theorem startCall_none (b : St) (t : Nat) (c : Call) (h : ¬ t < b.ts.length) : b.startCall t c = b := by
  unfold St.startCall
  rw [List.getElem?_eq_none (by omega)]

/-- an asserter's step cannot wake a fetcher that is not asleep -/
theorem astep_keeps_idle (b : St) (t : Nat) (hm : Mi b) (hf : b.f = .idle) : (b.astep t).1.f = .idle := by
  rcases (astep_frame b t).2 with h | ⟨_, h⟩
  · rw [h]; exact hf
  · have := hm.1.mp h; rw [hf] at this; cases this

theorem startCall_f (b : St) (t : Nat) (c : Call) : (b.startCall t c).f = b.f := by
  unfold St.startCall
  cases b.ts[t]? with
  | none => cases c <;> rfl
  | some pc => cases pc <;> cases c <;> rfl

/-- **every action of the `Done` layer keeps the invariant** -/
theorem dact_inv (s : DSt) (a : DAct) (h : DInv s) : DInv (s.act a).1 := by
  cases a with
  | done => exact startDone_inv s h
  | add k => exact startAdd_inv s k h
  | dstep => exact dstep_inv s h
  | base a =>
    cases a with
    | fetch b =>
      simp only [DSt.act]
      split
      · rename_i hd
        refine ⟨?_, (fun hh => by have h' : inDone s.d = true := hh; rw [hd] at h'; cases h'), fun _ => Or.inr hd, h.offPend, h.addK, h.addedK⟩
        show SInv (withExtra (s.base.startFetch b) (s.gone.map APC.e1))
        rw [← startFetch_extra]; exact startFetch_inv _ b h.inv
      · exact h
    | fstep =>
      simp only [DSt.act]
      split
      · rename_i hd
        refine ⟨?_, (fun hh => by have h' : inDone s.d = true := hh; rw [hd] at h'; cases h'), fun _ => Or.inr hd, h.offPend, h.addK, h.addedK⟩
        show SInv (withExtra s.base.fstep.1 (s.gone.map APC.e1))
        have := act_inv (ghost s) .fstep h.inv
        have e : ((ghost s).act .fstep).1 = withExtra s.base.fstep.1 (s.gone.map APC.e1) := by
          show ((withExtra s.base (s.gone.map APC.e1)).fstep).1 = _
          rw [fstep_extra]
        rw [e] at this; exact this
      · exact h
    | call t c =>
      simp only [DSt.act]
      refine ⟨?_, h.cover, fun hh => ?_, h.offPend, h.addK, h.addedK⟩
      · show SInv (withExtra (s.base.startCall t c) (s.gone.map APC.e1))
        by_cases ht : t < s.base.ts.length
        · rw [← startCall_extra _ _ _ _ ht]; exact startCall_inv _ t c h.inv
        · rw [startCall_none _ _ _ ht]; exact h.inv
      · rcases h.phase1 hh with h1 | h1
        · exact Or.inl (by show (s.base.startCall t c).f = _; rw [startCall_f]; exact h1)
        · exact Or.inr h1
    | astep t =>
      simp only [DSt.act]
      refine ⟨?_, h.cover, fun hh => ?_, h.offPend, h.addK, h.addedK⟩
      · show SInv (withExtra (s.base.astep t).1 (s.gone.map APC.e1))
        by_cases ht : t < s.base.ts.length
        · have := act_inv (ghost s) (.astep t) h.inv
          have e : ((ghost s).act (.astep t)).1 = withExtra (s.base.astep t).1 (s.gone.map APC.e1) := by
            show ((withExtra s.base (s.gone.map APC.e1)).astep t).1 = _
            rw [astep_extra _ _ _ ht]
          rw [e] at this; exact this
        · rw [astep_none _ _ ht]; exact h.inv
      · rcases h.phase1 hh with h1 | h1
        · exact Or.inl (astep_keeps_idle s.base t h.inv.2.2.1 h1)
        · exact Or.inr h1

/-- the invariant holds in every reachable state of the `Done` layer, whatever the interleaving -/
theorem dreachable_inv (n nw : Nat) (acts : List DAct) : DInv (drun n nw acts) := by
  unfold drun
  have gen : ∀ (s : DSt), DInv s → DInv (acts.foldl (fun s a => (s.act a).1) s) := by
    induction acts with
    | nil => intro s h; exact h
    | cons a rest ih => intro s h; exact ih _ (dact_inv s a h)
  exact gen _ (dinv_init n nw)

/-! ## the property -/

theorem sumOver_app (g : APC → Nat) (l m : List APC) : sumOver g (l ++ m) = sumOver g l + sumOver g m := by
  induction l with
  | nil => simp [sumOver]
  | cons a t ih => rw [List.cons_append, sumOver_cons, sumOver_cons, ih]; omega

theorem sumOver_ghosts (k : Nat) (l : List Nat) : sumOver (inflight k) (l.map APC.e1) = l.count k := by
  induction l with
  | nil => rfl
  | cons a t ih =>
    rw [List.map_cons, sumOver_cons, ih, List.count_cons]
    simp only [inflight]
    by_cases h : a = k
    · subst h; simp; omega
    · simp [h]

theorem sumOver_zero (g : APC → Nat) (l : List APC) (h : sumOver g l = 0) : ∀ p ∈ l, g p = 0 := by
  induction l with
  | nil => intro p hp; simp at hp
  | cons a t ih =>
    rw [sumOver_cons] at h
    intro p hp
    rcases List.mem_cons.mp hp with hp | hp
    · subst hp; omega
    · exact ih (by omega) p hp

/-- **a detached waker is nowhere**: its pointer no longer names the sleeper, it is in neither list, no goroutine has a
push of it in flight and the fetcher does not hold it -/
theorem gone_is_nowhere (s : DSt) (h : DInv s) (k : Nat) (hk : k ∈ s.gone) :
    s.base.ws k ≠ .slp ∧ k ∉ s.base.shared ∧ k ∉ s.base.local_ ∧ (∀ p ∈ s.base.ts, inflight k p = 0) ∧ s.base.f ≠ .f1 k := by
  have hj := h.inv.1 k
  have hl : loc (ghost s) k = s.base.shared.count k + s.base.local_.count k +
      (sumOver (inflight k) s.base.ts + s.gone.count k) + (if s.base.f = .f1 k then 1 else 0) := by
    unfold loc ghost withExtra
    simp only
    rw [sumOver_app, sumOver_ghosts]
  have hc : 1 ≤ s.gone.count k := List.count_pos_iff.mpr hk
  have hne : s.base.ws k ≠ .slp := by
    intro hw
    have := hj.1 hw
    rw [hl] at this; omega
  have h1 := hj.2 hne
  rw [hl] at h1
  refine ⟨hne, ?_, ?_, ?_, ?_⟩
  · intro hm; have := List.count_pos_iff.mpr hm; omega
  · intro hm; have := List.count_pos_iff.mpr hm; omega
  · exact sumOver_zero _ _ (by omega)
  · intro hf; rw [if_pos hf] at h1; omega

/-- **C19 (Done, reachability)**: in every state reachable by any interleaving of the fetcher's goroutine (Fetch,
Done) with any number of asserting / clearing goroutines, a waker Done has detached is in no list of the sleeper, is
not being pushed by anyone and is not in the fetcher's hands, and its pointer does not name the sleeper -- so no
later `Assert` enqueues it (the swap in `Assert` finds nil or "asserted", never the sleeper) and `AddWaker` finds
it free for a new sleeper -/
theorem detached_waker_never_queued (n nw : Nat) (acts : List DAct) (k : Nat) (hk : k ∈ (drun n nw acts).gone) :
    (drun n nw acts).base.ws k ≠ .slp ∧ k ∉ (drun n nw acts).base.shared ∧ k ∉ (drun n nw acts).base.local_ ∧
    (∀ p ∈ (drun n nw acts).base.ts, inflight k p = 0) ∧ (drun n nw acts).base.f ≠ .f1 k :=
  gone_is_nowhere _ (dreachable_inv n nw acts) k hk

theorem finish_ev (s : DSt) : s.finish.1.gone = s.gone ∧ s.finish.1.d = .off := ⟨rfl, rfl⟩

theorem nextPull_ev (s : DSt) (h : s.nextPull.2 = .doneReturned) : s.pend = [] ∧ s.nextPull.1.gone = s.gone := by
  unfold DSt.nextPull at h ⊢
  split
  · rename_i he; exact ⟨he, rfl⟩
  · rename_i he; rw [if_neg he] at h; cases h

theorem advance_ev (s : DSt) (rest : List Nat) (h : (s.advance rest).2 = .doneReturned) :
    rest = [] ∧ s.pend = [] ∧ (s.advance rest).1.gone = s.gone := by
  unfold DSt.advance at h ⊢
  cases rest with
  | nil => exact ⟨rfl, nextPull_ev s h⟩
  | cons k r => cases h

/-- **C19 (Done returns only when every attached waker is detached)** -/
theorem done_returns_all_detached (s : DSt) (a : DAct) (h : DInv s) (hev : (s.act a).2 = .doneReturned) :
    ∀ k ∈ s.att, k ∈ (s.act a).1.gone := by
  cases a with
  | base a =>
    cases a with
    | fetch b => simp only [DSt.act] at hev; split at hev <;> cases hev
    | fstep =>
      simp only [DSt.act] at hev
      split at hev
      · exfalso
        have : s.base.fstep.2 ≠ .doneReturned := by
          unfold St.fstep
          cases s.base.f <;> simp only <;> (try split) <;> (try split) <;> intro hh <;> cases hh
        exact this hev
      · cases hev
    | call t c => simp only [DSt.act] at hev; cases hev
    | astep t =>
      simp only [DSt.act] at hev
      exfalso
      have : (s.base.astep t).2 ≠ .doneReturned := by
        unfold St.astep
        cases s.base.ts[t]? with
        | none => intro hh; cases hh
        | some pc => cases pc <;> simp only <;> (try split) <;> intro hh <;> cases hh
      exact this hev
  | add k =>
    simp only [DSt.act] at hev
    unfold DSt.startAdd at hev
    split at hev <;> cases hev
  | done =>
    simp only [DSt.act] at hev ⊢
    unfold DSt.startDone at hev ⊢
    split
    · rename_i hc
      rw [if_pos hc] at hev
      obtain ⟨e1, _, _⟩ := advance_ev s s.att hev
      intro k hk; rw [e1] at hk; simp at hk
    · rename_i hc; rw [if_neg hc] at hev; cases hev
  | dstep =>
    simp only [DSt.act] at hev ⊢
    unfold DSt.dstep at hev ⊢
    split
    · rename_i hd; rw [hd] at hev; cases hev
    · rename_i k rest hd
      rw [hd] at hev
      have hc := h.cover (by rw [hd]; rfl)
      rw [hd] at hc
      simp only at hev
      split
      · rename_i hw
        rw [if_pos hw] at hev
        obtain ⟨_, e2, _⟩ := advance_ev _ rest hev
        simp at e2
      · rename_i hw; rw [if_neg hw] at hev; cases hev
    · rename_i k rest hd
      have hc := h.cover (by rw [hd]; rfl)
      rw [hd] at hc
      rw [hd] at hev ⊢
      simp only at hev
      split
      · rename_i hw
        rw [if_pos hw] at hev
        obtain ⟨e1, e2, e3⟩ := advance_ev _ rest hev
        intro j hj
        rw [e3]
        rcases hc j hj with h1 | h1 | h1
        · exact List.mem_append_left _ h1
        · have e2' : s.pend = [] := e2
          rw [e2'] at h1; simp at h1
        · simp only [todo, e1, List.mem_cons, List.not_mem_nil, or_false] at h1
          subst h1; simp
      · rename_i hw; rw [if_neg hw] at hev; cases hev
    · rename_i hd
      have hc := h.cover (by rw [hd]; rfl)
      rw [hd] at hc
      rw [hd] at hev ⊢
      simp only at hev
      split
      · rename_i k hfb
        rw [hfb] at hev
        simp only at hev
        obtain ⟨e2, e3⟩ := nextPull_ev _ hev
        intro j hj
        rw [e3]
        have e2' : s.pend.erase k = [] := e2
        rcases hc j hj with h1 | h1 | h1
        · exact List.mem_append_left _ h1
        · by_cases hjk : j = k
          · subst hjk; simp
          · have := mem_erase_ne h1 hjk
            rw [e2'] at this; simp at this
        · simp [todo] at h1
      · rename_i hfb
        exfalso
        split at hev
        · rename_i k hk; exact hfb k hk
        · cases hev
    -- the steps of AddWaker never report that Done returned
    · rename_i k hd; rw [hd] at hev; simp only at hev; split at hev <;> cases hev
    · rename_i k p hd; rw [hd] at hev; simp only at hev; split at hev <;> cases hev
    · rename_i k hd; rw [hd] at hev; cases hev
    · rename_i k sn hd; rw [hd] at hev; simp only at hev; split at hev <;> cases hev
    · rename_i k hd; rw [hd] at hev; simp only at hev; split at hev <;> cases hev
    · rename_i k g hd; rw [hd] at hev; simp only at hev; split at hev <;> cases hev

/-- the run of the witness: a goroutine asserts waker 0 up to the point where it has pushed it and is about to read
`waitingG`; the fetcher's goroutine then runs Done to its end -/
def stragglerRun : List DAct :=
  [.base (.call 0 (.assert 0)), .base (.astep 0), .base (.astep 0), .base (.astep 0), .base (.astep 0),
   .done, .dstep, .dstep, .dstep, .dstep]

/-- **the worded clause "after Done returns no waker can touch the sleeper again" fails in one corner** (recorded as a
known finding): Done waits until every pending waker has reached the lists, not until its pusher has left the wake
loop -- here Done has returned, waker 0 is detached, and the asserting goroutine still stands before its
`LoadUintptr(&s.waitingG)`; its next step reads the sleeper's word (finds 0 and returns).  What it cannot do is
queue the waker again or hand it to a `Fetch`: `detached_waker_never_queued`. -/
theorem done_straggler_witness :
    (drun 1 1 stragglerRun).d = .off ∧ (drun 1 1 stragglerRun).gone = [0] ∧ (drun 1 1 stragglerRun).att = [] ∧
    (drun 1 1 stragglerRun).base.ts = [.e3 0] ∧
    ((drun 1 1 stragglerRun).act (.base (.astep 0))).2 = .assertDone := by
  decide

/-- non-vacuity of `done_returns_all_detached`: the last step of that run is the one on which Done returns, and the
attached waker is in `gone` afterwards -/
example :
    ((drun 1 1 (stragglerRun.take 9)).act .dstep).2 = .doneReturned ∧ (drun 1 1 (stragglerRun.take 9)).att = [0] ∧
    ((drun 1 1 (stragglerRun.take 9)).act .dstep).1.gone = [0] := by
  decide

/-! ## Done is final -/

theorem finish_gone (s : DSt) : s.finish.1.gone = s.gone := rfl

theorem nextPull_gone (s : DSt) : s.nextPull.1.gone = s.gone := by
  unfold DSt.nextPull; split <;> rfl

theorem advance_gone (s : DSt) (rest : List Nat) : (s.advance rest).1.gone = s.gone := by
  unfold DSt.advance
  cases rest with
  | nil => exact nextPull_gone s
  | cons k r => rfl

/-- the ghost list loses a waker only when `AddWaker` attaches that very waker again -/
theorem act_gone_keep (s : DSt) (a : DAct) (k : Nat) (hk : k ∈ s.gone) (hna : adding s.d ≠ some k) (ha : ∀ j, a = .add j → j ≠ k) :
    k ∈ (s.act a).1.gone ∧ adding (s.act a).1.d ≠ some k := by
  have erase_keep : ∀ j, adding s.d = some j → k ∈ s.gone.erase j := by
    intro j hj
    exact mem_erase_ne hk (fun hh => hna (by rw [hh]; exact hj))
  cases a with
  | base a =>
    cases a with
    | fetch b => simp only [DSt.act]; split <;> exact ⟨hk, hna⟩
    | fstep => simp only [DSt.act]; split <;> exact ⟨hk, hna⟩
    | call t c => exact ⟨hk, hna⟩
    | astep t => exact ⟨hk, hna⟩
  | add j =>
    simp only [DSt.act]
    unfold DSt.startAdd
    split
    · refine ⟨hk, ?_⟩
      intro hh
      simp [adding] at hh
      exact ha j rfl hh
    · exact ⟨hk, hna⟩
  | done =>
    simp only [DSt.act]
    unfold DSt.startDone
    split
    · rename_i hc
      refine ⟨by rw [advance_gone]; exact hk, ?_⟩
      unfold DSt.advance
      cases s.att with
      | nil => unfold DSt.nextPull DSt.finish; simp only; split <;> (intro hh; cases hh)
      | cons x r => intro hh; cases hh
    · exact ⟨hk, hna⟩
  | dstep =>
    simp only [DSt.act]
    unfold DSt.dstep
    have advNone : ∀ (t : DSt) (rest : List Nat), adding (t.advance rest).1.d ≠ some k := by
      intro t rest
      unfold DSt.advance
      cases rest with
      | nil => unfold DSt.nextPull DSt.finish; simp only; split <;> (intro hh; cases hh)
      | cons x r => intro hh; cases hh
    have pullNone : ∀ (t : DSt), adding t.nextPull.1.d ≠ some k := by
      intro t
      unfold DSt.nextPull DSt.finish; simp only; split <;> (intro hh; cases hh)
    split
    · exact ⟨hk, hna⟩
    · split
      · exact ⟨by rw [advance_gone]; exact hk, advNone _ _⟩
      · exact ⟨hk, fun hh => by cases hh⟩
    · split
      · exact ⟨by rw [advance_gone]; exact List.mem_append_left _ hk, advNone _ _⟩
      · exact ⟨hk, fun hh => by cases hh⟩
    · split
      · exact ⟨by rw [nextPull_gone]; exact List.mem_append_left _ hk, pullNone _⟩
      · rename_i hd _ _
        exact ⟨hk, fun hh => by rw [show ({ s with base := s.base.fstep.1 } : DSt).d = s.d from rfl, hd] at hh; cases hh⟩
    · rename_i j hd
      have hjk : j ≠ k := fun hh => hna (by rw [hd, hh]; rfl)
      split
      · exact ⟨hk, fun hh => by simp [adding] at hh; exact hjk hh⟩
      · exact ⟨hk, fun hh => by simp [adding] at hh; exact hjk hh⟩
    · rename_i j p hd
      have hjk : j ≠ k := fun hh => hna (by rw [hd, hh]; rfl)
      split
      · exact ⟨erase_keep j (by rw [hd]; rfl), fun hh => by cases hh⟩
      · exact ⟨hk, fun hh => by simp [adding] at hh; exact hjk hh⟩
    · rename_i j hd
      have hjk : j ≠ k := fun hh => hna (by rw [hd, hh]; rfl)
      exact ⟨hk, fun hh => by simp [adding] at hh; exact hjk hh⟩
    · rename_i j sn hd
      have hjk : j ≠ k := fun hh => hna (by rw [hd, hh]; rfl)
      split
      · exact ⟨erase_keep j (by rw [hd]; rfl), fun hh => by cases hh⟩
      · exact ⟨hk, fun hh => by simp [adding] at hh; exact hjk hh⟩
    · split
      · exact ⟨hk, fun hh => by cases hh⟩
      · exact ⟨hk, fun hh => by cases hh⟩
    · split
      · exact ⟨hk, fun hh => by cases hh⟩
      · exact ⟨hk, fun hh => by cases hh⟩

theorem run_gone_keep (acts : List DAct) (s : DSt) (k : Nat) (hk : k ∈ s.gone) (hna : adding s.d ≠ some k)
    (ha : ∀ a ∈ acts, ∀ j, a = .add j → j ≠ k) :
    k ∈ (acts.foldl (fun s a => (s.act a).1) s).gone := by
  induction acts generalizing s with
  | nil => exact hk
  | cons a rest ih =>
    obtain ⟨h1, h2⟩ := act_gone_keep s a k hk hna (ha a (by simp))
    exact ih _ h1 h2 (fun b hb => ha b (by simp [hb]))

theorem nextPull_off (s : DSt) (h : s.nextPull.2 = .doneReturned) : s.nextPull.1.d = .off := by
  unfold DSt.nextPull at h ⊢
  split
  · rfl
  · rename_i he; rw [if_neg he] at h; cases h

theorem advance_off (s : DSt) (rest : List Nat) (h : (s.advance rest).2 = .doneReturned) : (s.advance rest).1.d = .off := by
  unfold DSt.advance at h ⊢
  cases rest with
  | nil => exact nextPull_off s h
  | cons k r => cases h

/-- the state in which Done has just returned is outside Done and AddWaker -/
theorem doneReturned_off (s : DSt) (a : DAct) (hev : (s.act a).2 = .doneReturned) : (s.act a).1.d = .off := by
  cases a with
  | base a =>
    cases a with
    | fetch b => simp only [DSt.act] at hev; split at hev <;> cases hev
    | fstep =>
      simp only [DSt.act] at hev
      split at hev
      · exfalso
        have : s.base.fstep.2 ≠ .doneReturned := by
          unfold St.fstep
          cases s.base.f <;> simp only <;> (try split) <;> (try split) <;> intro hh <;> cases hh
        exact this hev
      · cases hev
    | call t c => simp only [DSt.act] at hev; cases hev
    | astep t =>
      simp only [DSt.act] at hev
      exfalso
      have : (s.base.astep t).2 ≠ .doneReturned := by
        unfold St.astep
        cases s.base.ts[t]? with
        | none => intro hh; cases hh
        | some pc => cases pc <;> simp only <;> (try split) <;> intro hh <;> cases hh
      exact this hev
  | add k =>
    simp only [DSt.act] at hev
    unfold DSt.startAdd at hev
    split at hev <;> cases hev
  | done =>
    simp only [DSt.act] at hev ⊢
    unfold DSt.startDone at hev ⊢
    split
    · rename_i hc
      rw [if_pos hc] at hev
      exact advance_off s s.att hev
    · rename_i hc; rw [if_neg hc] at hev; cases hev
  | dstep =>
    simp only [DSt.act] at hev ⊢
    unfold DSt.dstep at hev ⊢
    split
    · rename_i hd; rw [hd] at hev; cases hev
    · rename_i k rest hd
      rw [hd] at hev
      simp only at hev
      split
      · rename_i hw; rw [if_pos hw] at hev; exact advance_off _ rest hev
      · rename_i hw; rw [if_neg hw] at hev; cases hev
    · rename_i k rest hd
      rw [hd] at hev ⊢
      simp only at hev
      split
      · rename_i hw; rw [if_pos hw] at hev; exact advance_off _ rest hev
      · rename_i hw; rw [if_neg hw] at hev; cases hev
    · rename_i hd
      rw [hd] at hev ⊢
      simp only at hev
      split
      · rename_i k hfb
        rw [hfb] at hev
        simp only at hev
        exact nextPull_off _ hev
      · rename_i hfb
        exfalso
        split at hev
        · rename_i k hk; exact hfb k hk
        · cases hev
    · rename_i k hd; rw [hd] at hev; simp only at hev; split at hev <;> cases hev
    · rename_i k p hd; rw [hd] at hev; simp only at hev; split at hev <;> cases hev
    · rename_i k hd; rw [hd] at hev; cases hev
    · rename_i k sn hd; rw [hd] at hev; simp only at hev; split at hev <;> cases hev
    · rename_i k hd; rw [hd] at hev; simp only at hev; split at hev <;> cases hev
    · rename_i k g hd; rw [hd] at hev; simp only at hev; split at hev <;> cases hev

/-- **C19 (after Done returns)**: take any history, let `Done` return at some action of it, and continue with any
further actions of any goroutine: every waker that was attached when that `Done` returned is -- until `AddWaker`
attaches that very waker again -- in every later state in neither list of the sleeper, not being pushed by anyone, not
in the fetcher's hands, and its pointer does not name the sleeper (it is nil or "asserted": `Assert` enqueues nothing,
`AddWaker` finds it free) -/
theorem after_done_no_waker_is_queued (n nw : Nat) (before : List DAct) (a : DAct) (after : List DAct)
    (hev : ((drun n nw before).act a).2 = .doneReturned) (k : Nat) (hk : k ∈ (drun n nw before).att)
    (hna : ∀ b ∈ after, ∀ j, b = .add j → j ≠ k) :
    let s := drun n nw (before ++ a :: after)
    s.base.ws k ≠ .slp ∧ k ∉ s.base.shared ∧ k ∉ s.base.local_ ∧ (∀ p ∈ s.base.ts, inflight k p = 0) ∧ s.base.f ≠ .f1 k := by
  intro s
  have h1 := done_returns_all_detached _ a (dreachable_inv n nw before) hev k hk
  have hoff := doneReturned_off _ a hev
  have e : s = after.foldl (fun s a => (s.act a).1) ((drun n nw before).act a).1 := by
    show drun n nw (before ++ a :: after) = _
    unfold drun
    rw [List.foldl_append, List.foldl_cons]
  have h2 : k ∈ s.gone := by
    rw [e]; exact run_gone_keep after _ k h1 (by rw [hoff]; intro hh; cases hh) hna
  exact detached_waker_never_queued n nw (before ++ a :: after) k h2

theorem loc_of_not_gone (s : DSt) (k : Nat) (hk : k ∉ s.gone) : loc (ghost s) k = loc s.base k := by
  have e : loc (ghost s) k = loc (withExtra s.base (s.gone.map APC.e1)) k := rfl
  rw [e, loc_ghost]
  have : s.gone.count k = 0 := List.count_eq_zero.mpr hk
  unfold loc
  omega

/-- **C19 (a waker can be attached again)**: when `AddWaker` on a detached waker returns, the waker is no longer
detached and the location invariant of `Props/C19.lean` holds for it without any ghost: its pointer names the sleeper
and it is nowhere, or it is asserted (or asserted and cleared) and in exactly one real place.  With `dreachable_inv`
the whole invariant holds again with this waker in it, so everything proved about Fetch / Assert / Clear (no lost
wake-up, one notification per assertion, ...) applies to it as to a waker that was never detached. -/
theorem addWaker_reattaches (s : DSt) (h : DInv s) (hev : s.dstep.2 = .addReturned) :
    ∃ k, (adding s.d = some k ∨ added s.d = some k) ∧ k ∉ s.dstep.1.gone ∧
      (s.dstep.1.base.ws k = .slp → loc s.dstep.1.base k = 0) ∧ (s.dstep.1.base.ws k ≠ .slp → loc s.dstep.1.base k = 1) := by
  have hinv := dstep_inv s h
  have fin : ∀ k, k ∉ s.dstep.1.gone →
      (s.dstep.1.base.ws k = .slp → loc s.dstep.1.base k = 0) ∧ (s.dstep.1.base.ws k ≠ .slp → loc s.dstep.1.base k = 1) := by
    intro k hk
    have hj := hinv.inv.1 k
    rw [loc_of_not_gone _ k hk] at hj
    exact hj
  cases hd : s.d with
  | off => unfold DSt.dstep at hev; rw [hd] at hev; cases hev
  | d1 k rest =>
    exfalso
    unfold DSt.dstep at hev; rw [hd] at hev; simp only at hev
    split at hev
    · unfold DSt.advance at hev
      cases rest with
      | nil => simp only at hev; unfold DSt.nextPull DSt.finish at hev; simp only at hev; split at hev <;> cases hev
      | cons x r => cases hev
    · cases hev
  | d2 k rest =>
    exfalso
    unfold DSt.dstep at hev; rw [hd] at hev; simp only at hev
    split at hev
    · unfold DSt.advance at hev
      cases rest with
      | nil => simp only at hev; unfold DSt.nextPull DSt.finish at hev; simp only at hev; split at hev <;> cases hev
      | cons x r => cases hev
    · cases hev
  | pull =>
    exfalso
    unfold DSt.dstep at hev; rw [hd] at hev; simp only at hev
    split at hev
    · unfold DSt.nextPull DSt.finish at hev; simp only at hev; split at hev <;> cases hev
    · cases hev
  | w1 k =>
    exfalso
    unfold DSt.dstep at hev; rw [hd] at hev; simp only at hev
    split at hev <;> cases hev
  | w2 k p =>
    refine ⟨k, Or.inl rfl, ?_⟩
    have hk : k ∈ s.gone := h.addK k (by rw [hd]; rfl)
    obtain ⟨_, hc1, _⟩ := adding_facts s h k hk
    have hng : k ∉ s.dstep.1.gone := by
      unfold DSt.dstep at hev ⊢; rw [hd] at hev ⊢; simp only at hev ⊢
      split
      · intro hm
        have := List.count_pos_iff.mpr hm
        have e : (s.gone.erase k).count k = s.gone.count k - 1 := count_erase_same _ _
        simp only at this
        omega
      · rename_i hne; rw [if_neg hne] at hev; cases hev
    exact ⟨hng, fin k hng⟩
  | we1 k =>
    exfalso
    unfold DSt.dstep at hev; rw [hd] at hev; cases hev
  | we2 k sn =>
    exfalso
    unfold DSt.dstep at hev; rw [hd] at hev; simp only at hev
    split at hev <;> cases hev
  | we3 k =>
    refine ⟨k, Or.inr rfl, ?_⟩
    have hkn : k ∉ s.gone := h.addedK k (by rw [hd]; rfl)
    have hng : k ∉ s.dstep.1.gone := by
      unfold DSt.dstep; rw [hd]; simp only
      split <;> exact hkn
    exact ⟨hng, fin k hng⟩
  | we4 k g =>
    exfalso
    unfold DSt.dstep at hev; rw [hd] at hev; simp only at hev
    split at hev <;> cases hev

/-- non-vacuity of `addWaker_reattaches`, both ways: an idle waker is detached by Done and attached again by the
compare-and-swap; the asserted waker of the straggler run is found asserted by AddWaker and pushed -/
example :
    let s := drun 0 1 [.done, .dstep, .dstep, .add 0, .dstep]
    s.dstep.2 = .addReturned ∧ s.gone = [0] ∧ s.dstep.1.gone = [] ∧ s.dstep.1.base.ws 0 = .slp := by
  decide

example :
    let s := drun 1 1 (stragglerRun ++ [.base (.astep 0), .add 0, .dstep, .dstep, .dstep])
    s.dstep.2 = .addReturned ∧ s.dstep.1.gone = [] ∧ s.dstep.1.base.shared = [0] ∧ s.dstep.1.base.ws 0 = .asserted := by
  decide

/-! ## tie to the source -/

def expect_sleep_Done : List String :=
  ["assign[v2]", "for", "cond[(!=) v2 nil]", "assign[v3]", "for", "call[atomic LoadPointer(& v2 s)]", "assign[v4]",
   "if[(!=) v4 usleeper v0]", "call[usleeper(v0)]", "then", "assign[v2 allWakersNext]", "assign[v1]", "break",
   "fi", "if[atomic CompareAndSwapPointer & v2 s v4 nil]", "call[atomic CompareAndSwapPointer(& v2 s,v4,nil)]",
   "then", "break", "fi", "rof", "assign[v2]", "rof", "for", "cond[(!=) v1 nil]", "call[v0 nextWaker(true)]",
   "assign[v5]", "assign[v6]", "for", "assign[v2]", "cond[(!=) v2 nil]", "if[(==) v5 v2]", "then", "assign[v6]",
   "break", "fi", "assign[v6]", "assign[v2]", "rof", "rof", "assign[v0 allWakers]"]
def expect_sleep_AddWaker : List String :=
  ["assign[v1 allWakersNext]", "assign[v0 allWakers]", "assign[v1 id]", "for", "call[atomic LoadPointer(& v1 s)]",
   "call[Sleeper(atomic LoadPointer & v1 s)]", "assign[v3]", "if[(==) v3 & assertedSleeper]", "then",
   "call[v0 enqueueAssertedWaker(v1)]", "ret[]", "fi",
   "if[atomic CompareAndSwapPointer & v1 s usleeper v3 usleeper v0]", "call[usleeper(v3)]", "call[usleeper(v0)]",
   "call[atomic CompareAndSwapPointer(& v1 s,usleeper v3,usleeper v0)]", "then", "ret[]", "fi", "rof"]

/-- the control / atomic-operation skeleton of `Sleeper.Done` and `Sleeper.AddWaker` in the current source is the one
the `Done` layer of the model mirrors (regenerated on every run; the schedule-point hooks are not part of it) -/
theorem done_skeleton_pinned :
    Gen.Shapes.sleep_Done = expect_sleep_Done ∧ Gen.Shapes.sleep_AddWaker = expect_sleep_AddWaker := by decide

end Props.C19
