import NetProto.Props.TcpLemmas
import NetProto.Generated.Shapes
/-! # C01 — TCP delivers an exact, ordered, duplicate-free byte stream

Model: `Model/Tcp.lean` (receiver: `acceptable`, `trimToNew`, `consumeSegment`, the sequence-ordered pending list,
`drainPending`, `appRead`; sender: the write list, `splitAt`, `ackLoop`), tied to the real stack by the trace
correspondence of the TCP world.

Receiving direction: fully proved for every history (`reads_are_a_prefix_of_the_peer_stream`): any interleaving of
peer segments that are pieces of one stream -- dropped (never sent), duplicated, reordered, delayed, stale,
overlapping -- with reads, writes, timeouts and shutdown; any initial sequence number; streams below 2^31 bytes
(the 32-bit sequence space cannot tell older duplicates apart; the stack has no PAWS check).
Sending direction: the per-step facts (split, partial-ACK trim, emitted prefix); the history invariant is not yet
a theorem (`_partial`).  The oracle checks both directions on every trace. -/
namespace Props.C01
open Model.Tcp Props.TcpLemmas


/-! ## receiver: what a segment contributes -/

/-- the part of a data segment that is new (segments no longer than 2^31 bytes): it starts exactly at `rcvNxt`
and consists of the segment's bytes from there on; at least one byte -/
theorem trimToNew_data (r : Rcv) (seq : Nat) (data : List Nat) (sq : Nat) (d : List Nat)
    (hl : data.length ≠ 0) (hmax : data.length ≤ 2147483648) (hseq : seq < 4294967296) (hnxt : r.rcvNxt < 4294967296)
    (h : trimToNew r seq data = some (sq, d)) :
    sq = r.rcvNxt ∧ d = data.drop (sizeS seq r.rcvNxt) ∧ sizeS seq r.rcvNxt < data.length := by
  unfold trimToNew at h
  have hpos : data.length > 0 := Nat.pos_of_ne_zero hl
  simp only [hpos, ↓reduceIte] at h
  split at h
  · cases h
  · rename_i hw
    have hw' : inWindow r.rcvNxt seq data.length = true := by simpa using hw
    rw [inWindow_iff] at hw'
    split at h
    · cases h
      exact ⟨rfl, rfl, by omega⟩
    · rename_i hnlt
      cases h
      have hn : ¬ (1 ≤ sizeS seq r.rcvNxt ∧ sizeS seq r.rcvNxt ≤ 2147483648) := by
        intro hc; exact hnlt ((lt_iff _ _).mpr hc)
      have hz : sizeS seq r.rcvNxt = 0 := by omega
      refine ⟨?_, by rw [hz]; rfl, by omega⟩
      unfold sizeS M at hz
      omega

/-- an empty segment is "consumed" only exactly at `rcvNxt` -/
theorem trimToNew_empty (r : Rcv) (seq sq : Nat) (d : List Nat) (h : trimToNew r seq [] = some (sq, d)) :
    sq = r.rcvNxt ∧ d = [] := by
  unfold trimToNew at h
  simp only [List.length_nil, Nat.lt_irrefl, ↓reduceIte] at h
  split at h
  · cases h
  · rename_i hne; cases h; simp at hne; exact ⟨hne, rfl⟩

/-- a segment carries bytes `[off, off + data.length)` of the peer's stream `P`, whose first byte has sequence
number `base` -/
def OnStream (P : List Nat) (base seq : Nat) (data : List Nat) (off : Nat) : Prop :=
  seq = (base + off) % 4294967296 ∧ data = (P.drop off).take data.length ∧ off + data.length ≤ P.length

/-- **C01 (receiver step)**: if the receiver has taken exactly the first `n` bytes of the peer's stream and an
on-stream segment (any offset within 2^31 of `n`: old, overlapping, or exactly next) is consumed, the receive list
grows by exactly the stream's next bytes -- those of the segment beyond `n` -- and `rcvNxt` follows -/
theorem consume_delivers_next_bytes (P : List Nat) (base : Nat) (e : Ep) (fl seq : Nat) (data : List Nat) (n off : Nat)
    (_hbase : base < 4294967296)
    (hn : e.rcv.rcvNxt = (base + n) % 4294967296) (hs : OnStream P base seq data off)
    (hl : data.length ≠ 0) (hmax : data.length ≤ 2147483648) (hnear : off < n + 2147483648 ∧ n < off + 2147483648)
    (hfin : has fl fFin = false) (hc : (consumeSegment e fl seq data).2.1 = true) :
    off ≤ n ∧ n < off + data.length ∧
    (consumeSegment e fl seq data).1.rcvList = e.rcvList ++ [(P.drop n).take (off + data.length - n)] ∧
    (consumeSegment e fl seq data).1.rcv.rcvNxt = (base + (off + data.length)) % 4294967296 := by
  unfold consumeSegment at hc ⊢
  split at hc
  · simp at hc
  · rename_i sq d htrim
    have hseq : seq < 4294967296 := by rw [hs.1]; omega
    have hnx : e.rcv.rcvNxt < 4294967296 := by rw [hn]; omega
    have t := trimToNew_data e.rcv seq data sq d hl hmax hseq hnx htrim

    have hk : sizeS seq e.rcv.rcvNxt = n - off ∧ off ≤ n := by
      have := t.2.2
      rw [hs.1, hn] at this ⊢
      unfold sizeS M at this ⊢
      omega
    have hlen : d.length = off + data.length - n := by
      rw [t.2.1, List.length_drop, hk.1]; omega
    have hd : d = (P.drop n).take (off + data.length - n) := by
      have h2 := hs.2.1
      generalize hL : data.length = L at h2 hlen hk t ⊢
      rw [t.2.1, hk.1, h2, List.drop_take, List.drop_drop]
      have e1 : off + (n - off) = n := by omega
      have e2 : L - (n - off) = off + L - n := by omega
      rw [e1, e2]
    have hdpos : d.length > 0 := by rw [hlen]; have := t.2.2; rw [hk.1] at this; omega
    simp only [hfin, Bool.false_eq_true, ↓reduceIte]
    refine ⟨hk.2, by have := t.2.2; rw [hk.1] at this; omega, ?_, ?_⟩
    · simp only [advanceRcv, deliver, hdpos, ↓reduceIte]
      rw [hd]
    · simp only [advanceRcv, deliver]
      simp only [addS, M]; rw [t.1, hn, hlen]; omega

/-! ## receiver: the stream invariant over whole histories -/

/-- the receiver has taken exactly the first `n` bytes of the peer's stream `P`: `read` are the bytes the
application has read so far, the rest waits in the receive list; parked segments are pieces of `P` -/
structure RInv (P : List Nat) (base : Nat) (read : List Nat) (e : Ep) (n : Nat) : Prop where
  nxt : e.rcv.closed = false → e.rcv.rcvNxt = (base + n) % 4294967296
  got : read ++ e.rcvList.flatten = P.take n
  le : n ≤ P.length
  pend : ∀ s ∈ e.rcv.pending, ∃ off, OnStream P base s.seq s.data off

theorem rinv_of_same {P base read e e' n} (h : RInv P base read e n) (s : RcvSame e e') : RInv P base read e' n :=
  ⟨by rw [s.2.2.1, s.2.1]; exact h.nxt, by rw [s.1]; exact h.got, h.le, by rw [s.2.2.2.1]; exact h.pend⟩

/-- consuming an on-stream segment keeps the invariant; the position only moves forward -/
theorem consumeSegment_inv (P : List Nat) (base : Nat) (read : List Nat) (e : Ep) (n : Nat) (fl seq : Nat) (data : List Nat) (off : Nat)
    (hP : P.length < 2147483648) (h : RInv P base read e n) (hc : e.rcv.closed = false)
    (hs : OnStream P base seq data off) :
    ∃ n', n ≤ n' ∧ RInv P base read (consumeSegment e fl seq data).1 n' := by
  have hn := h.nxt hc
  have hseq : seq < 4294967296 := by rw [hs.1]; omega
  have hnx : e.rcv.rcvNxt < 4294967296 := by rw [hn]; omega
  have hcl : ∀ d q, (advanceRcv (deliver e d) q).rcv.closed = false := by
    intro d q; simp only [advanceRcv, deliver]; split <;> exact hc
  -- the state after delivery and advance, before a possible FIN
  have core : ∀ sq d, trimToNew e.rcv seq data = some (sq, d) →
      ∃ n', n ≤ n' ∧ RInv P base read (advanceRcv (deliver e d) (addS sq d.length)) n' ∧
        (advanceRcv (deliver e d) (addS sq d.length)).rcv.closed = false := by
    intro sq d htrim
    by_cases hl : data.length = 0
    · have hnil : data = [] := List.eq_nil_of_length_eq_zero hl
      rw [hnil] at htrim
      have t := trimToNew_empty e.rcv seq sq d htrim
      refine ⟨n, Nat.le_refl _, ⟨?_, ?_, h.le, ?_⟩, hcl _ _⟩
      · intro _
        simp only [advanceRcv, deliver, t.2, List.length_nil, Nat.lt_irrefl, ↓reduceIte, addS, M, t.1, hn]
        omega
      · simp only [advanceRcv, deliver, t.2, List.length_nil, Nat.lt_irrefl, ↓reduceIte]; exact h.got
      · simp only [advanceRcv, deliver, t.2, List.length_nil, Nat.lt_irrefl, ↓reduceIte]; exact h.pend
    · have hmax : data.length ≤ 2147483648 := by have := hs.2.2; omega
      have t := trimToNew_data e.rcv seq data sq d hl hmax hseq hnx htrim
      have hk : sizeS seq e.rcv.rcvNxt = n - off ∧ off ≤ n := by
        have := t.2.2
        have := hs.2.2
        have := h.le
        rw [hs.1, hn] at *
        unfold sizeS M at *
        omega
      have hlen : d.length = off + data.length - n := by
        rw [t.2.1, List.length_drop, hk.1]; omega
      have hd : d = (P.drop n).take (off + data.length - n) := by
        have h2 := hs.2.1
        generalize hL : data.length = L at h2 hlen hk t ⊢
        rw [t.2.1, hk.1, h2, List.drop_take, List.drop_drop]
        have e1 : off + (n - off) = n := by omega
        have e2 : L - (n - off) = off + L - n := by omega
        rw [e1, e2]
      have hdpos : d.length > 0 := by rw [hlen]; have := t.2.2; rw [hk.1] at this; omega
      refine ⟨off + data.length, by omega, ⟨?_, ?_, hs.2.2, ?_⟩, hcl _ _⟩
      · intro _
        simp only [advanceRcv, deliver, addS, M]; rw [t.1, hn, hlen]; omega
      · simp only [advanceRcv, deliver, hdpos, ↓reduceIte, List.flatten_append, List.flatten_cons, List.flatten_nil, List.append_nil]
        rw [← List.append_assoc, h.got, hd]
        have : off + data.length = n + (off + data.length - n) := by omega
        rw [this, List.take_add]
        congr 2 <;> omega
      · simp only [advanceRcv, deliver]
        split <;> exact h.pend
  unfold consumeSegment
  split
  · exact ⟨n, Nat.le_refl _, h⟩
  · rename_i sq d htrim
    obtain ⟨n', hle, hinv, _⟩ := core sq d htrim
    simp only
    split
    · -- FIN: one more sequence number, the receive side closes, parked segments are dropped
      refine ⟨n', hle, ⟨?_, ?_, hinv.le, ?_⟩⟩
      · intro hcc; simp [consumeFin] at hcc
      · simp only [consumeFin]
        rw [(sendAck_rcvSame _).1]
        exact hinv.got
      · intro s hs'; simp [consumeFin] at hs'
    · exact ⟨n', hle, hinv⟩

theorem insertPending_mem (x : PSeg) (l : List PSeg) (y : PSeg) : y ∈ insertPending x l → y = x ∨ y ∈ l := by
  induction l with
  | nil => intro h; simp [insertPending] at h; exact Or.inl h
  | cons z t ih =>
    intro h
    simp only [insertPending] at h
    split at h
    · simp only [List.mem_cons] at h ⊢
      rcases h with h | h | h
      · exact Or.inl h
      · exact Or.inr (Or.inl h)
      · exact Or.inr (Or.inr h)
    · simp only [List.mem_cons] at h ⊢
      rcases h with h | h
      · exact Or.inr (Or.inl h)
      · rcases ih h with h | h
        · exact Or.inl h
        · exact Or.inr (Or.inr h)

theorem popPending_inv {P base read e n} (s : PSeg) (rest : List PSeg) (h : RInv P base read e n) (hp : e.rcv.pending = s :: rest) :
    RInv P base read (e.popPending s rest) n :=
  ⟨h.nxt, h.got, h.le, fun x hx => h.pend x (by rw [hp]; exact List.mem_cons_of_mem _ hx)⟩

theorem drainPending_inv (P : List Nat) (base : Nat) (read : List Nat) (hP : P.length < 2147483648)
    (fuel : Nat) (e : Ep) (n : Nat) (out : List OutSeg) (h : RInv P base read e n) :
    ∃ n', n ≤ n' ∧ RInv P base read (drainPending fuel e out).1 n' := by
  induction fuel generalizing e n out with
  | zero => exact ⟨n, Nat.le_refl _, h⟩
  | succ k ih =>
    unfold drainPending
    split
    · exact ⟨n, Nat.le_refl _, h⟩
    · rename_i hc
      have hc' : e.rcv.closed = false := by simpa using hc
      split
      · exact ⟨n, Nat.le_refl _, h⟩
      · rename_i s rest hp
        split
        · exact ih _ _ _ (popPending_inv s rest h hp)
        · simp only
          split
          · exact ⟨n, Nat.le_refl _, h⟩
          · obtain ⟨off, hon⟩ := h.pend s (by rw [hp]; exact List.mem_cons_self)
            obtain ⟨n1, hle1, h1⟩ := consumeSegment_inv P base read e n s.flags s.seq s.data off hP h hc' hon
            have h2 : RInv P base read (if (consumeSegment e s.flags s.seq s.data).1.rcv.closed then (consumeSegment e s.flags s.seq s.data).1
                else (consumeSegment e s.flags s.seq s.data).1.popPending s rest) n1 := by
              split
              · exact h1
              · exact ⟨h1.nxt, h1.got, h1.le, fun x hx => by
                  -- what is left of the pending list was parked before
                  exact h.pend x (by rw [hp]; exact List.mem_cons_of_mem _ hx)⟩
            obtain ⟨n2, hle2, h3⟩ := ih _ n1 (out ++ (consumeSegment e s.flags s.seq s.data).2.2) h2
            exact ⟨n2, Nat.le_trans hle1 hle2, h3⟩

theorem parkRcv_frame (r : Rcv) (seg : InSeg) : (parkRcv r seg).rcvNxt = r.rcvNxt ∧ (parkRcv r seg).closed = r.closed ∧
    ∀ x ∈ (parkRcv r seg).pending, x = ⟨seg.seq, seg.flags, seg.data⟩ ∨ x ∈ r.pending := by
  unfold parkRcv
  simp only
  split
  · exact ⟨rfl, rfl, fun x hx => insertPending_mem _ _ _ hx⟩
  · exact ⟨rfl, rfl, fun x hx => Or.inr hx⟩

/-- **C01 (receiver)**: `receiver.handleRcvdSegment` on any segment that is a piece of the peer's stream -- in
order, old, duplicated, overlapping or ahead -- keeps the invariant -/
theorem rcvHandleSegment_inv (P : List Nat) (base : Nat) (read : List Nat) (hP : P.length < 2147483648)
    (e : Ep) (n : Nat) (seg : InSeg) (off : Nat) (h : RInv P base read e n) (hon : OnStream P base seg.seq seg.data off) :
    ∃ n', n ≤ n' ∧ RInv P base read (rcvHandleSegment e seg).1 n' := by
  unfold rcvHandleSegment
  split
  · exact ⟨n, Nat.le_refl _, h⟩
  · rename_i hc
    have hc' : e.rcv.closed = false := by simpa using hc
    split
    · exact ⟨n, Nat.le_refl _, rinv_of_same h (sendAck_rcvSame e)⟩
    · simp only
      split
      · split
        · -- parked: the pending list gains this very segment
          refine ⟨n, Nat.le_refl _, ?_⟩
          unfold parkSegment
          simp only
          apply rinv_of_same _ (sendAck_rcvSame _)
          have hpr := parkRcv_frame e.rcv seg
          refine ⟨by simp only; rw [hpr.1, hpr.2.1]; exact h.nxt, h.got, h.le, ?_⟩
          intro x hx
          rcases hpr.2.2 x hx with hx | hx
          · subst hx; exact ⟨off, hon⟩
          · exact h.pend x hx
        · exact ⟨n, Nat.le_refl _, h⟩
      · obtain ⟨n1, hle1, h1⟩ := consumeSegment_inv P base read e n seg.flags seg.seq seg.data off hP h hc' hon
        obtain ⟨n2, hle2, h2⟩ := drainPending_inv P base read hP _ _ n1 (consumeSegment e seg.flags seg.seq seg.data).2.2 h1
        exact ⟨n2, Nat.le_trans hle1 hle2, h2⟩

theorem resendSegment_rcvSame (e : Ep) : RcvSame e (resendSegment e).1 := by
  unfold resendSegment
  split
  · exact RcvSame.refl _
  · rename_i sg _; exact sendSegment_rcvSame e sg.data sg.flags sg.seq

theorem sndPrepare_rcvSame (e : Ep) (seg : InSeg) (w : Nat) (ts : Model.Header.TCPOpts) : RcvSame e (sndPrepare e seg w ts).1 := by
  have h0 : RcvSame e (updateRecentTimestamp e ts.tsVal e.snd.maxSentAck seg.seq) := by
    unfold updateRecentTimestamp; split <;> exact ⟨rfl, rfl, rfl, rfl, rfl, rfl⟩
  have h1 : ∀ (x : Ep) (s : Snd) (k : Nat), RcvSame x { x with snd := s, sndBufUsed := k } := fun _ _ _ => ⟨rfl, rfl, rfl, rfl, rfl, rfl⟩
  have h2 : ∀ (x : Ep) (s : Snd), RcvSame x { x with snd := s } := fun _ _ => ⟨rfl, rfl, rfl, rfl, rfl, rfl⟩
  unfold sndPrepare
  simp only
  split
  · refine h0.trans (RcvSame.trans ?_ (resendSegment_rcvSame _))
    split
    · exact h1 _ _ _
    · exact h2 _ _
  · refine h0.trans ?_
    split
    · exact h1 _ _ _
    · exact h2 _ _

theorem sndHandleSegment_rcvSame (e : Ep) (seg : InSeg) (w : Nat) (ts : Model.Header.TCPOpts) :
    RcvSame e (sndHandleSegment e seg w ts).1 :=
  (sndPrepare_rcvSame e seg w ts).trans (sendData_rcvSame _)

theorem handleCore_inv (P : List Nat) (base : Nat) (read : List Nat) (hP : P.length < 2147483648)
    (e : Ep) (n : Nat) (seg : InSeg) (off : Nat) (h : RInv P base read e n) (hon : OnStream P base seg.seq seg.data off) :
    ∃ n', n ≤ n' ∧ RInv P base read (handleCore e seg).1 n' := by
  unfold handleCore
  split
  · exact ⟨n, Nat.le_refl _, h⟩
  · split
    · split
      · exact ⟨n, Nat.le_refl _, h⟩
      · obtain ⟨n', hle, h'⟩ := rcvHandleSegment_inv P base read hP e n seg off h hon
        exact ⟨n', hle, rinv_of_same h' (sndHandleSegment_rcvSame _ _ _ _)⟩
    · exact ⟨n, Nat.le_refl _, h⟩

/-- every segment of the list is a piece of the peer's stream -/
def AllOnStream (P : List Nat) (base : Nat) (l : List InSeg) : Prop := ∀ s ∈ l, ∃ off, OnStream P base s.seq s.data off

theorem handleBatch_inv (P : List Nat) (base : Nat) (read : List Nat) (hP : P.length < 2147483648)
    (l : List InSeg) (e : Ep) (n : Nat) (h : RInv P base read e n) (hon : AllOnStream P base l) :
    ∃ n', n ≤ n' ∧ RInv P base read (handleBatch e l).1 n' := by
  induction l generalizing e n with
  | nil => exact ⟨n, Nat.le_refl _, h⟩
  | cons s rest ih =>
    obtain ⟨off, ho⟩ := hon s List.mem_cons_self
    obtain ⟨n1, hle1, h1⟩ := handleCore_inv P base read hP e n s off h ho
    simp only [handleBatch]
    split
    · exact ⟨n1, hle1, h1⟩
    · obtain ⟨n2, hle2, h2⟩ := ih _ n1 h1 (fun x hx => hon x (List.mem_cons_of_mem _ hx))
      exact ⟨n2, Nat.le_trans hle1 hle2, h2⟩

theorem finishBatch_rcvSame (e : Ep) (out : List OutSeg) (r : Bool) : RcvSame e (finishBatch e out r).1 := by
  unfold finishBatch
  split
  · exact RcvSame.refl _
  · split
    · exact (sendAck_rcvSame e).trans (closeIfDone_rcvSame _)
    · exact closeIfDone_rcvSame _

theorem handleSegmentsLoop_inv (P : List Nat) (base : Nat) (read : List Nat) (hP : P.length < 2147483648)
    (fuel : Nat) (e : Ep) (l : List InSeg) (n : Nat) (h : RInv P base read e n) (hon : AllOnStream P base l) :
    ∃ n', n ≤ n' ∧ RInv P base read (handleSegmentsLoop fuel e l).1 n' := by
  induction fuel generalizing e l n with
  | zero => exact ⟨n, Nat.le_refl _, h⟩
  | succ k ih =>
    unfold handleSegmentsLoop
    split
    · exact ⟨n, Nat.le_refl _, h⟩
    · obtain ⟨n1, hle1, h1⟩ := handleBatch_inv P base read hP (l.take maxSegmentsPerWake) e n h
        (fun x hx => hon x (List.mem_of_mem_take hx))
      have h1' := rinv_of_same h1 (finishBatch_rcvSame (handleBatch e (l.take maxSegmentsPerWake)).1
        (handleBatch e (l.take maxSegmentsPerWake)).2.1 (handleBatch e (l.take maxSegmentsPerWake)).2.2)
      simp only
      split
      · exact ⟨n1, hle1, h1'⟩
      · obtain ⟨n2, hle2, h2⟩ := ih _ (l.drop maxSegmentsPerWake) n1 h1' (fun x hx => hon x (List.mem_of_mem_drop hx))
        exact ⟨n2, Nat.le_trans hle1 hle2, h2⟩

theorem handleSegments_inv (P : List Nat) (base : Nat) (read : List Nat) (hP : P.length < 2147483648)
    (e : Ep) (l : List InSeg) (n : Nat) (h : RInv P base read e n) (hon : AllOnStream P base l) :
    ∃ n', n ≤ n' ∧ RInv P base read (handleSegments e l).1 n' :=
  handleSegmentsLoop_inv P base read hP _ e l n h hon

/-! ## the byte stream the application reads -/

/-- what can happen to a connected endpoint -/
inductive Ev
  | seg (s : InSeg)
  | read
  | write (d : List Nat)
  | timer
  | shutdownWrite

/-- one event; the second component is what a `Read` returned -/
def evStep (e : Ep) : Ev → Ep × List Nat
  | .seg s => ((handleSegment e s).1, [])
  | .read => ((appRead e).1, match (appRead e).2.1 with | .ok v => v | .error _ => [])
  | .write d => ((appWrite e d).1, [])
  | .timer => ((timerEvent e).1, [])
  | .shutdownWrite => ((appShutdownWrite e).1, [])

/-- a history: final state and everything the application has read, in order -/
def runEvs (e : Ep) (evs : List Ev) : Ep × List Nat :=
  evs.foldl (fun acc ev => ((evStep acc.1 ev).1, acc.2 ++ (evStep acc.1 ev).2)) (e, [])

theorem appRead_cases (e : Ep) :
    ((∃ m, (appRead e).2.1 = .error m) ∧ (appRead e).1 = e) ∨
    (∃ v rest, e.rcvList = v :: rest ∧ (appRead e).2.1 = .ok v ∧ RcvSame (popRead e v rest) (appRead e).1) := by
  unfold appRead
  split
  · exact Or.inl ⟨⟨_, rfl⟩, rfl⟩
  · split
    · exact Or.inl ⟨⟨_, rfl⟩, rfl⟩
    · split
      · exact Or.inl ⟨⟨_, rfl⟩, rfl⟩
      · rename_i v rest hl
        right
        refine ⟨v, rest, hl, ?_⟩
        simp only
        split
        · split
          · exact ⟨rfl, RcvSame.refl _⟩
          · exact ⟨rfl, sendAck_rcvSame _⟩
        · exact ⟨rfl, RcvSame.refl _⟩

theorem appRead_inv (P : List Nat) (base : Nat) (read : List Nat) (e : Ep) (n : Nat) (h : RInv P base read e n) :
    RInv P base (read ++ (match (appRead e).2.1 with | .ok v => v | .error _ => [])) (appRead e).1 n := by
  rcases appRead_cases e with ⟨⟨m, hm⟩, he⟩ | ⟨v, rest, hl, hv, hs⟩
  · rw [hm, he]; simpa using h
  · rw [hv]
    have hp : RInv P base (read ++ v) (popRead e v rest) n :=
      ⟨h.nxt, by have := h.got; rw [hl] at this; simpa [popRead, List.append_assoc] using this, h.le, h.pend⟩
    exact rinv_of_same hp hs

theorem appWrite_rcvSame (e : Ep) (d : List Nat) : RcvSame e (appWrite e d).1 := by
  unfold appWrite
  split; exact RcvSame.refl _
  split; exact RcvSame.refl _
  split; exact RcvSame.refl _
  split; exact RcvSame.refl _
  exact RcvSame.trans ⟨rfl, rfl, rfl, rfl, rfl, rfl⟩ (sendData_rcvSame (queueWrite e _))

theorem timerEvent_rcvSame (e : Ep) : RcvSame e (timerEvent e).1 := by
  unfold timerEvent
  split; exact RcvSame.refl _
  unfold retransmitTimerExpired
  split; exact RcvSame.refl _
  exact RcvSame.trans ⟨rfl, rfl, rfl, rfl, rfl, rfl⟩ (sendData_rcvSame _)

theorem appShutdownWrite_rcvSame (e : Ep) : RcvSame e (appShutdownWrite e).1 := by
  unfold appShutdownWrite
  split; exact RcvSame.refl _
  refine RcvSame.trans ?_ (closeIfDone_rcvSame _)
  exact RcvSame.trans (RcvSame.trans ⟨rfl, rfl, rfl, rfl, rfl, rfl⟩ (sendData_rcvSame (queueFin e))) ⟨rfl, rfl, rfl, rfl, rfl, rfl⟩

/-- the segments of a history are pieces of the peer's stream -/
def EvsOnStream (P : List Nat) (base : Nat) (evs : List Ev) : Prop :=
  ∀ s, Ev.seg s ∈ evs → ∃ off, OnStream P base s.seq s.data off

theorem evStep_inv (P : List Nat) (base : Nat) (hP : P.length < 2147483648) (read : List Nat) (e : Ep) (n : Nat) (ev : Ev)
    (h : RInv P base read e n) (hon : ∀ s, ev = .seg s → ∃ off, OnStream P base s.seq s.data off) :
    ∃ n', n ≤ n' ∧ RInv P base (read ++ (evStep e ev).2) (evStep e ev).1 n' := by
  cases ev with
  | seg s =>
    obtain ⟨off, ho⟩ := hon s rfl
    have := handleSegments_inv P base read hP e [s] n h (by intro x hx; simp at hx; subst hx; exact ⟨off, ho⟩)
    simpa [evStep, handleSegment] using this
  | read => exact ⟨n, Nat.le_refl _, appRead_inv P base read e n h⟩
  | write d => exact ⟨n, Nat.le_refl _, by simpa [evStep] using rinv_of_same h (appWrite_rcvSame e d)⟩
  | timer => exact ⟨n, Nat.le_refl _, by simpa [evStep] using rinv_of_same h (timerEvent_rcvSame e)⟩
  | shutdownWrite => exact ⟨n, Nat.le_refl _, by simpa [evStep] using rinv_of_same h (appShutdownWrite_rcvSame e)⟩

/-- **C01 (receiving direction)**: whatever the network does to the peer's segments -- drop, duplicate, reorder,
delay, replay of stale ones, any overlap -- and however reads, writes, timeouts and shutdown interleave, the bytes
the application has read are at all times a prefix of the peer's stream: nothing lost from the middle, duplicated,
reordered or invented.  (Streams below 2^31 bytes, any initial sequence number: `base` is arbitrary, so the
stream may cross 2^31 and 2^32.) -/
theorem reads_are_a_prefix_of_the_peer_stream (P : List Nat) (base : Nat) (hP : P.length < 2147483648)
    (e : Ep) (n0 : Nat) (h0 : RInv P base [] e n0) (evs : List Ev) (hon : EvsOnStream P base evs) :
    (runEvs e evs).2 <+: P := by
  have gen : ∀ (evs : List Ev) (acc : Ep × List Nat) (n : Nat), RInv P base acc.2 acc.1 n → EvsOnStream P base evs →
      ∃ n', RInv P base (evs.foldl (fun acc ev => ((evStep acc.1 ev).1, acc.2 ++ (evStep acc.1 ev).2)) acc).2
        (evs.foldl (fun acc ev => ((evStep acc.1 ev).1, acc.2 ++ (evStep acc.1 ev).2)) acc).1 n' := by
    intro evs
    induction evs with
    | nil => intro acc n h _; exact ⟨n, h⟩
    | cons ev rest ih =>
      intro acc n h ho
      simp only [List.foldl_cons]
      obtain ⟨n1, _, h1⟩ := evStep_inv P base hP acc.2 acc.1 n ev h (fun s hs => ho s (by rw [hs]; exact List.mem_cons_self))
      exact ih _ n1 h1 (fun s hs => ho s (List.mem_cons_of_mem _ hs))
  obtain ⟨n', hfin⟩ := gen evs (e, []) n0 h0 hon
  unfold runEvs
  have hg := hfin.got
  refine ⟨(List.foldl (fun acc ev => ((evStep acc.1 ev).1, acc.2 ++ (evStep acc.1 ev).2)) (e, []) evs).1.rcvList.flatten ++ P.drop n', ?_⟩
  rw [← List.append_assoc, hg, List.take_append_drop]

/-- a connection fresh from the handshake satisfies the invariant at position 0, for any peer stream -/
theorem fresh_endpoint_inv (P : List Nat) (iss irs sndWnd mss : Nat) (sws : Int) (rcvWnd rws mtu rb sb : Nat) (ts : Bool) (rts : Nat) (sp : Bool) :
    RInv P (addS irs 1) [] (newEp iss irs sndWnd mss sws rcvWnd rws mtu rb sb ts rts sp) 0 :=
  ⟨fun _ => by simp only [newEp, addS, M]; omega, by simp [newEp], Nat.zero_le _, fun s hs => by simp [newEp] at hs⟩

/-! ## sender: the bytes on the write list keep their place (per-step facts)

Full statement of the sending direction: *every data segment put on the wire carries exactly the bytes the
application wrote at that stream offset*.  Proved here are the two steps that move bytes around inside the write
list -- splitting an entry at the window/MSS boundary and trimming the head after a partial acknowledgement -- and
that what `sendStep` emits is the entry's own prefix at the entry's own sequence number; the invariant over whole
histories is in preparation (`_partial`). -/

/-- splitting entry `i` (the write list is `pre ++ old :: post`): the bytes and their order are kept, the
second piece starts where the first ends -/
theorem splitAt_decomp (pre post : List WSeg) (old seg : WSeg) (a : Nat) :
    (splitAt (pre ++ old :: post) pre.length seg a).1 =
      (if seg.data.length > a then
        pre ++ { seg with data := seg.data.take a } :: { seq := addS seg.seq a, flags := seg.flags, data := seg.data.drop a, gOff := seg.gOff + a } :: post
       else pre ++ seg :: post) ∧
    (splitAt (pre ++ old :: post) pre.length seg a).2 = (if seg.data.length > a then { seg with data := seg.data.take a } else seg) := by
  unfold splitAt
  split
  · refine ⟨?_, rfl⟩
    simp only
    have h1 : (pre ++ old :: post).set pre.length { seg with data := seg.data.take a } = pre ++ { seg with data := seg.data.take a } :: post := by
      simp
    have h2 : (pre ++ old :: post).drop (pre.length + 1) = post := by
      simp
    rw [h1, h2]
    have h3 : (pre ++ { seg with data := seg.data.take a } :: post).take (pre.length + 1) = pre ++ [{ seg with data := seg.data.take a }] := by
      rw [List.take_append]
      simp [List.take_of_length_le]
    rw [h3]
    simp
  · refine ⟨?_, rfl⟩
    simp

theorem splitAt_bytes (pre post : List WSeg) (old seg : WSeg) (a : Nat) :
    (((splitAt (pre ++ old :: post) pre.length seg a).1).map (·.data)).flatten = ((pre ++ seg :: post).map (·.data)).flatten := by
  rw [(splitAt_decomp pre post old seg a).1]
  split
  · simp only [List.map_append, List.map_cons, List.flatten_append, List.flatten_cons]
    rw [← List.append_assoc (seg.data.take a), List.take_append_drop]
  · rfl

/-- a partial acknowledgement trims the head of the write list AND advances its sequence number by as much, so
every remaining byte keeps its sequence number (the repaired defect F01) -/
theorem partial_ack_keeps_positions (s : Snd) (seg : WSeg) (rest : List WSeg) (k fuel : Nat)
    (hwl : s.writeList = seg :: rest) (hk : 0 < k) (hlt : k < seg.logicalLen) :
    (ackLoop (fuel + 1) s k).writeList = { seg with data := seg.data.drop k, seq := addS seg.seq k, gOff := seg.gOff + k } :: rest := by
  unfold ackLoop
  have : (k == 0) = false := by simp; omega
  simp only [this, Bool.false_eq_true, ↓reduceIte, hwl]
  simp [hlt]

/-- the statement of the trim in the source, regenerated on every run -/
theorem trim_statements_pinned :
    Gen.Shapes.tcp_trim_ack = ["v6 := v5", "for v6 > 0", "if v8 > v6", "v1.data.TrimFront(int(v6))", "v1.sequenceNumber.UpdateForward(v6)", "v6 -= v8"] := by decide

/-- non-vacuity: an out-of-order, overlapping delivery of the stream [1..6] starting at sequence number 2^32-2 -/
example :
    let e := newEp 100 4294967293 65535 1460 (-1) 65535 0 1500 65535 65535 false 0 false
    let seg := fun (sq : Nat) (d : List Nat) => Ev.seg ⟨fAck, sq, 101, 65535, [], d⟩
    (runEvs e [seg 0 [3, 4, 5], seg 4294967294 [1, 2, 3], .read, seg 1 [4, 5, 6], .read, .read, .read]).2 = [1, 2, 3, 4, 5, 6] := by
  decide

end Props.C01
