import NetProto.Props.C01Send
import NetProto.Props.C04
import NetProto.Props.TcpReachQ
/-! # C04, sending direction, for every reachable state

`Props/C04.lean` proves that whatever `sendData` transmits lies inside the window the peer offers *now* and is no
longer than the segment-size limit.  What it leaves open is the fast retransmission, which re-sends the first
write-list entry as it stands.  Here the statement is closed for every reachable state and every transmission:

* ghost `Snd.gEdge` (never read by the model) records the rightmost window edge the peer has offered so far, as an
  unbounded stream offset (`max` over the history of `gUna + sndWnd`);
* invariant `W4`: every write-list entry with payload that lies below `sndNxt` (i.e. has been transmitted) is at
  most `maxPayload` long and ends at or before `gEdge`; the current edge is at or before `gEdge`; while fast recovery
  is active its `last` mark stands for an offset between `sndUna` (exclusive) and `sndNxt`;
* every handler keeps `W4`, and every data segment any handler transmits -- first transmission, timeout
  retransmission, fast retransmission, split or trimmed pieces -- is at most `maxPayload` long and ends at or
  before `gEdge`: never a byte beyond the rightmost edge the peer has offered.

The invariant of `Props/C01Send.lean` (`SEB`) supplies the link between sequence numbers and stream offsets. -/
namespace Props.C04
open Model.Tcp Props.TcpLemmas Props.C01

/-- every entry of `wl'` that has payload is a part of an entry of `wl` -/
def Sub (wl' wl : List WSeg) : Prop :=
  ∀ x ∈ wl', x.data ≠ [] → ∃ y ∈ wl, y.gOff ≤ x.gOff ∧ x.gOff + x.data.length ≤ y.gOff + y.data.length

theorem Sub.refl (wl : List WSeg) : Sub wl wl := fun x hx _ => ⟨x, hx, Nat.le_refl _, Nat.le_refl _⟩

theorem sub_ne {x y : WSeg} (hd : x.data ≠ []) (h1 : y.gOff ≤ x.gOff) (h2 : x.gOff + x.data.length ≤ y.gOff + y.data.length) :
    y.data ≠ [] := by
  intro h
  have hl : 0 < x.data.length := List.length_pos_iff.mpr hd
  rw [h] at h2
  simp at h2
  omega

theorem Sub.trans {a b c : List WSeg} (h1 : Sub a b) (h2 : Sub b c) : Sub a c := by
  intro x hx hd
  obtain ⟨y, hy, y1, y2⟩ := h1 x hx hd
  obtain ⟨z, hz, z1, z2⟩ := h2 y hy (sub_ne hd y1 y2)
  exact ⟨z, hz, by omega, by omega⟩

/-- transmitted payload entries (those below the frontier `n`) are at most `mp` long and end at or before `E` -/
def Cap (wl : List WSeg) (n mp E : Nat) : Prop :=
  ∀ x ∈ wl, x.gOff < n → x.data ≠ [] → x.data.length ≤ mp ∧ x.gOff + x.data.length ≤ E

theorem cap_sub {wl' wl : List WSeg} {n mp E E' : Nat} (hs : Sub wl' wl) (hc : Cap wl n mp E) (hE : E ≤ E') : Cap wl' n mp E' := by
  intro x hx hn hd
  obtain ⟨y, hy, y1, y2⟩ := hs x hx hd
  obtain ⟨c1, c2⟩ := hc y hy (by omega) (sub_ne hd y1 y2)
  exact ⟨by omega, by omega⟩

/-- replacing an entry by one with the same offset and payload -/
theorem sub_set (pre post : List WSeg) (x y : WSeg) (hg : y.gOff = x.gOff) (hd : y.data = x.data) :
    Sub (pre ++ y :: post) (pre ++ x :: post) := by
  intro z hz _
  rcases List.mem_append.mp hz with hz | hz
  · exact ⟨z, List.mem_append_left _ hz, Nat.le_refl _, Nat.le_refl _⟩
  · rcases List.mem_cons.mp hz with hz | hz
    · subst hz
      exact ⟨x, by simp, by omega, by rw [hg, hd]; exact Nat.le_refl _⟩
    · exact ⟨z, List.mem_append_right _ (List.mem_cons_of_mem _ hz), Nat.le_refl _, Nat.le_refl _⟩

/-- splitting an entry in two -/
theorem sub_split (pre post : List WSeg) (x y1 y2 : WSeg) (a : Nat) (ha : a < x.data.length)
    (h1 : y1.gOff = x.gOff) (d1 : y1.data = x.data.take a) (h2 : y2.gOff = x.gOff + a) (d2 : y2.data = x.data.drop a) :
    Sub (pre ++ y1 :: y2 :: post) (pre ++ x :: post) := by
  intro z hz _
  rcases List.mem_append.mp hz with hz | hz
  · exact ⟨z, List.mem_append_left _ hz, Nat.le_refl _, Nat.le_refl _⟩
  · rcases List.mem_cons.mp hz with hz | hz
    · subst hz
      refine ⟨x, by simp, by omega, ?_⟩
      rw [h1, d1, List.length_take]; omega
    · rcases List.mem_cons.mp hz with hz | hz
      · subst hz
        refine ⟨x, by simp, by omega, ?_⟩
        rw [h2, d2, List.length_drop]; omega
      · exact ⟨z, List.mem_append_right _ (List.mem_cons_of_mem _ hz), Nat.le_refl _, Nat.le_refl _⟩

/-- what the window part of the invariant reads besides the write list and the frontier -/
def wk (s : Snd) : Nat × Nat × Nat × FastRec × Nat × Nat × Nat := (s.gUna, s.sndWnd, s.gEdge, s.fr, s.maxPayload, s.gIss1, s.sndUna)


/-- while fast recovery is active its `last` mark stands for a stream offset `k - 1` with `sndUna ≤ k ≤ sndNxt` -/
def FRI (s : Snd) : Prop := s.fr.active = true → ∃ k, s.fr.last = subS (addS s.gIss1 k) 1 ∧ s.gUna ≤ k ∧ k ≤ s.gNxt

/-- the window part of the sender invariant -/
structure W4 (s : Snd) : Prop where
  cap : Cap s.writeList s.gNxt s.maxPayload s.gEdge
  edge : s.gUna + s.sndWnd % M ≤ s.gEdge
  fri : FRI s

/-- a transmitted data segment is at most `mp` bytes long and ends at or before stream offset `E` -/
def In4 (iss1 mp E : Nat) (o : OutSeg) : Prop :=
  o.data ≠ [] → o.flags ≠ 0 → o.data.length ≤ mp ∧ ∃ off, o.seq = addS iss1 off ∧ off + o.data.length ≤ E

theorem in4_mono {iss1 mp E E' : Nat} {o : OutSeg} (h : In4 iss1 mp E o) (hE : E ≤ E') : In4 iss1 mp E' o := by
  intro a b
  obtain ⟨h1, off, h2, h3⟩ := h a b
  exact ⟨h1, off, h2, by omega⟩

theorem in4_nodata (iss1 mp E : Nat) (o : OutSeg) (h : o.data = []) : In4 iss1 mp E o := fun hne => absurd h hne

theorem wk_bump (s : Snd) (x : Nat) : wk (s.bumpNxt x) = wk s ∧ (s.bumpNxt x).writeList = s.writeList := by
  unfold Snd.bumpNxt; split <;> exact ⟨rfl, rfl⟩

theorem w4_congr {s s' : Snd} (h1 : s'.writeList = s.writeList) (h2 : s'.gNxt = s.gNxt) (h3 : wk s' = wk s) (w : W4 s) : W4 s' := by
  simp only [wk, Prod.mk.injEq] at h3
  obtain ⟨a, b, c, d, e, f, _⟩ := h3
  refine ⟨by rw [h1, h2, e, c]; exact w.cap, by rw [a, b, c]; exact w.edge, ?_⟩
  intro hact
  rw [d] at hact
  obtain ⟨k, k1, k2, k3⟩ := w.fri hact
  exact ⟨k, by rw [d, f]; exact k1, by rw [a]; exact k2, by rw [h2]; exact k3⟩

/-- transmitting entry `y` (already in the list, assigned, at or below the frontier): the entries the frontier
passes are `y` itself -/
theorem emit_cap (e0 : Ep) (pre post : List WSeg) (y : WSeg) (I : Core e0.snd) (hB : e0.snd.gW.length + 1 < 2147483648)
    (hwl : e0.snd.writeList = pre ++ y :: post) (hf : y.flags ≠ 0) (hle : y.gOff ≤ e0.snd.gNxt)
    (hfin : y.data = [] → e0.snd.gW.length ≤ y.gOff) (mp E : Nat)
    (hc : Cap e0.snd.writeList e0.snd.gNxt mp E) (hy : y.data ≠ [] → y.data.length ≤ mp ∧ y.gOff + y.data.length ≤ E) :
    Cap (emitAt e0 y (addS y.seq (xlen y))).1.snd.writeList (emitAt e0 y (addS y.seq (xlen y))).1.snd.gNxt mp E ∧
    wk (emitAt e0 y (addS y.seq (xlen y))).1.snd = wk e0.snd ∧
    e0.snd.gNxt ≤ (emitAt e0 y (addS y.seq (xlen y))).1.snd.gNxt := by
  have hs := (emitAt_snd e0 y (addS y.seq (xlen y))).1
  obtain ⟨b1, b2, b3, b4⟩ := core_bump e0.snd pre post y I hB hwl hf hle hfin
  have hck := bump_maxSent e0.snd e0.rcv.rcvNxt (addS y.seq (xlen y))
  simp only [ck, Prod.mk.injEq] at hck
  obtain ⟨f1, _, _, _, _, _, f7⟩ := hck
  have hwb := wk_bump e0.snd (addS y.seq (xlen y))
  have hwb2 := wk_bump ({ e0.snd with maxSentAck := e0.rcv.rcvNxt } : Snd) (addS y.seq (xlen y))
  have hc0 := I.cont
  rw [hwl] at hc0
  obtain ⟨a1, a2, a3, a4, a5, a6⟩ := contig_around _ _ _ _ _ hc0
  refine ⟨?_, by rw [hs, hwb2.1]; rfl, by rw [hs, f7]; exact b3⟩
  rw [hs, f1, f7, hwb.2]
  intro x hx hn hd
  by_cases hlt : x.gOff < e0.snd.gNxt
  · exact hc x hx hlt hd
  · have hgt : (e0.snd.bumpNxt (addS y.seq (xlen y))).gNxt ≤ y.gOff + xlen y := by
      have := b4
      rw [Nat.max_def] at this
      split at this <;> omega
    rw [hwl] at hx
    rcases List.mem_append.mp hx with hx | hx
    · have := a1 x hx
      have hl : 0 < x.data.length := List.length_pos_iff.mpr hd
      omega
    · rcases List.mem_cons.mp hx with hx | hx
      · subst hx; exact hy hd
      · have := a2 x hx
        by_cases hyd : y.data = []
        · rw [a3 hyd] at hx; simp at hx
        · have : xlen y = y.data.length := by unfold xlen; simp [hyd]
          omega

theorem edge_arith (iss1 una unaOff w off len seqv : Nat)
    (hu : una % 4294967296 = addS iss1 unaOff) (hs : seqv = addS iss1 off)
    (hlt : lt seqv (addS una (w % M)) = true) (hlen : len ≤ sizeS seqv (addS una (w % M)))
    (h1 : off < 2147483648) (h2 : unaOff ≤ 2147483648) : off + len ≤ unaOff + w % M := by
  rw [lt_iff] at hlt
  subst hs
  unfold sizeS addS M at *
  have hW : w % 4294967296 < 4294967296 := Nat.mod_lt _ (by decide)
  generalize w % 4294967296 = W at *
  omega

/-- assembling `W4` after a step that leaves the window data alone and moves the frontier forward -/
theorem w4_of {s s' : Snd} (hk : wk s' = wk s) (hn : s.gNxt ≤ s'.gNxt)
    (hc : Cap s'.writeList s'.gNxt s.maxPayload s.gEdge) (w : W4 s) : W4 s' := by
  simp only [wk, Prod.mk.injEq] at hk
  obtain ⟨a, b, c, d, e, f, _⟩ := hk
  refine ⟨by rw [e, c]; exact hc, by rw [a, b, c]; exact w.edge, ?_⟩
  intro hact
  rw [d] at hact
  obtain ⟨k, k1, k2, k3⟩ := w.fri hact
  exact ⟨k, by rw [d, f]; exact k1, by rw [a]; exact k2, by omega⟩

/-- what the emitted segment of `emitAt` says about itself -/
theorem emit_in4 (e0 : Ep) (y : WSeg) (x iss1 mp E : Nat) (hseq : y.flags ≠ 0 → y.seq = addS iss1 y.gOff)
    (hy : y.data ≠ [] → y.data.length ≤ mp ∧ y.gOff + y.data.length ≤ E) : In4 iss1 mp E (emitAt e0 y x).2 := by
  have hfr := emitAt_frame e0 y x
  intro hne hfl
  rw [hfr.1] at hne ⊢
  rw [hfr.2.1]
  rw [hfr.2.2.1] at hfl
  exact ⟨(hy hne).1, y.gOff, hseq hfl, (hy hne).2⟩

theorem w4_fin (e : Ep) (pre post : List WSeg) (seg0 seg : WSeg) (h : LI e pre.length) (w : W4 e.snd)
    (hwl : e.snd.writeList = pre ++ seg0 :: post) (g1 : seg.gOff = seg0.gOff) (g2 : seg.data = seg0.data)
    (g4 : entryOk e.snd.gW e.snd.gIss1 seg) (g3 : seg.flags ≠ 0) (hd0 : seg0.data = []) :
    W4 (emitAt { e with snd := { e.snd with writeList := e.snd.writeList.set pre.length { seg with flags := fAck ||| fFin } } }
          { seg with flags := fAck ||| fFin } (addS seg.seq 1)).1.snd ∧
    wk (emitAt { e with snd := { e.snd with writeList := e.snd.writeList.set pre.length { seg with flags := fAck ||| fFin } } }
          { seg with flags := fAck ||| fFin } (addS seg.seq 1)).1.snd = wk e.snd ∧
    In4 e.snd.gIss1 e.snd.maxPayload e.snd.gEdge (emitAt { e with snd := { e.snd with writeList := e.snd.writeList.set pre.length { seg with flags := fAck ||| fFin } } }
          { seg with flags := fAck ||| fFin } (addS seg.seq 1)).2 := by
  have I := h.core
  have hat := hat_of e pre post seg0 h hwl
  have hset : e.snd.writeList.set pre.length { seg with flags := fAck ||| fFin } = pre ++ { seg with flags := fAck ||| fFin } :: post := by
    rw [hwl]; exact set_decomp _ _ _ _
  have hxl : xlen { seg with flags := fAck ||| fFin } = 1 := by unfold xlen; simp [g2, hd0]
  have hcore0 : Core ({ e.snd with writeList := e.snd.writeList.set pre.length { seg with flags := fAck ||| fFin } } : Snd) :=
    core_replace e.snd _ pre post seg0 _ I hwl hset rfl rfl rfl rfl rfl rfl g1 g2
      ⟨g4.1, fun _ => g4.2 g3⟩ (fun _ => (by decide : fAck ||| fFin ≠ 0)) (Or.inr (Or.inr ⟨by show seg.data = []; rw [g2]; exact hd0, rfl⟩))
  have hsd : ({ seg with flags := fAck ||| fFin } : WSeg).data = [] := by show seg.data = []; rw [g2]; exact hd0
  have hfin : ({ seg with flags := fAck ||| fFin } : WSeg).data = [] → e.snd.gW.length ≤ ({ seg with flags := fAck ||| fFin } : WSeg).gOff := by
    intro _
    have hc := I.cont; rw [hwl] at hc
    have hp := (contig_around _ _ _ _ _ hc).2.2.1 hd0
    subst hp
    have := (contig_around _ _ _ _ _ hc).2.2.2.2.1
    simp only [contig, hd0, List.length_nil, Nat.add_zero] at this
    show _ ≤ seg.gOff
    rw [g1]; omega
  have hsub : Sub (pre ++ { seg with flags := fAck ||| fFin } :: post) e.snd.writeList := by
    rw [hwl]; exact sub_set pre post seg0 _ g1 g2
  have := emit_cap { e with snd := { e.snd with writeList := e.snd.writeList.set pre.length { seg with flags := fAck ||| fFin } } }
    pre post { seg with flags := fAck ||| fFin } hcore0 h.bnd hset (by decide : fAck ||| fFin ≠ 0)
    (by show seg.gOff ≤ _; rw [g1]; exact hat) hfin e.snd.maxPayload e.snd.gEdge
    (by show Cap (e.snd.writeList.set pre.length _) e.snd.gNxt _ _; rw [hset]; exact cap_sub hsub w.cap (Nat.le_refl _))
    (fun hne => absurd hsd hne)
  rw [hxl] at this
  obtain ⟨c1, c2, c3⟩ := this
  exact ⟨w4_of (s := e.snd) c2 c3 c1 w, c2, in4_nodata _ _ _ _ (by rw [(emitAt_frame _ _ _).1]; exact hsd)⟩

theorem w4_wstop (e : Ep) (pre post : List WSeg) (seg0 seg : WSeg) (w : W4 e.snd)
    (hwl : e.snd.writeList = pre ++ seg0 :: post) (g1 : seg.gOff = seg0.gOff) (g2 : seg.data = seg0.data) :
    W4 ({ e.snd with writeList := e.snd.writeList.set pre.length seg, writeNext := pre.length } : Snd) := by
  have hset : e.snd.writeList.set pre.length seg = pre ++ seg :: post := by rw [hwl]; exact set_decomp _ _ _ _
  have hsub : Sub (pre ++ seg :: post) e.snd.writeList := by rw [hwl]; exact sub_set pre post seg0 _ g1 g2
  refine w4_of (s := e.snd) rfl (Nat.le_refl _) ?_ w
  show Cap (e.snd.writeList.set pre.length seg) e.snd.gNxt _ _
  rw [hset]; exact cap_sub hsub w.cap (Nat.le_refl _)

theorem w4_data (e : Ep) (pre post : List WSeg) (seg0 seg : WSeg) (av : Nat) (h : LI e pre.length) (w : W4 e.snd)
    (hwl : e.snd.writeList = pre ++ seg0 :: post) (g1 : seg.gOff = seg0.gOff) (g2 : seg.data = seg0.data)
    (g4 : entryOk e.snd.gW e.snd.gIss1 seg) (g3 : seg.flags ≠ 0) (hd0 : seg0.data ≠ []) (hav0 : 0 < av) (hfo : flagsOk seg)
    (hmp : av ≤ e.snd.maxPayload) (havw : av ≤ sizeS seg.seq (sndEnd e.snd)) (hltw : lt seg.seq (sndEnd e.snd) = true) :
    W4 (emitAt { e with snd := { e.snd with writeList := (splitAt e.snd.writeList pre.length seg av).1, outstanding := e.snd.outstanding + 1 } }
          (splitAt e.snd.writeList pre.length seg av).2
          (addS (splitAt e.snd.writeList pre.length seg av).2.seq (splitAt e.snd.writeList pre.length seg av).2.data.length)).1.snd ∧
    wk (emitAt { e with snd := { e.snd with writeList := (splitAt e.snd.writeList pre.length seg av).1, outstanding := e.snd.outstanding + 1 } }
          (splitAt e.snd.writeList pre.length seg av).2
          (addS (splitAt e.snd.writeList pre.length seg av).2.seq (splitAt e.snd.writeList pre.length seg av).2.data.length)).1.snd = wk e.snd ∧
    In4 e.snd.gIss1 e.snd.maxPayload e.snd.gEdge (emitAt { e with snd := { e.snd with writeList := (splitAt e.snd.writeList pre.length seg av).1, outstanding := e.snd.outstanding + 1 } }
          (splitAt e.snd.writeList pre.length seg av).2
          (addS (splitAt e.snd.writeList pre.length seg av).2.seq (splitAt e.snd.writeList pre.length seg av).2.data.length)).2 := by
  have I := h.core
  have hat := hat_of e pre post seg0 h hwl
  have hsp := splitAt_decomp pre post seg0 seg av
  rw [← hwl] at hsp
  have hcm := contig_mem _ _ _ I.cont seg0 (by rw [hwl]; simp)
  have hseq : seg.seq = addS e.snd.gIss1 seg0.gOff := by rw [← g1]; exact g4.2 g3
  -- any prefix of the entry of at most `av` bytes is within the limits
  have hbound : ∀ l, l ≤ av → l ≤ e.snd.maxPayload ∧ seg0.gOff + l ≤ e.snd.gEdge := by
    intro l hl
    refine ⟨by omega, ?_⟩
    have havw' : av ≤ sizeS seg.seq (addS e.snd.sndUna (e.snd.sndWnd % M)) := havw
    have := edge_arith e.snd.gIss1 e.snd.sndUna e.snd.gUna e.snd.sndWnd seg0.gOff l seg.seq I.una hseq hltw (by omega)
      (by have := h.bnd; omega) (by have := I.ord; have := h.bnd; omega)
    have := w.edge
    omega
  by_cases hlong : seg.data.length > av
  · rw [if_pos hlong, if_pos hlong] at hsp
    have hav1 : av < seg0.data.length := by rw [← g2]; exact hlong
    have ok1 := entryOk_take e.snd.gW e.snd.gIss1 _ av g4 (by omega) g3
    have ok2 := entryOk_drop e.snd.gW e.snd.gIss1 _ av g4 g3
    have hf24 : seg.flags = fAck ||| fPsh := by
      rcases hfo with h0 | h1 | h2
      · exact absurd h0 g3
      · exact h1.2
      · exact absurd (g2 ▸ h2.1) hd0
    have hne1 : ({ seg with data := seg.data.take av } : WSeg).data ≠ [] := by
      intro hd
      have : (List.take av seg.data).length = 0 := by rw [show List.take av _ = [] from hd]; rfl
      rw [List.length_take] at this; omega
    have hne2 : (List.drop av seg.data) ≠ [] := by
      intro hd
      have : (List.drop av seg.data).length = 0 := by rw [hd]; rfl
      rw [List.length_drop] at this; omega
    have hcore0 : Core ({ e.snd with writeList := (splitAt e.snd.writeList pre.length seg av).1, outstanding := e.snd.outstanding + 1 } : Snd) :=
      core_split e.snd _ pre post seg0 _ _ av I hwl hsp.1 rfl rfl rfl rfl rfl rfl g1 (by rw [g2]) (by show _ + av = _; rw [g1])
        (by show List.drop av _ = _; rw [g2]) hav0 hav1 ok1 ok2 g3 g3
        (Or.inr (Or.inl ⟨hne1, hf24⟩)) (Or.inr (Or.inl ⟨hne2, hf24⟩))
    have hxl : xlen ({ seg with data := seg.data.take av } : WSeg) = ({ seg with data := seg.data.take av } : WSeg).data.length := by
      unfold xlen; simp only [hne1, if_false]
    have hl1 : ({ seg with data := seg.data.take av } : WSeg).data.length = av := by
      show (List.take av seg.data).length = av
      rw [List.length_take]; omega
    have hsub : Sub (pre ++ { seg with data := seg.data.take av } :: { seq := addS seg.seq av, flags := seg.flags, data := seg.data.drop av, gOff := seg.gOff + av } :: post)
        e.snd.writeList := by
      rw [hwl]
      exact sub_split pre post seg0 _ _ av hav1 g1 (by show List.take av seg.data = _; rw [g2]) (by show seg.gOff + av = _; rw [g1])
        (by show List.drop av seg.data = _; rw [g2])
    have hy : ({ seg with data := seg.data.take av } : WSeg).data ≠ [] →
        ({ seg with data := seg.data.take av } : WSeg).data.length ≤ e.snd.maxPayload ∧
        ({ seg with data := seg.data.take av } : WSeg).gOff + ({ seg with data := seg.data.take av } : WSeg).data.length ≤ e.snd.gEdge := by
      intro _
      rw [hl1]
      show av ≤ _ ∧ seg.gOff + av ≤ _
      rw [g1]; exact hbound av (Nat.le_refl _)
    have := emit_cap { e with snd := { e.snd with writeList := (splitAt e.snd.writeList pre.length seg av).1, outstanding := e.snd.outstanding + 1 } }
      pre (_ :: post) _ hcore0 h.bnd hsp.1 g3 (by show seg.gOff ≤ _; rw [g1]; exact hat)
      (fun hd => absurd hd hne1) e.snd.maxPayload e.snd.gEdge
      (by show Cap (splitAt e.snd.writeList pre.length seg av).1 e.snd.gNxt _ _; rw [hsp.1]; exact cap_sub hsub w.cap (Nat.le_refl _)) hy
    rw [hxl] at this
    rw [hsp.2]
    obtain ⟨c1, c2, c3⟩ := this
    exact ⟨w4_of (s := e.snd) c2 c3 c1 w, c2, emit_in4 _ _ _ _ _ _ (fun _ => by show seg.seq = addS _ seg.gOff; rw [g1]; exact hseq) hy⟩
  · rw [if_neg hlong, if_neg hlong] at hsp
    have hcore0 : Core ({ e.snd with writeList := (splitAt e.snd.writeList pre.length seg av).1, outstanding := e.snd.outstanding + 1 } : Snd) :=
      core_replace e.snd _ pre post seg0 _ I hwl hsp.1 rfl rfl rfl rfl rfl rfl g1 g2 g4 (fun _ => g3) hfo
    have hne1 : seg.data ≠ [] := by rw [g2]; exact hd0
    have hxl : xlen seg = seg.data.length := by unfold xlen; simp only [hne1, if_false]
    have hsub : Sub (pre ++ seg :: post) e.snd.writeList := by rw [hwl]; exact sub_set pre post seg0 _ g1 g2
    have hy : seg.data ≠ [] → seg.data.length ≤ e.snd.maxPayload ∧ seg.gOff + seg.data.length ≤ e.snd.gEdge := by
      intro _
      rw [g1]; exact hbound _ (by omega)
    have := emit_cap { e with snd := { e.snd with writeList := (splitAt e.snd.writeList pre.length seg av).1, outstanding := e.snd.outstanding + 1 } }
      pre post _ hcore0 h.bnd hsp.1 g3 (by rw [g1]; exact hat)
      (fun hd => absurd hd hne1) e.snd.maxPayload e.snd.gEdge
      (by show Cap (splitAt e.snd.writeList pre.length seg av).1 e.snd.gNxt _ _; rw [hsp.1]; exact cap_sub hsub w.cap (Nat.le_refl _)) hy
    rw [hxl] at this
    rw [hsp.2]
    obtain ⟨c1, c2, c3⟩ := this
    exact ⟨w4_of (s := e.snd) c2 c3 c1 w, c2, emit_in4 _ _ _ _ _ _ (fun _ => by rw [g1]; exact hseq) hy⟩

/-- **one iteration of the send loop** keeps the window invariant, leaves the window data alone, and what it
transmits is within the limits -/
theorem sendStep_W4 (e : Ep) (i : Nat) (h : LI e i) (w : W4 e.snd) :
    (∀ e', sendStep e i = .stop e' → W4 e'.snd ∧ wk e'.snd = wk e.snd) ∧
    (∀ e' o, sendStep e i = .sent e' o → W4 e'.snd ∧ wk e'.snd = wk e.snd ∧ In4 e.snd.gIss1 e.snd.maxPayload e.snd.gEdge o) := by
  have I := h.core
  have hstop0 : W4 (e.setWriteNext i).snd ∧ wk (e.setWriteNext i).snd = wk e.snd :=
    ⟨w4_congr (s := e.snd) (s' := (e.setWriteNext i).snd) rfl rfl rfl w, rfl⟩
  cases hget : e.snd.writeList[i]? with
  | none =>
    unfold sendStep
    simp only [hget]
    exact ⟨fun e' he => (by cases he; exact hstop0), fun e' o he => (by cases he)⟩
  | some seg0 =>
    obtain ⟨pre, post, hwl, hi⟩ := decomp _ _ _ hget
    subst hi
    have hx0 := I.ents seg0 (by rw [hwl]; simp)
    have hat := hat_of e pre post seg0 h hwl
    have hasg : seg0.flags = 0 → e.snd.sndNxt = addS e.snd.gIss1 seg0.gOff := by
      intro hz
      have : ¬ seg0.gOff < e.snd.gNxt := fun hlt => (I.front seg0 (by rw [hwl]; simp) hlt).1 hz
      have : seg0.gOff = e.snd.gNxt := by omega
      rw [this]; exact I.nxt
    obtain ⟨g1, g2, g3, g4⟩ := assign_ok seg0 e.snd.sndNxt e.snd.gIss1 e.snd.gW hx0 hasg
    unfold sendStep
    simp only [hget]
    split
    · exact ⟨fun e' he => (by cases he; exact hstop0), fun e' o he => (by cases he)⟩
    · split
      · rename_i hz
        have hd0 : seg0.data = [] := by
          have : (seg0.assign e.snd.sndNxt).data.length = 0 := by simpa using hz
          rw [g2] at this; exact List.eq_nil_of_length_eq_zero this
        refine ⟨fun e' he => (by cases he), fun e' o he => ?_⟩
        cases he
        exact w4_fin e pre post seg0 _ h w hwl g1 g2 g4 g3 hd0
      · rename_i hz
        have hd0 : seg0.data ≠ [] := by
          intro hd
          apply hz
          simp [g2, hd]
        have hfo : flagsOk (seg0.assign e.snd.sndNxt) := by
          have h0 := I.fl seg0 (by rw [hwl]; simp)
          unfold WSeg.assign
          split
          · exact Or.inr (Or.inl ⟨hd0, rfl⟩)
          · exact h0
        split
        · refine ⟨fun e' he => ?_, fun e' o he => (by cases he)⟩
          cases he
          exact ⟨w4_wstop e pre post seg0 _ w hwl g1 g2, rfl⟩
        · rename_i hw
          refine ⟨fun e' he => (by cases he), fun e' o he => ?_⟩
          cases he
          have hlt : lt (seg0.assign e.snd.sndNxt).seq (sndEnd e.snd) = true := by simpa using hw
          have hlt' := hlt
          rw [lt_iff] at hlt'
          exact w4_data e pre post seg0 _ _ h w hwl g1 g2 g4 g3 hd0 (Nat.lt_min.mpr ⟨hlt'.1, h.mp⟩) hfo
            (Nat.min_le_right _ _) (Nat.min_le_left _ _) hlt

/-- the loop -/
theorem sendDataLoop_W4 (fuel : Nat) (e : Ep) (i : Nat) (out : List OutSeg) (h : LI e i) (w : W4 e.snd) :
    W4 (sendDataLoop fuel e i out).1.snd ∧ wk (sendDataLoop fuel e i out).1.snd = wk e.snd ∧
    (∀ o ∈ (sendDataLoop fuel e i out).2, o ∈ out ∨ In4 e.snd.gIss1 e.snd.maxPayload e.snd.gEdge o) := by
  induction fuel generalizing e i out with
  | zero =>
    exact ⟨w4_congr (s := e.snd) (s' := (e.setWriteNext i).snd) rfl rfl rfl w, rfl, fun o ho => Or.inl ho⟩
  | succ n ih =>
    unfold sendDataLoop
    have hs := sendStep_LI e i h
    have hw := sendStep_W4 e i h w
    split
    · rename_i e' heq
      obtain ⟨a, b⟩ := hw.1 _ heq
      exact ⟨a, b, fun o ho => Or.inl ho⟩
    · rename_i e' o heq
      obtain ⟨a, b, c⟩ := hw.2 _ _ heq
      obtain ⟨l1, _, _, _⟩ := hs.2 _ _ heq
      obtain ⟨i1, i2, i3⟩ := ih e' (i + 1) (out ++ [o]) l1 a
      have hb := b
      simp only [wk, Prod.mk.injEq] at hb
      obtain ⟨_, _, b3, _, b5, b6, _⟩ := hb
      refine ⟨i1, i2.trans b, ?_⟩
      intro x hx
      rcases i3 x hx with hx | hx
      · rcases List.mem_append.mp hx with hx | hx
        · exact Or.inl hx
        · simp only [List.mem_singleton] at hx; subst hx; exact Or.inr c
      · right; rw [b3, b5, b6] at hx; exact hx

/-- **`sendData`** keeps the window invariant and transmits within the limits -/
theorem sendData_W4 (e : Ep) (h : SEB e) (w : W4 e.snd) :
    W4 (sendData e).1.snd ∧ wk (sendData e).1.snd = wk e.snd ∧
    (∀ o ∈ (sendData e).2, In4 e.snd.gIss1 e.snd.maxPayload e.snd.gEdge o) := by
  obtain ⟨a, b, c⟩ := sendDataLoop_W4 (sendFuel e.snd + 1) e e.snd.writeNext [] (LI_of_SEB e h) w
  unfold sendData
  simp only
  refine ⟨?_, ?_, fun o ho => (c o ho).resolve_left (by simp)⟩
  · split
    · exact w4_congr (s := (sendDataLoop (sendFuel e.snd + 1) e e.snd.writeNext []).1.snd) rfl rfl rfl a
    · exact a
  · split
    · exact b
    · exact b

/-! ### acknowledgements -/

/-- the cumulative-ACK loop only removes entries or trims the first one; it touches neither the window data nor the
frontier -/
theorem ackLoop_sub (fuel : Nat) : ∀ (s : Snd) (a : Nat),
    Sub (ackLoop fuel s a).writeList s.writeList ∧ wk (ackLoop fuel s a) = wk s ∧ (ackLoop fuel s a).gNxt = s.gNxt := by
  induction fuel with
  | zero => intro s a; exact ⟨Sub.refl _, rfl, rfl⟩
  | succ n ih =>
    intro s a
    unfold ackLoop
    split
    · exact ⟨Sub.refl _, rfl, rfl⟩
    · split
      · exact ⟨Sub.refl _, rfl, rfl⟩
      · rename_i seg rest hwl
        simp only
        split
        · refine ⟨?_, rfl, rfl⟩
          intro x hx hd
          simp only [List.mem_cons] at hx
          rcases hx with hx | hx
          · subst hx
            refine ⟨seg, by rw [hwl]; simp, by show seg.gOff ≤ seg.gOff + a; omega, ?_⟩
            show seg.gOff + a + (seg.data.drop a).length ≤ _
            have hl : 0 < (seg.data.drop a).length := List.length_pos_iff.mpr hd
            rw [List.length_drop] at hl ⊢
            omega
          · exact ⟨x, by rw [hwl]; simp [hx], Nat.le_refl _, Nat.le_refl _⟩
        · obtain ⟨i1, i2, i3⟩ := ih ({ s with writeList := rest, writeNext := (if s.writeNext == 0 then 0 else s.writeNext - 1), outstanding := s.outstanding - 1, gAcked := s.gAcked + 1 } : Snd) (a - seg.logicalLen)
          refine ⟨?_, i2, i3⟩
          intro x hx hd
          obtain ⟨y, hy, y1, y2⟩ := i1 x hx hd
          exact ⟨y, by rw [hwl]; exact List.mem_cons_of_mem _ hy, y1, y2⟩

theorem renoCA_wk (s : Snd) (n : Nat) :
    wk (renoCA s n) = wk s ∧ (renoCA s n).writeList = s.writeList ∧ (renoCA s n).gNxt = s.gNxt := by
  unfold renoCA; simp only; split <;> exact ⟨rfl, rfl, rfl⟩

theorem renoUpdate_wk (s : Snd) (n : Nat) :
    wk (renoUpdate s n) = wk s ∧ (renoUpdate s n).writeList = s.writeList ∧ (renoUpdate s n).gNxt = s.gNxt := by
  unfold renoUpdate
  split
  · unfold renoSlowStart
    split
    · simp only
      split
      · exact ⟨rfl, rfl, rfl⟩
      · exact renoCA_wk _ _
    · simp only
      split
      · exact ⟨rfl, rfl, rfl⟩
      · exact renoCA_wk _ _
  · exact renoCA_wk _ _

theorem post_wk (A : Snd) (d : Nat) :
    wk (if (if !A.fr.active then renoUpdate A d else A).outstanding < 0 then { (if !A.fr.active then renoUpdate A d else A) with outstanding := 0 }
        else (if !A.fr.active then renoUpdate A d else A)) = wk A ∧
    (if (if !A.fr.active then renoUpdate A d else A).outstanding < 0 then { (if !A.fr.active then renoUpdate A d else A) with outstanding := 0 }
        else (if !A.fr.active then renoUpdate A d else A)).writeList = A.writeList ∧
    (if (if !A.fr.active then renoUpdate A d else A).outstanding < 0 then { (if !A.fr.active then renoUpdate A d else A) with outstanding := 0 }
        else (if !A.fr.active then renoUpdate A d else A)).gNxt = A.gNxt := by
  have k := renoUpdate_wk A d
  by_cases hf : A.fr.active = true
  · simp only [hf, Bool.not_true, Bool.false_eq_true, if_false]
    split <;> exact ⟨rfl, rfl, rfl⟩
  · have hf' : A.fr.active = false := by simpa using hf
    simp only [hf', Bool.not_false, if_true]
    split
    · exact ⟨k.1, k.2.1, k.2.2⟩
    · exact k

/-- what an acknowledgement of new data does to the window data: `sndUna` moves, the rightmost edge is updated,
entries are removed or trimmed -/
theorem ackAdvance_fields (s : Snd) (ack : Nat) :
    wk (ackAdvance s ack) = wk (ackStart s ack) ∧ Sub (ackAdvance s ack).writeList s.writeList ∧ (ackAdvance s ack).gNxt = s.gNxt := by
  have hk := post_wk (ackLoop (s.writeList.length + 1) (ackStart s ack) (sizeS s.sndUna ack))
    (if s.outstanding - (ackLoop (s.writeList.length + 1) (ackStart s ack) (sizeS s.sndUna ack)).outstanding < 0 then 0
     else (s.outstanding - (ackLoop (s.writeList.length + 1) (ackStart s ack) (sizeS s.sndUna ack)).outstanding).toNat)
  obtain ⟨l1, l2, l3⟩ := ackLoop_sub (s.writeList.length + 1) (ackStart s ack) (sizeS s.sndUna ack)
  exact ⟨hk.1.trans l2, by rw [show (ackAdvance s ack).writeList = _ from hk.2.1]; exact l1, hk.2.2.trans l3⟩

/-- **an acknowledgement of new data keeps the window invariant**; the fast-recovery mark stays ahead of `sndUna`
when the caller says so -/
theorem ackAdvance_W4 (s : Snd) (ack : Nat) (w : W4 s)
    (hf : s.fr.active = true → ∃ k, s.fr.last = subS (addS s.gIss1 k) 1 ∧ s.gUna + sizeS s.sndUna ack < k ∧ k ≤ s.gNxt) :
    W4 (ackAdvance s ack) ∧ s.gEdge ≤ (ackAdvance s ack).gEdge ∧ (ackAdvance s ack).gIss1 = s.gIss1 ∧
    (ackAdvance s ack).maxPayload = s.maxPayload ∧ (ackAdvance s ack).sndUna = ack := by
  obtain ⟨f1, f2, f3⟩ := ackAdvance_fields s ack
  simp only [wk, Prod.mk.injEq, ackStart] at f1
  obtain ⟨a, b, c, d, e, f, g⟩ := f1
  refine ⟨⟨?_, ?_, ?_⟩, by rw [c]; exact Nat.le_max_left _ _, f, e, g⟩
  · rw [f3, e, c]; exact cap_sub f2 w.cap (Nat.le_max_left _ _)
  · rw [a, b, c]; exact Nat.le_max_right _ _
  · intro hact
    rw [d] at hact
    obtain ⟨k, k1, k2, k3⟩ := hf hact
    exact ⟨k, by rw [d, f]; exact k1, by rw [a]; exact Nat.le_of_lt k2, by rw [f3]; exact k3⟩

/-! ### duplicate acknowledgements and fast recovery -/

/-- an acknowledgement that advances `sndUna` is in the range `checkDuplicateAck` tests -/
theorem range_imp (s : Snd) (ack : Nat) (I : Core s) (hB : s.gW.length + 1 < 2147483648)
    (hr : inRange (subS ack 1) s.sndUna s.sndNxt = true) : inRange ack s.sndUna (addS s.sndNxt 1) = true := by
  rw [Props.C05.inRange_iff] at hr ⊢
  have hu := I.una
  have hn := I.nxt
  have ho := I.ord
  rw [hn] at hr ⊢
  unfold sizeS subS addS M at *
  generalize s.sndUna % 4294967296 = U at *
  omega

/-- an acknowledgement in range that is not beyond the fast-recovery mark `k - 1` stays below `k` -/
theorem fr_arith (s : Snd) (ack k : Nat) (I : Core s) (hB : s.gW.length + 1 < 2147483648)
    (_hk1 : s.gUna ≤ k) (hk2 : k ≤ s.gNxt) (hl : s.fr.last = subS (addS s.gIss1 k) 1)
    (hr : inRange ack s.sndUna (addS s.sndNxt 1) = true) (hnl : lt s.fr.last ack = false) :
    s.gUna + sizeS s.sndUna ack < k := by
  rw [Props.C05.inRange_iff] at hr
  have hnl' : ¬ (1 ≤ sizeS s.fr.last ack ∧ sizeS s.fr.last ack ≤ 2147483648) := by
    intro h; rw [← lt_iff] at h; rw [h] at hnl; cases hnl
  have hu := I.una
  have hn := I.nxt
  have ho := I.ord
  rw [hn] at hr
  rw [hl] at hnl'
  unfold sizeS subS addS M at *
  generalize s.sndUna % 4294967296 = U at *
  omega

/-- what `checkDuplicateAck` guarantees to the rest of `sndPrepare` -/
structure CdaOk (s : Snd) (ack : Nat) (c : Snd × Bool) : Prop where
  ck : Props.C01.ck c.1 = Props.C01.ck s
  una : c.1.gUna = s.gUna
  wnd : c.1.sndWnd = s.sndWnd
  edge : c.1.gEdge = s.gEdge
  mp : c.1.maxPayload = s.maxPayload
  fri : FRI c.1
  adv : inRange (subS ack 1) s.sndUna s.sndNxt = true → c.1.fr.active = true →
    ∃ k, c.1.fr.last = subS (addS s.gIss1 k) 1 ∧ s.gUna + sizeS s.sndUna ack < k ∧ k ≤ s.gNxt
  rex : c.2 = true → s.gUna < s.gNxt ∧ (inRange (subS ack 1) s.sndUna s.sndNxt = true → s.gUna + sizeS s.sndUna ack < s.gNxt)

theorem no_adv_at_una (s : Snd) (hr : inRange (subS s.sndUna 1) s.sndUna s.sndNxt = true) : False := by
  rw [Props.C05.inRange_iff] at hr
  unfold sizeS subS M at hr
  omega

theorem cda_W4 (s : Snd) (ack ll wnd : Nat) (I : Core s) (hB : s.gW.length + 1 < 2147483648) (w : W4 s)
    (hlim : s.sndUna < M) : CdaOk s ack (checkDuplicateAck s ack ll wnd) := by
  unfold checkDuplicateAck
  by_cases hact : s.fr.active = true
  · obtain ⟨k, k1, k2, k3⟩ := w.fri hact
    simp only [hact, if_true]
    split
    · rename_i hnr
      refine ⟨rfl, rfl, rfl, rfl, rfl, w.fri, ?_, (fun h => by cases h)⟩
      intro hr _
      have := range_imp s ack I hB hr
      rw [this] at hnr; simp at hnr
    · rename_i hir
      have hir' : inRange ack s.sndUna (addS s.sndNxt 1) = true := by simpa using hir
      split
      · refine ⟨rfl, rfl, rfl, rfl, rfl, (fun h => by cases h), (fun _ h => by cases h), (fun h => by cases h)⟩
      · rename_i hnl
        have hnl' : lt s.fr.last ack = false := by simpa using hnl
        have hlt := fr_arith s ack k I hB k2 k3 k1 hir' hnl'
        split
        · exact ⟨rfl, rfl, rfl, rfl, rfl, w.fri, fun _ _ => ⟨k, k1, hlt, k3⟩, (fun h => by cases h)⟩
        · split
          · split
            · exact ⟨rfl, rfl, rfl, rfl, rfl, w.fri, fun _ _ => ⟨k, k1, hlt, k3⟩, (fun h => by cases h)⟩
            · exact ⟨rfl, rfl, rfl, rfl, rfl, w.fri, fun _ _ => ⟨k, k1, hlt, k3⟩, (fun h => by cases h)⟩
          · exact ⟨rfl, rfl, rfl, rfl, rfl, fun _ => ⟨k, k1, k2, k3⟩, fun _ _ => ⟨k, k1, hlt, k3⟩,
              (fun _ => ⟨(by omega), (fun _ => by omega)⟩)⟩
  · have hact' : s.fr.active = false := by simpa using hact
    simp only [hact', Bool.false_eq_true, if_false]
    split
    · exact ⟨rfl, rfl, rfl, rfl, rfl, (fun h => by rw [hact'] at h; cases h), (fun _ h => by rw [hact'] at h; cases h), (fun h => by cases h)⟩
    · rename_i hc
      split
      · exact ⟨rfl, rfl, rfl, rfl, rfl, (fun h => by rw [hact'] at h; cases h), (fun _ h => by rw [hact'] at h; cases h), (fun h => by cases h)⟩
      · split
        · exact ⟨rfl, rfl, rfl, rfl, rfl, (fun h => by rw [hact'] at h; cases h), (fun _ h => by rw [hact'] at h; cases h), (fun h => by cases h)⟩
        · have hc' : ack = s.sndUna ∧ ack ≠ s.sndNxt := by
            simp at hc
            exact ⟨hc.1.1.1, hc.2⟩
          have hlt : s.gUna < s.gNxt := by
            have hu := I.una
            have hn := I.nxt
            have ho := I.ord
            rcases Nat.lt_or_ge s.gUna s.gNxt with h | h
            · exact h
            · exfalso
              have : s.gUna = s.gNxt := by omega
              apply hc'.2
              rw [hc'.1, hn, ← this, ← hu]
              unfold M at hlim
              omega
          refine ⟨rfl, rfl, rfl, rfl, rfl, ?_, ?_, ?_⟩
          · intro _
            exact ⟨s.gNxt, (by show subS s.sndNxt 1 = _; rw [I.nxt]; rfl), I.ord.1, Nat.le_refl _⟩
          · intro hr _
            rw [hc'.1] at hr
            exact absurd hr (fun h => no_adv_at_una s h)
          · intro _
            refine ⟨hlt, fun hr => ?_⟩
            rw [hc'.1] at hr
            exact absurd hr (fun h => no_adv_at_una s h)

/-- the fast retransmission re-sends the first write-list entry as it stands: it lies below the frontier, so the
invariant bounds it -/
theorem resend_W4 (e : Ep) (I : Core e.snd) (w : W4 e.snd) (hlt : e.snd.gUna < e.snd.gNxt) :
    W4 (resendSegment e).1.snd ∧ wk (resendSegment e).1.snd = wk e.snd ∧
    ∀ o ∈ (resendSegment e).2, In4 e.snd.gIss1 e.snd.maxPayload e.snd.gEdge o := by
  unfold resendSegment
  cases hw : e.snd.writeList.head? with
  | none => exact ⟨w, rfl, fun o ho => by simp at ho⟩
  | some x =>
    have hfr := sendSegment_frame e x.data x.flags x.seq
    have hout := sendSegment_out e x.data x.flags x.seq
    have hx : x ∈ e.snd.writeList := List.mem_of_mem_head? hw
    have hok := I.ents x hx
    have hne : e.snd.writeList ≠ [] := by intro h; rw [h] at hx; simp at hx
    have hoff : x.gOff = e.snd.gUna := by
      have := I.hd hne
      unfold headOff at this
      cases hl : e.snd.writeList with
      | nil => exact absurd hl hne
      | cons a t =>
        rw [hl] at this hw
        simp only [List.head?_cons, Option.some.injEq] at hw
        subst hw
        exact this
    refine ⟨?_, by rw [hfr.1]; rfl, ?_⟩
    · rw [hfr.1]; exact w4_congr (s := e.snd) rfl rfl rfl w
    · intro o ho
      simp only [List.mem_singleton] at ho
      subst ho
      intro hd hfl
      rw [hout.1] at hd ⊢
      rw [hout.2.1]
      rw [hout.2.2.1] at hfl
      have := w.cap x hx (by omega) hd
      exact ⟨this.1, x.gOff, hok.2 hfl, this.2⟩

/-- **the sender's part of one incoming segment, up to the final `sendData`**: duplicate-ACK bookkeeping, window
update (the rightmost edge is recorded), cumulative acknowledgement, fast retransmission -/
theorem sndPrepare_W4 (e : Ep) (seg : InSeg) (wnd : Nat) (ts : Model.Header.TCPOpts) (h : SEB e) (w : W4 e.snd)
    (hlim : e.snd.sndUna < M) (hack : seg.ack < M) :
    W4 (sndPrepare e seg wnd ts).1.snd ∧ (sndPrepare e seg wnd ts).1.snd.sndUna < M ∧
    e.snd.gEdge ≤ (sndPrepare e seg wnd ts).1.snd.gEdge ∧
    (∀ o ∈ (sndPrepare e seg wnd ts).2, In4 e.snd.gIss1 e.snd.maxPayload (sndPrepare e seg wnd ts).1.snd.gEdge o) := by
  have e0s : (updateRecentTimestamp e ts.tsVal e.snd.maxSentAck seg.seq).snd = e.snd := by
    unfold updateRecentTimestamp; split <;> rfl
  have ck0 := cda_keep e.snd seg.ack seg.logicalLen wnd
  have C := cda_W4 e.snd seg.ack seg.logicalLen wnd h.se.inv.core h.bnd w hlim
  have Is : SInv ({ (checkDuplicateAck e.snd seg.ack seg.logicalLen wnd).1 with sndWnd := wnd, gEdge := max (checkDuplicateAck e.snd seg.ack seg.logicalLen wnd).1.gEdge ((checkDuplicateAck e.snd seg.ack seg.logicalLen wnd).1.gUna + wnd % M) } : Snd) :=
    sinv_keep (s := e.snd) ck0.1 ck0.2.1 h.se.inv
  have hck0 := ck0.1
  simp only [ck, Prod.mk.injEq] at hck0
  obtain ⟨c1, c2, c3, c4, c5, c6, c7⟩ := hck0
  -- the window invariant after the window update
  have Ws : W4 ({ (checkDuplicateAck e.snd seg.ack seg.logicalLen wnd).1 with sndWnd := wnd, gEdge := max (checkDuplicateAck e.snd seg.ack seg.logicalLen wnd).1.gEdge ((checkDuplicateAck e.snd seg.ack seg.logicalLen wnd).1.gUna + wnd % M) } : Snd) := by
    refine ⟨?_, Nat.le_max_right _ _, ?_⟩
    · show Cap (checkDuplicateAck e.snd seg.ack seg.logicalLen wnd).1.writeList (checkDuplicateAck e.snd seg.ack seg.logicalLen wnd).1.gNxt
        (checkDuplicateAck e.snd seg.ack seg.logicalLen wnd).1.maxPayload _
      rw [c1, c7, C.mp]
      exact cap_sub (Sub.refl _) w.cap (by rw [C.edge]; exact Nat.le_max_left _ _)
    · exact C.fri
  have key : ∀ e1 : Ep, Core e1.snd → W4 e1.snd → e1.snd.sndUna < M → e.snd.gEdge ≤ e1.snd.gEdge →
      e1.snd.gIss1 = e.snd.gIss1 → e1.snd.maxPayload = e.snd.maxPayload →
      ((checkDuplicateAck e.snd seg.ack seg.logicalLen wnd).2 = true → e1.snd.gUna < e1.snd.gNxt) →
      W4 (if (checkDuplicateAck e.snd seg.ack seg.logicalLen wnd).2 = true then resendSegment e1 else (e1, [])).1.snd ∧
      (if (checkDuplicateAck e.snd seg.ack seg.logicalLen wnd).2 = true then resendSegment e1 else (e1, [])).1.snd.sndUna < M ∧
      e.snd.gEdge ≤ (if (checkDuplicateAck e.snd seg.ack seg.logicalLen wnd).2 = true then resendSegment e1 else (e1, [])).1.snd.gEdge ∧
      (∀ o ∈ (if (checkDuplicateAck e.snd seg.ack seg.logicalLen wnd).2 = true then resendSegment e1 else (e1, [])).2,
        In4 e.snd.gIss1 e.snd.maxPayload (if (checkDuplicateAck e.snd seg.ack seg.logicalLen wnd).2 = true then resendSegment e1 else (e1, [])).1.snd.gEdge o) := by
    intro e1 I1 w1 l1 ge1 gi1 mp1 hrex
    split
    · rename_i hc2
      obtain ⟨r1, r2, r3⟩ := resend_W4 e1 I1 w1 (hrex hc2)
      have hk := r2
      simp only [wk, Prod.mk.injEq] at hk
      obtain ⟨_, _, k3, _, _, _, k7⟩ := hk
      refine ⟨r1, by rw [k7]; exact l1, by rw [k3]; exact ge1, ?_⟩
      intro o ho
      have := r3 o ho
      rw [gi1, mp1] at this
      rw [k3]; exact this
    · exact ⟨w1, l1, ge1, fun o ho => by simp at ho⟩
  have hf : inRange (subS seg.ack 1) e.snd.sndUna e.snd.sndNxt = true →
      ({ (checkDuplicateAck e.snd seg.ack seg.logicalLen wnd).1 with sndWnd := wnd, gEdge := max (checkDuplicateAck e.snd seg.ack seg.logicalLen wnd).1.gEdge ((checkDuplicateAck e.snd seg.ack seg.logicalLen wnd).1.gUna + wnd % M) } : Snd).fr.active = true →
      ∃ k, ({ (checkDuplicateAck e.snd seg.ack seg.logicalLen wnd).1 with sndWnd := wnd, gEdge := max (checkDuplicateAck e.snd seg.ack seg.logicalLen wnd).1.gEdge ((checkDuplicateAck e.snd seg.ack seg.logicalLen wnd).1.gUna + wnd % M) } : Snd).fr.last =
          subS (addS ({ (checkDuplicateAck e.snd seg.ack seg.logicalLen wnd).1 with sndWnd := wnd, gEdge := max (checkDuplicateAck e.snd seg.ack seg.logicalLen wnd).1.gEdge ((checkDuplicateAck e.snd seg.ack seg.logicalLen wnd).1.gUna + wnd % M) } : Snd).gIss1 k) 1 ∧
        ({ (checkDuplicateAck e.snd seg.ack seg.logicalLen wnd).1 with sndWnd := wnd, gEdge := max (checkDuplicateAck e.snd seg.ack seg.logicalLen wnd).1.gEdge ((checkDuplicateAck e.snd seg.ack seg.logicalLen wnd).1.gUna + wnd % M) } : Snd).gUna +
          sizeS ({ (checkDuplicateAck e.snd seg.ack seg.logicalLen wnd).1 with sndWnd := wnd, gEdge := max (checkDuplicateAck e.snd seg.ack seg.logicalLen wnd).1.gEdge ((checkDuplicateAck e.snd seg.ack seg.logicalLen wnd).1.gUna + wnd % M) } : Snd).sndUna seg.ack < k ∧
        k ≤ ({ (checkDuplicateAck e.snd seg.ack seg.logicalLen wnd).1 with sndWnd := wnd, gEdge := max (checkDuplicateAck e.snd seg.ack seg.logicalLen wnd).1.gEdge ((checkDuplicateAck e.snd seg.ack seg.logicalLen wnd).1.gUna + wnd % M) } : Snd).gNxt := by
    intro hr' hact
    obtain ⟨k, k1, k2, k3⟩ := C.adv hr' hact
    refine ⟨k, ?_, ?_, ?_⟩
    · show (checkDuplicateAck e.snd seg.ack seg.logicalLen wnd).1.fr.last = subS (addS (checkDuplicateAck e.snd seg.ack seg.logicalLen wnd).1.gIss1 k) 1
      rw [c3]; exact k1
    · show (checkDuplicateAck e.snd seg.ack seg.logicalLen wnd).1.gUna + sizeS (checkDuplicateAck e.snd seg.ack seg.logicalLen wnd).1.sndUna seg.ack < k
      rw [c6, c4]; exact k2
    · show k ≤ (checkDuplicateAck e.snd seg.ack seg.logicalLen wnd).1.gNxt
      rw [c7]; exact k3
  have hrw : ∀ hr : inRange (subS seg.ack 1) (checkDuplicateAck e.snd seg.ack seg.logicalLen wnd).1.sndUna (checkDuplicateAck e.snd seg.ack seg.logicalLen wnd).1.sndNxt = true,
      inRange (subS seg.ack 1) e.snd.sndUna e.snd.sndNxt = true := fun hr => by rw [← c4, ← c5]; exact hr
  have hge : e.snd.gEdge ≤ max (checkDuplicateAck e.snd seg.ack seg.logicalLen wnd).1.gEdge ((checkDuplicateAck e.snd seg.ack seg.logicalLen wnd).1.gUna + wnd % M) := by
    rw [C.edge]; exact Nat.le_max_left _ _
  unfold sndPrepare
  simp only
  rw [e0s]
  apply key
  · split
    · rename_i hr
      exact (ackAdvance_SInv _ seg.ack Is (by show (checkDuplicateAck e.snd seg.ack seg.logicalLen wnd).1.gW.length + 1 < _; rw [c2]; exact h.bnd) hr).1.core
    · exact Is.core
  · split
    · rename_i hr
      exact (ackAdvance_W4 _ seg.ack Ws (hf (hrw hr))).1
    · exact Ws
  · split
    · rename_i hr
      show (ackAdvance _ seg.ack).sndUna < M
      rw [(ackAdvance_W4 _ seg.ack Ws (hf (hrw hr))).2.2.2.2]; exact hack
    · show (checkDuplicateAck e.snd seg.ack seg.logicalLen wnd).1.sndUna < M
      rw [c4]; exact hlim
  · split
    · rename_i hr
      exact Nat.le_trans hge (ackAdvance_W4 _ seg.ack Ws (hf (hrw hr))).2.1
    · exact hge
  · split
    · rename_i hr
      show (ackAdvance _ seg.ack).gIss1 = _
      rw [(ackAdvance_W4 _ seg.ack Ws (hf (hrw hr))).2.2.1]; exact c3
    · exact c3
  · split
    · rename_i hr
      show (ackAdvance _ seg.ack).maxPayload = _
      rw [(ackAdvance_W4 _ seg.ack Ws (hf (hrw hr))).2.2.2.1]; exact C.mp
    · exact C.mp
  · intro hc2
    obtain ⟨x1, x2⟩ := C.rex hc2
    split
    · rename_i hr
      obtain ⟨f1, _, f3⟩ := ackAdvance_fields ({ (checkDuplicateAck e.snd seg.ack seg.logicalLen wnd).1 with sndWnd := wnd, gEdge := max (checkDuplicateAck e.snd seg.ack seg.logicalLen wnd).1.gEdge ((checkDuplicateAck e.snd seg.ack seg.logicalLen wnd).1.gUna + wnd % M) } : Snd) seg.ack
      simp only [wk, Prod.mk.injEq, ackStart] at f1
      show (ackAdvance _ seg.ack).gUna < (ackAdvance _ seg.ack).gNxt
      rw [f1.1, f3]
      show (checkDuplicateAck e.snd seg.ack seg.logicalLen wnd).1.gUna + sizeS (checkDuplicateAck e.snd seg.ack seg.logicalLen wnd).1.sndUna seg.ack <
        (checkDuplicateAck e.snd seg.ack seg.logicalLen wnd).1.gNxt
      rw [c6, c4, c7]; exact x2 (hrw hr)
    · show (checkDuplicateAck e.snd seg.ack seg.logicalLen wnd).1.gUna < (checkDuplicateAck e.snd seg.ack seg.logicalLen wnd).1.gNxt
      rw [c6, c7]; exact x1
/-! ### the endpoint's handlers -/

/-- what the window invariant reads of an endpoint -/
def wf (e : Ep) : List WSeg × Nat × (Nat × Nat × Nat × FastRec × Nat × Nat × Nat) := (e.snd.writeList, e.snd.gNxt, wk e.snd)

/-- the window invariant of an endpoint, with the standing fact that `sndUna` is a 32-bit value -/
structure E4 (e : Ep) : Prop where
  w : W4 e.snd
  lim : e.snd.sndUna < M

theorem E4_of_wf {e e' : Ep} (h : wf e' = wf e) (H : E4 e) : E4 e' := by
  simp only [wf, Prod.mk.injEq] at h
  obtain ⟨h1, h2, h3⟩ := h
  have h3' := h3
  simp only [wk, Prod.mk.injEq] at h3'
  exact ⟨w4_congr h1 h2 h3 H.w, by rw [h3'.2.2.2.2.2.2]; exact H.lim⟩

theorem wf_sendSegment (e : Ep) (d : List Nat) (f q : Nat) : wf (sendSegment e d f q).1 = wf e := by
  have h := sendSegment_frame e d f q
  simp only [wf, h.1]
  rfl

theorem wf_sendAck (e : Ep) : wf (sendAck e).1 = wf e := wf_sendSegment e [] fAck e.snd.sndNxt

theorem wf_consumeFin (e : Ep) : wf (consumeFin e).1 = wf e := by
  unfold consumeFin
  have := wf_sendAck { e with rcv := { e.rcv with rcvNxt := addS e.rcv.rcvNxt 1 } }
  simp only [wf] at this ⊢
  exact this

theorem wf_deliver (e : Ep) (d : List Nat) : wf (deliver e d) = wf e := by unfold deliver; split <;> rfl

theorem wf_consumeSegment (e : Ep) (fl sq : Nat) (d : List Nat) : wf (consumeSegment e fl sq d).1 = wf e := by
  unfold consumeSegment
  split
  · rfl
  · simp only
    split
    · rw [wf_consumeFin]; exact wf_deliver _ _
    · exact wf_deliver _ _

theorem wf_drainPending (fuel : Nat) (e : Ep) (out : List OutSeg) : wf (drainPending fuel e out).1 = wf e := by
  induction fuel generalizing e out with
  | zero => rfl
  | succ n ih =>
    unfold drainPending
    split
    · rfl
    · split
      · rfl
      · split
        · rw [ih]; rfl
        · simp only
          split
          · rfl
          · rw [ih]
            split
            · exact wf_consumeSegment _ _ _ _
            · exact wf_consumeSegment _ _ _ _

theorem wf_rcvHandleSegment (e : Ep) (seg : InSeg) : wf (rcvHandleSegment e seg).1 = wf e := by
  unfold rcvHandleSegment
  split
  · rfl
  · split
    · exact wf_sendAck e
    · simp only
      split
      · split
        · unfold parkSegment; exact wf_sendAck _
        · rfl
      · rw [wf_drainPending]; exact wf_consumeSegment _ _ _ _

theorem wf_closeIfDone (e : Ep) : wf (closeIfDone e) = wf e := by unfold closeIfDone; split <;> rfl

/-- the window invariant holds afterwards, the rightmost edge has not moved left, and everything transmitted is within
the limits as they stand afterwards -/
def Res4 (e : Ep) (r : Ep × List OutSeg) : Prop :=
  E4 r.1 ∧ e.snd.gEdge ≤ r.1.snd.gEdge ∧ ∀ o ∈ r.2, In4 e.snd.gIss1 e.snd.maxPayload r.1.snd.gEdge o

theorem res4_refl (e : Ep) (h : E4 e) : Res4 e (e, []) := ⟨h, Nat.le_refl _, fun o ho => by simp at ho⟩

theorem res4_trans {e e1 : Ep} {r : Ep × List OutSeg} {out1 : List OutSeg} (h1 : Res4 e (e1, out1)) (h2 : Res4 e1 r)
    (hi : e1.snd.gIss1 = e.snd.gIss1) (hm : e1.snd.maxPayload = e.snd.maxPayload) : Res4 e (r.1, out1 ++ r.2) := by
  obtain ⟨a1, a2, a3⟩ := h1
  obtain ⟨b1, b2, b3⟩ := h2
  refine ⟨b1, Nat.le_trans a2 b2, ?_⟩
  intro o ho
  rcases List.mem_append.mp ho with ho | ho
  · exact in4_mono (a3 o ho) b2
  · have := b3 o ho
    rw [hi, hm] at this; exact this

/-- **one incoming segment at the sender** -/
theorem sndHandleSegment_W4 (e : Ep) (seg : InSeg) (wnd : Nat) (ts : Model.Header.TCPOpts) (h : SEB e) (w : E4 e)
    (hack : seg.ack < M) : Res4 e (sndHandleSegment e seg wnd ts) := by
  obtain ⟨p1, p2, p3, p4⟩ := sndPrepare_W4 e seg wnd ts h w.w w.lim hack
  obtain ⟨q1, _, q3, _⟩ := sndPrepare_SEB e seg wnd ts h
  have q5 := sndPrepare_mp e seg wnd ts
  obtain ⟨s1, s2, s3⟩ := sendData_W4 _ q1 p1
  have hk := s2
  simp only [wk, Prod.mk.injEq] at hk
  obtain ⟨_, _, k3, _, _, _, k7⟩ := hk
  unfold sndHandleSegment
  refine ⟨⟨s1, by rw [k7]; exact p2⟩, by rw [k3]; exact p3, ?_⟩
  intro o ho
  rcases List.mem_append.mp ho with ho | ho
  · rw [k3]; exact p4 o ho
  · have := s3 o ho
    rw [q3, q5] at this
    rw [k3]; exact this

theorem rcvHandleSegment_in4 (e : Ep) (seg : InSeg) (a b c : Nat) : ∀ o ∈ (rcvHandleSegment e seg).2, In4 a b c o :=
  fun o ho => in4_nodata _ _ _ _ (rcvHandleSegment_nodata e seg o ho)

theorem handleCore_res4 (e : Ep) (seg : InSeg) (h : SEB e) (w : E4 e) (hack : seg.ack < M) :
    Res4 e ((handleCore e seg).1, (handleCore e seg).2.1) := by
  unfold handleCore
  split
  · exact res4_refl e w
  · split
    · split
      · exact res4_refl e w
      · have hsk := sk_rcvHandleSegment e seg
        have h1 : SEB (rcvHandleSegment e seg).1 := SEB_of_sk hsk h
        have hwf := wf_rcvHandleSegment e seg
        have w1 : E4 (rcvHandleSegment e seg).1 := E4_of_wf hwf w
        have hwf' := hwf
        simp only [wf, wk, Prod.mk.injEq] at hwf'
        obtain ⟨_, _, _, _, g3, _, g5, g6, _⟩ := hwf'
        obtain ⟨r1, r2, r3⟩ := sndHandleSegment_W4 (rcvHandleSegment e seg).1 seg (seg.wnd <<< e.snd.sndWndScale)
          (Model.Header.parseTCPOptions seg.opts) h1 w1 hack
        refine ⟨r1, by rw [← g3]; exact r2, ?_⟩
        intro o ho
        rcases List.mem_append.mp ho with ho | ho
        · exact rcvHandleSegment_in4 e seg _ _ _ o ho
        · have := r3 o ho; rw [g6, g5] at this; exact this
    · exact res4_refl e w

theorem handleBatch_res4 (e : Ep) (l : List InSeg) (h : SEB e) (w : E4 e) (hl : ∀ s ∈ l, s.ack < M) :
    Res4 e ((handleBatch e l).1, (handleBatch e l).2.1) := by
  induction l generalizing e with
  | nil => exact ⟨w, Nat.le_refl _, fun o ho => by simp [handleBatch] at ho⟩
  | cons s rest ih =>
    unfold handleBatch
    simp only
    have hc := handleCore_res4 e s h w (hl s (by simp))
    have hc1 := handleCore_res e s h
    split
    · exact hc
    · exact res4_trans hc (ih _ hc1.1 hc.1 (fun x hx => hl x (by simp [hx]))) hc1.2.2.1 hc1.2.2.2.1

theorem finishBatch_res4 (e : Ep) (out : List OutSeg) (r : Bool) (w : E4 e) :
    E4 (finishBatch e out r).1 ∧ (finishBatch e out r).1.snd.gEdge = e.snd.gEdge ∧ (∀ o ∈ (finishBatch e out r).2, o ∈ out ∨ o.data = []) := by
  have fromWf : ∀ e' : Ep, wf e' = wf e → E4 e' ∧ e'.snd.gEdge = e.snd.gEdge := by
    intro e' hs
    have hs' := hs
    simp only [wf, wk, Prod.mk.injEq] at hs'
    exact ⟨E4_of_wf hs w, hs'.2.2.2.2.1⟩
  unfold finishBatch
  split
  · obtain ⟨a, b⟩ := fromWf { e with state := .error, hardError := "connection-reset-by-peer", done := true } rfl
    exact ⟨a, b, fun o ho => Or.inl ho⟩
  · split
    · obtain ⟨a, b⟩ := fromWf (closeIfDone (sendAck e).1) (by rw [wf_closeIfDone, wf_sendAck])
      refine ⟨a, b, ?_⟩
      intro o ho
      rcases List.mem_append.mp ho with ho | ho
      · exact Or.inl ho
      · simp only [List.mem_singleton] at ho; subst ho; exact Or.inr (sendAck_nodata e)
    · obtain ⟨a, b⟩ := fromWf (closeIfDone e) (wf_closeIfDone e)
      exact ⟨a, b, fun o ho => Or.inl ho⟩

theorem handleSegmentsLoop_res4 (fuel : Nat) (e : Ep) (l : List InSeg) (h : SEB e) (w : E4 e) (hl : ∀ s ∈ l, s.ack < M) :
    Res4 e (handleSegmentsLoop fuel e l) := by
  induction fuel generalizing e l with
  | zero => exact ⟨w, Nat.le_refl _, fun o ho => by simp [handleSegmentsLoop] at ho⟩
  | succ n ih =>
    unfold handleSegmentsLoop
    split
    · exact res4_refl e w
    · simp only
      have hb := handleBatch_res e (l.take maxSegmentsPerWake) h
      obtain ⟨b1, b2, b3, b4, b5⟩ := hb
      obtain ⟨f1, f2, f3, f4, f5⟩ := finishBatch_res (handleBatch e (l.take maxSegmentsPerWake)).1 (handleBatch e (l.take maxSegmentsPerWake)).2.1
        (handleBatch e (l.take maxSegmentsPerWake)).2.2 b1
      obtain ⟨x1, x2, x3⟩ := handleBatch_res4 e (l.take maxSegmentsPerWake) h w (fun s hs => hl s (List.mem_of_mem_take hs))
      obtain ⟨y1, y2, y3⟩ := finishBatch_res4 (handleBatch e (l.take maxSegmentsPerWake)).1 (handleBatch e (l.take maxSegmentsPerWake)).2.1
        (handleBatch e (l.take maxSegmentsPerWake)).2.2 x1
      have hf : Res4 e (finishBatch (handleBatch e (l.take maxSegmentsPerWake)).1 (handleBatch e (l.take maxSegmentsPerWake)).2.1
          (handleBatch e (l.take maxSegmentsPerWake)).2.2) := by
        refine ⟨y1, by rw [y2]; exact x2, ?_⟩
        intro o ho
        rcases y3 o ho with ho | ho
        · rw [y2]; exact x3 o ho
        · exact in4_nodata _ _ _ _ ho
      split
      · exact hf
      · exact res4_trans hf (ih _ _ f1 hf.1 (fun s hs => hl s (List.mem_of_mem_drop hs))) (f3.trans b3) (f4.trans b4)

theorem handleSegments_res4 (e : Ep) (l : List InSeg) (h : SEB e) (w : E4 e) (hl : ∀ s ∈ l, s.ack < M) :
    Res4 e (handleSegments e l) := handleSegmentsLoop_res4 _ e l h w hl

/-- a retransmission timeout ends fast recovery; nothing else the window invariant reads changes -/
theorem rtoState_W4 (s : Snd) (w : W4 s) : W4 (rtoState s) ∧ (rtoState s).gEdge = s.gEdge ∧ (rtoState s).sndUna = s.sndUna := by
  unfold rtoState
  simp only
  have w1 : W4 ({ s with timerEnabled := false } : Snd) := w4_congr (s := s) rfl rfl rfl w
  have w2 : W4 (if ({ s with timerEnabled := false } : Snd).fr.active = true then leaveFastRecovery { s with timerEnabled := false } else { s with timerEnabled := false }) ∧
      (if ({ s with timerEnabled := false } : Snd).fr.active = true then leaveFastRecovery { s with timerEnabled := false } else { s with timerEnabled := false }).fr.active = false ∧
      (if ({ s with timerEnabled := false } : Snd).fr.active = true then leaveFastRecovery { s with timerEnabled := false } else { s with timerEnabled := false }).gEdge = s.gEdge ∧
      (if ({ s with timerEnabled := false } : Snd).fr.active = true then leaveFastRecovery { s with timerEnabled := false } else { s with timerEnabled := false }).sndUna = s.sndUna := by
    split
    · exact ⟨⟨w1.cap, w1.edge, fun h => by cases h⟩, rfl, rfl, rfl⟩
    · rename_i h
      exact ⟨w1, by simpa using h, rfl, rfl⟩
  generalize (if ({ s with timerEnabled := false } : Snd).fr.active = true then leaveFastRecovery { s with timerEnabled := false } else { s with timerEnabled := false }) = t at *
  obtain ⟨a, b, c, d⟩ := w2
  exact ⟨⟨a.cap, a.edge, fun h => by rw [show t.fr.active = false from b] at h; cases h⟩, c, d⟩

theorem timerEvent_res4 (e : Ep) (h : SEB e) (w : E4 e) : Res4 e (timerEvent e) := by
  unfold timerEvent
  split
  · exact res4_refl e w
  · unfold retransmitTimerExpired
    split
    · exact res4_refl e w
    · obtain ⟨r1, r2, r3⟩ := rtoState_SInv e.snd h.se.inv
      have r2' := r2
      simp only [ck, Prod.mk.injEq] at r2'
      obtain ⟨c1, c2, c3, c4, c5, c6, c7⟩ := r2'
      have h1 : SEB { e with snd := rtoState e.snd } :=
        ⟨⟨r1, fun hc => (by
              show (∀ x ∈ (rtoState e.snd).writeList, x.data ≠ []) ∧ (rtoState e.snd).gNxt ≤ (rtoState e.snd).gW.length
              rw [c1, c7, c2]; exact h.se.nofin hc)⟩,
         by show (rtoState e.snd).gW.length + 1 < _; rw [c2]; exact h.bnd, by show 0 < (rtoState e.snd).maxPayload; rw [r3]; exact h.mp⟩
      obtain ⟨t1, t2, t3⟩ := rtoState_W4 e.snd w.w
      obtain ⟨s1, s2, s3⟩ := sendData_W4 { e with snd := rtoState e.snd } h1 t1
      have hk := s2
      simp only [wk, Prod.mk.injEq] at hk
      obtain ⟨_, _, k3, _, _, _, k7⟩ := hk
      refine ⟨⟨s1, by rw [k7]; show (rtoState e.snd).sndUna < M; rw [t3]; exact w.lim⟩,
        by rw [k3]; show e.snd.gEdge ≤ (rtoState e.snd).gEdge; rw [t2]; exact Nat.le_refl _, ?_⟩
      intro o ho
      have := s3 o ho
      have e3 : ({ e with snd := rtoState e.snd } : Ep).snd.gIss1 = e.snd.gIss1 := c3
      have e4 : ({ e with snd := rtoState e.snd } : Ep).snd.maxPayload = e.snd.maxPayload := r3
      rw [e3, e4] at this
      rw [k3]; exact this

theorem appRead_res4 (e : Ep) (w : E4 e) : Res4 e ((appRead e).1, (appRead e).2.2) := by
  have fromWf : ∀ (e' : Ep) (out : List OutSeg), wf e' = wf e → (∀ o ∈ out, o.data = []) → Res4 e (e', out) := by
    intro e' out hs ho
    have hs' := hs
    simp only [wf, wk, Prod.mk.injEq] at hs'
    exact ⟨E4_of_wf hs w, by rw [hs'.2.2.2.2.1]; exact Nat.le_refl _, fun o h' => in4_nodata _ _ _ _ (ho o h')⟩
  unfold appRead
  split
  · exact fromWf e [] rfl (by simp)
  · split
    · exact fromWf e [] rfl (by simp)
    · split
      · exact fromWf e [] rfl (by simp)
      · simp only
        split
        · split
          · exact fromWf _ [] rfl (by simp)
          · refine fromWf _ _ (wf_sendAck _) ?_
            intro o ho; simp only [List.mem_singleton] at ho; subst ho; exact sendAck_nodata _
        · exact fromWf _ [] rfl (by simp)

/-- appending an entry that starts at or beyond the frontier, or has no payload -/
theorem cap_append (wl : List WSeg) (y : WSeg) (n mp E : Nat) (h : Cap wl n mp E) (hy : n ≤ y.gOff ∨ y.data = []) :
    Cap (wl ++ [y]) n mp E := by
  intro x hx hn hd
  rcases List.mem_append.mp hx with hx | hx
  · exact h x hx hn hd
  · simp only [List.mem_singleton] at hx
    subst hx
    rcases hy with hy | hy
    · omega
    · exact absurd hy hd

theorem appWrite_res4 (e : Ep) (d : List Nat) (h : SEB e) (w : E4 e) (hb : (appWrite e d).1.snd.gW.length + 1 < 2147483648) :
    Res4 e ((appWrite e d).1, (appWrite e d).2.2) := by
  unfold appWrite at hb ⊢
  split
  · exact res4_refl e w
  · rename_i hst
    split
    · exact res4_refl e w
    · rename_i hlen
      split
      · exact res4_refl e w
      · rename_i hcl
        split
        · exact res4_refl e w
        · rename_i hbuf
          simp only at hb ⊢
          have hcl' : e.sndClosed = false := by simpa using hcl
          have hv : d.take (e.sndBufSize - e.sndBufUsed) ≠ [] := by
            intro hd
            have hl : (d.take (e.sndBufSize - e.sndBufUsed)).length = 0 := by rw [hd]; rfl
            rw [List.length_take] at hl
            have : d.length ≠ 0 := by simpa using hlen
            have : ¬ e.sndBufUsed ≥ e.sndBufSize := hbuf
            omega
          have hq := queueWrite_SE e _ hv hcl' h.se
          rw [if_neg hst, if_neg hlen, if_neg hcl, if_neg hbuf] at hb
          simp only at hb
          have hgw : (sendData (queueWrite e (d.take (e.sndBufSize - e.sndBufUsed)))).1.snd.gW = e.snd.gW ++ d.take (e.sndBufSize - e.sndBufUsed) :=
            sendData_gW _
          have hSEB : SEB (queueWrite e (d.take (e.sndBufSize - e.sndBufUsed))) :=
            ⟨hq, by show (e.snd.gW ++ d.take (e.sndBufSize - e.sndBufUsed)).length + 1 < _; rw [← hgw]; exact hb, h.mp⟩
          have hW : W4 (queueWrite e (d.take (e.sndBufSize - e.sndBufUsed))).snd :=
            ⟨cap_append _ _ _ _ _ w.w.cap (Or.inl (h.se.nofin hcl').2), w.w.edge, w.w.fri⟩
          obtain ⟨s1, s2, s3⟩ := sendData_W4 _ hSEB hW
          have hk := s2
          simp only [wk, Prod.mk.injEq] at hk
          obtain ⟨_, _, k3, _, _, _, k7⟩ := hk
          refine ⟨⟨s1, by rw [k7]; exact w.lim⟩, by rw [k3]; exact Nat.le_refl _, ?_⟩
          intro o ho
          rw [k3]; exact s3 o ho

theorem appShutdownWrite_res4 (e : Ep) (h : SEB e) (w : E4 e) : Res4 e (appShutdownWrite e) := by
  unfold appShutdownWrite
  split
  · exact res4_refl e w
  · rename_i hg
    have hcl : e.sndClosed = false := by
      cases hc : e.sndClosed
      · rfl
      · simp [hc] at hg
    have hq := queueFin_SE e hcl h.se
    have hSEB : SEB (queueFin e) := ⟨hq, h.bnd, h.mp⟩
    have hW : W4 (queueFin e).snd := ⟨cap_append _ _ _ _ _ w.w.cap (Or.inr rfl), w.w.edge, w.w.fri⟩
    obtain ⟨s1, s2, s3⟩ := sendData_W4 _ hSEB hW
    have hwf : wf (closeIfDone { (sendData (queueFin e)).1 with snd := { (sendData (queueFin e)).1.snd with closed := true } })
        = wf (sendData (queueFin e)).1 := by rw [wf_closeIfDone]; rfl
    have hk := s2
    simp only [wk, Prod.mk.injEq] at hk
    obtain ⟨_, _, k3, _, _, _, k7⟩ := hk
    have hs' := hwf
    simp only [wf, wk, Prod.mk.injEq] at hs'
    have E1 : E4 (sendData (queueFin e)).1 := ⟨s1, by rw [k7]; exact w.lim⟩
    refine ⟨E4_of_wf hwf E1, by rw [hs'.2.2.2.2.1, k3]; exact Nat.le_refl _, ?_⟩
    intro o ho
    rw [hs'.2.2.2.2.1, k3]; exact s3 o ho

/-! ### every reachable state -/

/-- a sender that has queued nothing and whose window data are consistent -/
theorem E4_fresh (e : Ep) (h1 : e.snd.writeList = []) (h2 : e.snd.gUna + e.snd.sndWnd % M ≤ e.snd.gEdge)
    (h3 : e.snd.fr.active = false) (h4 : e.snd.sndUna < M) : E4 e :=
  ⟨⟨fun x hx => by rw [h1] at hx; simp at hx, h2, fun h => by rw [h3] at h; cases h⟩, h4⟩

/-- the assumption on incoming segments: the acknowledgement number is a 32-bit value (as it is on the wire) -/
def AckOk (s : InSeg) : Prop := s.ack < M

/-- the sender invariants together, under their standing assumptions (stream shorter than 2^31 bytes, segment size
not zero) -/
def P4 (e : Ep) : Prop := e.snd.gW.length + 1 < 2147483648 ∧ 0 < e.snd.maxPayload → SE e ∧ E4 e

open Props.TcpReachQ in
/-- the window invariant (with the stream invariant it builds on) is kept by every endpoint handler -/
theorem window_inv : EpInvQ AckOk P4 where
  fresh := by
    intro iss irs sndWnd mss sws rcvWnd rws mtu rb sb ts rts sp hres
    refine ⟨send_inv.fresh iss irs sndWnd mss sws rcvWnd rws mtu rb sb ts rts sp hres, E4_fresh _ rfl ?_ rfl ?_⟩
    · show 0 + sndWnd % M ≤ sndWnd % M
      omega
    · show addS iss 1 < M
      unfold addS M; omega
  dflt := fun _ => ⟨SE_fresh _ rfl rfl rfl rfl (by decide) (by decide), E4_fresh _ rfl (by decide) rfl (by decide)⟩
  failed := fun _ _ => ⟨SE_fresh _ rfl rfl rfl rfl (by show (0 : Nat) % 4294967296 = addS 0 0; decide) (by show (0 : Nat) = addS 0 0; decide),
    E4_fresh _ rfl (by show (0 : Nat) + 0 % M ≤ 0; decide) rfl (by show (0 : Nat) < M; decide)⟩
  segs := by
    intro e l hl hP hres
    have hm := handleSegmentsLoop_mg (l.length + 1) e l
    simp only [mg, Prod.mk.injEq] at hm
    have hres' : (handleSegmentsLoop (l.length + 1) e l).1.snd.gW.length + 1 < 2147483648 ∧
        0 < (handleSegmentsLoop (l.length + 1) e l).1.snd.maxPayload := hres
    rw [hm.1, hm.2] at hres'
    obtain ⟨p1, p2⟩ := hP hres'
    exact ⟨(handleSegments_res e l ⟨p1, hres'.1, hres'.2⟩).1.se, (handleSegments_res4 e l ⟨p1, hres'.1, hres'.2⟩ p2 hl).1⟩
  write := by
    intro e d hP hres
    obtain ⟨m1, V, m2⟩ := appWrite_mg e d
    have hb : e.snd.gW.length + 1 < 2147483648 := by
      have := hres.1; rw [m2, List.length_append] at this; omega
    have hmp : 0 < e.snd.maxPayload := by rw [← m1]; exact hres.2
    obtain ⟨p1, p2⟩ := hP ⟨hb, hmp⟩
    exact ⟨(appWrite_res e d ⟨p1, hb, hmp⟩ hres.1).1.se, (appWrite_res4 e d ⟨p1, hb, hmp⟩ p2 hres.1).1⟩
  read := by
    intro e hP hres
    have hm := appRead_mg e
    simp only [mg, Prod.mk.injEq] at hm
    rw [hm.1, hm.2] at hres
    obtain ⟨p1, p2⟩ := hP hres
    exact ⟨(appRead_res e ⟨p1, hres.1, hres.2⟩).1.se, (appRead_res4 e p2).1⟩
  shut := by
    intro e hP hres
    have hm := appShutdownWrite_mg e
    simp only [mg, Prod.mk.injEq] at hm
    rw [hm.1, hm.2] at hres
    obtain ⟨p1, p2⟩ := hP hres
    exact ⟨(appShutdownWrite_res e ⟨p1, hres.1, hres.2⟩).1.se, (appShutdownWrite_res4 e ⟨p1, hres.1, hres.2⟩ p2).1⟩
  timer := by
    intro e hP hres
    have hm := timerEvent_mg e
    simp only [mg, Prod.mk.injEq] at hm
    rw [hm.1, hm.2] at hres
    obtain ⟨p1, p2⟩ := hP hres
    exact ⟨(timerEvent_res e ⟨p1, hres.1, hres.2⟩).1.se, (timerEvent_res4 e ⟨p1, hres.1, hres.2⟩ p2).1⟩

open Props.TcpReachQ in
/-- **C04 (sending direction, reachability)**: in every state the stack can reach by a history of segments whose
acknowledgement numbers are 32-bit values, on every connection whose accepted stream is shorter than 2^31 bytes:
every transmitted write-list entry with payload is at most `maxPayload` long and ends at or before the rightmost
window edge the peer has offered so far, and the current edge is at or before it -/
theorem sender_window_reachable (c : Cfg) (ops : List Op) (hops : ∀ op ∈ ops, OpOk AckOk op) :
    StAllQ AckOk P4 (run c ops).1 :=
  run_allQ window_inv c ops hops

/-- **C04 (sending direction, emissions)**: from any state satisfying the invariants, whatever a handler transmits --
first transmissions, retransmissions after a timeout, fast retransmissions, pieces split to fit the window or the
segment size, pieces trimmed by partial acknowledgements -- is at most `maxPayload` bytes long (the minimum of the
peer's MSS and what the MTU leaves, `C04.newEp_maxPayload`) and ends at or before the rightmost window edge the peer
has offered up to the end of that handler: never a byte beyond the right edge of the window the peer has offered -/
theorem emitted_within_offered_window (e : Ep) (h : SEB e) (w : E4 e) :
    (∀ l, (∀ s ∈ l, AckOk s) → ∀ o ∈ (handleSegments e l).2, In4 e.snd.gIss1 e.snd.maxPayload (handleSegments e l).1.snd.gEdge o) ∧
    (∀ o ∈ (timerEvent e).2, In4 e.snd.gIss1 e.snd.maxPayload (timerEvent e).1.snd.gEdge o) ∧
    (∀ o ∈ (appShutdownWrite e).2, In4 e.snd.gIss1 e.snd.maxPayload (appShutdownWrite e).1.snd.gEdge o) ∧
    (∀ o ∈ (appRead e).2.2, In4 e.snd.gIss1 e.snd.maxPayload (appRead e).1.snd.gEdge o) ∧
    (∀ d, (appWrite e d).1.snd.gW.length + 1 < 2147483648 →
      ∀ o ∈ (appWrite e d).2.2, In4 e.snd.gIss1 e.snd.maxPayload (appWrite e d).1.snd.gEdge o) :=
  ⟨fun l hl => (handleSegments_res4 e l h w hl).2.2, (timerEvent_res4 e h w).2.2, (appShutdownWrite_res4 e h w).2.2,
   (appRead_res4 e w).2.2, fun d hb => (appWrite_res4 e d h w hb).2.2⟩

/-! ### what the ghost edge is

`gEdge` changes only where the model processes an incoming segment's acknowledgement and window (`sndPrepare`), and
there it becomes the larger of its old value and the edge the segment offers, `sndUna + window` (after the
acknowledgement has been applied): it is the running maximum of the offered edges. -/

theorem cda_flds (s : Snd) (ack len wnd : Nat) :
    ((checkDuplicateAck s ack len wnd).1.gEdge, (checkDuplicateAck s ack len wnd).1.gUna, (checkDuplicateAck s ack len wnd).1.sndWnd) =
      (s.gEdge, s.gUna, s.sndWnd) := by
  unfold checkDuplicateAck
  split
  · split
    · rfl
    · split
      · rfl
      · split
        · rfl
        · split
          · simp only; split <;> rfl
          · rfl
  · split
    · rfl
    · simp only
      split
      · rfl
      · split <;> rfl

theorem resend_wk (e : Ep) : wk (resendSegment e).1.snd = wk e.snd := by
  unfold resendSegment
  cases e.snd.writeList.head? with
  | none => rfl
  | some x => simp only; rw [(sendSegment_frame e x.data x.flags x.seq).1]; rfl

theorem sndPrepare_edge (e : Ep) (seg : InSeg) (wnd : Nat) (ts : Model.Header.TCPOpts) :
    (sndPrepare e seg wnd ts).1.snd.sndWnd = wnd ∧
    (sndPrepare e seg wnd ts).1.snd.gEdge = max e.snd.gEdge ((sndPrepare e seg wnd ts).1.snd.gUna + wnd % M) := by
  have e0s : (updateRecentTimestamp e ts.tsVal e.snd.maxSentAck seg.seq).snd = e.snd := by
    unfold updateRecentTimestamp; split <;> rfl
  have hc := cda_flds e.snd seg.ack seg.logicalLen wnd
  simp only [Prod.mk.injEq] at hc
  obtain ⟨c1, c2, c3⟩ := hc
  have key : ∀ e1 : Ep, e1.snd.sndWnd = wnd → e1.snd.gEdge = max e.snd.gEdge (e1.snd.gUna + wnd % M) →
      (if (checkDuplicateAck e.snd seg.ack seg.logicalLen wnd).2 = true then resendSegment e1 else (e1, [])).1.snd.sndWnd = wnd ∧
      (if (checkDuplicateAck e.snd seg.ack seg.logicalLen wnd).2 = true then resendSegment e1 else (e1, [])).1.snd.gEdge =
        max e.snd.gEdge ((if (checkDuplicateAck e.snd seg.ack seg.logicalLen wnd).2 = true then resendSegment e1 else (e1, [])).1.snd.gUna + wnd % M) := by
    intro e1 h1 h2
    split
    · have hk := resend_wk e1
      simp only [wk, Prod.mk.injEq] at hk
      obtain ⟨k1, k2, k3, _⟩ := hk
      rw [k1, k2, k3]; exact ⟨h1, h2⟩
    · exact ⟨h1, h2⟩
  unfold sndPrepare
  simp only
  rw [e0s]
  apply key
  · split
    · have f := (ackAdvance_fields ({ (checkDuplicateAck e.snd seg.ack seg.logicalLen wnd).1 with sndWnd := wnd, gEdge := max (checkDuplicateAck e.snd seg.ack seg.logicalLen wnd).1.gEdge ((checkDuplicateAck e.snd seg.ack seg.logicalLen wnd).1.gUna + wnd % M) } : Snd) seg.ack).1
      simp only [wk, Prod.mk.injEq, ackStart] at f
      exact f.2.1
    · rfl
  · split
    · have f := (ackAdvance_fields ({ (checkDuplicateAck e.snd seg.ack seg.logicalLen wnd).1 with sndWnd := wnd, gEdge := max (checkDuplicateAck e.snd seg.ack seg.logicalLen wnd).1.gEdge ((checkDuplicateAck e.snd seg.ack seg.logicalLen wnd).1.gUna + wnd % M) } : Snd) seg.ack).1
      simp only [wk, Prod.mk.injEq, ackStart] at f
      show (ackAdvance _ seg.ack).gEdge = max e.snd.gEdge ((ackAdvance _ seg.ack).gUna + wnd % M)
      rw [f.2.2.1, f.1, c1]
      omega
    · show max (checkDuplicateAck e.snd seg.ack seg.logicalLen wnd).1.gEdge ((checkDuplicateAck e.snd seg.ack seg.logicalLen wnd).1.gUna + wnd % M) =
        max e.snd.gEdge ((checkDuplicateAck e.snd seg.ack seg.logicalLen wnd).1.gUna + wnd % M)
      rw [c1]

/-- non-vacuity: a fresh connection (peer window 5) meets the invariants; a `Write` of eight bytes transmits exactly
the five the window admits, and they end at the offered edge -/
example :
    let e := newEp 1000 5 5 1460 0 65535 0 1500 65536 65536 false 0 false
    SEB e ∧ E4 e ∧ e.snd.gEdge = 5 ∧
      ((appWrite e [1, 2, 3, 4, 5, 6, 7, 8]).2.2.map (fun o => (o.seq, o.data))) = [(1001, [1, 2, 3, 4, 5])] :=
  ⟨⟨SE_fresh _ rfl rfl rfl rfl (by decide) (by decide), by decide, by decide⟩,
   E4_fresh _ rfl (by decide) rfl (by decide), rfl, by decide⟩

end Props.C04
