import NetProto.Model.Sleep
import NetProto.Generated.Shapes
/-! # C19 — Sleeper/Waker never lose or invent a wake-up

Model: `Model/Sleep.lean`, an interleaving model of `pkg/sleep/sleep_unsafe.go` with one step per atomic operation
(the schedule points compiled in under the `verif` tag): `Waker.Assert`, `Waker.Clear`, `enqueueAssertedWaker`
(CAS push and the wake loop), `nextWaker` (prepare / re-check / commit inside `gopark` / swap), `Fetch`.  Any number
of asserting goroutines, one fetching goroutine, all wakers attached.
Tie: the control / atomic-operation skeleton of these functions is regenerated from the source on every run and
pinned below; a forced-schedule harness drives the real code one atomic operation at a time and compares every
outcome with the model.

Proved for every interleaving: the location invariant (an asserted waker is in exactly one place: shared stack, local
list, a push in flight, or the fetcher's hands), the wake-up invariant, and from them: no lost wake-up, nothing
invented, one notification per batch of assertions, the non-blocking fetch clause, no duplicates.
Not modelled: `AddWaker` on an already asserted waker and `Done` (detach protocol) -- exercised by the harness only;
the two operations inside `commitSleep` are separate model steps but cannot be separated by the harness (they run on
the system stack). -/
namespace Props.C19
open Model.Sleep

/-! ## the source skeleton the model mirrors -/

def expect_sleep_nextWaker : List String :=
  ["if[(==) v0 localList nil]", "then", "for",
   "cond[(&&) verifPoint verifNextLoad (==) atomic LoadPointer & v0 sharedList nil]",
   "call[atomic LoadPointer(& v0 sharedList)]", "if[! v1]", "then", "ret[nil]", "fi",
   "call[atomic StoreUintptr(& v0 waitingG,preparingG)]",
   "if[(&&) verifPoint verifNextRecheck (!=) atomic LoadPointer & v0 sharedList nil]",
   "call[atomic LoadPointer(& v0 sharedList)]", "then", "call[atomic StoreUintptr(& v0 waitingG,0)]", "break",
   "fi", "call[gopark(commitSleep,& v0 waitingG,\"sleeper\",v2,0)]", "rof",
   "call[atomic SwapPointer(& v0 sharedList,nil)]", "call[Waker(atomic SwapPointer & v0 sharedList nil)]",
   "assign[v3]", "for", "cond[(!=) v3 nil]", "assign[v4]", "assign[v3]", "assign[v4 next]", "assign[v0 localList]",
   "rof", "fi", "assign[v5]", "assign[v0 localList]", "ret[v5]"]
def expect_sleep_Fetch : List String :=
  ["for", "call[v0 nextWaker(v1)]", "assign[v4]", "if[(==) v4 nil]", "then", "ret[- 1,false]", "fi",
   "call[usleeper(v0)]", "call[atomic SwapPointer(& v4 s,usleeper v0)]",
   "call[Sleeper(atomic SwapPointer & v4 s usleeper v0)]", "assign[v5]", "if[(==) v5 & assertedSleeper]", "then",
   "ret[v4 id,true]", "fi", "rof"]
def expect_sleep_enqueue : List String :=
  ["for", "call[atomic LoadPointer(& v0 sharedList)]", "call[Waker(atomic LoadPointer & v0 sharedList)]",
   "assign[v2]", "assign[v1 next]", "if[atomic CompareAndSwapPointer & v0 sharedList uwaker v2 uwaker v1]",
   "call[uwaker(v2)]", "call[uwaker(v1)]",
   "call[atomic CompareAndSwapPointer(& v0 sharedList,uwaker v2,uwaker v1)]", "then", "break", "fi", "rof", "for",
   "call[atomic LoadUintptr(& v0 waitingG)]", "assign[v3]", "if[(==) v3 0]", "then", "ret[]", "fi",
   "if[atomic CompareAndSwapUintptr & v0 waitingG v3 0]", "call[atomic CompareAndSwapUintptr(& v0 waitingG,v3,0)]",
   "then", "if[(!=) v3 preparingG]", "then", "call[goready(v3,0)]", "fi", "fi", "rof"]
def expect_sleep_Assert : List String :=
  ["if[(&&) verifPoint verifAssertLoad (==) atomic LoadPointer & v0 s usleeper & assertedSleeper]",
   "call[atomic LoadPointer(& v0 s)]", "call[usleeper(& assertedSleeper)]", "then", "ret[]", "fi",
   "call[usleeper(& assertedSleeper)]", "call[atomic SwapPointer(& v0 s,usleeper & assertedSleeper)]",
   "call[Sleeper(atomic SwapPointer & v0 s usleeper & assertedSleeper)]", "assign[v1]",
   "call[v1 enqueueAssertedWaker(v0)]"]
def expect_sleep_Clear : List String :=
  ["if[(&&) verifPoint verifClearLoad (!=) atomic LoadPointer & v0 s usleeper & assertedSleeper]",
   "call[atomic LoadPointer(& v0 s)]", "call[usleeper(& assertedSleeper)]", "then", "ret[false]", "fi",
   "call[usleeper(& assertedSleeper)]",
   "call[atomic CompareAndSwapPointer(& v0 s,usleeper & assertedSleeper,nil)]",
   "ret[atomic CompareAndSwapPointer & v0 s usleeper & assertedSleeper nil]"]

theorem source_skeleton_pinned :
    Gen.Shapes.sleep_nextWaker = expect_sleep_nextWaker ∧ Gen.Shapes.sleep_Fetch = expect_sleep_Fetch ∧
    Gen.Shapes.sleep_enqueue = expect_sleep_enqueue ∧ Gen.Shapes.sleep_Assert = expect_sleep_Assert ∧
    Gen.Shapes.sleep_Clear = expect_sleep_Clear := by decide


/-! ## where an asserted waker is -/

/-- the waker is being pushed by this thread (its `Assert` has not completed) -/
def inflight (k : Nat) : APC → Nat
  | .e1 j => if j = k then 1 else 0
  | .e2 j _ => if j = k then 1 else 0
  | _ => 0

def sumOver (g : APC → Nat) (l : List APC) : Nat := (l.map g).foldl (· + ·) 0

theorem foldl_add (l : List Nat) (a : Nat) : l.foldl (· + ·) a = a + l.foldl (· + ·) 0 := by
  induction l generalizing a with
  | nil => simp
  | cons x t ih => simp only [List.foldl_cons]; rw [ih (a + x), ih (0 + x)]; omega

theorem sumOver_cons (g : APC → Nat) (p : APC) (l : List APC) : sumOver g (p :: l) = g p + sumOver g l := by
  unfold sumOver; simp only [List.map_cons, List.foldl_cons]; rw [foldl_add]; omega

/-- replacing one thread's pc changes the sum by exactly that thread's contribution -/
theorem sumOver_set (g : APC → Nat) (l : List APC) (t : Nat) (old p : APC) (h : l[t]? = some old) :
    sumOver g (l.set t p) + g old = sumOver g l + g p := by
  induction l generalizing t with
  | nil => simp at h
  | cons x rest ih =>
    cases t with
    | zero =>
      simp at h; subst h
      simp only [List.set_cons_zero, sumOver_cons]; omega
    | succ n =>
      simp at h
      simp only [List.set_cons_succ, sumOver_cons]
      have := ih n h
      omega

/-- number of places waker `k` currently sits in: the shared stack, the local list, a push in flight, or in the
fetcher's hands -/
def loc (s : St) (k : Nat) : Nat :=
  s.shared.count k + s.local_.count k + sumOver (inflight k) s.ts + (if s.f = .f1 k then 1 else 0)

/-- **location invariant**: a waker attached and idle (`w.s = sleeper`) is nowhere; an asserted (or asserted-then-
cleared) one is in exactly one place -- never lost, never duplicated -/
def J (s : St) : Prop := ∀ k, (s.ws k = .slp → loc s k = 0) ∧ (s.ws k ≠ .slp → loc s k = 1)

/-- the fetcher's private list is empty whenever it looks at the shared one -/
def N (s : St) : Prop := (s.f = .idle ∨ ∃ k, s.f = .f1 k) ∨ s.local_ = []

/-- `waitingG` holds a real g exactly while the fetcher sleeps, and `preparing` only between its decision and commit -/
def Mi (s : St) : Prop :=
  (s.wg = .parked ↔ s.f = .parked) ∧ (s.wg = .preparing → (s.f = .n4 ∨ s.f = .n5 ∨ s.f = .park ∨ s.f = .cs2))

def waking : APC → Bool
  | .e3 _ => true
  | .e4 _ _ => true
  | _ => false

/-- **wake-up invariant**: if the fetcher is committing to sleep or asleep with `waitingG` still set, every pushed
waker has a pusher that has not finished its wake loop -/
def K (s : St) : Prop :=
  (s.f = .park ∨ s.f = .cs2 ∨ s.f = .parked) → s.wg ≠ .zero → s.shared ≠ [] → ∃ p ∈ s.ts, waking p = true

def SInv (s : St) : Prop := J s ∧ N s ∧ Mi s ∧ K s

theorem inv_init (n : Nat) : SInv (St.init n) := by
  refine ⟨?_, Or.inl (Or.inl rfl), ⟨by simp [St.init], by simp [St.init]⟩, by simp [K, St.init]⟩
  intro k
  have hs : sumOver (inflight k) (List.replicate n APC.idle) = 0 := by
    induction n with
    | zero => rfl
    | succ m ih => rw [List.replicate_succ, sumOver_cons, ih]; rfl
  simp [St.init, loc, hs]

/-! ## the fetcher's steps keep the invariant -/

theorem loc_eq (s s' : St) (k : Nat) (h1 : s'.shared = s.shared) (h2 : s'.local_ = s.local_) (h3 : s'.ts = s.ts)
    (h4 : (s'.f = .f1 k) ↔ (s.f = .f1 k)) : loc s' k = loc s k := by
  unfold loc
  rw [h1, h2, h3]
  by_cases h : s.f = .f1 k
  · rw [if_pos h, if_pos (h4.mpr h)]
  · rw [if_neg h, if_neg (fun x => h (h4.mp x))]

/-- popping the local list moves a waker from the list into the fetcher's hands -/
theorem loc_popLocal (s : St) (k : Nat) (hf : ∀ j, s.f ≠ .f1 j) : loc s.popLocal k = loc s k := by
  unfold St.popLocal
  cases hl : s.local_ with
  | nil =>
    simp only
    unfold loc
    simp [hl, hf k]
  | cons j rest =>
    simp only
    unfold loc
    simp only [hl, List.count_cons, hf k, if_false]
    by_cases hjk : j = k
    · subst hjk; simp; omega
    · have : ¬ (FPC.f1 j = FPC.f1 k) := by intro h; injection h with h; exact hjk h
      simp [hjk, this]

theorem popLocal_frame (s : St) : s.popLocal.ws = s.ws ∧ s.popLocal.shared = s.shared ∧ s.popLocal.ts = s.ts ∧
    s.popLocal.wg = s.wg ∧ ((s.popLocal.f = .n2 ∧ s.popLocal.local_ = []) ∨ ∃ k, s.popLocal.f = .f1 k) := by
  unfold St.popLocal
  cases hl : s.local_ with
  | nil => exact ⟨rfl, rfl, rfl, rfl, Or.inl ⟨rfl, by simp [hl]⟩⟩
  | cons j rest => exact ⟨rfl, rfl, rfl, rfl, Or.inr ⟨j, rfl⟩⟩

theorem J_of_same (s s' : St) (h : J s) (hws : s'.ws = s.ws) (hloc : ∀ k, loc s' k = loc s k) : J s' := by
  intro k; rw [hws, hloc k]; exact h k

theorem fstep_J (s : St) (h : J s) (hn : N s) : J (s.fstep).1 := by
  unfold St.fstep
  cases hf : s.f with
  | idle => exact h
  | parked => exact h
  | n2 =>
    simp only
    split
    · exact J_of_same s _ h rfl (fun k => loc_eq s _ k rfl rfl rfl (by simp [hf]))
    · split
      · exact J_of_same s _ h rfl (fun k => loc_eq s _ k rfl rfl rfl (by simp [hf]))
      · exact J_of_same s _ h rfl (fun k => loc_eq s _ k rfl rfl rfl (by simp [hf]))
  | n3 => exact J_of_same s _ h rfl (fun k => loc_eq s _ k rfl rfl rfl (by simp [hf]))
  | n4 =>
    simp only
    split
    · exact J_of_same s _ h rfl (fun k => loc_eq s _ k rfl rfl rfl (by simp [hf]))
    · exact J_of_same s _ h rfl (fun k => loc_eq s _ k rfl rfl rfl (by simp [hf]))
  | n5 => exact J_of_same s _ h rfl (fun k => loc_eq s _ k rfl rfl rfl (by simp [hf]))
  | park =>
    simp only
    split
    · exact J_of_same s _ h rfl (fun k => loc_eq s _ k rfl rfl rfl (by simp [hf]))
    · exact J_of_same s _ h rfl (fun k => loc_eq s _ k rfl rfl rfl (by simp [hf]))
  | cs2 =>
    simp only
    split
    · exact J_of_same s _ h rfl (fun k => loc_eq s _ k rfl rfl rfl (by simp [hf]))
    · exact J_of_same s _ h rfl (fun k => loc_eq s _ k rfl rfl rfl (by simp [hf]))
  | n7 =>
    simp only
    have hl : s.local_ = [] := by
      rcases hn with (h1 | ⟨k, h1⟩) | h1
      · rw [hf] at h1; cases h1
      · rw [hf] at h1; cases h1
      · exact h1
    intro k
    rw [(popLocal_frame _).1, loc_popLocal _ k (by intro j; simp)]
    have : loc { s with shared := [], local_ := s.shared.reverse ++ s.local_, f := .n7 } k = loc s k := by
      unfold loc
      simp [hl, hf, List.count_reverse]
    rw [this]
    exact h k
  | f1 k =>
    simp only
    have hk := h k
    have hloc1 : loc s k ≥ 1 := by unfold loc; simp [hf]
    have hne : s.ws k ≠ .slp := by intro hc; have := hk.1 hc; omega
    have hone := hk.2 hne
    -- the state with the pointer swapped back and the fetcher's hands empty
    have base : ∀ (g : FPC), (∀ j, g ≠ .f1 j) → J { s with ws := setWs s.ws k .slp, f := g } := by
      intro g hg j
      by_cases hjk : j = k
      · subst hjk
        constructor
        · intro _
          unfold loc at hone ⊢
          simp [hf, hg j] at hone ⊢
          omega
        · intro hc; simp [setWs] at hc
      · have hw : setWs s.ws k .slp j = s.ws j := by simp [setWs, hjk]
        have hl : loc { s with ws := setWs s.ws k .slp, f := g } j = loc s j := by
          apply loc_eq s { s with ws := setWs s.ws k .slp, f := g } j rfl rfl rfl
          simp only [hf]
          constructor
          · intro hh; exact absurd hh (hg j)
          · intro hh; injection hh with hh; exact absurd hh.symm hjk
        simp only [hw, hl]
        exact h j
    split
    · exact base .idle (by intro j; simp)
    · -- skip a cleared waker: pop the next one
      have hb := base .n2 (by intro j; simp)
      have e : ({ s with ws := setWs s.ws k .slp, f := .f1 k } : St).popLocal = ({ s with ws := setWs s.ws k .slp, f := .n2 } : St).popLocal := by
        unfold St.popLocal; simp only
      rw [e]
      intro j
      rw [(popLocal_frame _).1, loc_popLocal _ j (by intro i; simp)]
      exact hb j

theorem popLocal_N (s : St) : N s.popLocal := by
  rcases (popLocal_frame s).2.2.2.2 with ⟨_, h2⟩ | ⟨k, hk⟩
  · exact Or.inr h2
  · exact Or.inl (Or.inr ⟨k, hk⟩)

theorem fstep_N (s : St) (hn : N s) : N (s.fstep).1 := by
  have hl : (s.f ≠ .idle ∧ ∀ k, s.f ≠ .f1 k) → s.local_ = [] := by
    intro ⟨h1, h2⟩
    rcases hn with (h | ⟨k, h⟩) | h
    · exact absurd h h1
    · exact absurd h (h2 k)
    · exact h
  unfold St.fstep
  cases hf : s.f with
  | idle => simpa [N, hf] using hn
  | parked => simpa [N, hf] using hn
  | n2 =>
    have := hl (by simp [hf])
    simp only
    split
    · exact Or.inr this
    · split
      · exact Or.inl (Or.inl rfl)
      · exact Or.inr this
  | n3 => exact Or.inr (hl (by simp [hf]))
  | n4 => simp only; split <;> exact Or.inr (hl (by simp [hf]))
  | n5 => exact Or.inr (hl (by simp [hf]))
  | park => simp only; split <;> exact Or.inr (hl (by simp [hf]))
  | cs2 => simp only; split <;> exact Or.inr (hl (by simp [hf]))
  | n7 => exact popLocal_N _
  | f1 k =>
    simp only
    split
    · exact Or.inl (Or.inl rfl)
    · exact popLocal_N _

theorem fstep_Mi (s : St) (hm : Mi s) : Mi (s.fstep).1 := by
  obtain ⟨hp, hq⟩ := hm
  have pf : ∀ (s' : St), s'.wg = s.wg → ((s'.f = .parked) ↔ (s.f = .parked)) →
      (s.wg = .preparing → (s'.f = .n4 ∨ s'.f = .n5 ∨ s'.f = .park ∨ s'.f = .cs2)) → Mi s' := by
    intro s' h1 h2 h3
    exact ⟨by rw [h1, h2]; exact hp, by rw [h1]; exact h3⟩
  unfold St.fstep
  cases hf : s.f with
  | idle => exact ⟨hp, hq⟩
  | parked => exact ⟨hp, hq⟩
  | n2 =>
    have hnp : s.wg ≠ .preparing := by intro h; have := hq h; simp [hf] at this
    have hnk : s.wg ≠ .parked := by intro h; have := hp.mp h; simp [hf] at this
    simp only
    split
    · exact ⟨by simp [hnk], by intro h; exact absurd h hnp⟩
    · split
      · exact ⟨by simp [hnk], by intro h; exact absurd h hnp⟩
      · exact ⟨by simp [hnk], by intro h; exact absurd h hnp⟩
  | n3 => exact ⟨by simp, by intro _; exact Or.inl rfl⟩
  | n4 =>
    have hnk : s.wg ≠ .parked := by intro h; have := hp.mp h; simp [hf] at this
    simp only
    split
    · exact ⟨by simp [hnk], by intro _; exact Or.inr (Or.inl rfl)⟩
    · exact ⟨by simp [hnk], by intro _; exact Or.inr (Or.inr (Or.inl rfl))⟩
  | n5 => exact ⟨by simp, by intro h; simp at h⟩
  | park =>
    have hnk : s.wg ≠ .parked := by intro h; have := hp.mp h; simp [hf] at this
    simp only
    split
    · rename_i hz; exact ⟨by simp [hz], by intro h; rw [hz] at h; cases h⟩
    · exact ⟨by simp [hnk], by intro _; exact Or.inr (Or.inr (Or.inr rfl))⟩
  | cs2 =>
    have hnk : s.wg ≠ .parked := by intro h; have := hp.mp h; simp [hf] at this
    simp only
    split
    · exact ⟨by simp, by intro h; simp at h⟩
    · rename_i hnp; exact ⟨by simp [hnk], by intro h; exact absurd h hnp⟩
  | n7 =>
    have hnp : s.wg ≠ .preparing := by intro h; have := hq h; simp [hf] at this
    have hnk : s.wg ≠ .parked := by intro h; have := hp.mp h; simp [hf] at this
    have fr := popLocal_frame { s with shared := [], local_ := s.shared.reverse ++ s.local_, f := .n7 }
    refine ⟨?_, ?_⟩
    · rw [fr.2.2.2.1]
      simp only [hnk, false_iff]
      rcases fr.2.2.2.2 with ⟨h, _⟩ | ⟨k, h⟩ <;> rw [h] <;> simp
    · rw [fr.2.2.2.1]; intro h; exact absurd h hnp
  | f1 k =>
    have hnp : s.wg ≠ .preparing := by intro h; have := hq h; simp [hf] at this
    have hnk : s.wg ≠ .parked := by intro h; have := hp.mp h; simp [hf] at this
    simp only
    split
    · exact ⟨by simp [hnk], by intro h; exact absurd h hnp⟩
    · have fr := popLocal_frame { s with ws := setWs s.ws k .slp, f := .f1 k }
      refine ⟨?_, ?_⟩
      · rw [fr.2.2.2.1]
        simp only [hnk, false_iff]
        rcases fr.2.2.2.2 with ⟨h, _⟩ | ⟨j, h⟩ <;> rw [h] <;> simp
      · rw [fr.2.2.2.1]; intro h; exact absurd h hnp

theorem fstep_K (s : St) (hk : K s) (hm : Mi s) : K (s.fstep).1 := by
  -- a state whose fetcher is not committing / asleep satisfies K trivially
  have triv : ∀ (s' : St), (s'.f ≠ .park ∧ s'.f ≠ .cs2 ∧ s'.f ≠ .parked) → K s' := by
    intro s' ⟨h1, h2, h3⟩ hh
    rcases hh with h | h | h
    · exact absurd h h1
    · exact absurd h h2
    · exact absurd h h3
  unfold St.fstep
  cases hf : s.f with
  | idle => exact triv _ (by simp [hf])
  | parked => exact hk
  | n2 =>
    simp only
    split
    · exact triv _ (by simp)
    · split <;> exact triv _ (by simp)
  | n3 => exact triv _ (by simp)
  | n4 =>
    simp only
    split
    · exact triv _ (by simp)
    · rename_i he
      intro _ _ hs
      simp at he
      exact absurd he hs
  | n5 => exact triv _ (by simp)
  | park =>
    simp only
    split
    · exact triv _ (by simp)
    · intro _ hz hs
      exact hk (Or.inl hf) hz hs
  | cs2 =>
    simp only
    split
    · rename_i hprep
      intro _ _ hs
      exact hk (Or.inr (Or.inl hf)) (by rw [hprep]; simp) hs
    · intro _ hz hs
      exact hk (Or.inr (Or.inl hf)) hz hs
  | n7 =>
    have fr := popLocal_frame { s with shared := [], local_ := s.shared.reverse ++ s.local_, f := .n7 }
    apply triv
    rcases fr.2.2.2.2 with ⟨h, _⟩ | ⟨k, h⟩ <;> rw [h] <;> simp
  | f1 k =>
    simp only
    split
    · exact triv _ (by simp)
    · have fr := popLocal_frame { s with ws := setWs s.ws k .slp, f := .f1 k }
      apply triv
      rcases fr.2.2.2.2 with ⟨h, _⟩ | ⟨j, h⟩ <;> rw [h] <;> simp

/-! ## the asserting / clearing goroutines' steps keep the invariant -/

theorem mem_set_of_ne {l : List APC} {t : Nat} {new p : APC} (hp : p ∈ l.set t new) : p = new ∨ p ∈ l := by
  rcases List.mem_or_eq_of_mem_set hp with h | h
  · exact Or.inr h
  · exact Or.inl h

theorem waking_set (l : List APC) (t : Nat) (old new : APC) (h : l[t]? = some old)
    (hw : ∃ p ∈ l, waking p = true) (hcase : waking old = false ∨ waking new = true) : ∃ p ∈ l.set t new, waking p = true := by
  have hlt : t < l.length := by
    rcases Nat.lt_or_ge t l.length with h' | h'
    · exact h'
    · rw [List.getElem?_eq_none h'] at h; cases h
  rcases hcase with hc | hc
  · obtain ⟨p, hp, hpw⟩ := hw
    obtain ⟨i, hi, rfl⟩ := List.getElem_of_mem hp
    by_cases hit : i = t
    · subst hit
      have : l[i]? = some l[i] := List.getElem?_eq_getElem hi
      rw [this] at h; injection h with h; rw [h] at hpw; rw [hpw] at hc; cases hc
    · refine ⟨l[i], ?_, hpw⟩
      have : (l.set t new)[i]? = some l[i] := by
        rw [List.getElem?_set_ne (Ne.symm hit)]; exact List.getElem?_eq_getElem hi
      exact List.mem_of_getElem? this
  · exact ⟨new, List.mem_of_getElem? (by rw [List.getElem?_set_self hlt]), hc⟩

theorem new_waking_mem (l : List APC) (t : Nat) (old new : APC) (h : l[t]? = some old) (hc : waking new = true) :
    ∃ p ∈ l.set t new, waking p = true := by
  have hlt : t < l.length := by
    rcases Nat.lt_or_ge t l.length with h' | h'
    · exact h'
    · rw [List.getElem?_eq_none h'] at h; cases h
  exact ⟨new, List.mem_of_getElem? (by rw [List.getElem?_set_self hlt]), hc⟩

/-- changing one thread's pc (and nothing that `loc` reads besides) shifts `loc` by the in-flight contributions -/
theorem loc_set_ts (s : St) (t : Nat) (old new : APC) (k : Nat) (h : s.ts[t]? = some old) (s' : St)
    (h1 : s'.shared = s.shared) (h2 : s'.local_ = s.local_) (h3 : s'.ts = s.ts.set t new) (h4 : s'.f = s.f) :
    loc s' k + inflight k old = loc s k + inflight k new := by
  unfold loc
  rw [h1, h2, h3, h4]
  have := sumOver_set (inflight k) s.ts t old new h
  omega

/-- a pc change between pcs that hold no waker in flight leaves every `loc` alone -/
theorem J_set_plain (s : St) (t : Nat) (old new : APC) (h : s.ts[t]? = some old) (hj : J s)
    (ho : ∀ k, inflight k old = 0) (hn : ∀ k, inflight k new = 0) : J { s with ts := s.ts.set t new } := by
  intro k
  have := loc_set_ts s t old new k h { s with ts := s.ts.set t new } rfl rfl rfl rfl
  rw [ho k, hn k] at this
  simp only [Nat.add_zero] at this
  rw [this]
  exact hj k

theorem setWs_same (ws : Nat → WS) (k : Nat) (v : WS) : setWs ws k v k = v := by simp [setWs]
theorem setWs_other (ws : Nat → WS) (k j : Nat) (v : WS) (h : j ≠ k) : setWs ws k v j = ws j := by simp [setWs, h]

theorem astep_J (s : St) (t : Nat) (hj : J s) (hm : Mi s) : J (s.astep t).1 := by
  unfold St.astep
  cases hts : s.ts[t]? with
  | none => exact hj
  | some pc =>
    simp only
    cases pc with
    | idle => exact hj
    | a1 k =>
      simp only
      split
      · exact J_set_plain s t _ _ hts hj (by intro j; rfl) (by intro j; rfl)
      · exact J_set_plain s t _ _ hts hj (by intro j; rfl) (by intro j; rfl)
    | a2 k =>
      simp only
      split
      · -- the swap found the sleeper: the waker is now asserted and in flight
        rename_i hold
        intro j
        have hl := loc_set_ts s t (.a2 k) (.e1 k) j hts { s with ws := setWs s.ws k .asserted, ts := s.ts.set t (.e1 k) } rfl rfl rfl rfl
        by_cases hjk : j = k
        · subst hjk
          have h0 := (hj j).1 hold
          simp [inflight] at hl
          refine ⟨by intro hc; simp [setWs] at hc, fun _ => ?_⟩
          show loc { s with ws := setWs s.ws j .asserted, ts := s.ts.set t (.e1 j) } j = 1
          omega
        · simp [inflight, Ne.symm hjk] at hl
          show (setWs s.ws k .asserted j = .slp → _) ∧ (setWs s.ws k .asserted j ≠ .slp → _)
          rw [setWs_other _ _ _ _ hjk, hl]
          exact hj j
      · rename_i hold
        intro j
        have hl := loc_set_ts s t (.a2 k) .idle j hts { s with ws := setWs s.ws k .asserted, ts := s.ts.set t .idle } rfl rfl rfl rfl
        simp only [inflight, Nat.add_zero] at hl
        by_cases hjk : j = k
        · subst hjk
          refine ⟨by intro hc; simp [setWs] at hc, fun _ => by rw [hl]; exact (hj j).2 hold⟩
        · show (setWs s.ws k .asserted j = .slp → _) ∧ (setWs s.ws k .asserted j ≠ .slp → _)
          rw [setWs_other _ _ _ _ hjk, hl]
          exact hj j
    | e1 k =>
      intro j
      have hl := loc_set_ts s t (.e1 k) (.e2 k s.shared.head?) j hts { s with ts := s.ts.set t (.e2 k s.shared.head?) } rfl rfl rfl rfl
      simp only [inflight] at hl
      have : loc { s with ts := s.ts.set t (.e2 k s.shared.head?) } j = loc s j := by omega
      rw [this]; exact hj j
    | e2 k snap =>
      simp only
      split
      · intro j
        -- pushed: from "in flight" onto the shared stack
        have hsum := sumOver_set (inflight j) s.ts t (.e2 k snap) (.e3 k) hts
        simp only [inflight] at hsum
        have : loc { s with shared := k :: s.shared, ts := s.ts.set t (.e3 k) } j = loc s j := by
          unfold loc
          simp only [List.count_cons]
          by_cases hkj : k = j
          · subst hkj; simp at hsum ⊢; omega
          · have h2 : ¬ (j = k) := fun h => hkj h.symm
            simp [hkj, h2] at hsum ⊢; omega
        rw [this]; exact hj j
      · intro j
        have hl := loc_set_ts s t (.e2 k snap) (.e1 k) j hts { s with ts := s.ts.set t (.e1 k) } rfl rfl rfl rfl
        simp only [inflight] at hl
        have : loc { s with ts := s.ts.set t (.e1 k) } j = loc s j := by omega
        rw [this]; exact hj j
    | e3 k =>
      simp only
      split
      · exact J_set_plain s t _ _ hts hj (by intro j; rfl) (by intro j; rfl)
      · exact J_set_plain s t _ _ hts hj (by intro j; rfl) (by intro j; rfl)
    | e4 k g =>
      simp only
      split
      · rename_i hwg
        intro j
        -- the fetcher's pc changes only from `parked` to `n2`: neither holds a waker
        have hfj : (if g = .parked then FPC.n2 else s.f) = .f1 j ↔ s.f = .f1 j := by
          by_cases hg : g = .parked
          · have hp : s.f = .parked := hm.1.mp (by rw [hwg, hg])
            simp [hg, hp]
          · simp [hg]
        have h1 : loc { s with wg := .zero, f := if g = .parked then .n2 else s.f, ts := s.ts.set t (.e3 k) } j =
            loc { s with ts := s.ts.set t (.e3 k) } j :=
          loc_eq { s with ts := s.ts.set t (.e3 k) } _ j rfl rfl rfl hfj
        have hl := loc_set_ts s t (.e4 k g) (.e3 k) j hts { s with ts := s.ts.set t (.e3 k) } rfl rfl rfl rfl
        simp only [inflight, Nat.add_zero] at hl
        show (s.ws j = .slp → _) ∧ (s.ws j ≠ .slp → _)
        rw [h1, hl]
        exact hj j
      · exact J_set_plain s t _ _ hts hj (by intro j; rfl) (by intro j; rfl)
    | c1 k =>
      simp only
      split
      · exact J_set_plain s t _ _ hts hj (by intro j; rfl) (by intro j; rfl)
      · exact J_set_plain s t _ _ hts hj (by intro j; rfl) (by intro j; rfl)
    | c2 k =>
      simp only
      split
      · rename_i hold
        intro j
        have hl := loc_set_ts s t (.c2 k) .idle j hts { s with ws := setWs s.ws k .nil, ts := s.ts.set t .idle } rfl rfl rfl rfl
        simp only [inflight, Nat.add_zero] at hl
        by_cases hjk : j = k
        · subst hjk
          refine ⟨by intro hc; simp [setWs] at hc, fun _ => by rw [hl]; exact (hj j).2 (by rw [hold]; simp)⟩
        · show (setWs s.ws k .nil j = .slp → _) ∧ (setWs s.ws k .nil j ≠ .slp → _)
          rw [setWs_other _ _ _ _ hjk, hl]
          exact hj j
      · exact J_set_plain s t _ _ hts hj (by intro j; rfl) (by intro j; rfl)

/-- an asserter's step never touches the fetcher's private list, and changes the fetcher's pc only by waking it -/
theorem astep_frame (s : St) (t : Nat) : (s.astep t).1.local_ = s.local_ ∧
    ((s.astep t).1.f = s.f ∨ (s.astep t).1.f = .n2 ∧ s.wg = .parked) := by
  unfold St.astep
  cases hts : s.ts[t]? with
  | none => exact ⟨rfl, Or.inl rfl⟩
  | some pc =>
    simp only
    cases pc with
    | idle => exact ⟨rfl, Or.inl rfl⟩
    | a1 k => simp only; split <;> exact ⟨rfl, Or.inl rfl⟩
    | a2 k => simp only; split <;> exact ⟨rfl, Or.inl rfl⟩
    | e1 k => exact ⟨rfl, Or.inl rfl⟩
    | e2 k snap => simp only; split <;> exact ⟨rfl, Or.inl rfl⟩
    | e3 k => simp only; split <;> exact ⟨rfl, Or.inl rfl⟩
    | e4 k g =>
      simp only
      split
      · rename_i hwg
        refine ⟨rfl, ?_⟩
        by_cases hg : g = .parked
        · right; simp [hg, hwg]
        · left; simp [hg]
      · exact ⟨rfl, Or.inl rfl⟩
    | c1 k => simp only; split <;> exact ⟨rfl, Or.inl rfl⟩
    | c2 k => simp only; split <;> exact ⟨rfl, Or.inl rfl⟩

theorem astep_N (s : St) (t : Nat) (hn : N s) (hm : Mi s) : N (s.astep t).1 := by
  have fr := astep_frame s t
  rcases fr.2 with h | ⟨h2, h3⟩
  · unfold N; rw [fr.1, h]; exact hn
  · -- woken from `parked`: the local list was empty
    have hp : s.f = .parked := hm.1.mp h3
    unfold N; rw [fr.1]
    rcases hn with (h | ⟨k, h⟩) | h
    · rw [hp] at h; cases h
    · rw [hp] at h; cases h
    · exact Or.inr h

theorem astep_Mi (s : St) (t : Nat) (hm : Mi s) : Mi (s.astep t).1 := by
  obtain ⟨hp, hq⟩ := hm
  unfold St.astep
  cases hts : s.ts[t]? with
  | none => exact ⟨hp, hq⟩
  | some pc =>
    simp only
    cases pc with
    | idle => exact ⟨hp, hq⟩
    | a1 k => simp only; split <;> exact ⟨hp, hq⟩
    | a2 k => simp only; split <;> exact ⟨hp, hq⟩
    | e1 k => exact ⟨hp, hq⟩
    | e2 k snap => simp only; split <;> exact ⟨hp, hq⟩
    | e3 k => simp only; split <;> exact ⟨hp, hq⟩
    | e4 k g =>
      simp only
      split
      · rename_i hwg
        by_cases hg : g = .parked
        · refine ⟨by simp [hg], by intro h; simp at h⟩
        · have hnp : s.f ≠ .parked := by intro h; have := hp.mpr h; rw [hwg] at this; exact hg this
          refine ⟨by simp [hg, hnp], by intro h; simp at h⟩
      · exact ⟨hp, hq⟩
    | c1 k => simp only; split <;> exact ⟨hp, hq⟩
    | c2 k => simp only; split <;> exact ⟨hp, hq⟩

theorem astep_K (s : St) (t : Nat) (hk : K s) (hm : Mi s) : K (s.astep t).1 := by
  unfold St.astep
  cases hts : s.ts[t]? with
  | none => exact hk
  | some pc =>
    simp only
    -- steps that keep `wg`, `f`, `shared` and move between non-waking pcs
    have plain : ∀ (new : APC), waking pc = false → K { s with ts := s.ts.set t new } := by
      intro new hw hf hz hs
      exact waking_set s.ts t pc new hts (hk hf hz hs) (Or.inl hw)
    cases pc with
    | idle => exact hk
    | a1 k => simp only; split <;> exact plain _ rfl
    | a2 k =>
      simp only
      split
      · intro hf hz hs
        exact waking_set s.ts t _ _ hts (hk hf hz hs) (Or.inl rfl)
      · intro hf hz hs
        exact waking_set s.ts t _ _ hts (hk hf hz hs) (Or.inl rfl)
    | e1 k => exact plain _ rfl
    | e2 k snap =>
      simp only
      split
      · intro _ _ _
        exact new_waking_mem s.ts t _ _ hts rfl
      · exact plain _ rfl
    | e3 k =>
      simp only
      split
      · rename_i hz
        intro _ hnz _
        exact absurd hz hnz
      · intro hf hz hs
        exact new_waking_mem s.ts t _ _ hts rfl
    | e4 k g =>
      simp only
      split
      · intro _ hnz _
        exact absurd rfl hnz
      · intro hf hz hs
        exact new_waking_mem s.ts t _ _ hts rfl
    | c1 k => simp only; split <;> exact plain _ rfl
    | c2 k =>
      simp only
      split
      · intro hf hz hs
        exact waking_set s.ts t _ _ hts (hk hf hz hs) (Or.inl rfl)
      · exact plain _ rfl

/-! ## starting an operation -/

theorem startFetch_inv (s : St) (b : Bool) (h : SInv s) : SInv (s.startFetch b) := by
  unfold St.startFetch
  split
  · rename_i hidle
    obtain ⟨hj, hn, hm, hk⟩ := h
    have fr := popLocal_frame { s with block := b }
    refine ⟨?_, popLocal_N _, ?_, ?_⟩
    · intro k
      rw [fr.1, loc_popLocal _ k (by intro j; show s.f ≠ _; rw [hidle]; simp)]
      have : loc { s with block := b } k = loc s k := loc_eq s _ k rfl rfl rfl Iff.rfl
      rw [this]; exact hj k
    · have hnk : s.wg ≠ .parked := by intro hh; have := hm.1.mp hh; rw [hidle] at this; cases this
      have hnp : s.wg ≠ .preparing := by intro hh; have := hm.2 hh; rw [hidle] at this; simp at this
      refine ⟨?_, ?_⟩
      · rw [fr.2.2.2.1]; simp only [hnk, false_iff]
        rcases fr.2.2.2.2 with ⟨h1, _⟩ | ⟨k, h1⟩ <;> rw [h1] <;> simp
      · rw [fr.2.2.2.1]; intro hh; exact absurd hh hnp
    · intro hf
      rcases fr.2.2.2.2 with ⟨h1, _⟩ | ⟨k, h1⟩ <;> rw [h1] at hf <;> simp at hf
  · exact h

theorem startCall_inv (s : St) (t : Nat) (c : Call) (h : SInv s) : SInv (s.startCall t c) := by
  obtain ⟨hj, hn, hm, hk⟩ := h
  have mk : ∀ (new : APC), s.ts[t]? = some .idle → (∀ j, inflight j new = 0) → waking new = false → SInv { s with ts := s.ts.set t new } := by
    intro new hts hi _
    refine ⟨J_set_plain s t .idle new hts hj (by intro j; rfl) hi, hn, hm, ?_⟩
    intro hf hz hs
    exact waking_set s.ts t .idle new hts (hk hf hz hs) (Or.inl rfl)
  unfold St.startCall
  cases hts : s.ts[t]? with
  | none => exact ⟨hj, hn, hm, hk⟩
  | some pc =>
    cases pc <;> cases c <;> first | exact ⟨hj, hn, hm, hk⟩ | exact mk _ hts (by intro j; rfl) rfl

/-- the invariant holds in every reachable state, whatever the interleaving -/
theorem act_inv (s : St) (a : Act) (h : SInv s) : SInv (s.act a).1 := by
  cases a with
  | fetch b => exact startFetch_inv s b h
  | fstep => exact ⟨fstep_J s h.1 h.2.1, fstep_N s h.2.1, fstep_Mi s h.2.2.1, fstep_K s h.2.2.2 h.2.2.1⟩
  | call t c => exact startCall_inv s t c h
  | astep t => exact ⟨astep_J s t h.1 h.2.2.1, astep_N s t h.2.1 h.2.2.1, astep_Mi s t h.2.2.1, astep_K s t h.2.2.2 h.2.2.1⟩

theorem reachable_inv (n : Nat) (acts : List Act) : SInv (run n acts) := by
  unfold run
  have gen : ∀ (s : St), SInv s → SInv (acts.foldl (fun s a => (s.act a).1) s) := by
    induction acts with
    | nil => intro s h; exact h
    | cons a rest ih => intro s h; exact ih _ (act_inv s a h)
  exact gen _ (inv_init n)

/-! ## the property -/

theorem sumOver_idle (g : APC → Nat) (hg : g .idle = 0) (l : List APC) (h : ∀ p ∈ l, p = .idle) : sumOver g l = 0 := by
  induction l with
  | nil => rfl
  | cons x rest ih =>
    rw [sumOver_cons, h x (by simp), hg, ih (fun p hp => h p (by simp [hp]))]

/-- **C19 (no lost wake-up)**: no interleaving reaches a state in which the fetcher sleeps, every asserting
goroutine has finished, and some waker is asserted (and not cleared): a completed, unconsumed assertion always
leaves the fetcher awake or about to be woken -/
theorem no_lost_wakeup (n : Nat) (acts : List Act) :
    ¬ ((run n acts).f = .parked ∧ (∀ p ∈ (run n acts).ts, p = .idle) ∧ ∃ k, (run n acts).ws k = .asserted) := by
  obtain ⟨hj, hn, hm, hk⟩ := reachable_inv n acts
  generalize run n acts = s at *
  intro ⟨hf, hidle, k, hk1⟩
  have hl : s.local_ = [] := by
    rcases hn with (h | ⟨j, h⟩) | h
    · rw [hf] at h; cases h
    · rw [hf] at h; cases h
    · exact h
  have hloc := (hj k).2 (by rw [hk1]; simp)
  unfold loc at hloc
  rw [hl, sumOver_idle (inflight k) rfl s.ts hidle, hf] at hloc
  simp at hloc
  have hs : s.shared ≠ [] := by intro h; rw [h] at hloc; simp at hloc
  have hz : s.wg ≠ .zero := by rw [hm.1.mpr hf]; simp
  obtain ⟨p, hp, hw⟩ := hk (Or.inr (Or.inr hf)) hz hs
  rw [hidle p hp] at hw
  cases hw

/-- **C19 (nothing invented)**: `Fetch` returns an identifier only for a waker that is asserted at that moment, and
takes the assertion with it (the waker is attached and idle again afterwards) -/
theorem fetched_was_asserted (s : St) (k : Nat) (h : (s.fstep).2 = .fetched k) :
    s.ws k = .asserted ∧ (s.fstep).1.ws k = .slp := by
  unfold St.fstep at h ⊢
  cases hf : s.f with
  | f1 j =>
    simp only [hf] at h ⊢
    split at h
    · rename_i ho
      simp only [Ev.fetched.injEq] at h
      subst h
      simp [ho, setWs]
    · cases h
  | n2 => simp only [hf] at h; split at h; cases h; split at h <;> cases h
  | n4 => simp only [hf] at h; split at h <;> cases h
  | park => simp only [hf] at h; split at h <;> cases h
  | cs2 => simp only [hf] at h; split at h <;> cases h
  | idle => simp [hf] at h
  | parked => simp [hf] at h
  | n3 => simp [hf] at h
  | n5 => simp [hf] at h
  | n7 => simp [hf] at h

/-- ... and a waker becomes asserted only through the swap of an `Assert` call: asserting an already asserted waker
changes nothing (several assertions before a fetch give one notification) -/
theorem asserted_only_by_assert (s : St) (a : Act) (k : Nat) (h0 : s.ws k ≠ .asserted) (h1 : (s.act a).1.ws k = .asserted) :
    ∃ t, a = .astep t ∧ s.ts[t]? = some (.a2 k) := by
  cases a with
  | fetch b =>
    simp only [St.act, St.startFetch] at h1
    split at h1
    · rw [(popLocal_frame _).1] at h1; exact absurd h1 h0
    · exact absurd h1 h0
  | call t c =>
    simp only [St.act, St.startCall] at h1
    split at h1 <;> exact absurd h1 h0
  | fstep =>
    simp only [St.act] at h1
    unfold St.fstep at h1
    cases hf : s.f with
    | f1 j =>
      simp only [hf] at h1
      split at h1
      · simp only [setWs] at h1; split at h1; cases h1; exact absurd h1 h0
      · rw [(popLocal_frame _).1] at h1; simp only [setWs] at h1; split at h1; cases h1; exact absurd h1 h0
    | n7 => simp only [hf] at h1; rw [(popLocal_frame _).1] at h1; exact absurd h1 h0
    | n2 => simp only [hf] at h1; split at h1; exact absurd h1 h0; split at h1 <;> exact absurd h1 h0
    | n4 => simp only [hf] at h1; split at h1 <;> exact absurd h1 h0
    | park => simp only [hf] at h1; split at h1 <;> exact absurd h1 h0
    | cs2 => simp only [hf] at h1; split at h1 <;> exact absurd h1 h0
    | idle => simp only [hf] at h1; exact absurd h1 h0
    | parked => simp only [hf] at h1; exact absurd h1 h0
    | n3 => simp only [hf] at h1; exact absurd h1 h0
    | n5 => simp only [hf] at h1; exact absurd h1 h0
  | astep t =>
    refine ⟨t, rfl, ?_⟩
    simp only [St.act] at h1
    unfold St.astep at h1
    cases hts : s.ts[t]? with
    | none => simp only [hts] at h1; exact absurd h1 h0
    | some pc =>
      simp only [hts] at h1
      cases pc with
      | a2 j =>
        simp only at h1
        by_cases hjk : j = k
        · rw [hjk]
        · split at h1 <;> (simp only [setWs] at h1; rw [if_neg (fun h => hjk h.symm)] at h1; exact absurd h1 h0)
      | idle => exact absurd h1 h0
      | a1 j => simp only at h1; split at h1 <;> exact absurd h1 h0
      | e1 j => exact absurd h1 h0
      | e2 j sn => simp only at h1; split at h1 <;> exact absurd h1 h0
      | e3 j => simp only at h1; split at h1 <;> exact absurd h1 h0
      | e4 j g => simp only at h1; split at h1 <;> exact absurd h1 h0
      | c1 j => simp only at h1; split at h1 <;> exact absurd h1 h0
      | c2 j =>
        simp only at h1
        split at h1
        · simp only [setWs] at h1; split at h1; cases h1; exact absurd h1 h0
        · exact absurd h1 h0

/-- **C19 (non-blocking fetch)**: `Fetch(false)` reports nothing only when no attached waker has a completed,
unconsumed assertion: every waker asserted at that moment is still being pushed by its `Assert` call -/
theorem fetchNone_only_if_nothing_completed (n : Nat) (acts : List Act) (h : ((run n acts).fstep).2 = .fetchNone) :
    ∀ k, (run n acts).ws k = .asserted → 0 < sumOver (inflight k) (run n acts).ts := by
  obtain ⟨hj, hn, hm, hk⟩ := reachable_inv n acts
  generalize run n acts = s at *
  intro k hk1
  have hf : s.f = .n2 ∧ s.shared = [] := by
    unfold St.fstep at h
    cases hf : s.f with
    | n2 =>
      simp only [hf] at h
      split at h
      · cases h
      · rename_i hs; exact ⟨rfl, by simpa using hs⟩
    | f1 j => simp only [hf] at h; split at h <;> cases h
    | n4 => simp only [hf] at h; split at h <;> cases h
    | park => simp only [hf] at h; split at h <;> cases h
    | cs2 => simp only [hf] at h; split at h <;> cases h
    | idle => simp [hf] at h
    | parked => simp [hf] at h
    | n3 => simp [hf] at h
    | n5 => simp [hf] at h
    | n7 => simp [hf] at h
  have hl : s.local_ = [] := by
    rcases hn with (h' | ⟨j, h'⟩) | h'
    · rw [hf.1] at h'; cases h'
    · rw [hf.1] at h'; cases h'
    · exact h'
  have hloc := (hj k).2 (by rw [hk1]; simp)
  unfold loc at hloc
  rw [hl, hf.2, hf.1] at hloc
  simp at hloc
  omega

/-- **C19 (no duplicates)**: a waker is never queued twice -/
theorem never_queued_twice (n : Nat) (acts : List Act) (k : Nat) :
    (run n acts).shared.count k + (run n acts).local_.count k ≤ 1 := by
  have hj := (reachable_inv n acts).1 k
  by_cases h : (run n acts).ws k = .slp
  · have := hj.1 h; unfold loc at this; omega
  · have := hj.2 h; unfold loc at this; omega

/-- KNOWN FINDING (c19.nonblocking-fetch-misses-assertion-whose-push-is-in-flight): the non-blocking clause as worded --
"reports nothing only if no attached waker has a completed, unconsumed assertion" -- fails in one corner: goroutine 0's
`Assert(1)` has swapped the waker to asserted but not pushed it yet; goroutine 1's `Assert(1)` sees it asserted and
returns (a completed assertion); `Fetch(false)` finds the shared list empty and reports nothing.  (The theorem
`fetchNone_only_if_nothing_completed` states the clause the code does satisfy: a push is still in flight.) -/
theorem nonblocking_miss_witness :
    let acts : List Act := [.fetch false, .call 0 (.assert 1), .astep 0, .astep 0,   -- goroutine 0: load, swap: asserted, push pending
      .call 1 (.assert 1), .astep 1]                                                  -- goroutine 1: sees it asserted, returns
    (run 2 acts).ts[1]? = some .idle ∧ (run 2 acts).ws 1 = .asserted ∧ ((run 2 acts).fstep).2 = .fetchNone := by decide

/-- non-vacuity: the classic race -- the assert lands between the fetcher's decision to sleep and its commit; the
fetcher does not sleep and fetches the waker -/
example :
    let acts : List Act := [.fetch true, .fstep, .fstep, .fstep,          -- n2 (empty) → n3 → n4 (still empty) → park
      .call 0 (.assert 5), .astep 0, .astep 0, .astep 0, .astep 0, .astep 0, .astep 0, .astep 0,  -- push, see preparing, CAS it to 0
      .fstep, .fstep, .fstep]                                              -- commit sees 0 → n2 → n7 → f1
    (run 1 acts).f = .f1 5 ∧ (run 1 acts).wg = .zero := by decide

end Props.C19
