import NetProto.Model.Frag
/-!
# C08 — IPv4 reassembly returns exactly the original datagram
-/
namespace C08
open Model.Frag

/-- byte index `x` lies in a live (not deleted) hole -/
def live (hs : List Hole) (x : Nat) : Prop :=
  ∃ h ∈ hs, h.deleted = false ∧ h.first ≤ x ∧ x ≤ h.last

/-! ## `updateHoles`, pointwise -/

theorem hit_iff (h : Hole) (f l : Nat) :
    hit h f l = true ↔ h.deleted = false ∧ f ≤ h.last ∧ h.first ≤ l := by
  unfold hit
  cases hd : h.deleted <;> simp <;> omega

theorem mem_pieces (h : Hole) (f l : Nat) (more : Bool) (p : Hole) :
    p ∈ pieces h f l more ↔
      (f > h.first ∧ p = ⟨h.first, f - 1, false⟩) ∨ (l < h.last ∧ more = true ∧ p = ⟨l + 1, h.last, false⟩) := by
  unfold pieces
  by_cases h1 : f > h.first <;> by_cases h2 : l < h.last <;> cases more <;> simp [h1, h2]

/-- what is still a hole after a fragment `[f,l]` has been processed -/
theorem live_updateHoles (hs : List Hole) (f l : Nat) (more : Bool) (x : Nat) :
    live (updateHoles hs f l more) x ↔
      ∃ h ∈ hs, h.deleted = false ∧ h.first ≤ x ∧ x ≤ h.last ∧
        (hit h f l = false ∨ x < f ∨ (l < x ∧ more = true)) := by
  unfold live updateHoles
  constructor
  · rintro ⟨p, hp, hpd, hp1, hp2⟩
    rw [List.mem_append] at hp
    rcases hp with hp | hp
    · rw [List.mem_map] at hp
      obtain ⟨h, hh, rfl⟩ := hp
      by_cases hh' : hit h f l = true
      · simp [hh'] at hpd
      · simp only [hh', Bool.false_eq_true, if_false] at hpd hp1 hp2
        exact ⟨h, hh, hpd, hp1, hp2, Or.inl (by simpa using hh')⟩
    · rw [List.mem_flatMap] at hp
      obtain ⟨h, hh, hp⟩ := hp
      by_cases hh' : hit h f l = true
      · simp only [hh', if_true] at hp
        have hi := (hit_iff h f l).mp hh'
        rw [mem_pieces] at hp
        rcases hp with ⟨hf, rfl⟩ | ⟨hl, hm, rfl⟩
        · simp only at hp1 hp2
          exact ⟨h, hh, hi.1, hp1, by omega, Or.inr (Or.inl (by omega))⟩
        · simp only at hp1 hp2
          exact ⟨h, hh, hi.1, by omega, hp2, Or.inr (Or.inr ⟨by omega, hm⟩)⟩
      · simp [hh'] at hp
  · rintro ⟨h, hh, hd, h1, h2, hc⟩
    by_cases hh' : hit h f l = true
    · have hi := (hit_iff h f l).mp hh'
      rcases hc with hc | hc | ⟨hc, hm⟩
      · simp [hh'] at hc
      · refine ⟨⟨h.first, f - 1, false⟩, ?_, rfl, h1, by simp only; omega⟩
        rw [List.mem_append]; right
        rw [List.mem_flatMap]
        exact ⟨h, hh, by simp only [hh', if_true]; rw [mem_pieces]; left; exact ⟨by omega, rfl⟩⟩
      · refine ⟨⟨l + 1, h.last, false⟩, ?_, rfl, by simp only; omega, h2⟩
        rw [List.mem_append]; right
        rw [List.mem_flatMap]
        exact ⟨h, hh, by simp only [hh', if_true]; rw [mem_pieces]; right; exact ⟨by omega, hm, rfl⟩⟩
    · refine ⟨h, ?_, hd, h1, h2⟩
      rw [List.mem_append]; left
      rw [List.mem_map]
      exact ⟨h, hh, by simp [hh']⟩

/-! ## the `deleted` counter -/

def delCount (hs : List Hole) : Nat := (hs.filter (·.deleted)).length

theorem delCount_append (a b : List Hole) : delCount (a ++ b) = delCount a + delCount b := by
  simp [delCount, List.filter_append]

theorem delCount_map (hs : List Hole) (f l : Nat) :
    delCount (hs.map fun h => if hit h f l then { h with deleted := true } else h) = delCount hs + hitCount hs f l := by
  induction hs with
  | nil => simp [delCount, hitCount]
  | cons h t ih =>
    unfold delCount hitCount at *
    simp only [List.map_cons, List.filter_cons]
    by_cases hh : hit h f l = true
    · have hd := ((hit_iff h f l).mp hh).1
      simp only [hh, if_true, hd, Bool.false_eq_true, if_false, List.length_cons]
      omega
    · simp only [hh, Bool.false_eq_true, if_false]
      cases hd : h.deleted <;> simp only [if_true, Bool.false_eq_true, if_false, List.length_cons] <;> omega

theorem delCount_pieces (hs : List Hole) (f l : Nat) (more : Bool) :
    delCount (hs.flatMap fun h => if hit h f l then pieces h f l more else []) = 0 := by
  unfold delCount
  rw [List.length_eq_zero_iff, List.filter_eq_nil_iff]
  intro p hp
  rw [List.mem_flatMap] at hp
  obtain ⟨h, _, hp⟩ := hp
  by_cases hh : hit h f l = true
  · simp only [hh, if_true] at hp
    rw [mem_pieces] at hp
    rcases hp with ⟨_, rfl⟩ | ⟨_, _, rfl⟩ <;> simp
  · simp [hh] at hp

theorem delCount_updateHoles (hs : List Hole) (f l : Nat) (more : Bool) :
    delCount (updateHoles hs f l more) = delCount hs + hitCount hs f l := by
  unfold updateHoles
  rw [delCount_append, delCount_pieces, delCount_map]
  omega

theorem delCount_le (hs : List Hole) : delCount hs ≤ hs.length := by
  unfold delCount; exact List.length_filter_le _ _

theorem delCount_lt_iff (hs : List Hole) : delCount hs < hs.length ↔ ∃ h ∈ hs, h.deleted = false := by
  induction hs with
  | nil => simp [delCount]
  | cons h t ih =>
    have hle := delCount_le t
    simp only [delCount, List.filter_cons, List.length_cons, List.mem_cons, exists_eq_or_imp] at *
    cases hd : h.deleted
    · simp only [Bool.false_eq_true, if_false, true_or, iff_true]; omega
    · simp only [if_true, List.length_cons, Bool.true_eq_false, false_or]
      rw [← ih]; omega

/-! ## The hole list describes exactly the bytes still missing -/

/-- `(f, l, more)` is a fragment of a datagram of `n` bytes (8-byte alignment is not needed) -/
structure IsFrag (n f l : Nat) (more : Bool) : Prop where
  le : f ≤ l
  lt : l < n
  more_iff : more = true ↔ l + 1 < n

/-- byte index covered by a processed fragment -/
def cov (C : List (Nat × Nat)) (x : Nat) : Prop := ∃ c ∈ C, c.1 ≤ x ∧ x ≤ c.2
/-- a last fragment (one ending at `n-1`) has been processed -/
def lastSeen (n : Nat) (C : List (Nat × Nat)) : Prop := ∃ c ∈ C, c.2 + 1 = n
def ValidC (n : Nat) (C : List (Nat × Nat)) : Prop := ∀ c ∈ C, c.1 ≤ c.2 ∧ c.2 < n

structure HInv (n : Nat) (hs : List Hole) (C : List (Nat × Nat)) : Prop where
  /-- live holes = bytes not yet covered, up to 65535 until the last fragment is known, then up to n-1 -/
  sem : ∀ x, live hs x ↔ (¬ cov C x ∧ x ≤ 65535 ∧ (lastSeen n C → x < n))
  shape : ∀ h ∈ hs, h.deleted = false → h.first < n ∧ h.first ≤ h.last ∧ h.last ≤ 65535

theorem hinv_init (n : Nat) (hn : 1 ≤ n) : HInv n [⟨0, 65535, false⟩] [] := by
  constructor
  · intro x
    simp [live, cov, lastSeen]
  · intro h hh _
    simp at hh
    subst hh
    simp; omega

theorem cov_cons (C : List (Nat × Nat)) (f l x : Nat) : cov ((f, l) :: C) x ↔ (f ≤ x ∧ x ≤ l) ∨ cov C x := by
  simp [cov]

theorem lastSeen_cons (n : Nat) (C : List (Nat × Nat)) (f l : Nat) :
    lastSeen n ((f, l) :: C) ↔ l + 1 = n ∨ lastSeen n C := by
  simp [lastSeen]

theorem hinv_step (n : Nat) (hs : List Hole) (C : List (Nat × Nat)) (f l : Nat) (more : Bool)
    (hI : HInv n hs C) (hf : IsFrag n f l more) (hn : n ≤ 65536) :
    HInv n (updateHoles hs f l more) ((f, l) :: C) := by
  obtain ⟨hle, hlt, hmore⟩ := hf
  constructor
  · intro x
    rw [live_updateHoles, cov_cons, lastSeen_cons]
    constructor
    · rintro ⟨h, hh, hd, h1, h2, hc⟩
      have hlive : live hs x := ⟨h, hh, hd, h1, h2⟩
      obtain ⟨s1, s2, s3⟩ := (hI.sem x).mp hlive
      obtain ⟨sh1, sh2, sh3⟩ := hI.shape h hh hd
      have hnh : hit h f l = false → ¬ (f ≤ h.last ∧ h.first ≤ l) := by
        intro hf' hcon
        have := (hit_iff h f l).mpr ⟨hd, hcon.1, hcon.2⟩
        simp [hf'] at this
      refine ⟨?_, s2, ?_⟩
      · rintro (⟨a, b⟩ | hcv)
        · rcases hc with hc | hc | ⟨hc, _⟩
          · exact hnh hc ⟨by omega, by omega⟩
          · omega
          · omega
        · exact s1 hcv
      · rintro (hl | hls)
        · rcases hc with hc | hc | ⟨hc, hm⟩
          · by_cases hx : x < n
            · exact hx
            · exact absurd ⟨by omega, by omega⟩ (hnh hc)
          · omega
          · have := hmore.mp hm; omega
        · exact s3 hls
    · rintro ⟨s1, s2, s3⟩
      have hlive : live hs x := (hI.sem x).mpr ⟨fun hcv => s1 (Or.inr hcv), s2, fun hls => s3 (Or.inr hls)⟩
      obtain ⟨h, hh, hd, h1, h2⟩ := hlive
      refine ⟨h, hh, hd, h1, h2, ?_⟩
      by_cases hxf : x < f
      · exact Or.inr (Or.inl hxf)
      · have hxl : l < x := by
          by_cases hxl : l < x
          · exact hxl
          · exact absurd (Or.inl ⟨by omega, by omega⟩) s1
        cases hm : more
        · have : ¬ (l + 1 < n) := by rw [← hmore]; simp [hm]
          have := s3 (Or.inl (by omega))
          omega
        · exact Or.inr (Or.inr ⟨hxl, rfl⟩)
  · intro p hp hpd
    unfold updateHoles at hp
    rw [List.mem_append] at hp
    rcases hp with hp | hp
    · rw [List.mem_map] at hp
      obtain ⟨h, hh, rfl⟩ := hp
      by_cases hh' : hit h f l = true
      · simp [hh'] at hpd
      · simp only [hh', Bool.false_eq_true, if_false] at hpd ⊢
        exact hI.shape h hh hpd
    · rw [List.mem_flatMap] at hp
      obtain ⟨h, hh, hp⟩ := hp
      by_cases hh' : hit h f l = true
      · simp only [hh', if_true] at hp
        have hi := (hit_iff h f l).mp hh'
        obtain ⟨sh1, sh2, sh3⟩ := hI.shape h hh hi.1
        rw [mem_pieces] at hp
        rcases hp with ⟨hf', rfl⟩ | ⟨hl', hm, rfl⟩
        · simp only; omega
        · have := hmore.mp hm
          simp only; omega
      · simp [hh'] at hp

/-- all holes closed ⇔ a last fragment was seen and every byte of `[0,n)` is covered -/
theorem closed_iff (n : Nat) (hs : List Hole) (C : List (Nat × Nat)) (hI : HInv n hs C) (hV : ValidC n C)
    (hn1 : 1 ≤ n) (hn : n ≤ 65536) :
    (¬ ∃ h ∈ hs, h.deleted = false) ↔ (lastSeen n C ∧ ∀ x, x < n → cov C x) := by
  constructor
  · intro hno
    have hnl : ∀ x, ¬ live hs x := fun x ⟨h, hh, hd, _⟩ => hno ⟨h, hh, hd⟩
    have hls : lastSeen n C := by
      by_cases hls : lastSeen n C
      · exact hls
      · exfalso
        apply hnl (n - 1)
        rw [hI.sem]
        refine ⟨?_, by omega, fun h => absurd h hls⟩
        rintro ⟨c, hc, c1, c2⟩
        have := hV c hc
        exact hls ⟨c, hc, by omega⟩
    refine ⟨hls, fun x hx => ?_⟩
    by_cases hc : cov C x
    · exact hc
    · exact absurd ((hI.sem x).mpr ⟨hc, by omega, fun _ => hx⟩) (hnl x)
  · rintro ⟨hls, hall⟩ ⟨h, hh, hd⟩
    obtain ⟨sh1, sh2, sh3⟩ := hI.shape h hh hd
    have : live hs h.first := ⟨h, hh, hd, Nat.le_refl _, sh2⟩
    obtain ⟨s1, _, _⟩ := (hI.sem _).mp this
    exact s1 (hall _ sh1)

/-! ## Reassembly of a covering, offset-sorted set of slices of `P` yields exactly `P` -/

/-- the stored fragment is the slice of `P` at its offset, non-empty -/
def SliceOf (P : List Nat) (g : Frag) : Prop :=
  g.data = (P.drop g.offset).take g.data.length ∧ g.offset + g.data.length ≤ P.length ∧ 0 < g.data.length

def covS (gs : List Frag) (x : Nat) : Prop := ∃ g ∈ gs, g.offset ≤ x ∧ x < g.offset + g.data.length
def SortedOff (gs : List Frag) : Prop := gs.Pairwise fun a b => a.offset ≤ b.offset

theorem take_append_slice (P : List Nat) (a o k : Nat) (ho : o ≤ a) (hk : o + k ≤ P.length) (ha : a ≤ P.length) :
    P.take a ++ ((P.drop o).take k).drop (a - o) = P.take (max a (o + k)) := by
  rw [List.drop_take, List.drop_drop]
  have e1 : o + (a - o) = a := by omega
  rw [e1]
  by_cases h : o + k ≤ a
  · have : k - (a - o) = 0 := by omega
    rw [this]; simp
    congr 1; omega
  · have e2 : max a (o + k) = a + (k - (a - o)) := by omega
    rw [e2, List.take_add]

theorem loop_exact_take (P : List Nat) (gs : List Frag) (a : Nat) (ha : a ≤ P.length)
    (hsl : ∀ g ∈ gs, SliceOf P g) (hso : SortedOff gs)
    (hcov : ∀ x, a ≤ x → x < P.length → covS gs x) :
    reassembleLoop gs (P.take a) = .ok P := by
  induction gs generalizing a with
  | nil =>
    have : a = P.length := by
      by_cases h : a < P.length
      · obtain ⟨g, hg, _⟩ := hcov a (Nat.le_refl _) h
        simp at hg
      · omega
    subst this
    simp [reassembleLoop]
  | cons c t ih =>
    obtain ⟨sd, sb, sp⟩ := hsl c (by simp)
    have hso' : SortedOff t := (List.pairwise_cons.mp hso).2
    have hmin : ∀ g ∈ t, c.offset ≤ g.offset := (List.pairwise_cons.mp hso).1
    have hoff : c.offset ≤ a := by
      by_cases h : a < P.length
      · obtain ⟨g, hg, g1, _⟩ := hcov a (Nat.le_refl _) h
        simp only [List.mem_cons] at hg
        rcases hg with rfl | hg
        · exact g1
        · have := hmin g hg; omega
      · omega
    have hla : (P.take a).length = a := by rw [List.length_take]; omega
    have key : reassembleLoop t (P.take (max a (c.offset + c.data.length))) = .ok P := by
      apply ih _ (by omega) (fun g hg => hsl g (by simp [hg])) hso'
      intro x hx1 hx2
      obtain ⟨g, hg, g1, g2⟩ := hcov x (by omega) hx2
      simp only [List.mem_cons] at hg
      rcases hg with rfl | hg
      · omega
      · exact ⟨g, hg, g1, g2⟩
    obtain ⟨o, d⟩ := c
    simp only at sd sb sp hoff key hmin
    generalize hk : d.length = k at *
    subst sd
    have tas := take_append_slice P a o k hoff sb ha
    unfold reassembleLoop
    simp only [hla]
    by_cases h1 : o < a
    · simp only [h1, if_true]
      rw [tas]; exact key
    · have h2 : ¬ o > a := by omega
      simp only [h1, h2, if_false]
      have e : o = a := by omega
      subst e
      simp only [Nat.sub_self, List.drop_zero] at tas
      rw [tas]; exact key

/-- **`reassemble` returns exactly `P`** (and no error) for every offset-sorted list of slices of `P`
    that covers `[0, |P|)` — duplicates, overlaps and any arrival order included. -/
theorem reassemble_exact (P : List Nat) (gs : List Frag) (hP : 0 < P.length)
    (hsl : ∀ g ∈ gs, SliceOf P g) (hso : SortedOff gs) (hcov : ∀ x, x < P.length → covS gs x) :
    reassemble gs = .ok P := by
  cases gs with
  | nil => obtain ⟨g, hg, _⟩ := hcov 0 hP; simp at hg
  | cons c t =>
    obtain ⟨sd, sb, sp⟩ := hsl c (by simp)
    have hmin : ∀ g ∈ t, c.offset ≤ g.offset := (List.pairwise_cons.mp hso).1
    have h0 : c.offset = 0 := by
      obtain ⟨g, hg, g1, _⟩ := hcov 0 hP
      simp only [List.mem_cons] at hg
      rcases hg with rfl | hg
      · omega
      · have := hmin g hg; omega
    unfold reassemble
    simp only [h0, ne_eq, not_true_eq_false, if_false]
    have hc : c.data = P.take c.data.length := by rw [sd, h0]; simp
    rw [hc]
    apply loop_exact_take P t c.data.length
    · omega
    · exact fun g hg => hsl g (by simp [hg])
    · exact (List.pairwise_cons.mp hso).2
    · intro x hx1 hx2
      obtain ⟨g, hg, g1, g2⟩ := hcov x hx2
      simp only [List.mem_cons] at hg
      rcases hg with rfl | hg
      · omega
      · exact ⟨g, hg, g1, g2⟩

theorem mem_insertFrag (x g : Frag) (gs : List Frag) : g ∈ insertFrag x gs ↔ g = x ∨ g ∈ gs := by
  induction gs with
  | nil => simp [insertFrag]
  | cons y t ih =>
    unfold insertFrag
    split
    · simp
    · simp only [List.mem_cons, ih]
      constructor
      · rintro (h | h | h) <;> simp [h]
      · rintro (h | h | h) <;> simp [h]

theorem sorted_insertFrag (x : Frag) (gs : List Frag) (h : SortedOff gs) : SortedOff (insertFrag x gs) := by
  induction gs with
  | nil => simp [insertFrag, SortedOff]
  | cons y t ih =>
    unfold insertFrag
    have hy := List.pairwise_cons.mp h
    split
    · rename_i hlt
      unfold SortedOff
      rw [List.pairwise_cons]
      refine ⟨?_, h⟩
      intro g hg
      simp only [List.mem_cons] at hg
      rcases hg with rfl | hg
      · omega
      · have := hy.1 g hg; omega
    · rename_i hge
      unfold SortedOff
      rw [List.pairwise_cons]
      refine ⟨?_, ih hy.2⟩
      intro g hg
      rw [mem_insertFrag] at hg
      rcases hg with rfl | hg
      · omega
      · exact hy.1 g hg

/-! ## The reassembler over every fragment history of one datagram -/

structure RInv (P : List Nat) (r : Reasm) (C : List (Nat × Nat)) : Prop where
  notDone : r.done = false
  hinv : HInv P.length r.holes C
  cnt : r.deleted = delCount r.holes
  valid : ValidC P.length C
  slices : ∀ g ∈ r.heap, SliceOf P g
  sorted : SortedOff r.heap
  stored : ∀ x, cov C x → covS r.heap x

/-- the set is complete: a last fragment and every byte of the datagram have been received -/
def Complete (n : Nat) (C : List (Nat × Nat)) : Prop := lastSeen n C ∧ ∀ x, x < n → cov C x

theorem rinv_init (P : List Nat) (hP : 1 ≤ P.length) : RInv P {} [] := by
  refine ⟨rfl, hinv_init _ hP, by simp [delCount], ?_, ?_, ?_, ?_⟩
  · intro c hc; simp at hc
  · intro g hg; simp at hg
  · simp [SortedOff]
  · intro x hx; obtain ⟨c, hc, _⟩ := hx; simp at hc

theorem hitCount_zero (hs : List Hole) (f l : Nat) (h : hitCount hs f l = 0) : ∀ x ∈ hs, hit x f l = false := by
  intro x hx
  unfold hitCount at h
  rw [List.length_eq_zero_iff, List.filter_eq_nil_iff] at h
  simpa using h x hx

/-- one fragment: either the datagram is still incomplete and nothing is delivered, or it is now
    complete and exactly `P` is delivered.  Never an error, never other bytes. -/
theorem process_spec (P : List Nat) (r : Reasm) (C : List (Nat × Nat)) (f l : Nat) (more : Bool) (data : List Nat)
    (hR : RInv P r C) (hf : IsFrag P.length f l more) (hd : data = (P.drop f).take (l + 1 - f))
    (hn1 : 1 ≤ P.length) (hn : P.length ≤ 65536) :
    ((r.process f l more data).2.1 = .notReady ∧ RInv P (r.process f l more data).1 ((f, l) :: C) ∧
        ¬ Complete P.length ((f, l) :: C)) ∨
    ((r.process f l more data).2.1 = .ready P ∧ Complete P.length ((f, l) :: C)) := by
  obtain ⟨hnd, hI, hcnt, hV, hsl, hso, hst⟩ := hR
  have hI' := hinv_step P.length r.holes C f l more hI hf hn
  have hV' : ValidC P.length ((f, l) :: C) := by
    intro c hc
    simp only [List.mem_cons] at hc
    rcases hc with rfl | hc
    · exact ⟨hf.le, hf.lt⟩
    · exact hV c hc
  have hdl : data.length = l + 1 - f := by
    rw [hd, List.length_take, List.length_drop]; have := hf.lt; have := hf.le; omega
  have hnew : SliceOf P ⟨f, data⟩ := by
    refine ⟨?_, ?_, ?_⟩
    · simp only; rw [hdl]; exact hd
    · simp only; rw [hdl]; have := hf.lt; have := hf.le; omega
    · simp only; rw [hdl]; have := hf.le; omega
  -- the heap after this fragment
  let heap' := if hitCount r.holes f l > 0 then insertFrag ⟨f, data⟩ r.heap else r.heap
  have hsl' : ∀ g ∈ heap', SliceOf P g := by
    intro g hg
    simp only [heap'] at hg
    split at hg
    · rw [mem_insertFrag] at hg
      rcases hg with rfl | hg
      · exact hnew
      · exact hsl g hg
    · exact hsl g hg
  have hso' : SortedOff heap' := by
    simp only [heap']
    split
    · exact sorted_insertFrag _ _ hso
    · exact hso
  have hst' : ∀ x, cov ((f, l) :: C) x → covS heap' x := by
    intro x hx
    rw [cov_cons] at hx
    have old : cov C x → covS heap' x := by
      intro hc
      obtain ⟨g, hg, g1, g2⟩ := hst x hc
      refine ⟨g, ?_, g1, g2⟩
      simp only [heap']
      split
      · rw [mem_insertFrag]; exact Or.inr hg
      · exact hg
    rcases hx with ⟨x1, x2⟩ | hx
    · by_cases hu : hitCount r.holes f l > 0
      · refine ⟨⟨f, data⟩, ?_, x1, by simp only; rw [hdl]; omega⟩
        simp only [heap', hu, if_true]
        rw [mem_insertFrag]; exact Or.inl rfl
      · apply old
        have hz := hitCount_zero r.holes f l (by omega)
        have hnl : ¬ live r.holes x := by
          rintro ⟨h, hh, hdel, h1, h2⟩
          have := (hit_iff h f l).mpr ⟨hdel, by omega, by omega⟩
          rw [hz h hh] at this
          simp at this
        have := hI.sem x
        by_cases hc : cov C x
        · exact hc
        · exact absurd (this.mpr ⟨hc, by have := hf.lt; omega, fun _ => by have := hf.lt; omega⟩) hnl
    · exact old hx
  have hcnt' : r.deleted + hitCount r.holes f l = delCount (updateHoles r.holes f l more) := by
    rw [delCount_updateHoles, hcnt]
  -- unfold the step
  unfold Reasm.process
  simp only [hnd, Bool.false_eq_true, if_false]
  by_cases hclosed : ∃ h ∈ updateHoles r.holes f l more, h.deleted = false
  · -- still a hole: not ready
    have hlt : r.deleted + hitCount r.holes f l < (updateHoles r.holes f l more).length := by
      rw [hcnt']; exact (delCount_lt_iff _).mpr hclosed
    left
    by_cases hu : hitCount r.holes f l > 0
    · simp only [hu, decide_true, if_true, hlt]
      refine ⟨trivial, ⟨rfl, hI', hcnt', hV', ?_, ?_, ?_⟩, ?_⟩
      · simpa [heap', hu] using hsl'
      · simpa [heap', hu] using hso'
      · simpa [heap', hu] using hst'
      · intro hc
        exact ((closed_iff _ _ _ hI' hV' hn1 hn).mpr hc) hclosed
    · simp only [hu, decide_false, Bool.false_eq_true, if_false, hlt, if_true]
      refine ⟨trivial, ⟨rfl, hI', hcnt', hV', ?_, ?_, ?_⟩, ?_⟩
      · simpa [heap', hu] using hsl'
      · simpa [heap', hu] using hso'
      · simpa [heap', hu] using hst'
      · intro hc
        exact ((closed_iff _ _ _ hI' hV' hn1 hn).mpr hc) hclosed
  · -- every hole closed: reassemble
    have hcomp := (closed_iff _ _ _ hI' hV' hn1 hn).mp hclosed
    have hge : ¬ r.deleted + hitCount r.holes f l < (updateHoles r.holes f l more).length := by
      rw [hcnt']; intro h; exact hclosed ((delCount_lt_iff _).mp h)
    have hre : reassemble heap' = .ok P :=
      reassemble_exact P heap' (by omega) hsl' hso' (fun x hx => hst' x (hcomp.2 x hx))
    right
    by_cases hu : hitCount r.holes f l > 0
    · simp only [hu, decide_true, if_true, hge, if_false]
      simp only [heap', hu, if_true] at hre
      rw [hre]
      exact ⟨rfl, hcomp⟩
    · simp only [hu, decide_false, Bool.false_eq_true, if_false, hge]
      simp only [heap', hu, if_false] at hre
      rw [hre]
      exact ⟨rfl, hcomp⟩

/-! ## Every arrival history of the fragments of one datagram -/

abbrev FragIn := Nat × Nat × Bool × List Nat

/-- outputs of feeding fragments one after another (stops at the delivery; later fragments start a
    new reassembler in `Fragmentation.Process`) -/
def feed (r : Reasm) : List FragIn → List PRes
  | [] => []
  | (f, l, m, d) :: t =>
    let out := r.process f l m d
    out.2.1 :: (match out.2.1 with
      | .notReady => feed out.1 t
      | _ => [])

/-- a well-formed fragment of `P` -/
def ValidIn (P : List Nat) (x : FragIn) : Prop :=
  IsFrag P.length x.1 x.2.1 x.2.2.1 ∧ x.2.2.2 = (P.drop x.1).take (x.2.1 + 1 - x.1)

open Classical in
/-- the specification: nothing until the received set is complete, then exactly `P` -/
noncomputable def specFeed (P : List Nat) (C : List (Nat × Nat)) : List FragIn → List PRes
  | [] => []
  | (f, l, _, _) :: t =>
    if Complete P.length ((f, l) :: C) then [.ready P] else .notReady :: specFeed P ((f, l) :: C) t

theorem feed_spec (P : List Nat) (hn1 : 1 ≤ P.length) (hn : P.length ≤ 65536) (frs : List FragIn)
    (r : Reasm) (C : List (Nat × Nat)) (hR : RInv P r C) (hv : ∀ x ∈ frs, ValidIn P x) :
    feed r frs = specFeed P C frs := by
  induction frs generalizing r C with
  | nil => simp [feed, specFeed]
  | cons x t ih =>
    obtain ⟨f, l, m, d⟩ := x
    obtain ⟨hf, hd⟩ := hv (f, l, m, d) (by simp)
    simp only at hf hd
    unfold feed specFeed
    rcases process_spec P r C f l m d hR hf hd hn1 hn with ⟨h1, h2, h3⟩ | ⟨h1, h2⟩
    · simp only [h1, h3, if_false]
      rw [ih _ _ h2 (fun y hy => hv y (by simp [hy]))]
    · simp only [h1, h2, if_true]

/-- **C08, reassembly**: for every datagram `P` (1…65536 bytes) and every finite sequence of
    well-formed fragments of it — any cut (aligned or not), any arrival order, duplicates, overlaps —
    the reassembler delivers nothing while the received set is incomplete and delivers exactly `P`
    at the first moment the set is complete (every byte and the last fragment received). -/
theorem reassembly_correct (P : List Nat) (hn1 : 1 ≤ P.length) (hn : P.length ≤ 65536) (frs : List FragIn)
    (hv : ∀ x ∈ frs, ValidIn P x) :
    feed {} frs = specFeed P [] frs :=
  feed_spec P hn1 hn frs {} [] (rinv_init P hn1) hv

/-- whatever is delivered is `P` itself; an error (the pinned code's panic) is impossible -/
theorem delivered_is_original (P : List Nat) (hn1 : 1 ≤ P.length) (hn : P.length ≤ 65536) (frs : List FragIn)
    (hv : ∀ x ∈ frs, ValidIn P x) : ∀ res ∈ feed {} frs, res = .notReady ∨ res = .ready P := by
  rw [reassembly_correct P hn1 hn frs hv]
  generalize ([] : List (Nat × Nat)) = C
  induction frs generalizing C with
  | nil => simp [specFeed]
  | cons x t ih =>
    obtain ⟨f, l, m, d⟩ := x
    unfold specFeed
    intro res hres
    split at hres
    · simp at hres; exact Or.inr hres
    · simp only [List.mem_cons] at hres
      rcases hres with rfl | hres
      · exact Or.inl rfl
      · exact ih (fun y hy => hv y (by simp [hy])) _ res hres

/-- non-vacuity: three fragments of a 5-byte datagram, out of order with a duplicate -/
example : feed {} [(3, 4, false, [4, 5]), (0, 1, true, [1, 2]), (0, 1, true, [1, 2]), (2, 2, true, [3])] =
    [.notReady, .notReady, .notReady, .ready [1, 2, 3, 4, 5]] := by decide

/-! ## Datagrams with different keys are never mixed; expired sets are not combined -/

theorem lookup_release_self (f : Frg) (id : Nat) : (f.release id).lookup id = none := by
  unfold Frg.release
  cases h : f.lookup id with
  | none => simpa using h
  | some r =>
    simp only [Frg.lookup, Option.map_eq_none_iff, List.find?_eq_none]
    intro x hx
    simp only [List.mem_filter] at hx
    simpa using hx.2

/-- the outcome of `Process` for key `id` is computed from `id`'s own reassembler only — fragments
    stored under any other key cannot influence (or be mixed into) what is delivered -/
theorem result_local (f : Frg) (id fi la : Nat) (mo : Bool) (d : List Nat) :
    (f.process id false fi la mo d).2 = (((f.lookup id).getD {}).process fi la mo d).2.1 := by
  unfold Frg.process
  cases h : f.lookup id <;> simp [h]

/-- a reassembler older than the timeout is discarded: the fragment is processed against a fresh one -/
theorem timeout_fresh (f : Frg) (id fi la : Nat) (mo : Bool) (d : List Nat) :
    (f.process id true fi la mo d).2 = (({} : Reasm).process fi la mo d).2.1 := by
  unfold Frg.process
  simp [lookup_release_self]

end C08
