import NetProto.Props.TcpLemmas
import NetProto.Props.TcpReach
/-! # C02 — transfers complete and close in order; no connection stalls silently

Model: `Model/Tcp.lean` (retransmission timer as an input event: `timerEvent`/`rtoState`, `sendData`'s arming of the
timer, `queueFin`, `consumeFin`, `closeIfDone`, `appRead`), tied to the real stack by the trace correspondence of
the TCP world.  The model is timing-free: *that* the timer fires while armed is the runtime's part
(`time.AfterFunc`); what it is armed for and what it sends is the model's.

Full statement of the liveness half: *as long as the network keeps delivering some packets a connection never
goes permanently quiet with data or a FIN outstanding*.  Proved: in every reachable state, anything outstanding
implies an armed timer (`outstanding_implies_timer`), and an expiring timer retransmits the first unacknowledged
segment or the FIN (`timeout_retransmits_first_unacked`) while the peer's window is open.  NOT true of the code,
and recorded as a known finding with a machine-checked witness: data queued behind a closed window with nothing
in flight is never probed (`closed_window_stall_witness`).  Handshake retransmission (SYN / SYN-ACK timers) is
outside the model. -/
namespace Props.C02
open Model.Tcp Props.TcpLemmas Props.TcpReach


/-- data or a FIN outstanding ⇒ the retransmission timer is running -/
def TimerInv (e : Ep) : Prop := e.snd.sndUna ≠ e.snd.sndNxt → e.snd.timerEnabled = true

/-- `sendData` ends by arming the timer if anything is outstanding -/
theorem sendData_timer (e : Ep) : TimerInv (sendData e).1 := by
  unfold sendData TimerInv
  simp only
  split
  · intro _; rfl
  · rename_i h
    intro hne
    simp only [Bool.and_eq_true, Bool.not_eq_eq_eq_not, Bool.not_true, bne_iff_ne, ne_eq, not_and, Decidable.not_not] at h
    cases ht : (sendDataLoop (sendFuel e.snd + 1) e e.snd.writeNext []).1.snd.timerEnabled
    · exact absurd (h ht) hne
    · rfl

theorem timerInv_of_snd {e e' : Ep} (h : TimerInv e) (h1 : e'.snd.sndUna = e.snd.sndUna) (h2 : e'.snd.sndNxt = e.snd.sndNxt)
    (h3 : e'.snd.timerEnabled = e.snd.timerEnabled) : TimerInv e' := by
  unfold TimerInv at *; rw [h1, h2, h3]; exact h

theorem sndHandleSegment_fst (e : Ep) (seg : InSeg) (w : Nat) (ts : Model.Header.TCPOpts) :
    (sndHandleSegment e seg w ts).1 = (sendData (sndPrepare e seg w ts).1).1 := rfl

theorem sndHandleSegment_timer (e : Ep) (seg : InSeg) (w : Nat) (ts : Model.Header.TCPOpts) :
    TimerInv (sndHandleSegment e seg w ts).1 := by
  have h := sendData_timer (sndPrepare e seg w ts).1
  rw [← sndHandleSegment_fst] at h
  exact h

theorem handleCore_timer (e : Ep) (seg : InSeg) (h : TimerInv e) : TimerInv (handleCore e seg).1 := by
  unfold handleCore
  split
  · exact h
  · split
    · split
      · exact h
      · exact sndHandleSegment_timer _ _ _ _
    · exact h

theorem handleBatch_timer (e : Ep) (l : List InSeg) (h : TimerInv e) : TimerInv (handleBatch e l).1 := by
  induction l generalizing e with
  | nil => exact h
  | cons s rest ih =>
    simp only [handleBatch]
    have hc := handleCore_timer e s h
    split
    · exact hc
    · exact ih _ hc

theorem sendAck_snd (e : Ep) : (sendAck e).1.snd.sndUna = e.snd.sndUna ∧ (sendAck e).1.snd.sndNxt = e.snd.sndNxt ∧
    (sendAck e).1.snd.timerEnabled = e.snd.timerEnabled := by
  have h := (sendSegment_frame e [] fAck e.snd.sndNxt).1
  unfold sendAck
  rw [h]
  exact ⟨rfl, rfl, rfl⟩

theorem closeIfDone_snd (e : Ep) : (closeIfDone e).snd = e.snd := by
  unfold closeIfDone; split <;> rfl

theorem finishBatch_timer (e : Ep) (out : List OutSeg) (r : Bool) (h : TimerInv e) : TimerInv (finishBatch e out r).1 := by
  unfold finishBatch
  split
  · exact timerInv_of_snd h rfl rfl rfl
  · split
    · have a := sendAck_snd e
      exact timerInv_of_snd h (by rw [closeIfDone_snd, a.1]) (by rw [closeIfDone_snd, a.2.1]) (by rw [closeIfDone_snd, a.2.2])
    · exact timerInv_of_snd h (by rw [closeIfDone_snd]) (by rw [closeIfDone_snd]) (by rw [closeIfDone_snd])

theorem handleSegmentsLoop_timer (fuel : Nat) (e : Ep) (l : List InSeg) (h : TimerInv e) : TimerInv (handleSegmentsLoop fuel e l).1 := by
  induction fuel generalizing e l with
  | zero => exact h
  | succ k ih =>
    unfold handleSegmentsLoop
    split
    · exact h
    · simp only
      split
      · exact finishBatch_timer _ _ _ (handleBatch_timer _ _ h)
      · exact ih _ _ (finishBatch_timer _ _ _ (handleBatch_timer _ _ h))

theorem handleSegments_timer (e : Ep) (l : List InSeg) (h : TimerInv e) : TimerInv (handleSegments e l).1 :=
  handleSegmentsLoop_timer _ e l h

theorem timer_inv : EpInv TimerInv where
  fresh := by intros; intro h; exact absurd rfl h
  dflt := by intro h; exact absurd rfl h
  failed := by intro err h; exact absurd rfl h
  segs := handleSegments_timer
  write := by
    intro e d h
    unfold appWrite
    split; exact h
    split; exact h
    split; exact h
    split; exact h
    exact sendData_timer _
  read := by
    intro e h
    unfold appRead
    split; exact h
    split; exact h
    split; exact h
    simp only
    rename_i v rest _
    have hp : TimerInv (popRead e v rest) := timerInv_of_snd h rfl rfl rfl
    split
    · split
      · exact hp
      · have a := sendAck_snd (popRead e v rest)
        exact timerInv_of_snd hp a.1 a.2.1 a.2.2
    · exact hp
  shut := by
    intro e h
    unfold appShutdownWrite
    split; exact h
    have := sendData_timer (queueFin e)
    exact timerInv_of_snd this (by rw [closeIfDone_snd]) (by rw [closeIfDone_snd]) (by rw [closeIfDone_snd])
  timer := by
    intro e h
    unfold timerEvent
    split; exact h
    unfold retransmitTimerExpired
    split; exact h
    exact sendData_timer _

/-- **C02**: in every state the stack can reach, a connection with data or a FIN outstanding has its
retransmission timer running -- it cannot go quiet with something in flight -/
theorem outstanding_implies_timer (c : Cfg) (ops : List Op) : StAll TimerInv (run c ops).1 :=
  run_all timer_inv c ops

/-! ## what a timeout sends -/

theorem sendDataLoop_prefix (fuel : Nat) (e : Ep) (i : Nat) (out : List OutSeg) :
    ∃ t, (sendDataLoop fuel e i out).2 = out ++ t := by
  induction fuel generalizing e i out with
  | zero => exact ⟨[], by simp [sendDataLoop]⟩
  | succ n ih =>
    unfold sendDataLoop
    split
    · exact ⟨[], by simp⟩
    · rename_i e' o _
      obtain ⟨t, ht⟩ := ih e' (i + 1) (out ++ [o])
      exact ⟨o :: t, by rw [ht]; simp⟩

theorem rtoState_frame (s : Snd) : (rtoState s).cwnd = 1 ∧ (rtoState s).outstanding = 0 ∧ (rtoState s).writeNext = 0 ∧
    (rtoState s).maxPayload = s.maxPayload ∧ (rtoState s).writeList = s.writeList ∧ (rtoState s).sndUna = s.sndUna ∧
    (rtoState s).sndWnd = s.sndWnd ∧ (rtoState s).sndNxt = s.sndNxt := by
  unfold rtoState
  simp only
  split <;> simp [reduceSsthresh, leaveFastRecovery]

theorem sendStep_head_fin (x : Ep) (hd : WSeg) (tl : List WSeg) (hwl : x.snd.writeList = hd :: tl) (hsent : hd.flags ≠ 0)
    (hgate : x.snd.outstanding < (x.snd.cwnd : Int)) (hz : hd.data = []) :
    ∃ e' o, sendStep x 0 = .sent e' o ∧ o.seq = hd.seq ∧ o.data = [] ∧ o.flags = fAck ||| fFin := by
  have hassign : hd.assign x.snd.sndNxt = hd := by
    unfold WSeg.assign
    have : (hd.flags == 0) = false := by simpa using hsent
    simp [this]
  have hg : (!decide (x.snd.outstanding < (x.snd.cwnd : Int))) = false := by simp [hgate]
  unfold sendStep
  rw [hwl]
  simp only [List.getElem?_cons_zero, hg, Bool.false_eq_true, ↓reduceIte, hassign]
  have hl : (hd.data.length == 0) = true := by simp [hz]
  rw [if_pos hl]
  exact ⟨_, _, rfl, (emitAt_frame _ _ _).2.1, by rw [(emitAt_frame _ _ _).1]; exact hz, (emitAt_frame _ _ _).2.2.1⟩

theorem splitAt_take (wl : List WSeg) (i : Nat) (seg : WSeg) (a : Nat) (ha : 0 < a) (hz : seg.data ≠ []) :
    (splitAt wl i seg a).2.seq = seg.seq ∧ (splitAt wl i seg a).2.data ≠ [] ∧ ∃ k, (splitAt wl i seg a).2.data = seg.data.take k := by
  have hpos : 0 < seg.data.length := List.length_pos_iff.mpr hz
  unfold splitAt
  split
  · refine ⟨rfl, ?_, _, rfl⟩
    intro hnil
    have := congrArg List.length hnil
    simp only [List.length_take, List.length_nil] at this
    omega
  · exact ⟨rfl, hz, seg.data.length, by simp⟩

theorem sendStep_head_data (x : Ep) (hd : WSeg) (tl : List WSeg) (hwl : x.snd.writeList = hd :: tl) (hsent : hd.flags ≠ 0)
    (hgate : x.snd.outstanding < (x.snd.cwnd : Int)) (hmp : 0 < x.snd.maxPayload) (hz : hd.data ≠ [])
    (hlt : lt hd.seq (sndEnd x.snd) = true) :
    ∃ e' o, sendStep x 0 = .sent e' o ∧ o.seq = hd.seq ∧ o.data ≠ [] ∧ ∃ k, o.data = hd.data.take k := by
  have hassign : hd.assign x.snd.sndNxt = hd := by
    unfold WSeg.assign
    have : (hd.flags == 0) = false := by simpa using hsent
    simp [this]
  have hg : (!decide (x.snd.outstanding < (x.snd.cwnd : Int))) = false := by simp [hgate]
  have hl : ¬ (hd.data.length == 0) = true := by simpa using hz
  have hnl : ¬ (!lt hd.seq (sndEnd x.snd)) = true := by simp [hlt]
  have hav : 0 < min (sizeS hd.seq (sndEnd x.snd)) x.snd.maxPayload := by
    rw [lt_iff] at hlt; omega
  have sp := splitAt_take x.snd.writeList 0 hd (min (sizeS hd.seq (sndEnd x.snd)) x.snd.maxPayload) hav hz
  unfold sendStep
  rw [hwl] at sp ⊢
  simp only [List.getElem?_cons_zero, hg, Bool.false_eq_true, ↓reduceIte, hassign]
  rw [if_neg hl, if_neg hnl]
  refine ⟨_, _, rfl, ?_, ?_, ?_⟩
  · rw [(emitAt_frame _ _ _).2.1]; exact sp.1
  · rw [(emitAt_frame _ _ _).1]; exact sp.2.1
  · rw [(emitAt_frame _ _ _).1]; exact sp.2.2

/-- **C02**: when the retransmission timer fires, the earliest unacknowledged segment goes out again: data
(a non-empty prefix of it, as much as window and MSS allow) if the peer's window is open, or the FIN -/
theorem timeout_retransmits_first_unacked (e : Ep) (hd : WSeg) (tl : List WSeg)
    (hdone : e.done = false) (ht : e.snd.timerEnabled = true) (hwl : e.snd.writeList = hd :: tl) (hsent : hd.flags ≠ 0)
    (hmp : 0 < e.snd.maxPayload) (hwin : hd.data ≠ [] → lt hd.seq (sndEnd e.snd) = true) :
    ∃ o rest, (timerEvent e).2 = o :: rest ∧ o.seq = hd.seq ∧
      (hd.data = [] → o.data = [] ∧ o.flags = fAck ||| fFin) ∧
      (hd.data ≠ [] → o.data ≠ [] ∧ ∃ k, o.data = hd.data.take k) := by
  have w := rtoState_frame e.snd
  generalize hx : ({ e with snd := rtoState e.snd } : Ep) = x
  have hxs : x.snd = rtoState e.snd := by rw [← hx]
  have hend : sndEnd x.snd = sndEnd e.snd := by unfold sndEnd; rw [hxs, w.2.2.2.2.2.1, w.2.2.2.2.2.2.1]
  have hgate : x.snd.outstanding < (x.snd.cwnd : Int) := by rw [hxs, w.1, w.2.1]; decide
  have hwlx : x.snd.writeList = hd :: tl := by rw [hxs, w.2.2.2.2.1, hwl]
  have hstep : ∃ e' o, sendStep x 0 = .sent e' o ∧ o.seq = hd.seq ∧
      (hd.data = [] → o.data = [] ∧ o.flags = fAck ||| fFin) ∧ (hd.data ≠ [] → o.data ≠ [] ∧ ∃ k, o.data = hd.data.take k) := by
    by_cases hz : hd.data = []
    · obtain ⟨e', o, h1, h2, h3, h4⟩ := sendStep_head_fin x hd tl hwlx hsent hgate hz
      exact ⟨e', o, h1, h2, fun _ => ⟨h3, h4⟩, fun h => absurd hz h⟩
    · obtain ⟨e', o, h1, h2, h3, h4⟩ := sendStep_head_data x hd tl hwlx hsent hgate (by rw [hxs, w.2.2.2.1]; exact hmp) hz
        (by rw [hend]; exact hwin hz)
      exact ⟨e', o, h1, h2, fun h => absurd h hz, fun _ => ⟨h3, h4⟩⟩
  obtain ⟨e', o, hs, h1, h2, h3⟩ := hstep
  have hte : timerEvent e = sendData x := by
    unfold timerEvent
    rw [if_neg (by simp [hdone])]
    unfold retransmitTimerExpired
    rw [if_neg (by simp [ht]), hx]
  rw [hte]
  obtain ⟨t, htl⟩ := sendDataLoop_prefix (sendFuel x.snd) e' (0 + 1) ([] ++ [o])
  refine ⟨o, t, ?_, h1, h2, h3⟩
  unfold sendData
  simp only
  rw [hxs, w.2.2.1, ← hxs, sendDataLoop, hs]
  simp only [htl]
  simp

/-! ## orderly close -/

/-- **C02**: `Shutdown(write)` queues the FIN behind everything written so far, as the last write-list entry ... -/
theorem fin_queued_last (e : Ep) : (queueFin e).snd.writeList = e.snd.writeList ++ [{ data := [], gOff := e.snd.gW.length }] ∧ (queueFin e).sndClosed = true ∧
    (queueFin e).snd.sndNxtList = addS e.snd.sndNxtList 1 := ⟨rfl, rfl, rfl⟩

/-- ... and nothing can be written behind it -/
theorem no_write_after_shutdown (e : Ep) (d : List Nat) (hs : e.state = .connected) (hc : e.sndClosed = true) (hd : d ≠ []) :
    appWrite e d = (e, .error "endpoint-is-closed-for-send", []) := by
  unfold appWrite
  have : (d.length == 0) = false := by simpa using hd
  simp [hs, hc, this]

/-- **C02**: once the peer's FIN has been consumed the receive side is closed: nothing is delivered any more -/
theorem closed_receiver_delivers_nothing (e : Ep) (seg : InSeg) (hc : e.rcv.closed = true) :
    rcvHandleSegment e seg = (e, []) := by
  unfold rcvHandleSegment; simp [hc]

/-- consuming a FIN acknowledges it at once (`rcvNxt` moves past it) and closes the receive side -/
theorem fin_consumed (e : Ep) : (consumeFin e).1.rcv.closed = true ∧ (consumeFin e).1.rcvClosed = true ∧
    (consumeFin e).1.rcv.rcvNxt = addS e.rcv.rcvNxt 1 ∧ (consumeFin e).2.ack = addS e.rcv.rcvNxt 1 ∧
    (consumeFin e).1.rcvList = e.rcvList := by
  unfold consumeFin
  have f := sendSegment_frame { e with rcv := { e.rcv with rcvNxt := addS e.rcv.rcvNxt 1 } } [] fAck e.snd.sndNxt
  have o := sendSegment_out { e with rcv := { e.rcv with rcvNxt := addS e.rcv.rcvNxt 1 } } [] fAck e.snd.sndNxt
  refine ⟨rfl, rfl, ?_, ?_, ?_⟩
  · exact f.2.2.2.2.1
  · exact o.2.2.2
  · exact f.2.2.2.1

/-- **C02**: end-of-stream is reported only when every delivered byte has been read -/
theorem eof_only_after_all_data (e : Ep) (h : (appRead e).2.1 = .error "endpoint-is-closed-for-receive") :
    e.rcvBufUsed = 0 := by
  unfold appRead at h
  split at h
  · rename_i hc; simp at hc; exact hc.2
  · split at h
    · rename_i hc; simpa using hc
    · split at h
      · simp at h
      · simp only at h
        split at h
        · split at h <;> simp at h
        · simp at h

/-- the connection reaches the closed state exactly when both directions are closed and everything sent is
acknowledged -/
theorem closed_iff (e : Ep) (hs : e.state = .connected) :
    (closeIfDone e).state = .closed ↔ (e.rcv.closed = true ∧ e.snd.closed = true ∧ e.snd.sndUna = e.snd.sndNxtList) := by
  unfold closeIfDone
  split
  · rename_i h; simp at h; simp [h]
  · rename_i h
    simp at h
    simp only [hs]
    constructor
    · intro hh; cases hh
    · intro hh; exact absurd hh.2.2 (h hh.1 hh.2.1)

/-! ## KNOWN FINDING: a closed window is never probed -/

/-- (c02.closed-window-never-probed, F02) a reachable state in which the application's data is queued, nothing
is in flight, the retransmission timer is off, and a timer event sends nothing and changes nothing: only a
window update from the peer can restart the connection; if that one packet is lost it is silent for ever.
History: active open, SYN-ACK advertising window 0, then `Write` of three bytes. -/
def stalled (e : Ep) : Bool :=
  e.state == .connected && e.done == false && e.snd.writeList.length == 1 && e.snd.sndUna == e.snd.sndNxt &&
  !e.snd.timerEnabled && (timerEvent e).2.isEmpty && (timerEvent e).1.snd.writeList == e.snd.writeList &&
  !(timerEvent e).1.snd.timerEnabled

theorem closed_window_stall_witness :
    (((run {} [.connect 0 1000, .seg 40000 8080 ⟨fSyn ||| fAck, 5000, 1001, 0, [], []⟩ 0, .write 0 [1, 2, 3]]).1.eps[0]?).map
      (fun x => stalled x.2)) = some true := by
  decide

/-- non-vacuity of `timeout_retransmits_first_unacked`: a sender with one sent, unacknowledged segment -/
example :
    let s : Snd := { sndUna := 100, sndNxt := 103, sndNxtList := 103, sndWnd := 1000, maxPayload := 100, maxSentAck := 1,
                     outstanding := 1, timerEnabled := true, writeList := [{ seq := 100, flags := 24, data := [1, 2, 3] }], writeNext := 1 }
    let e : Ep := { snd := s, rcv := { rcvNxt := 1, rcvAcc := 1000, pendingBufSize := 100 }, rcvBufSize := 1000, sndBufSize := 1000 }
    ((timerEvent e).2.map (fun o => (o.seq, o.data))) = [(100, [1, 2, 3])] := by decide

end Props.C02
