import NetProto.Generated.Arith
import NetProto.Generated.Consts
import NetProto.Model.Ports
/-!
# C10 — port reservations are exclusive; ephemeral ports are found when free
-/
namespace C10
open Model.Ports

/-! ## The arithmetic of the ephemeral search, on the regenerated expression -/

theorem firstEphemeral_anchor : Gen.Consts.FirstEphemeral = 16000 := by decide
theorem count_anchor : Gen.Arith.pickCount = 49536#16 := by decide

/-- the model's port arithmetic is the code's (regenerated from `PickEphemeralPort`) -/
theorem model_eq_generated (offset i : BitVec 16) :
    pickPort offset i = Gen.Arith.pickPort offset i Gen.Arith.pickCount := by
  rfl

/-- the i-th port tried, as a natural number -/
theorem pickPort_toNat (offset i : BitVec 16) (ho : offset.toNat < 49536) (hi : i.toNat < 49536) :
    (Gen.Arith.pickPort offset i Gen.Arith.pickCount).toNat = 16000 + (offset.toNat + i.toNat) % 49536 := by
  unfold Gen.Arith.pickPort Gen.Arith.pickCount
  have h1 := offset.isLt
  have h2 := i.isLt
  simp only [BitVec.toNat_add, BitVec.toNat_setWidth, BitVec.toNat_umod, BitVec.toNat_ofNat, Nat.reducePow,
    Nat.reduceMod] at *
  omega

/-- every port of the range is tried by some iteration, whatever the starting offset -/
theorem pick_surjective (offset : BitVec 16) (ho : offset.toNat < 49536) (p : Nat) (hp : 16000 ≤ p ∧ p ≤ 65535) :
    ∃ i : Nat, i < 49536 ∧ (Gen.Arith.pickPort offset (BitVec.ofNat 16 i) Gen.Arith.pickCount).toNat = p := by
  refine ⟨(p - 16000 + 49536 - offset.toNat) % 49536, by omega, ?_⟩
  rw [pickPort_toNat offset _ ho (by simp only [BitVec.toNat_ofNat, Nat.reducePow]; omega)]
  simp only [BitVec.toNat_ofNat, Nat.reducePow]
  omega

theorem pick_in_range (offset i : BitVec 16) (ho : offset.toNat < 49536) (hi : i.toNat < 49536) :
    16000 ≤ (pickPort offset i).toNat ∧ (pickPort offset i).toNat ≤ 65535 := by
  rw [model_eq_generated, pickPort_toNat offset i ho hi]
  omega

/-! ## The search loop -/

theorem pickFrom_some (offset : BitVec 16) (test : BitVec 16 → Bool) (fuel i : Nat) (p : BitVec 16) (n : Nat)
    (h : pickFrom offset test fuel i = some (p, n)) :
    test p = true ∧ ∃ k, i ≤ k ∧ k < i + fuel ∧ p = pickPort offset (BitVec.ofNat 16 k) := by
  induction fuel generalizing i with
  | zero => simp [pickFrom] at h
  | succ f ih =>
    unfold pickFrom at h
    simp only at h
    split at h
    · rename_i ht
      simp only [Option.some.injEq, Prod.mk.injEq] at h
      obtain ⟨rfl, _⟩ := h
      exact ⟨ht, i, Nat.le_refl _, by omega, rfl⟩
    · obtain ⟨h1, k, hk1, hk2, hk3⟩ := ih (i + 1) h
      exact ⟨h1, k, by omega, by omega, hk3⟩

theorem pickFrom_none (offset : BitVec 16) (test : BitVec 16 → Bool) (fuel i : Nat)
    (h : pickFrom offset test fuel i = none) :
    ∀ k, i ≤ k → k < i + fuel → test (pickPort offset (BitVec.ofNat 16 k)) = false := by
  induction fuel generalizing i with
  | zero => intro k h1 h2; omega
  | succ f ih =>
    unfold pickFrom at h
    simp only at h
    split at h
    · simp at h
    · rename_i ht
      intro k h1 h2
      by_cases hk : k = i
      · subst hk; simpa using ht
      · exact ih (i + 1) h k (by omega) (by omega)

/-- **A port returned by the ephemeral search is in [16000, 65535] and was acceptable.** -/
theorem pick_range_free (offset : BitVec 16) (ho : offset.toNat < 49536) (test : BitVec 16 → Bool)
    (p : BitVec 16) (n : Nat) (h : pick offset test = some (p, n)) :
    16000 ≤ p.toNat ∧ p.toNat ≤ 65535 ∧ test p = true := by
  obtain ⟨ht, k, _, hk, rfl⟩ := pickFrom_some offset test count 0 p n h
  have hk' : k < 49536 := by simpa [count] using hk
  have := pick_in_range offset (BitVec.ofNat 16 k) ho (by simp only [BitVec.toNat_ofNat, Nat.reducePow]; omega)
  exact ⟨this.1, this.2, ht⟩

/-- **The search fails only when no port of the range is acceptable** — for every starting offset. -/
theorem pick_complete (offset : BitVec 16) (ho : offset.toNat < 49536) (test : BitVec 16 → Bool)
    (h : pick offset test = none) : ∀ p : BitVec 16, 16000 ≤ p.toNat → test p = false := by
  intro p hp
  obtain ⟨i, hi, hpi⟩ := pick_surjective offset ho p.toNat ⟨hp, by have := p.isLt; omega⟩
  have := pickFrom_none offset test count 0 h i (by omega) (by simpa [count] using hi)
  rw [model_eq_generated] at this
  have e : Gen.Arith.pickPort offset (BitVec.ofNat 16 i) Gen.Arith.pickCount = p := BitVec.eq_of_toNat_eq hpi
  rwa [e] at this

/-- the random offset the code draws (`rand.Int31n(count)`) is below `count` by the contract of
    `math/rand`; non-vacuity of the hypotheses on a concrete search -/
example : pick 49535#16 (fun p => p == 16000#16) = some (16000#16, 2) := by decide

/-! ## Reservations -/

/-- live reservations are pairwise conflict-free -/
def NoConflict (T : PM) : Prop := T.Pairwise fun x y => conflict x y = false

theorem conflict_symm (x y : Tup) : conflict x y = conflict y x := by
  unfold conflict
  rw [BEq.comm (a := x.net), BEq.comm (a := x.trans), BEq.comm (a := x.port), BEq.comm (a := x.addr) (b := y.addr)]
  cases (y.addr == []) <;> cases (x.addr == []) <;> simp

theorem conflict_self (x : Tup) : conflict x x = true := by simp [conflict]

theorem availOne_iff (T : PM) (n t p : Nat) (a : List Nat) :
    availOne T n t p a = true ↔ ∀ x ∈ T, conflict x ⟨n, t, p, a⟩ = false := by
  simp [availOne, List.all_eq_true]

/-- adding the tuples of one reservation keeps the live set conflict-free, and adds exactly them -/
theorem addTups_spec (T : PM) (ns : List Nat) (t p : Nat) (a : List Nat) (hT : NoConflict T)
    (hav : ∀ n ∈ ns, ∀ x ∈ T, x = ⟨n, t, p, a⟩ ∨ conflict x ⟨n, t, p, a⟩ = false) :
    NoConflict (addTups T ns t p a) ∧
    (∀ y, y ∈ addTups T ns t p a ↔ y ∈ T ∨ ∃ n ∈ ns, y = ⟨n, t, p, a⟩) := by
  induction ns generalizing T with
  | nil => exact ⟨hT, by simp [addTups]⟩
  | cons n ns ih =>
    unfold addTups
    simp only
    by_cases hc : T.contains ⟨n, t, p, a⟩ = true
    · simp only [hc, if_true]
      have hmem : (⟨n, t, p, a⟩ : Tup) ∈ T := by simpa using hc
      obtain ⟨i1, i2⟩ := ih T hT (fun m hm x hx => hav m (by simp [hm]) x hx)
      refine ⟨i1, fun y => ?_⟩
      rw [i2]
      constructor
      · rintro (h | ⟨m, hm, rfl⟩)
        · exact Or.inl h
        · exact Or.inr ⟨m, by simp [hm], rfl⟩
      · rintro (h | ⟨m, hm, rfl⟩)
        · exact Or.inl h
        · simp only [List.mem_cons] at hm
          rcases hm with rfl | hm
          · exact Or.inl hmem
          · exact Or.inr ⟨m, hm, rfl⟩
    · simp only [hc, Bool.false_eq_true, if_false]
      have hnm : (⟨n, t, p, a⟩ : Tup) ∉ T := by simpa using hc
      have hT' : NoConflict (T ++ [⟨n, t, p, a⟩]) := by
        unfold NoConflict
        rw [List.pairwise_append]
        refine ⟨hT, by simp, ?_⟩
        intro x hx y hy
        simp only [List.mem_singleton] at hy
        subst hy
        rcases hav n (by simp) x hx with rfl | h
        · exact absurd hx hnm
        · exact h
      have hav' : ∀ m ∈ ns, ∀ x ∈ T ++ [⟨n, t, p, a⟩], x = ⟨m, t, p, a⟩ ∨ conflict x ⟨m, t, p, a⟩ = false := by
        intro m hm x hx
        simp only [List.mem_append, List.mem_singleton] at hx
        rcases hx with hx | rfl
        · exact hav m (by simp [hm]) x hx
        · by_cases hnm' : n = m
          · subst hnm'; exact Or.inl rfl
          · exact Or.inr (by simp [conflict, hnm'])
      obtain ⟨i1, i2⟩ := ih _ hT' hav'
      refine ⟨i1, fun y => ?_⟩
      rw [i2]
      simp only [List.mem_append, List.mem_cons, List.not_mem_nil, or_false]
      constructor
      · rintro ((h | rfl) | ⟨m, hm, rfl⟩)
        · exact Or.inl h
        · exact Or.inr ⟨n, Or.inl rfl, rfl⟩
        · exact Or.inr ⟨m, Or.inr hm, rfl⟩
      · rintro (h | ⟨m, hm, rfl⟩)
        · exact Or.inl (Or.inl h)
        · rcases hm with rfl | hm
          · exact Or.inl (Or.inr rfl)
          · exact Or.inr ⟨m, hm, rfl⟩

/-- **Exclusivity, one step**: a reservation succeeds iff none of its descriptors conflicts with a
    live reservation; on success exactly its tuples are added and the live set stays conflict-free;
    on failure nothing changes. -/
theorem reserve_spec (T : PM) (ns : List Nat) (t : Nat) (a : List Nat) (p : Nat) (hT : NoConflict T) :
    ((reserveSpecific T ns t a p).2 = true ↔ ∀ n ∈ ns, ∀ x ∈ T, conflict x ⟨n, t, p, a⟩ = false) ∧
    NoConflict (reserveSpecific T ns t a p).1 ∧
    ((reserveSpecific T ns t a p).2 = false → (reserveSpecific T ns t a p).1 = T) ∧
    ((reserveSpecific T ns t a p).2 = true →
        ∀ y, y ∈ (reserveSpecific T ns t a p).1 ↔ y ∈ T ∨ ∃ n ∈ ns, y = ⟨n, t, p, a⟩) := by
  have hiff : isAvailable T ns t a p = true ↔ ∀ n ∈ ns, ∀ x ∈ T, conflict x ⟨n, t, p, a⟩ = false := by
    simp only [isAvailable, List.all_eq_true, availOne_iff]
  unfold reserveSpecific
  by_cases h : isAvailable T ns t a p = true
  · simp only [h, if_true]
    have := addTups_spec T ns t p a hT (fun n hn x hx => Or.inr (hiff.mp h n hn x hx))
    exact ⟨by simpa using hiff.mp h, this.1, by simp, fun _ => this.2⟩
  · have h' : isAvailable T ns t a p = false := by simpa using h
    simp only [h', Bool.false_eq_true, if_false]
    refine ⟨?_, hT, by simp, by simp⟩
    constructor
    · intro hf; simp at hf
    · intro hall; exact absurd (hiff.mpr hall) h

/-- releasing removes exactly the named tuples and nothing else; the live set stays conflict-free -/
theorem release_spec (T : PM) (ns : List Nat) (t : Nat) (a : List Nat) (p : Nat) (hT : NoConflict T) :
    NoConflict (release T ns t a p) ∧
    ∀ y, y ∈ release T ns t a p ↔ y ∈ T ∧ ¬ (y.net ∈ ns ∧ y.trans = t ∧ y.port = p ∧ y.addr = a) := by
  constructor
  · exact List.Pairwise.filter _ hT
  · intro y
    simp only [release, List.mem_filter, Bool.not_eq_eq_eq_not, Bool.not_true, Bool.and_eq_false_imp,
      Bool.and_eq_true, List.contains_eq_mem, decide_eq_true_eq, beq_iff_eq, and_imp]
    constructor
    · rintro ⟨h1, h2⟩
      refine ⟨h1, ?_⟩
      rintro ⟨a1, a2, a3, a4⟩
      have := h2 a1 a2 a3
      simp [a4] at this
    · rintro ⟨h1, h2⟩
      refine ⟨h1, fun a1 a2 a3 => ?_⟩
      by_cases h4 : y.addr = a
      · exact absurd ⟨a1, a2, a3, h4⟩ h2
      · simpa using h4

/-- a released reservation becomes available again: after reserving on a conflict-free state and
    releasing the same reservation, the same request is available -/
theorem release_restores (T : PM) (ns : List Nat) (t : Nat) (a : List Nat) (p : Nat) (hT : NoConflict T)
    (hok : (reserveSpecific T ns t a p).2 = true) :
    isAvailable (release (reserveSpecific T ns t a p).1 ns t a p) ns t a p = true := by
  obtain ⟨h1, h2, _, h4⟩ := reserve_spec T ns t a p hT
  have hfree := h1.mp hok
  simp only [isAvailable, List.all_eq_true, availOne_iff]
  intro n hn x hx
  obtain ⟨hx1, hx2⟩ := (release_spec _ ns t a p h2).2 x |>.mp hx
  rcases (h4 hok x).mp hx1 with hxT | ⟨m, hm, rfl⟩
  · exact hfree n hn x hxT
  · exact absurd ⟨hm, rfl, rfl, rfl⟩ hx2

inductive Op
  | reserve (ns : List Nat) (t : Nat) (a : List Nat) (p : Nat)
  | release (ns : List Nat) (t : Nat) (a : List Nat) (p : Nat)

def step (T : PM) : Op → PM
  | .reserve ns t a p => (reserveSpecific T ns t a p).1
  | .release ns t a p => release T ns t a p

/-- **Exclusivity over every history**: after any sequence of reservations and releases, no two live
    reservations conflict — two requests for the same protocol and port where either is the wildcard
    or both name the same address are never both live. -/
theorem exclusive (ops : List Op) : NoConflict (ops.foldl step []) := by
  suffices h : ∀ T, NoConflict T → NoConflict (ops.foldl step T) from h [] List.Pairwise.nil
  induction ops with
  | nil => intro T hT; exact hT
  | cons op t ih =>
    intro T hT
    simp only [List.foldl_cons]
    apply ih
    cases op with
    | reserve ns t a p => exact (reserve_spec T ns t a p hT).2.1
    | release ns t a p => exact (release_spec T ns t a p hT).1

/-- non-vacuity: wildcard then specific on the same port is refused, another port is fine -/
example : (reserveSpecific (reserveSpecific [] [2048] 6 [] 80).1 [2048] 6 [10, 0, 0, 1] 80).2 = false := by decide
example : (reserveSpecific (reserveSpecific [] [2048] 6 [] 80).1 [2048] 6 [10, 0, 0, 1] 81).2 = true := by decide

end C10
