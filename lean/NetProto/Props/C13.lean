import NetProto.Generated.Shapes
import NetProto.Model.Net
import NetProto.Props.C15
/-!
# C13 — echo requests are answered once, mirroring identifier, sequence number and payload
-/
set_option maxRecDepth 10000
namespace C13
open Model.Net Model.Header Spec.Rfc

/-- the reply queue holds ten requests, as the property says (regenerated from `make(chan echoRequest, 10)`) -/
theorem queue_cap_anchor : Gen.Shapes.ipv4_echoRequests_cap = 10 ∧ echoQueueCap = 10 := by decide

/-- at most one reply per request is immediate: the handler is a function returning at most one message;
    it answers only echo requests (type 8) whose first view holds at least type, code, checksum, identifier -/
theorem echo4_only_requests (msg : List Nat) (fl : Nat) (r : List Nat) (h : echo4Reply msg fl = some r) :
    msg.getD 0 0 = 8 ∧ 6 ≤ msg.length := by
  unfold echo4Reply at h
  simp only at h
  split at h
  · simp at h
  · split at h
    · simp at h
    · split at h
      · simp at h
      · rename_i h1 h2 h3
        have hl : (msg.take fl).length ≤ msg.length := by rw [List.length_take]; omega
        refine ⟨?_, by omega⟩
        have : (msg.take fl).getD 0 0 = msg.getD 0 0 := by
          cases msg with
          | nil => simp at h1
          | cons a t =>
            cases fl with
            | zero => simp at h1
            | succ n => simp
        rw [← this]
        simpa using h2

/-- **the reply mirrors the request**: type 0, code 0, and identifier, sequence number and payload
    byte for byte; same length -/
theorem echo4_mirrors (msg : List Nat) (fl : Nat) (r : List Nat) (h : echo4Reply msg fl = some r) :
    r.take 2 = [0, 0] ∧ r.drop 4 = msg.drop 4 ∧ r.length = msg.length := by
  have hreq := echo4_only_requests msg fl r h
  unfold echo4Reply at h
  simp only at h
  split at h
  · simp at h
  · split at h
    · simp at h
    · split at h
      · simp at h
      · simp only [Option.some.injEq] at h
        subst h
        refine ⟨by simp [be16], by simp [be16], ?_⟩
        simp [be16]
        omega

/-- **the reply's checksum verifies** (RFC 1071 sum over the whole ICMP message is 0xffff), for every
    payload, odd or even length, up to the size bound of `checksum_eq_rfc1071` -/
theorem echo4_checksum_valid (msg : List Nat) (fl : Nat) (r : List Nat) (hb : C15.Bytes msg)
    (hlen : msg.length ≤ 65535) (h : echo4Reply msg fl = some r) : ocSum r 0 = 65535 := by
  have hreq := echo4_only_requests msg fl r h
  unfold echo4Reply at h
  simp only at h
  split at h
  · simp at h
  · split at h
    · simp at h
    · split at h
      · simp at h
      · simp only [Option.some.injEq] at h
        subst h
        -- name the pieces
        generalize hd : msg.drop 4 = data at *
        have hdb : C15.Bytes data := by
          intro x hx; rw [← hd] at hx; exact hb x (List.mem_of_mem_drop hx)
        have hdl : 2 ≤ data.length := by rw [← hd]; simp; omega
        have hdl2 : data.length ≤ 65535 := by rw [← hd]; simp; omega
        obtain ⟨i0, i1, rest, rfl⟩ : ∃ i0 i1 rest, data = i0 :: i1 :: rest := by
          match data, hdl with
          | i0 :: i1 :: rest, _ => exact ⟨_, _, _, rfl⟩
        have hi0 := hdb i0 (by simp)
        have hi1 := hdb i1 (by simp)
        have hrb : C15.Bytes rest := fun x hx => hdb x (by simp [hx])
        simp only [List.take_succ_cons, List.take_zero, List.drop_succ_cons, List.drop_zero]
        -- the code's two-stage checksum is the RFC sum of (rest then the 6-byte header)
        have c1 : checksum rest 0 = ocSum rest 0 :=
          C15.checksum_eq_rfc1071 rest 0 hrb (by omega) (by simp at hdl2; omega)
        have h6b : C15.Bytes ([0, 0, 0, 0] ++ [i0, i1]) := by
          intro x hx; simp at hx; rcases hx with rfl | rfl | rfl <;> omega
        have c2 : checksum ([0, 0, 0, 0] ++ [i0, i1]) (ocSum rest 0) = ocSum ([0, 0, 0, 0] ++ [i0, i1]) (ocSum rest 0) := by
          apply C15.checksum_eq_rfc1071 _ _ h6b
          · rw [C15.ocSum_eq rest 0 hrb (by omega)]; exact C15.ocRep_lt _
          · simp
        rw [c1, c2]
        -- everything as integer sums
        rw [C15.ocSum_eq rest 0 hrb (by omega)]
        have e1 : ocSum ([0, 0, 0, 0] ++ [i0, i1]) (C15.ocRep (0 + C15.wsum rest)) = C15.ocRep (C15.wsum rest + (i0 * 256 + i1)) := by
          have := C15.fold_ocAdd [0, 0, i0 * 256 + i1] (C15.wsum rest) (by
            intro w hw; simp at hw; rcases hw with rfl | rfl <;> omega)
          simp only [List.foldl_cons, List.foldl_nil, Nat.zero_add, Nat.add_zero] at this
          simp only [ocSum, List.cons_append, List.nil_append, words, List.foldl_cons, List.foldl_nil, Nat.zero_mul,
            Nat.zero_add, Nat.add_zero]
          exact this
        rw [e1]
        generalize hS : C15.wsum rest + (i0 * 256 + i1) = S
        have hck : C15.ocRep S < 65536 := C15.ocRep_lt S
        -- the reply: [0,0] ++ be16 ck ++ i0 :: i1 :: rest
        have hrB : C15.Bytes ([0, 0] ++ be16 (65535 - C15.ocRep S) ++ i0 :: i1 :: rest) := by
          intro x hx
          simp only [be16, List.mem_append, List.mem_cons, List.mem_nil_iff, or_false] at hx
          rcases hx with ((rfl | rfl) | (rfl | rfl)) | rfl | rfl | hx
          all_goals first | omega | exact hrb x hx
        rw [C15.ocSum_eq _ 0 hrB (by omega)]
        have hw : C15.wsum ([0, 0] ++ be16 (65535 - C15.ocRep S) ++ i0 :: i1 :: rest) = (65535 - C15.ocRep S) + S := by
          have hwc : ∀ a b t, C15.wsum (a :: b :: t) = (a * 256 + b) + C15.wsum t := by
            intro a b t; unfold C15.wsum; simp only [words, List.foldl_cons]; rw [C15.foldl_add_shift]; omega
          simp only [be16, List.cons_append, List.nil_append]
          rw [hwc, hwc, hwc]
          omega
        rw [hw]
        have := C15.verify_complement S
        rw [Nat.add_comm] at this
        simpa using this

/-- ICMPv6: the reply mirrors code, identifier, sequence number and payload, with type 129 -/
theorem echo6_mirrors (src dst msg : List Nat) (fl : Nat) (r : List Nat) (h : echo6Reply src dst msg fl = some r) :
    r.getD 0 0 = 129 ∧ r.drop 4 = msg.drop 4 ∧ msg.getD 0 0 = 128 := by
  unfold echo6Reply at h
  simp only at h
  split at h
  · simp at h
  · split at h
    · simp at h
    · split at h
      · simp at h
      · rename_i h1 h2 h3
        simp only [Option.some.injEq] at h
        subst h
        have hl : (msg.take fl).length ≤ msg.length := by rw [List.length_take]; omega
        have h8 : 8 ≤ msg.length := by omega
        have e0 : (msg.take fl).getD 0 0 = msg.getD 0 0 := by
          cases msg with
          | nil => simp at h8
          | cons a t =>
            cases fl with
            | zero => simp at h1
            | succ n => simp
        refine ⟨by simp, ?_, by rw [← e0]; simpa using h2⟩
        simp only [be16, List.cons_append, List.nil_append, List.drop_succ_cons, List.drop_zero]
        have : (msg.drop 4).take 4 ++ msg.drop 8 = msg.drop 4 := by
          have := List.take_append_drop 4 (msg.drop 4)
          rwa [List.drop_drop] at this
        simpa using this

/-- ICMPv6: only echo requests whose first view holds the whole 8-byte echo header are answered, and the reply has the
request's length and code (nothing is cut off or appended, whatever the split into views) -/
theorem echo6_only_requests_same_length (src dst msg : List Nat) (fl : Nat) (r : List Nat)
    (h : echo6Reply src dst msg fl = some r) :
    8 ≤ msg.length ∧ 8 ≤ fl ∧ r.length = msg.length ∧ r.getD 1 0 = msg.getD 1 0 := by
  unfold echo6Reply at h
  simp only at h
  split at h
  · simp at h
  · split at h
    · simp at h
    · split at h
      · simp at h
      · rename_i h1 h2 h3
        simp only [Option.some.injEq] at h
        subst h
        have hlen : (msg.take fl).length = min fl msg.length := List.length_take
        have h8 : 8 ≤ msg.length := by omega
        have hf : 8 ≤ fl := by omega
        have e1 : (msg.take fl).getD 1 0 = msg.getD 1 0 := by
          match msg, fl with
          | a :: b :: t, n + 2 => simp
          | [], _ => simp at h8
          | [_], _ => simp at h8
          | _ :: _ :: _, 0 => omega
          | _ :: _ :: _, 1 => omega
        refine ⟨h8, hf, ?_, by simpa using e1⟩
        simp [be16]
        omega

/-- non-vacuity / worked instance: ident 0x1234 seq 1 payload "hi" -/
example : echo4Reply [8, 0, 0, 0, 0x12, 0x34, 0, 1, 104, 105] 10 =
    some [0, 0, 0x85, 0x61, 0x12, 0x34, 0, 1, 104, 105] := by decide
example : ocSum [0, 0, 0x85, 0x61, 0x12, 0x34, 0, 1, 104, 105] 0 = 65535 := by decide

end C13
