import NetProto.Generated.Seqnum
import NetProto.Model.Seqnum
/-!
# C14 — sequence-space arithmetic (theorems about the *generated* definitions)

`Gen.Seqnum.*` is regenerated from `/repo/pkg/seqnum/seqnum.go` on every run, so
each theorem below is re-checked against what the code says now.
-/
namespace C14
open Gen.Seqnum (LessThan LessThanEq InRange InWindow Overlap Size UpdateForward)
abbrev SAdd := Gen.Seqnum.Add

/-- forward distance from `v` to `w` in the 32-bit circle -/
def fwd (v w : BitVec 32) : Nat := (w - v).toNat

theorem fwd_lt (v w : BitVec 32) : fwd v w < 2^32 := (w - v).isLt

/-- What the code computes: `v` precedes `w` iff the forward distance is in `[1, 2^31]`. -/
theorem lessThan_iff (v w : BitVec 32) :
    LessThan v w = true ↔ (1 ≤ fwd v w ∧ fwd v w ≤ 2^31) := by
  unfold LessThan fwd
  simp only [BitVec.slt, BitVec.toInt_eq_toNat_cond, decide_eq_true_eq]
  have hv := v.isLt
  have hw := w.isLt
  simp only [BitVec.toNat_sub, BitVec.toNat_ofNat, Nat.reducePow, Nat.reduceMod] at *
  omega

/-- The property as worded (`1 ≤ fwd ≤ 2^31-1`) holds everywhere except at distance exactly 2^31. -/
theorem lessThan_spec_partial (v w : BitVec 32) (h : fwd v w ≠ 2^31) :
    LessThan v w = true ↔ (1 ≤ fwd v w ∧ fwd v w ≤ 2^31 - 1) := by
  rw [lessThan_iff]; omega

/-- Finding F14a: at distance exactly 2^31 each value precedes the other. -/
theorem lessThan_half_witness (v w : BitVec 32) (h : fwd v w = 2^31) :
    LessThan v w = true ∧ LessThan w v = true := by
  rw [lessThan_iff, lessThan_iff]
  unfold fwd at *
  have hv := v.isLt
  have hw := w.isLt
  simp only [BitVec.toNat_sub, Nat.reducePow] at *
  omega

/-- antisymmetry away from the antipode -/
theorem lessThan_asymm (v w : BitVec 32) (h : fwd v w ≠ 2^31) :
    ¬ (LessThan v w = true ∧ LessThan w v = true) := by
  rw [lessThan_iff, lessThan_iff]
  unfold fwd at *
  have hv := v.isLt
  have hw := w.isLt
  simp only [BitVec.toNat_sub, Nat.reducePow] at *
  omega

theorem lessThan_irrefl (v : BitVec 32) : LessThan v v = false := by
  have := lessThan_iff v v
  unfold fwd at this
  simp at this
  simpa using this

theorem lessThanEq_iff (v w : BitVec 32) :
    LessThanEq v w = true ↔ fwd v w ≤ 2^31 := by
  unfold LessThanEq
  by_cases h : v = w
  · subst h; simp [fwd]
  · have hne : (v == w) = false := by simpa using h
    simp only [hne, Bool.false_eq_true, ↓reduceIte]
    rw [lessThan_iff]
    have hn : v.toNat ≠ w.toNat := fun e => h (BitVec.eq_of_toNat_eq e)
    unfold fwd
    have hv := v.isLt
    have hw := w.isLt
    simp only [BitVec.toNat_sub, Nat.reducePow] at *
    omega

/-- `v ∈ [a,b)` exactly when its distance from `a` is less than `b`'s. -/
theorem inRange_iff (v a b : BitVec 32) :
    InRange v a b = true ↔ fwd a v < fwd a b := by
  unfold InRange fwd
  simp [BitVec.ult]

theorem add_fwd (v s : BitVec 32) : fwd v (SAdd v s) = s.toNat := by
  unfold fwd SAdd Gen.Seqnum.Add
  have hv := v.isLt
  have hs := s.isLt
  simp only [BitVec.toNat_sub, BitVec.toNat_add, Nat.reducePow] at *
  omega

theorem inWindow_iff (v first size : BitVec 32) :
    InWindow v first size = true ↔ fwd first v < size.toNat := by
  unfold InWindow
  rw [inRange_iff, add_fwd]

theorem size_spec (v w : BitVec 32) : (Size v w).toNat = fwd v w := rfl

theorem add_size (v w : BitVec 32) : SAdd v (Size v w) = w := by
  unfold SAdd Gen.Seqnum.Add Size
  apply BitVec.eq_of_toNat_eq
  have hv := v.isLt
  have hw := w.isLt
  simp only [BitVec.toNat_sub, BitVec.toNat_add, Nat.reducePow] at *
  omega

theorem size_add (v s : BitVec 32) : Size v (SAdd v s) = s := by
  apply BitVec.eq_of_toNat_eq
  rw [size_spec, add_fwd]

theorem updateForward_eq (v s : BitVec 32) : UpdateForward v s = SAdd v s := rfl

/-- two windows share a sequence number -/
def Share (a b x y : BitVec 32) : Prop :=
  ∃ k : BitVec 32, fwd a k < b.toNat ∧ fwd x k < y.toNat

/-- On a circle two non-empty arcs meet iff the start of one lies in the other. -/
theorem share_iff (a b x y : BitVec 32) :
    Share a b x y ↔ (fwd a x < b.toNat ∧ 0 < y.toNat) ∨ (fwd x a < y.toNat ∧ 0 < b.toNat) := by
  unfold Share fwd
  constructor
  · rintro ⟨k, h1, h2⟩
    have ha := a.isLt; have hx := x.isLt; have hk := k.isLt
    have hb := b.isLt; have hy := y.isLt
    simp only [BitVec.toNat_sub, Nat.reducePow] at *
    omega
  · rintro (⟨h, hy⟩ | ⟨h, hb⟩)
    · exact ⟨x, h, by simpa using hy⟩
    · exact ⟨a, by simpa using hb, h⟩

/-- `Overlap` agrees with "share a sequence number" whenever both windows are non-empty and
    the two windows together span at most 2^31 (start-to-far-end distance, either way round). -/
theorem overlap_spec_partial (a b x y : BitVec 32) (hb : 0 < b.toNat) (hy : 0 < y.toNat)
    (hspan : (fwd a x + y.toNat ≤ 2^31 ∧ b.toNat ≤ 2^31) ∨ (fwd x a + b.toNat ≤ 2^31 ∧ y.toNat ≤ 2^31)) :
    Overlap a b x y = true ↔ Share a b x y := by
  rw [share_iff]
  unfold Overlap
  rw [Bool.and_eq_true, lessThan_iff, lessThan_iff]
  unfold fwd Gen.Seqnum.Add at *
  have ha := a.isLt; have hx := x.isLt
  have hb' := b.isLt; have hy' := y.isLt
  simp only [BitVec.toNat_sub, BitVec.toNat_add, Nat.reducePow] at *
  omega

/-- Finding F14b: an *empty* window strictly inside another is reported as overlapping. -/
theorem overlap_empty_witness : Overlap 10#32 0#32 5#32 10#32 = true ∧ ¬ Share 10#32 0#32 5#32 10#32 := by
  constructor
  · decide
  · rw [share_iff]; decide

/-- Finding F14b: beyond the 2^31 span, disjoint windows can be reported overlapping and
    overlapping windows disjoint. -/
theorem overlap_span_witness :
    Overlap 0#32 0x90000000#32 0x10#32 1#32 = false ∧ Share 0#32 0x90000000#32 0x10#32 1#32 := by
  constructor
  · decide
  · rw [share_iff]; decide

/-- the hand-written model the driver executes is the regenerated translation -/
theorem model_eq_generated :
    Model.Seqnum.LessThan = Gen.Seqnum.LessThan ∧ Model.Seqnum.LessThanEq = Gen.Seqnum.LessThanEq ∧
    Model.Seqnum.InRange = Gen.Seqnum.InRange ∧ Model.Seqnum.InWindow = Gen.Seqnum.InWindow ∧
    Model.Seqnum.Overlap = Gen.Seqnum.Overlap ∧ Model.Seqnum.Add = Gen.Seqnum.Add ∧
    Model.Seqnum.SizeOf = Gen.Seqnum.Size ∧ Model.Seqnum.UpdateForward = Gen.Seqnum.UpdateForward :=
  ⟨rfl, rfl, rfl, rfl, rfl, rfl, rfl, rfl⟩

/-! ## Bridging lemmas: modular comparison = comparison of unbounded stream offsets -/

/-- `seqOf base off` is the sequence number of stream offset `off` for a connection starting at `base`. -/
def seqOf (base : BitVec 32) (off : Nat) : BitVec 32 := base + BitVec.ofNat 32 off

theorem lessThan_offsets (base : BitVec 32) (i j : Nat) (h : i < j + 2^31 ∧ j < i + 2^31) :
    LessThan (seqOf base i) (seqOf base j) = true ↔ i < j := by
  rw [lessThan_iff]
  unfold fwd seqOf
  have hb := base.isLt
  simp only [BitVec.toNat_sub, BitVec.toNat_add, BitVec.toNat_ofNat, Nat.reducePow] at *
  omega

theorem lessThanEq_offsets (base : BitVec 32) (i j : Nat) (h : i < j + 2^31 ∧ j < i + 2^31) :
    LessThanEq (seqOf base i) (seqOf base j) = true ↔ i ≤ j := by
  rw [lessThanEq_iff]
  unfold fwd seqOf
  have hb := base.isLt
  simp only [BitVec.toNat_sub, BitVec.toNat_add, BitVec.toNat_ofNat, Nat.reducePow] at *
  omega

theorem inWindow_offsets (base : BitVec 32) (i f : Nat) (size : BitVec 32)
    (h : i < f + 2^31 ∧ f < i + 2^31) (hsz : size.toNat ≤ 2^31) :
    InWindow (seqOf base i) (seqOf base f) size = true ↔ (f ≤ i ∧ i < f + size.toNat) := by
  rw [inWindow_iff]
  unfold fwd seqOf
  have hb := base.isLt
  have hs := size.isLt
  simp only [BitVec.toNat_sub, BitVec.toNat_add, BitVec.toNat_ofNat, Nat.reducePow] at *
  omega

theorem add_offsets (base : BitVec 32) (i : Nat) (s : BitVec 32) :
    SAdd (seqOf base i) s = seqOf base (i + s.toNat) := by
  unfold SAdd Gen.Seqnum.Add seqOf
  apply BitVec.eq_of_toNat_eq
  simp only [BitVec.toNat_add, BitVec.toNat_ofNat, Nat.reducePow]
  omega

/-- non-vacuity: the hypotheses of the bridging lemmas are met by a stream that crosses 2^32 -/
example : LessThan (seqOf 0xfffffff0#32 10) (seqOf 0xfffffff0#32 20) = true := by decide
example : (4294967280 + 20) % 2^32 = 4 := by decide

end C14
