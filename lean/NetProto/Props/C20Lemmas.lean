import NetProto.Model.Ws
/-! Helper lemmas for C20 (HTTP parser and WebSocket codec models); the property theorems are in `Props/C20.lean`. -/
namespace Props.C20
open Model.Http


/-- `d` does not start anywhere inside `k`, nor straddling the end of `k` when `d` follows -/
def cleanB (d : Bytes) : Bytes → Bool
  | [] => true
  | a :: as => !hasPrefix (a :: as ++ d) d && cleanB d as

theorem hasPrefix_append : ∀ (x y d : Bytes), d.length ≤ x.length → hasPrefix (x ++ y) d = hasPrefix x d
  | _, _, [], _ => by simp [hasPrefix]
  | [], _, _ :: _, h => by simp at h
  | a :: as, y, e :: es, h => by
    simp only [List.cons_append, hasPrefix]
    rw [hasPrefix_append as y es (by simpa using h)]

theorem hasPrefix_self : ∀ (d r : Bytes), hasPrefix (d ++ r) d = true
  | [], r => by cases r <;> simp [hasPrefix]
  | a :: as, r => by simp [hasPrefix, hasPrefix_self as r]

theorem index_clean (d : Bytes) (hd : d ≠ []) : ∀ (k r : Bytes), cleanB d k = true → index d (k ++ (d ++ r)) = some k.length
  | [], r, _ => by
    cases d with
    | nil => exact absurd rfl hd
    | cons a as =>
      have := hasPrefix_self (a :: as) r
      simp only [List.nil_append, List.cons_append] at this ⊢
      simp [index, this]
  | a :: as, r, h => by
    simp only [cleanB, Bool.and_eq_true, Bool.not_eq_true'] at h
    have hp : hasPrefix (a :: as ++ d ++ r) d = false := by
      rw [hasPrefix_append _ r d (by simp; omega)]; exact h.1
    have ih := index_clean d hd as r h.2
    simp only [List.cons_append, List.append_assoc] at hp ⊢
    simp [index, hp, ih]

theorem matchUntil_clean (d : Bytes) (hd : d ≠ []) (k r : Bytes) (h : cleanB d k = true) :
    matchUntil (k ++ (d ++ r)) d = (k, r) := by
  simp [matchUntil, index_clean d hd k r h]

/-- a one-byte delimiter that does not occur in `k` -/
theorem clean_of_absent1 (c : Nat) : ∀ k : Bytes, c ∉ k → cleanB [c] k = true
  | [], _ => rfl
  | a :: as, h => by
    simp only [List.mem_cons, not_or] at h
    have : (a == c) = false := by simp; exact fun e => h.1 e.symm
    simp [cleanB, hasPrefix, this, clean_of_absent1 c as h.2]

/-- a two-byte delimiter of two different bytes that does not occur in `k` -/
theorem clean_of_absent2 (a b : Nat) (hab : a ≠ b) : ∀ k : Bytes, index [a, b] k = none → cleanB [a, b] k = true
  | [], _ => rfl
  | x :: xs, h => by
    simp only [index] at h
    split at h
    · simp at h
    · rename_i hp
      simp only [Option.map_eq_none_iff] at h
      have ih := clean_of_absent2 a b hab xs h
      simp only [cleanB, ih, Bool.and_true, Bool.not_eq_true']
      cases xs with
      | nil => simp [hasPrefix]; intro _; exact hab
      | cons y ys =>
        simp only [hasPrefix, Bool.and_true, List.cons_append] at hp ⊢
        simpa using hp

def okTok (t : Bytes) : Prop := t ≠ [] ∧ 32 ∉ t
def okKey (k : Bytes) : Prop := k ≠ [] ∧ index colonSp k = none ∧ index crlf k = none
def okVal (v : Bytes) : Prop := v ≠ [] ∧ index crlf v = none
instance : DecidablePred okTok := fun _ => by unfold okTok; infer_instance
instance : DecidablePred okKey := fun _ => by unfold okKey; infer_instance
instance : DecidablePred okVal := fun _ => by unfold okVal; infer_instance

theorem key_not_blank (k r : Bytes) (hk : okKey k) : hasPrefix (k ++ (colonSp ++ r)) crlf = false := by
  obtain ⟨hne, _, hc⟩ := hk
  have cl := clean_of_absent2 13 10 (by decide) k hc
  cases k with
  | nil => exact absurd rfl hne
  | cons a as =>
    cases as with
    | nil => simp [hasPrefix, colonSp, crlf]
    | cons y ys =>
      simp only [cleanB, Bool.and_eq_true, Bool.not_eq_true'] at cl
      have := cl.1
      simp only [crlf, List.cons_append, hasPrefix, Bool.and_true] at this ⊢
      exact this

theorem headerLines_length : ∀ hs : List (Bytes × Bytes), hs.length ≤ (headerLines hs).length
  | [] => by simp [headerLines]
  | (k, v) :: rest => by
    have := headerLines_length rest
    simp [headerLines, colonSp, crlf]; omega

theorem headerLoop_lines : ∀ (hs : List (Bytes × Bytes)) (acc : List (Bytes × Bytes)) (fuel : Nat) (body : Bytes),
    (∀ h ∈ hs, okKey h.1 ∧ okVal h.2) → hs.length < fuel →
    headerLoop fuel (headerLines hs ++ crlf ++ body) acc = (acc ++ hs, body)
  | [], acc, fuel, body, _, hf => by
    cases fuel with
    | zero => simp at hf
    | succ n => simp [headerLines, headerLoop, crlf, hasPrefix]
  | (k, v) :: rest, acc, fuel, body, hok, hf => by
    cases fuel with
    | zero => simp at hf
    | succ n =>
      have hkv := hok (k, v) (by simp)
      obtain ⟨hk, hv⟩ := hkv
      have e : headerLines ((k, v) :: rest) ++ crlf ++ body
          = k ++ (colonSp ++ (v ++ (crlf ++ (headerLines rest ++ crlf ++ body)))) := by simp [headerLines]
      have ne : k ++ (colonSp ++ (v ++ (crlf ++ (headerLines rest ++ crlf ++ body)))) ≠ [] := by
        simp [colonSp]
      have nb := key_not_blank k (v ++ (crlf ++ (headerLines rest ++ crlf ++ body))) hk
      have m1 := matchUntil_clean colonSp (by decide) k (v ++ (crlf ++ (headerLines rest ++ crlf ++ body)))
        (clean_of_absent2 58 32 (by decide) k hk.2.1)
      have m2 := matchUntil_clean crlf (by decide) v (headerLines rest ++ crlf ++ body)
        (clean_of_absent2 13 10 (by decide) v hv.2)
      have ih := headerLoop_lines rest (acc ++ [(k, v)]) n body (fun h hh => hok h (by simp [hh])) (by simpa using hf)
      rw [e, headerLoop]
      simp only [ne, if_false, nb, m1, m2, hk.1, hv.1, ne_eq, not_false_eq_true, if_true, false_or, Bool.false_eq_true]
      rw [ih]; simp

/-- a start line and header section in the grammar both builders emit -/
def message (a b c : Bytes) (hs : List (Bytes × Bytes)) (body : Bytes) : Bytes :=
  a ++ (sp ++ (b ++ (sp ++ (c ++ (crlf ++ (headerLines hs ++ crlf ++ body))))))

/-- the status `parse` leaves on the connection for a start line `a b c` -/
def lineStatus (st : Nat) (a c : Bytes) : Nat :=
  let st1 := match getMethod a with
    | .notSupported => setStatus st 501
    | .unknown => 400
    | _ => st
  if equalFold c (str "HTTP/1.0") || equalFold c (str "HTTP/1.1") then st1 else setStatus st1 400

/-- the parser recovers every part of a message in the grammar: the three words of the start line, every header in
order, and the body byte for byte (whatever it contains) -/
theorem parse_message (st : Nat) (a b c body : Bytes) (hs : List (Bytes × Bytes))
    (ha : okTok a) (hb : okTok b) (hc : okVal c) (hh : ∀ h ∈ hs, okKey h.1 ∧ okVal h.2) :
    parse st (message a b c hs body)
      = { method := a, uri := b, version := c, headers := hs, body := body, status := lineStatus st a c } := by
  have m1 := matchUntil_clean sp (by decide) a (b ++ (sp ++ (c ++ (crlf ++ (headerLines hs ++ crlf ++ body)))))
    (clean_of_absent1 32 a ha.2)
  have m2 := matchUntil_clean sp (by decide) b (c ++ (crlf ++ (headerLines hs ++ crlf ++ body)))
    (clean_of_absent1 32 b hb.2)
  have m3 := matchUntil_clean crlf (by decide) c (headerLines hs ++ crlf ++ body)
    (clean_of_absent2 13 10 (by decide) c hc.2)
  have hl := headerLoop_lines hs [] ((headerLines hs ++ crlf ++ body).length + 1) body hh (by
    have := headerLines_length hs; simp; omega)
  unfold parse message
  simp only [m1, m2, m3, ha.1, hb.1, hc.1, if_false, hl, lineStatus, List.nil_append]
  split <;> rfl


section ws
open Model.Ws

theorem beVal_append (a : List Nat) (x : Nat) : beVal (a ++ [x]) = beVal a * 256 + x := by
  simp [beVal, List.foldl_append]

theorem beVal_beBytes : ∀ (n v : Nat), v < 256 ^ n → beVal (beBytes n v) = v
  | 0, v, h => by simp at h; simp [beBytes, beVal, h]
  | n + 1, v, h => by
    have h' : v / 256 < 256 ^ n := by
      rw [Nat.div_lt_iff_lt_mul (by decide)]; rw [Nat.pow_succ] at h; exact h
    rw [beBytes, beVal_append, beVal_beBytes n _ h']; omega

theorem beBytes_length : ∀ (n v : Nat), (beBytes n v).length = n
  | 0, _ => rfl
  | n + 1, v => by simp [beBytes, beBytes_length n]

theorem readn_append (a r : List Nat) : readn a.length (a ++ r) = some (a, r) := by
  simp [readn]

theorem readn_append_n (n : Nat) (a r : List Nat) (h : a.length = n) : readn n (a ++ r) = some (a, r) := by
  subst h; exact readn_append a r

theorem readPayload_plain (data rest : List Nat) : readPayload false data.length (data ++ rest) = .data data rest := by
  simp [readPayload, readn_append]

theorem maskFrom_involutive (key : List Nat) : ∀ (b : List Nat) (pos : Nat), maskFrom key pos (maskFrom key pos b) = b
  | [], _ => rfl
  | x :: xs, pos => by
    simp [maskFrom, maskFrom_involutive key xs (pos + 1), Nat.xor_assoc]

theorem maskBytes_involutive (key b : List Nat) : maskBytes key (maskBytes key b) = b := maskFrom_involutive key b 0

theorem maskFrom_length (key : List Nat) : ∀ (b : List Nat) (pos : Nat), (maskFrom key pos b).length = b.length
  | [], _ => rfl
  | x :: xs, pos => by simp [maskFrom, maskFrom_length key xs (pos + 1)]

theorem spec_be_succ (n v : Nat) : Spec.Ws.be (n + 1) v = Spec.Ws.be n (v / 256) ++ [v % 256] := by
  unfold Spec.Ws.be
  rw [List.range_succ_eq_map]
  simp [Function.comp_def, Nat.pow_succ, Nat.div_div_eq_div_mul, Nat.mul_comm]

theorem spec_be_eq : ∀ (n v : Nat), Spec.Ws.be n v = beBytes n v
  | 0, _ => rfl
  | n + 1, v => by rw [spec_be_succ, beBytes, spec_be_eq n]

theorem foldl_acc (l : List Nat) : ∀ acc : Nat, l.foldl (fun a x => a * 256 + x) acc = acc * 256 ^ l.length + l.foldl (fun a x => a * 256 + x) 0 := by
  induction l with
  | nil => intro acc; simp
  | cons x xs ih =>
    intro acc
    simp only [List.foldl_cons, List.length_cons]
    rw [ih (acc * 256 + x), ih (0 * 256 + x)]
    simp [Nat.pow_succ, Nat.add_mul, Nat.mul_assoc, Nat.mul_comm 256, Nat.add_assoc]

theorem spec_unbe_eq : ∀ b : List Nat, Spec.Ws.unbe b = beVal b
  | [] => rfl
  | x :: xs => by
    rw [Spec.Ws.unbe, spec_unbe_eq xs]; unfold beVal; rw [List.foldl_cons, foldl_acc xs (0 * 256 + x)]; simp

theorem spec_xor_from (key : List Nat) : ∀ (d : List Nat) (pos : Nat),
    (d.zipIdx pos).map (fun p => p.1 ^^^ key.getD (p.2 % 4) 0) = maskFrom key pos d
  | [], _ => rfl
  | x :: xs, pos => by
    have ih := spec_xor_from key xs (pos + 1)
    simp only [List.getD_eq_getElem?_getD] at ih ⊢
    simp [List.zipIdx_cons, maskFrom, ih]

theorem spec_xor_eq (key d : List Nat) : Spec.Ws.xorKey key d = maskBytes key d := spec_xor_from key d 0

theorem readPayload_masked (k data rest : List Nat) (hk : k.length = 4) :
    readPayload true data.length (k ++ (maskBytes k data ++ rest)) = .data data rest := by
  have e1 : readn 4 (k ++ (maskBytes k data ++ rest)) = some (k, maskBytes k data ++ rest) :=
    readn_append_n 4 _ _ hk
  have e2 : readn data.length (maskBytes k data ++ rest) = some (maskBytes k data, rest) :=
    readn_append_n _ _ _ (maskFrom_length k data 0)
  simp [readPayload, e1, e2, maskBytes_involutive]


theorem b64char_ne (v : Nat) : Spec.Ws.b64char v ≠ 13 ∧ Spec.Ws.b64char v ≠ 10 := by
  unfold Spec.Ws.b64char; constructor <;> (repeat' split) <;> omega

theorem base64_clean : ∀ (fuel : Nat) (l : List Nat), ∀ x ∈ Spec.Ws.base64 fuel l, x ≠ 13
  | 0, _ => by simp [Spec.Ws.base64]
  | fuel + 1, l => by
    intro x hx
    unfold Spec.Ws.base64 at hx
    split at hx
    · simp at hx
    · simp only [List.mem_cons, List.not_mem_nil, or_false] at hx
      rcases hx with h | h | h | h <;> subst h <;> first | exact (b64char_ne _).1 | decide
    · simp only [List.mem_cons, List.not_mem_nil, or_false] at hx
      rcases hx with h | h | h | h <;> subst h <;> first | exact (b64char_ne _).1 | decide
    · simp only [List.cons_append, List.nil_append, List.mem_cons] at hx
      rcases hx with h | h | h | h | h
      · subst h; exact (b64char_ne _).1
      · subst h; exact (b64char_ne _).1
      · subst h; exact (b64char_ne _).1
      · subst h; exact (b64char_ne _).1
      · exact base64_clean fuel _ x h

theorem sha1_length (msg : List Nat) : (Spec.Ws.sha1 msg).length = 20 := by
  unfold Spec.Ws.sha1
  simp [Spec.Ws.be]

theorem index_none_of_not_mem (a b : Nat) : ∀ k : List Nat, a ∉ k → index [a, b] k = none
  | [], _ => rfl
  | x :: xs, h => by
    simp only [List.mem_cons, not_or] at h
    have hx : (x == a) = false := by simp; exact fun e => h.1 e.symm
    have ih := index_none_of_not_mem a b xs h.2
    have hp : hasPrefix (x :: xs) [a, b] = false := by
      cases xs <;> simp [hasPrefix, hx]
    rw [index, hp, ih]; rfl

theorem acceptKey_nonempty (key : List Nat) : Spec.Ws.acceptKey key ≠ [] := by
  have h := sha1_length (key ++ Spec.Ws.guid)
  show Spec.Ws.base64 ((Spec.Ws.sha1 (key ++ Spec.Ws.guid)).length + 1) (Spec.Ws.sha1 (key ++ Spec.Ws.guid)) ≠ []
  generalize Spec.Ws.sha1 (key ++ Spec.Ws.guid) = d at h
  match d, h with
  | a :: b :: c :: rest, _ => simp [Spec.Ws.base64]

theorem acceptKey_clean (key : List Nat) : index crlf (Spec.Ws.acceptKey key) = none := by
  apply index_none_of_not_mem
  intro h
  exact base64_clean _ _ 13 h rfl
end ws
end Props.C20
