import NetProto.Model.Net
/-!
# C11 — UDP datagrams arrive whole, unmerged, at most once each, from the right sender
-/
namespace C11
open Model.Net

/-! ## one arrival: enqueued whole with its true sender, or dropped whole -/

theorem handle_whole (e : UdpEp) (nic : Nat) (src : Addr) (sport ulen : Nat) (payload : List Nat) :
    udpHandle e nic src sport ulen payload = e ∨
    udpHandle e nic src sport ulen payload =
      { e with rcvList := e.rcvList ++ [⟨payload, src, sport, nic⟩], rcvBufSize := e.rcvBufSize + payload.length } := by
  unfold udpHandle
  split
  · exact Or.inl rfl
  · split
    · exact Or.inl rfl
    · exact Or.inr rfl

/-- dropped whole when the buffer is already full, the read side is closed, or the socket is not
    bound yet; a malformed length field (longer than the packet) is dropped too -/
theorem drop_whole (e : UdpEp) (nic : Nat) (src : Addr) (sport ulen : Nat) (payload : List Nat)
    (h : ulen > payload.length + 8 ∨ e.rcvReady = false ∨ e.rcvClosed = true ∨ e.rcvBufSize ≥ e.rcvBufMax) :
    udpHandle e nic src sport ulen payload = e := by
  unfold udpHandle
  rcases h with h | h | h | h
  · simp [h]
  · split <;> simp [h]
  · split <;> simp [h]
  · split
    · rfl
    · have : (!e.rcvReady || e.rcvClosed || decide (e.rcvBufSize ≥ e.rcvBufMax)) = true := by simp [h]
      simp [this]

/-- otherwise it is accepted in full, however large (never truncated to the space left) -/
theorem accept_whole (e : UdpEp) (nic : Nat) (src : Addr) (sport ulen : Nat) (payload : List Nat)
    (h1 : ulen ≤ payload.length + 8) (h2 : e.rcvReady = true) (h3 : e.rcvClosed = false)
    (h4 : e.rcvBufSize < e.rcvBufMax) :
    (udpHandle e nic src sport ulen payload).rcvList = e.rcvList ++ [⟨payload, src, sport, nic⟩] := by
  unfold udpHandle
  have a : ¬ ulen > payload.length + 8 := by omega
  have b : (!e.rcvReady || e.rcvClosed || decide (e.rcvBufSize ≥ e.rcvBufMax)) = false := by
    simp [h2, h3]; omega
  simp [a, b]

/-! ## any history of arrivals and reads on one socket -/

inductive Ev
  | arrive (nic : Nat) (src : Addr) (sport ulen : Nat) (payload : List Nat)
  | read
  | shutdownRd

def evArr : Ev → List Dgram
  | .arrive nic src sport _ payload => [⟨payload, src, sport, nic⟩]
  | _ => []

/-- run a history on one endpoint; collect what the reads return -/
def run : UdpEp → List Ev → UdpEp × List Dgram
  | e, [] => (e, [])
  | e, .arrive nic src sport ulen payload :: t => run (udpHandle e nic src sport ulen payload) t
  | e, .read :: t =>
    match e.rcvList with
    | [] => run e t
    | p :: q =>
      let (e', out) := run { e with rcvList := q, rcvBufSize := e.rcvBufSize - p.data.length } t
      (e', p :: out)
  | e, .shutdownRd :: t => run { e with rcvClosed := true, shutRd := true } t

/-- **Reads return exactly datagrams that arrived, whole, in arrival order, each at most once, with
    the sender recorded on arrival**: what was returned followed by what is still queued is a
    subsequence of what was queued before followed by the arrivals of the history. -/
theorem reads_sublist (evs : List Ev) (e : UdpEp) :
    List.Sublist ((run e evs).2 ++ (run e evs).1.rcvList) (e.rcvList ++ evs.flatMap evArr) := by
  induction evs generalizing e with
  | nil => simp [run]
  | cons ev t ih =>
    cases ev with
    | arrive nic src sport ulen payload =>
      simp only [run, List.flatMap_cons, evArr]
      have := ih (udpHandle e nic src sport ulen payload)
      rcases handle_whole e nic src sport ulen payload with h | h
      · rw [h] at this ⊢
        refine this.trans ?_
        exact List.Sublist.append (List.Sublist.refl _) (List.sublist_append_right _ _)
      · rw [h] at this ⊢
        simpa [List.append_assoc] using this
    | read =>
      simp only [run, List.flatMap_cons, evArr, List.nil_append]
      cases hq : e.rcvList with
      | nil => simpa [hq] using ih e
      | cons p q =>
        simp only
        have := ih { e with rcvList := q, rcvBufSize := e.rcvBufSize - p.data.length }
        simp only [List.cons_append]
        exact List.Sublist.cons₂ p this
    | shutdownRd =>
      simp only [run, List.flatMap_cons, evArr, List.nil_append]
      exact ih { e with rcvClosed := true, shutRd := true }

/-- a read takes the oldest queued datagram, whole -/
theorem read_fifo (w : World) (i : Nat) (e : UdpEp) (p : Dgram) (q : List Dgram)
    (he : w.udp[i]? = some e) (hq : e.rcvList = p :: q) : (udpRead w i).2 = .ok p := by
  simp [udpRead, he, hq]

/-- nothing arrives after the read side is closed -/
theorem closed_no_arrival (e : UdpEp) (h : e.rcvClosed = true) (nic : Nat) (src : Addr) (sport ulen : Nat)
    (payload : List Nat) : udpHandle e nic src sport ulen payload = e :=
  drop_whole e nic src sport ulen payload (Or.inr (Or.inr (Or.inl h)))

/-! ## writes -/

theorem emit_ok (fam : Nat) (la ra : Addr) (lport dport : Nat) (payload : List Nat) (n : Nat) (pkt : OutPkt)
    (h : emitUdp fam la ra lport dport payload = .ok (n, pkt)) :
    pkt.payload = payload ∧ n = payload.length ∧ payload.length ≤ 65535 - 8 ∧ pkt.dport = dport ∧ pkt.sport = lport := by
  unfold emitUdp at h
  by_cases hf : fam = v4
  · subst hf
    simp only [beq_self_eq_true, if_true] at h
    split at h
    · simp at h
    · simp only [Except.ok.injEq, Prod.mk.injEq] at h
      obtain ⟨rfl, rfl⟩ := h
      exact ⟨rfl, rfl, by omega, rfl, rfl⟩
  · have hb : (fam == v4) = false := by simpa using hf
    simp only [hb, Bool.false_eq_true, if_false] at h
    split at h
    · simp at h
    · simp only [Except.ok.injEq, Prod.mk.injEq] at h
      obtain ⟨rfl, rfl⟩ := h
      exact ⟨rfl, rfl, by omega, rfl, rfl⟩

/-- **a successful write emits one packet carrying exactly the bytes written** (to the requested
    destination port, from the socket's port), and reports their count -/
theorem write_one_packet (w : World) (i : Nat) (to : Option (Addr × Nat)) (payload : List Nat) (lp n : Nat) (pkt : OutPkt)
    (h : (udpWrite w i to payload lp).2 = .ok (n, pkt)) :
    pkt.payload = payload ∧ n = payload.length ∧ payload.length ≤ 65535 - 8 ∧
    (∀ a p, to = some (a, p) → pkt.dport = p) := by
  unfold udpWrite at h
  split at h
  · simp at h
  · split at h
    · simp at h
    · split at h
      · simp at h
      · split at h
        · simp at h
        · split at h
          · simp at h
          · split at h
            · simp at h
            · rename_i fam la ra dport hroute
              obtain ⟨h1, h2, h3, h4, _⟩ := emit_ok _ _ _ _ _ _ _ _ h
              refine ⟨h1, h2, h3, ?_⟩
              intro a p hto
              subst hto
              unfold writeRoute at hroute
              simp only at hroute
              split at hroute
              · simp at hroute
              · split at hroute
                · simp at hroute
                · simp only [Except.ok.injEq, Prod.mk.injEq] at hroute
                  rw [h4]; exact hroute.2.2.2.symm

/-- beyond what the length fields can carry the write fails and no packet is emitted — whatever the
    socket state: either an earlier error, or "message too long" -/
theorem write_fails_beyond (w : World) (i : Nat) (to : Option (Addr × Nat)) (payload : List Nat) (lp : Nat)
    (h : payload.length > 65535 - 8) : ∃ err, (udpWrite w i to payload lp).2 = .error err := by
  unfold udpWrite
  split
  · exact ⟨_, rfl⟩
  · split
    · exact ⟨_, rfl⟩
    · split
      · exact ⟨_, rfl⟩
      · split
        · exact ⟨_, rfl⟩
        · split
          · exact ⟨_, rfl⟩
          · split
            · exact ⟨_, rfl⟩
            · refine ⟨.tooLong, ?_⟩
              unfold emitUdp
              have hh : ∀ fam : Nat, payload.length > (if (fam == v4) = true then 65535 - 20 - 8 else 65535 - 8) := by
                intro fam; split <;> omega
              simp only [hh, if_true]

/-- non-vacuity: an unbound v4 socket in a one-NIC world writes 3 bytes to 10.0.0.9:9 -/
example :
    let w : World := { nics := [{ id := 1, addrs := [(v4, [10, 0, 0, 1])] }],
                       routes := [⟨[0, 0, 0, 0], [0, 0, 0, 0], [], 1⟩], udp := [{ netProto := v4 }] }
    (udpWrite w 0 (some ([10, 0, 0, 9], 9)) [1, 2, 3] 20000).2 =
      .ok (3, ⟨v4, [10, 0, 0, 1], [10, 0, 0, 9], 20000, 9, [1, 2, 3]⟩) := by
  rfl

end C11
