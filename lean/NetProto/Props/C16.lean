import NetProto.Model.Buffer
/-!
# C16 — buffer views behave like the byte string they represent
-/
namespace C16
open Model.Buffer

def total : List View → Int
  | [] => 0
  | v :: t => v.len + total t

def bytesOf (vs : List View) : List Nat := vs.flatMap (·.data)

/-- representation invariant of a vectorised view: the size field is the number of bytes -/
def Inv (vv : VV) : Prop := vv.size = total vv.views

theorem total_nonneg (vs : List View) : 0 ≤ total vs := by
  induction vs with
  | nil => simp [total]
  | cons v t ih => simp only [total, View.len]; omega

theorem bytes_length (vs : List View) : ((bytesOf vs).length : Int) = total vs := by
  induction vs with
  | nil => simp [bytesOf, total]
  | cons v t ih =>
    simp only [bytesOf, List.flatMap_cons, List.length_append, total, View.len] at *
    omega

/-! ## TrimFront -/

theorem trimAux_spec (vs : List View) (c s : Int) :
    bytesOf (trimViews vs c) = (bytesOf vs).drop c.toNat ∧
    trimSize vs c s - total (trimViews vs c) = s - total vs := by
  induction vs generalizing c s with
  | nil => simp [trimViews, trimSize, bytesOf, total]
  | cons v t ih =>
    unfold trimViews trimSize
    by_cases h0 : c ≤ 0
    · have : c.toNat = 0 := by omega
      simp [h0, this]
    · simp only [h0, if_false]
      by_cases h1 : c < v.len
      · simp only [h1, if_true]
        simp only [bytesOf, List.flatMap_cons, total, View.len] at *
        constructor
        · rw [List.drop_append_of_le_length (by omega)]
        · simp only [List.length_drop]; omega
      · simp only [h1, if_false]
        obtain ⟨ih1, ih2⟩ := ih (c - v.len) (s - v.len)
        simp only [bytesOf, List.flatMap_cons, total, View.len] at *
        constructor
        · rw [ih1, List.drop_append]
          have hd : v.data.drop c.toNat = [] := List.drop_eq_nil_of_le (by omega)
          have he : c.toNat - v.data.length = (c - ↑v.data.length).toNat := by omega
          rw [hd, he]; simp
        · omega

/-- `TrimFront(count)` on a vectorised view = dropping `count` bytes of the byte string
    (every count: negative, zero, inside, exactly the size, beyond the size). -/
theorem trim_refines (vv : VV) (count : Int) (h : Inv vv) :
    (vv.trimFront count).bytes = Spec.trimFront vv.bytes count ∧ Inv (vv.trimFront count) := by
  have := trimAux_spec vv.views count vv.size
  unfold VV.trimFront VV.bytes Spec.trimFront Inv at *
  simp only [bytesOf] at this
  refine ⟨this.1, ?_⟩
  simp only
  omega

/-! ## CapLength -/

theorem capAux_spec (vs : List View) (l : Int) (h0 : 0 ≤ l) (h1 : l ≤ total vs) :
    bytesOf (capAux vs l) = (bytesOf vs).take l.toNat ∧ total (capAux vs l) = l := by
  induction vs generalizing l with
  | nil =>
    simp only [total] at h1
    have : l = 0 := by omega
    simp [capAux, bytesOf, total, this]
  | cons v t ih =>
    unfold capAux
    by_cases hv : v.len ≥ l
    · simp only [hv, if_true]
      by_cases hl : l = 0
      · simp [hl, bytesOf, total]
      · simp only [hl, if_false, bytesOf, List.flatMap_cons, List.flatMap_nil, List.append_nil, total, View.len] at *
        have hle : l.toNat ≤ v.data.length := by omega
        constructor
        · rw [List.take_append_of_le_length hle, List.take_append_of_le_length hle]
        · rw [List.take_append_of_le_length hle]
          simp only [List.length_take]; omega
    · simp only [hv, if_false]
      simp only [total, View.len] at h1 hv
      have ih' := ih (l - v.len) (by simp only [View.len]; omega) (by simp only [View.len]; omega)
      obtain ⟨ih1, ih2⟩ := ih'
      simp only [bytesOf, List.flatMap_cons, total, View.len] at *
      constructor
      · rw [ih1, List.take_append]
        have ht : v.data.take l.toNat = v.data := List.take_of_length_le (by omega)
        have he : l.toNat - v.data.length = (l - ↑v.data.length).toNat := by omega
        rw [ht, he]
      · omega

/-- `CapLength(length)` = taking `length` bytes of the byte string (negative → 0, beyond → unchanged). -/
theorem cap_refines (vv : VV) (length : Int) (h : Inv vv) :
    (vv.capLength length).bytes = Spec.capLength vv.bytes length ∧ Inv (vv.capLength length) := by
  unfold VV.capLength Spec.capLength
  unfold Inv at h
  have hb := bytes_length vv.views
  by_cases hneg : length < 0
  · simp only [hneg, if_true]
    have hs : ¬ vv.size < 0 := by have := total_nonneg vv.views; omega
    simp only [hs, if_false]
    have := capAux_spec vv.views 0 (by omega) (by have := total_nonneg vv.views; omega)
    have e : length.toNat = 0 := by omega
    simp only [VV.bytes, Inv, bytesOf, e] at *
    exact ⟨by simpa using this.1, this.2.symm⟩
  · simp only [hneg, if_false]
    by_cases hbig : vv.size < length
    · simp only [hbig, if_true]
      refine ⟨?_, h⟩
      simp only [VV.bytes, bytesOf] at *
      rw [List.take_of_length_le (by omega)]
    · simp only [hbig, if_false]
      have := capAux_spec vv.views length (by omega) (by omega)
      simp only [VV.bytes, Inv, bytesOf] at *
      exact ⟨this.1, this.2.symm⟩

/-! ## RemoveFirst -/

theorem removeFirst_refines (vv : VV) (h : Inv vv) :
    (vv.removeFirst).bytes = Spec.removeFirst vv.bytes ((vv.first.map (·.data.length)).getD 0) ∧
    Inv (vv.removeFirst) := by
  unfold VV.removeFirst VV.first Spec.removeFirst Inv VV.bytes at *
  cases hv : vv.views with
  | nil => simp [hv] at h ⊢; simpa [hv] using h
  | cons v t =>
    simp only [hv, total, View.len] at h ⊢
    simp
    omega

/-! ## Any operation sequence, any chunking -/

inductive Op
  | trim (n : Int) | cap (n : Int) | removeFirst
deriving Repr, DecidableEq

def applyOp (vv : VV) : Op → VV
  | .trim n => vv.trimFront n
  | .cap n => vv.capLength n
  | .removeFirst => vv.removeFirst

/-- byte-string semantics; `RemoveFirst` needs the length of the first chunk, supplied by the run -/
def specOp (b : List Nat) (vv : VV) : Op → List Nat
  | .trim n => Spec.trimFront b n
  | .cap n => Spec.capLength b n
  | .removeFirst => Spec.removeFirst b ((vv.first.map (·.data.length)).getD 0)

theorem op_refines (vv : VV) (op : Op) (h : Inv vv) :
    (applyOp vv op).bytes = specOp vv.bytes vv op ∧ Inv (applyOp vv op) := by
  cases op with
  | trim n => exact trim_refines vv n h
  | cap n => exact cap_refines vv n h
  | removeFirst => exact removeFirst_refines vv h

/-- **Every operation sequence** keeps the invariant, `Size()` equals the number of bytes, and
    `ToView()` is the byte string. -/
theorem ops_inv (vv : VV) (ops : List Op) (h : Inv vv) :
    Inv (ops.foldl applyOp vv) ∧ (ops.foldl applyOp vv).size = ((ops.foldl applyOp vv).toView.length : Int) := by
  induction ops generalizing vv with
  | nil =>
    refine ⟨h, ?_⟩
    have := bytes_length vv.views
    unfold Inv at h
    simp only [List.foldl_nil, VV.toView, VV.bytes, bytesOf] at *
    omega
  | cons op t ih => exact ih _ (op_refines vv op h).2

/-- **Chunking independence** for the chunking-oblivious operations: two vectorised views with the
    same bytes (however split into chunks, including empty chunks) yield the same bytes and size after
    any sequence of TrimFront / CapLength. -/
def Op.oblivious : Op → Bool
  | .removeFirst => false
  | _ => true

theorem chunking_independent (a b : VV) (ops : List Op) (ha : Inv a) (hb : Inv b) (hab : a.bytes = b.bytes)
    (hops : ∀ o ∈ ops, o.oblivious = true) :
    (ops.foldl applyOp a).bytes = (ops.foldl applyOp b).bytes ∧
    (ops.foldl applyOp a).size = (ops.foldl applyOp b).size := by
  induction ops generalizing a b with
  | nil =>
    refine ⟨hab, ?_⟩
    unfold Inv at ha hb
    have h1 := bytes_length a.views
    have h2 := bytes_length b.views
    simp only [List.foldl_nil, VV.bytes, bytesOf] at *
    rw [hab] at h1
    omega
  | cons op t ih =>
    simp only [List.foldl_cons]
    have ra := op_refines a op ha
    have rb := op_refines b op hb
    apply ih _ _ ra.2 rb.2
    · rw [ra.1, rb.1]
      cases op with
      | trim n => simp [specOp, hab]
      | cap n => simp [specOp, hab]
      | removeFirst => have := hops .removeFirst (by simp); simp [Op.oblivious] at this
    · intro o ho; exact hops o (by simp [ho])

/-! ## Clone independence (heap level) -/

/-- operations applied to object `i` of the heap -/
inductive HOp
  | trim (i : Nat) (n : Int) | cap (i : Nat) (n : Int) | removeFirst (i : Nat) | clone (i : Nat) | copy (i : Nat)

def HOp.target : HOp → Nat
  | .trim i _ | .cap i _ | .removeFirst i | .clone i | .copy i => i

def hstep (h : Heap) : HOp → Heap
  | .trim i n => h.trimFront i n
  | .cap i n => h.capLength i n
  | .removeFirst i => h.removeFirst i
  | .clone i => h.clone i
  | .copy i => h.copy i

theorem getD_set_ne {α} (l : List α) (i j : Nat) (x d : α) (h : i ≠ j) : (l.set i x).getD j d = l.getD j d := by
  simp [List.getD, List.getElem?_set_ne h]

/-- writes of an operation on an object go only to that object's header array -/
theorem hstep_frame (h : Heap) (op : HOp) (a : Nat) (ha : a < h.arrays.length)
    (hne : ∀ o, h.objs[op.target]? = some o → o.arr ≠ a) :
    (hstep h op).arrays.getD a [] = h.arrays.getD a [] ∧ h.arrays.length ≤ (hstep h op).arrays.length := by
  cases op with
  | trim i n =>
    simp only [hstep, Heap.trimFront, HOp.target] at *
    cases ho : h.objs[i]? with
    | none => simp
    | some o =>
      have := hne o ho
      simp only [Heap.writeBack]
      exact ⟨getD_set_ne _ _ _ _ _ this, by simp⟩
  | cap i n =>
    simp only [hstep, Heap.capLength, HOp.target] at *
    cases ho : h.objs[i]? with
    | none => simp
    | some o =>
      have := hne o ho
      simp only [Heap.writeBack]
      exact ⟨getD_set_ne _ _ _ _ _ this, by simp⟩
  | removeFirst i =>
    simp only [hstep, Heap.removeFirst, HOp.target] at *
    cases ho : h.objs[i]? with
    | none => simp
    | some o =>
      simp only
      cases h.viewsOf o <;> simp
  | clone i =>
    simp only [hstep, Heap.clone, HOp.target] at *
    cases ho : h.objs[i]? with
    | none => simp
    | some o =>
      simp only [Heap.new]
      refine ⟨?_, by simp⟩
      simp [List.getD, List.getElem?_append_left ha]
  | copy i =>
    simp only [hstep, Heap.copy, HOp.target] at *
    cases ho : h.objs[i]? with
    | none => simp
    | some o => simp

/-- the bytes and size an object denotes depend only on its own header array and its window -/
theorem vvOf_congr (h h' : Heap) (c : Obj) (e : h'.arrays.getD c.arr [] = h.arrays.getD c.arr []) :
    h'.vvOf c = h.vvOf c := by
  simp only [Heap.vvOf, Heap.viewsOf, e]

/-- **A clone is unaffected by later trimming / capping / chunk removal of the original**
    (or of anything that does not share the clone's header array), for every operation sequence. -/
theorem clone_independent (h : Heap) (c : Obj) (ops : List HOp) (hc : c.arr < h.arrays.length)
    (hdisj : ∀ (hp : Heap) (op : HOp), op ∈ ops → ∀ o, hp.objs[op.target]? = some o → o.arr ≠ c.arr) :
    (ops.foldl hstep h).vvOf c = h.vvOf c := by
  induction ops generalizing h with
  | nil => rfl
  | cons op t ih =>
    simp only [List.foldl_cons]
    have fr := hstep_frame h op c.arr hc (fun o ho => hdisj h op (by simp) o ho)
    rw [ih (hstep h op) (by omega) (fun hp op' hm => hdisj hp op' (by simp [hm]))]
    exact vvOf_congr _ _ _ fr.1

/-- `Clone` allocates a header array no existing object uses -/
theorem clone_fresh (h : Heap) (i : Nat) (o : Obj) (ho : h.objs[i]? = some o) :
    (h.clone i).objs.getLast? = some { arr := h.arrays.length, off := 0, cnt := (h.viewsOf o).length, size := o.size } ∧
    ((h.clone i).vvOf { arr := h.arrays.length, off := 0, cnt := (h.viewsOf o).length, size := o.size }).bytes
      = (h.vvOf o).bytes := by
  simp only [Heap.clone, ho, Heap.new, Heap.vvOf, Heap.viewsOf, VV.bytes, List.getD]
  refine ⟨by simp, ?_⟩
  simp only [List.getElem?_append_right (Nat.le_refl _), Nat.sub_self, List.getElem?_cons_zero, Option.getD_some,
    List.drop_zero]
  rw [List.take_of_length_le (Nat.le_refl _)]

/-- documented hazard, *not* claimed by C16: a by-value struct copy shares the header array, so
    trimming the original corrupts the copy's view of its first chunk (kernel-checked witness) -/
theorem struct_copy_hazard_witness :
    let h0 : Heap := ({} : Heap).new [{ data := [1, 2, 3] }] 3
    let h1 := h0.copy 0
    let h2 := h1.trimFront 0 2
    (h1.objs[1]?.map fun o => (h1.vvOf o).bytes) = some [1, 2, 3] ∧
    (h2.objs[1]?.map fun o => ((h2.vvOf o).bytes, o.size)) = some ([3], 3) := by decide

/-! ## A capped view cannot be re-extended -/

theorem cap_irreversible (v : View) (l : Int) (v' : View) (h : v.capLength l = some v') :
    v'.extra = [] ∧ v'.len = l ∧ ∀ n : Int, n > l → v'.reslice n = none ∧ v'.capLength n = none := by
  unfold View.capLength at h
  split at h
  · simp at h
  · rename_i hc
    simp only [Option.some.injEq] at h
    subst h
    have hlen : (View.len { data := (v.data ++ v.extra).take l.toNat, extra := [] }) = l := by
      simp only [View.len, List.length_take, List.length_append] at *
      omega
    refine ⟨rfl, hlen, ?_⟩
    intro n hn
    unfold View.reslice View.capLength
    rw [hlen]
    simp only [List.length_nil]
    constructor <;> (split <;> simp_all <;> omega)

/-- within the cap a view *can* be re-sliced (so the cap, not the length, is the limit) -/
example : (View.mk [1, 2] [3]).reslice 3 = some ⟨[1, 2, 3], []⟩ := by decide
example : ((View.mk [1, 2] [3]).capLength 2).bind (·.reslice 3) = none := by decide

/-! ## Prependable -/

/-- `Prepend(n)` within the reserved space: the view becomes the `n` written bytes followed by the
    old view; beyond the reserved space it returns nil and changes nothing. -/
theorem prepend_spec (p : Prep) (n : Int) (fill : List Nat) (hu : 0 ≤ p.usedIdx) (hub : p.usedIdx ≤ p.buf.length)
    (hn : 0 ≤ n) (hf : fill.length = n.toNat) :
    (n > p.usedIdx → p.prepend n fill = (p, some false)) ∧
    (n ≤ p.usedIdx → ∃ old, p.view = some old ∧ (p.prepend n fill).2 = some true ∧
        (p.prepend n fill).1.view = some (fill ++ old) ∧
        (p.prepend n fill).1.usedLength = p.usedLength + n) := by
  constructor
  · intro h; simp [Prep.prepend, h]
  · intro h
    have hng : ¬ n > p.usedIdx := by omega
    have hview : p.view = some (p.buf.drop p.usedIdx.toNat) := by
      unfold Prep.view; simp; omega
    refine ⟨_, hview, ?_⟩
    have hnp : ¬ (n < 0 ∨ p.usedIdx - n < 0 ∨ p.usedIdx - n + n > p.buf.length) := by omega
    have hfill : (fill ++ List.replicate n.toNat 0).take n.toNat = fill := by
      rw [List.take_append_of_le_length (by omega), List.take_of_length_le (by omega)]
    simp only [Prep.prepend, hng, if_false, hnp, hfill]
    refine ⟨trivial, ?_, ?_⟩
    · unfold Prep.view
      have hl : (p.buf.take (p.usedIdx - n).toNat ++ fill ++ p.buf.drop ((p.usedIdx - n).toNat + n.toNat)).length = p.buf.length := by
        simp only [List.length_append, List.length_take, List.length_drop]; omega
      simp only [hl]
      have : ¬ (p.usedIdx - n < 0 ∨ p.usedIdx - n > p.buf.length) := by omega
      simp only [this, if_false, Option.some.injEq]
      have htk : (p.buf.take (p.usedIdx - n).toNat).length = (p.usedIdx - n).toNat := by
        simp only [List.length_take]; omega
      rw [List.append_assoc, List.drop_append_of_le_length (by omega), List.drop_of_length_le (by omega)]
      have e : (p.usedIdx - n).toNat + n.toNat = p.usedIdx.toNat := by omega
      simp [e]
    · unfold Prep.usedLength
      simp only [List.length_append, List.length_take, List.length_drop]
      omega

/-- non-vacuity -/
example : ((Prep.mk [0, 0, 0, 9] 3).prepend 2 [7, 8]).1.view = some [7, 8, 9] := by decide
example : Inv ⟨[⟨[1, 2], []⟩, ⟨[], []⟩, ⟨[3], [4]⟩], 3⟩ := by simp [Inv, total, View.len]

end C16
