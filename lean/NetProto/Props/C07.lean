import NetProto.Model.Inbound
/-! # C07 — no inbound frame sequence can crash the stack or stop it serving

Model: `Model/Inbound.lean`, the receive path with every index expression as a bounds-checked read
(`nic.DeliverNetworkPacket`, `ipv4/ipv6.HandlePacket`, the ICMPv4/ICMPv6 per-type size checks,
`nic.DeliverTransportPacket`, `udp.HandlePacket`, `tcp segment.parse`, the fd-based endpoint's frame intake), over
vectorised views (`Model.Buffer.VV`, verified against `pkg/buffer` by C16).  Tie: the model's reaction to every
injected packet (dropped / datagram queued / echo reply, byte for byte) is compared with the real stack's on
structure-aware mutations, truncations, multi-view splits and noise; a crash of the stack is reported with the
packet it died on; liveness probes (echo, UDP, TCP handshake, ARP) follow every barrage.

Proved here: none of these paths can index out of range, for any bytes in any views.  Proved elsewhere and part of
the same argument: the reassembler never panics and fails soft (C08: `process` theorems, after the repaired D1),
`ParseSynOptions` / `ParseTCPOptions` never read outside their input (C15Opts: `parseSyn_inbounds`,
`parseTCP_inbounds`), ARP packets are only read after `IsValid` (C12).  Not covered by a theorem: deadlock freedom
and memory exhaustion (runtime behaviour; the probes after each barrage are the evidence), the TCP state machine's
reaction to malformed segments on established connections (C01-C05 cover well-formed ones). -/
namespace Props.C07
open Model.Inbound Model.Buffer


theorem rd_some (b : List Nat) (i : Nat) (h : i < b.length) : rd? b i = some b[i] := by
  unfold rd?; exact List.getElem?_eq_getElem h

theorem rd16_some (b : List Nat) (i : Nat) (h : i + 1 < b.length) : ∃ x, rd16? b i = some x := by
  unfold rd16?
  rw [rd_some b i (by omega), rd_some b (i + 1) h]
  exact ⟨_, rfl⟩

theorem slice_some (b : List Nat) (i j : Nat) (h : i ≤ j ∧ j ≤ b.length) : ∃ x, slice? b i j = some x := by
  unfold slice?; rw [if_pos h]; exact ⟨_, rfl⟩

/-- `segment.parse` never indexes outside the first view (which `DeliverTransportPacket` checked to hold 20 bytes) -/
theorem tcpParse_no_panic (dst : List Nat) (vv : VV) (h : 20 ≤ (firstOf vv).length) : (tcpParse dst vv).isSome = true := by
  unfold tcpParse
  simp only
  rw [rd_some _ 12 (by omega)]
  simp only [Option.bind_eq_bind, Option.bind_some, Option.pure_def]
  split
  · rfl
  · rename_i hc
    obtain ⟨x, hx⟩ := slice_some (firstOf vv) 20 ((firstOf vv)[12] / 16 * 4) (by omega)
    simp [hx]

/-- `DeliverTransportPacket`, `udp.HandlePacket`, `tcp.HandlePacket` never index out of range, for any views -/
theorem deliverTransport_no_panic (proto : Nat) (src dst : List Nat) (vv : VV) : (deliverTransport proto src dst vv).isSome = true := by
  unfold deliverTransport
  simp only
  split
  · split
    · rfl
    · rename_i h8
      obtain ⟨a, ha⟩ := rd16_some (firstOf vv) 0 (by omega)
      obtain ⟨b, hb⟩ := rd16_some (firstOf vv) 2 (by omega)
      obtain ⟨c, hc⟩ := rd16_some (firstOf vv) 4 (by omega)
      simp only [ha, hb, hc, Option.bind_eq_bind, Option.bind_some]
      split <;> rfl
  · split
    · split
      · rfl
      · rename_i h20
        obtain ⟨a, ha⟩ := rd16_some (firstOf vv) 0 (by omega)
        obtain ⟨b, hb⟩ := rd16_some (firstOf vv) 2 (by omega)
        simp only [ha, hb, Option.bind_eq_bind, Option.bind_some]
        exact tcpParse_no_panic dst vv (by omega)
    · rfl

theorem icmp4Handle_no_panic (vv : VV) : (icmp4Handle vv).isSome = true := by
  unfold icmp4Handle
  show Option.isSome (if (firstOf vv).length < 4 then _ else _) = true
  split
  · rfl
  · rename_i h4
    rw [rd_some _ 0 (by omega)]
    simp only [Option.bind_eq_bind, Option.bind_some, Option.pure_def]
    split
    · split <;> rfl
    · split
      · split <;> rfl
      · split
        · split
          · rfl
          · rename_i h8
            obtain ⟨x, hx⟩ := rd16_some (firstOf vv) 6 (by omega)
            rw [rd_some _ 1 (by omega)]
            simp [hx]
        · rfl

theorem icmp6Handle_no_panic (src dst : List Nat) (vv : VV) : (icmp6Handle src dst vv).isSome = true := by
  unfold icmp6Handle
  show Option.isSome (if (firstOf vv).length < 4 then _ else _) = true
  split
  · rfl
  · rename_i h4
    rw [rd_some _ 0 (by omega)]
    simp only [Option.bind_eq_bind, Option.bind_some, Option.pure_def]
    split
    · split <;> rfl
    · split
      · split
        · rfl
        · rename_i h24
          obtain ⟨x, hx⟩ := slice_some (firstOf vv) 8 24 (by omega)
          simp [hx]
      · split
        · split
          · rfl
          · rename_i h24
            obtain ⟨x, hx⟩ := slice_some (firstOf vv) 8 24 (by omega)
            simp [hx]
        · split
          · split <;> rfl
          · split
            · split <;> rfl
            · rfl

/-- **C07 (IPv4 receive path)**: whatever bytes arrive, in whatever views -- truncated, with inconsistent IHL / total
length / fragment fields, any protocol -- no index expression on the path from `DeliverNetworkPacket` through
`ipv4.HandlePacket`, the ICMP size checks and the transport handlers' header parsing is out of range -/
theorem ipv4Inbound_no_panic (ours : List (List Nat)) (vv : VV) : (ipv4Inbound ours vv).isSome = true := by
  unfold ipv4Inbound
  show Option.isSome (if (firstOf vv).length < 20 then _ else _) = true
  split
  · rfl
  · rename_i h20
    obtain ⟨s, hs⟩ := slice_some (firstOf vv) 12 16 (by omega)
    obtain ⟨d, hd⟩ := slice_some (firstOf vv) 16 20 (by omega)
    obtain ⟨tl, htl⟩ := rd16_some (firstOf vv) 2 (by omega)
    obtain ⟨fl, hfl⟩ := rd16_some (firstOf vv) 6 (by omega)
    simp only [hs, hd, Option.bind_eq_bind, Option.bind_some, Option.pure_def]
    split
    · rfl
    · rw [rd_some _ 0 (by omega)]
      simp only [Option.bind_some, htl]
      split
      · rfl
      · simp only [hfl, Option.bind_some]
        split
        · rfl
        · rw [rd_some _ 9 (by omega)]
          simp only [Option.bind_some]
          split
          · exact icmp4Handle_no_panic _
          · exact deliverTransport_no_panic _ _ _ _

/-- **C07 (IPv6 receive path)**: likewise for `ipv6.HandlePacket`, the ICMPv6 size checks (echo, neighbour
solicitation / advertisement, packet-too-big, unreachable) and the transport handlers -/
theorem ipv6Inbound_no_panic (ours : List (List Nat)) (vv : VV) : (ipv6Inbound ours vv).isSome = true := by
  unfold ipv6Inbound
  show Option.isSome (if (firstOf vv).length < 40 then _ else _) = true
  split
  · rfl
  · rename_i h40
    obtain ⟨s, hs⟩ := slice_some (firstOf vv) 8 24 (by omega)
    obtain ⟨d, hd⟩ := slice_some (firstOf vv) 24 40 (by omega)
    obtain ⟨dl, hdl⟩ := rd16_some (firstOf vv) 4 (by omega)
    simp only [hs, hd, Option.bind_eq_bind, Option.bind_some, Option.pure_def]
    split
    · rfl
    · simp only [hdl, Option.bind_some]
      split
      · rfl
      · rw [rd_some _ 6 (by omega)]
        simp only [Option.bind_some]
        split
        · exact icmp6Handle_no_panic _ _ _
        · exact deliverTransport_no_panic _ _ _ _

/-- **C07 (link intake)**: any frame read from the device -- empty, shorter than an Ethernet header, or longer -- is
handled without an out-of-range access, and the dispatch loop continues afterwards -/
theorem ethIntake_continues (frame : List Nat) : ∃ r, ethIntake frame = some (true, r) := by
  unfold ethIntake
  split
  · exact ⟨none, rfl⟩
  · rename_i h
    obtain ⟨t, ht⟩ := rd16_some frame 12 (by omega)
    obtain ⟨a, ha⟩ := slice_some frame 6 12 (by omega)
    obtain ⟨b, hb⟩ := slice_some frame 0 6 (by omega)
    simp [ht, ha, hb]

/-- `fdbased.dispatchLoop` over the frames the device yields, in order: `dispatch` is called again exactly while it
answers `cont = true` without error; a fault (`none`) or `cont = false` ends the loop and the frames after it are
never read. The result lists what was handed to the network dispatcher per frame read. -/
def dispatchLoop : List (List Nat) → Option (List (Option (Nat × List Nat)))
  | [] => some []
  | f :: fs =>
    match ethIntake f with
    | none => none
    | some (false, _) => some []
    | some (true, r) => (dispatchLoop fs).map (r :: ·)

/-- **C07 (link intake, every history)**: whatever sequence of frames the device yields -- any number, any lengths,
runts anywhere in it -- the loop never faults and never stops: every frame is read, each frame longer than a link
header is handed on with its EtherType and payload, and each shorter one is dropped. (Before the repair 7b53298 the
first runt ended the loop: `dispatchLoop [[], f] = some []` in that reading.) -/
theorem dispatchLoop_serves_every_frame (fs : List (List Nat)) :
    ∃ rs, dispatchLoop fs = some rs ∧ rs.length = fs.length ∧
      ∀ i (h : i < fs.length) (h' : i < rs.length), (rs[i].isSome = true ↔ 14 < fs[i].length) := by
  induction fs with
  | nil => exact ⟨[], rfl, rfl, fun i h => absurd h (Nat.not_lt_zero _)⟩
  | cons f fs ih =>
    obtain ⟨rs, hrs, hlen, hall⟩ := ih
    obtain ⟨r, hr⟩ := ethIntake_continues f
    have hr' : (r.isSome = true ↔ 14 < f.length) := by
      unfold ethIntake at hr
      split at hr
      · rename_i hle
        simp only [pure, Option.some.injEq, Prod.mk.injEq, true_and] at hr
        subst hr
        simp; omega
      · rename_i hgt
        obtain ⟨t, ht⟩ := rd16_some f 12 (by omega)
        obtain ⟨a, ha⟩ := slice_some f 6 12 (by omega)
        obtain ⟨b, hb⟩ := slice_some f 0 6 (by omega)
        simp [ht, ha, hb] at hr
        subst hr
        simp; omega
    refine ⟨r :: rs, by simp [dispatchLoop, hr, hrs], by simp [hlen], ?_⟩
    intro i h h'
    cases i with
    | zero => simpa using hr'
    | succ j =>
      simp only [List.getElem_cons_succ]
      exact hall j (by simpa using h) (by simpa using h')

/-- non-vacuity: an empty read, a 14-byte runt and a 15-byte frame, in this order: all three are read, only the last is
handed on -/
example : dispatchLoop [[], List.replicate 14 0, List.replicate 12 0 ++ [8, 0, 7]] = some [none, none, some (2048, [7])] := by
  decide

/-- ARP packets are only read after the validity check, which guarantees all 28 bytes -/
theorem arp_read_after_guard (a : List Nat) (h : Model.Header.arpIsValid a = true) : 28 ≤ a.length := by
  unfold Model.Header.arpIsValid at h
  split at h
  · simp at h
  · omega

/-- non-vacuity: a truncated datagram whose IHL nibble claims 60 header bytes is dropped, not mis-indexed -/
example : ipv4Inbound [[10, 0, 0, 1]] { views := [{ data := [0x4f, 0, 0, 20, 0, 0, 0, 0, 64, 17, 0, 0, 10, 0, 0, 9, 10, 0, 0, 1] }], size := 20 }
    = some (.drop "ipv4.invalid") := by decide

end Props.C07
