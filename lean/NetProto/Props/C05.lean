import NetProto.Props.TcpLemmas
import NetProto.Generated.Consts
import NetProto.Generated.Shapes
/-! # C05 — loss recovery is prompt and the congestion window is obeyed

Model: `Model/Tcp.lean` (`checkDuplicateAck`, `enterFastRecovery`, `resendSegment`, `rtoState`, the Reno
controller `renoSlowStart`/`renoCA`/`renoUpdate`, the send gate in `sendStep`), tied to the real stack by the
trace correspondence of the TCP world; constants and the statements of the timeout / window arithmetic are
regenerated from the source on every run (`Gen.Consts`, `Gen.Shapes`).

Full statement of the Reno bound: *the number of segments in flight never exceeds 10 plus one per segment
acknowledged or duplicate ACK received so far*.  Proved here: the per-event facts it rests on -- every data
segment passes the gate `outstanding < cwnd` and is counted (`sendData_gate`), the window starts at 10
(`initial_window`), one `Update(n)` raises window-plus-carry by at most `n` (`renoUpdate_pot`), a timeout
collapses it to 1 (`rtoState_window`).  The accumulation over a whole history (a ghost count of credits) is not
yet a theorem (`_partial`); the oracle checks it on every trace. -/
namespace Props.C05
open Model.Tcp Props.TcpLemmas


/-! ## the congestion window grows by at most one per segment acknowledged -/

/-- potential: the window plus the whole windows' worth of acknowledgements already counted towards the next
increase (`sndCAAckCount / sndCwnd`; this is 0 after every congestion-avoidance step, but not after the window
has been cut while the count stayed) -/
def pot (s : Snd) : Nat := s.cwnd + s.caAck / s.cwnd

theorem add_div_le (a n c : Nat) (hc : 0 < c) : (a + n) / c ≤ a / c + n := by
  rw [Nat.div_le_iff_le_mul_add_pred hc]
  have h1 : a ≤ c * (a / c) + (c - 1) := by
    have := Nat.div_add_mod a c
    have := Nat.mod_lt a hc
    omega
  have h2 : c * (a / c + n) = c * (a / c) + c * n := Nat.mul_add _ _ _
  have h3 : n ≤ c * n := Nat.le_mul_of_pos_left n hc
  omega

theorem div_le_div_of_le_den (a c d : Nat) (hc : 0 < c) (h : c ≤ d) : a / d ≤ a / c :=
  Nat.div_le_div_left h hc

theorem renoCA_fields (s : Snd) (n : Nat) :
    (renoCA s n).cwnd = (if s.cwnd > 0 ∧ s.caAck + n ≥ s.cwnd then s.cwnd + (s.caAck + n) / s.cwnd else s.cwnd) ∧
    (renoCA s n).caAck = (if s.cwnd > 0 ∧ s.caAck + n ≥ s.cwnd then (s.caAck + n) % (s.cwnd + (s.caAck + n) / s.cwnd) else s.caAck + n) := by
  unfold renoCA
  by_cases h : s.cwnd > 0 ∧ s.caAck + n ≥ s.cwnd
  · have hb : (decide (s.cwnd > 0) && decide (s.caAck + n ≥ s.cwnd)) = true := by simp [h.1, h.2]
    rw [if_pos hb, if_pos h, if_pos h]
    exact ⟨rfl, rfl⟩
  · have hb : (decide (s.cwnd > 0) && decide (s.caAck + n ≥ s.cwnd)) = false := by
      cases hd : (decide (s.cwnd > 0) && decide (s.caAck + n ≥ s.cwnd))
      · rfl
      · simp at hd; exact absurd hd h
    rw [if_neg (by simp [hb]), if_neg h, if_neg h]
    exact ⟨rfl, rfl⟩

/-- congestion avoidance consumes `n` acknowledged packets: the potential grows by at most `n` -/
theorem renoCA_pot (s : Snd) (n : Nat) (hc : 0 < s.cwnd) : pot (renoCA s n) ≤ pot s + n ∧ 0 < (renoCA s n).cwnd := by
  have f := renoCA_fields s n
  unfold pot
  rw [f.1, f.2]
  have hd := add_div_le s.caAck n s.cwnd hc
  split
  · have hpos : 0 < s.cwnd + (s.caAck + n) / s.cwnd := Nat.add_pos_left hc _
    rw [Nat.div_eq_of_lt (Nat.mod_lt _ hpos)]
    generalize (s.caAck + n) / s.cwnd = q at *
    generalize s.caAck / s.cwnd = q0 at *
    omega
  · generalize (s.caAck + n) / s.cwnd = q at *
    generalize s.caAck / s.cwnd = q0 at *
    omega

theorem renoSlowStart_fields (s : Snd) (n : Nat) :
    (renoSlowStart s n) = (if s.ssInf = false ∧ s.cwnd + n ≥ s.ssthresh then
        (({ s with cwnd := s.ssthresh, caAck := 0 } : Snd), n - (s.ssthresh - s.cwnd)) else ({ s with cwnd := s.cwnd + n }, 0)) := by
  unfold renoSlowStart
  by_cases h : s.ssInf = false ∧ s.cwnd + n ≥ s.ssthresh
  · have hb : (!s.ssInf && decide (s.cwnd + n ≥ s.ssthresh)) = true := by simp [h.1, h.2]
    rw [if_pos hb, if_pos h]
  · have hb : (!s.ssInf && decide (s.cwnd + n ≥ s.ssthresh)) = false := by
      cases hd : (!s.ssInf && decide (s.cwnd + n ≥ s.ssthresh))
      · rfl
      · simp at hd; exact absurd hd h
    rw [if_neg (by simp [hb]), if_neg h]

/-- **C05**: `renoState.Update(n)` (slow start, then congestion avoidance with what is left) raises the
potential -- hence the window -- by at most `n`, the number of segments just acknowledged -/
theorem renoUpdate_pot (s : Snd) (n : Nat) (hc : 0 < s.cwnd) : pot (renoUpdate s n) ≤ pot s + n ∧ 0 < (renoUpdate s n).cwnd := by
  unfold renoUpdate
  split
  · rename_i hss
    rw [renoSlowStart_fields]
    split
    · rename_i hcap
      have hlt : s.cwnd < s.ssthresh := by simpa [hcap.1] using hss
      simp only
      split
      · rename_i hz
        simp only [pot, Nat.zero_div]
        simp at hz
        generalize s.caAck / s.cwnd = q0 at *
        omega
      · have := renoCA_pot { s with cwnd := s.ssthresh, caAck := 0 } (n - (s.ssthresh - s.cwnd)) (by simp; omega)
        simp only [pot, Nat.zero_div] at *
        generalize s.caAck / s.cwnd = q0 at *
        generalize hx : renoCA _ _ = x at *
        generalize x.caAck / x.cwnd = q1 at *
        omega
    · simp only [beq_self_eq_true, ↓reduceIte, pot]
      have := div_le_div_of_le_den s.caAck s.cwnd (s.cwnd + n) hc (by omega)
      generalize s.caAck / s.cwnd = q0 at *
      generalize s.caAck / (s.cwnd + n) = q1 at *
      omega
  · exact renoCA_pot s n hc

theorem pot_ge_cwnd (s : Snd) : s.cwnd ≤ pot s := Nat.le_add_right _ _

/-! ## the send gate: `outstanding < cwnd` -/

/-- number of data-carrying segments -/
def dataCount (l : List OutSeg) : Nat := (l.filter (fun o => o.data.length != 0)).length

theorem dataCount_append (a b : List OutSeg) : dataCount (a ++ b) = dataCount a + dataCount b := by
  simp [dataCount, List.filter_append]

theorem emitAt_gate (e : Ep) (seg : WSeg) (x : Nat) :
    (emitAt e seg x).1.snd.cwnd = e.snd.cwnd ∧ (emitAt e seg x).1.snd.outstanding = e.snd.outstanding ∧
    dataCount [(emitAt e seg x).2] = (if seg.data.length = 0 then 0 else 1) := by
  have f := emitAt_frame e seg x
  refine ⟨f.2.2.2.2.2.2.1, f.2.2.2.2.2.2.2.1, ?_⟩
  simp only [dataCount, List.filter_cons, List.filter_nil, f.1]
  split <;> rename_i h <;> simp at h <;> simp [h]

theorem splitAt_nonempty (wl : List WSeg) (i : Nat) (seg : WSeg) (a : Nat) (ha : 0 < a) (hs : seg.data.length ≠ 0) :
    (splitAt wl i seg a).2.data.length ≠ 0 := by
  unfold splitAt
  split
  · simp only [List.length_take]; omega
  · exact hs

theorem sendStep_gate (e : Ep) (i : Nat) (hmp : 0 < e.snd.maxPayload) :
    (∀ e', sendStep e i = .stop e' → e'.snd.outstanding = e.snd.outstanding ∧ e'.snd.cwnd = e.snd.cwnd) ∧
    (∀ e' o, sendStep e i = .sent e' o → e'.snd.cwnd = e.snd.cwnd ∧
        e'.snd.outstanding = e.snd.outstanding + dataCount [o] ∧ (dataCount [o] = 1 → e.snd.outstanding < e.snd.cwnd)) := by
  unfold sendStep
  constructor
  · intro e' he
    split at he
    · cases he; exact ⟨rfl, rfl⟩
    · split at he
      · cases he; exact ⟨rfl, rfl⟩
      · simp only at he
        split at he
        · cases he
        · split at he
          · cases he; exact ⟨rfl, rfl⟩
          · cases he
  · intro e' o he
    split at he
    · cases he
    · rename_i seg0 hseg
      split at he
      · cases he
      · rename_i hgate
        simp only at he
        split at he
        · rename_i hz
          cases he
          have g := emitAt_gate
          simp only [beq_iff_eq] at hz
          refine ⟨(g _ _ _).1, ?_, ?_⟩
          · rw [(g _ _ _).2.1, (g _ _ _).2.2]; simp [hz]
          · rw [(g _ _ _).2.2]; simp [hz]
        · rename_i hnz
          split at he
          · cases he
          · rename_i hw
            cases he
            have g := emitAt_gate
            have hlt : lt (seg0.assign e.snd.sndNxt).seq (sndEnd e.snd) = true := by simpa using hw
            rw [lt_iff] at hlt
            have hne := splitAt_nonempty e.snd.writeList i (seg0.assign e.snd.sndNxt)
              (min (sizeS (seg0.assign e.snd.sndNxt).seq (sndEnd e.snd)) e.snd.maxPayload) (by omega) (by simpa using hnz)
            refine ⟨(g _ _ _).1, ?_, ?_⟩
            · rw [(g _ _ _).2.1, (g _ _ _).2.2]
              simp [hne]
            · intro _
              simpa using hgate

theorem sendStep_maxPayload (e : Ep) (i : Nat) :
    (∀ e', sendStep e i = .stop e' → e'.snd.maxPayload = e.snd.maxPayload) ∧
    (∀ e' o, sendStep e i = .sent e' o → e'.snd.maxPayload = e.snd.maxPayload) := by
  unfold sendStep
  constructor
  · intro e' he
    split at he
    · cases he; rfl
    · split at he
      · cases he; rfl
      · simp only at he
        split at he
        · cases he
        · split at he
          · cases he; rfl
          · cases he
  · intro e' o he
    split at he
    · cases he
    · split at he
      · cases he
      · simp only at he
        split at he
        · cases he; exact (emitAt_frame _ _ _).2.2.2.2.2.1
        · split at he
          · cases he
          · cases he; exact (emitAt_frame _ _ _).2.2.2.2.2.1

/-- the loop: every data segment sent raised `outstanding` by one and found it below `cwnd` -/
theorem sendDataLoop_gate (fuel : Nat) (e : Ep) (i : Nat) (out : List OutSeg) (hmp : 0 < e.snd.maxPayload) :
    let r := sendDataLoop fuel e i out
    r.1.snd.cwnd = e.snd.cwnd ∧
    r.1.snd.outstanding + dataCount out = e.snd.outstanding + dataCount r.2 ∧
    (dataCount out < dataCount r.2 → r.1.snd.outstanding ≤ e.snd.cwnd) := by
  induction fuel generalizing e i out with
  | zero => simp [sendDataLoop, Ep.setWriteNext]
  | succ n ih =>
    unfold sendDataLoop
    have hs := sendStep_gate e i hmp
    have hm := sendStep_maxPayload e i
    split
    · rename_i e' heq
      have := hs.1 _ heq
      simp only
      refine ⟨this.2, by rw [this.1], fun h => absurd h (Nat.lt_irrefl _)⟩
    · rename_i e' o heq
      have h1 := hs.2 _ _ heq
      have h2 := ih e' (i + 1) (out ++ [o]) (by rw [hm.2 _ _ heq]; exact hmp)
      simp only at h2 ⊢
      rw [dataCount_append] at h2
      refine ⟨h2.1.trans h1.1, by omega, ?_⟩
      intro hlt
      by_cases hmore : dataCount out + dataCount [o] < dataCount (sendDataLoop n e' (i + 1) (out ++ [o])).2
      · have := h2.2.2 hmore; rw [h1.1] at this; exact this
      · -- nothing more was sent after `o`: `o` itself was the data segment
        have hc : dataCount [o] ≤ 1 := by
          simp only [dataCount, List.filter_cons, List.filter_nil]; split <;> simp
        have h1o : dataCount [o] = 1 := by omega
        have := h1.2.2 h1o
        omega

/-- **C05**: `sendData` puts at most `cwnd - outstanding` data segments on the wire, and leaves no more than
`cwnd` outstanding if it sent any -/
theorem sendData_gate (e : Ep) (hmp : 0 < e.snd.maxPayload) :
    (sendData e).1.snd.outstanding = e.snd.outstanding + dataCount (sendData e).2 ∧
    (0 < dataCount (sendData e).2 → (sendData e).1.snd.outstanding ≤ e.snd.cwnd) := by
  have h := sendDataLoop_gate (sendFuel e.snd + 1) e e.snd.writeNext [] hmp
  simp only [dataCount, List.filter_nil, List.length_nil] at h
  unfold sendData
  simp only
  constructor
  · split <;> simpa [dataCount] using h.2.1
  · intro hp
    split <;> simpa using h.2.2 (by simpa [dataCount] using hp)

/-- **C05**: a fresh connection starts with a window of `InitialCwnd` = 10 segments and nothing outstanding: no
more than 10 data segments go out before the first ACK -/
theorem initial_window (iss irs sndWnd mss : Nat) (sws : Int) (rcvWnd rws mtu rb sb : Nat) (ts : Bool) (rts : Nat) (sp : Bool) :
    (newEp iss irs sndWnd mss sws rcvWnd rws mtu rb sb ts rts sp).snd.cwnd = Gen.Consts.tcp_InitialCwnd ∧
    (newEp iss irs sndWnd mss sws rcvWnd rws mtu rb sb ts rts sp).snd.outstanding = 0 ∧
    Gen.Consts.tcp_InitialCwnd = 10 := ⟨rfl, rfl, rfl⟩

/-- **C05**: a retransmission timeout collapses the window to one segment with nothing counted outstanding ... -/
theorem rtoState_window (s : Snd) : (rtoState s).cwnd = 1 ∧ (rtoState s).outstanding = 0 ∧ (rtoState s).writeNext = 0 ∧
    (rtoState s).maxPayload = s.maxPayload ∧ (rtoState s).writeList = s.writeList := by
  unfold rtoState
  simp only
  split <;> simp [reduceSsthresh, leaveFastRecovery]

/-- ... so exactly (at most) one data segment is sent per timeout -/
theorem timeout_sends_at_most_one (e : Ep) (hmp : 0 < e.snd.maxPayload) : dataCount (timerEvent e).2 ≤ 1 := by
  unfold timerEvent
  split; simp [dataCount]
  unfold retransmitTimerExpired
  split; simp [dataCount]
  have w := rtoState_window e.snd
  have g := sendData_gate { e with snd := rtoState e.snd } (by simpa [w.2.2.2.1] using hmp)
  simp only [w.1, w.2.1] at g
  by_cases hp : 0 < dataCount (sendData { e with snd := rtoState e.snd }).2
  · have := g.2 hp
    omega
  · omega

/-! ## fast retransmit -/

theorem inRange_iff (v a b : Nat) : inRange v a b = true ↔ sizeS a v < sizeS a b := by
  unfold inRange
  rw [C14.model_eq_generated.2.2.1]
  have h := C14.inRange_iff (bv v) (bv a) (bv b)
  rw [bv_fwd, bv_fwd] at h
  exact h

/-- a duplicate ACK (`ack = sndUna`) never acknowledges new data -/
theorem dupack_not_new (una nxt : Nat) : inRange (subS una 1) una nxt = false := by
  cases h : inRange (subS una 1) una nxt
  · rfl
  · rw [inRange_iff] at h
    unfold sizeS subS M at h
    omega

/-- **C05**: the third duplicate ACK (same acknowledgement number as `sndUna`, no payload, same window, data
outstanding, not an ACK from before the last recovery) makes `checkDuplicateAck` ask for a retransmission and
enter fast recovery; the first and second only count -/
theorem third_dupack_triggers (s : Snd) (ack wnd : Nat)
    (hfr : s.fr.active = false) (hack : ack = s.sndUna) (hw : s.sndWnd = wnd) (hnx : ack ≠ s.sndNxt)
    (hlast : lt s.fr.last ack = true) :
    (s.dupAck + 1 < Gen.Consts.tcp_nDupAckThreshold →
        (checkDuplicateAck s ack 0 wnd).2 = false ∧ (checkDuplicateAck s ack 0 wnd).1.dupAck = s.dupAck + 1) ∧
    (s.dupAck + 1 ≥ Gen.Consts.tcp_nDupAckThreshold →
        (checkDuplicateAck s ack 0 wnd).2 = true ∧ (checkDuplicateAck s ack 0 wnd).1.fr.active = true ∧
        (checkDuplicateAck s ack 0 wnd).1.writeList = s.writeList ∧ (checkDuplicateAck s ack 0 wnd).1.sndUna = s.sndUna ∧
        (checkDuplicateAck s ack 0 wnd).1.sndNxt = s.sndNxt) := by
  have hc : Gen.Consts.tcp_nDupAckThreshold = 3 := rfl
  unfold checkDuplicateAck
  simp only [hfr, Bool.false_eq_true, ↓reduceIte, hack, hw, bne_self_eq_false, Bool.false_or, Bool.or_false]
  have hnx' : (s.sndUna == s.sndNxt) = false := by rw [hack] at hnx; simpa using hnx
  rw [hack] at hlast
  simp only [hnx', Bool.false_eq_true, ↓reduceIte, hlast, Bool.not_true, hc]
  constructor
  · intro h
    have : s.dupAck + 1 < 3 := h
    simp [this]
  · intro h
    have : ¬ s.dupAck + 1 < 3 := by omega
    simp [this, enterFastRecovery, reduceSsthresh]

/-- ... and the retransmission is the earliest unacknowledged segment, sent at once (before anything else) -/
theorem fast_retransmit_sends_head (e : Ep) (seg : InSeg) (wnd : Nat) (ts : Model.Header.TCPOpts) (hd : WSeg) (tl : List WSeg)
    (hfr : e.snd.fr.active = false) (hack : seg.ack = e.snd.sndUna) (hlen : seg.logicalLen = 0)
    (hw : e.snd.sndWnd = wnd) (hnx : seg.ack ≠ e.snd.sndNxt) (hlast : lt e.snd.fr.last seg.ack = true)
    (hcount : e.snd.dupAck + 1 ≥ Gen.Consts.tcp_nDupAckThreshold) (hwl : e.snd.writeList = hd :: tl) :
    ∃ o rest, (sndHandleSegment e seg wnd ts).2 = o :: rest ∧ o.seq = hd.seq ∧ o.data = hd.data := by
  have hsnd : (updateRecentTimestamp e ts.tsVal e.snd.maxSentAck seg.seq).snd = e.snd := by
    unfold updateRecentTimestamp; split <;> rfl
  have t := (third_dupack_triggers e.snd seg.ack wnd hfr hack hw hnx hlast).2 hcount
  have hnr : inRange (subS seg.ack 1) (checkDuplicateAck e.snd seg.ack 0 wnd).1.sndUna (checkDuplicateAck e.snd seg.ack 0 wnd).1.sndNxt = false := by
    rw [t.2.2.2.1, t.2.2.2.2, hack]; exact dupack_not_new _ _
  have hp : ∃ o, (sndPrepare e seg wnd ts).2 = [o] ∧ o.seq = hd.seq ∧ o.data = hd.data := by
    unfold sndPrepare
    simp only [hsnd, hlen, t.1, ↓reduceIte, hnr, Bool.false_eq_true]
    unfold resendSegment
    simp only [t.2.2.1, hwl, List.head?_cons]
    exact ⟨_, rfl, (sendSegment_out _ _ _ _).2.1, (sendSegment_out _ _ _ _).1⟩
  obtain ⟨o, ho, h1, h2⟩ := hp
  unfold sndHandleSegment
  exact ⟨o, _, by rw [ho]; rfl, h1, h2⟩

/-! ## the retransmission timeout (nanoseconds)

The trace model is timing-free; the arithmetic of the timeout is modelled separately and pinned, statement by
statement, to the regenerated source shapes: any edit of these statements breaks `rto_statements_pinned`. -/

def minRTO : Nat := Gen.Consts.tcp_minRTO
def initialRTO : Nat := 1000000000
/-- `updateRTO`'s last three statements -/
def rtoAfterSample (srtt rttvar : Nat) : Nat := if srtt + 4 * rttvar < minRTO then minRTO else srtt + 4 * rttvar
/-- `retransmitTimerExpired` -/
def rtoAfterExpiry (rto : Nat) : Nat := rto * 2

theorem rto_statements_pinned :
    Gen.Shapes.tcp_rto_expired = ["if v0.rto >= 60*time.Second", "v0.rto *= 2"] ∧
    Gen.Shapes.tcp_rto_update = ["v0.rto = v0.rtt.srtt + 4*v0.rtt.rttvar", "if v0.rto < minRTO", "v0.rto = minRTO"] ∧
    Gen.Shapes.tcp_rtt_sample = ["if !v0.ep.sendTSOk && v0.rttMeasureSeqNum.LessThan(v1.ackNumber) && !v0.sndNxt.LessThan(v1.ackNumber)", "v0.updateRTO(time.Now().Sub(v0.rttMeasureTime))", "v0.rttMeasureSeqNum = v0.sndNxt"] ∧
    Gen.Consts.tcp_minRTO = 200000000 := by decide

/-- the statements the congestion model mirrors -/
theorem congestion_statements_pinned :
    Gen.Shapes.tcp_send_gate = ["for v2 != nil && v0.outstanding < v0.sndCwnd", "v0.outstanding++"] ∧
    Gen.Shapes.tcp_cwnd_ss = ["v2 := v0.s.sndCwnd + v1", "if v2 >= v0.s.sndSsthresh", "v2 = v0.s.sndSsthresh", "v1 -= v2 - v0.s.sndCwnd", "v0.s.sndCwnd = v2"] ∧
    Gen.Shapes.tcp_cwnd_ca = ["v0.s.sndCAAckCount += v1", "if v0.s.sndCAAckCount >= v0.s.sndCwnd", "v0.s.sndCwnd += v0.s.sndCAAckCount / v0.s.sndCwnd", "v0.s.sndCAAckCount = v0.s.sndCAAckCount % v0.s.sndCwnd"] ∧
    Gen.Shapes.tcp_cwnd_rto = ["v0.s.sndCwnd = 1"] ∧
    Gen.Shapes.tcp_ssthresh = ["v0.s.sndSsthresh = v0.s.outstanding / 2", "if v0.s.sndSsthresh < 2", "v0.s.sndSsthresh = 2"] ∧
    Gen.Shapes.tcp_cwnd_dupack = ["v0.dupAckCount = 0", "v0.dupAckCount = 0", "v0.dupAckCount++", "if v0.dupAckCount < nDupAckThreshold", "v0.dupAckCount = 0", "v0.dupAckCount = 0"] := by decide

/-- timeouts the sender can ever use: the initial one, one computed from a sample, or a doubled one -/
inductive RtoReach : Nat → Prop
  | init : RtoReach initialRTO
  | sample (srtt rttvar : Nat) : RtoReach (rtoAfterSample srtt rttvar)
  | expiry {r : Nat} : RtoReach r → RtoReach (rtoAfterExpiry r)

/-- **C05**: the timeout is never below 200 ms ... -/
theorem rto_at_least_200ms {r : Nat} (h : RtoReach r) : 200000000 ≤ r := by
  induction h with
  | init => decide
  | sample srtt rttvar =>
    unfold rtoAfterSample minRTO
    have : Gen.Consts.tcp_minRTO = 200000000 := rfl
    split <;> omega
  | expiry _ ih => unfold rtoAfterExpiry; omega

/-- ... and exactly doubles on every expiry -/
theorem rto_doubles (r : Nat) : rtoAfterExpiry r = 2 * r := by unfold rtoAfterExpiry; omega

/-- non-vacuity: the hypotheses of `fast_retransmit_sends_head` are met by a concrete sender -/
example :
    let s : Snd := { sndUna := 100, sndNxt := 300, sndNxtList := 300, sndWnd := 1000, maxPayload := 100, maxSentAck := 1,
                     dupAck := 2, fr := { last := 50 }, outstanding := 2,
                     writeList := [{ seq := 100, flags := 24, data := List.replicate 100 7 }, { seq := 200, flags := 24, data := List.replicate 100 8 }],
                     writeNext := 2 }
    (checkDuplicateAck s 100 0 1000).2 = true := by decide

end Props.C05
