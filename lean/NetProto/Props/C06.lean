import NetProto.Spec.Frame
import NetProto.Model.Wire
import NetProto.Model.TcpStack
import NetProto.Props.C15
import NetProto.Generated.Shapes
/-! # C06 — every frame the stack emits is well-formed, checksummed and correctly addressed

Spec: `Spec/Frame.lean`, a validator built only from the RFC-derived decoders of `Spec/Rfc.lean`.
Model: `Model/Wire.lean`, what `ipv4.WritePacket`, `udp.sendUDP`, `tcp.sendTCP` (and the IPv6 / ARP / Ethernet
builders) put on the wire for given fields.  Tie: every frame captured from the real stack is decoded with the RFC
decoders and rebuilt with the model's constructors; the bytes must be identical (so each captured frame is a value of
the constructors the theorems below quantify over), and the validator is run on every captured frame as well.

Proved for all inputs: UDP datagrams (IPv4 and IPv6, any payload, including the computed-zero checksum case),
the IPv4 header, whole UDP/IPv4 packets, TCP segments with any well-formed option block, and that the option blocks
the stack builds (`makeSynOptions`, `makeOptions`) are well formed.  Not covered by a theorem (validator + rebuild
only): ICMPv6 / neighbour discovery, ARP and Ethernet framing (layout theorems are in C15 / C12 / C13); the addressing
clauses (source of the chosen interface, ports of the socket or of the packet answered, resolved destination MAC) are
judged on the real stack from the context the harness records. -/
namespace Props.C06
open Spec.Rfc Spec.Frame Model.Header Model.Wire
set_option maxRecDepth 10000


/-! ## sums -/

theorem wsum_append_even (a b : List Nat) (h : a.length % 2 = 0) : C15.wsum (a ++ b) = C15.wsum a + C15.wsum b := by
  unfold C15.wsum
  have : words (a ++ b) = words a ++ words b := by
    induction a using words.induct with
    | case1 => simp [words]
    | case2 x => simp at h
    | case3 x y t ih =>
      have ht : t.length % 2 = 0 := by simp at h; omega
      simp [words, ih ht]
  rw [this, List.foldl_append, C15.foldl_add_shift]

theorem ocRep_idem (s : Nat) : C15.ocRep (C15.ocRep s) = C15.ocRep s := by
  unfold C15.ocRep; split <;> split <;> omega

/-- the RFC sum continued from a folded value -/
theorem ocSum_rep (buf : List Nat) (s : Nat) (hb : C15.Bytes buf) : ocSum buf (C15.ocRep s) = C15.ocRep (s + C15.wsum buf) := by
  unfold ocSum C15.wsum
  exact C15.fold_ocAdd _ _ (C15.words_lt buf hb)

/-- the code's `Checksum` continued from a folded value (buffers up to 128 KiB) -/
theorem checksum_rep (buf : List Nat) (s : Nat) (hb : C15.Bytes buf) (hlen : buf.length ≤ 131070) :
    checksum buf (C15.ocRep s) = C15.ocRep (s + C15.wsum buf) := by
  rw [C15.checksum_eq_rfc1071 buf _ hb (C15.ocRep_lt s) hlen, ocSum_rep buf s hb]

theorem checksum_zero (buf : List Nat) (hb : C15.Bytes buf) (hlen : buf.length ≤ 131070) :
    checksum buf 0 = C15.ocRep (C15.wsum buf) := by
  have := checksum_rep buf 0 hb hlen
  simpa [C15.ocRep] using this

/-- a 16-bit field holding the complement of the folded sum of everything else makes the whole verify -/
theorem complement_verifies (S : Nat) : C15.ocRep (S + (65535 - C15.ocRep S)) = 65535 := C15.verify_complement S

/-- ... also when a complement of zero is sent as all ones (UDP) -/
theorem complement_or_ones_verifies (S : Nat) (hS : 0 < S) :
    C15.ocRep (S + (if 65535 - C15.ocRep S = 0 then 65535 else 65535 - C15.ocRep S)) = 65535 := by
  split
  · rename_i h
    have : C15.ocRep S < 65536 := C15.ocRep_lt S
    unfold C15.ocRep at *
    split at h <;> split <;> omega
  · exact C15.verify_complement S

theorem wsum_be16 (v : Nat) (h : v < 65536) : C15.wsum (be16 v) = v := by
  unfold C15.wsum be16; simp [words]; omega

theorem bytes_be16 (v : Nat) : C15.Bytes (be16 v) := by
  intro x hx; simp [be16] at hx; rcases hx with rfl | rfl <;> omega

theorem bytes_append {a b : List Nat} (ha : C15.Bytes a) (hb : C15.Bytes b) : C15.Bytes (a ++ b) := by
  intro x hx; rcases List.mem_append.mp hx with h | h; exact ha x h; exact hb x h

/-! ## UDP -/

theorem udp_header_bytes (sp dp len ck : Nat) :
    udpEncode (zeros 8) { srcPort := sp, dstPort := dp, length := len, checksum := ck } = be16 sp ++ be16 dp ++ be16 len ++ be16 ck := by
  simp [udpEncode, setAt, zeros, be16]

theorem udp_datagram_bytes (src dst : List Nat) (sp dp : Nat) (payload : List Nat) :
    ∃ f, udpDatagram src dst sp dp payload = be16 sp ++ be16 dp ++ be16 (8 + payload.length) ++ be16 f ++ payload ∧
      f = (let c := 65535 - udpCalculateChecksum (be16 sp ++ be16 dp ++ be16 (8 + payload.length) ++ be16 0)
                (checksum payload (pseudoHeaderChecksum 17 src dst)) (8 + payload.length)
           if c = 0 then 65535 else c) := by
  refine ⟨_, ?_, rfl⟩
  unfold udpDatagram
  simp only [udp_header_bytes]
  simp [setAt, be16]

/-- the sum the sender computes, as an integer sum -/
theorem udp_code_sum (src dst : List Nat) (sp dp : Nat) (payload : List Nat)
    (hsb : C15.Bytes src) (hdb : C15.Bytes dst) (hpb : C15.Bytes payload) (hsl : src.length ≤ 16) (hdl : dst.length ≤ 16)
    (hse : src.length % 2 = 0) (hsp : sp < 65536) (hdp : dp < 65536) (hlen : 8 + payload.length ≤ 65535) :
    udpCalculateChecksum (be16 sp ++ be16 dp ++ be16 (8 + payload.length) ++ be16 0)
        (checksum payload (pseudoHeaderChecksum 17 src dst)) (8 + payload.length) =
      C15.ocRep (C15.wsum src + C15.wsum dst + 17 + C15.wsum payload + (8 + payload.length) + (sp + dp + (8 + payload.length))) := by
  have _ := hse
  unfold udpCalculateChecksum pseudoHeaderChecksum
  have h17 : C15.Bytes [0, 17 % 256] := by intro x hx; simp at hx; rcases hx with rfl | rfl <;> omega
  rw [checksum_zero src hsb (by omega), checksum_rep dst _ hdb (by omega), checksum_rep _ _ h17 (by simp),
    checksum_rep payload _ hpb (by omega), checksum_rep _ _ (bytes_be16 _) (by simp [be16])]
  have ht : (be16 sp ++ be16 dp ++ be16 (8 + payload.length) ++ be16 0).take 8 = be16 sp ++ be16 dp ++ be16 (8 + payload.length) ++ be16 0 := by
    simp [be16]
  rw [ht, checksum_rep _ _ (bytes_append (bytes_append (bytes_append (bytes_be16 _) (bytes_be16 _)) (bytes_be16 _)) (bytes_be16 _)) (by simp [be16])]
  congr 1
  have w1 : C15.wsum [0, 17 % 256] = 17 := by simp [C15.wsum, words]
  have w2 : C15.wsum (be16 sp ++ be16 dp ++ be16 (8 + payload.length) ++ be16 0) = sp + dp + (8 + payload.length) := by
    rw [wsum_append_even _ _ (by simp [be16]), wsum_append_even _ _ (by simp [be16]), wsum_append_even _ _ (by simp [be16]),
      wsum_be16 _ hsp, wsum_be16 _ hdp, wsum_be16 _ (by omega), wsum_be16 0 (by omega)]
    omega
  rw [w1, w2, wsum_be16 _ (by omega)]

theorem wsum_quad (L P : List Nat) (src dst : List Nat) (hsb : C15.Bytes src) (hdb : C15.Bytes dst) (hLb : C15.Bytes L) (hPb : C15.Bytes P)
    (hs : src.length % 2 = 0) (hd : dst.length % 2 = 0) (hL : L.length % 2 = 0) :
    ocSum (src ++ dst ++ L ++ P) 0 = C15.ocRep (C15.wsum src + C15.wsum dst + C15.wsum L + C15.wsum P) := by
  rw [C15.ocSum_eq _ 0 (bytes_append (bytes_append (bytes_append hsb hdb) hLb) hPb) (by omega)]
  rw [wsum_append_even _ P (by simp [List.length_append]; omega), wsum_append_even _ L (by simp [List.length_append]; omega),
    wsum_append_even src dst hs]
  congr 1; omega

/-- what a receiver sums before the datagram: the pseudo header (IPv4 or IPv6 form) -/
theorem pseudoSum_eq (src dst : List Nat) (proto len : Nat) (hsb : C15.Bytes src) (hdb : C15.Bytes dst)
    (hl : src.length = dst.length) (h416 : src.length = 4 ∨ src.length = 16) (hp : proto < 256) (hlen : len < 65536) :
    pseudoSum src dst proto len = C15.ocRep (C15.wsum src + C15.wsum dst + proto + len) := by
  unfold pseudoSum
  have hev : src.length % 2 = 0 := by rcases h416 with h | h <;> omega
  have hdev : dst.length % 2 = 0 := by omega
  split
  · have z1 : len / 16777216 = 0 := Nat.div_eq_of_lt (by omega)
    have z2 : len / 65536 = 0 := Nat.div_eq_of_lt (by omega)
    rw [z1, z2]
    generalize hL : [0 % 256, 0 % 256, len / 256 % 256, len % 256] = L
    generalize hP : [0, 0, 0, proto] = P
    have hLb : C15.Bytes L := by rw [← hL]; intro x hx; simp at hx; rcases hx with rfl | rfl | rfl <;> omega
    have hPb : C15.Bytes P := by rw [← hP]; intro x hx; simp at hx; rcases hx with rfl | rfl <;> omega
    have w1 : C15.wsum L = len := by
      rw [← hL]; unfold C15.wsum; simp only [words, List.foldl_cons, List.foldl_nil]; omega
    have w2 : C15.wsum P = proto := by rw [← hP]; unfold C15.wsum; simp only [words, List.foldl_cons, List.foldl_nil]; omega
    rw [wsum_quad L P src dst hsb hdb hLb hPb hev hdev (by rw [← hL]; simp), w1, w2]
    congr 1; omega
  · generalize hP : [0, proto] = P
    generalize hL : [len / 256 % 256, len % 256] = L
    have hLb : C15.Bytes L := by rw [← hL]; intro x hx; simp at hx; rcases hx with rfl | rfl <;> omega
    have hPb : C15.Bytes P := by rw [← hP]; intro x hx; simp at hx; rcases hx with rfl | rfl <;> omega
    have w1 : C15.wsum L = len := by rw [← hL]; unfold C15.wsum; simp only [words, List.foldl_cons, List.foldl_nil]; omega
    have w2 : C15.wsum P = proto := by rw [← hP]; unfold C15.wsum; simp only [words, List.foldl_cons, List.foldl_nil]; omega
    rw [wsum_quad P L src dst hsb hdb hPb hLb hev hdev (by rw [← hP]; simp), w1, w2]

/-- **C06 (UDP)**: every datagram `sendUDP` builds -- any ports, any payload that fits, odd or even length, over
IPv4 or IPv6 -- has a length field equal to its length and a checksum that is present and verifies under the
RFC's pseudo-header rule -/
theorem udp_datagram_valid (src dst : List Nat) (sp dp : Nat) (payload : List Nat)
    (hsb : C15.Bytes src) (hdb : C15.Bytes dst) (hpb : C15.Bytes payload)
    (hl : src.length = dst.length) (h416 : src.length = 4 ∨ src.length = 16)
    (hsp : sp < 65536) (hdp : dp < 65536) (hlen : 8 + payload.length ≤ 65535) :
    checkUDP src dst (udpDatagram src dst sp dp payload) = [] := by
  obtain ⟨f, hbytes, hf⟩ := udp_datagram_bytes src dst sp dp payload
  have hev : src.length % 2 = 0 := by rcases h416 with h | h <;> omega
  rw [udp_code_sum src dst sp dp payload hsb hdb hpb (by rcases h416 with h | h <;> omega) (by omega) hev hsp hdp hlen] at hf
  generalize hS : C15.wsum src + C15.wsum dst + 17 + C15.wsum payload + (8 + payload.length) + (sp + dp + (8 + payload.length)) = S at hf
  have hSpos : 0 < S := by omega
  have hf16 : f < 65536 := by
    have := C15.ocRep_lt S
    rw [hf]; simp only; split <;> omega
  have hfpos : f ≠ 0 := by
    rw [hf]; simp only; split <;> omega
  have hdg : udpDatagram src dst sp dp payload = udpEncode (zeros 8 ++ payload) ⟨sp, dp, 8 + payload.length, f⟩ := by
    rw [hbytes]; simp [udpEncode, setAt, zeros, be16]
  have hdec := C15.udp_decode_encode (zeros 8 ++ payload) ⟨sp, dp, 8 + payload.length, f⟩ (by simp [zeros]) hsp hdp (by show 8 + payload.length < 65536; omega) hf16
  have hdl : (udpDatagram src dst sp dp payload).length = 8 + payload.length := by rw [hbytes]; simp [be16]; omega
  unfold checkUDP
  rw [hdg, hdec, ← hdg]
  simp only [hdl, bne_self_eq_false, Bool.false_eq_true, ↓reduceIte, List.nil_append]
  have hz : (f == 0) = false := by simpa using hfpos
  simp only [hz, Bool.false_eq_true, ↓reduceIte]
  have hver : verifies (udpDatagram src dst sp dp payload) (pseudoSum src dst protoUDP (8 + payload.length)) = true := by
    unfold verifies
    rw [pseudoSum_eq src dst protoUDP _ hsb hdb hl h416 (by decide) (by omega), hbytes]
    have hB : C15.Bytes (be16 sp ++ be16 dp ++ be16 (8 + payload.length) ++ be16 f ++ payload) :=
      bytes_append (bytes_append (bytes_append (bytes_append (bytes_be16 _) (bytes_be16 _)) (bytes_be16 _)) (bytes_be16 _)) hpb
    rw [ocSum_rep _ _ hB]
    rw [wsum_append_even _ _ (by simp [be16]), wsum_append_even _ _ (by simp [be16]), wsum_append_even _ _ (by simp [be16]),
      wsum_append_even _ _ (by simp [be16]), wsum_be16 _ hsp, wsum_be16 _ hdp, wsum_be16 _ (by omega), wsum_be16 _ hf16]
    have := complement_or_ones_verifies S hSpos
    have e : C15.wsum src + C15.wsum dst + protoUDP + (8 + payload.length) + (sp + dp + (8 + payload.length) + f + C15.wsum payload) = S + f := by
      unfold protoUDP; omega
    rw [e, hf]
    simpa using this
  simp [hver]

/-! ## IPv4 -/

/-- the field record `ipv4.WritePacket` encodes -/
def hdrFields (tl id ttl proto ck : Nat) (src dst : List Nat) : IPv4Fields :=
  { ihl := 20, tos := 0, totalLength := tl, id := id, flags := 0, fragmentOffset := 0, ttl := ttl, protocol := proto, checksum := ck, src := src, dst := dst }

theorem ipv4_header_bytes (tl id ttl proto ck : Nat) (src dst : List Nat) (hs : src.length = 4) (hd : dst.length = 4) :
    ipv4Encode (zeros 20) (hdrFields tl id ttl proto ck src dst) =
      [69, 0] ++ be16 tl ++ be16 id ++ [0, 0] ++ [ttl, proto] ++ be16 ck ++ src ++ dst := by
  obtain ⟨s0, s1, s2, s3, rfl⟩ : ∃ s0 s1 s2 s3, src = [s0, s1, s2, s3] := by
    match src, hs with
    | [s0, s1, s2, s3], _ => exact ⟨_, _, _, _, rfl⟩
  obtain ⟨d0, d1, d2, d3, rfl⟩ : ∃ d0 d1 d2 d3, dst = [d0, d1, d2, d3] := by
    match dst, hd with
    | [d0, d1, d2, d3], _ => exact ⟨_, _, _, _, rfl⟩
  simp [ipv4Encode, hdrFields, setAt, zeros, be16]

/-- **C06 (IPv4)**: the header `ipv4.WritePacket` builds decodes with version 4, a 20-byte header, total length equal
to the actual packet length, the fields handed in -- and its checksum verifies -/
theorem ipv4_header_valid (id ttl proto : Nat) (src dst : List Nat) (n : Nat)
    (hs : src.length = 4) (hd : dst.length = 4) (hsb : C15.Bytes src) (hdb : C15.Bytes dst)
    (hid : id < 65536) (httl : ttl < 256) (hproto : proto < 256) (hn : 20 + n ≤ 65535) :
    (ipv4Header id ttl proto src dst n).length = 20 ∧
    decodeIPv4 (ipv4Header id ttl proto src dst n) = some ⟨4, 5, 0, 20 + n, id, 0, 0, ttl, proto,
        65535 - C15.ocRep (17664 + (20 + n) + id + (ttl * 256 + proto) + C15.wsum src + C15.wsum dst), src, dst⟩ ∧
    verifies (ipv4Header id ttl proto src dst n) 0 = true := by
  have hb0 := ipv4_header_bytes (20 + n) id ttl proto 0 src dst hs hd
  have hB0 : C15.Bytes ([69, 0] ++ be16 (20 + n) ++ be16 id ++ [0, 0] ++ [ttl, proto] ++ be16 0 ++ src ++ dst) := by
    apply bytes_append (bytes_append (bytes_append (bytes_append (bytes_append (bytes_append (bytes_append _ (bytes_be16 _)) (bytes_be16 _)) _) _) (bytes_be16 _)) hsb) hdb
    · intro x hx; simp at hx; rcases hx with rfl | rfl <;> omega
    · intro x hx; simp at hx; omega
    · intro x hx; simp at hx; rcases hx with rfl | rfl <;> omega
  have hsum : ∀ ck, ck < 65536 → C15.wsum ([69, 0] ++ be16 (20 + n) ++ be16 id ++ [0, 0] ++ [ttl, proto] ++ be16 ck ++ src ++ dst) =
      17664 + (20 + n) + id + (ttl * 256 + proto) + ck + C15.wsum src + C15.wsum dst := by
    intro ck hck
    rw [wsum_append_even _ dst (by simp [be16, hs]), wsum_append_even _ src (by simp [be16]), wsum_append_even _ (be16 ck) (by simp [be16]),
      wsum_append_even _ [ttl, proto] (by simp [be16]), wsum_append_even _ [0, 0] (by simp [be16]), wsum_append_even _ (be16 id) (by simp [be16]),
      wsum_append_even [69, 0] _ (by simp), wsum_be16 _ hid, wsum_be16 _ (by omega), wsum_be16 _ hck]
    have a1 : C15.wsum [69, 0] = 17664 := by decide
    have a2 : C15.wsum [0, 0] = 0 := by decide
    have a3 : C15.wsum [ttl, proto] = ttl * 256 + proto := by unfold C15.wsum; simp [words]
    rw [a1, a2, a3]; omega
  generalize hS : 17664 + (20 + n) + id + (ttl * 256 + proto) + C15.wsum src + C15.wsum dst = S
  have hck : checksum (ipv4Encode (zeros 20) (hdrFields (20 + n) id ttl proto 0 src dst)) 0 = C15.ocRep S := by
    rw [hb0, checksum_zero _ hB0 (by simp [be16, hs, hd]), hsum 0 (by omega)]
    have e : 17664 + (20 + n) + id + (ttl * 256 + proto) + 0 + C15.wsum src + C15.wsum dst = S := by omega
    rw [e]
  have hc16 : 65535 - C15.ocRep S < 65536 := by omega
  have hfinal : ipv4Header id ttl proto src dst n = ipv4Encode (zeros 20) (hdrFields (20 + n) id ttl proto (65535 - C15.ocRep S) src dst) := by
    unfold ipv4Header
    show setAt (ipv4Encode (zeros 20) (hdrFields (20 + n) id ttl proto 0 src dst)) 10
      (be16 (65535 - checksum (ipv4Encode (zeros 20) (hdrFields (20 + n) id ttl proto 0 src dst)) 0)) = _
    rw [hck, hb0, ipv4_header_bytes _ _ _ _ _ src dst hs hd]
    simp [setAt, be16]
  refine ⟨?_, ?_, ?_⟩
  · rw [hfinal, ipv4_header_bytes _ _ _ _ _ src dst hs hd]; simp [be16, hs, hd]
  · rw [hfinal]
    have := C15.ipv4_decode_encode (zeros 20) (hdrFields (20 + n) id ttl proto (65535 - C15.ocRep S) src dst) (by simp [zeros]) (by show 20 < 256; omega) (by show 0 < 256; omega) (by show 20 + n < 65536; omega) hid (by show 0 < 256; omega) (by show 0 < 65536; omega) httl hproto hc16 hs hd
    rw [this]
    simp [hdrFields]
  · rw [hfinal, ipv4_header_bytes _ _ _ _ _ src dst hs hd]
    unfold verifies
    have hB : C15.Bytes ([69, 0] ++ be16 (20 + n) ++ be16 id ++ [0, 0] ++ [ttl, proto] ++ be16 (65535 - C15.ocRep S) ++ src ++ dst) := by
      apply bytes_append (bytes_append (bytes_append (bytes_append (bytes_append (bytes_append (bytes_append _ (bytes_be16 _)) (bytes_be16 _)) _) _) (bytes_be16 _)) hsb) hdb
      · intro x hx; simp at hx; rcases hx with rfl | rfl <;> omega
      · intro x hx; simp at hx; omega
      · intro x hx; simp at hx; rcases hx with rfl | rfl <;> omega
    rw [C15.ocSum_eq _ 0 hB (by omega), hsum _ hc16]
    have := complement_verifies S
    have e : 0 + (17664 + (20 + n) + id + (ttl * 256 + proto) + (65535 - C15.ocRep S) + C15.wsum src + C15.wsum dst) = S + (65535 - C15.ocRep S) := by omega
    rw [e, this]; rfl

theorem take_drop_prefix (h p : List Nat) (a n : Nat) (hb : a + n ≤ h.length) : ((h ++ p).drop a).take n = (h.drop a).take n := by
  rw [List.drop_append_of_le_length (by omega), List.take_append_of_le_length (by simp; omega)]

theorem decodeIPv4_prefix (h p : List Nat) (hl : h.length = 20) : decodeIPv4 (h ++ p) = decodeIPv4 h := by
  unfold decodeIPv4 row
  have e : ∀ a n, a + n ≤ 20 → ((h ++ p).drop a).take n = (h.drop a).take n := fun a n hh => take_drop_prefix h p a n (by omega)
  simp only [List.length_append, hl]
  rw [if_neg (by omega), if_neg (by omega)]
  rw [e (4 * 0) 4 (by omega), e (4 * 1) 4 (by omega), e (4 * 2) 4 (by omega), e 12 4 (by omega), e 16 4 (by omega)]

/-- **C06 (UDP over IPv4)**: a whole packet as `sendUDP` + `ipv4.WritePacket` emit it passes the RFC validator:
lengths, header checksum, UDP checksum with pseudo header -/
theorem udp4_packet_valid (id ttl : Nat) (src dst : List Nat) (sp dp : Nat) (payload : List Nat)
    (hs : src.length = 4) (hd : dst.length = 4) (hsb : C15.Bytes src) (hdb : C15.Bytes dst) (hpb : C15.Bytes payload)
    (hid : id < 65536) (httl : ttl < 256) (hsp : sp < 65536) (hdp : dp < 65536) (hlen : 20 + 8 + payload.length ≤ 65535) :
    checkIPv4 (ipv4Packet id ttl 17 src dst (udpDatagram src dst sp dp payload)) = [] := by
  obtain ⟨f, hbytes, _⟩ := udp_datagram_bytes src dst sp dp payload
  have hdl : (udpDatagram src dst sp dp payload).length = 8 + payload.length := by rw [hbytes]; simp [be16]; omega
  have hv := ipv4_header_valid id ttl 17 src dst (udpDatagram src dst sp dp payload).length hs hd hsb hdb hid httl (by omega) (by rw [hdl]; omega)
  have hu := udp_datagram_valid src dst sp dp payload hsb hdb hpb (by omega) (Or.inl hs) hsp hdp (by omega)
  unfold checkIPv4 ipv4Packet
  rw [decodeIPv4_prefix _ _ hv.1, hv.2.1]
  simp only [List.length_append, hv.1, bne_self_eq_false, Bool.false_eq_true, ↓reduceIte, List.nil_append]
  have h1 : ¬ (5 < 5) := by omega
  have htake : (ipv4Header id ttl 17 src dst (udpDatagram src dst sp dp payload).length ++ udpDatagram src dst sp dp payload).take (5 * 4) =
      ipv4Header id ttl 17 src dst (udpDatagram src dst sp dp payload).length := by
    rw [List.take_append_of_le_length (by rw [hv.1]; omega)]; exact List.take_of_length_le (by rw [hv.1]; omega)
  have hdrop : (ipv4Header id ttl 17 src dst (udpDatagram src dst sp dp payload).length ++ udpDatagram src dst sp dp payload).drop (5 * 4) =
      udpDatagram src dst sp dp payload := by
    rw [List.drop_append_of_le_length (by rw [hv.1]; omega)]; simp [List.drop_of_length_le, hv.1]
  simp [h1, htake, hdrop, hv.2.2, checkTransport, protoUDP, protoTCP, hu]

/-! ## TCP -/

def tcpFields (sp dp seq ack hl flags wnd ck : Nat) : TCPFields :=
  { srcPort := sp, dstPort := dp, seq := seq, ack := ack, dataOffset := hl, flags := flags, window := wnd, checksum := ck, urgent := 0 }

theorem wsum_be32 (v : Nat) (h : v < 4294967296) : C15.wsum (be32 v) = v / 65536 + v % 65536 := by
  unfold C15.wsum be32; simp only [words, List.foldl_cons, List.foldl_nil]; omega

theorem bytes_be32 (v : Nat) : C15.Bytes (be32 v) := by
  intro x hx; simp [be32] at hx; rcases hx with rfl | rfl | rfl | rfl <;> omega

/-- fixed header + options as `sendTCP` lays them out (header length `20 + opts.length`, a multiple of 4) -/
theorem tcp_header_bytes (sp dp seq ack flags wnd ck : Nat) (opts : List Nat) (k : Nat) (hol : opts.length = 4 * k) (hk : k ≤ 10) :
    setAt (tcpEncode (zeros (20 + opts.length)) (tcpFields sp dp seq ack (20 + opts.length) flags wnd ck)) 20 opts =
      be16 sp ++ be16 dp ++ be32 seq ++ be32 ack ++ [(5 + k) * 16 % 256, flags] ++ be16 wnd ++ be16 ck ++ [0, 0] ++ opts := by
  have hz : zeros (20 + opts.length) = zeros 20 ++ zeros opts.length := by
    unfold zeros; rw [List.replicate_append_replicate]
  have e : (20 + opts.length) / 4 = 5 + k := by omega
  rw [hz]
  simp only [tcpEncode, tcpFields, e]
  simp [setAt, zeros, be16, be32, List.length_replicate]
  omega

theorem wsum_fixed (sp dp seq ack k flags wnd ck : Nat) (opts : List Nat)
    (hsp : sp < 65536) (hdp : dp < 65536) (hseq : seq < 4294967296) (hack : ack < 4294967296) (hk : k ≤ 10) (hfl : flags < 256)
    (hw : wnd < 65536) (hck : ck < 65536) (hoe : opts.length % 2 = 0) :
    C15.wsum (be16 sp ++ be16 dp ++ be32 seq ++ be32 ack ++ [(5 + k) * 16 % 256, flags] ++ be16 wnd ++ be16 ck ++ [0, 0] ++ opts) =
      sp + dp + (seq / 65536 + seq % 65536) + (ack / 65536 + ack % 65536) + ((5 + k) * 16 * 256 + flags) + wnd + ck + C15.wsum opts := by
  rw [wsum_append_even _ opts (by simp [be16, be32]), wsum_append_even _ [0, 0] (by simp [be16, be32]), wsum_append_even _ (be16 ck) (by simp [be16, be32]),
    wsum_append_even _ (be16 wnd) (by simp [be16, be32]), wsum_append_even _ [(5 + k) * 16 % 256, flags] (by simp [be16, be32]),
    wsum_append_even _ (be32 ack) (by simp [be16, be32]), wsum_append_even _ (be32 seq) (by simp [be16]), wsum_append_even _ (be16 dp) (by simp [be16]),
    wsum_be16 _ hsp, wsum_be16 _ hdp, wsum_be32 _ hseq, wsum_be32 _ hack, wsum_be16 _ hw, wsum_be16 _ hck]
  have a1 : C15.wsum [0, 0] = 0 := by decide
  have a2 : C15.wsum [(5 + k) * 16 % 256, flags] = (5 + k) * 16 * 256 + flags := by
    unfold C15.wsum; simp only [words, List.foldl_cons, List.foldl_nil]; omega
  rw [a1, a2]
  have _ := hoe
  omega

theorem bytes_fixed (sp dp seq ack k flags wnd ck : Nat) (opts : List Nat) (hfl : flags < 256) (hob : C15.Bytes opts) :
    C15.Bytes (be16 sp ++ be16 dp ++ be32 seq ++ be32 ack ++ [(5 + k) * 16 % 256, flags] ++ be16 wnd ++ be16 ck ++ [0, 0] ++ opts) := by
  apply bytes_append (bytes_append (bytes_append (bytes_append (bytes_append (bytes_append (bytes_append (bytes_append (bytes_be16 _) (bytes_be16 _)) (bytes_be32 _)) (bytes_be32 _)) _) (bytes_be16 _)) (bytes_be16 _)) _) hob
  · intro x hx; simp at hx; rcases hx with rfl | rfl <;> omega
  · intro x hx; simp at hx; omega

/-- **C06 (TCP)**: every segment `sendTCP` builds -- any ports, sequence numbers, flags, window, payload, and any
well-formed option block padded to a multiple of four (at most 40 bytes) -- has a data offset covering header and
options inside the segment, options that parse under the strict grammar, clear reserved bits, and a checksum that
verifies with the pseudo header (IPv4 or IPv6) -/
theorem tcp_segment_valid (src dst : List Nat) (sp dp seq ack flags wnd : Nat) (opts payload : List Nat) (k : Nat)
    (hsb : C15.Bytes src) (hdb : C15.Bytes dst) (hpb : C15.Bytes payload) (hob : C15.Bytes opts)
    (hl : src.length = dst.length) (h416 : src.length = 4 ∨ src.length = 16)
    (hsp : sp < 65536) (hdp : dp < 65536) (hseq : seq < 4294967296) (hack : ack < 4294967296) (hfl : flags < 256)
    (hol : opts.length = 4 * k) (hk : k ≤ 10) (hopt : (decodeOptions opts).isSome = true)
    (hlen : 20 + opts.length + payload.length ≤ 65535) :
    checkTCP src dst (tcpSegment src dst sp dp seq ack flags wnd opts payload) = [] := by
  have hw : min wnd 65535 < 65536 := by omega
  have hev : src.length % 2 = 0 := by rcases h416 with h | h <;> omega
  -- the header with a zero checksum field, and the sum the sender computes over it
  have hb0 := tcp_header_bytes sp dp seq ack flags (min wnd 65535) 0 opts k hol hk
  generalize hH0 : be16 sp ++ be16 dp ++ be32 seq ++ be32 ack ++ [(5 + k) * 16 % 256, flags] ++ be16 (min wnd 65535) ++ be16 0 ++ [0, 0] ++ opts = H0 at hb0
  have hH0len : H0.length = 20 + opts.length := by rw [← hH0]; simp [be16, be32]; omega
  have hH0b : C15.Bytes H0 := by rw [← hH0]; exact bytes_fixed _ _ _ _ _ _ _ _ _ hfl hob
  have hdo : tcpDataOffset H0 = 20 + opts.length := by
    rw [← hH0]
    unfold tcpDataOffset rd8
    simp [be16, be32]
    omega
  generalize hS : C15.wsum src + C15.wsum dst + 6 + C15.wsum payload + (20 + opts.length + payload.length) +
    (sp + dp + (seq / 65536 + seq % 65536) + (ack / 65536 + ack % 65536) + ((5 + k) * 16 * 256 + flags) + min wnd 65535 + C15.wsum opts) = S
  have h6 : C15.Bytes [0, 6 % 256] := by intro x hx; simp at hx; rcases hx with rfl | rfl <;> omega
  have hcode : tcpCalculateChecksum H0 (checksum payload (pseudoHeaderChecksum 6 src dst)) (20 + opts.length + payload.length) = C15.ocRep S := by
    unfold tcpCalculateChecksum pseudoHeaderChecksum
    rw [hdo, List.take_of_length_le (by omega)]
    rw [checksum_zero src hsb (by rcases h416 with h | h <;> omega), checksum_rep dst _ hdb (by rcases h416 with h | h <;> omega),
      checksum_rep _ _ h6 (by simp), checksum_rep payload _ hpb (by omega), checksum_rep _ _ (bytes_be16 _) (by simp [be16]),
      checksum_rep H0 _ hH0b (by omega)]
    have w1 : C15.wsum [0, 6 % 256] = 6 := by decide
    have w0 := wsum_fixed sp dp seq ack k flags (min wnd 65535) 0 opts hsp hdp hseq hack hk hfl hw (by omega) (by omega)
    rw [hH0] at w0
    rw [w1, w0, wsum_be16 _ (by omega), ← hS]
    have eq : ∀ a b : Nat, a = b → C15.ocRep a = C15.ocRep b := fun _ _ h => by rw [h]
    apply eq; omega
  have hc16 : 65535 - C15.ocRep S < 65536 := by omega
  -- the finished segment
  have hseg : tcpSegment src dst sp dp seq ack flags wnd opts payload =
      be16 sp ++ be16 dp ++ be32 seq ++ be32 ack ++ [(5 + k) * 16 % 256, flags] ++ be16 (min wnd 65535) ++ be16 (65535 - C15.ocRep S) ++ [0, 0] ++ opts ++ payload := by
    unfold tcpSegment
    show setAt (setAt (tcpEncode (zeros (20 + opts.length)) (tcpFields sp dp seq ack (20 + opts.length) flags (min wnd 65535) 0)) 20 opts) 16
      (be16 (65535 - tcpCalculateChecksum (setAt (tcpEncode (zeros (20 + opts.length)) (tcpFields sp dp seq ack (20 + opts.length) flags (min wnd 65535) 0)) 20 opts)
        (checksum payload (pseudoHeaderChecksum 6 src dst)) (20 + opts.length + payload.length))) ++ payload = _
    rw [hb0, hcode, ← hH0]
    simp [setAt, be16, be32]
  generalize hH : be16 sp ++ be16 dp ++ be32 seq ++ be32 ack ++ [(5 + k) * 16 % 256, flags] ++ be16 (min wnd 65535) ++ be16 (65535 - C15.ocRep S) ++ [0, 0] ++ opts = H at hseg
  have hHlen : H.length = 20 + opts.length := by rw [← hH]; simp [be16, be32]; omega
  have hHb : C15.Bytes H := by rw [← hH]; exact bytes_fixed _ _ _ _ _ _ _ _ _ hfl hob
  have hHw : C15.wsum H = sp + dp + (seq / 65536 + seq % 65536) + (ack / 65536 + ack % 65536) + ((5 + k) * 16 * 256 + flags) + min wnd 65535 + (65535 - C15.ocRep S) + C15.wsum opts := by
    rw [← hH]; exact wsum_fixed sp dp seq ack k flags (min wnd 65535) _ opts hsp hdp hseq hack hk hfl hw hc16 (by omega)
  -- decoding
  have henc : H ++ payload = tcpEncode (zeros 20 ++ opts ++ payload) (tcpFields sp dp seq ack (20 + opts.length) flags (min wnd 65535) (65535 - C15.ocRep S)) := by
    rw [← hH]
    have e : (20 + opts.length) / 4 = 5 + k := by omega
    simp only [tcpEncode, tcpFields, e]
    simp [setAt, zeros, be16, be32]
  have hdec := C15.tcp_decode_encode (zeros 20 ++ opts ++ payload) (tcpFields sp dp seq ack (20 + opts.length) flags (min wnd 65535) (65535 - C15.ocRep S))
    (by simp [zeros]) hsp hdp hseq hack (by show 20 + opts.length < 256; omega) hfl hw hc16 (by show 0 < 65536; omega)
  have e5 : (20 + opts.length) / 4 % 16 = 5 + k := by omega
  unfold checkTCP
  rw [hseg, henc, hdec, ← henc]
  simp only [tcpFields, e5]
  have hlen2 : (H ++ payload).length = 20 + opts.length + payload.length := by simp [hHlen]
  have c1 : ¬ (5 + k < 5) := by omega
  have c2 : ¬ ((5 + k) * 4 > (H ++ payload).length) := by rw [hlen2]; omega
  have hopts : ((H ++ payload).take ((5 + k) * 4)).drop 20 = opts := by
    have : (5 + k) * 4 = H.length := by rw [hHlen]; omega
    rw [this, List.take_append_of_le_length (Nat.le_refl _), List.take_of_length_le (Nat.le_refl _), ← hH]
    simp [be16, be32]
  have hver : verifies (H ++ payload) (pseudoSum src dst protoTCP (H ++ payload).length) = true := by
    unfold verifies
    rw [hlen2, pseudoSum_eq src dst protoTCP _ hsb hdb hl h416 (by decide) (by omega), ocSum_rep _ _ (bytes_append hHb hpb),
      wsum_append_even H payload (by rw [hHlen]; omega), hHw]
    have := complement_verifies S
    have e : C15.wsum src + C15.wsum dst + protoTCP + (20 + opts.length + payload.length) +
        (sp + dp + (seq / 65536 + seq % 65536) + (ack / 65536 + ack % 65536) + ((5 + k) * 16 * 256 + flags) + min wnd 65535 + (65535 - C15.ocRep S) + C15.wsum opts + C15.wsum payload) =
        S + (65535 - C15.ocRep S) := by unfold protoTCP; omega
    rw [e, this]; rfl
  have hd : (decodeOptions opts) ≠ none := by intro h; rw [h] at hopt; simp at hopt
  simp only [c1, c2, ↓reduceIte, List.nil_append, hopts, hver]
  cases ho : decodeOptions opts with
  | none => exact absurd ho hd
  | some v => simp

/-! ## the option blocks the stack builds -/


/-- the option block of a SYN / SYN-ACK (`makeSynOptions`): a multiple of four bytes, at most 20, and well formed
under the strict grammar -- for every MSS, window scale, timestamp pair and SACK-permitted combination -/
theorem makeSynOptions_wellformed (mss : Nat) (ws : Int) (ts : Bool) (tsVal tsEcr : Nat) (sp : Bool) :
    ∃ k, (Model.Tcp.makeSynOptions mss ws ts tsVal tsEcr sp).length = 4 * k ∧ k ≤ 10 ∧
      (decodeOptions (Model.Tcp.makeSynOptions mss ws ts tsVal tsEcr sp)).isSome = true := by
  unfold Model.Tcp.makeSynOptions
  cases ts <;> cases sp <;> by_cases hw : ws ≥ 0 <;>
    simp [hw, be32, decodeOptions, decodeOpts] <;> first | exact ⟨1, by omega, by omega⟩ | exact ⟨2, by omega, by omega⟩ | exact ⟨3, by omega, by omega⟩ | exact ⟨4, by omega, by omega⟩ | exact ⟨5, by omega, by omega⟩

theorem blocksBytes_length (bl : List (Nat × Nat)) : (blocksBytes bl).length = 8 * bl.length := by
  induction bl with
  | nil => rfl
  | cons b t ih => obtain ⟨s, e⟩ := b; simp [blocksBytes, be32, ih]; omega

/-- the SACK option with up to four blocks parses -/
theorem sack_option_parses (bl : List (Nat × Nat)) (hl : 0 < bl.length) (h4 : bl.length ≤ 4) :
    (decodeOptions ([1, 1, 5, bl.length * 8 + 2] ++ blocksBytes bl)).isSome = true := by
  have hlen := blocksBytes_length bl
  generalize hB : blocksBytes bl = B at *
  unfold decodeOptions
  simp only [List.cons_append, List.nil_append, List.length_cons, decodeOpts]
  have h1 : ¬ (bl.length * 8 + 2 < 2 ∨ B.length < bl.length * 8 + 2 - 2) := by omega
  have h2 : (bl.length * 8 + 2 - 2) % 8 = 0 := by omega
  have htake : B.take (bl.length * 8 + 2 - 2) = B := List.take_of_length_le (by omega)
  have hdrop : B.drop (bl.length * 8 + 2 - 2) = [] := List.drop_of_length_le (by omega)
  simp [h1, h2, decodeOpts]
  have c : ¬ (bl.length * 8 + 2 < 2 ∨ B.length < bl.length * 8) := by omega
  have hd2 : B.drop (bl.length * 8) = [] := List.drop_of_length_le (by omega)
  rw [if_neg c, hd2]
  simp [decodeOpts]

/-- a timestamp option (with its two NOPs) followed by a SACK option with up to three blocks parses -/
theorem ts_sack_parses (v : List Nat) (hv : v.length = 8) (bl : List (Nat × Nat)) (hl : 0 < bl.length) (h3 : bl.length ≤ 3) :
    (decodeOptions ([1, 1, 8, 10] ++ v ++ ([1, 1, 5, bl.length * 8 + 2] ++ blocksBytes bl))).isSome = true := by
  have hlen := blocksBytes_length bl
  generalize hB : blocksBytes bl = B at *
  unfold decodeOptions
  have hfuel : ([1, 1, 8, 10] ++ v ++ ([1, 1, 5, bl.length * 8 + 2] ++ B)).length + 1 = (B.length + 11) + 6 := by simp [hv]; omega
  rw [hfuel]
  simp only [List.cons_append, List.nil_append, decodeOpts]
  have c : ¬ (10 < 2 ∨ (v ++ 1 :: 1 :: 5 :: (bl.length * 8 + 2) :: B).length < 10 - 2) := by simp [hv]
  have hd : (v ++ 1 :: 1 :: 5 :: (bl.length * 8 + 2) :: B).drop (10 - 2) = 1 :: 1 :: 5 :: (bl.length * 8 + 2) :: B := by
    rw [List.drop_append_of_le_length (by omega)]; simp [List.drop_of_length_le, hv]
  simp only [c, ↓reduceIte, hd, decodeOpts]
  have c2 : ¬ (bl.length * 8 + 2 < 2 ∨ B.length < bl.length * 8 + 2 - 2) := by omega
  have hd2 : B.drop (bl.length * 8 + 2 - 2) = [] := List.drop_of_length_le (by omega)
  have h8 : (bl.length * 8 + 2 - 2) % 8 = 0 := by omega
  simp [c2, h8, decodeOpts]
  have e1 : ¬ (v.length + (B.length + 1 + 1 + 1 + 1) < 8) := by omega
  have e2 : ¬ (bl.length * 8 + 2 < 2 ∨ B.length < bl.length * 8) := by omega
  have hd3 : B.drop (bl.length * 8) = [] := List.drop_of_length_le (by omega)
  rw [if_neg e1, if_neg e2, hd3]
  simp [decodeOpts]

/-- the option block of every other segment (`makeOptions`: timestamps and/or SACK blocks): a multiple of four
bytes, at most 40, well formed -/
theorem makeOptions_wellformed (e : Model.Tcp.Ep) (withSack : Bool) :
    ∃ k, (Model.Tcp.makeOptions e withSack).length = 4 * k ∧ k ≤ 10 ∧ (decodeOptions (Model.Tcp.makeOptions e withSack)).isSome = true := by
  unfold Model.Tcp.makeOptions
  simp only
  generalize hbl : e.sack.take (if e.sendTSOk then 3 else 4) = bl
  have hbl4 : bl.length ≤ (if e.sendTSOk then 3 else 4) := by rw [← hbl]; simp [List.length_take]; omega
  have hB := blocksBytes_length bl
  by_cases hs : (e.sackPermitted && withSack && decide (bl.length > 0)) = true
  · have hpos : 0 < bl.length := by simp at hs; exact hs.2
    simp only [hs, ↓reduceIte]
    cases hts : e.sendTSOk
    · simp only [hts, Bool.false_eq_true, ↓reduceIte, List.nil_append] at hbl4 ⊢
      refine ⟨1 + 2 * bl.length, by simp [hB]; omega, by omega, sack_option_parses bl hpos hbl4⟩
    · simp only [hts, ↓reduceIte] at hbl4 ⊢
      refine ⟨4 + 2 * bl.length, by simp [hB, be32]; omega, by omega, ?_⟩
      have := ts_sack_parses ([0, 0, 0, 0] ++ be32 e.recentTS) (by simp [be32]) bl hpos (by omega)
      simpa using this
  · have hs' : (e.sackPermitted && withSack && decide (bl.length > 0)) = false := by simpa using hs
    simp only [hs', Bool.false_eq_true, ↓reduceIte, List.append_nil]
    cases hts : e.sendTSOk
    · exact ⟨0, by simp, by omega, by simp [decodeOptions, decodeOpts]⟩
    · exact ⟨3, by simp [be32], by omega, by simp [be32, decodeOptions, decodeOpts]⟩

theorem blocksBytes_bytes (bl : List (Nat × Nat)) : C15.Bytes (blocksBytes bl) := by
  induction bl with
  | nil => intro x hx; simp [blocksBytes] at hx
  | cons b t ih =>
    obtain ⟨s, e⟩ := b
    simp only [blocksBytes]
    exact bytes_append (bytes_append (bytes_be32 s) (bytes_be32 e)) ih

theorem makeOptions_bytes (e : Model.Tcp.Ep) (withSack : Bool) : C15.Bytes (Model.Tcp.makeOptions e withSack) := by
  unfold Model.Tcp.makeOptions
  simp only
  generalize hbl : e.sack.take (if e.sendTSOk then 3 else 4) = bl
  have hbl4 : bl.length ≤ 4 := by rw [← hbl]; simp only [List.length_take]; split <;> omega
  apply bytes_append
  · split
    · apply bytes_append _ (bytes_be32 _)
      intro x hx; simp at hx; rcases hx with rfl | rfl | rfl | rfl <;> omega
    · intro x hx; simp at hx
  · split
    · apply bytes_append _ (blocksBytes_bytes _)
      intro x hx
      simp at hx
      rcases hx with rfl | rfl | rfl <;> omega
    · intro x hx; simp at hx

/-- **C06 (TCP, connected state)**: whatever the endpoint's timestamp / SACK state, a segment `sendTCP` builds with
the options `makeOptions` produces passes the RFC validator -/
theorem tcp_segment_with_made_options_valid (e : Model.Tcp.Ep) (withSack : Bool) (src dst : List Nat) (sp dp seq ack flags wnd : Nat) (payload : List Nat)
    (hsb : C15.Bytes src) (hdb : C15.Bytes dst) (hpb : C15.Bytes payload) (hl : src.length = dst.length) (h416 : src.length = 4 ∨ src.length = 16)
    (hsp : sp < 65536) (hdp : dp < 65536) (hseq : seq < 4294967296) (hack : ack < 4294967296) (hfl : flags < 256)
    (hlen : 60 + payload.length ≤ 65535) :
    checkTCP src dst (tcpSegment src dst sp dp seq ack flags wnd (Model.Tcp.makeOptions e withSack) payload) = [] := by
  obtain ⟨k, hk, hk10, hopt⟩ := makeOptions_wellformed e withSack
  exact tcp_segment_valid src dst sp dp seq ack flags wnd _ payload k hsb hdb hpb (makeOptions_bytes e withSack) hl h416 hsp hdp hseq hack hfl hk hk10 hopt (by omega)

/-! ## the IPv4 identifier -/

/-- consecutive values of the per-flow counter differ in the 16 bits that reach the header -/
theorem consecutive_ids_differ (c : Nat) : (c + 1) % 65536 ≠ c % 65536 := by omega

/-- ... and the identifier of a large packet is that counter, incremented atomically (statements regenerated from
the source on every run) -/
theorem id_statements_pinned :
    Gen.Shapes.ipv4_id_alloc = ["v8 := uint32(0)", "v8 = atomic.AddUint32(&ids[hashRoute(v1, v4)%buckets], 1)", "v6.Encode(&header.IPv4Fields{ IHL: header.IPv4MinimumSize, TotalLength: v7, ID: uint16(v8), TTL: v5, Protocol: uint8(v4), SrcAddr: v1.LocalAddress, DstAddr: v1.RemoteAddress, })"] := by
  decide

/-- non-vacuity: a concrete datagram with an odd payload passes, and flipping one payload bit makes it fail -/
example : checkIPv4 (ipv4Packet 7 64 17 [10, 0, 0, 1] [10, 0, 0, 9] (udpDatagram [10, 0, 0, 1] [10, 0, 0, 9] 4000 53 [1, 2, 3])) = [] := by decide
example : checkIPv4 ((ipv4Packet 7 64 17 [10, 0, 0, 1] [10, 0, 0, 9] (udpDatagram [10, 0, 0, 1] [10, 0, 0, 9] 4000 53 [1, 2, 3])).set 30 9) = ["udp.checksum"] := by decide

end Props.C06
