import NetProto.Generated.Shapes
import NetProto.Model.TMutex
/-!
# C18 — the try-lock mutex: mutual exclusion and no lost wake-up, for any number of threads
-/
namespace C18
open Model.TMutex

/-! ## Tie to the source: the synchronisation skeleton of each method, regenerated on every run -/

def expect_Init : List String :=
  ["assign[v0 v]", "call[make(,1)]", "assign[v0 ch]"]
def expect_Lock : List String :=
  ["if[(==) atomic AddInt32 & v0 v - 1 0]", "call[atomic AddInt32(& v0 v,- 1)]", "then", "ret[]", "fi", "for",
   "if[(&&) (>=) v1 0 (==) atomic SwapInt32 & v0 v - 1 1]", "call[atomic LoadInt32(& v0 v)]", "assign[v1]",
   "call[atomic SwapInt32(& v0 v,- 1)]", "then", "ret[]", "fi", "recv[v0 ch]", "rof"]
def expect_TryLock : List String :=
  ["call[atomic LoadInt32(& v0 v)]", "assign[v1]", "if[(<=) v1 0]", "then", "ret[false]", "fi",
   "call[atomic CompareAndSwapInt32(& v0 v,1,0)]", "ret[atomic CompareAndSwapInt32 & v0 v 1 0]"]
def expect_Unlock : List String :=
  ["if[(==) atomic SwapInt32 & v0 v 1 0]", "call[atomic SwapInt32(& v0 v,1)]", "then", "ret[]", "fi", "select",
   "send[v0 ch]", "default", "tceles"]

/-- the atomic-operation skeleton the model was written against is the one the code has now
    (operations, operands, comparison constants, control structure, channel capacity) -/
theorem ir_eq :
    Gen.Shapes.tmutex_Init = expect_Init ∧ Gen.Shapes.tmutex_Lock = expect_Lock ∧
    Gen.Shapes.tmutex_TryLock = expect_TryLock ∧ Gen.Shapes.tmutex_Unlock = expect_Unlock ∧
    Gen.Shapes.tmutex_chancap_ch = 1 := by decide

/-! ## Counting threads per program point -/

def cnt (p : PC) (l : List PC) : Nat := (l.filter (· == p)).length

theorem cnt_cons (p q : PC) (l : List PC) : cnt p (q :: l) = (if q = p then 1 else 0) + cnt p l := by
  unfold cnt
  by_cases h : q = p
  · subst h; simp [List.filter_cons]; omega
  · have : (q == p) = false := by simpa using h
    simp [List.filter_cons, this, h]

theorem cnt_set (l : List PC) (i : Nat) (p p' q : PC) (h : l[i]? = some p) :
    cnt q (l.set i p') + (if p = q then 1 else 0) = cnt q l + (if p' = q then 1 else 0) := by
  induction l generalizing i with
  | nil => simp at h
  | cons x t ih =>
    cases i with
    | zero =>
      simp at h; subst h
      simp only [List.set_cons_zero, cnt_cons]; omega
    | succ j =>
      simp at h
      simp only [List.set_cons_succ, cnt_cons]
      have := ih j h
      omega

/-- threads that own the mutex: between operations, or about to execute Unlock's swap -/
def holders (s : St) : Nat := cnt .held s.pcs + cnt .us s.pcs

/-- **Inv1** -/
def Inv1 (s : St) : Prop := (holders s = 0 ∧ s.v = 1) ∨ (holders s = 1 ∧ s.v ≤ 0)

/-- **Inv2**: a blocked `Lock` is never forgotten -/
def Inv2 (s : St) : Prop :=
  0 < cnt .lr s.pcs → (s.v < 0 ∨ s.tok = true ∨ 0 < cnt .ud s.pcs ∨ 0 < cnt .ll s.pcs ∨ 0 < cnt .ls s.pcs)

theorem inv_init (n : Nat) : Inv1 { pcs := List.replicate n .idle } ∧ Inv2 { pcs := List.replicate n .idle } := by
  have h : ∀ p : PC, p ≠ .idle → cnt p (List.replicate n PC.idle) = 0 := by
    intro p hp
    induction n with
    | zero => simp [cnt]
    | succ k ih => rw [List.replicate_succ, cnt_cons]; simp [ih, Ne.symm hp]
  constructor
  · left; simp [holders, h]
  · intro hl; simp [h] at hl

theorem cnt_app (p : PC) (a b : List PC) : cnt p (a ++ b) = cnt p a + cnt p b := by
  simp [cnt, List.filter_append]

theorem split_at (l : List PC) (i : Nat) (p : PC) (h : l[i]? = some p) :
    ∃ pre post, l = pre ++ p :: post ∧ ∀ p', l.set i p' = pre ++ p' :: post := by
  induction l generalizing i with
  | nil => simp at h
  | cons x t ih =>
    cases i with
    | zero => simp at h; subst h; exact ⟨[], t, rfl, fun _ => rfl⟩
    | succ j =>
      simp at h
      obtain ⟨pre, post, e1, e2⟩ := ih j h
      exact ⟨x :: pre, post, by simp [e1], fun p' => by simp [e2]⟩

/-- one atomic step of any thread, any surrounding threads -/
theorem inv_pc (pre post : List PC) (v : Int) (tok : Bool) (pc : PC) (he : enabled tok pc = true)
    (h1 : Inv1 ⟨v, tok, pre ++ pc :: post⟩) (h2 : Inv2 ⟨v, tok, pre ++ pc :: post⟩) :
    Inv1 ⟨(stepPC v tok pc).1, (stepPC v tok pc).2.1, pre ++ (stepPC v tok pc).2.2.1 :: post⟩ ∧
    Inv2 ⟨(stepPC v tok pc).1, (stepPC v tok pc).2.1, pre ++ (stepPC v tok pc).2.2.1 :: post⟩ := by
  cases tok <;> cases pc <;> simp only [stepPC] <;> (try split) <;>
    (simp only [Inv1, Inv2, holders, cnt_app, cnt_cons, enabled] at *; simp at * <;> omega)

theorem inv_step (s : St) (i : Nat) (h1 : Inv1 s) (h2 : Inv2 s) :
    Inv1 (s.step i).1 ∧ Inv2 (s.step i).1 := by
  unfold St.step
  cases hp : s.pcs[i]? with
  | none => exact ⟨h1, h2⟩
  | some pc =>
    simp only
    by_cases he : enabled s.tok pc = true
    · simp only [he, if_true]
      obtain ⟨pre, post, e1, e2⟩ := split_at s.pcs i pc hp
      obtain ⟨v, tok, pcs⟩ := s
      simp only at e1 e2 he ⊢
      subst e1
      rw [e2]
      exact inv_pc pre post v tok pc he h1 h2
    · simp only [he, Bool.false_eq_true, if_false]
      exact ⟨h1, h2⟩

theorem inv_start (s : St) (i : Nat) (c : Call) (h1 : Inv1 s) (h2 : Inv2 s) :
    Inv1 (s.start i c) ∧ Inv2 (s.start i c) := by
  unfold St.start
  cases hp : s.pcs[i]? with
  | none => exact ⟨h1, h2⟩
  | some pc =>
    obtain ⟨pre, post, e1, e2⟩ := split_at s.pcs i pc hp
    obtain ⟨v, tok, pcs⟩ := s
    simp only at e1 e2 ⊢
    subst e1
    cases tok <;> cases pc <;> cases c <;> simp only [e2] <;>
      first
      | exact ⟨h1, h2⟩
      | (simp only [Inv1, Inv2, holders, cnt_app, cnt_cons] at *; simp at * <;> omega)

/-- **Every reachable state satisfies both invariants** — any number of threads, any interleaving
    of their atomic operations, any sequence of Lock/TryLock/Unlock calls (Unlock by the holder). -/
theorem reachable_inv (n : Nat) (acts : List Act) :
    Inv1 (acts.foldl St.act { pcs := List.replicate n .idle }) ∧
    Inv2 (acts.foldl St.act { pcs := List.replicate n .idle }) := by
  suffices h : ∀ s, Inv1 s → Inv2 s → Inv1 (acts.foldl St.act s) ∧ Inv2 (acts.foldl St.act s) from
    h _ (inv_init n).1 (inv_init n).2
  induction acts with
  | nil => intro s h1 h2; exact ⟨h1, h2⟩
  | cons a t ih =>
    intro s h1 h2
    simp only [List.foldl_cons]
    cases a with
    | start i c => exact ih _ (inv_start s i c h1 h2).1 (inv_start s i c h1 h2).2
    | step i => exact ih _ (inv_step s i h1 h2).1 (inv_step s i h1 h2).2

/-- **Mutual exclusion**: at most one goroutine holds the mutex, in every reachable state. -/
theorem mutual_exclusion (n : Nat) (acts : List Act) :
    holders (acts.foldl St.act { pcs := List.replicate n .idle }) ≤ 1 := by
  have := (reachable_inv n acts).1
  unfold Inv1 at this
  omega

/-- **No lost wake-up**: whenever a `Lock` is blocked on the channel and the mutex is free, either the
    wake-up token is already there (the blocked thread is enabled) or another thread is on its way
    (between Unlock's swap and its send, or a contender between its load/swap) — the state is not stuck. -/
theorem not_stuck (s : St) (h1 : Inv1 s) (h2 : Inv2 s) (hw : 0 < cnt .lr s.pcs) (hfree : holders s = 0) :
    s.tok = true ∨ 0 < cnt .ud s.pcs ∨ 0 < cnt .ll s.pcs ∨ 0 < cnt .ls s.pcs := by
  unfold Inv1 Inv2 at *
  rcases h2 hw with h | h | h | h | h
  · rcases h1 with ⟨_, hv⟩ | ⟨hc, _⟩ <;> omega
  · exact Or.inl h
  · exact Or.inr (Or.inl h)
  · exact Or.inr (Or.inr (Or.inl h))
  · exact Or.inr (Or.inr (Or.inr h))

theorem not_stuck_reachable (n : Nat) (acts : List Act)
    (hw : 0 < cnt .lr (acts.foldl St.act { pcs := List.replicate n .idle }).pcs)
    (hfree : holders (acts.foldl St.act { pcs := List.replicate n .idle }) = 0) :
    let s := acts.foldl St.act { pcs := List.replicate n .idle }
    s.tok = true ∨ 0 < cnt .ud s.pcs ∨ 0 < cnt .ll s.pcs ∨ 0 < cnt .ls s.pcs :=
  not_stuck _ (reachable_inv n acts).1 (reachable_inv n acts).2 hw hfree

/-- an unlock that finds waiters (old value ≠ 0) always goes on to send the token -/
theorem unlock_signals (v : Int) (tok : Bool) (h : v ≠ 0) : (stepPC v tok .us).2.2.1 = .ud ∧ (stepPC v tok .ud).2.1 = true := by
  simp [stepPC, h]

/-! ## TryLock -/

/-- TryLock never blocks: both of its points are always enabled -/
theorem tryLock_nonblocking (tok : Bool) : enabled tok .tl = true ∧ enabled tok .tc = true := by
  simp [enabled]

/-- TryLock reports success only by acquiring: the CAS 1→0, at which moment nobody held the mutex -/
theorem tryLock_sound (s : St) (i : Nat) (h1 : Inv1 s) (hev : (s.step i).2 = .tryTrue) :
    s.pcs[i]? = some .tc ∧ s.v = 1 ∧ holders s = 0 ∧ (s.step i).1.v = 0 := by
  unfold St.step at hev ⊢
  cases hp : s.pcs[i]? with
  | none => simp [hp] at hev
  | some pc =>
    simp only [hp] at hev ⊢
    by_cases he : enabled s.tok pc = true
    · simp only [he, if_true] at hev ⊢
      cases pc <;> simp only [stepPC] at hev ⊢ <;> (try split at hev) <;> simp at hev
      rename_i hv
      unfold Inv1 at h1
      refine ⟨trivial, hv, by omega, ?_⟩
      simp [hv]
    · simp [he] at hev

/-- TryLock succeeds whenever the mutex is free and nobody else moves between its load and its CAS -/
theorem tryLock_complete (s : St) (i : Nat) (hi : s.pcs[i]? = some .tl) (hv : s.v = 1) :
    ((s.step i).1.step i).2 = .tryTrue := by
  obtain ⟨pre, post, e1, e2⟩ := split_at s.pcs i .tl hi
  have hlen : i < s.pcs.length := by
    rcases Nat.lt_or_ge i s.pcs.length with h | h
    · exact h
    · simp [List.getElem?_eq_none h] at hi
  have h1 : s.step i = ({ v := s.v, tok := s.tok, pcs := s.pcs.set i .tc }, .none) := by
    unfold St.step
    simp only [hi, enabled, if_true, stepPC]
    have : ¬ s.v ≤ 0 := by omega
    simp [this]
  rw [h1]
  unfold St.step
  have h2 : (s.pcs.set i .tc)[i]? = some .tc := by simp [hlen]
  simp only [h2, enabled, if_true, stepPC, hv]

/-- non-vacuity: three threads; 0 locks, 1 contends and blocks, 0 unlocks and signals, 1 acquires -/
example :
    let acts : List Act := [.start 0 .lock, .step 0, .start 1 .lock, .step 1, .step 1, .step 1,
      .start 0 .unlock, .step 0, .step 0, .step 1, .step 1, .step 1]
    let s := acts.foldl St.act { pcs := List.replicate 3 .idle }
    s.pcs = [.idle, .held, .idle] ∧ s.v = -1 := by decide

end C18
