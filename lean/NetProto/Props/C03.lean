import NetProto.Props.TcpReach
/-! # C03 — connections exist only after a correct handshake; strays are reset

Model: `Model/Tcp.lean` (handshake state machine `Hs.handle`, `replyWithReset`, the connected endpoint) and
`Model/TcpStack.lean` (demultiplexer, listener in normal and SYN-cookie mode, accept queue), tied to the
real stack by the trace correspondence of the TCP world. -/
namespace Props.C03
open Model.Tcp Props.TcpReach


theorem completes_only_on_exact_ack (h : Hs) (s : InSeg) (n : Nat)
    (hne : h.state ≠ .completed) (hc : (h.handle s n).1.state = .completed) :
    has s.flags fAck = true ∧ s.ack = addS h.iss 1 ∧ has s.flags fRst = false := by
  unfold Hs.handle at hc
  cases hst : h.state with
  | completed => exact absurd hst hne
  | failed => simp [hst] at hc
  | synSent =>
    simp only [hst] at hc
    split at hc
    · split at hc <;> simp_all
    · split at hc
      · simp_all
      · split at hc
        · simp_all
        · split at hc
          · rename_i h1 h2 h3 h4
            simp at h2
            simp_all
          · simp_all
  | synRcvd =>
    simp only [hst] at hc
    split at hc
    · split at hc <;> simp_all
    · split at hc
      · simp_all
      · split at hc
        · split at hc <;> simp_all
        · split at hc
          · split at hc
            · simp_all
            · rename_i h1 h2 h3 h4 h5
              simp at h2
              simp_all
          · simp_all

/-- handshakes in progress are in progress -/
def HsInv (st : St) : Prop := ∀ x ∈ st.hs, x.2.state ≠ .completed

theorem no_socket_reset (st : St) (sp dp : Nat) (seg : InSeg) (l : Nat) (hp : dp ≠ listenPort)
    (hr : has seg.flags fRst = false) :
    segStep st sp dp seg l =
      (st, [⟨fRst ||| fAck, (if has seg.flags fAck then seg.ack else 0), addS seg.seq seg.logicalLen, 0, [], []⟩]) := by
  unfold segStep
  simp [hp, rstOut, replyWithReset, hr]

theorem listenStep_grow (st : St) (sp : Nat) (seg : InSeg) (l : Nat)
    (hg : (listenStep st sp seg l).1.acceptQ.length ≠ st.acceptQ.length) :
    seg.flags = fAck ∧ ∃ c ∈ st.cookies, cookieMatches sp seg c = true := by
  unfold listenStep at hg
  split at hg
  · split at hg <;> simp at hg
  · split at hg
    · rename_i hf
      split at hg
      · rename_i c hc
        exact ⟨by simpa using hf, c, List.mem_of_find?_eq_some hc, List.find?_some hc⟩
      · simp at hg
    · split at hg <;> simp at hg

/-- the accept queue grows only when a handshake in progress receives the acknowledgement of exactly the
sequence number chosen for it, or (SYN-cookie mode) the acknowledgement passes the cookie test -/
theorem accept_queue_grows_only_by_handshake (st : St) (hinv : HsInv st) (sp dp : Nat) (seg : InSeg) (l : Nat)
    (hg : (segStep st sp dp seg l).1.acceptQ.length ≠ st.acceptQ.length) :
    has seg.flags fAck = true ∧
      ((∃ x ∈ st.hs, x.1 = sp ∧ seg.ack = addS x.2.iss 1 ∧ has seg.flags fRst = false) ∨
       (∃ c ∈ st.cookies, cookieMatches sp seg c = true)) := by
  unfold segStep at hg
  split at hg
  · simp at hg
  · split at hg
    · split at hg <;> simp [setEp] at hg
    · split at hg
      · unfold activeSeg at hg
        simp only at hg
        split at hg
        · simp [setEp] at hg
        · split at hg <;> simp [setEp] at hg
      · split at hg
        · rename_i ph hph
          unfold passiveSeg at hg
          simp only at hg
          split at hg
          · rename_i hc
            have hm : ph ∈ st.hs := List.mem_of_find?_eq_some hph
            have hp : ph.1 = sp := by simpa using List.find?_some hph
            have := completes_only_on_exact_ack ph.2 seg l (hinv ph hm) (by simpa using hc)
            exact ⟨this.1, Or.inl ⟨ph, hm, hp, this.2.1, this.2.2⟩⟩
          · split at hg <;> simp at hg
        · split at hg
          · have := listenStep_grow st sp seg l hg
            refine ⟨by rw [this.1]; decide, Or.inr this.2⟩
          · split at hg
            · simp [queueSeg] at hg
            · simp at hg

theorem listenStep_hsInv (st : St) (sp : Nat) (seg : InSeg) (l : Nat) (h : HsInv st) : HsInv (listenStep st sp seg l).1 := by
  unfold listenStep
  split
  · split
    · intro x hx
      simp only [List.mem_append, List.mem_singleton] at hx
      rcases hx with hx | hx
      · exact h x hx
      · subst hx; simp
    · exact h
  · split
    · split <;> exact h
    · split <;> exact h

theorem segStep_hsInv (st : St) (sp dp : Nat) (seg : InSeg) (l : Nat) (h : HsInv st) : HsInv (segStep st sp dp seg l).1 := by
  unfold segStep
  split
  · exact h
  · split
    · split
      · exact h
      · exact h
    · split
      · unfold activeSeg
        simp only
        split
        · exact h
        · split <;> exact h
      · split
        · unfold passiveSeg
          simp only
          have hf : ∀ x ∈ st.hs.filter (·.1 != sp), x.2.state ≠ .completed := fun x hx => h x (List.mem_filter.mp hx).1
          split
          · exact hf
          · split
            · exact hf
            · rename_i hc _
              intro x hx
              simp only [List.mem_append, List.mem_singleton] at hx
              rcases hx with hx | hx
              · exact hf x hx
              · subst hx; simpa using hc
        · split
          · exact listenStep_hsInv _ _ _ _ h
          · split
            · exact h
            · exact h

theorem stackStep_hsInv (st : St) (op : Op) (h : HsInv st) : HsInv (stackStep st op).1 := by
  cases op with
  | listen => exact h
  | cookieMode on => exact h
  | connect i iss => exact h
  | seg sp dp s l => exact segStep_hsInv _ _ _ _ _ h
  | accept =>
    simp only [stackStep, acceptStep]
    split
    · rename_i r hr
      split at hr
      · cases hr
      · cases hr; exact h
    · exact h
  | write i d =>
    simp only [stackStep, writeStep]
    split
    · rename_i r hr
      split at hr
      · cases hr; exact h
      · cases hr
    · exact h
  | read i =>
    simp only [stackStep, readStep]
    split
    · rename_i r hr
      split at hr
      · cases hr; exact h
      · cases hr
    · exact h
  | shutdownWrite i =>
    simp only [stackStep, shutdownStep]
    split
    · rename_i r hr
      split at hr
      · split at hr
        · cases hr; exact h
        · cases hr; exact h
      · cases hr
    · exact h
  | timer i =>
    simp only [stackStep, timerStep]
    split
    · rename_i r hr
      split at hr
      · cases hr; exact h
      · cases hr
    · exact h

theorem run_hsInv (c : Cfg) (ops : List Op) : HsInv (run c ops).1 := by
  unfold run
  have gen : ∀ (acc : St × List OutSeg), HsInv acc.1 →
      HsInv (ops.foldl (fun acc op => let r := stackStep acc.1 op; (r.1, acc.2 ++ r.2)) acc).1 := by
    induction ops with
    | nil => intro acc h; exact h
    | cons op rest ih =>
      intro acc h
      simp only [List.foldl_cons]
      exact ih _ (stackStep_hsInv _ _ h)
  apply gen
  intro x hx; simp at hx

/-- the cookie test accepts exactly the acknowledgements whose distance `k` (mod 2^32) from cookie+1 keeps
the encoded MSS index inside the table: `index + k < 4` -/
theorem cookie_accepts_iff (sp : Nat) (seg : InSeg) (p irs ck mi : Nat) :
    cookieMatches sp seg (p, irs, ck, mi) = true ↔
      (p = sp ∧ addS irs 1 = seg.seq ∧ (mi + sizeS (addS ck 1) seg.ack) % 4294967296 < 4) := by
  simp [cookieMatches, and_assoc]

/-- an exact acknowledgement of a cookie always passes -/
theorem cookie_exact_passes (sp : Nat) (seg : InSeg) (irs ck mi : Nat) (hmi : mi < 4)
    (hs : seg.seq = addS irs 1) (ha : seg.ack = addS ck 1) :
    cookieMatches sp seg (sp, irs, ck, mi) = true := by
  rw [cookie_accepts_iff]
  refine ⟨rfl, hs.symm, ?_⟩
  rw [ha]
  have : sizeS (addS ck 1) (addS ck 1) = 0 := by
    unfold sizeS addS M
    omega
  rw [this]
  omega

/-- KNOWN FINDING (c03.cookie-ack-offset): the test is not exact -- an acknowledgement one beyond the cookie
passes when the SYN announced a small MSS (index 0), and the connection then uses the next larger MSS -/
theorem cookie_offset_witness :
    cookieMatches 40000 ⟨fAck, 1001, 5002, 1000, [], []⟩ (40000, 1000, 5000, 0) = true ∧
    (5002 : Nat) ≠ addS 5000 1 ∧
    (cookieEp {} (40000, 1000, 5000, 0) ⟨fAck, 1001, 5002, 1000, [], []⟩).snd.maxPayload = 1300 := by
  decide


/-- active open: completes only on a SYN-ACK acknowledging exactly its SYN -/
theorem active_completes_only_on_exact_synack (h : Hs) (s : InSeg) (n : Nat)
    (hs : h.state = .synSent) (hc : (h.handle s n).1.state = .completed) :
    has s.flags fSyn = true ∧ has s.flags fAck = true ∧ s.ack = addS h.iss 1 ∧ has s.flags fRst = false := by
  unfold Hs.handle at hc
  simp only [hs] at hc
  split at hc
  · split at hc <;> simp_all
  · split at hc
    · simp_all
    · split at hc
      · simp_all
      · split at hc
        · rename_i h1 h2 h3 h4
          simp at h2
          simp_all
        · simp_all

/-- a handshake segment acknowledging anything else: exactly one reset whose sequence number is that
acknowledgement number, and the handshake makes no progress -/
theorem wrong_ack_is_reset (h : Hs) (s : InSeg) (n : Nat)
    (hs : h.state = .synRcvd ∨ h.state = .synSent) (hr : has s.flags fRst = false)
    (ha : has s.flags fAck = true) (hne : s.ack ≠ addS h.iss 1) :
    ∃ r, (h.handle s n).2 = [r] ∧ has r.flags fRst = true ∧ r.seq = s.ack ∧ r.data = [] ∧
      (h.handle s n).1.state = h.state ∧ (h.handle s n).1.iss = h.iss := by
  have hf : has (fRst ||| fAck) fRst = true := by decide
  unfold Hs.handle
  rcases hs with hs | hs <;> simp [hs, hr, ha, hne, hsRst, hf]

/-- a finished handshake ignores everything -/
theorem hs_done_inert (h : Hs) (s : InSeg) (n : Nat) (hd : h.state = .completed ∨ h.state = .failed) :
    (h.handle s n).2 = [] := by
  unfold Hs.handle
  rcases hd with hd | hd <;> simp [hd]


def AckSync (e : Ep) : Prop := e.rcv.rcvNxt = e.snd.maxSentAck
def Quiet (e : Ep) : Prop := e.done = true ∨ AckSync e

theorem getSendParams_frame (e : Ep) : (getSendParams e).1.rcv.rcvNxt = e.rcv.rcvNxt ∧ (getSendParams e).2.1 = e.rcv.rcvNxt
    ∧ (getSendParams e).1.snd = e.snd ∧ (getSendParams e).1.done = e.done := by
  unfold getSendParams
  simp only
  split <;> simp

theorem sendSegment_snd (e : Ep) (d : List Nat) (f q : Nat) :
    (sendSegment e d f q).1.snd = { e.snd with maxSentAck := e.rcv.rcvNxt } ∧ (sendSegment e d f q).1.done = e.done
    ∧ (sendSegment e d f q).1.rcv.rcvNxt = e.rcv.rcvNxt := by
  have h := getSendParams_frame e
  unfold sendSegment
  simp [h.1, h.2.1, h.2.2.1, h.2.2.2]

theorem bumpNxt_maxSentAck (s : Snd) (x : Nat) : (s.bumpNxt x).maxSentAck = s.maxSentAck := by
  unfold Snd.bumpNxt; split <;> rfl

theorem emitAt_sync (e : Ep) (seg : WSeg) (x : Nat) : AckSync (emitAt e seg x).1 ∧ (emitAt e seg x).1.done = e.done := by
  have h := sendSegment_snd e seg.data seg.flags seg.seq
  simp [emitAt, AckSync, bumpNxt_maxSentAck, h.1, h.2.2, h.2.1]

/-- what one loop iteration keeps: the `done` flag, and `AckSync` once it holds -/
def Keeps (e e' : Ep) : Prop := e'.done = e.done ∧ (AckSync e → AckSync e')

theorem Keeps.refl (e : Ep) : Keeps e e := ⟨rfl, id⟩
theorem Keeps.trans {a b c : Ep} (h1 : Keeps a b) (h2 : Keeps b c) : Keeps a c :=
  ⟨h2.1.trans h1.1, fun h => h2.2 (h1.2 h)⟩

theorem sendStep_keeps (e : Ep) (i : Nat) :
    (∀ e', sendStep e i = .stop e' → Keeps e e') ∧ (∀ e' o, sendStep e i = .sent e' o → Keeps e e') := by
  unfold sendStep
  constructor
  · intro e' he
    split at he
    · cases he; exact ⟨rfl, by simp [AckSync, Ep.setWriteNext]⟩
    · split at he
      · cases he; exact ⟨rfl, by simp [AckSync, Ep.setWriteNext]⟩
      · simp only at he
        split at he
        · cases he
        · split at he
          · cases he; exact ⟨rfl, by simp [AckSync]⟩
          · cases he
  · intro e' o he
    split at he
    · cases he
    · split at he
      · cases he
      · simp only at he
        split at he
        · cases he; exact ⟨(emitAt_sync _ _ _).2, fun _ => (emitAt_sync _ _ _).1⟩
        · split at he
          · cases he
          · cases he; exact ⟨(emitAt_sync _ _ _).2, fun _ => (emitAt_sync _ _ _).1⟩

theorem sendDataLoop_keeps (fuel : Nat) (e : Ep) (i : Nat) (out : List OutSeg) :
    Keeps e (sendDataLoop fuel e i out).1 := by
  induction fuel generalizing e i out with
  | zero => exact ⟨rfl, by simp [sendDataLoop, AckSync, Ep.setWriteNext]⟩
  | succ n ih =>
    unfold sendDataLoop
    have hs := sendStep_keeps e i
    split
    · rename_i e' heq; exact hs.1 _ heq
    · rename_i e' o heq; exact (hs.2 _ _ heq).trans (ih _ _ _)

theorem sendData_keeps (e : Ep) : Keeps e (sendData e).1 := by
  have := sendDataLoop_keeps (sendFuel e.snd + 1) e e.snd.writeNext []
  unfold sendData
  simp only [Keeps, AckSync] at *
  split <;> simpa using this

theorem sendAck_sync (e : Ep) : AckSync (sendAck e).1 ∧ (sendAck e).1.done = e.done := by
  have h := sendSegment_snd e [] fAck e.snd.sndNxt
  simp [sendAck, AckSync, h.1, h.2.1, h.2.2]

theorem closeIfDone_quiet (e : Ep) (h : Quiet e) : Quiet (closeIfDone e) := by
  unfold closeIfDone
  split
  · exact Or.inl rfl
  · exact h

theorem finishBatch_quiet (e : Ep) (out : List OutSeg) (r : Bool) : Quiet (finishBatch e out r).1 := by
  unfold finishBatch
  split
  · exact Or.inl rfl
  · split
    · exact closeIfDone_quiet _ (Or.inr (sendAck_sync e).1)
    · rename_i h
      exact closeIfDone_quiet _ (Or.inr (by simpa [AckSync] using h))

theorem handleSegmentsLoop_quiet (fuel : Nat) (e : Ep) (l : List InSeg) (h : Quiet e) : Quiet (handleSegmentsLoop fuel e l).1 := by
  induction fuel generalizing e l with
  | zero => exact h
  | succ k ih =>
    unfold handleSegmentsLoop
    split
    · exact h
    · simp only
      split
      · exact finishBatch_quiet _ _ _
      · exact ih _ _ (finishBatch_quiet _ _ _)

theorem handleSegments_quiet (e : Ep) (l : List InSeg) (h : Quiet e) : Quiet (handleSegments e l).1 :=
  handleSegmentsLoop_quiet _ e l h

theorem keeps_quiet {e e' : Ep} (k : Keeps e e') (h : Quiet e) : Quiet e' := by
  rcases h with h | h
  · exact Or.inl (k.1.trans h)
  · exact Or.inr (k.2 h)

theorem quiet_of_frame {e e' : Ep} (h : Quiet e) (h1 : e'.done = e.done) (h2 : e'.rcv.rcvNxt = e.rcv.rcvNxt)
    (h3 : e'.snd.maxSentAck = e.snd.maxSentAck) : Quiet e' := by
  rcases h with h | h
  · exact Or.inl (h1.trans h)
  · exact Or.inr (by simp only [AckSync] at *; rw [h2, h3]; exact h)

theorem appWrite_quiet (e : Ep) (d : List Nat) (h : Quiet e) : Quiet (appWrite e d).1 := by
  unfold appWrite
  split; exact h
  split; exact h
  split; exact h
  split; exact h
  exact keeps_quiet (sendData_keeps _) (quiet_of_frame h rfl rfl rfl)

theorem appRead_quiet (e : Ep) (h : Quiet e) : Quiet (appRead e).1 := by
  unfold appRead
  split; exact h
  split; exact h
  split; exact h
  simp only
  have hq : ∀ (rest : List (List Nat)) (n : Nat), Quiet { e with rcvList := rest, rcvBufUsed := n } := by
    intro rest n
    rcases h with h | h
    · exact Or.inl h
    · exact Or.inr (by simpa [AckSync] using h)
  split
  · split
    · exact hq _ _
    · exact Or.inr (sendAck_sync _).1
  · exact hq _ _

theorem appShutdownWrite_quiet (e : Ep) (h : Quiet e) : Quiet (appShutdownWrite e).1 := by
  unfold appShutdownWrite
  split; exact h
  apply closeIfDone_quiet
  have hq := keeps_quiet (sendData_keeps (queueFin e)) (quiet_of_frame h rfl rfl rfl)
  exact quiet_of_frame hq rfl rfl rfl

theorem rtoState_maxSentAck (s : Snd) : (rtoState s).maxSentAck = s.maxSentAck := by
  unfold rtoState
  simp only
  split <;> rfl

theorem timerEvent_quiet (e : Ep) (h : Quiet e) : Quiet (timerEvent e).1 := by
  unfold timerEvent
  split; exact h
  unfold retransmitTimerExpired
  split; exact h
  exact keeps_quiet (sendData_keeps _) (quiet_of_frame h rfl rfl (rtoState_maxSentAck _))

theorem quiet_inv : EpInv Quiet where
  fresh := by intros; exact Or.inr rfl
  dflt := Or.inr rfl
  failed := by intro err; exact Or.inl rfl
  segs := handleSegments_quiet
  write := appWrite_quiet
  read := appRead_quiet
  shut := appShutdownWrite_quiet
  timer := timerEvent_quiet

theorem handleSegments_short (e : Ep) (l : List InSeg) (hd : e.done = false) (hl : l.length ≤ maxSegmentsPerWake) :
    handleSegments e l = finishBatch (handleBatch e l).1 (handleBatch e l).2.1 (handleBatch e l).2.2 := by
  unfold handleSegments
  rw [handleSegmentsLoop]
  simp only [hd, Bool.false_eq_true, ↓reduceIte, hl]
  rw [List.take_of_length_le hl]

theorem handleCore_rst (e : Ep) (seg : InSeg) (hr : has seg.flags fRst = true) :
    handleCore e seg = (e, [], acceptable e.rcv seg.seq 0) := by
  unfold handleCore
  simp only [hr, ↓reduceIte]

theorem handleBatch_single (e : Ep) (seg : InSeg) :
    handleBatch e [seg] = ((handleCore e seg).1, (handleCore e seg).2.1, (handleCore e seg).2.2) := by
  simp only [handleBatch]
  split
  · rfl
  · rename_i h; simp; simpa using h

theorem ep_rst_not_answered (e : Ep) (seg : InSeg) (hq : Quiet e) (hr : has seg.flags fRst = true) :
    (handleSegment e seg).2 = [] := by
  unfold handleSegment
  cases hd : e.done with
  | true => unfold handleSegments; rw [handleSegmentsLoop]; simp [hd]
  | false =>
    have hs : AckSync e := by rcases hq with h | h; simp [hd] at h; exact h
    rw [handleSegments_short e [seg] hd (by simp [maxSegmentsPerWake]), handleBatch_single, handleCore_rst e seg hr]
    simp only
    unfold finishBatch
    split
    · rfl
    · split
      · rename_i h; simp only [AckSync] at hs; simp [hs] at h
      · rfl

theorem rstOut_rst (seg : InSeg) (hr : has seg.flags fRst = true) : rstOut seg = [] := by
  simp [rstOut, replyWithReset, hr]

theorem flags_syn_not_rst (f : Nat) (h : f = fSyn) : has f fRst = false := by subst h; decide
theorem flags_ack_not_rst (f : Nat) (h : f = fAck) : has f fRst = false := by subst h; decide

theorem hs_rst_not_answered (h : Hs) (s : InSeg) (n : Nat) (hr : has s.flags fRst = true) :
    (h.handle s n).2 = [] := by
  unfold Hs.handle
  cases hst : h.state <;> simp [hr] <;> split <;> simp

theorem listenStep_rst (st : St) (sp : Nat) (seg : InSeg) (l : Nat) (hr : has seg.flags fRst = true) :
    (listenStep st sp seg l).2 = [] := by
  unfold listenStep
  split
  · rename_i h; have := flags_syn_not_rst _ (by simpa using h); simp [this] at hr
  · split
    · rename_i h; have := flags_ack_not_rst _ (by simpa using h); simp [this] at hr
    · simp [hr]

/-- a reset is never answered, whatever part of the stack it reaches -/
theorem stack_rst_not_answered (st : St) (hst : StAll Quiet st) (sp dp : Nat) (seg : InSeg) (l : Nat)
    (hr : has seg.flags fRst = true) : (segStep st sp dp seg l).2 = [] := by
  unfold segStep
  split
  · exact rstOut_rst seg hr
  · split
    · rename_i x heq
      split
      · rfl
      · have hm : x ∈ st.eps.zipIdx := List.mem_of_find?_eq_some heq
        have he : Quiet x.1.2 := by
          obtain ⟨⟨p, e⟩, i⟩ := x
          have := List.mem_zipIdx hm
          simp at this
          have hmem : (p, e) ∈ st.eps := by rw [this.2]; exact List.getElem_mem _
          exact hst.1 _ hmem
        exact ep_rst_not_answered _ _ he hr
    · split
      · unfold activeSeg
        simp only
        split
        · exact hs_rst_not_answered _ _ _ hr
        · split <;> exact hs_rst_not_answered _ _ _ hr
      · split
        · unfold passiveSeg
          simp only
          split
          · exact hs_rst_not_answered _ _ _ hr
          · split <;> exact hs_rst_not_answered _ _ _ hr
        · split
          · exact listenStep_rst _ _ _ _ hr
          · split
            · rfl
            · exact rstOut_rst seg hr

/-- ... in every state the stack can reach -/
theorem rst_never_answered (c : Cfg) (ops : List Op) (sp dp : Nat) (seg : InSeg) (l : Nat)
    (hr : has seg.flags fRst = true) : (stackStep (run c ops).1 (.seg sp dp seg l)).2 = [] :=
  stack_rst_not_answered _ (run_all quiet_inv c ops) sp dp seg l hr

end Props.C03
