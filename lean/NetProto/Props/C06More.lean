import NetProto.Props.C06
import NetProto.Props.C13
/-! C06, continued: validity theorems for the frame kinds that `Props/C06.lean` left to the validator -- ARP packets,
Ethernet framing, ICMPv4 echo replies (on top of C13's checksum theorem) and ICMPv6 echo replies over the IPv6
pseudo header.  Neighbour-discovery messages (ICMPv6 NS/NA) remain covered by the validator and the rebuild
correspondence only. -/
namespace Props.C06
open Spec.Rfc Spec.Frame Model.Header Model.Wire
set_option maxRecDepth 10000

/-- **ARP**: requests and replies the stack builds (`arp.LinkAddressRequest`, the reply of `arp.HandlePacket`) are
well-formed RFC 826 packets for IPv4 over Ethernet carrying exactly the four addresses given -/
theorem arp_packet_valid (op : Nat) (sha spa tha tpa : List Nat) (hop : op = 1 ∨ op = 2)
    (h1 : sha.length = 6) (h2 : spa.length = 4) (h3 : tha.length = 6) (h4 : tpa.length = 4) :
    checkARP (arpPacket op sha spa tha tpa) = [] ∧
    (decodeARP (arpPacket op sha spa tha tpa)).map (fun a => (a.op, a.sha, a.spa, a.tha, a.tpa)) = some (op, sha, spa, tha, tpa) := by
  match sha, h1 with
  | [a0, a1, a2, a3, a4, a5], _ =>
  match spa, h2 with
  | [b0, b1, b2, b3], _ =>
  match tha, h3 with
  | [c0, c1, c2, c3, c4, c5], _ =>
  match tpa, h4 with
  | [d0, d1, d2, d3], _ =>
  rcases hop with h | h <;> subst h <;>
    simp [checkARP, arpPacket, arpBuild, setAt, zeros, be16, decodeARP, beVal]

/-- **Ethernet**: the frame the fd-based endpoint writes carries the given addresses and EtherType in front of the
payload, so it validates iff its payload validates as a packet of that EtherType -/
theorem eth_frame_valid (src dst : List Nat) (ty : Nat) (payload : List Nat) (hs : src.length = 6) (hd : dst.length = 6)
    (ht : ty < 65536) :
    checkEth (ethFrame src dst ty payload) = checkNet ty payload ∧
    (decodeEth (ethFrame src dst ty payload)).map (fun e => (e.dst, e.src, e.etherType)) = some (dst, src, ty) := by
  match src, hs with
  | [a0, a1, a2, a3, a4, a5], _ =>
  match dst, hd with
  | [c0, c1, c2, c3, c4, c5], _ =>
  have hb : beVal [ty / 256 % 256, ty % 256] = ty := by simp [beVal]; omega
  have hlen : ¬ (payload.length + 1 + 1 + 1 + 1 + 1 + 1 + 1 + 1 + 1 + 1 + 1 + 1 + 1 + 1 < 14) := by omega
  simp [checkEth, ethFrame, ethEncode, setAt, zeros, be16, decodeEth, hb, hlen]

/-- **ICMPv4 echo reply**: the reply built for any echo request (any payload up to 64 KiB, odd or even length) is a
valid ICMP message: its checksum verifies -/
theorem icmp4_echo_reply_valid (msg : List Nat) (fl : Nat) (r : List Nat) (hb : C15.Bytes msg)
    (hlen : msg.length ≤ 65535) (h : Model.Net.echo4Reply msg fl = some r) : checkICMP4 r = [] := by
  have hv := C13.echo4_checksum_valid msg fl r hb hlen h
  have hm := C13.echo4_mirrors msg fl r h
  unfold checkICMP4
  have hl : ¬ r.length < 4 := by
    unfold Model.Net.echo4Reply at h
    simp only at h
    split at h
    · simp at h
    · split at h
      · simp at h
      · split at h
        · simp at h
        · have := Option.some.inj h
          rw [← this]; simp [be16]
  simp [hl, verifies, hv]

theorem bytes_take {l : List Nat} (n : Nat) (h : C15.Bytes l) : C15.Bytes (l.take n) := fun x hx => h x (List.mem_of_mem_take hx)
theorem bytes_drop {l : List Nat} (n : Nat) (h : C15.Bytes l) : C15.Bytes (l.drop n) := fun x hx => h x (List.mem_of_mem_drop hx)

/-- **ICMPv6 echo reply**: the reply built for any echo request (any payload that fits, odd or even length) is a
valid ICMPv6 message from the pinged address back to the requester: its checksum over the IPv6 pseudo header
verifies -/
theorem icmp6_echo_reply_valid (src dst msg : List Nat) (fl : Nat) (r : List Nat)
    (hsb : C15.Bytes src) (hdb : C15.Bytes dst) (hmb : C15.Bytes msg) (hs : src.length = 16) (hd : dst.length = 16)
    (hlen : msg.length ≤ 65535) (h : Model.Net.echo6Reply src dst msg fl = some r) : checkICMP6 dst src r = [] := by
  unfold Model.Net.echo6Reply at h
  simp only at h
  split at h
  · simp at h
  · split at h
    · simp at h
    · split at h
      · simp at h
      · rename_i h4 h128 h8
        have hr := Option.some.inj h
        clear h
        have hvl : 8 ≤ (msg.take fl).length := by omega
        have hml : 8 ≤ msg.length := by
          have := List.length_take_le' fl msg; omega
        generalize hc : (msg.take fl).getD 1 0 = c at hr
        have hc256 : c < 256 := by
          rw [← hc]
          have hlt : 1 < (msg.take fl).length := by omega
          have : (msg.take fl).getD 1 0 = (msg.take fl)[1]'hlt := by
            rw [List.getD_eq_getElem?_getD, List.getElem?_eq_getElem hlt]; rfl
          rw [this]
          exact bytes_take fl hmb _ (List.getElem_mem _)
        generalize hI : (msg.drop 4).take 4 = I at hr
        have hIl : I.length = 4 := by rw [← hI]; simp; omega
        have hIb : C15.Bytes I := by rw [← hI]; exact bytes_take _ (bytes_drop _ hmb)
        generalize hR : msg.drop 8 = R at hr
        have hRb : C15.Bytes R := by rw [← hR]; exact bytes_drop _ hmb
        have hRl : R.length = msg.length - 8 := by rw [← hR]; simp
        have hlen' : ([129, c, 0, 0] ++ I).length + R.length = 8 + R.length := by simp [hIl]
        rw [hlen'] at hr
        -- the code's chain of checksums, folded
        have hp0b : C15.Bytes ([129, c, 0, 0] ++ I) := bytes_append (by intro x hx; simp at hx; rcases hx with rfl | rfl | rfl <;> omega) hIb
        have h58 : C15.Bytes [0, 0, 0, 58] := by intro x hx; simp at hx; rcases hx with rfl | rfl <;> omega
        have hchain : checksum ([129, c, 0, 0] ++ I) (checksum R (checksum [0, 0, 0, 58] (checksum (be32 (8 + R.length)) (checksum src (checksum dst 0)))))
            = C15.ocRep (C15.wsum dst + C15.wsum src + (8 + R.length) + 58 + C15.wsum R + C15.wsum ([129, c, 0, 0] ++ I)) := by
          rw [checksum_zero dst hdb (by omega), checksum_rep src _ hsb (by omega), checksum_rep _ _ (bytes_be32 _) (by simp [be32]),
            checksum_rep _ _ h58 (by simp), checksum_rep R _ hRb (by omega), checksum_rep _ _ hp0b (by simp [hIl])]
          congr 1
          have w58 : C15.wsum [0, 0, 0, 58] = 58 := by simp [C15.wsum, words]
          rw [wsum_be32 _ (by omega), w58]
          have : (8 + R.length) / 65536 = 0 := Nat.div_eq_of_lt (by omega)
          have : (8 + R.length) % 65536 = 8 + R.length := Nat.mod_eq_of_lt (by omega)
          omega
        rw [hchain] at hr
        generalize hS : C15.wsum dst + C15.wsum src + (8 + R.length) + 58 + C15.wsum R + C15.wsum ([129, c, 0, 0] ++ I) = S at hr
        have hck16 : 65535 - C15.ocRep S < 65536 := by omega
        -- the receiver's sum
        have hrl : r.length = 8 + R.length := by rw [← hr]; simp [be16, hIl]; omega
        unfold checkICMP6
        have hl4 : ¬ r.length < 4 := by omega
        simp only [hl4, if_false]
        have hver : verifies r (pseudoSum dst src protoICMPv6 r.length) = true := by
          unfold verifies
          rw [hrl, pseudoSum_eq dst src protoICMPv6 _ hdb hsb (by omega) (Or.inr hd) (by decide) (by omega)]
          have hrb : C15.Bytes r := by
            rw [← hr]
            exact bytes_append (bytes_append (bytes_append (by intro x hx; simp at hx; rcases hx with rfl | rfl <;> omega) (bytes_be16 _)) hIb) hRb
          rw [ocSum_rep r _ hrb]
          have hw : C15.wsum r = C15.wsum ([129, c, 0, 0] ++ I) + (65535 - C15.ocRep S) + C15.wsum R := by
            rw [← hr]
            rw [wsum_append_even _ R (by simp [be16, hIl]), wsum_append_even _ I (by simp [be16]), wsum_append_even [129, c] _ (by simp),
              wsum_be16 _ hck16, wsum_append_even [129, c, 0, 0] I (by simp)]
            have a : C15.wsum [129, c] = 129 * 256 + c := by simp [C15.wsum, words]
            have b : C15.wsum [129, c, 0, 0] = 129 * 256 + c := by simp [C15.wsum, words]
            rw [a, b]; omega
          rw [hw]
          have := complement_verifies S
          have e : C15.wsum dst + C15.wsum src + protoICMPv6 + (8 + R.length) + (C15.wsum ([129, c, 0, 0] ++ I) + (65535 - C15.ocRep S) + C15.wsum R)
              = S + (65535 - C15.ocRep S) := by unfold protoICMPv6; omega
          rw [e, this]; rfl
        simp [hver]
end Props.C06
