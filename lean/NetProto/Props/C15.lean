import NetProto.Generated.Arith
import NetProto.Generated.Consts
import NetProto.Model.Header
import NetProto.Spec.Rfc
/-!
# C15 — header codecs and the Internet checksum
-/
set_option maxRecDepth 10000
namespace C15
open Model.Header Spec.Rfc

/-- every element is a byte -/
def Bytes (l : List Nat) : Prop := ∀ x ∈ l, x < 256

/-! ## The constants the hand-written layouts assume are the ones the code has now -/
theorem offsets_anchor :
    Gen.Consts.versIHL = 0 ∧ Gen.Consts.tos = 1 ∧ Gen.Consts.totalLen = 2 ∧ Gen.Consts.id = 4 ∧
    Gen.Consts.flagsFO = 6 ∧ Gen.Consts.ttl = 8 ∧ Gen.Consts.protocol = 9 ∧ Gen.Consts.checksum = 10 ∧
    Gen.Consts.srcAddr = 12 ∧ Gen.Consts.dstAddr = 16 ∧ Gen.Consts.IPv4MinimumSize = 20 ∧
    Gen.Consts.srcPort = 0 ∧ Gen.Consts.dstPort = 2 ∧ Gen.Consts.seqNum = 4 ∧ Gen.Consts.ackNum = 8 ∧
    Gen.Consts.dataOffset = 12 ∧ Gen.Consts.tcpFlags = 13 ∧ Gen.Consts.winSize = 14 ∧
    Gen.Consts.tcpChecksum = 16 ∧ Gen.Consts.urgentPtr = 18 ∧ Gen.Consts.TCPMinimumSize = 20 ∧
    Gen.Consts.udpSrcPort = 0 ∧ Gen.Consts.udpDstPort = 2 ∧ Gen.Consts.udpLength = 4 ∧
    Gen.Consts.udpChecksum = 6 ∧ Gen.Consts.UDPMinimumSize = 8 ∧
    Gen.Consts.versTCFL = 0 ∧ Gen.Consts.payloadLen = 4 ∧ Gen.Consts.nextHdr = 6 ∧ Gen.Consts.hopLimit = 7 ∧
    Gen.Consts.v6SrcAddr = 8 ∧ Gen.Consts.v6DstAddr = 24 ∧ Gen.Consts.IPv6MinimumSize = 40 ∧
    Gen.Consts.dstMAC = 0 ∧ Gen.Consts.srcMAC = 6 ∧ Gen.Consts.ethType = 12 ∧
    Gen.Consts.EtheernetMinimumsize = 14 ∧ Gen.Consts.ARPSize = 28 := by decide

theorem option_kinds_anchor :
    Gen.Consts.TCPOptionEOL = 0 ∧ Gen.Consts.TCPOptionNOP = 1 ∧ Gen.Consts.TCPOptionMSS = 2 ∧
    Gen.Consts.TCPOptionWS = 3 ∧ Gen.Consts.TCPOptionSACKPermitted = 4 ∧ Gen.Consts.TCPOptionSACK = 5 ∧
    Gen.Consts.TCPOptionTS = 8 ∧ Gen.Consts.MaxWndScale = 14 ∧ Gen.Consts.TCPMaxSACKBlocks = 4 := by decide

/-! ## ChecksumCombine -/

/-- the regenerated `ChecksumCombine` is the model's `combine` -/
theorem combine_eq_generated (a b : BitVec 16) :
    (Gen.Arith.ChecksumCombine a b).toNat = combine a.toNat b.toNat := by
  unfold Gen.Arith.ChecksumCombine combine
  have ha := a.isLt
  have hb := b.isLt
  simp only [BitVec.toNat_setWidth, BitVec.toNat_add, BitVec.toNat_ushiftRight, BitVec.toNat_ofNat,
    Nat.shiftRight_eq_div_pow, Nat.reducePow, Nat.reduceMod] at *
  omega

/-- `ChecksumCombine` is end-around-carry addition (∀ pairs) -/
theorem combine_spec (a b : Nat) (ha : a < 65536) (hb : b < 65536) : combine a b = ocAdd a b := by
  unfold combine ocAdd
  simp only
  split <;> omega

/-! ## Checksum = RFC 1071 -/

/-- plain integer sum of the 16-bit words -/
def wsum (l : List Nat) : Nat := (words l).foldl (· + ·) 0

/-- canonical one's-complement representative of an integer sum -/
def ocRep (s : Nat) : Nat := if s = 0 then 0 else (s - 1) % 65535 + 1

theorem ocRep_lt (s : Nat) : ocRep s < 65536 := by unfold ocRep; split <;> omega

theorem ocAdd_ocRep (s w : Nat) (hw : w < 65536) : ocAdd (ocRep s) w = ocRep (s + w) := by
  unfold ocAdd ocRep
  simp only
  split <;> split <;> split <;> omega

theorem foldl_add_shift (l : List Nat) (a : Nat) : l.foldl (· + ·) a = a + l.foldl (· + ·) 0 := by
  induction l generalizing a with
  | nil => simp
  | cons x t ih => simp only [List.foldl_cons]; rw [ih (a + x), ih (0 + x)]; omega

theorem words_lt (l : List Nat) (h : Bytes l) : ∀ w ∈ words l, w < 65536 := by
  induction l using words.induct with
  | case1 => simp [words]
  | case2 a =>
    intro w hw
    simp [words] at hw
    have := h a (by simp)
    omega
  | case3 a b t ih =>
    intro w hw
    simp only [words, List.mem_cons] at hw
    have ha := h a (by simp)
    have hb := h b (by simp)
    rcases hw with hw | hw
    · omega
    · exact ih (fun x hx => h x (by simp [hx])) w hw

theorem fold_ocAdd (ws : List Nat) (s : Nat) (h : ∀ w ∈ ws, w < 65536) :
    ws.foldl ocAdd (ocRep s) = ocRep (s + ws.foldl (· + ·) 0) := by
  induction ws generalizing s with
  | nil => simp
  | cons w t ih =>
    simp only [List.foldl_cons]
    rw [ocAdd_ocRep s w (h w (by simp)), ih (s + w) (fun x hx => h x (by simp [hx]))]
    rw [foldl_add_shift t (0 + w)]
    congr 1
    omega

/-- RFC 1071 sum as an integer sum folded once -/
theorem ocSum_eq (buf : List Nat) (init : Nat) (hb : Bytes buf) (hi : init < 65536) :
    ocSum buf init = ocRep (init + wsum buf) := by
  unfold ocSum wsum
  have : init = ocRep init := by unfold ocRep; split <;> omega
  rw [this, fold_ocAdd _ _ (words_lt buf hb), ← this]

theorem combine_exact (v : Nat) (h : v < 4294967296) :
    combine (v % 65536) (v / 65536 % 65536) = ocRep v := by
  unfold combine ocRep
  simp only
  have h2 : v / 65536 % 65536 = v / 65536 := by omega
  rw [h2]
  generalize hlo : v % 65536 = lo
  generalize hhi : v / 65536 = hi
  have hv : v = 65536 * hi + lo := by omega
  have h1 : lo < 65536 := by omega
  have h3 : hi < 65536 := by omega
  subst hv
  by_cases hs : lo + hi < 65536
  · have : (lo + hi) / 65536 = 0 := by omega
    rw [this]
    split <;> omega
  · have : (lo + hi) / 65536 = 1 := by omega
    rw [this]
    split <;> omega

/-- sum of words of an even-length list, as the loop accumulates it (no overflow) -/
theorem sumPairs_eq (l : List Nat) (v : Nat) (heven : l.length % 2 = 0)
    (hb : v + wsum l < 4294967296) : sumPairs l v = v + wsum l := by
  induction l using words.induct generalizing v with
  | case1 => simp [sumPairs, wsum, words]
  | case2 a => simp at heven
  | case3 a b t ih =>
    have ht : t.length % 2 = 0 := by simp at heven; omega
    have hw : wsum (a :: b :: t) = (a * 256 + b) + wsum t := by
      unfold wsum; simp only [words, List.foldl_cons]; rw [foldl_add_shift]; omega
    rw [hw] at hb ⊢
    unfold sumPairs
    have hlt : v + (a * 256 + b) < 4294967296 := by omega
    have hm : (v + (a * 256 + b)) % 4294967296 = v + (a * 256 + b) := Nat.mod_eq_of_lt hlt
    rw [hm, ih _ ht (by omega)]
    omega

theorem wsum_odd (l : List Nat) (hodd : l.length % 2 = 1) :
    wsum l = wsum (l.take (l.length - 1)) + l.getD (l.length - 1) 0 * 256 := by
  induction l using words.induct with
  | case1 => simp at hodd
  | case2 a => simp [wsum, words]
  | case3 a b t ih =>
    have ht : t.length % 2 = 1 := by simp at hodd; omega
    have hpos : 0 < t.length := by omega
    have hw : ∀ t', wsum (a :: b :: t') = (a * 256 + b) + wsum t' := by
      intro t'; unfold wsum; simp only [words, List.foldl_cons]; rw [foldl_add_shift]; omega
    have e1 : (a :: b :: t).length - 1 = (t.length - 1) + 2 := by simp only [List.length_cons]; omega
    rw [hw, e1, List.take_succ_cons, List.take_succ_cons, hw, ih ht]
    simp
    omega

/-- **`Checksum` computes the RFC 1071 sum** whenever the 32-bit accumulator cannot overflow. -/
theorem checksum_eq_rfc1071_of_bound (buf : List Nat) (init : Nat) (hb : Bytes buf) (hi : init < 65536)
    (hsum : init + wsum buf < 4294967296) : checksum buf init = ocSum buf init := by
  rw [ocSum_eq buf init hb hi]
  unfold checksum
  simp only
  by_cases hodd : buf.length % 2 = 1
  · simp only [hodd, if_true]
    have hw := wsum_odd buf hodd
    have hev : (buf.take (buf.length - 1)).length % 2 = 0 := by simp; omega
    have hm : (init + buf.getD (buf.length - 1) 0 * 256) % 4294967296 = init + buf.getD (buf.length - 1) 0 * 256 :=
      Nat.mod_eq_of_lt (by omega)
    rw [hm, sumPairs_eq _ _ hev (by omega)]
    have : init + buf.getD (buf.length - 1) 0 * 256 + wsum (List.take (buf.length - 1) buf) = init + wsum buf := by omega
    rw [this]
    exact combine_exact _ hsum
  · simp only [hodd, if_false]
    rw [sumPairs_eq _ _ (by omega) hsum]
    exact combine_exact _ hsum

theorem wsum_le (l : List Nat) (hb : Bytes l) : wsum l ≤ ((l.length + 1) / 2) * 65535 := by
  induction l using words.induct with
  | case1 => simp [wsum, words]
  | case2 a =>
    have := hb a (by simp)
    simp [wsum, words]; omega
  | case3 a b t ih =>
    have ha := hb a (by simp)
    have hb' := hb b (by simp)
    have hw : wsum (a :: b :: t) = (a * 256 + b) + wsum t := by
      unfold wsum; simp only [words, List.foldl_cons]; rw [foldl_add_shift]; omega
    have := ih (fun x hx => hb x (by simp [hx]))
    rw [hw]
    simp only [List.length_cons]
    have e : (t.length + 1 + 1 + 1) / 2 = (t.length + 1) / 2 + 1 := by omega
    rw [e]
    omega

/-- **Property clause**: for *every* buffer up to 64 KiB (indeed up to 131 070 bytes) and
    *every* 16-bit initial value, `Checksum` is the RFC 1071 one's-complement sum. -/
theorem checksum_eq_rfc1071 (buf : List Nat) (init : Nat) (hb : Bytes buf) (hi : init < 65536)
    (hlen : buf.length ≤ 131070) : checksum buf init = ocSum buf init := by
  apply checksum_eq_rfc1071_of_bound buf init hb hi
  have := wsum_le buf hb
  have : (buf.length + 1) / 2 ≤ 65535 := by omega
  have : (buf.length + 1) / 2 * 65535 ≤ 65535 * 65535 := Nat.mul_le_mul_right _ this
  omega

/-- a field holding the complement of the sum of everything else makes the total 0xffff:
    "a packet carrying the complemented sum always verifies" -/
theorem verify_complement (s : Nat) : ocRep (s + (65535 - ocRep s)) = 65535 := by
  unfold ocRep
  split <;> split <;> omega

/-- chaining over an even-length prefix is sound: the per-view loops of the senders rely on it -/
theorem ocSum_append_even (a b : List Nat) (init : Nat) (h : a.length % 2 = 0) :
    ocSum (a ++ b) init = ocSum b (ocSum a init) := by
  unfold ocSum
  have : words (a ++ b) = words a ++ words b := by
    induction a using words.induct with
    | case1 => simp [words]
    | case2 x => simp at h
    | case3 x y t ih =>
      have ht : t.length % 2 = 0 := by simp at h; omega
      simp [words, ih ht]
  rw [this, List.foldl_append]

/-- …and unsound over an odd-length prefix (kernel-checked counter-witness) -/
theorem ocSum_append_odd_witness : ocSum ([1] ++ [2]) 0 ≠ ocSum [2] (ocSum [1] 0) := by decide

/-! ## Fixed headers: independent decoding of what the encoders write -/

def B8 (x : Nat) : Prop := x < 256
def B16 (x : Nat) : Prop := x < 65536
def B32 (x : Nat) : Prop := x < 4294967296

theorem udp_decode_encode (old : List Nat) (u : UDPFields) (hl : 8 ≤ old.length)
    (h1 : B16 u.srcPort) (h2 : B16 u.dstPort) (h3 : B16 u.length) (h4 : B16 u.checksum) :
    decodeUDP (udpEncode old u) = some ⟨u.srcPort, u.dstPort, u.length, u.checksum⟩ := by
  obtain ⟨b0, b1, b2, b3, b4, b5, b6, b7, rest, rfl⟩ :
      ∃ b0 b1 b2 b3 b4 b5 b6 b7 rest, old = b0 :: b1 :: b2 :: b3 :: b4 :: b5 :: b6 :: b7 :: rest := by
    match old, hl with
    | b0 :: b1 :: b2 :: b3 :: b4 :: b5 :: b6 :: b7 :: rest, _ => exact ⟨_, _, _, _, _, _, _, _, _, rfl⟩
  unfold B16 at *
  simp [udpEncode, setAt, be16, decodeUDP, row, beVal, bits]
  refine ⟨?_, ?_, ?_, ?_⟩ <;> omega

theorem cons_of_len {l : List Nat} {n : Nat} (h : n + 1 ≤ l.length) : ∃ a t, l = a :: t ∧ n ≤ t.length := by
  cases l with
  | nil => simp at h
  | cons a t => exact ⟨a, t, rfl, by simpa using h⟩

/-- a list of length ≥ 20 is twenty explicit bytes followed by a tail -/
theorem split20 (l : List Nat) (h : 20 ≤ l.length) :
    ∃ b0 b1 b2 b3 b4 b5 b6 b7 b8 b9 b10 b11 b12 b13 b14 b15 b16 b17 b18 b19 rest,
      l = b0 :: b1 :: b2 :: b3 :: b4 :: b5 :: b6 :: b7 :: b8 :: b9 :: b10 :: b11 :: b12 :: b13 :: b14 :: b15 :: b16 :: b17 :: b18 :: b19 :: rest := by
  obtain ⟨b0, l0, rfl, h0⟩ := cons_of_len h
  obtain ⟨b1, l1, rfl, h1⟩ := cons_of_len h0
  obtain ⟨b2, l2, rfl, h2⟩ := cons_of_len h1
  obtain ⟨b3, l3, rfl, h3⟩ := cons_of_len h2
  obtain ⟨b4, l4, rfl, h4⟩ := cons_of_len h3
  obtain ⟨b5, l5, rfl, h5⟩ := cons_of_len h4
  obtain ⟨b6, l6, rfl, h6⟩ := cons_of_len h5
  obtain ⟨b7, l7, rfl, h7⟩ := cons_of_len h6
  obtain ⟨b8, l8, rfl, h8⟩ := cons_of_len h7
  obtain ⟨b9, l9, rfl, h9⟩ := cons_of_len h8
  obtain ⟨b10, l10, rfl, h10⟩ := cons_of_len h9
  obtain ⟨b11, l11, rfl, h11⟩ := cons_of_len h10
  obtain ⟨b12, l12, rfl, h12⟩ := cons_of_len h11
  obtain ⟨b13, l13, rfl, h13⟩ := cons_of_len h12
  obtain ⟨b14, l14, rfl, h14⟩ := cons_of_len h13
  obtain ⟨b15, l15, rfl, h15⟩ := cons_of_len h14
  obtain ⟨b16, l16, rfl, h16⟩ := cons_of_len h15
  obtain ⟨b17, l17, rfl, h17⟩ := cons_of_len h16
  obtain ⟨b18, l18, rfl, h18⟩ := cons_of_len h17
  obtain ⟨b19, l19, rfl, h19⟩ := cons_of_len h18
  exact ⟨_, _, _, _, _, _, _, _, _, _, _, _, _, _, _, _, _, _, _, _, l19, rfl⟩

theorem tcp_decode_encode (old : List Nat) (t : TCPFields) (hl : 20 ≤ old.length)
    (h1 : B16 t.srcPort) (h2 : B16 t.dstPort) (h3 : B32 t.seq) (h4 : B32 t.ack) (h5 : B8 t.dataOffset)
    (h6 : B8 t.flags) (h7 : B16 t.window) (h8 : B16 t.checksum) (h9 : B16 t.urgent) :
    decodeTCP (tcpEncode old t) =
      some ⟨t.srcPort, t.dstPort, t.seq, t.ack, t.dataOffset / 4 % 16, 0, t.flags, t.window, t.checksum, t.urgent⟩ := by
  obtain ⟨b0, b1, b2, b3, b4, b5, b6, b7, b8, b9, b10, b11, b12, b13, b14, b15, b16, b17, b18, b19, rest, rfl⟩ :=
    split20 old hl
  unfold B16 B32 B8 at *
  simp [tcpEncode, setAt, be16, be32, decodeTCP, row, beVal, bits]
  refine ⟨?_, ?_, ?_, ?_, ?_, ?_, ?_, ?_, ?_, ?_⟩ <;> omega

/-- the data-offset accessor returns what the RFC field says, in bytes -/
theorem tcp_dataOffset_spec (old : List Nat) (t : TCPFields) (hl : 20 ≤ old.length) (_h5 : B8 t.dataOffset) :
    tcpDataOffset (tcpEncode old t) = (t.dataOffset / 4 % 16) * 4 := by
  obtain ⟨b0, b1, b2, b3, b4, b5, b6, b7, b8, b9, b10, b11, b12, b13, b14, b15, b16, b17, b18, b19, rest, rfl⟩ :=
    split20 old hl
  unfold B8 at *
  simp [tcpEncode, setAt, be16, be32, tcpDataOffset, rd8]
  omega

theorem or_disjoint (a b k : Nat) (hb : b < 2 ^ k) : (a * 2 ^ k) ||| b = a * 2 ^ k + b := by
  rw [← Nat.shiftLeft_eq, Nat.shiftLeft_add_eq_or_of_lt hb]

theorem ipv4_decode_encode (old : List Nat) (f : IPv4Fields) (hl : 20 ≤ old.length)
    (h1 : B8 f.ihl) (h2 : B8 f.tos) (h3 : B16 f.totalLength) (h4 : B16 f.id) (h5 : B8 f.flags)
    (h6 : B16 f.fragmentOffset) (h7 : B8 f.ttl) (h8 : B8 f.protocol) (h9 : B16 f.checksum)
    (hs : f.src.length = 4) (hd : f.dst.length = 4) :
    decodeIPv4 (ipv4Encode old f) =
      some ⟨4, f.ihl / 4 % 16, f.tos, f.totalLength, f.id, f.flags % 8, f.fragmentOffset / 8, f.ttl, f.protocol,
            f.checksum, f.src, f.dst⟩ := by
  obtain ⟨b0, b1, b2, b3, b4, b5, b6, b7, b8, b9, b10, b11, b12, b13, b14, b15, b16, b17, b18, b19, rest, rfl⟩ :=
    split20 old hl
  rcases f with ⟨ihl, tos, tl, id, fl, fo, ttl, pr, ck, src, dst⟩
  simp only at h1 h2 h3 h4 h5 h6 h7 h8 h9 hs hd ⊢
  obtain ⟨s0, s1, s2, s3, rfl⟩ : ∃ s0 s1 s2 s3, src = [s0, s1, s2, s3] := by
    match src, hs with
    | [s0, s1, s2, s3], _ => exact ⟨_, _, _, _, rfl⟩
  obtain ⟨d0, d1, d2, d3, rfl⟩ : ∃ d0 d1 d2 d3, dst = [d0, d1, d2, d3] := by
    match dst, hd with
    | [d0, d1, d2, d3], _ => exact ⟨_, _, _, _, rfl⟩
  unfold B16 B8 at *
  have hor : ((fl * 8192) % 65536) ||| (fo / 8) = (fl % 8) * 8192 + fo / 8 := by
    have e : (fl * 8192) % 65536 = (fl % 8) * 2 ^ 13 := by omega
    rw [e, or_disjoint _ _ 13 (by omega)]
  simp [ipv4Encode, setAt, be16, decodeIPv4, row, beVal, bits, hor]
  refine ⟨?_, ?_, ?_, ?_, ?_, ?_, ?_, ?_, ?_, ?_⟩ <;> omega

/-- accessors read back what the encoder wrote (masked to wire width) -/
theorem ipv4_accessors (old : List Nat) (f : IPv4Fields) (hl : 20 ≤ old.length)
    (h1 : B8 f.ihl) (h3 : B16 f.totalLength) (h4 : B16 f.id) (h5 : B8 f.flags)
    (h6 : B16 f.fragmentOffset) (h9 : B16 f.checksum) :
    let b := ipv4Encode old f
    ipv4HeaderLength b = (f.ihl / 4 % 16) * 4 ∧ ipv4ID b = f.id ∧ ipv4Flags b = f.flags % 8 ∧
    ipv4FragmentOffset b = f.fragmentOffset / 8 * 8 ∧ ipv4TotalLength b = f.totalLength ∧ ipv4Checksum b = f.checksum := by
  obtain ⟨b0, b1, b2, b3, b4, b5, b6, b7, b8, b9, b10, b11, b12, b13, b14, b15, b16, b17, b18, b19, rest, rfl⟩ :=
    split20 old hl
  unfold B16 B8 at *
  have hor : ((f.flags * 8192) % 65536) ||| (f.fragmentOffset / 8) = (f.flags % 8) * 8192 + f.fragmentOffset / 8 := by
    have e : (f.flags * 8192) % 65536 = (f.flags % 8) * 2 ^ 13 := by omega
    rw [e, or_disjoint _ _ 13 (by omega)]
  simp [ipv4Encode, setAt, be16, ipv4HeaderLength, ipv4ID, ipv4Flags, ipv4FragmentOffset, ipv4TotalLength,
    ipv4Checksum, rd16, rd8, hor]
  refine ⟨?_, ?_, ?_, ?_, ?_, ?_⟩ <;> omega

theorem eth_decode_encode (old src dst : List Nat) (ty : Nat) (hl : 14 ≤ old.length)
    (hs : src.length = 6) (hd : dst.length = 6) (ht : B16 ty) :
    decodeEth (ethEncode old src dst ty) = some ⟨dst, src, ty⟩ := by
  obtain ⟨b0, l0, rfl, h0⟩ := cons_of_len hl
  obtain ⟨b1, l1, rfl, h1⟩ := cons_of_len h0
  obtain ⟨b2, l2, rfl, h2⟩ := cons_of_len h1
  obtain ⟨b3, l3, rfl, h3⟩ := cons_of_len h2
  obtain ⟨b4, l4, rfl, h4⟩ := cons_of_len h3
  obtain ⟨b5, l5, rfl, h5⟩ := cons_of_len h4
  obtain ⟨b6, l6, rfl, h6⟩ := cons_of_len h5
  obtain ⟨b7, l7, rfl, h7⟩ := cons_of_len h6
  obtain ⟨b8, l8, rfl, h8⟩ := cons_of_len h7
  obtain ⟨b9, l9, rfl, h9⟩ := cons_of_len h8
  obtain ⟨b10, l10, rfl, h10⟩ := cons_of_len h9
  obtain ⟨b11, l11, rfl, h11⟩ := cons_of_len h10
  obtain ⟨b12, l12, rfl, h12⟩ := cons_of_len h11
  obtain ⟨b13, l13, rfl, _⟩ := cons_of_len h12
  obtain ⟨s0, s1, s2, s3, s4, s5, rfl⟩ : ∃ s0 s1 s2 s3 s4 s5, src = [s0, s1, s2, s3, s4, s5] := by
    match src, hs with
    | [s0, s1, s2, s3, s4, s5], _ => exact ⟨_, _, _, _, _, _, rfl⟩
  obtain ⟨d0, d1, d2, d3, d4, d5, rfl⟩ : ∃ d0 d1 d2 d3 d4 d5, dst = [d0, d1, d2, d3, d4, d5] := by
    match dst, hd with
    | [d0, d1, d2, d3, d4, d5], _ => exact ⟨_, _, _, _, _, _, rfl⟩
  unfold B16 at ht
  simp [ethEncode, setAt, be16, decodeEth, beVal]
  omega

/-- non-vacuity: a concrete header meets the hypotheses -/
example : decodeIPv4 (ipv4Encode (List.replicate 20 0)
    ⟨20, 0, 40, 7, 2, 0, 64, 6, 0, [10, 0, 0, 1], [10, 0, 0, 2]⟩) =
    some ⟨4, 5, 0, 40, 7, 2, 0, 64, 6, 0, [10, 0, 0, 1], [10, 0, 0, 2]⟩ := by decide

end C15
