import NetProto.Model.TcpStack
/-! Helper (no property theorems here): as `TcpReach`, for endpoint invariants that need a well-formedness
assumption `Q` on the incoming segments (for instance: the acknowledgement number is a 32-bit value, as it is on the
wire).  An invariant of single endpoints that every endpoint handler maintains under `Q` holds for every endpoint of
every stack state reachable by a history all of whose segments satisfy `Q`. -/
namespace Props.TcpReachQ
open Model.Tcp

/-- a property of single endpoints maintained by every way of creating or advancing an endpoint -/
structure EpInvQ (Q : InSeg → Prop) (P : Ep → Prop) : Prop where
  fresh : ∀ iss irs sndWnd mss sws rcvWnd rws mtu rb sb ts rts sp,
    P (newEp iss irs sndWnd mss sws rcvWnd rws mtu rb sb ts rts sp)
  dflt : P default
  failed : ∀ err, P (failedEp err)
  segs : ∀ e l, (∀ s ∈ l, Q s) → P e → P (handleSegments e l).1
  write : ∀ e d, P e → P (appWrite e d).1
  read : ∀ e, P e → P (appRead e).1
  shut : ∀ e, P e → P (appShutdownWrite e).1
  timer : ∀ e, P e → P (timerEvent e).1

/-- every endpoint the stack knows (connected, or waiting in the accept queue) satisfies `P`, and the segments
queued for the waiting ones satisfy `Q` -/
def StAllQ (Q : InSeg → Prop) (P : Ep → Prop) (st : St) : Prop :=
  (∀ x ∈ st.eps, P x.2) ∧ (∀ x ∈ st.acceptQ, P x.2.1 ∧ ∀ s ∈ x.2.2.1, Q s)

/-- the segment an event carries (if any) satisfies `Q` -/
def OpOk (Q : InSeg → Prop) : Op → Prop
  | .seg _ _ s _ => Q s
  | _ => True

variable {Q : InSeg → Prop} {P : Ep → Prop}

theorem setEp_all (st : St) (i p : Nat) (e : Ep) (h : StAllQ Q P st) (he : P e) : StAllQ Q P (setEp st i p e) := by
  refine ⟨?_, h.2⟩
  intro x hx
  rcases List.mem_or_eq_of_mem_set hx with hx | hx
  · exact h.1 x hx
  · subst hx; exact he

theorem append_all (st : St) (y : Nat × Ep × List InSeg × Nat) (h : StAllQ Q P st) (hy : P y.2.1) (hq : ∀ s ∈ y.2.2.1, Q s) :
    ∀ x ∈ st.acceptQ ++ [y], P x.2.1 ∧ ∀ s ∈ x.2.2.1, Q s := by
  intro x hx
  simp only [List.mem_append, List.mem_singleton] at hx
  rcases hx with hx | hx
  · exact h.2 x hx
  · subst hx; exact ⟨hy, hq⟩

theorem listenStep_all (hP : EpInvQ Q P) (st : St) (sp : Nat) (seg : InSeg) (l : Nat) (h : StAllQ Q P st) :
    StAllQ Q P (listenStep st sp seg l).1 := by
  unfold listenStep
  split
  · split
    · exact h
    · exact h
  · split
    · split
      · exact ⟨h.1, append_all st _ h (hP.fresh ..) (fun s hs => by simp at hs)⟩
      · exact h
    · split <;> exact h

theorem activeSeg_all (hP : EpInvQ Q P) (st : St) (i : Nat) (hs : Hs) (sp : Nat) (seg : InSeg) (l : Nat)
    (h : StAllQ Q P st) : StAllQ Q P (activeSeg st i hs sp seg l).1 := by
  unfold activeSeg
  simp only
  split
  · exact ⟨(setEp_all _ _ _ _ h (hP.fresh ..)).1, h.2⟩
  · split
    · exact ⟨(setEp_all _ _ _ _ h (hP.failed _)).1, h.2⟩
    · exact h

theorem passiveSeg_all (hP : EpInvQ Q P) (st : St) (hs : Hs) (sp : Nat) (seg : InSeg) (l : Nat)
    (h : StAllQ Q P st) : StAllQ Q P (passiveSeg st hs sp seg l).1 := by
  unfold passiveSeg
  simp only
  split
  · exact ⟨h.1, append_all st _ h (hP.fresh ..) (fun s hs => by simp at hs)⟩
  · split <;> exact h

theorem queueSeg_all (st : St) (sp : Nat) (seg : InSeg) (h : StAllQ Q P st) (hq : Q seg) : StAllQ Q P (queueSeg st sp seg) := by
  refine ⟨h.1, ?_⟩
  intro x hx
  simp only [queueSeg, List.mem_map] at hx
  obtain ⟨y, hy, rfl⟩ := hx
  have := h.2 y hy
  split
  · refine ⟨this.1, ?_⟩
    intro s hs
    simp only [List.mem_append, List.mem_singleton] at hs
    rcases hs with hs | hs
    · exact this.2 s hs
    · subst hs; exact hq
  · exact this

theorem segStep_all (hP : EpInvQ Q P) (st : St) (sp dp : Nat) (seg : InSeg) (l : Nat) (h : StAllQ Q P st) (hq : Q seg) :
    StAllQ Q P (segStep st sp dp seg l).1 := by
  unfold segStep
  split
  · exact h
  · split
    · rename_i x heq
      split
      · exact h
      · have hm : x ∈ st.eps.zipIdx := List.mem_of_find?_eq_some heq
        have he : P x.1.2 := by
          obtain ⟨⟨p, e⟩, i⟩ := x
          have := List.mem_zipIdx hm
          simp at this
          have hmem : (p, e) ∈ st.eps := by rw [this.2]; exact List.getElem_mem _
          exact h.1 _ hmem
        exact setEp_all _ _ _ _ h (hP.segs _ _ (fun s hs => by simp only [List.mem_singleton] at hs; subst hs; exact hq) he)
    · split
      · exact activeSeg_all hP _ _ _ _ _ _ h
      · split
        · exact passiveSeg_all hP _ _ _ _ _ h
        · split
          · exact listenStep_all hP _ _ _ _ h
          · split
            · exact queueSeg_all _ _ _ h hq
            · exact h

theorem acceptStep_all (hP : EpInvQ Q P) (st : St) (r) (h : StAllQ Q P st) (hr : acceptStep st = some r) :
    StAllQ Q P r.1 := by
  unfold acceptStep at hr
  split at hr
  · cases hr
  · rename_i x rest heq
    cases hr
    have hx := h.2 x (by rw [heq]; exact List.mem_cons_self)
    constructor
    · intro y hy
      simp only [List.mem_append, List.mem_singleton] at hy
      rcases hy with hy | hy
      · exact h.1 y hy
      · subst hy
        exact hP.segs _ _ hx.2 hx.1
    · intro y hy
      exact h.2 y (by rw [heq]; exact List.mem_cons_of_mem _ hy)

theorem connectStep_all (hP : EpInvQ Q P) (st : St) (i iss : Nat) (h : StAllQ Q P st) :
    StAllQ Q P (connectStep st i iss).1 := by
  unfold connectStep
  refine ⟨?_, h.2⟩
  intro x hx
  simp only [List.mem_append, List.mem_replicate] at hx
  rcases hx with hx | ⟨_, hx⟩
  · exact h.1 x hx
  · subst hx; exact hP.dflt

theorem stackStep_all (hP : EpInvQ Q P) (st : St) (op : Op) (h : StAllQ Q P st) (hq : OpOk Q op) : StAllQ Q P (stackStep st op).1 := by
  cases op with
  | listen => exact h
  | cookieMode on => exact h
  | connect i iss => exact connectStep_all hP _ _ _ h
  | seg sp dp s l => exact segStep_all hP _ _ _ _ _ h hq
  | accept =>
    simp only [stackStep]
    split
    · rename_i r hr; exact acceptStep_all hP st r h hr
    · exact h
  | write i d =>
    simp only [stackStep, writeStep]
    split
    · rename_i r hr
      split at hr
      · rename_i p e he
        cases hr
        exact setEp_all _ _ _ _ h (hP.write _ _ (h.1 _ (List.mem_of_getElem? he)))
      · cases hr
    · exact h
  | read i =>
    simp only [stackStep, readStep]
    split
    · rename_i r hr
      split at hr
      · rename_i p e he
        cases hr
        exact setEp_all _ _ _ _ h (hP.read _ (h.1 _ (List.mem_of_getElem? he)))
      · cases hr
    · exact h
  | shutdownWrite i =>
    simp only [stackStep, shutdownStep]
    split
    · rename_i r hr
      split at hr
      · rename_i p e he
        split at hr
        · cases hr; exact h
        · cases hr
          exact setEp_all _ _ _ _ h (hP.shut _ (h.1 _ (List.mem_of_getElem? he)))
      · cases hr
    · exact h
  | timer i =>
    simp only [stackStep, timerStep]
    split
    · rename_i r hr
      split at hr
      · rename_i p e he
        cases hr
        exact setEp_all _ _ _ _ h (hP.timer _ (h.1 _ (List.mem_of_getElem? he)))
      · cases hr
    · exact h

/-- every endpoint of every stack state reachable by a history of well-formed segments satisfies the invariant -/
theorem run_allQ (hP : EpInvQ Q P) (c : Cfg) (ops : List Op) (hops : ∀ op ∈ ops, OpOk Q op) : StAllQ Q P (run c ops).1 := by
  unfold run
  have gen : ∀ (ops : List Op), (∀ op ∈ ops, OpOk Q op) → ∀ (acc : St × List OutSeg), StAllQ Q P acc.1 →
      StAllQ Q P (ops.foldl (fun acc op => let r := stackStep acc.1 op; (r.1, acc.2 ++ r.2)) acc).1 := by
    intro ops
    induction ops with
    | nil => intro _ acc h; exact h
    | cons op rest ih =>
      intro hq acc h
      simp only [List.foldl_cons]
      exact ih (fun o ho => hq o (by simp [ho])) _ (stackStep_all hP _ _ h (hq op (by simp)))
  apply gen ops hops
  constructor
  · intro x hx; simp at hx
  · intro x hx; simp at hx

end Props.TcpReachQ
