import NetProto.Model.Net
/-!
# C09 — inbound packets reach exactly the socket they are addressed to, or nobody
-/
namespace C09
open Model.Net

/-! ## the interface accepts a packet iff the destination is assigned / promiscuous / in an owned subnet -/

theorem accept_iff (n : Nic) (dst : Addr) :
    n.accepts dst = true ↔
      (∃ p ∈ n.addrs, p.2 = dst) ∨ n.promiscuous = true ∨ (∃ s ∈ n.subnets, maskMatch dst s.2.1 s.2.2 = true) := by
  simp [Nic.accepts, List.any_eq_true, or_assoc]

/-- a packet for an address the interface does not own reaches no socket and changes nothing -/
theorem not_for_us_dropped (w : World) (nic np : Nat) (src dst : Addr) (sp dp ul : Nat) (pl : List Nat) (n : Nic)
    (hn : w.nic nic = some n) (ha : n.accepts dst = false) :
    deliverUdp w nic np src dst sp dp ul pl = (w, none) := by
  simp [deliverUdp, hn, ha]

/-! ## most specific match -/

/-- how a registered id matches the packet's 4-tuple `p`: 3 = full 4-tuple (connected, specific local),
    2 = connected with wildcard local, 1 = local address only, 0 = port only -/
def lvl (p r : Tid) : Option Nat :=
  if r = p then some 3
  else if r = { p with laddr := [] } then some 2
  else if r = { p with raddr := [], rport := 0 } then some 1
  else if r = { p with laddr := [], raddr := [], rport := 0 } then some 0
  else none

def regsOf (w : World) (np tr : Nat) : List Reg := w.demux.filter fun r => r.netProto == np && r.trans == tr

theorem lookup_some (w : World) (np tr : Nat) (id : Tid) (e : Nat) (h : w.lookupReg np tr id = some e) :
    ∃ r ∈ regsOf w np tr, r.id = id ∧ r.ep = e := by
  unfold World.lookupReg at h
  simp only [Option.map_eq_some_iff] at h
  obtain ⟨r, hr, rfl⟩ := h
  have hm := List.mem_of_find?_eq_some hr
  have hp := List.find?_some hr
  simp only [Bool.and_eq_true, beq_iff_eq] at hp
  exact ⟨r, by simp [regsOf, hm, hp.1.1, hp.1.2], hp.2, rfl⟩

theorem lookup_none (w : World) (np tr : Nat) (id : Tid) (h : w.lookupReg np tr id = none) :
    ∀ r ∈ regsOf w np tr, r.id ≠ id := by
  unfold World.lookupReg at h
  simp only [Option.map_eq_none_iff, List.find?_eq_none] at h
  intro r hr heq
  simp only [regsOf, List.mem_filter, Bool.and_eq_true, beq_iff_eq] at hr
  have := h r hr.1
  simp [hr.2.1, hr.2.2, heq] at this

/-- **Most specific match**: the endpoint chosen is registered under an id that matches the packet,
    and no registered id matches it more specifically (connected before bound, specific local address
    before wildcard). -/
theorem find_most_specific (w : World) (np tr : Nat) (p : Tid) (e : Nat)
    (h : w.findEndpoint np tr p = some e) :
    ∃ r ∈ regsOf w np tr, r.ep = e ∧ ∃ k, lvl p r.id = some k ∧
      ∀ r' ∈ regsOf w np tr, ∀ k', lvl p r'.id = some k' → k' ≤ k := by
  unfold World.findEndpoint at h
  cases h3 : w.lookupReg np tr p with
  | some e3 =>
    simp only [h3, Option.some.injEq] at h; subst h
    obtain ⟨r, hr, hid, hep⟩ := lookup_some w np tr p e3 h3
    refine ⟨r, hr, hep, 3, by simp [lvl, hid], ?_⟩
    intro r' _ k' hk'
    unfold lvl at hk'
    repeat' split at hk'
    all_goals simp at hk'
    all_goals omega
  | none =>
    simp only [h3] at h
    have n3 := lookup_none w np tr p h3
    cases h2 : w.lookupReg np tr { p with laddr := [] } with
    | some e2 =>
      simp only [h2, Option.some.injEq] at h; subst h
      obtain ⟨r, hr, hid, hep⟩ := lookup_some w np tr _ e2 h2
      have hne : r.id ≠ p := n3 r hr
      have hl : lvl p r.id = some 2 := by unfold lvl; rw [if_neg hne, if_pos hid]
      refine ⟨r, hr, hep, 2, hl, ?_⟩
      intro r' hr' k' hk'
      have := n3 r' hr'
      unfold lvl at hk'
      repeat' split at hk'
      all_goals simp at hk'
      all_goals first | omega | contradiction
    | none =>
      simp only [h2] at h
      have n2 := lookup_none w np tr _ h2
      cases h1 : w.lookupReg np tr { p with raddr := [], rport := 0 } with
      | some e1 =>
        simp only [h1, Option.some.injEq] at h; subst h
        obtain ⟨r, hr, hid, hep⟩ := lookup_some w np tr _ e1 h1
        have hne3 : r.id ≠ p := n3 r hr
        have hne2 : r.id ≠ { p with laddr := [] } := n2 r hr
        have hl : lvl p r.id = some 1 := by unfold lvl; rw [if_neg hne3, if_neg hne2, if_pos hid]
        refine ⟨r, hr, hep, 1, hl, ?_⟩
        intro r' hr' k' hk'
        have a3 := n3 r' hr'
        have a2 := n2 r' hr'
        unfold lvl at hk'
        repeat' split at hk'
        all_goals simp at hk'
        all_goals first | omega | contradiction
      | none =>
        simp only [h1] at h
        have n1 := lookup_none w np tr _ h1
        obtain ⟨r, hr, hid, hep⟩ := lookup_some w np tr _ e h
        have hne3 : r.id ≠ p := n3 r hr
        have hne2 : r.id ≠ { p with laddr := [] } := n2 r hr
        have hne1 : r.id ≠ { p with raddr := [], rport := 0 } := n1 r hr
        have hl : lvl p r.id = some 0 := by unfold lvl; rw [if_neg hne3, if_neg hne2, if_neg hne1, if_pos hid]
        refine ⟨r, hr, hep, 0, hl, ?_⟩
        intro r' hr' k' hk'
        have a3 := n3 r' hr'
        have a2 := n2 r' hr'
        have a1 := n1 r' hr'
        unfold lvl at hk'
        repeat' split at hk'
        all_goals simp at hk'
        all_goals first | omega | contradiction

/-- **nobody** iff no registered id matches the packet at any level -/
theorem find_none_iff (w : World) (np tr : Nat) (p : Tid) :
    w.findEndpoint np tr p = none ↔ ∀ r ∈ regsOf w np tr, lvl p r.id = none := by
  constructor
  · intro h
    unfold World.findEndpoint at h
    cases h3 : w.lookupReg np tr p <;> simp only [h3] at h
    · cases h2 : w.lookupReg np tr { p with laddr := [] } <;> simp only [h2] at h
      · cases h1 : w.lookupReg np tr { p with raddr := [], rport := 0 } <;> simp only [h1] at h
        · intro r hr
          have a3 := lookup_none w np tr _ h3 r hr
          have a2 := lookup_none w np tr _ h2 r hr
          have a1 := lookup_none w np tr _ h1 r hr
          have a0 := lookup_none w np tr _ h r hr
          unfold lvl
          simp [a3, a2, a1, a0]
        · simp at h
      · simp at h
    · simp at h
  · intro h
    by_cases hf : w.findEndpoint np tr p = none
    · exact hf
    · obtain ⟨e, he⟩ := Option.ne_none_iff_exists'.mp hf
      obtain ⟨r, hr, _, k, hk, _⟩ := find_most_specific w np tr p e he
      rw [h r hr] at hk
      simp at hk

/-! ## registrations are unique per (network, transport, id) -/

def UniqueRegs (w : World) : Prop :=
  w.demux.Pairwise fun a b => ¬ (a.netProto = b.netProto ∧ a.trans = b.trans ∧ a.id = b.id)

theorem mem_dedup (l : List Nat) (a : Nat) : a ∈ dedup l ↔ a ∈ l := by
  induction l with
  | nil => simp [dedup]
  | cons x t ih =>
    unfold dedup
    by_cases h : t.contains x = true
    · simp only [h, if_true, ih, List.mem_cons]
      have hx : x ∈ t := by simpa using h
      constructor
      · exact Or.inr
      · rintro (rfl | h') <;> assumption
    · simp only [h, Bool.false_eq_true, if_false, List.mem_cons, ih]

theorem dedup_nodup (l : List Nat) : (dedup l).Nodup := by
  induction l with
  | nil => simp [dedup]
  | cons x t ih =>
    unfold dedup
    by_cases h : t.contains x = true
    · simp only [h, if_true]; exact ih
    · simp only [h, Bool.false_eq_true, if_false, List.nodup_cons]
      refine ⟨?_, ih⟩
      rw [mem_dedup]
      simpa using h

theorem register_unique (w : World) (nps : List Nat) (tr : Nat) (id : Tid) (ep : Nat) (w' : World)
    (hu : UniqueRegs w) (h : w.register nps tr id ep = some w') : UniqueRegs w' := by
  unfold World.register at h
  split at h
  · simp at h
  · rename_i hfree
    simp only [Option.some.injEq] at h
    subst h
    unfold UniqueRegs at *
    simp only
    rw [List.pairwise_append]
    refine ⟨hu, ?_, ?_⟩
    · rw [List.pairwise_map]
      have hnd : (dedup nps).Nodup := dedup_nodup _
      exact hnd.imp (fun hab hcon => hab hcon.1)
    · intro a ha b hb hcon
      simp only [List.mem_map] at hb
      obtain ⟨n, hn, rfl⟩ := hb
      simp only at hcon
      have hn' : n ∈ nps := (mem_dedup nps n).mp hn
      have : (w.lookupReg n tr id).isSome = true := by
        unfold World.lookupReg
        simp only [Option.isSome_map, List.find?_isSome]
        exact ⟨a, ha, by simp [hcon.1, hcon.2.1, hcon.2.2]⟩
      simp only [List.any_eq_true, not_exists, not_and, Bool.not_eq_true] at hfree
      have := hfree n hn'
      simp_all

theorem unregister_unique (w : World) (nps : List Nat) (tr : Nat) (id : Tid) (hu : UniqueRegs w) :
    UniqueRegs (w.unregister nps tr id) := by
  unfold UniqueRegs World.unregister at *
  exact List.Pairwise.filter _ hu

/-! ## delivery touches exactly the chosen socket -/

/-- **Exactly one or nobody**: an inbound datagram changes at most the receive queue of the endpoint
    the demultiplexer chose; every other socket, the port table and the registrations are untouched. -/
theorem deliver_frame (w : World) (nic np : Nat) (src dst : Addr) (sp dp ul : Nat) (pl : List Nat) :
    let r := deliverUdp w nic np src dst sp dp ul pl
    r.1.demux = w.demux ∧ r.1.ports = w.ports ∧ r.1.nics = w.nics ∧
    (∀ j, r.2 ≠ some j → r.1.udp[j]? = w.udp[j]?) ∧
    (r.2 = none → r.1.udp = w.udp) := by
  simp only
  unfold deliverUdp
  cases hn : w.nic nic with
  | none => simp
  | some n =>
    simp only
    split
    · simp
    · cases hf : w.findEndpoint np udpProto { lport := dp, laddr := dst, rport := sp, raddr := src } with
      | none => simp
      | some i =>
        simp only
        cases he : w.udp[i]? with
        | none => simp
        | some e =>
          simp only [World.setUdp]
          refine ⟨trivial, trivial, trivial, ?_, by simp⟩
          intro j hj
          have : i ≠ j := fun h => hj (by rw [h])
          simp [List.getElem?_set_ne this]

/-- the socket that receives is the one `findEndpoint` names -/
theorem deliver_to_found (w : World) (nic np : Nat) (src dst : Addr) (sp dp ul : Nat) (pl : List Nat) (i : Nat)
    (h : (deliverUdp w nic np src dst sp dp ul pl).2 = some i) :
    w.findEndpoint np udpProto { lport := dp, laddr := dst, rport := sp, raddr := src } = some i := by
  unfold deliverUdp at h
  cases hn : w.nic nic with
  | none => simp [hn] at h
  | some n =>
    simp only [hn] at h
    split at h
    · simp at h
    · cases hf : w.findEndpoint np udpProto { lport := dp, laddr := dst, rport := sp, raddr := src } with
      | none => simp [hf] at h
      | some j =>
        simp only [hf] at h
        cases he : w.udp[j]? with
        | none => simp [he] at h
        | some e => simp only [he, Option.some.injEq] at h; rw [h]

/-- non-vacuity: a connected socket wins over a bound one on the same port -/
example :
    let w : World := { demux := [⟨v4, udpProto, { lport := 7000 }, 0⟩,
                                 ⟨v4, udpProto, { lport := 7000, laddr := [10, 0, 0, 1], rport := 9, raddr := [10, 0, 0, 9] }, 1⟩] }
    w.findEndpoint v4 udpProto { lport := 7000, laddr := [10, 0, 0, 1], rport := 9, raddr := [10, 0, 0, 9] } = some 1 ∧
    w.findEndpoint v4 udpProto { lport := 7000, laddr := [10, 0, 0, 1], rport := 8, raddr := [10, 0, 0, 9] } = some 0 := by
  decide

end C09
